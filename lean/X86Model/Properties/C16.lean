/-
C16 — System-register wrappers hit the right register and never lose bits.

Every statement quantifies over an arbitrary prior register file `c : Cpu` (all control, debug,
extended-control registers, every MSR, RFLAGS, selectors) and all argument values. Most are
stated as one equation giving the complete outcome of the wrapper:
  `wrapper args c = ⟨result, final register file, instructions executed, []⟩`
so that a single theorem says (a) which instructions are executed, on which register / MSR index
and with which operand split, (b) the returned value, (c) the new content of the named register,
written with the specification's formulas (`typedRead`, `typedWrite`, `typedUpdate` of
Spec/Regs.lean), and (d) that nothing else changes (the final file is `c` with one field updated).
-/
import X86Model.Proofs.Regs
import X86Model.Proofs.TrapBits
import X86Model.Spec.AsmOptions

namespace X86.C16
open X86 X86.Spec X86.Consts X86.Regs

/-! #### `Msr::read` / `Msr::write`: ECX = number, EAX = low 32 bits, EDX = high 32 bits -/

theorem msr_read (reg : BitVec 32) (c : Cpu) :
    Msr.read reg c = ⟨.ok (c.msr reg.toNat), c, [.rdmsr reg], []⟩ := Msr.read_run reg c

theorem msr_write (reg : BitVec 32) (v : BitVec 64) (c : Cpu) :
    Msr.write reg v c =
      ⟨.ok (), c.setMsr reg.toNat v, [.wrmsr reg (v.truncate 32) ((v >>> 32).truncate 32)], []⟩ :=
  Msr.write_run reg v c

/-- The operand split is lossless: `EDX:EAX` is the value, so the MSR holds exactly `v` afterwards
and a following read returns `v`. -/
theorem msr_write_read (reg : BitVec 32) (v : BitVec 64) (c : Cpu) :
    ((do Msr.write reg v; Msr.read reg : M (BitVec 64)) c).res = .ok v := by
  rw [M.bind_ok _ _ c _ _ _ _ (Msr.write_run reg v c), Msr.read_run, Cpu.msr_setMsr]

/-! #### CR0 -/

theorem cr0_read_raw (c : Cpu) : Cr0.readRaw c = ⟨.ok c.cr0, c, [.movFromCr 0], []⟩ := rfl

theorem cr0_read (c : Cpu) :
    Cr0.read c = ⟨.ok (typedRead CR0_ALL c.cr0), c, [.movFromCr 0], []⟩ := rfl

theorem cr0_write_raw (v : BitVec 64) (c : Cpu) :
    Cr0.writeRaw v c = ⟨.ok (), { c with cr0 := v }, [.movToCr 0 v], []⟩ := rfl

theorem cr0_write (flags : BitVec 64) (c : Cpu) :
    Cr0.write flags c = ⟨.ok (), { c with cr0 := typedWrite CR0_ALL c.cr0 flags },
      [.movFromCr 0, .movToCr 0 (typedWrite CR0_ALL c.cr0 flags)], []⟩ := rfl

theorem cr0_update (f : BitVec 64 → BitVec 64) (c : Cpu) :
    Cr0.update f c = ⟨.ok (), { c with cr0 := typedUpdate CR0_ALL c.cr0 f },
      [.movFromCr 0, .movFromCr 0, .movToCr 0 (typedUpdate CR0_ALL c.cr0 f)], []⟩ := rfl

/-- `update` is read; f; write. -/
theorem cr0_update_eq (f : BitVec 64 → BitVec 64) :
    Cr0.update f = (do let fl ← Cr0.read; Cr0.write (f fl)) := rfl


/-- Round trip, and the meaning of "stores the fields, preserves the rest": for flags within the
type, the next typed read returns them and every unmodelled bit of CR0 is the old bit. -/
theorem cr0_write_read (flags : BitVec 64) (c : Cpu) (h : flags &&& ~~~CR0_ALL = 0#64) :
    ((do Cr0.write flags; Cr0.read : M (BitVec 64)) c).res = .ok flags ∧
    (Cr0.write flags c).cpu.cr0 &&& ~~~CR0_ALL = c.cr0 &&& ~~~CR0_ALL :=
  ⟨congrArg R.ok (typedRead_typedWrite CR0_ALL c.cr0 flags h), typedWrite_preserves CR0_ALL c.cr0 flags h⟩

/-! #### CR2 -/

theorem cr2_read_raw (c : Cpu) : Cr2.readRaw c = ⟨.ok c.cr2, c, [.movFromCr 2], []⟩ := rfl

/-- `Cr2::read` is `Ok(address)` exactly for canonical contents. -/
theorem cr2_read (c : Cpu) :
    Cr2.read c = ⟨.ok (if canonical c.cr2 then some c.cr2 else none), c, [.movFromCr 2], []⟩ := by
  have h : virtTryNew c.cr2 = if canonical c.cr2 then some c.cr2 else none := by
    by_cases hc : canonical c.cr2 = true
    · have := (canonical_iff c.cr2).1 hc; simp only [virtTryNew, this, hc, if_true]
    · have hn : ¬ virtNewTruncate c.cr2 = c.cr2 := fun e => hc ((canonical_iff c.cr2).2 e)
      simp only [virtTryNew, hn, hc, if_false, Bool.false_eq_true]
  show (⟨.ok (virtTryNew c.cr2), c, [.movFromCr 2], []⟩ : Ran _) = _
  rw [h]

/-! #### CR3 -/

theorem cr3_read_raw (c : Cpu) :
    Cr3.readRaw c = ⟨.ok (cr3Frame c.cr3, (cr3Low12 c.cr3).truncate 16), c, [.movFromCr 3], []⟩ := by
  unfold Cr3.readRaw
  run_model
  simp only [Cpu.cr, physNew_cr3, frameContaining_cr3, cr3Frame, cr3Low12]

theorem cr3_read (c : Cpu) :
    Cr3.read c = ⟨.ok (cr3Frame c.cr3, typedRead CR3_ALL c.cr3), c, [.movFromCr 3], []⟩ := by
  unfold Cr3.read
  rw [M.bind_ok _ _ c _ _ _ _ (cr3_read_raw c)]
  have h : ((cr3Low12 c.cr3).truncate 16 : BitVec 16).zeroExtend 64 &&& CR3_ALL = typedRead CR3_ALL c.cr3 := by
    simp only [cr3Low12, typedRead, CR3_ALL, BitVec.truncate_eq_setWidth]; bv_decide
  simp only [pure, M.pure, h, List.append_nil]

/-- `read_pcid` never panics: the low 12 bits are always a valid PCID. -/
theorem cr3_read_pcid (c : Cpu) :
    Cr3.readPcid c = ⟨.ok (cr3Frame c.cr3, (cr3Low12 c.cr3).truncate 16), c, [.movFromCr 3], []⟩ := by
  unfold Cr3.readPcid
  rw [M.bind_ok _ _ c _ _ _ _ (cr3_read_raw c)]
  have h : ¬ ((cr3Low12 c.cr3).truncate 16 : BitVec 16).toNat ≥ 4096 := by
    have : ((cr3Low12 c.cr3).truncate 16 : BitVec 16) &&& 0xf000#16 = 0#16 := by
      simp only [cr3Low12, BitVec.truncate_eq_setWidth]; bv_decide
    have h2 : ((cr3Low12 c.cr3).truncate 16 : BitVec 16) < 0x1000#16 := by bv_decide
    simp only [BitVec.lt_def, BitVec.toNat_ofNat] at h2; omega
  simp only [h, if_false, pure, M.pure, List.append_nil]

/-- The value `write_raw_impl` hands to `mov cr3` and what CR3 holds afterwards (bit 63 of the
operand only selects "no flush" and is not stored). Only CR3 changes. -/
theorem cr3_write_raw_impl (top : Bool) (frame : BitVec 64) (val : BitVec 16) (c : Cpu) :
    Cr3.writeRawImpl top frame val c =
      ⟨.ok (), { c with cr3 := (((if top then 1#64 else 0#64) <<< 63) ||| frame ||| val.zeroExtend 64) &&& ~~~(1#64 <<< 63) },
       [.movToCr 3 (((if top then 1#64 else 0#64) <<< 63) ||| frame ||| val.zeroExtend 64)], []⟩ := rfl

/-- For a valid frame, CR3 afterwards is exactly frame | low bits, for all four writers. -/
theorem cr3_write (frame flags : BitVec 64) (c : Cpu) (hf : frameValid frame = true) :
    (Cr3.write frame flags c).cpu = { c with cr3 := frame ||| (flags &&& 0xffff#64) } ∧
    (Cr3.write frame flags c).trace = [.movToCr 3 (frame ||| (flags &&& 0xffff#64))] := by
  simp only [frameValid, beq_iff_eq] at hf
  have h : ((if false = true then 1#64 else 0#64) <<< 63 ||| frame ||| (flags.truncate 16 : BitVec 16).zeroExtend 64)
      = frame ||| (flags &&& 0xffff#64) := by
    simp only [Bool.false_eq_true, if_false, BitVec.truncate_eq_setWidth]; bv_decide
  have h2 : (frame ||| (flags &&& 0xffff#64)) &&& ~~~(1#64 <<< 63) = frame ||| (flags &&& 0xffff#64) := by bv_decide
  simp only [Cr3.write, cr3_write_raw_impl, h, h2, and_self]

theorem cr3_write_pcid (frame : BitVec 64) (pcid : BitVec 16) (noFlush : Bool) (c : Cpu)
    (hf : frameValid frame = true) :
    (Cr3.writeRawImpl noFlush frame pcid c).cpu = { c with cr3 := frame ||| pcid.zeroExtend 64 } ∧
    (Cr3.writeRawImpl noFlush frame pcid c).trace =
      [.movToCr 3 (((if noFlush then 1#64 else 0#64) <<< 63) ||| frame ||| pcid.zeroExtend 64)] := by
  simp only [frameValid, beq_iff_eq] at hf
  have h : (((if noFlush then 1#64 else 0#64) <<< 63) ||| frame ||| pcid.zeroExtend 64) &&& ~~~(1#64 <<< 63)
      = frame ||| pcid.zeroExtend 64 := by
    cases noFlush <;> simp only [Bool.false_eq_true, if_false, if_true] <;> bv_decide
  simp only [cr3_write_raw_impl, h, and_self]

/-- Round trip frame + flags. -/
theorem cr3_write_read (frame flags : BitVec 64) (c : Cpu) (hf : frameValid frame = true)
    (hfl : flags &&& ~~~CR3_ALL = 0#64) :
    ((do Cr3.write frame flags; Cr3.read : M (BitVec 64 × BitVec 64)) c).res = .ok (frame, flags) := by
  have hw := Ran.eta (Cr3.write frame flags c)
  rw [(cr3_write frame flags c hf).1, (cr3_write frame flags c hf).2] at hw
  have hres : (Cr3.write frame flags c).res = .ok () := rfl
  rw [hres] at hw
  rw [M.bind_ok _ _ c _ _ _ _ hw, cr3_read]
  simp only [frameValid, beq_iff_eq] at hf
  have h1 : cr3Frame (frame ||| (flags &&& 0xffff#64)) = frame := by
    simp only [cr3Frame, CR3_ALL] at *; bv_decide
  have h2 : typedRead CR3_ALL (frame ||| (flags &&& 0xffff#64)) = flags := by
    simp only [typedRead, CR3_ALL] at *; bv_decide
  simp only [h1, h2]

/-- Round trip frame + PCID, with and without the no-flush bit. -/
theorem cr3_write_pcid_read_pcid (frame : BitVec 64) (pcid : BitVec 16) (noFlush : Bool) (c : Cpu)
    (hf : frameValid frame = true) (hp : pcid.toNat < 4096) :
    ((do Cr3.writeRawImpl noFlush frame pcid; Cr3.readPcid : M (BitVec 64 × BitVec 16)) c).res
      = .ok (frame, pcid) := by
  have hw := Ran.eta (Cr3.writeRawImpl noFlush frame pcid c)
  rw [(cr3_write_pcid frame pcid noFlush c hf).1, (cr3_write_pcid frame pcid noFlush c hf).2] at hw
  have hres : (Cr3.writeRawImpl noFlush frame pcid c).res = .ok () := rfl
  rw [hres] at hw
  rw [M.bind_ok _ _ c _ _ _ _ hw, cr3_read_pcid]
  simp only [frameValid, beq_iff_eq] at hf
  have hp' : pcid < 0x1000#16 := by simp only [BitVec.lt_def, BitVec.toNat_ofNat]; omega
  have h1 : cr3Frame (frame ||| pcid.zeroExtend 64) = frame := by
    simp only [cr3Frame]; bv_decide
  have h2 : ((cr3Low12 (frame ||| pcid.zeroExtend 64)).truncate 16 : BitVec 16) = pcid := by
    simp only [cr3Low12, BitVec.truncate_eq_setWidth]; bv_decide
  simp only [h1, h2]

theorem cr3_update_eq (f : BitVec 64 × BitVec 64 → BitVec 64 × BitVec 64) :
    Cr3.update f = (do let p ← Cr3.read; Cr3.write (f p).1 (f p).2) := rfl

/-! #### CR4 -/

theorem cr4_read_raw (c : Cpu) : Cr4.readRaw c = ⟨.ok c.cr4, c, [.movFromCr 4], []⟩ := rfl

theorem cr4_read (c : Cpu) :
    Cr4.read c = ⟨.ok (typedRead CR4_ALL c.cr4), c, [.movFromCr 4], []⟩ := rfl

theorem cr4_write_raw (v : BitVec 64) (c : Cpu) :
    Cr4.writeRaw v c = ⟨.ok (), { c with cr4 := v }, [.movToCr 4 v], []⟩ := rfl

theorem cr4_write (flags : BitVec 64) (c : Cpu) :
    Cr4.write flags c = ⟨.ok (), { c with cr4 := typedWrite CR4_ALL c.cr4 flags },
      [.movFromCr 4, .movToCr 4 (typedWrite CR4_ALL c.cr4 flags)], []⟩ := rfl

theorem cr4_update (f : BitVec 64 → BitVec 64) (c : Cpu) :
    Cr4.update f c = ⟨.ok (), { c with cr4 := typedUpdate CR4_ALL c.cr4 f },
      [.movFromCr 4, .movFromCr 4, .movToCr 4 (typedUpdate CR4_ALL c.cr4 f)], []⟩ := rfl

theorem cr4_write_read (flags : BitVec 64) (c : Cpu) (h : flags &&& ~~~CR4_ALL = 0#64) :
    ((do Cr4.write flags; Cr4.read : M (BitVec 64)) c).res = .ok flags ∧
    (Cr4.write flags c).cpu.cr4 &&& ~~~CR4_ALL = c.cr4 &&& ~~~CR4_ALL :=
  ⟨congrArg R.ok (typedRead_typedWrite CR4_ALL c.cr4 flags h), typedWrite_preserves CR4_ALL c.cr4 flags h⟩

/-! #### EFER (MSR C000_0080h) -/

theorem efer_read_raw (c : Cpu) :
    Efer.readRaw c = ⟨.ok (c.msr ARCH_EFER), c, [.rdmsr 0xC0000080#32], []⟩ := Msr.read_run _ c

theorem efer_read (c : Cpu) :
    Efer.read c = ⟨.ok (typedRead EFER_ALL (c.msr ARCH_EFER)), c, [.rdmsr 0xC0000080#32], []⟩ := by
  unfold Efer.read
  rw [M.bind_ok _ _ c _ _ _ _ (efer_read_raw c)]
  rfl

theorem efer_write_raw (v : BitVec 64) (c : Cpu) :
    Efer.writeRaw v c = ⟨.ok (), c.setMsr ARCH_EFER v,
      [.wrmsr 0xC0000080#32 (v.truncate 32) ((v >>> 32).truncate 32)], []⟩ := Msr.write_run _ v c

theorem efer_write (flags : BitVec 64) (c : Cpu) :
    Efer.write flags c =
      ⟨.ok (), c.setMsr ARCH_EFER (typedWrite EFER_ALL (c.msr ARCH_EFER) flags),
       [.rdmsr 0xC0000080#32,
        .wrmsr 0xC0000080#32 ((typedWrite EFER_ALL (c.msr ARCH_EFER) flags).truncate 32)
          ((typedWrite EFER_ALL (c.msr ARCH_EFER) flags >>> 32).truncate 32)], []⟩ := by
  unfold Efer.write
  rw [M.bind_ok _ _ c _ _ _ _ (efer_read_raw c), efer_write_raw]
  rfl

theorem efer_update (f : BitVec 64 → BitVec 64) (c : Cpu) :
    (Efer.update f c).cpu = c.setMsr ARCH_EFER (typedUpdate EFER_ALL (c.msr ARCH_EFER) f) ∧
    (Efer.update f c).res = .ok () := by
  unfold Efer.update
  rw [M.bind_ok _ _ c _ _ _ _ (efer_read c), efer_write]
  exact ⟨rfl, rfl⟩

theorem efer_write_read (flags : BitVec 64) (c : Cpu) (h : flags &&& ~~~EFER_ALL = 0#64) :
    ((do Efer.write flags; Efer.read : M (BitVec 64)) c).res = .ok flags := by
  rw [M.bind_ok _ _ c _ _ _ _ (efer_write flags c), efer_read, Cpu.msr_setMsr,
    typedRead_typedWrite _ _ _ h]

/-! #### FS.base, GS.base, KernelGSbase, LSTAR: address-valued MSRs -/

/-- Reading: the right MSR; the content is returned unchanged when canonical (a non-canonical
content, which the hardware never holds, makes `VirtAddr::new` panic). -/
theorem addr_msr_read (reg : BitVec 32) (c : Cpu) :
    addrMsrRead reg c =
      ⟨if canonical (c.msr reg.toNat) then .ok (c.msr reg.toNat) else .panic, c, [.rdmsr reg], []⟩ := by
  unfold addrMsrRead
  rw [M.bind_ok _ _ c _ _ _ _ (Msr.read_run reg c)]
  by_cases h : canonical (c.msr reg.toNat) = true
  · simp only [M.ofR, virtNew_canonical _ h, h, if_true, List.append_nil]
  · have h' : canonical (c.msr reg.toNat) = false := by simpa using h
    simp only [M.ofR, virtNew_noncanonical _ h', h', Bool.false_eq_true, if_false, List.append_nil]

theorem addr_msr_write (reg : BitVec 32) (a : BitVec 64) (c : Cpu) :
    addrMsrWrite reg a c = ⟨.ok (), c.setMsr reg.toNat a,
      [.wrmsr reg (a.truncate 32) ((a >>> 32).truncate 32)], []⟩ := Msr.write_run reg a c

theorem addr_msr_write_read (reg : BitVec 32) (a : BitVec 64) (c : Cpu) (h : canonical a = true) :
    ((do addrMsrWrite reg a; addrMsrRead reg : M (BitVec 64)) c).res = .ok a := by
  rw [M.bind_ok _ _ c _ _ _ _ (addr_msr_write reg a c), addr_msr_read, Cpu.msr_setMsr]
  simp only [h, if_true]

/-- The four wrappers are these two functions on the architectural MSR numbers. -/
theorem addr_msr_numbers :
    (FsBase.read = addrMsrRead 0xC0000100#32 ∧ FsBase.write = addrMsrWrite 0xC0000100#32) ∧
    (GsBase.read = addrMsrRead 0xC0000101#32 ∧ GsBase.write = addrMsrWrite 0xC0000101#32) ∧
    (KernelGsBase.read = addrMsrRead 0xC0000102#32 ∧ KernelGsBase.write = addrMsrWrite 0xC0000102#32) ∧
    (LStar.read = addrMsrRead 0xC0000082#32 ∧ LStar.write = addrMsrWrite 0xC0000082#32) ∧
    (0xC0000100#32).toNat = ARCH_FS_BASE ∧ (0xC0000101#32).toNat = ARCH_GS_BASE ∧
    (0xC0000102#32).toNat = ARCH_KERNEL_GS_BASE ∧ (0xC0000082#32).toNat = ARCH_LSTAR :=
  ⟨⟨rfl, rfl⟩, ⟨rfl, rfl⟩, ⟨rfl, rfl⟩, ⟨rfl, rfl⟩, rfl, rfl, rfl, rfl⟩


/-! #### STAR (MSR C000_0081h) -/

theorem star_read_raw (c : Cpu) :
    Star.readRaw c =
      ⟨.ok (((c.msr ARCH_STAR) >>> 48).truncate 16, ((c.msr ARCH_STAR) >>> 32).truncate 16), c,
       [.rdmsr 0xC0000081#32], []⟩ := by
  unfold Star.readRaw
  rw [M.bind_ok _ _ c _ _ _ _ (Msr.read_run MSR_STAR c)]
  rfl

/-- `write_raw` places the SYSRET base in bits 63:48 and the SYSCALL base in bits 47:32. -/
theorem star_write_raw (sysret syscall : BitVec 16) (c : Cpu) :
    (Star.writeRaw sysret syscall c).cpu =
      c.setMsr ARCH_STAR ((sysret.zeroExtend 64 <<< 48) ||| (syscall.zeroExtend 64 <<< 32)) ∧
    (Star.writeRaw sysret syscall c).res = .ok () ∧
    (Star.writeRaw sysret syscall c).trace.length = 1 := by
  unfold Star.writeRaw
  rw [Msr.write_run]
  exact ⟨rfl, rfl, rfl⟩

/-- Each of the four documented rejections (the specification's `starRejection`, in its order)
returns the corresponding error *without executing any instruction and without changing any
register*: rejected before any `wrmsr`. -/
theorem star_write_rejected (cfg : Cfg) (a b x y : BitVec 16) (c : Cpu) (e : String)
    (h : starRejection a.toNat b.toNat x.toNat y.toNat = some e) :
    ∃ err, Star.write cfg a b x y c = ⟨.ok (.error err), c, [], []⟩ ∧ err.name = e := by
  have hb : (b &&& 3#16 ≠ 3#16) ↔ b.toNat % 4 ≠ 3 := not_congr (sel_rpl3 b)
  have hy : (y &&& 3#16 ≠ 0#16) ↔ y.toNat % 4 ≠ 0 := not_congr (sel_rpl0 y)
  unfold starRejection at h
  unfold Star.write
  by_cases h1 : (a.toNat : Int) - 16 ≠ (b.toNat : Int) - 8
  · rw [if_pos h1] at h; injection h with h
    exact ⟨.sysretOffset, by rw [if_pos h1]; rfl, h⟩
  · rw [if_neg h1] at h
    by_cases h2 : (x.toNat : Int) ≠ (y.toNat : Int) - 8
    · rw [if_pos h2] at h; injection h with h
      exact ⟨.syscallOffset, by rw [if_neg h1, if_pos h2]; rfl, h⟩
    · rw [if_neg h2] at h
      by_cases h3 : b.toNat % 4 ≠ 3
      · rw [if_pos h3] at h; injection h with h
        exact ⟨.sysretPrivilegeLevel, by rw [if_neg h1, if_neg h2, if_pos (hb.2 h3)]; rfl, h⟩
      · rw [if_neg h3] at h
        by_cases h4 : y.toNat % 4 ≠ 0
        · rw [if_pos h4] at h; injection h with h
          have h3' : ¬ (b &&& 3#16 ≠ 3#16) := fun hh => h3 (hb.1 hh)
          exact ⟨.syscallPrivilegeLevel, by rw [if_neg h1, if_neg h2, if_neg h3', if_pos (hy.2 h4)]; rfl, h⟩
        · rw [if_neg h4] at h; exact absurd h (by simp)

/-- An accepted quadruple (SYSRET SS not the null selector) writes SS_sysret − 8 and CS_syscall
into the two fields of STAR, with one `wrmsr` on MSR C000_0081h; nothing else changes. -/
theorem star_write_accepted (cfg : Cfg) (a b x y : BitVec 16) (c : Cpu)
    (h : starRejection a.toNat b.toNat x.toNat y.toNat = none) (hb8 : 8 ≤ b.toNat) :
    (Star.write cfg a b x y c).res = .ok (.ok ()) ∧
    (Star.write cfg a b x y c).cpu =
      c.setMsr ARCH_STAR (((b - 8#16).zeroExtend 64 <<< 48) ||| (x.zeroExtend 64 <<< 32)) ∧
    (Star.write cfg a b x y c).trace.length = 1 := by
  obtain ⟨k1, k2, k3, k4⟩ := (starRejection_none _ _ _ _).1 h
  have hb : ¬ (b &&& 3#16 ≠ 3#16) := fun hh => hh ((sel_rpl3 b).2 k3)
  have hy : ¬ (y &&& 3#16 ≠ 0#16) := fun hh => hh ((sel_rpl0 y).2 k4)
  have h1 : ¬ ((a.toNat : Int) - 16 ≠ (b.toNat : Int) - 8) := fun hh => hh k1
  have h2 : ¬ ((x.toNat : Int) ≠ (y.toNat : Int) - 8) := fun hh => hh k2
  have hs : subU16 cfg b 8 = .ok (b - 8#16) := by
    simp only [subU16, hb8, if_true]
  unfold Star.write
  rw [if_neg h1, if_neg h2, if_neg hb, if_neg hy]
  have hw := Ran.eta (Star.writeRaw (b - 8#16) x c)
  obtain ⟨w1, w2, w3⟩ := star_write_raw (b - 8#16) x c
  rw [w1, w2] at hw
  have e0 : (M.ofR (subU16 cfg b 8) : M _) c = ⟨.ok (b - 8#16), c, [], []⟩ := by rw [hs]; rfl
  rw [M.bind_ok _ _ c _ _ _ _ e0, M.bind_ok _ _ c _ _ _ _ hw]
  simp only [pure, M.pure, List.nil_append, List.append_nil, w3, and_self]

/-- Round trip: an accepted quadruple is what the next `Star::read` returns. -/
theorem star_write_read (cfg : Cfg) (a b x y : BitVec 16) (c : Cpu)
    (h : starRejection a.toNat b.toNat x.toNat y.toNat = none) (hb8 : 8 ≤ b.toNat) :
    ∀ c', (Star.write cfg a b x y c).cpu = c' → (Star.read cfg c').res = .ok (a, b, x, y) := by
  intro c' hc'
  obtain ⟨_, w2, _⟩ := star_write_accepted cfg a b x y c h hb8
  rw [w2] at hc'; subst hc'
  obtain ⟨h1, h2, _, _⟩ := (starRejection_none _ _ _ _).1 h
  have ha := a.isLt; have hbl := b.isLt; have hx := x.isLt; have hyl := y.isLt
  -- the two fields read back
  let v : BitVec 64 := ((b - 8#16).zeroExtend 64 <<< 48) ||| (x.zeroExtend 64 <<< 32)
  have f1 : ((v >>> 48).truncate 16 : BitVec 16) = b - 8#16 := by
    simp only [v, BitVec.truncate_eq_setWidth]; bv_decide
  have f2 : ((v >>> 32).truncate 16 : BitVec 16) = x := by
    simp only [v, BitVec.truncate_eq_setWidth]; bv_decide
  have hr := star_read_raw (c.setMsr ARCH_STAR v)
  rw [Cpu.msr_setMsr, f1, f2] at hr
  have hsub : (b - 8#16).toNat = b.toNat - 8 := by
    rw [BitVec.toNat_sub]; simp only [BitVec.toNat_ofNat]; omega
  have e1 : addU16 cfg (b - 8#16) 16 = .ok a := by
    have : (b - 8#16).toNat + 16 < 2 ^ 16 := by rw [hsub]; omega
    simp only [addU16, this, if_true]
    congr 1; apply BitVec.eq_of_toNat_eq
    rw [BitVec.toNat_add, hsub]; simp only [BitVec.toNat_ofNat]; omega
  have e2 : addU16 cfg (b - 8#16) 8 = .ok b := by
    have : (b - 8#16).toNat + 8 < 2 ^ 16 := by rw [hsub]; omega
    simp only [addU16, this, if_true]
    congr 1; apply BitVec.eq_of_toNat_eq
    rw [BitVec.toNat_add, hsub]; simp only [BitVec.toNat_ofNat]; omega
  have e3 : addU16 cfg x 8 = .ok y := by
    have : x.toNat + 8 < 2 ^ 16 := by omega
    simp only [addU16, this, if_true]
    congr 1; apply BitVec.eq_of_toNat_eq
    rw [BitVec.toNat_add]; simp only [BitVec.toNat_ofNat]; omega
  unfold Star.read
  rw [M.bind_ok _ _ _ _ _ _ _ hr]
  simp only [M.ofR, e1, e2, e3, bind, M.bind, pure, M.pure]

/-- The one input class the four checks let through although no valid SYSRET stack selector has
it: `ss_sysret < 8` (null selector with RPL 3). The source then computes `ss_sysret.0 - 8` in
`u16`. With overflow checks the call panics *before any `wrmsr`* (nothing is written); without
them the base is written modulo 2^16 and — selectors being 16-bit quantities — still reads back
as the same quadruple. Neither a documented rejection nor a lost write; recorded as an
observation. -/
theorem star_write_null_ss (cfg : Cfg) (a b x y : BitVec 16) (c : Cpu)
    (h : starRejection a.toNat b.toNat x.toNat y.toNat = none) (hb : b.toNat < 8) :
    (cfg.ovf = true → Star.write cfg a b x y c = ⟨.panic, c, [], []⟩) ∧
    (cfg.ovf = false →
      (Star.write cfg a b x y c).res = .ok (.ok ()) ∧
      (Star.write cfg a b x y c).cpu =
        c.setMsr ARCH_STAR (((b - 8#16).zeroExtend 64 <<< 48) ||| (x.zeroExtend 64 <<< 32)) ∧
      ∀ c', (Star.write cfg a b x y c).cpu = c' → (Star.read cfg c').res = .ok (a, b, x, y)) := by
  obtain ⟨k1, k2, k3, k4⟩ := (starRejection_none _ _ _ _).1 h
  have hb3 : ¬ (b &&& 3#16 ≠ 3#16) := fun hh => hh ((sel_rpl3 b).2 k3)
  have hy : ¬ (y &&& 3#16 ≠ 0#16) := fun hh => hh ((sel_rpl0 y).2 k4)
  have h1 : ¬ ((a.toNat : Int) - 16 ≠ (b.toNat : Int) - 8) := fun hh => hh k1
  have h2 : ¬ ((x.toNat : Int) ≠ (y.toNat : Int) - 8) := fun hh => hh k2
  have hnb : ¬ (8 ≤ b.toNat) := by omega
  constructor
  · intro ho
    have hs : subU16 cfg b 8 = .panic := by simp only [subU16, hnb, ho, if_false, if_true]
    unfold Star.write
    rw [if_neg h1, if_neg h2, if_neg hb3, if_neg hy]
    have e0 : (M.ofR (subU16 cfg b 8) : M (BitVec 16)) c = ⟨.panic, c, [], []⟩ := by rw [hs]; rfl
    rw [M.bind_panic _ _ c _ _ _ e0]
  · intro ho
    have hs : subU16 cfg b 8 = .ok (b - 8#16) := by
      simp only [subU16, hnb, ho, if_false, Bool.false_eq_true]
    have hw := Ran.eta (Star.writeRaw (b - 8#16) x c)
    obtain ⟨w1, w2, w3⟩ := star_write_raw (b - 8#16) x c
    rw [w1, w2] at hw
    have e0 : (M.ofR (subU16 cfg b 8) : M _) c = ⟨.ok (b - 8#16), c, [], []⟩ := by rw [hs]; rfl
    have hrun : Star.write cfg a b x y c =
        ⟨.ok (.ok ()), c.setMsr ARCH_STAR (((b - 8#16).zeroExtend 64 <<< 48) ||| (x.zeroExtend 64 <<< 32)),
         (Star.writeRaw (b - 8#16) x c).trace, []⟩ := by
      unfold Star.write
      rw [if_neg h1, if_neg h2, if_neg hb3, if_neg hy]
      have wm : (Star.writeRaw (b - 8#16) x c).marks = [] := by
        unfold Star.writeRaw; rw [Msr.write_run]
      rw [M.bind_ok _ _ c _ _ _ _ e0, M.bind_ok _ _ c _ _ _ _ hw]
      simp only [pure, M.pure, List.nil_append, List.append_nil, wm]
    refine ⟨by rw [hrun], by rw [hrun], ?_⟩
    intro c' hc'
    rw [hrun] at hc'; subst hc'
    have ha := a.isLt; have hbl := b.isLt; have hx := x.isLt; have hyl := y.isLt
    let v : BitVec 64 := ((b - 8#16).zeroExtend 64 <<< 48) ||| (x.zeroExtend 64 <<< 32)
    have f1 : ((v >>> 48).truncate 16 : BitVec 16) = b - 8#16 := by
      simp only [v, BitVec.truncate_eq_setWidth]; bv_decide
    have f2 : ((v >>> 32).truncate 16 : BitVec 16) = x := by
      simp only [v, BitVec.truncate_eq_setWidth]; bv_decide
    have hr := star_read_raw (c.setMsr ARCH_STAR v)
    rw [Cpu.msr_setMsr, f1, f2] at hr
    have hsub : (b - 8#16).toNat = b.toNat + 65536 - 8 := by
      rw [BitVec.toNat_sub]; simp only [BitVec.toNat_ofNat]; omega
    have e1 : addU16 cfg (b - 8#16) 16 = .ok a := by
      have hh : (b - 8#16) + BitVec.ofNat 16 16 = a := by
        apply BitVec.eq_of_toNat_eq
        rw [BitVec.toNat_add, hsub]; simp only [BitVec.toNat_ofNat]; omega
      simp only [addU16, ho, hh, Bool.false_eq_true, if_false, ite_self]
    have e2 : addU16 cfg (b - 8#16) 8 = .ok b := by
      have hh : (b - 8#16) + BitVec.ofNat 16 8 = b := by
        apply BitVec.eq_of_toNat_eq
        rw [BitVec.toNat_add, hsub]; simp only [BitVec.toNat_ofNat]; omega
      simp only [addU16, ho, hh, Bool.false_eq_true, if_false, ite_self]
    have e3 : addU16 cfg x 8 = .ok y := by
      have hh : x + BitVec.ofNat 16 8 = y := by
        apply BitVec.eq_of_toNat_eq
        rw [BitVec.toNat_add]; simp only [BitVec.toNat_ofNat]; omega
      simp only [addU16, ho, hh, Bool.false_eq_true, if_false, ite_self]
    unfold Star.read
    rw [M.bind_ok _ _ _ _ _ _ _ hr]
    simp only [M.ofR, e1, e2, e3, bind, M.bind, pure, M.pure]

/-! #### SFMASK (MSR C000_0084h) -/

theorem sfmask_write (v : BitVec 64) (c : Cpu) :
    SFMask.write v c = ⟨.ok (), c.setMsr ARCH_SFMASK v,
      [.wrmsr 0xC0000084#32 (v.truncate 32) ((v >>> 32).truncate 32)], []⟩ := Msr.write_run _ v c

/-- `SFMask::read` returns the register when it holds RFLAGS bits only (otherwise `unwrap` panics). -/
theorem sfmask_read (c : Cpu) :
    SFMask.read c = ⟨if c.msr ARCH_SFMASK &&& ~~~RFLAGS_ALL = 0#64 then .ok (c.msr ARCH_SFMASK) else .panic,
      c, [.rdmsr 0xC0000084#32], []⟩ := by
  unfold SFMask.read
  rw [M.bind_ok _ _ c _ _ _ _ (Msr.read_run MSR_SFMASK c)]
  rw [show MSR_SFMASK.toNat = ARCH_SFMASK from rfl]
  by_cases hc : c.msr ARCH_SFMASK &&& ~~~RFLAGS_ALL = 0#64
  · simp only [hc, if_true]; rfl
  · simp only [hc]; rfl

theorem sfmask_write_read (v : BitVec 64) (c : Cpu) (h : v &&& ~~~RFLAGS_ALL = 0#64) :
    ((do SFMask.write v; SFMask.read : M (BitVec 64)) c).res = .ok v := by
  rw [M.bind_ok _ _ c _ _ _ _ (sfmask_write v c), sfmask_read, Cpu.msr_setMsr]
  simp only [h, if_true]

theorem sfmask_update_eq (f : BitVec 64 → BitVec 64) :
    SFMask.update f = (do let fl ← SFMask.read; SFMask.write (f fl)) := rfl

/-! #### IA32_U_CET / IA32_S_CET (MSRs 6A0h / 6A2h) -/

theorem cet_write (reg : BitVec 32) (flags page : BitVec 64) (c : Cpu) :
    cetWrite reg flags page c = ⟨.ok (), c.setMsr reg.toNat (flags ||| page),
      [.wrmsr reg ((flags ||| page).truncate 32) (((flags ||| page) >>> 32).truncate 32)], []⟩ :=
  Msr.write_run reg _ c

/-- Reading: flags = the modelled bits, page = the register with the low 12 bits cleared
(when that is a canonical address, as the hardware guarantees). -/
theorem cet_read (reg : BitVec 32) (c : Cpu) (h : canonical (c.msr reg.toNat &&& ~~~0xfff#64) = true) :
    cetRead reg c = ⟨.ok (typedRead CET_ALL (c.msr reg.toNat), c.msr reg.toNat &&& ~~~0xfff#64), c,
      [.rdmsr reg], []⟩ := by
  unfold cetRead
  rw [M.bind_ok _ _ c _ _ _ _ (Msr.read_run reg c)]
  have hp : pageFromStart (c.msr reg.toNat &&& ~~~0xfff#64) = .ok (c.msr reg.toNat &&& ~~~0xfff#64) := by
    have : (c.msr reg.toNat &&& ~~~0xfff#64) &&& 0xfff#64 = 0#64 := by bv_decide
    simp only [pageFromStart, this, if_true]
  simp only [M.ofR, virtNew_canonical _ h, hp, bind, M.bind, pure, M.pure, List.append_nil, typedRead]

/-- Round trip: flags within the type and a valid page (canonical, 4 KiB aligned). -/
theorem cet_write_read (reg : BitVec 32) (flags page : BitVec 64) (c : Cpu)
    (hf : flags &&& ~~~CET_ALL = 0#64) (hc : canonical page = true) (ha : page &&& 0xfff#64 = 0#64) :
    ((do cetWrite reg flags page; cetRead reg : M (BitVec 64 × BitVec 64)) c).res = .ok (flags, page) := by
  rw [M.bind_ok _ _ c _ _ _ _ (cet_write reg flags page c)]
  have h1 : (flags ||| page) &&& ~~~0xfff#64 = page := by simp only [CET_ALL] at hf; bv_decide
  have h2 : typedRead CET_ALL (flags ||| page) = flags := by simp only [typedRead, CET_ALL] at *; bv_decide
  have hcan : canonical ((c.setMsr reg.toNat (flags ||| page)).msr reg.toNat &&& ~~~0xfff#64) = true := by
    rw [Cpu.msr_setMsr, h1]; exact hc
  rw [cet_read reg _ hcan, Cpu.msr_setMsr, h1, h2]

theorem cet_numbers :
    (UCet.read = cetRead 0x6A0#32 ∧ UCet.write = cetWrite 0x6A0#32 ∧ UCet.update = cetUpdate 0x6A0#32) ∧
    (SCet.read = cetRead 0x6A2#32 ∧ SCet.write = cetWrite 0x6A2#32 ∧ SCet.update = cetUpdate 0x6A2#32) ∧
    (0x6A0#32).toNat = ARCH_U_CET ∧ (0x6A2#32).toNat = ARCH_S_CET :=
  ⟨⟨rfl, rfl, rfl⟩, ⟨rfl, rfl, rfl⟩, rfl, rfl⟩

/-! #### IA32_PAT (MSR 277h) -/

theorem pat_write (t : BitVec 64) (c : Cpu) :
    Pat.write t c = ⟨.ok (), c.setMsr ARCH_PAT t,
      [.wrmsr 0x277#32 (t.truncate 32) ((t >>> 32).truncate 32)], []⟩ := Msr.write_run _ t c

theorem pat_read (c : Cpu) :
    Pat.read c = ⟨if patValid (c.msr ARCH_PAT) then .ok (c.msr ARCH_PAT) else .panic, c, [.rdmsr 0x277#32], []⟩ := by
  unfold Pat.read
  rw [M.bind_ok _ _ c _ _ _ _ (Msr.read_run MSR_PAT c)]
  rw [show MSR_PAT.toNat = ARCH_PAT from rfl]
  by_cases hc : patValid (c.msr ARCH_PAT) = true
  · simp only [hc, if_true]; rfl
  · simp only [hc]; rfl

/-- Round trip for every table of valid memory types. -/
theorem pat_write_read (t : BitVec 64) (c : Cpu) (h : patValid t = true) :
    ((do Pat.write t; Pat.read : M (BitVec 64)) c).res = .ok t := by
  rw [M.bind_ok _ _ c _ _ _ _ (pat_write t c), pat_read, Cpu.msr_setMsr]
  simp only [h, if_true]

/-! #### IA32_APIC_BASE (MSR 1Bh) -/

theorem apic_base_read_raw (c : Cpu) :
    ApicBase.readRaw c = ⟨.ok (c.msr ARCH_APIC_BASE &&& apicBaseField, c.msr ARCH_APIC_BASE), c,
      [.rdmsr 0x1B#32], []⟩ := by
  unfold ApicBase.readRaw
  rw [M.bind_ok _ _ c _ _ _ _ (Msr.read_run MSR_APIC_BASE c)]
  have h : frameContaining (physNewTruncate (c.msr ARCH_APIC_BASE)) = c.msr ARCH_APIC_BASE &&& apicBaseField := by
    simp only [frameContaining, physNewTruncate, apicBaseField]; bv_decide
  show (⟨.ok (frameContaining (physNewTruncate (c.msr ARCH_APIC_BASE)), c.msr ARCH_APIC_BASE), c, _, _⟩ : Ran _) = _
  rw [h]; rfl

theorem apic_base_read (c : Cpu) :
    ApicBase.read c = ⟨.ok (c.msr ARCH_APIC_BASE &&& apicBaseField, typedRead APIC_BASE_ALL (c.msr ARCH_APIC_BASE)), c,
      [.rdmsr 0x1B#32], []⟩ := by
  unfold ApicBase.read
  rw [M.bind_ok _ _ c _ _ _ _ (apic_base_read_raw c)]
  rfl

theorem apic_base_write_raw (frame flags : BitVec 64) (c : Cpu) :
    ApicBase.writeRaw frame flags c = ⟨.ok (), c.setMsr ARCH_APIC_BASE (flags ||| frame),
      [.wrmsr 0x1B#32 ((flags ||| frame).truncate 32) (((flags ||| frame) >>> 32).truncate 32)], []⟩ :=
  Msr.write_run _ _ c

/-- `ApicBase::write`: the type models the base-address field (bits 51:12) and the three flags;
these are replaced by the arguments, every other bit of the register is preserved
(`typedWrite` over the union of the two fields). One `rdmsr` and one `wrmsr` on MSR 1Bh. -/
theorem apic_base_write (frame flags : BitVec 64) (c : Cpu) :
    (ApicBase.write frame flags c).cpu =
      c.setMsr ARCH_APIC_BASE
        (typedWrite (apicBaseField ||| APIC_BASE_ALL) (c.msr ARCH_APIC_BASE) (flags ||| frame)) ∧
    (ApicBase.write frame flags c).res = .ok () ∧
    (ApicBase.write frame flags c).trace.length = 2 := by
  unfold ApicBase.write
  rw [M.bind_ok _ _ c _ _ _ _ (apic_base_read_raw c)]
  dsimp only
  rw [apic_base_write_raw]
  refine ⟨?_, rfl, rfl⟩
  show c.setMsr ARCH_APIC_BASE _ = _
  congr 1
  simp only [typedWrite, apicBaseField, APIC_BASE_ALL]
  generalize c.msr ARCH_APIC_BASE = old
  bv_decide

/-- Round trip (full statement): whatever `ApicBase::write` accepts — a valid frame and flags of
the type — is returned by the next `ApicBase::read`, for every prior register content; and the
bits the type does not model survive.
(History: false before /repo commit beef14c; with prior content FEE0_0900h, writing base 0 read
back base FEE0_0000h — the old base was OR-ed in. The negation was proved here on that witness
while the defect existed.) -/
theorem apic_base_round_trip (frame flags : BitVec 64) (c : Cpu)
    (hf : frameValid frame = true) (hfl : flags &&& ~~~APIC_BASE_ALL = 0#64) :
    ((do ApicBase.write frame flags; ApicBase.read : M (BitVec 64 × BitVec 64)) c).res
      = .ok (frame, flags) ∧
    (ApicBase.write frame flags c).cpu.msr ARCH_APIC_BASE &&& ~~~(apicBaseField ||| APIC_BASE_ALL)
      = c.msr ARCH_APIC_BASE &&& ~~~(apicBaseField ||| APIC_BASE_ALL) := by
  obtain ⟨w1, w2, _⟩ := apic_base_write frame flags c
  have hw := Ran.eta (ApicBase.write frame flags c)
  rw [w1, w2] at hw
  rw [M.bind_ok _ _ c _ _ _ _ hw, apic_base_read, w1, Cpu.msr_setMsr]
  simp only [frameValid, beq_iff_eq] at hf
  generalize c.msr ARCH_APIC_BASE = old
  have g1 : typedWrite (apicBaseField ||| APIC_BASE_ALL) old (flags ||| frame) &&& apicBaseField = frame := by
    simp only [typedWrite, apicBaseField, APIC_BASE_ALL] at hfl ⊢; bv_decide
  have g2 : typedRead APIC_BASE_ALL (typedWrite (apicBaseField ||| APIC_BASE_ALL) old (flags ||| frame)) = flags := by
    simp only [typedRead, typedWrite, apicBaseField, APIC_BASE_ALL] at hfl ⊢; bv_decide
  have g3 : typedWrite (apicBaseField ||| APIC_BASE_ALL) old (flags ||| frame) &&& ~~~(apicBaseField ||| APIC_BASE_ALL)
      = old &&& ~~~(apicBaseField ||| APIC_BASE_ALL) := by
    simp only [typedWrite, apicBaseField, APIC_BASE_ALL] at hfl ⊢; bv_decide
  rw [g1, g2, g3]
  exact ⟨rfl, rfl⟩

/-! #### Debug registers -/

theorem dr_read (n : Nat) (c : Cpu) : Dr.read n c = ⟨.ok (c.dr n), c, [.movFromDr n], []⟩ := rfl

theorem dr_write (n : Nat) (v : BitVec 64) (c : Cpu) :
    Dr.write n v c = ⟨.ok (), c.setDr n v, [.movToDr n v], []⟩ := rfl

/-- Dr0–Dr3 round trip: exact for every 64-bit value. -/
theorem dr_write_read (n : Nat) (v : BitVec 64) (c : Cpu) :
    ((do Dr.write n v; Dr.read n : M (BitVec 64)) c).res = .ok v := by
  show R.ok ((c.setDr n v).dr n) = R.ok v
  simp only [Cpu.setDr, if_true]

theorem dr6_read_raw (c : Cpu) : Dr6.readRaw c = ⟨.ok (c.dr 6), c, [.movFromDr 6], []⟩ := rfl
theorem dr6_read (c : Cpu) :
    Dr6.read c = ⟨.ok (typedRead DR6_ALL (c.dr 6)), c, [.movFromDr 6], []⟩ := rfl

theorem dr7_read_raw (c : Cpu) : Dr7.readRaw c = ⟨.ok (c.dr 7), c, [.movFromDr 7], []⟩ := rfl
theorem dr7_read (c : Cpu) :
    Dr7.read c = ⟨.ok (typedRead DR7_VALID (c.dr 7)), c, [.movFromDr 7], []⟩ := rfl
theorem dr7_write_raw (v : BitVec 64) (c : Cpu) :
    Dr7.writeRaw v c = ⟨.ok (), c.setDr 7 v, [.movToDr 7 v], []⟩ := rfl
theorem dr7_write (value : BitVec 64) (c : Cpu) :
    Dr7.write value c = ⟨.ok (), c.setDr 7 (typedWrite DR7_VALID (c.dr 7) value),
      [.movFromDr 7, .movToDr 7 (typedWrite DR7_VALID (c.dr 7) value)], []⟩ := rfl
theorem dr7_update (f : BitVec 64 → BitVec 64) (c : Cpu) :
    Dr7.update f c = ⟨.ok (), c.setDr 7 (typedUpdate DR7_VALID (c.dr 7) f),
      [.movFromDr 7, .movFromDr 7, .movToDr 7 (typedUpdate DR7_VALID (c.dr 7) f)], []⟩ := rfl

/-- DR7 round trip for every valid `Dr7Value`, and the reserved bits survive. -/
theorem dr7_write_read (value : BitVec 64) (c : Cpu) (h : value &&& ~~~DR7_VALID = 0#64) :
    ((do Dr7.write value; Dr7.read : M (BitVec 64)) c).res = .ok value ∧
    (Dr7.write value c).cpu.dr 7 &&& ~~~DR7_VALID = c.dr 7 &&& ~~~DR7_VALID := by
  constructor
  · show R.ok (typedRead DR7_VALID ((c.setDr 7 (typedWrite DR7_VALID (c.dr 7) value)).dr 7)) = _
    simp only [Cpu.setDr, if_true, typedRead_typedWrite _ _ _ h]
  · show (c.setDr 7 (typedWrite DR7_VALID (c.dr 7) value)).dr 7 &&& _ = _
    simp only [Cpu.setDr, if_true, typedWrite_preserves _ _ _ h]

/-! #### XCR0 -/

theorem xcr0_read_raw (c : Cpu) : XCr0.readRaw c = ⟨.ok c.xcr0, c, [.xgetbv 0#32], []⟩ := by
  unfold XCr0.readRaw
  run_model
  simp only [if_true]
  rw [msr_glue]

theorem xcr0_read (c : Cpu) :
    XCr0.read c = ⟨.ok (typedRead XCR0_ALL c.xcr0), c, [.xgetbv 0#32], []⟩ := by
  unfold XCr0.read
  rw [M.bind_ok _ _ c _ _ _ _ (xcr0_read_raw c)]
  rfl

/-- `write_raw`: ECX = 0, EDX:EAX = the value; only XCR0 changes. -/
theorem xcr0_write_raw (v : BitVec 64) (c : Cpu) :
    XCr0.writeRaw v c = ⟨.ok (), { c with xcr0 := v },
      [.xsetbv 0#32 (v.truncate 32) ((v >>> 32).truncate 32)], []⟩ := by
  unfold XCr0.writeRaw
  run_model
  simp only [if_true]
  rw [edxEax_split]

/-- A valid combination is written with the unmodelled bits preserved. -/
theorem xcr0_write_valid (flags : BitVec 64) (c : Cpu) (h : XCr0.valid flags = true) :
    XCr0.write flags c = ⟨.ok (), { c with xcr0 := typedWrite XCR0_ALL c.xcr0 flags },
      [.xgetbv 0#32, .xsetbv 0#32 ((typedWrite XCR0_ALL c.xcr0 flags).truncate 32)
        ((typedWrite XCR0_ALL c.xcr0 flags >>> 32).truncate 32)], []⟩ := by
  unfold XCr0.write
  rw [M.bind_ok _ _ c _ _ _ _ (xcr0_read_raw c)]
  have ha : (M.assert (XCr0.valid flags) : M Unit) c = ⟨.ok (), c, [], []⟩ := by
    simp only [M.assert, h, if_true]; rfl
  rw [M.bind_ok _ _ c _ _ _ _ ha, xcr0_write_raw]
  rfl

/-- An invalid combination (the documented assertions) panics after the unprivileged read and
*before any `xsetbv`*: XCR0 is not written. -/
theorem xcr0_write_invalid (flags : BitVec 64) (c : Cpu) (h : XCr0.valid flags = false) :
    XCr0.write flags c = ⟨.panic, c, [.xgetbv 0#32], []⟩ := by
  unfold XCr0.write
  rw [M.bind_ok _ _ c _ _ _ _ (xcr0_read_raw c)]
  have ha : (M.assert (XCr0.valid flags) : M Unit) c = ⟨.panic, c, [], []⟩ := by
    simp only [M.assert, h, Bool.false_eq_true, if_false]; rfl
  rw [M.bind_panic _ _ c _ _ _ ha]
  rfl

theorem xcr0_update_eq (f : BitVec 64 → BitVec 64) :
    XCr0.update f = (do let fl ← XCr0.read; XCr0.write (f fl)) := rfl

/-! #### RFLAGS (rflags.rs; `pushfq`/`popfq` are not privileged) -/

theorem rflags_read_raw (c : Cpu) : RFlags.readRaw c = ⟨.ok c.rflags, c, [.pushfq], []⟩ := rfl

theorem rflags_read (c : Cpu) :
    RFlags.read c = ⟨.ok (typedRead RFLAGS_ALL c.rflags), c, [.pushfq], []⟩ := rfl

/-- `write`: the value handed to `popfq` is the given flags with every bit outside
`RFlags::all()` taken from the current register. -/
theorem rflags_write (flags : BitVec 64) (c : Cpu) :
    (RFlags.write flags c).trace = [.pushfq, .popfq (typedWrite RFLAGS_ALL c.rflags flags)] ∧
    (RFlags.write flags c).res = .ok () := ⟨rfl, rfl⟩

theorem rflags_write_raw (v : BitVec 64) (c : Cpu) :
    (RFlags.writeRaw v c).trace = [.popfq v] ∧ (RFlags.writeRaw v c).res = .ok () := ⟨rfl, rfl⟩

theorem rflags_update (f : BitVec 64 → BitVec 64) (c : Cpu) :
    (RFlags.update f c).trace = [.pushfq, .pushfq, .popfq (typedUpdate RFLAGS_ALL c.rflags f)] ∧
    RFlags.update f = (do let fl ← RFlags.read; RFlags.write (f fl)) := ⟨rfl, rfl⟩

/-! #### MXCSR -/

theorem mxcsr_read (c : Cpu) :
    MxCsr.read c = ⟨.ok (c.mxcsr &&& MXCSR_ALL), c, [.stmxcsr], []⟩ := by
  unfold MxCsr.read
  run_model
  rw [trunc32_zext64]

theorem mxcsr_write (v : BitVec 32) (c : Cpu) :
    MxCsr.write v c = ⟨.ok (), { c with mxcsr := v }, [.ldmxcsr v], []⟩ := rfl

theorem mxcsr_write_read (v : BitVec 32) (c : Cpu) (h : v &&& ~~~MXCSR_ALL = 0#32) :
    ((do MxCsr.write v; MxCsr.read : M (BitVec 32)) c).res = .ok v := by
  rw [M.bind_ok _ _ c _ _ _ _ (mxcsr_write v c), mxcsr_read]
  show R.ok (v &&& MXCSR_ALL) = R.ok v
  congr 1
  simp only [MXCSR_ALL] at *; bv_decide

/-! #### Segment registers, TR -/

/-- SS/DS/ES/FS/GS: `set_reg` issues one `mov sreg, r16` with the selector unchanged; only that
segment register changes. -/
theorem segment_set_reg (s : Sreg) (sel : BitVec 16) (c : Cpu) (h : s ≠ .cs) :
    Segment.setReg s sel c = ⟨.ok (), c.setSreg s sel, [.movToSreg s sel], []⟩ := by
  cases s <;> first | exact absurd rfl h | rfl

/-- CS: `set_reg` pushes the selector (zero-extended) and the address of the next instruction
and executes a far return; CS receives the selector unchanged. -/
theorem cs_set_reg (sel : BitVec 16) (c : Cpu) :
    Segment.setReg .cs sel c = ⟨.ok (), c.setSreg .cs sel, [.retfq (sel.zeroExtend 64)], []⟩ := by
  have h : ((sel.zeroExtend 64 : BitVec 64).truncate 16 : BitVec 16) = sel := by
    simp only [BitVec.truncate_eq_setWidth]; bv_decide
  show (⟨.ok (), c.setSreg .cs ((sel.zeroExtend 64 : BitVec 64).truncate 16), _, _⟩ : Ran Unit) = _
  rw [h]; rfl

theorem segment_get_reg (s : Sreg) (c : Cpu) :
    Segment.getReg s c = ⟨.ok (c.sreg s), c, [.movFromSreg s], []⟩ := by
  have h : (((c.sreg s).zeroExtend 64 : BitVec 64).truncate 16 : BitVec 16) = c.sreg s := by
    simp only [BitVec.truncate_eq_setWidth]; bv_decide
  show (⟨.ok (((c.sreg s).zeroExtend 64 : BitVec 64).truncate 16), c, _, _⟩ : Ran _) = _
  rw [h]; rfl

/-- `load_tss` passes the selector unchanged to `ltr`. -/
theorem load_tss (sel : BitVec 16) (c : Cpu) :
    Segment.loadTss sel c = ⟨.ok (), { c with tr := sel }, [.ltr sel], []⟩ := rfl

/-- `GS::swap` exchanges GS.base and KernelGSbase. -/
theorem gs_swap (c : Cpu) :
    (Segment.swapGs c).trace = [.swapgs] ∧
    (Segment.swapGs c).cpu.gsBase = c.kernelGsBase ∧ (Segment.swapGs c).cpu.kernelGsBase = c.gsBase := by
  refine ⟨rfl, ?_, ?_⟩
  · show (((c.setMsr IA32_GS_BASE (c.msr IA32_KERNEL_GS_BASE)).setMsr IA32_KERNEL_GS_BASE (c.msr IA32_GS_BASE)).msr IA32_GS_BASE) = _
    simp [Cpu.setMsr, IA32_GS_BASE, IA32_KERNEL_GS_BASE, Cpu.kernelGsBase]
  · show (((c.setMsr IA32_GS_BASE (c.msr IA32_KERNEL_GS_BASE)).setMsr IA32_KERNEL_GS_BASE (c.msr IA32_GS_BASE)).msr IA32_KERNEL_GS_BASE) = _
    simp [Cpu.setMsr, IA32_GS_BASE, IA32_KERNEL_GS_BASE, Cpu.gsBase]

/-- FS/GS base through `rd/wr{fs,gs}base`: exact round trip; these are the same registers as
the MSRs C000_0100h / C000_0101h. -/
theorem fs_gs_base (v : BitVec 64) (c : Cpu) :
    ((do Segment.writeBaseFs v; Segment.readBaseFs : M (BitVec 64)) c).res = .ok v ∧
    ((do Segment.writeBaseGs v; Segment.readBaseGs : M (BitVec 64)) c).res = .ok v ∧
    (Segment.writeBaseFs v c).cpu = c.setMsr ARCH_FS_BASE v ∧
    (Segment.writeBaseGs v c).cpu = c.setMsr ARCH_GS_BASE v := by
  refine ⟨?_, ?_, rfl, rfl⟩
  · show R.ok ((c.setMsr IA32_FS_BASE v).msr IA32_FS_BASE) = _
    rw [Cpu.msr_setMsr]
  · show R.ok ((c.setMsr IA32_GS_BASE v).msr IA32_GS_BASE) = _
    rw [Cpu.msr_setMsr]

/-! #### Non-vacuity -/

private def cEx : Cpu :=
  { Cpu.zero with cr0 := 0xffffffff_8005ffff#64, cr3 := 0x1234_5000#64,
                  msr := fun k => if k = 0x1B then 0xfee00900#64 else 0xdeadbeef_12345678#64 }

-- reserved CR0 bits (here: the whole upper half and bit 6..15 etc.) survive a typed write
example : (Cr0.write 0x1#64 cEx).cpu.cr0 = 0xffffffff_0000ffc1#64 := by decide
example : (0x1#64 : BitVec 64) &&& ~~~CR0_ALL = 0#64 := by decide
example : frameValid 0x1234_5000#64 = true ∧ (0x18#64 : BitVec 64) &&& ~~~CR3_ALL = 0#64 := by decide
example : starRejection 0x1b 0x13 0x08 0x10 = none := by decide
example : starRejection 0x1b 0x13 0x08 0x11 = some "SyscallOffset" := by decide
example : starRejection 0x1b 0x10 0x08 0x10 = some "SysretOffset" := by decide
example : starRejection 15 7 0x08 0x10 = none := by decide   -- the null-SS input class of `star_write_null_ss`
example : (Star.write ⟨true⟩ 0x1b#16 0x13#16 0x08#16 0x10#16 cEx).trace.length = 1 := by decide
example : XCr0.valid 0x7#64 = true ∧ XCr0.valid 0x5#64 = false ∧ XCr0.valid 0x2#64 = false := by decide
example : patValid 0x0007040600070406#64 = true ∧ patValid 0x0207040600070406#64 = false := by decide
example : canonical 0xffff800000001000#64 = true ∧ canonical 0x0000800000000000#64 = false := by decide
-- ApicBase on a concrete prior state (base FEE0_0000h, BSP, enabled): the new base replaces the old one
example : ((do ApicBase.write 0x1000#64 0x800#64; ApicBase.read : M (BitVec 64 × BitVec 64)) cEx).res
    = .ok (0x1000#64, 0x800#64) := by decide

/-! ### The `asm!` blocks behind this property (re-extracted from the source on every run)

`Generated.asmSites` is rewritten by `translator/gen_asm.py` from the `asm!` invocations of the
crate; the theorems below are re-checked by the kernel against what the source says now. They
constrain what the compiler may do with the blocks (delete, merge, hoist, reorder memory accesses
across them) — behaviour that only shows in particular build profiles. -/

/-- Every `asm!` block of the files this property is anchored in carries only options its
instructions admit (`Spec/AsmOptions.lean`): no `pure` on instructions with side effects, no
`nomem`/`readonly` where the hardware dereferences the operand, no `nostack` on pushes/pops. -/
theorem asm_options_admissible :
    ∀ s ∈ Spec.AsmOptions.sitesOfFiles ["src/registers/control.rs", "src/registers/debug.rs", "src/registers/model_specific.rs", "src/registers/xcontrol.rs", "src/registers/rflags.rs", "src/registers/mxcsr.rs", "src/instructions/segmentation.rs", "src/instructions/tables.rs"], Spec.AsmOptions.admissible s = true := by
  decide +kernel

example : (Spec.AsmOptions.sitesOfFiles ["src/registers/control.rs", "src/registers/debug.rs", "src/registers/model_specific.rs", "src/registers/xcontrol.rs", "src/registers/rflags.rs", "src/registers/mxcsr.rs", "src/instructions/segmentation.rs", "src/instructions/tables.rs"]).length > 0 := by decide +kernel

end X86.C16
