/-
C17 — `without_interrupts` restores the interrupt flag; `enable_and_hlt` is atomic.

The statements hold for every machine state (`c : Cpu`, in particular both values of
RFLAGS.IF and arbitrary other RFLAGS bits), every closure (`f : M α` is an arbitrary computation
over the abstract machine: any instructions, any result type, any nesting), and — through
`Spec.Prog` — every finite nesting of `without_interrupts` (induction on the program, no bound
on depth or branching).
-/
import X86Model.Proofs.Interrupts
import X86Model.Spec.AsmOptions

namespace X86.C17
open X86 X86.Spec X86.Consts X86.Interrupts

/-! #### `enable`, `disable`, `are_enabled`, `enable_and_hlt` -/

/-- `setIF c b` differs from `c` in RFLAGS bit 9 only, which it sets to `b`. -/
theorem setIF_only_if (c : Cpu) (b : Bool) :
    (setIF c b).ifFlag = b ∧
    (setIF c b).rflags &&& ~~~IF_MASK = c.rflags &&& ~~~IF_MASK ∧
    { setIF c b with rflags := c.rflags } = c := by
  refine ⟨ifFlag_setIF c b, ?_, rfl⟩
  cases b <;> simp only [setIF, IF_MASK, Bool.false_eq_true, if_false, if_true] <;>
    generalize c.rflags = r <;> bv_decide

/-- `enable` executes exactly `sti`; it sets the flag and changes nothing else. -/
theorem enable_sets_only_if (c : Cpu) :
    (enable c).trace = [.sti] ∧ (enable c).cpu = setIF c true ∧ (enable c).res = .ok () :=
  ⟨rfl, rfl, rfl⟩

/-- `disable` executes exactly `cli`; it clears the flag and changes nothing else. -/
theorem disable_clears_only_if (c : Cpu) :
    (disable c).trace = [.cli] ∧ (disable c).cpu = setIF c false ∧ (disable c).res = .ok () :=
  ⟨rfl, rfl, rfl⟩

/-- `are_enabled` reports the flag (whatever the other RFLAGS bits are), changes nothing and
executes no privileged instruction. -/
theorem are_enabled_reports_flag (c : Cpu) :
    (areEnabled c).res = .ok c.ifFlag ∧ (areEnabled c).cpu = c ∧ (areEnabled c).trace = [.pushfq] := by
  rw [areEnabled_run]; exact ⟨rfl, rfl, rfl⟩

/-- `enable_and_hlt` executes `sti` and `hlt` back to back: the instruction trace is exactly
`[sti, hlt]`, nothing in between. -/
theorem enable_and_hlt_atomic (c : Cpu) :
    (enableAndHlt c).trace = [.sti, .hlt] ∧ (enableAndHlt c).cpu = setIF c true := ⟨rfl, rfl⟩

/-! #### `without_interrupts` around an arbitrary closure -/

/-- For every closure `f` that returns and leaves the flag as it found it (it is entered with the
flag clear), and every initial state:
* `f` runs exactly once, from the state with the flag clear (its instructions `b.trace` and
  its observations `b.marks` appear exactly once, and they are those of a run started with IF = 0);
* the result of `f` is returned;
* the flag afterwards is what it was before, and nothing but the flag differs from the state `f` left;
* the instructions executed are: the flag query, `cli` iff the flag was set, `f`'s
  instructions, `sti` iff the flag was set. -/
theorem without_interrupts_general {α} (f : M α) (c : Cpu) (a : α)
    (hok : (f (setIF c false)).res = .ok a)
    (hpres : (f (setIF c false)).cpu.ifFlag = false) :
    (withoutInterrupts f c).res = .ok a ∧
    (withoutInterrupts f c).cpu.ifFlag = c.ifFlag ∧
    (withoutInterrupts f c).cpu = setIF (f (setIF c false)).cpu c.ifFlag ∧
    (withoutInterrupts f c).marks = (f (setIF c false)).marks ∧
    (withoutInterrupts f c).trace =
      [.pushfq] ++ (if c.ifFlag then [.cli] else []) ++ (f (setIF c false)).trace ++
        (if c.ifFlag then [.sti] else []) := by
  by_cases h : c.ifFlag = true
  · have hf := Ran.eta (f (setIF c false))
    rw [hok] at hf
    rw [withoutInterrupts_on_ok f c h a _ _ _ hf]
    simp only [h, if_true, ifFlag_setIF, List.cons_append, List.nil_append, and_self]
  · have h' : c.ifFlag = false := by cases hc : c.ifFlag <;> simp_all
    have hc : setIF c false = c := by rw [← h']; exact setIF_self c
    rw [hc] at hok hpres ⊢
    rw [withoutInterrupts_off f c h']
    refine ⟨hok, by rw [hpres, h'], ?_, rfl, ?_⟩
    · rw [h', ← hpres]; exact (setIF_self _).symm
    · simp only [h', Bool.false_eq_true, if_false, List.append_nil, List.cons_append, List.nil_append]

/-- Flag-preservation is inherited by the wrapped closure, so it holds at every nesting depth:
`without_interrupts(f)` itself leaves the flag as it found it, whatever the initial flag. -/
theorem without_interrupts_preserves {α} (f : M α) (c : Cpu) (a : α)
    (hok : (f (setIF c false)).res = .ok a)
    (hpres : (f (setIF c false)).cpu.ifFlag = false) :
    (withoutInterrupts f c).cpu.ifFlag = c.ifFlag :=
  (without_interrupts_general f c a hok hpres).2.1

/-- A panicking closure propagates; interrupts are *not* re-enabled (the source has no drop
guard). Recorded as the model's behaviour; the property does not speak about panics. -/
theorem without_interrupts_panic {α} (f : M α) (c : Cpu) (h : c.ifFlag = true)
    (hp : (f (setIF c false)).res = .panic) :
    (withoutInterrupts f c).res = .panic ∧
    (withoutInterrupts f c).trace = [.pushfq, .cli] ++ (f (setIF c false)).trace := by
  have hf := Ran.eta (f (setIF c false))
  rw [hp] at hf
  rw [withoutInterrupts_on_panic f c h _ _ _ hf]
  exact ⟨rfl, rfl⟩

/-! #### Every nesting: programs -/

/-- For every program whose closure bodies leave the flag as they found it (the property's
premise), every initial state: the model of the crate's functions behaves as specified —
result, final flag (and nothing but the flag changed), the `cli`/`sti`/`hlt` instructions in
order, and for each leaf body the value it returned and the flag it ran under. By induction
on the program, i.e. for every nesting depth and branching. -/
theorem run_meets_spec (p : Prog) : ∀ (c : Cpu) (o : IOut),
    p.bodiesPreserve = true → p.spec c.ifFlag = some o →
    (run p c).res = .ok o.res ∧ (run p c).cpu = setIF c o.flag ∧
    flagEvs (run p c).trace = o.evs ∧ (run p c).marks = o.marks := by
  induction p with
  | ret v =>
    intro c o _ hs
    simp only [Prog.spec, Option.some.injEq] at hs
    subst hs
    exact ⟨rfl, (setIF_self c).symm, rfl, rfl⟩
  | wi body ih =>
    intro c o hb hs
    simp only [Prog.bodiesPreserve, Bool.and_eq_true] at hb
    obtain ⟨hb1, hb2⟩ := hb
    simp only [Prog.spec] at hs
    cases hbs : body.spec false with
    | none => rw [hbs] at hs; simp at hs
    | some ob =>
      rw [hbs] at hs hb2
      simp only [Option.some.injEq] at hs
      simp only [beq_iff_eq] at hb2
      subst hs
      have hc0 : (setIF c false).ifFlag = false := ifFlag_setIF c false
      obtain ⟨i1, i2, i3, i4⟩ := ih (setIF c false) ob hb1 (by rw [hc0]; exact hbs)
      rw [hb2, setIF_setIF] at i2
      have hpres : (run body (setIF c false)).cpu.ifFlag = false := by rw [i2]; exact hc0
      obtain ⟨g1, _, g3, g4, g5⟩ := without_interrupts_general (run body) c ob.res i1 hpres
      show (withoutInterrupts (run body) c).res = _ ∧ (withoutInterrupts (run body) c).cpu = _ ∧
        flagEvs (withoutInterrupts (run body) c).trace = _ ∧ (withoutInterrupts (run body) c).marks = _
      refine ⟨g1, ?_, ?_, by rw [g4, i4]⟩
      · rw [g3, i2, setIF_setIF]
      · rw [g5]
        simp only [flagEvs_append, i3]
        cases c.ifFlag <;> simp [flagEvs]
  | seq a b iha ihb =>
    intro c o hb hs
    simp only [Prog.bodiesPreserve, Bool.and_eq_true] at hb
    simp only [Prog.spec] at hs
    cases has : a.spec c.ifFlag with
    | none => rw [has] at hs; simp at hs
    | some oa =>
      rw [has] at hs
      simp only at hs
      cases hbs : b.spec oa.flag with
      | none => rw [hbs] at hs; simp at hs
      | some ob =>
        rw [hbs] at hs
        simp only [Option.some.injEq] at hs
        subst hs
        obtain ⟨a1, a2, a3, a4⟩ := iha c oa hb.1 has
        have hfl : (setIF c oa.flag).ifFlag = oa.flag := ifFlag_setIF c oa.flag
        obtain ⟨b1, b2, b3, b4⟩ := ihb (setIF c oa.flag) ob hb.2 (by rw [hfl]; exact hbs)
        have ea := Ran.eta (run a c)
        rw [a1, a2] at ea
        have eb := Ran.eta (run b (setIF c oa.flag))
        rw [b1, b2, setIF_setIF] at eb
        show ((run a >>= fun x => run b >>= fun y => pure (mix x y)) c).res = _ ∧
          ((run a >>= fun x => run b >>= fun y => pure (mix x y)) c).cpu = _ ∧
          flagEvs ((run a >>= fun x => run b >>= fun y => pure (mix x y)) c).trace = _ ∧
          ((run a >>= fun x => run b >>= fun y => pure (mix x y)) c).marks = _
        rw [M.bind_ok _ _ c _ _ _ _ ea, M.bind_ok _ _ _ _ _ _ _ eb]
        simp only [pure, M.pure, List.append_nil, flagEvs_append, a3, b3, a4, b4, and_self]
  | enable =>
    intro c o _ hs
    simp only [Prog.spec, Option.some.injEq] at hs
    subst hs
    exact ⟨rfl, rfl, rfl, rfl⟩
  | disable =>
    intro c o _ hs
    simp only [Prog.spec, Option.some.injEq] at hs
    subst hs
    exact ⟨rfl, rfl, rfl, rfl⟩
  | query =>
    intro c o _ hs
    simp only [Prog.spec, Option.some.injEq] at hs
    subst hs
    have h : run .query c = ⟨.ok (if c.ifFlag then 1 else 0), c, [.pushfq], []⟩ := by
      show (areEnabled >>= fun b => pure (if b then 1 else 0)) c = _
      rw [M.bind_ok _ _ c _ _ _ _ (areEnabled_run c)]
      rfl
    rw [h]
    exact ⟨rfl, (setIF_self c).symm, rfl, rfl⟩
  | boom =>
    intro c o _ hs
    simp [Prog.spec] at hs

/-- `n` nested `without_interrupts` around a program. -/
def nest : Nat → Prog → Prog
  | 0, p => p
  | n + 1, p => .wi (nest n p)

theorem nest_depth (n : Nat) (p : Prog) : (nest n p).depth = n + p.depth := by
  induction n with
  | zero => simp [nest]
  | succ n ih => simp only [nest, Prog.depth, ih]; omega

/-- Specification of an `n`-deep nest (`n ≥ 1`) around a leaf: only the outermost call
brackets, and only when the flag was set; the leaf runs once with the flag clear. -/
theorem nest_spec (n : Nat) (v : Nat) (f : Bool) :
    (nest (n + 1) (.ret v)).spec f =
      some ⟨v, f, if f then [.cli, .sti] else [], [leafMark v false]⟩ ∧
    (nest (n + 1) (.ret v)).bodiesPreserve = true := by
  induction n generalizing f with
  | zero => cases f <;> exact ⟨rfl, rfl⟩
  | succ n ih =>
    obtain ⟨h1, h2⟩ := ih false
    have e : nest (n + 1 + 1) (.ret v) = .wi (nest (n + 1) (.ret v)) := rfl
    rw [e]
    constructor
    · simp only [Prog.spec, h1]; cases f <;> rfl
    · simp only [Prog.bodiesPreserve, h2, h1, Bool.true_and]; rfl

/-- Every nesting depth: `n + 1` nested `without_interrupts` calls around a body returning `v`
return `v`, run the body exactly once with the flag clear, leave the flag (and everything else)
exactly as before, and execute `cli … sti` once (outermost call) iff the flag was set. -/
theorem every_depth (n : Nat) (v : Nat) (c : Cpu) :
    (run (nest (n + 1) (.ret v)) c).res = .ok v ∧
    (run (nest (n + 1) (.ret v)) c).cpu = c ∧
    flagEvs (run (nest (n + 1) (.ret v)) c).trace = (if c.ifFlag then [.cli, .sti] else []) ∧
    (run (nest (n + 1) (.ret v)) c).marks = [leafMark v false] := by
  obtain ⟨hs, hb⟩ := nest_spec n v c.ifFlag
  obtain ⟨h1, h2, h3, h4⟩ := run_meets_spec _ c _ hb hs
  exact ⟨h1, by rw [h2]; exact setIF_self c, h3, h4⟩

/-! #### Non-vacuity -/

private def cOn : Cpu := { Cpu.zero with rflags := 0x202#64 }
private def cOff : Cpu := { Cpu.zero with rflags := 0x046#64 }

example : cOn.ifFlag = true ∧ cOff.ifFlag = false := by decide
example : (nest 3 (.ret 7)).depth = 3 := by decide
example : (Prog.wi (.seq (.wi (.ret 1)) (.seq .query (.ret 2)))).bodiesPreserve = true := by decide
example : (Prog.wi (.seq (.wi (.ret 1)) (.seq .query (.ret 2)))).spec true =
    some ⟨mix 1 (mix 0 2), true, [.cli, .sti], [2, 4]⟩ := by decide
-- a body that enables interrupts violates the premise:
example : (Prog.wi .enable).bodiesPreserve = false := by decide
example : flagEvs (run (.wi (.wi (.ret 5))) cOn).trace = [.cli, .sti] := by decide
example : flagEvs (run (.wi (.wi (.ret 5))) cOff).trace = [] := by decide

/-! ### The `asm!` blocks behind this property (re-extracted from the source on every run)

`Generated.asmSites` is rewritten by `translator/gen_asm.py` from the `asm!` invocations of the
crate; the theorems below are re-checked by the kernel against what the source says now. They
constrain what the compiler may do with the blocks (delete, merge, hoist, reorder memory accesses
across them) — behaviour that only shows in particular build profiles. -/

/-- Every `asm!` block of the files this property is anchored in carries only options its
instructions admit (`Spec/AsmOptions.lean`): no `pure` on instructions with side effects, no
`nomem`/`readonly` where the hardware dereferences the operand, no `nostack` on pushes/pops. -/
theorem asm_options_admissible :
    ∀ s ∈ Spec.AsmOptions.sitesOfFiles ["src/instructions/interrupts.rs", "src/registers/rflags.rs"], Spec.AsmOptions.admissible s = true := by
  decide +kernel

example : (Spec.AsmOptions.sitesOfFiles ["src/instructions/interrupts.rs", "src/registers/rflags.rs"]).length > 0 := by decide +kernel

/-- `enable` is one block `sti`, `disable` one block `cli` (neither `nomem`: they are the compiler
barriers that keep the closure's memory accesses between them — part of `asm_options_admissible`),
and **`enable_and_hlt` is a single block `sti; hlt`**: no instruction can be scheduled between the
two, in any build profile. The RFLAGS read is `pushfq; pop`. -/
theorem interrupt_blocks_shape :
    Spec.AsmOptions.blocksOf "src/instructions/interrupts.rs" "enable" = [["sti"]] ∧
    Spec.AsmOptions.blocksOf "src/instructions/interrupts.rs" "disable" = [["cli"]] ∧
    Spec.AsmOptions.blocksOf "src/instructions/interrupts.rs" "enable_and_hlt" = [["sti", "hlt"]] ∧
    Spec.AsmOptions.blocksOf "src/registers/rflags.rs" "read_raw" = [["pushfq", "pop {}"]] := by
  decide +kernel

end X86.C17
