/- C15 and C20 carried over to the translated source (`src/structures/gdt.rs`, `recursive_page_table.rs`): the property
theorems restated about the definitions generated from the Rust source, through the tie theorems of
`Properties/SrcTie/Gdt.lean` and `Properties/SrcTie/Recursive.lean`. -/
import X86Model.Properties.SrcTie.Gdt
import X86Model.Properties.SrcTie.Recursive
import X86Model.Properties.C14
import X86Model.Properties.C15
import X86Model.Properties.C20

set_option linter.unusedSimpArgs false

namespace X86.SrcModelDesc
open X86 X86.Generated X86.SrcTie X86.Spec

variable (cfg : Cfg)

/-- **C15 for the translated source**: for every 64-bit pointer (no profile dependence, never a panic) the TSS
descriptor built by the generated `tss_segment_unchecked` is a system descriptor whose two words decode to: base = the
full 64-bit address, limit = size of the TSS - 1, type "available 64-bit TSS", present, DPL 0, all reserved bits 0. -/
theorem C15_tss_descriptor_of_source (ptr : BitVec 64) :
    ∃ lo hi, Src.Descriptor_tss_segment_unchecked cfg ptr = .ok (1#8, lo, hi) ∧ decodeSys lo hi = expectedTss ptr := by
  obtain ⟨lo, hi, h1, h2⟩ := C15.tss_descriptor ptr
  refine ⟨lo, hi, ?_, h2⟩
  rw [SrcTie.Descriptor_tss_segment_unchecked, h1]
  rfl

/-- Different pointers give different descriptors (the base field loses nothing). -/
theorem C15_tss_descriptor_of_source_injective (p q : BitVec 64)
    (h : Src.Descriptor_tss_segment_unchecked cfg p = Src.Descriptor_tss_segment_unchecked cfg q) : p = q := by
  obtain ⟨lo, hi, h1, h2⟩ := C15_tss_descriptor_of_source cfg p
  obtain ⟨lo', hi', h1', h2'⟩ := C15_tss_descriptor_of_source cfg q
  rw [h1, h1'] at h
  have e : (lo, hi) = (lo', hi') := by injection h with h; injection h
  have hlo : lo = lo' := congrArg Prod.fst e
  have hhi : hi = hi' := congrArg Prod.snd e
  subst hlo; subst hhi
  have : expectedTss p = expectedTss q := by rw [← h2, ← h2']
  have hb : (expectedTss p).base = (expectedTss q).base := by rw [this]
  simpa [expectedTss] using hb

/-- The four preset constructors of the source are user segments whose word decodes to the preset of their name. -/
theorem C15_presets_of_source :
    Src.Descriptor_kernel_code_segment cfg = .ok (0#8, C15.presetBits .kernelCode64, 0#64) ∧
    Src.Descriptor_kernel_data_segment cfg = .ok (0#8, C15.presetBits .kernelData, 0#64) ∧
    Src.Descriptor_user_data_segment cfg = .ok (0#8, C15.presetBits .userData, 0#64) ∧
    Src.Descriptor_user_code_segment cfg = .ok (0#8, C15.presetBits .userCode64, 0#64) ∧
    ∀ k : Preset, decodeSeg (C15.presetBits k) = expectedPreset k :=
  ⟨SrcTie.Descriptor_kernel_code_segment cfg, SrcTie.Descriptor_kernel_data_segment cfg,
   SrcTie.Descriptor_user_data_segment cfg, SrcTie.Descriptor_user_code_segment cfg, C15.presets_decode⟩

/-- **C20 for the translated source**: for every page, every recursive index below 512 and either profile the generated
`p3_page` / `p2_page` / `p1_page` return (never panic) the address whose four table indices - as the MMU extracts them -
are the recursive index repeated three, two and one times followed by the page's upper indices. -/
theorem C20_table_pages_of_source (sz page : BitVec 64) (r : BitVec 16) (hr : BitVec.ult r 512#16 = true) :
    (∃ a, (Src.rec_p3_page cfg sz page r).map BitVec.toNat = .ok a ∧
      vaIdx4 a = r.toNat ∧ vaIdx3 a = r.toNat ∧ vaIdx2 a = r.toNat ∧ vaIdx1 a = idxSpec 4 page.toNat) ∧
    (∃ a, (Src.rec_p2_page cfg sz page r).map BitVec.toNat = .ok a ∧
      vaIdx4 a = r.toNat ∧ vaIdx3 a = r.toNat ∧ vaIdx2 a = idxSpec 4 page.toNat ∧ vaIdx1 a = idxSpec 3 page.toNat) ∧
    (∃ a, (Src.rec_p1_page cfg page r).map BitVec.toNat = .ok a ∧
      vaIdx4 a = r.toNat ∧ vaIdx3 a = idxSpec 4 page.toNat ∧ vaIdx2 a = idxSpec 3 page.toNat ∧
      vaIdx1 a = idxSpec 2 page.toNat) := by
  have hr' : r.toNat < 512 := by simpa [BitVec.ult] using hr
  refine ⟨⟨_, SrcTie.rec_p3_page_model cfg sz page r hr, C20.p3_page_indices _ _ hr'⟩,
    ⟨_, SrcTie.rec_p2_page_model cfg sz page r hr, C20.p2_page_indices _ _ hr'⟩,
    ⟨_, SrcTie.rec_p1_page_model cfg page r hr, C20.p1_page_indices _ _ hr'⟩⟩

/-- **C14 for the translated source** (the selector an `append` returns): what the generated `dpl()` computes for a
descriptor and the generated `SegmentSelector::new` makes of it and of a slot index below 2^13 decodes (SDM Figure
3-6) to that index, TI = 0 (GDT) and RPL = the descriptor's DPL field - for user and system descriptors alike. -/
theorem C14_selector_of_source (d : Descriptor) (i : Nat) :
    ∃ l : BitVec 8, Src.Descriptor_dpl cfg (descTuple d) = .ok l ∧
      ∃ sel, Src.SegmentSelector_new cfg (BitVec.ofNat 16 i) l = .ok sel ∧
        decodeSel sel = ⟨BitVec.ofNat 13 i, false, (GdtProof.toSpec d).dpl⟩ := by
  have hd : Src.Descriptor_dpl cfg (descTuple d) = (Descriptor.dpl d).map (·.setWidth 8) := by
    cases d with
    | user v => exact SrcTie.Descriptor_dpl_user cfg v
    | system lo hi => exact SrcTie.Descriptor_dpl_system cfg lo hi
  rw [C14.dpl_ok] at hd
  refine ⟨_, hd, _, SrcTie.SegmentSelector_new cfg _ _, ?_⟩
  have e : ((((GdtProof.toSpec d).dpl.setWidth 16).setWidth 8).setWidth 16) = ((GdtProof.toSpec d).dpl.setWidth 16) := by
    generalize (GdtProof.toSpec d).dpl = x
    bv_decide
  rw [e]
  exact C14.selector_decodes i _

end X86.SrcModelDesc
