/-
C06 — Alignment and containment are exact.
-/
import X86Model.Model.Page
import X86Model.Spec.Canon
import X86Model.Proofs.Align

namespace X86.C06
open X86 X86.Spec

/-! #### Raw `align_down` / `align_up` -/

/-- `is_power_of_two` accepts exactly the 64 powers of two. -/
theorem pow2_iff (n : Nat) : isPow2 n = true ↔ ∃ k, k < 64 ∧ n = 2^k := isPow2_iff n

/-- Panics exactly when the alignment is not a power of two. -/
theorem align_down_panics_iff (a al : Nat) : alignDown a al = R.panic ↔ isPow2 al = false := by
  unfold alignDown; split <;> simp_all

/-- Otherwise returns the greatest multiple of the alignment that is not above the input. -/
theorem align_down_greatest (a al : Nat) (h : isPow2 al = true) :
    ∃ r, alignDown a al = R.ok r ∧ GreatestMultipleLE al a r := by
  refine ⟨a - a % al, by unfold alignDown; simp [h], down_dvd a al, down_le a al, ?_⟩
  exact fun m hm hle => down_greatest a al m (isPow2_pos al h) hm hle

theorem align_down_eq_multiple (a al r : Nat) (h : alignDown a al = R.ok r) : r = downMultiple a al := by
  unfold alignDown at h; split at h
  · simp only [R.ok.injEq] at h; rw [← h, down_eq_mul, downMultiple, Nat.mul_comm]
  · simp at h

/-- `align_up`: least multiple not below the input; panics exactly when the alignment is not a
power of two or that multiple does not fit in 64 bits. -/
theorem align_up_eq (a al : Nat) (ha : a < 2^64) (h : isPow2 al = true) :
    alignUp a al = if upSpec a al < 2^64 then R.ok (upSpec a al) else R.panic := by
  have hpos := isPow2_pos al h
  have hmod := Nat.mod_lt a hpos
  have hle := Nat.mod_le a al
  unfold alignUp upSpec checkedAdd
  simp only [h, if_true]
  by_cases h0 : a % al = 0
  · simp only [h0, if_true, ha]
  · simp only [h0, if_false]
    have e : a - a % al + (al - 1) + 1 = a - a % al + al := by omega
    rw [e]
    by_cases hlt : a - a % al + al < 2^64
    · simp only [hlt, if_true]
    · simp only [hlt, if_false]

theorem align_up_least (a al : Nat) (h : isPow2 al = true) : LeastMultipleGE al a (upSpec a al) :=
  ⟨up_dvd a al, up_ge a al (isPow2_pos al h), fun m hm hge => up_least a al m (isPow2_pos al h) hm hge⟩

theorem align_up_not_pow2 (a al : Nat) (h : isPow2 al = false) : alignUp a al = R.panic := by
  unfold alignUp; simp [h]

theorem up_eq_multiple (a al : Nat) (hal : 0 < al) : upSpec a al = upMultiple a al := by
  have h1 := up_dvd a al
  have h2 := up_ge a al hal
  have h3 := up_lt a al hal
  obtain ⟨q, hq⟩ := h1
  unfold upMultiple
  have : (a + al - 1) / al = q := by
    apply Nat.div_eq_of_lt_le
    · rw [Nat.mul_comm]; omega
    · rw [Nat.add_mul, Nat.one_mul, Nat.mul_comm]; omega
  rw [this, hq, Nat.mul_comm]

/-! #### Physical addresses: the bound is 2^52 -/

theorem phys_align_down (a al : Nat) (ha : physValid a) (h : isPow2 al = true) :
    ∃ r, PhysAddr.alignDown a al = R.ok r ∧ GreatestMultipleLE al a r ∧ physValid r := by
  obtain ⟨r, hr, hg⟩ := align_down_greatest a al h
  exact ⟨r, hr, hg, Nat.lt_of_le_of_lt hg.2.1 ha⟩

theorem phys_align_up (a al : Nat) (ha : physValid a) (h : isPow2 al = true) :
    PhysAddr.alignUp a al = if upSpec a al < 2^52 then R.ok (upSpec a al) else R.panic := by
  unfold physValid at ha
  unfold PhysAddr.alignUp
  rw [align_up_eq a al (by omega) h]
  by_cases hu : upSpec a al < 2^64
  · simp only [hu, if_true, R.bind_ok, PhysAddr.new, PhysAddr.tryNew, PhysAddr.newTruncate]
    by_cases h52 : upSpec a al < 2^52
    · simp only [h52, if_true, Nat.mod_eq_of_lt h52, R.ofOption_some]
    · simp only [h52, if_false]
      have : ¬ upSpec a al % 2^52 = upSpec a al := by omega
      simp only [this, if_false, R.ofOption_none]
  · have : ¬ upSpec a al < 2^52 := by omega
    simp only [hu, this, if_false, R.bind_panic]

/-! #### Virtual addresses: greatest / least *canonical* multiple, alignments up to 2^47 -/

theorem virt_align_down (a k : Nat) (ha : canon a) (hk : k ≤ 47) :
    ∃ r, VirtAddr.alignDown a (2^k) = R.ok r ∧ GreatestCanonMultipleLE (2^k) a r ∧ r = a - a % 2^k := by
  have hp : isPow2 (2^k) = true := (isPow2_iff _).2 ⟨k, by omega, rfl⟩
  have hpos := isPow2_pos _ hp
  obtain ⟨hd47, hdup⟩ := pow2_dvd_half k hk
  have hle := down_le a (2^k)
  have hc : canon (a - a % 2^k) := by
    unfold canon at ha ⊢
    rcases ha with h | ⟨h1, h2⟩
    · left; omega
    · right; exact ⟨down_greatest a (2^k) _ hpos hdup h1, by omega⟩
  refine ⟨a - a % 2^k, ?_, ⟨hc, down_dvd a _, hle, ?_⟩, rfl⟩
  · unfold VirtAddr.alignDown alignDown VirtAddr.newTruncate
    simp only [hp, if_true, R.map_ok, signExt48_canon _ hc]
  · exact fun m _ hm hle' => down_greatest a (2^k) m hpos hm hle'

/-- The value `align_up` returns for a canonical input. -/
def virtUpSpec (a al : Nat) : Nat := if upSpec a al = 2^47 then 2^64 - 2^47 else upSpec a al

theorem virt_align_up (a k : Nat) (ha : canon a) (hk : k ≤ 47) :
    VirtAddr.alignUp a (2^k) =
      (if upSpec a (2^k) < 2^64 then R.ok (virtUpSpec a (2^k)) else R.panic) ∧
    (upSpec a (2^k) < 2^64 → LeastCanonMultipleGE (2^k) a (virtUpSpec a (2^k))) ∧
    (¬ upSpec a (2^k) < 2^64 → ∀ m, canon m → 2^k ∣ m → ¬ a ≤ m) := by
  have hp : isPow2 (2^k) = true := (isPow2_iff _).2 ⟨k, by omega, rfl⟩
  have hpos := isPow2_pos _ hp
  obtain ⟨hd47, hdup⟩ := pow2_dvd_half k hk
  have hge := up_ge a (2^k) hpos
  have hdvd := up_dvd a (2^k)
  have ha64 : a < 2^64 := by unfold canon at ha; omega
  -- where does the least multiple land?
  have hland : (a < 2^47 → upSpec a (2^k) ≤ 2^47) := fun h => up_least a (2^k) _ hpos hd47 (by omega)
  refine ⟨?_, ?_, ?_⟩
  · unfold VirtAddr.alignUp
    rw [align_up_eq a _ ha64 hp]
    by_cases hu : upSpec a (2^k) < 2^64
    · simp only [hu, if_true, R.map_ok, VirtAddr.newTruncate, virtUpSpec]
      congr 1
      unfold canon at ha
      unfold signExt48
      (repeat' split) <;> omega
    · simp only [hu, if_false, R.map_panic]
  · intro hu
    unfold virtUpSpec
    by_cases h47 : upSpec a (2^k) = 2^47
    · simp only [h47, if_true]
      refine ⟨by unfold canon; omega, hdup, by unfold canon at ha; omega, ?_⟩
      intro m hm hmd hle
      have := up_least a (2^k) m hpos hmd hle
      unfold canon at hm; omega
    · simp only [h47, if_false]
      refine ⟨?_, hdvd, hge, fun m _ hmd hle => up_least a (2^k) m hpos hmd hle⟩
      unfold canon at ha ⊢
      rcases ha with h | ⟨h1, h2⟩
      · have := hland h; left; omega
      · right; omega
  · intro hu m hm hmd hle
    have := up_least a (2^k) m hpos hmd hle
    unfold canon at hm; omega

/-! #### `is_aligned` is true exactly for multiples -/

theorem is_aligned_iff (a al : Nat) (h : isPow2 al = true) :
    PhysAddr.isAligned a al = R.ok (decide (al ∣ a)) := by
  unfold PhysAddr.isAligned PhysAddr.alignDown alignDown
  simp only [h, if_true, R.map_ok]
  congr 1
  have hle := Nat.mod_le a al
  by_cases hd : al ∣ a
  · have := Nat.mod_eq_zero_of_dvd hd
    simp [hd, this]
  · have : a % al ≠ 0 := fun h0 => hd (Nat.dvd_of_mod_eq_zero h0)
    have hpos : 0 < a % al := Nat.pos_of_ne_zero this
    simp only [hd, decide_false, beq_eq_false_iff_ne, ne_eq]
    omega

theorem virt_is_aligned_iff (a k : Nat) (ha : canon a) (hk : k ≤ 47) :
    VirtAddr.isAligned a (2^k) = R.ok (decide (2^k ∣ a)) := by
  obtain ⟨r, hr, _, hre⟩ := virt_align_down a k ha hk
  unfold VirtAddr.isAligned
  rw [hr, hre]
  simp only [R.map_ok]
  congr 1
  have hle := Nat.mod_le a (2^k)
  by_cases hd : 2^k ∣ a
  · have := Nat.mod_eq_zero_of_dvd hd
    simp [hd, this]
  · have : a % 2^k ≠ 0 := fun h0 => hd (Nat.dvd_of_mod_eq_zero h0)
    have hpos : 0 < a % 2^k := Nat.pos_of_ne_zero this
    simp only [hd, decide_false, beq_eq_false_iff_ne, ne_eq]
    omega

/-! #### Containing page / frame, and construction from a start address -/

/-- The page containing a canonical address starts at a size-aligned canonical address that is
not above it and less than one page size below it. -/
theorem page_containing (sz a : Nat) (hsz : pageSize sz) (ha : canon a) :
    let p := Page.containingAddress sz a
    p % sz = 0 ∧ p ≤ a ∧ a < p + sz ∧ canon p ∧ p = a - a % sz := by
  unfold canon at ha
  simp only [Page.containingAddress, VirtAddr.newTruncate, signExt48, canon]
  rcases hsz with h | h | h <;> subst h <;> (repeat' split) <;> omega

theorem frame_containing (sz a : Nat) (hsz : pageSize sz) (ha : physValid a) :
    let f := PhysFrame.containingAddress sz a
    f % sz = 0 ∧ f ≤ a ∧ a < f + sz ∧ physValid f := by
  unfold physValid at ha ⊢
  simp only [PhysFrame.containingAddress]
  rcases hsz with h | h | h <;> subst h <;> omega

/-- `from_start_address` succeeds exactly for size-aligned addresses and returns the address. -/
theorem page_from_start (sz a : Nat) (hsz : pageSize sz) (ha : canon a) :
    Page.fromStartAddress sz a = if a % sz = 0 then some a else none := by
  unfold canon at ha
  simp only [Page.fromStartAddress, VirtAddr.newTruncate, signExt48]
  rcases hsz with h | h | h <;> subst h <;> (repeat' split) <;>
    first | omega | (simp only [Option.some.injEq]; omega) | skip
  all_goals simp_all <;> omega

theorem frame_from_start (sz a : Nat) (hsz : pageSize sz) :
    PhysFrame.fromStartAddress sz a = if a % sz = 0 then some a else none := by
  have := Nat.mod_le a sz
  simp only [PhysFrame.fromStartAddress]
  rcases hsz with h | h | h <;> subst h <;> (repeat' split) <;> first | rfl | omega

/-! #### Non-vacuity -/
example : alignUp 0x7fffffffffff 2 = R.ok 0x800000000000 := by decide
example : VirtAddr.alignUp 0x7fffffffffff 2 = R.ok 0xffff800000000000 := by decide
example : VirtAddr.alignUp 0xffffffffffffffff 2 = R.panic := by decide
example : PhysAddr.alignUp 0x000fffffffffffff 2 = R.panic := by decide
example : alignDown 12345 4096 = R.ok 12288 ∧ alignDown 5 3 = R.panic := by decide
example : canon 0x7fffffffffff ∧ isPow2 (2^47) = true := by decide

end X86.C06
