/-
C12 — IDT entries sit where the CPU looks and encode the architectural gate format.

Position theorems are decided over all 256 vectors on the tables the translator re-extracts from
`src/structures/idt.rs` on every run (field list, both `Index` matches, slice constants), against the
architectural vector table of `Spec/Gate.lean`. Range theorems hold for every `RangeBounds<u8>` value
(all nine bound combinations, all bound values) in both build profiles. Encoding theorems quantify
over all 2^64 handler addresses, all selectors and all entries; the history theorem over every finite
sequence of calls. `bv_decide` is used for the bit-level facts.
-/
import X86Model.Proofs.Idt
import X86Model.Proofs.Machine
import X86Model.Spec.Canon

set_option linter.unusedSimpArgs false

namespace X86.C12
open X86 X86.Spec X86.Idt

/-! ### 1. Where the entries are -/

/-- `Entry<F>` and `EntryOptions` are `repr(C)`; with the declared field order and types the entry is
16 bytes without padding: pointer_low@0, options@2 (cs@2, bits@4), pointer_middle@6, pointer_high@8,
reserved@12. -/
theorem entry_layout :
    Generated.Idt.entryRepr.contains "C" = true ∧ Generated.Idt.entryOptionsRepr.contains "C" = true ∧
    optsLayout = some ⟨[("cs", 0), ("bits", 2)], 4, 2⟩ ∧
    entryLayout = some ⟨[("pointer_low", 0), ("options", 2), ("pointer_middle", 6), ("pointer_high", 8),
      ("reserved", 12), ("phantom", 16)], 16, 4⟩ ∧
    entrySize = IDT_GATE_BYTES := by decide

/-- The table is `repr(C)`, 16-byte aligned, has one 16-byte slot per vector and nothing else:
`size_of` = 4096 = IDTR limit + 1. -/
theorem table_layout :
    Generated.Idt.tableRepr.contains "C" = true ∧ Generated.Idt.tableAlign = 16 ∧
    (Generated.Idt.fields.map (·.len)).sum = IDT_VECTORS ∧
    tableSize = IDT_GATE_BYTES * IDT_VECTORS ∧ tableSize = IDT_LIMIT + 1 := by decide +kernel

/-- **Named fields.** Every exception field sits at byte `16·v` of the table for the vector `v` of the
exception it is named after, and is a single entry. -/
theorem named_field_at_vector : ∀ p ∈ namedVectors,
    namedFieldOffset p.1 = some (gateByteOffset p.2) ∧
    ((fieldIdx p.1).map fieldLen) = some 1 := by decide +kernel

/-- Every public field of the table is one of those named exception entries (so there is no public way
to a slot that is not the gate of the field's own vector). -/
theorem public_fields_are_named : ∀ f ∈ Generated.Idt.fields,
    f.pub = true → (vectorOfName f.name).isSome = true ∧ f.isArray = false := by decide +kernel

/-- **Index.** For all 256 vectors `idt[v]` either is refused or yields the entry at byte `16·v`, and it
is refused exactly for the vectors that are reserved, push an error code, or are aborts (the
architectural sets of `Spec/Gate.lean`, not the code's own lists). -/
theorem index_eq_spec : ∀ v, v < 256 →
    Idt.index v = if indexRefused v then .panic else .ok (gateByteOffset v) := by decide +kernel

/-- `IndexMut` makes the same decision and reaches the same bytes as `Index`, for all 256 vectors. -/
theorem index_mut_eq_index : ∀ v, v < 256 → Idt.indexMut v = Idt.index v := by decide +kernel

/-- The refusal set, spelled out: {8, 10–14, 17, 18, 21, 29, 30} ∪ {15, 22–27, 31}. -/
theorem index_refuses_exactly : ∀ v, v < 256 →
    (Idt.index v = .panic ↔
      v ∈ [8, 10, 11, 12, 13, 14, 17, 18, 21, 29, 30] ∨ v ∈ [15, 22, 23, 24, 25, 26, 27, 31]) := by
  decide +kernel

/-- The reason (if any of the three known wordings) in the panic message of the arm that refuses `v` is a
true one. -/
def reasonOk (arms : List Generated.Idt.Arm) (v : Nat) : Bool :=
  match lookupArm arms v with
  | some (.panic _ why) =>
    (match refusalOfReason why with
     | some r => refusalAllowed v r
     | none => true)
  | _ => true

/-- A refusing arm whose message names a reason names a true one (an unknown wording is not judged). -/
theorem index_refusal_reasons : ∀ v, v < 256 →
    reasonOk Generated.Idt.indexArms v = true ∧ reasonOk Generated.Idt.indexMutArms v = true := by
  decide +kernel

/-- (number of handler arguments = 2, diverging) of a handler type, from the generated type aliases. -/
def handlerKind (h : String) : Option (Bool × Bool) :=
  (Generated.Idt.handlerTypes.find? (fun t => t.1 == h)).map (fun t => (t.2.1 == 2, t.2.2))

/-- **Handler signatures.** The entry type of the field holding each defined vector takes an error code
exactly when the CPU pushes one, and is diverging exactly for the aborts (#DF, #MC); vectors 32–255 are
plain handlers. -/
theorem handler_types_match_architecture : ∀ v, v < 256 → isReserved v = false →
    ((fieldOfSlot v).bind (fun p => Generated.Idt.fields[p.1]?)).bind (fun f => handlerKind f.handler)
      = some (pushesErrorCode v, isAbort v) := by decide +kernel

/-- **Ranges.** For every `RangeBounds<u8>` (each bound included / excluded / unbounded) and both build
profiles, `slice` — and with it every `Index<range type>` — is refused exactly when the range starts
below vector 32 or is inverted, and otherwise is the run of gates `16·first ..` of `count` entries. -/
theorem slice_eq_spec (cfg : Cfg) (lo hi : Bound) (hhi : hi.inU8) :
    Idt.slice cfg lo hi =
      match rangeSpec lo hi with
      | some (first, n) => .ok (gateByteOffset first, n)
      | none => .panic := by
  obtain ⟨_, h1, h2, h3, _⟩ := slice_field
  exact slice_with_eq_spec cfg _ ⟨h1, h2, h3⟩ lo hi hhi

/-- The same for `slice_mut` / `IndexMut<range type>`. -/
theorem slice_mut_eq_spec (cfg : Cfg) (lo hi : Bound) (hhi : hi.inU8) :
    Idt.sliceMut cfg lo hi =
      match rangeSpec lo hi with
      | some (first, n) => .ok (gateByteOffset first, n)
      | none => .panic := by
  obtain ⟨h0, h1, h2, _, h4⟩ := slice_field
  exact slice_with_eq_spec cfg _ ⟨by rw [← h0]; exact h1, by rw [← h0]; exact h2, h4⟩ lo hi hhi

/-- Range access refuses anything that starts below vector 32 … -/
theorem range_below_32_refused (cfg : Cfg) (lo hi : Bound) (hhi : hi.inU8) (h : lo.first < 32) :
    Idt.slice cfg lo hi = .panic ∧ Idt.sliceMut cfg lo hi = .panic := by
  rw [slice_eq_spec cfg lo hi hhi, slice_mut_eq_spec cfg lo hi hhi]
  simp [rangeSpec, h]

/-- … and the only other refusal is an inverted range (`start > end`, Rust's slice rule). -/
theorem range_panics_iff (cfg : Cfg) (lo hi : Bound) (hhi : hi.inU8) :
    Idt.slice cfg lo hi = .panic ↔ (lo.first < 32 ∨ hi.endExcl < lo.first) := by
  rw [slice_eq_spec cfg lo hi hhi]
  unfold rangeSpec
  by_cases h1 : lo.first < 32
  · simp [h1]
  · by_cases h2 : hi.endExcl < lo.first <;> simp [h1, h2]

/-- Element `k` of an accepted range is the gate of vector `first + k`, which is a vector ≥ 32 of the
table: the descriptor of a vector occupies the same bytes whether reached by range or by index. -/
theorem range_element_is_vector (cfg : Cfg) (lo hi : Bound) (hhi : hi.inU8) (off n k : Nat)
    (h : Idt.slice cfg lo hi = .ok (off, n)) (hk : k < n) :
    off + entrySize * k = gateByteOffset (lo.first + k) ∧ 32 ≤ lo.first + k ∧ lo.first + k < 256 ∧
    Idt.index (lo.first + k) = .ok (off + entrySize * k) := by
  have hU := endExcl_le hi hhi
  rw [slice_eq_spec cfg lo hi hhi] at h
  unfold rangeSpec at h
  by_cases h1 : lo.first < 32
  · simp [h1] at h
  · by_cases h2 : hi.endExcl < lo.first
    · simp [h1, h2] at h
    · simp only [h1, h2, if_false, R.ok.injEq, Prod.mk.injEq] at h
      obtain ⟨ho, hn⟩ := h
      have hlt : lo.first + k < 256 := by omega
      have hoff : off + entrySize * k = gateByteOffset (lo.first + k) := by
        rw [← ho, entry_size]; simp only [gateByteOffset, IDT_GATE_BYTES]; omega
      refine ⟨hoff, by omega, hlt, ?_⟩
      rw [index_eq_spec _ hlt, hoff]
      have hr : ∀ v, v < 256 → 32 ≤ v → indexRefused v = false := by decide +kernel
      simp [hr _ hlt (by omega)]

/-! ### 2. What an entry encodes -/

/-- The 16 bytes of an entry, field by field, at the architectural positions (closed form of the
`repr(C)` image computed from the generated field order). -/
theorem entry_image (e : Entry) :
    e.toBits = e.pointer_low.setWidth 128 ||| (e.options.cs.setWidth 128 <<< 16) |||
      (e.options.bits.setWidth 128 <<< 32) ||| (e.pointer_middle.setWidth 128 <<< 48) |||
      (e.pointer_high.setWidth 128 <<< 64) ||| (e.reserved.setWidth 128 <<< 96) := entry_toBits e

/-- The image loses nothing and has no padding: reading back gives the entry, and every 16-byte pattern
is the image of the entry read from it. -/
theorem image_roundtrip (e : Entry) (w : BitVec 128) :
    Entry.ofBits e.toBits = e ∧ (Entry.ofBits w).toBits = w := by
  constructor
  · rw [entry_ofBits, entry_toBits]
    cases e with
    | mk pl o pm ph r =>
      cases o with
      | mk cs bits =>
        simp only [Entry.mk.injEq, EntryOptions.mk.injEq]
        refine ⟨?_, ⟨?_, ?_⟩, ?_, ?_, ?_⟩ <;> bv_decide
  · rw [entry_toBits, entry_ofBits]
    simp only
    bv_decide

/-- **`set_handler_addr`.** For every entry, every 64-bit address and every code-segment value the
call succeeds and the entry's bytes decode, in the architectural 64-bit gate format, to: that address,
that selector, present, interrupt gate (type 0xE), ring 0, no stack switch, must-be-zero bits zero.
Bytes 12–15 are not written (they are zero in every entry made by `missing()`). -/
theorem set_handler_addr_encodes (cfg : Cfg) (e : Entry) (a : BitVec 64) (cs : BitVec 16) :
    ∃ e', e.setHandlerAddr cfg a cs = .ok e' ∧ e'.reserved = e.reserved ∧
      decodeGate e'.toBits = { expectedGate a cs with reserved := e.reserved } := by
  refine ⟨_, set_handler_addr_eq cfg e a cs, rfl, ?_⟩
  rw [entry_toBits]
  simp only [decodeGate, expectedGate, GATE_INTERRUPT, GateFields.mk.injEq]
  refine ⟨?_, ?_, ?_, ?_, ?_, ?_, ?_, ?_⟩ <;> bv_decide

/-- On an entry from `missing()` (or any entry whose reserved dword is zero) the result is exactly the
expected gate. -/
theorem set_handler_addr_on_missing (cfg : Cfg) (a : BitVec 64) (cs : BitVec 16) :
    ∃ e', Entry.missing.setHandlerAddr cfg a cs = .ok e' ∧ decodeGate e'.toBits = expectedGate a cs := by
  obtain ⟨e', h1, _, h3⟩ := set_handler_addr_encodes cfg Entry.missing a cs
  refine ⟨e', h1, ?_⟩
  rw [h3, missing_eq]
  simp only [expectedGate]

/-- `handler_addr()` of any entry is the (sign-extended) offset field of its gate … -/
theorem handler_addr_is_gate_offset (e : Entry) :
    e.handlerAddr = canon48 (decodeGate e.toBits).offset := by
  rw [entry_toBits]
  unfold Entry.handlerAddr canon48 decodeGate
  bv_decide

/-- … so a canonical handler address (every `VirtAddr` is) reads back unchanged. -/
theorem handler_addr_reads_back (cfg : Cfg) (e : Entry) (a : BitVec 64) (cs : BitVec 16)
    (ha : canon48 a = a) :
    ∃ e', e.setHandlerAddr cfg a cs = .ok e' ∧ e'.handlerAddr = a := by
  obtain ⟨e', h1, _, h3⟩ := set_handler_addr_encodes cfg e a cs
  refine ⟨e', h1, ?_⟩
  rw [handler_addr_is_gate_offset, h3]
  exact ha

/-- **`missing()`** is a non-present gate whose type field reads 0xE (the must-be-one bits 9–11 of the
option word), everything else zero; `handler_addr()` is 0. -/
theorem missing_decodes :
    decodeGate Entry.missing.toBits = missingGate ∧ Entry.missing.handlerAddr = 0#64 ∧
    Entry.missing.toBits = 0x0e0000000000#128 := by decide

/-! ### 3. Histories of calls on one entry -/

/-- The architecture-level meaning of each call. -/
def toSpec : Idt.Op → GateOp
  | .setHandlerAddr a cs => .handler a cs
  | .setPresent b => .present b
  | .disableInterrupts b => .disableInterrupts b
  | .setPrivilegeLevel d => .privilegeLevel d
  | .setStackIndex i => .stackIndex i.toNat
  | .setCodeSelector s => .codeSelector s

/-- The entry's type field is one of the two gate types (bits 9–11 of the option word are set): true
of `missing()` and of everything the API can make from it. -/
def IsGate (e : Entry) : Prop := e.options.bits &&& 0x0e00#16 = 0x0e00#16

instance (e : Entry) : Decidable (IsGate e) := by unfold IsGate; exact inferInstance

theorem isGate_iff (e : Entry) :
    IsGate e ↔ ((decodeGate e.toBits).type = GATE_INTERRUPT ∨ (decodeGate e.toBits).type = GATE_TRAP) := by
  rw [entry_toBits]
  unfold IsGate decodeGate GATE_INTERRUPT GATE_TRAP
  simp only
  constructor
  · intro h; bv_decide
  · intro h; bv_decide

/-- The one call whose behaviour depends on the build profile: in a build without overflow checks
`set_stack_index(65535)` computes `65535 + 1 = 0` and is *accepted* (see `stack_index_65535_unchecked`). -/
def InDomain (cfg : Cfg) : Idt.Op → Prop
  | .setStackIndex i => i ≠ 0xffff#16 ∨ cfg.ovf = true
  | _ => True

private theorem ist_bridge (i : BitVec 16) :
    BitVec.ofNat 3 (i.toNat + 1) = (i + 1#16).setWidth 3 := by
  apply BitVec.eq_of_toNat_eq
  simp [BitVec.toNat_add]

/-- **One call.** On any gate-typed entry: a call the gate format can express succeeds and changes, in
the decoded gate, exactly the field the architecture-level operation names (present; gate type for
`disable_interrupts`; DPL; IST = index + 1; selector; everything for `set_handler_addr`) — all other
fields, the handler offset and the reserved bits included, decode as before; `set_stack_index` with an
index above 6 panics. The result is again gate-typed. -/
theorem step (cfg : Cfg) (e : Entry) (op : Idt.Op) (hg : IsGate e) (hd : InDomain cfg op) :
    match (decodeGate e.toBits).apply (toSpec op) with
    | some g' => ∃ e', e.applyOp cfg op = .ok e' ∧ decodeGate e'.toBits = g' ∧ IsGate e'
    | none => e.applyOp cfg op = .panic := by
  cases e with
  | mk pl o pm ph r =>
  cases o with
  | mk cs bits =>
  unfold IsGate at hg
  simp only at hg
  cases op with
  | setHandlerAddr a c =>
    simp only [toSpec, GateFields.apply]
    refine ⟨_, set_handler_addr_eq cfg _ a c, ?_, ?_⟩
    · rw [entry_toBits, entry_toBits]
      simp only [decodeGate, expectedGate, GATE_INTERRUPT, GateFields.mk.injEq]
      refine ⟨?_, ?_, ?_, ?_, ?_, ?_, ?_, ?_⟩ <;> bv_decide
    · unfold IsGate; simp only; bv_decide
  | setPresent b =>
    simp only [toSpec, GateFields.apply, Entry.applyOp, set_present_eq, R.map_ok]
    refine ⟨_, rfl, ?_, ?_⟩
    · rw [entry_toBits, entry_toBits]
      simp only [decodeGate, GateFields.mk.injEq]
      cases b <;> simp only [if_true, if_false, Bool.false_eq_true] <;>
        (refine ⟨?_, ?_, ?_, ?_, ?_, ?_, ?_, ?_⟩ <;> bv_decide)
    · unfold IsGate; cases b <;> simp only [if_true, if_false, Bool.false_eq_true] <;> bv_decide
  | disableInterrupts b =>
    simp only [toSpec, GateFields.apply, Entry.applyOp, disable_interrupts_eq, R.map_ok]
    refine ⟨_, rfl, ?_, ?_⟩
    · rw [entry_toBits, entry_toBits]
      simp only [decodeGate, GateFields.mk.injEq, GATE_INTERRUPT, GATE_TRAP]
      cases b <;> simp only [if_true, if_false, Bool.false_eq_true] <;>
        (refine ⟨?_, ?_, ?_, ?_, ?_, ?_, ?_, ?_⟩ <;> bv_decide)
    · unfold IsGate; cases b <;> simp only [if_true, if_false, Bool.false_eq_true] <;> bv_decide
  | setPrivilegeLevel d =>
    simp only [toSpec, GateFields.apply, Entry.applyOp, set_privilege_level_eq, R.map_ok]
    refine ⟨_, rfl, ?_, ?_⟩
    · rw [entry_toBits, entry_toBits]
      simp only [decodeGate, GateFields.mk.injEq]
      refine ⟨?_, ?_, ?_, ?_, ?_, ?_, ?_, ?_⟩ <;> bv_decide
    · unfold IsGate; simp only; bv_decide
  | setCodeSelector s =>
    simp only [toSpec, GateFields.apply, Entry.applyOp, set_code_selector_eq, R.map_ok]
    refine ⟨_, rfl, ?_, ?_⟩
    · rw [entry_toBits, entry_toBits]
      simp only [decodeGate, GateFields.mk.injEq]
      refine ⟨?_, ?_, ?_, ?_, ?_, ?_, ?_, ?_⟩ <;> bv_decide
    · unfold IsGate; simp only; exact hg
  | setStackIndex i =>
    simp only [InDomain] at hd
    simp only [toSpec, GateFields.apply, Entry.applyOp, set_stack_index_eq]
    have hdom : ¬(i = 0xffff#16 ∧ cfg.ovf = true) ∨ 6 < i.toNat := by
      by_cases h : i = 0xffff#16
      · right; subst h; decide
      · left; exact fun hh => h hh.1
    by_cases h6 : i.toNat ≤ 6
    · have hle : i ≤ 6#16 := by rw [BitVec.le_def]; simpa using h6
      have hne : ¬(i = 0xffff#16 ∧ cfg.ovf = true) := by
        rcases hdom with h | h
        · exact h
        · omega
      have h7 : i + 1#16 ≤ 7#16 := by bv_decide
      simp only [h6, if_true, hne, if_false, h7, R.map_ok]
      refine ⟨_, rfl, ?_, ?_⟩
      · rw [entry_toBits, entry_toBits, ist_bridge i]
        simp only [decodeGate, GateFields.mk.injEq]
        refine ⟨?_, ?_, ?_, ?_, ?_, ?_, ?_, ?_⟩ <;> bv_decide
      · unfold IsGate; simp only; bv_decide
    · simp only [h6, if_false]
      by_cases hff : i = 0xffff#16
      · have hov : cfg.ovf = true := by
          rcases hd with h | h
          · exact absurd hff h
          · exact h
        simp only [hff, hov, and_self, if_true, R.map_panic]
      · have hgt : ¬ i ≤ 6#16 := by rw [BitVec.le_def]; simpa using h6
        have h7 : ¬ (i + 1#16 ≤ 7#16) := by bv_decide
        simp only [hff, false_and, if_false, h7, R.map_panic]

/-- **Histories.** Start from any gate-typed entry (`missing()`, or whatever an earlier history left)
and make any finite sequence of calls, continuing after a refused one: the entry's bytes decode to the
gate obtained by applying, in order, the architecture-level operations (a refused one changes
nothing) — so every setter changed only its own field at every step, and the handler address, selector
and all other fields are whatever the last call that names them set. -/
theorem history (cfg : Cfg) (ops : List Idt.Op) (e : Entry) (hg : IsGate e)
    (hd : ∀ op ∈ ops, InDomain cfg op) :
    decodeGate (Entry.final cfg e ops).toBits = (decodeGate e.toBits).final (ops.map toSpec) ∧
    IsGate (Entry.final cfg e ops) := by
  induction ops generalizing e with
  | nil => exact ⟨rfl, hg⟩
  | cons op rest ih =>
    have hs := step cfg e op hg (hd op (List.mem_cons_self ..))
    have hrest : ∀ o ∈ rest, InDomain cfg o := fun o ho => hd o (List.mem_cons_of_mem _ ho)
    simp only [Entry.final, GateFields.final, List.map_cons, List.foldl_cons]
    cases hsp : (decodeGate e.toBits).apply (toSpec op) with
    | some g' =>
      rw [hsp] at hs
      obtain ⟨e', h1, h2, h3⟩ := hs
      rw [h1]
      simp only [Option.getD_some]
      rw [← h2]
      exact ih e' h3 hrest
    | none =>
      rw [hsp] at hs
      rw [hs]
      simp only [Option.getD_none]
      exact ih e hg hrest

/-- Every intermediate state too: the per-call outcomes (returned / panicked) and the bytes after each
call agree with the architecture-level run. -/
theorem history_steps (cfg : Cfg) (ops : List Idt.Op) (e : Entry) (hg : IsGate e)
    (hd : ∀ op ∈ ops, InDomain cfg op) :
    (Entry.run cfg e ops).map (fun s => (s.1, decodeGate s.2.toBits)) =
      (decodeGate e.toBits).run (ops.map toSpec) := by
  induction ops generalizing e with
  | nil => rfl
  | cons op rest ih =>
    have hs := step cfg e op hg (hd op (List.mem_cons_self ..))
    have hrest : ∀ o ∈ rest, InDomain cfg o := fun o ho => hd o (List.mem_cons_of_mem _ ho)
    simp only [Entry.run, GateFields.run, List.map_cons]
    cases hsp : (decodeGate e.toBits).apply (toSpec op) with
    | some g' =>
      rw [hsp] at hs
      obtain ⟨e', h1, h2, h3⟩ := hs
      rw [h1]
      simp only [List.map_cons, h2]
      rw [← h2, ih e' h3 hrest]
    | none =>
      rw [hsp] at hs
      rw [hs]
      simp only [List.map_cons]
      rw [ih e hg hrest]

/-- The handler address survives every sequence of option setters: after `set_handler_addr(a)` (canonical
`a`) and any calls that are not another `set_handler_addr`, `handler_addr()` is still `a`. -/
theorem handler_addr_survives_setters (cfg : Cfg) (e : Entry) (a : BitVec 64) (cs : BitVec 16)
    (ops : List Idt.Op) (ha : canon48 a = a) (hg : IsGate e)
    (hno : ∀ op ∈ ops, ∀ a' cs', op ≠ .setHandlerAddr a' cs') (hd : ∀ op ∈ ops, InDomain cfg op) :
    (Entry.final cfg e (.setHandlerAddr a cs :: ops)).handlerAddr = a := by
  have hall : ∀ op ∈ (Idt.Op.setHandlerAddr a cs :: ops), InDomain cfg op := by
    intro op ho
    rcases List.mem_cons.mp ho with h | h
    · subst h; trivial
    · exact hd op h
  rw [handler_addr_is_gate_offset, (history cfg _ e hg hall).1]
  have key : ∀ (l : List Idt.Op) (g : GateFields),
      (∀ op ∈ l, ∀ a' cs', op ≠ .setHandlerAddr a' cs') → (g.final (l.map toSpec)).offset = g.offset := by
    intro l
    induction l with
    | nil => intro g _; rfl
    | cons op rest ih =>
      intro g hn
      simp only [GateFields.final, List.map_cons, List.foldl_cons]
      have hrest := ih ((g.apply (toSpec op)).getD g) (fun o ho => hn o (List.mem_cons_of_mem _ ho))
      simp only [GateFields.final] at hrest
      rw [hrest]
      cases op with
      | setHandlerAddr a' cs' => exact absurd rfl (hn _ (List.mem_cons_self ..) a' cs')
      | setPresent b => rfl
      | disableInterrupts b => rfl
      | setPrivilegeLevel d => rfl
      | setCodeSelector s => rfl
      | setStackIndex i =>
        simp only [toSpec, GateFields.apply]
        split <;> rfl
  have hcons : ∀ (g : GateFields) (o : GateOp) (l : List GateOp),
      g.final (o :: l) = ((g.apply o).getD g).final l := fun _ _ _ => rfl
  rw [List.map_cons, hcons, key ops _ hno]
  exact ha

/-- The defect outside the property's domain, as a theorem: without overflow checks
`set_stack_index(65535)` is accepted and clears the IST field (the documented panic does not happen);
with overflow checks it panics. -/
theorem stack_index_65535_unchecked (e : Entry) :
    e.applyOp ⟨false⟩ (.setStackIndex 0xffff#16) =
      .ok { e with options := { e.options with bits := e.options.bits &&& 0xfff8#16 } } ∧
    e.applyOp ⟨true⟩ (.setStackIndex 0xffff#16) = .panic := by
  constructor
  · simp only [Entry.applyOp, set_stack_index_eq]
    have : (0xffff#16 + 1#16 : BitVec 16) = 0#16 := by bv_decide
    simp [this]
  · simp [Entry.applyOp, set_stack_index_eq]

/-! ### 4. The table as a whole, and loading it -/

/-- **`new()` / `reset()`**: 256 slots, every one `Entry::missing()` — a non-present gate with the
must-be-one bits — whatever the table held before. -/
theorem new_all_missing (t : Table) :
    Table.new.slots = List.replicate IDT_VECTORS Entry.missing ∧ t.reset = Table.new ∧
    ∀ w ∈ Table.new.image, decodeGate w = missingGate := by
  have h1 : Table.new.slots = List.replicate IDT_VECTORS Entry.missing := by decide +kernel
  refine ⟨h1, rfl, ?_⟩
  intro w hw
  simp only [Table.image, h1, List.map_replicate, List.mem_replicate] at hw
  rw [hw.2]
  exact missing_decodes.1

/-- Writing the entry reached through any path and reading the slot at that vector gives it back; all
other slots keep their entries. -/
theorem table_write_read (t : Table) (v u : Nat) (e : Entry) (hv : v < t.slots.length) :
    (t.setAt (gateByteOffset v) e).getAt (gateByteOffset v) = some e ∧
    (u ≠ v → (t.setAt (gateByteOffset v) e).getAt (gateByteOffset u) = t.getAt (gateByteOffset u)) := by
  have h0 : entrySize ≠ 0 ∧ ∀ n, gateByteOffset n % entrySize = 0 ∧ gateByteOffset n / entrySize = n := by
    rw [entry_size]
    refine ⟨by decide, fun n => ?_⟩
    simp only [gateByteOffset, IDT_GATE_BYTES]
    omega
  simp only [Table.setAt, Table.getAt, h0.1, (h0.2 _).1, (h0.2 _).2, ne_eq, not_false_eq_true, and_self, if_true]
  constructor
  · simp [List.getElem?_set, hv]
  · intro huv
    simp [List.getElem?_set, Ne.symm huv]

/-- **`load()`**: for a table at any canonical address, in both build profiles, exactly one `lidt`
whose operand is (limit 4095, the table's own address); afterwards IDTR holds that pair. -/
theorem load_hands_cpu_the_table (cfg : Cfg) (base : Nat) (hc : Spec.canon base) (c : Cpu) :
    (Idt.load cfg base c).res = .ok () ∧
    (Idt.load cfg base c).trace = [.lidt (BitVec.ofNat 16 IDT_LIMIT) (BitVec.ofNat 64 base)] ∧
    (Idt.load cfg base c).cpu.idtr = (BitVec.ofNat 16 IDT_LIMIT, BitVec.ofNat 64 base) ∧
    IDT_LIMIT = 4095 := by
  have hnew : VirtAddr.new base = .ok base := by
    unfold VirtAddr.new VirtAddr.tryNew VirtAddr.newTruncate signExt48
    unfold Spec.canon at hc
    have : (if base % 2 ^ 48 < 2 ^ 47 then base % 2 ^ 48 else base % 2 ^ 48 + (2 ^ 64 - 2 ^ 48)) = base := by
      split <;> omega
    simp [this]
  have hlim : subU64 cfg tableSize 1 = .ok IDT_LIMIT := by
    rw [table_size]; simp [subU64, IDT_LIMIT, IDT_GATE_BYTES, IDT_VECTORS]
  unfold Idt.load Idt.pointer
  rw [hnew, hlim]
  simp only
  refine ⟨rfl, rfl, rfl, by decide⟩

/-! ### Non-vacuity -/

example : Idt.index 3 = .ok 48 ∧ Idt.index 14 = .panic ∧ Idt.index 255 = .ok 4080 := by decide +kernel
example : indexRefused 8 = true ∧ indexRefused 9 = false ∧ indexRefused 31 = true ∧ indexRefused 32 = false := by
  decide
example : namedFieldOffset "page_fault" = some 224 := by decide +kernel
example : (Bound.excluded 255).inU8 ∧ rangeSpec (.excluded 255) .unbounded = some (256, 0) ∧
    rangeSpec (.included 40) (.excluded 39) = none ∧ rangeSpec (.included 32) (.included 255) = some (32, 224) := by
  decide
example : Idt.slice ⟨false⟩ (.included 40) (.excluded 3) = .panic ∧
    Idt.slice ⟨true⟩ (.included 100) (.included 101) = .ok (1600, 2) := by decide +kernel
example : (Entry.missing.setHandlerAddr ⟨true⟩ 0xffff800012345678#64 0x33#16).map Entry.toBits
    = .ok 0x00000000ffff800012348e0000335678#128 := by decide
example : decodeGate 0x00000000ffff800012348e0000335678#128 = expectedGate 0xffff800012345678#64 0x33#16 := by
  decide
example : canon48 0xffff800012345678#64 = 0xffff800012345678#64 ∧ canon48 0x0000800000000000#64 ≠ 0x0000800000000000#64 := by
  decide
example : IsGate Entry.missing := by decide
example : InDomain ⟨false⟩ (.setStackIndex 7#16) ∧ ¬ InDomain ⟨false⟩ (.setStackIndex 0xffff#16) := by
  simp [InDomain]
example : (Entry.final ⟨true⟩ Entry.missing
    [.setHandlerAddr 0x1000#64 8#16, .setStackIndex 2#16, .setStackIndex 9#16, .setPrivilegeLevel 3#2,
     .disableInterrupts false]).toBits = 0x000000000000000000000ef0300081000#128 := by decide
example : (decodeGate 0x00000000000000000000ef0300081000#128) =
    { offset := 0x1000#64, selector := 8#16, ist := 3#3, type := GATE_TRAP, dpl := 3#2, p := true, mbz := true,
      reserved := 0#32 } := by decide
example : Spec.canon 0x7fff00001000 := by decide

example : Table.new.slots.length = 256 ∧
    (Table.new.setAt (gateByteOffset 33) ⟨1#16, ⟨8#16, 0x8e00#16⟩, 0#16, 0#32, 0#32⟩).getAt (gateByteOffset 33)
      = some ⟨1#16, ⟨8#16, 0x8e00#16⟩, 0#16, 0#32, 0#32⟩ := by decide +kernel
example : ∀ op ∈ [Idt.Op.setPresent false, .setStackIndex 3#16], ∀ a' cs', op ≠ .setHandlerAddr a' cs' := by
  intro op h a' cs'
  simp at h
  rcases h with h | h <;> subst h <;> simp
example : (Entry.final ⟨false⟩ Entry.missing [.setHandlerAddr 0xffffffff80001234#64 0x33#16, .setPresent false,
    .setStackIndex 3#16]).handlerAddr = 0xffffffff80001234#64 := by decide

end X86.C12
