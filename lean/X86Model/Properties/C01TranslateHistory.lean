/-
C01 — what `translate` / `translate_addr` / `translate_page` return ALONG HISTORIES, including pages mapped
without `PRESENT`.

`Properties/C01Translate.lean` is a state-level statement: under `PathOK` ("every entry the walk reads is zero or
present") `translate` is the rendering of the hardware walk. `Properties/C01HistoryFull.lean` says that after every
valid history (`map_to`/`unmap`/`update_flags`/`set_flags_pN_entry`/clean-up calls; leaf flags with or without
`PRESENT`) the invariant `Inv` holds and the leaf slots of the hierarchy are exactly the records of the abstract
state (`Rel`). This file combines the two:

* `translate_of_rel` (state level, under `Inv` + `Rel`): for EVERY mapper kind and EVERY address,
  `translate` returns `xlOf a va`: `Mapped { frame, size, offset = va % size, flags = flags() of the slot word }` of
  the record covering `va` — WHETHER OR NOT that record's flags contain `PRESENT`, and for all three page sizes —
  and `NotMapped` if no record covers `va`. `translate` never panics and never reports `InvalidFrameAddress`.
* **Finding (differs from the presumption in the task brief):** a HUGE page mapped without `PRESENT` is also reported
  as `Mapped` by `translate`, by both mapper kinds: the model's `next_table` (`Model/Mapper.lean`: `nextTable`) tests
  `HUGE_PAGE` BEFORE `PRESENT`, and the recursive variant (`nextTableU`) never tests `PRESENT`. So the discrepancy
  with the hardware walk (which yields nothing for a non-present entry) exists for dormant pages of ALL sizes, not
  only for 4 KiB pages (`dormant_huge_is_mapped`, and the `example`s at the end). The two mapper kinds do not differ
  in any case.
* `history_translate_present`: if every record of the folded abstract state has `PRESENT` then `PathOK` holds
  everywhere, `translate` = rendering of the hardware walk = `xlOf`, `translate_addr` = physical address of the walk.
* `history_translate_dormant`: the complete case analysis without that hypothesis.
* `history_translate_page`: `translate_page` of recorded pages (frame, present or not), of pages inside a recorded
  huge page (`ParentEntryHugePage`), of other unrecorded pages (`PageNotMapped`; for a huge-page-sized request
  whose slot links a lower table: `ParentEntryHugePage`).
-/
import X86Model.Properties.C01Translate
import X86Model.Properties.C01HistoryFull
import X86Model.Properties.C02Outcome

namespace X86.C01TranslateHistory
open X86 X86.Spec X86.C01 X86.C01HistoryDormant X86.C02Outcome

/-! ### `next_table` of both kinds on the three sorts of entries a hierarchy satisfying `Inv` contains -/

theorem ntK_zero (k : Kind) : ntK k 0#64 = .error .notMapped := by
  obtain ⟨r⟩ := k; cases r <;> rfl

/-- a table link (present, PS = 0) is followed by both variants -/
theorem ntK_link (k : Kind) {e t : Word} (h : tableOf e = some t) : ntK k e = .ok t := by
  obtain ⟨hP, hS, ht⟩ := (tableOf_some_iff e t).1 h
  have h4 : NtOK k e := NtOK_of_entOK k (fun _ => hP)
  rw [ntK_eq k e h4, hP, hS, ht]; rfl

/-- a non-zero entry with the `HUGE_PAGE` bit — PRESENT OR NOT — is reported as a huge page by both variants:
`nextTable` tests `HUGE_PAGE` first, `nextTableU` tests `is_unused()` and then `HUGE_PAGE` -/
theorem ntK_huge (k : Kind) {e : Word} (hS : bitPS e = true) : ntK k e = .error .hugePage := by
  have hne : e ≠ 0#64 := ne_zero_of_bitPS hS
  obtain ⟨r⟩ := k
  cases r
  · show nextTable e = _
    unfold nextTable
    rw [huge_eq_bitPS, hS]; rfl
  · show nextTableU e = _
    unfold nextTableU
    rw [(isUnused_eq_false_iff e).2 hne, huge_eq_bitPS, hS]; rfl

/-! ### `translateE` on such entries -/

theorem tE_nm4 (k : Kind) (e4 e3 e2 e1 : Word) (va : Nat) (h4 : ntK k e4 = .error .notMapped) :
    (translateE k e4 e3 e2 e1 va).1 = .ok .notMapped := by
  simp only [translateE, h4]

theorem tE_nm3 (k : Kind) (e4 e3 e2 e1 : Word) (va : Nat) (t3 : Word) (h4 : ntK k e4 = .ok t3)
    (h3 : ntK k e3 = .error .notMapped) : (translateE k e4 e3 e2 e1 va).1 = .ok .notMapped := by
  simp only [translateE, h4, h3]

theorem tE_huge3 (k : Kind) (e4 e3 e2 e1 : Word) (va : Nat) (t3 : Word) (h4 : ntK k e4 = .ok t3)
    (h3 : ntK k e3 = .error .hugePage) :
    (translateE k e4 e3 e2 e1 va).1 = .ok (.mapped (addr1G e3) (2^30) (va % 2^30) (Pte.flags e3)) := by
  simp only [translateE, h4, h3, alignDown_1G]

theorem tE_nm2 (k : Kind) (e4 e3 e2 e1 : Word) (va : Nat) (t3 t2 : Word) (h4 : ntK k e4 = .ok t3)
    (h3 : ntK k e3 = .ok t2) (h2 : ntK k e2 = .error .notMapped) :
    (translateE k e4 e3 e2 e1 va).1 = .ok .notMapped := by
  simp only [translateE, h4, h3, h2]

theorem tE_huge2 (k : Kind) (e4 e3 e2 e1 : Word) (va : Nat) (t3 t2 : Word) (h4 : ntK k e4 = .ok t3)
    (h3 : ntK k e3 = .ok t2) (h2 : ntK k e2 = .error .hugePage) :
    (translateE k e4 e3 e2 e1 va).1 = .ok (.mapped (addr2M e2) (2^21) (va % 2^21) (Pte.flags e2)) := by
  simp only [translateE, h4, h3, h2, alignDown_2M]

theorem tE_leaf1 (k : Kind) (e4 e3 e2 e1 : Word) (va : Nat) (t3 t2 t1 : Word) (h4 : ntK k e4 = .ok t3)
    (h3 : ntK k e3 = .ok t2) (h2 : ntK k e2 = .ok t1) :
    (translateE k e4 e3 e2 e1 va).1 =
      if e1 = 0#64 then .ok .notMapped else .ok (.mapped (tableAddr e1) 4096 (va % 4096) (Pte.flags e1)) := by
  simp only [translateE, h4, h3, h2]
  by_cases h0 : e1 = 0#64
  · rw [if_pos h0, if_pos ((isUnused_eq_true_iff e1).2 h0)]
  · rw [if_neg h0, (isUnused_eq_false_iff e1).2 h0]; rfl


/-! ### The entries on the path of `va`, from the correspondence `Rel` -/

/-- a table link as the hardware reads it: present, PS = 0 -/
def Link (e : Word) : Prop := bitP e = true ∧ bitPS e = false

theorem Link.tableOf {e : Word} (h : Link e) : tableOf e = some (tableAddr e) :=
  (tableOf_some_iff e _).2 ⟨h.1, h.2, rfl⟩

theorem link_of_tableOf {e t : Word} (h : tableOf e = some t) : Link e ∧ t = tableAddr e := by
  obtain ⟨a, b, c⟩ := (tableOf_some_iff e t).1 h
  exact ⟨⟨a, b⟩, c⟩

theorem tblAt_cons_some {m : PMem} {t : Word} {i : Nat} {rest : List Nat} {g : Word}
    (h : tblAt m t (i :: rest) = some g) : Link (m t i) ∧ tblAt m (tableAddr (m t i)) rest = some g := by
  simp only [tblAt] at h
  cases hto : tableOf (m t i) with
  | none => rw [hto] at h; cases h
  | some t' =>
    rw [hto] at h
    obtain ⟨hl, rfl⟩ := link_of_tableOf hto
    exact ⟨hl, h⟩

theorem tblAt_snoc {m : PMem} {t g : Word} {q : List Nat} {j : Nat} (hg : tblAt m t q = some g) (hl : Link (m g j)) :
    tblAt m t (q ++ [j]) = some (tableAddr (m g j)) := by
  rw [tblAt_append, hg]; simp [tblAt, hl.tableOf]

theorem vaPath_eq (va : Nat) : vaPath va = [vaIdx4 va, vaIdx3 va, vaIdx2 va, vaIdx1 va] := rfl

theorem idx4_lt (va : Nat) : vaIdx4 va < 512 := Nat.mod_lt _ (by decide)
theorem idx3_lt (va : Nat) : vaIdx3 va < 512 := Nat.mod_lt _ (by decide)
theorem idx2_lt (va : Nat) : vaIdx2 va < 512 := Nat.mod_lt _ (by decide)
theorem idx1_lt (va : Nat) : vaIdx1 va < 512 := Nat.mod_lt _ (by decide)

/-- **The path of an address inside a recorded page**: table links down to the page's slot, which holds the
record's raw word (non-zero; its P bit is the `PRESENT` bit of the recorded flags; for the huge sizes it has PS). -/
theorem covered_ents {p4 : Word} {m : PMem} {a : Abs} (hrel : Rel p4 m a) (r : PageRec) (hr : r ∈ a) (va : Nat)
    (hc : r.parents ++ [r.li] <+: vaPath va) :
    r.word ≠ 0#64 ∧ bitP r.word = bitP r.flags ∧
    ((r.huge = false ∧ r.sz = 4096 ∧ tableAddr r.word = r.frame ∧
        Link (ent4 m p4 va) ∧ Link (ent3 m p4 va) ∧ Link (ent2 m p4 va) ∧ ent1 m p4 va = r.word) ∨
     (r.huge = true ∧ r.sz = 2^21 ∧ addr2M r.word = r.frame ∧ bitPS r.word = true ∧
        Link (ent4 m p4 va) ∧ Link (ent3 m p4 va) ∧ ent2 m p4 va = r.word) ∨
     (r.huge = true ∧ r.sz = 2^30 ∧ addr1G r.word = r.frame ∧ bitPS r.word = true ∧
        Link (ent4 m p4 va) ∧ ent3 m p4 va = r.word)) := by
  obtain ⟨hok, g, hg, hw, hne, _⟩ := hrel.slots r hr
  obtain ⟨sh, _, _, hfl, hfr⟩ := hok
  obtain ⟨_, _, w3, w4, w5, _, _, _⟩ := leafWord_facts sh r.frame r.flags hfl hfr
  refine ⟨hne, w3, ?_⟩
  obtain ⟨parents, li, huge, sz, frame, flags⟩ := r
  simp only at sh hg hw w4 w5 hc ⊢
  obtain ⟨t, ht⟩ := hc
  rw [vaPath_eq] at ht
  cases sh with
  | s4k x y z =>
    simp only [List.cons_append, List.nil_append, List.cons.injEq] at ht
    obtain ⟨rfl, rfl, rfl, rfl, _⟩ := ht
    obtain ⟨l4, hg⟩ := tblAt_cons_some hg
    obtain ⟨l3, hg⟩ := tblAt_cons_some hg
    obtain ⟨l2, hg⟩ := tblAt_cons_some hg
    simp only [tblAt, Option.some.injEq] at hg
    subst hg
    refine Or.inl ⟨rfl, rfl, ?_, l4, l3, l2, hw⟩
    simpa [entryFrame] using w5
  | s2m x y =>
    simp only [List.cons_append, List.nil_append, List.cons.injEq] at ht
    obtain ⟨rfl, rfl, rfl, _⟩ := ht
    obtain ⟨l4, hg⟩ := tblAt_cons_some hg
    obtain ⟨l3, hg⟩ := tblAt_cons_some hg
    simp only [tblAt, Option.some.injEq] at hg
    subst hg
    refine Or.inr (Or.inl ⟨rfl, rfl, ?_, w4 rfl, l4, l3, hw⟩)
    simpa [entryFrame] using w5
  | s1g x =>
    simp only [List.cons_append, List.nil_append, List.cons.injEq] at ht
    obtain ⟨rfl, rfl, _⟩ := ht
    obtain ⟨l4, hg⟩ := tblAt_cons_some hg
    simp only [tblAt, Option.some.injEq] at hg
    subst hg
    refine Or.inr (Or.inr ⟨rfl, rfl, ?_, w4 rfl, l4, hw⟩)
    simpa [entryFrame] using w5

/-- **The path of an address no recorded page contains**: table links down to a zero entry. -/
theorem uncovered_ents {p4 : Word} {m : PMem} {a : Abs} (hrel : Rel p4 m a) (va : Nat)
    (hnc : ∀ r ∈ a, ¬ r.parents ++ [r.li] <+: vaPath va) :
    ent4 m p4 va = 0#64 ∨ (Link (ent4 m p4 va) ∧
      (ent3 m p4 va = 0#64 ∨ (Link (ent3 m p4 va) ∧
        (ent2 m p4 va = 0#64 ∨ (Link (ent2 m p4 va) ∧ ent1 m p4 va = 0#64))))) := by
  have hI4 : IdxOK [vaIdx4 va] := fun j hj => by simp at hj; rw [hj]; exact idx4_lt va
  have hI3 : IdxOK [vaIdx4 va, vaIdx3 va] := fun j hj => by
    simp at hj; rcases hj with rfl | rfl
    · exact idx4_lt va
    · exact idx3_lt va
  have hI2 : IdxOK [vaIdx4 va, vaIdx3 va, vaIdx2 va] := fun j hj => by
    simp at hj; rcases hj with rfl | rfl | rfl
    · exact idx4_lt va
    · exact idx3_lt va
    · exact idx2_lt va
  -- a non-zero entry on the path that is not a link is a leaf slot, hence the slot of a record covering `va`
  have key : ∀ (q : List Nat) (j : Nat) (g : Word) (rest : List Nat), q.length ≤ 3 → IdxOK q → j < 512 →
      tblAt m p4 q = some g → q ++ [j] ++ rest = vaPath va → m g j ≠ 0#64 →
      (q.length = 3 ∨ tableOf (m g j) = none) → False := by
    intro q j g rest hq hqi hj hg hp hne hl
    obtain ⟨r, hr, e1, e2⟩ := hrel.complete q j _ hq hqi hj ⟨g, hg, rfl, hne, hl⟩
    exact hnc r hr ⟨rest, by rw [e1, e2]; exact hp⟩
  by_cases h4 : ent4 m p4 va = 0#64
  · exact Or.inl h4
  right
  have l4 : Link (ent4 m p4 va) := by
    cases hto : tableOf (ent4 m p4 va) with
    | none => exact (key [] (vaIdx4 va) p4 [vaIdx3 va, vaIdx2 va, vaIdx1 va] (by simp) (fun _ h => by cases h)
        (idx4_lt va) rfl rfl h4 (Or.inr hto)).elim
    | some t => exact (link_of_tableOf hto).1
  refine ⟨l4, ?_⟩
  have T3 : tblAt m p4 [vaIdx4 va] = some (tableAddr (ent4 m p4 va)) := tblAt_snoc (q := []) rfl l4
  by_cases h3 : ent3 m p4 va = 0#64
  · exact Or.inl h3
  right
  have l3 : Link (ent3 m p4 va) := by
    cases hto : tableOf (ent3 m p4 va) with
    | none => exact (key [vaIdx4 va] (vaIdx3 va) _ [vaIdx2 va, vaIdx1 va] (by simp) hI4
        (idx3_lt va) T3 rfl h3 (Or.inr hto)).elim
    | some t => exact (link_of_tableOf hto).1
  refine ⟨l3, ?_⟩
  have T2 : tblAt m p4 [vaIdx4 va, vaIdx3 va] = some (tableAddr (ent3 m p4 va)) := tblAt_snoc (q := [vaIdx4 va]) T3 l3
  by_cases h2 : ent2 m p4 va = 0#64
  · exact Or.inl h2
  right
  have l2 : Link (ent2 m p4 va) := by
    cases hto : tableOf (ent2 m p4 va) with
    | none => exact (key [vaIdx4 va, vaIdx3 va] (vaIdx2 va) _ [vaIdx1 va] (by simp) hI3
        (idx2_lt va) T2 rfl h2 (Or.inr hto)).elim
    | some t => exact (link_of_tableOf hto).1
  refine ⟨l2, ?_⟩
  have T1 : tblAt m p4 [vaIdx4 va, vaIdx3 va, vaIdx2 va] = some (tableAddr (ent2 m p4 va)) :=
    tblAt_snoc (q := [vaIdx4 va, vaIdx3 va]) T2 l2
  apply Classical.byContradiction
  intro h1
  exact key [vaIdx4 va, vaIdx3 va, vaIdx2 va] (vaIdx1 va) _ [] (by simp) hI2 (idx1_lt va) T1 rfl h1 (Or.inl rfl)


/-! ### What `translate` returns, state level -/

/-- **What `translate` must return at `va` according to the abstract state**: `Mapped` with the frame, size, offset
`va % size` and `flags()` of the slot word of the record covering `va` — present or not —, `NotMapped` if there is none. -/
def xlOf (a : Abs) (va : Nat) : R Xl :=
  match a.at va with
  | some r => .ok (.mapped r.frame r.sz (va % r.sz) (Pte.flags r.word))
  | none => .ok .notMapped

/-- inside a recorded page — PRESENT OR NOT, any size, any mapper kind — `translate` reports the mapping -/
theorem translate_covered {p4 : Word} {m : PMem} {a : Abs} (hrel : Rel p4 m a) (r : PageRec) (hr : r ∈ a) (va : Nat)
    (hc : r.parents ++ [r.li] <+: vaPath va) (k : Kind) (s : St) (hs : s.mem = m) :
    (translate k s p4 va).1 = .ok (.mapped r.frame r.sz (va % r.sz) (Pte.flags r.word)) := by
  subst hs
  obtain ⟨hne, _, h⟩ := covered_ents hrel r hr va hc
  rw [translate_eq_E]
  show (translateE k (ent4 s.mem p4 va) (ent3 s.mem p4 va) (ent2 s.mem p4 va) (ent1 s.mem p4 va) va).1 = _
  rcases h with ⟨_, hsz, hfr, l4, l3, l2, e1⟩ | ⟨_, hsz, hfr, hS, l4, l3, e2⟩ | ⟨_, hsz, hfr, hS, l4, e3⟩
  · rw [tE_leaf1 k _ _ _ _ va _ _ _ (ntK_link k l4.tableOf) (ntK_link k l3.tableOf) (ntK_link k l2.tableOf), e1,
      if_neg hne, hfr, hsz]
  · rw [tE_huge2 k _ _ _ _ va _ _ (ntK_link k l4.tableOf) (ntK_link k l3.tableOf) (by rw [e2]; exact ntK_huge k hS),
      e2, hfr, hsz]
  · rw [tE_huge3 k _ _ _ _ va _ (ntK_link k l4.tableOf) (by rw [e3]; exact ntK_huge k hS), e3, hfr, hsz]

/-- outside all recorded pages `translate` reports `NotMapped` -/
theorem translate_uncovered {p4 : Word} {m : PMem} {a : Abs} (hrel : Rel p4 m a) (va : Nat)
    (hnc : ∀ r ∈ a, ¬ r.parents ++ [r.li] <+: vaPath va) (k : Kind) (s : St) (hs : s.mem = m) :
    (translate k s p4 va).1 = .ok .notMapped := by
  subst hs
  rw [translate_eq_E]
  show (translateE k (ent4 s.mem p4 va) (ent3 s.mem p4 va) (ent2 s.mem p4 va) (ent1 s.mem p4 va) va).1 = _
  rcases uncovered_ents hrel va hnc with h4 | ⟨l4, h3 | ⟨l3, h2 | ⟨l2, h1⟩⟩⟩
  · exact tE_nm4 k _ _ _ _ va (by rw [h4]; exact ntK_zero k)
  · exact tE_nm3 k _ _ _ _ va _ (ntK_link k l4.tableOf) (by rw [h3]; exact ntK_zero k)
  · exact tE_nm2 k _ _ _ _ va _ _ (ntK_link k l4.tableOf) (ntK_link k l3.tableOf) (by rw [h2]; exact ntK_zero k)
  · rw [tE_leaf1 k _ _ _ _ va _ _ _ (ntK_link k l4.tableOf) (ntK_link k l3.tableOf) (ntK_link k l2.tableOf), if_pos h1]

theorem at_some {a : Abs} {va : Nat} {r : PageRec} (h : a.at va = some r) :
    r ∈ a ∧ r.parents ++ [r.li] <+: vaPath va := by
  unfold Abs.at at h
  have hc0 := List.find?_some h
  have hc : r.covers va = true := hc0
  exact ⟨List.mem_of_find?_eq_some h, (PageRec.covers_iff r va).1 hc⟩

theorem at_none {a : Abs} {va : Nat} (h : a.at va = none) : ∀ r ∈ a, ¬ r.parents ++ [r.li] <+: vaPath va := by
  unfold Abs.at at h
  intro r hr hc
  exact List.find?_eq_none.1 h r hr ((PageRec.covers_iff r va).2 hc)

/-- **`translate` of every mapper kind at every address is dictated by the abstract state** (only the
correspondence `Rel` is needed). In particular it never panics and never reports `InvalidFrameAddress`. -/
theorem translate_of_rel {p4 : Word} {m : PMem} {a : Abs} (hrel : Rel p4 m a) (k : Kind) (s : St) (hs : s.mem = m)
    (va : Nat) : (translate k s p4 va).1 = xlOf a va := by
  unfold xlOf
  cases h : a.at va with
  | none => exact translate_uncovered hrel va (at_none h) k s hs
  | some r => exact translate_covered hrel r (at_some h).1 va (at_some h).2 k s hs

/-! ### `PathOK` at addresses whose covering record is present, or that no record covers -/

theorem entOK_zero {e : Word} (h : e = 0#64) : EntOK e := fun hne => absurd h hne
theorem entOK_P {e : Word} (h : bitP e = true) : EntOK e := fun _ => h
theorem not_link_zero {e : Word} (h : e = 0#64) : ¬ Link e := fun l => by
  have := l.1; rw [h, bitP_zero] at this; cases this
theorem not_link_PS {e : Word} (h : bitPS e = true) : ¬ Link e := fun l => by
  have := l.2; rw [h] at this; cases this

theorem pathOK_intro (m : PMem) (p4 : Word) (va : Nat) (h4 : bitPS (ent4 m p4 va) = false)
    (hE4 : EntOK (ent4 m p4 va)) (hE3 : Link (ent4 m p4 va) → EntOK (ent3 m p4 va))
    (hE2 : Link (ent4 m p4 va) → Link (ent3 m p4 va) → EntOK (ent2 m p4 va))
    (hE1 : Link (ent4 m p4 va) → Link (ent3 m p4 va) → Link (ent2 m p4 va) → EntOK (ent1 m p4 va)) :
    PathOK m p4 va := by
  have L3 : reach3 m p4 va = true → Link (ent4 m p4 va) := fun r => (reach3_iff m p4 va).1 r
  have L2 : reach2 m p4 va = true → Link (ent4 m p4 va) ∧ Link (ent3 m p4 va) := fun r => by
    obtain ⟨r3, p, q⟩ := (reach2_iff m p4 va).1 r
    exact ⟨L3 r3, p, q⟩
  have L1 : reach1 m p4 va = true → Link (ent4 m p4 va) ∧ Link (ent3 m p4 va) ∧ Link (ent2 m p4 va) := fun r => by
    obtain ⟨r2, p, q⟩ := (reach1_iff m p4 va).1 r
    exact ⟨(L2 r2).1, (L2 r2).2, p, q⟩
  exact ⟨⟨⟨⟨hE4, h4⟩, fun r => hE3 (L3 r)⟩, fun r => hE2 (L2 r).1 (L2 r).2⟩,
    fun r => hE1 (L1 r).1 (L1 r).2.1 (L1 r).2.2⟩

theorem pathOK_covered {p4 : Word} {m : PMem} {a : Abs} (hrel : Rel p4 m a) (r : PageRec) (hr : r ∈ a) (va : Nat)
    (hc : r.parents ++ [r.li] <+: vaPath va) (hp : r.flags &&& 1#64 = 1#64) : PathOK m p4 va := by
  obtain ⟨_, hb, h⟩ := covered_ents hrel r hr va hc
  have hP : bitP r.word = true := by rw [hb]; exact bitP_of_present _ hp
  rcases h with ⟨_, _, _, l4, l3, l2, e1⟩ | ⟨_, _, _, hS, l4, l3, e2⟩ | ⟨_, _, _, hS, l4, e3⟩
  · exact pathOK_intro m p4 va l4.2 (entOK_P l4.1) (fun _ => entOK_P l3.1) (fun _ _ => entOK_P l2.1)
      (fun _ _ _ => entOK_P (by rw [e1]; exact hP))
  · exact pathOK_intro m p4 va l4.2 (entOK_P l4.1) (fun _ => entOK_P l3.1) (fun _ _ => entOK_P (by rw [e2]; exact hP))
      (fun _ _ l2 => (not_link_PS (by rw [e2]; exact hS) l2).elim)
  · exact pathOK_intro m p4 va l4.2 (entOK_P l4.1) (fun _ => entOK_P (by rw [e3]; exact hP))
      (fun _ l3 => (not_link_PS (by rw [e3]; exact hS) l3).elim)
      (fun _ l3 _ => (not_link_PS (by rw [e3]; exact hS) l3).elim)

theorem pathOK_uncovered {p4 : Word} {m : PMem} {a : Abs} (hrel : Rel p4 m a) (va : Nat)
    (hnc : ∀ r ∈ a, ¬ r.parents ++ [r.li] <+: vaPath va) : PathOK m p4 va := by
  rcases uncovered_ents hrel va hnc with h4 | ⟨l4, h3 | ⟨l3, h2 | ⟨l2, h1⟩⟩⟩
  · exact pathOK_intro m p4 va (by rw [h4]; exact bitPS_zero) (entOK_zero h4) (fun l => (not_link_zero h4 l).elim)
      (fun l => (not_link_zero h4 l).elim) (fun l => (not_link_zero h4 l).elim)
  · exact pathOK_intro m p4 va l4.2 (entOK_P l4.1) (fun _ => entOK_zero h3) (fun _ l => (not_link_zero h3 l).elim)
      (fun _ l => (not_link_zero h3 l).elim)
  · exact pathOK_intro m p4 va l4.2 (entOK_P l4.1) (fun _ => entOK_P l3.1) (fun _ _ => entOK_zero h2)
      (fun _ _ l => (not_link_zero h2 l).elim)
  · exact pathOK_intro m p4 va l4.2 (entOK_P l4.1) (fun _ => entOK_P l3.1) (fun _ _ => entOK_P l2.1)
      (fun _ _ _ => entOK_zero h1)

/-- If every record has `PRESENT`, `PathOK` holds at every address. -/
theorem pathOK_of_present {p4 : Word} {m : PMem} {a : Abs} (hrel : Rel p4 m a)
    (hall : ∀ r ∈ a, r.flags &&& 1#64 = 1#64) (va : Nat) : PathOK m p4 va := by
  cases h : a.at va with
  | none => exact pathOK_uncovered hrel va (at_none h)
  | some r => exact pathOK_covered hrel r (at_some h).1 va (at_some h).2 (hall r (at_some h).1)

/-! ### `flags()` of a record's slot word, the frame bound, `translate_addr` -/

private theorem flags4k_bv (frame fl : BitVec 64) (hf : frame &&& 0xfff0000000000fff#64 = 0#64)
    (h2 : fl &&& 0x000ffffffffff000#64 = 0#64) :
    (frame ||| fl) &&& 0xfff0000000001fff#64 = fl ||| (frame &&& 0x1000#64) := by
  bv_decide

/-- `flags()` of the slot word of a record: the recorded flags, plus `HUGE_PAGE` for the huge sizes; for a 4 KiB
page bit 12 of `flags()` (`PAT_HUGE_PAGE`) is bit 12 of the frame address (cf. `C01.walk_leaf_facts`). -/
theorem rec_flags {r : PageRec} (hok : r.OK) :
    Pte.flags r.word = if r.huge then r.flags ||| 0x80#64 else r.flags ||| (r.frame &&& 0x1000#64) := by
  obtain ⟨sh, _, _, hfl, hfr⟩ := hok
  obtain ⟨_, _, _, _, _, w6, _, _⟩ := leafWord_facts sh r.frame r.flags hfl hfr
  obtain ⟨parents, li, huge, sz, frame, flags⟩ := r
  simp only at sh hfl hfr w6 ⊢
  cases sh with
  | s4k x y z =>
    simp only [Bool.false_eq_true, if_false] at hfl ⊢
    have hfr' : frame &&& 0xfff0000000000fff#64 = 0#64 := by simpa [FrameOK] using hfr
    exact flags4k_bv frame flags hfr' hfl
  | s2m x y => simp only [if_true] at w6 ⊢; exact w6
  | s1g x => simp only [if_true] at w6 ⊢; exact w6

theorem translateAddr_fst (k : Kind) (s : St) (p4 : Word) (va : Nat) :
    (translateAddr k s p4 va).1 =
      match (translate k s p4 va).1 with
      | .panic => .panic
      | .ok .notMapped => .ok none
      | .ok (.invalid _) => .ok none
      | .ok (.mapped f _ off _) => if f.toNat + off < 2^52 then .ok (some (f.toNat + off)) else .panic := by
  unfold translateAddr
  cases h : translate k s p4 va with
  | mk res s' =>
    cases res with
    | panic => rfl
    | ok x =>
      cases x with
      | notMapped => rfl
      | invalid a => rfl
      | mapped f sz off fl => simp only []; split <;> rfl

/-- inside a recorded page (present or not) `translate_addr` returns `frame + va % size`; the addition inside cannot
panic -/
theorem translateAddr_covered {p4 : Word} {m : PMem} {a : Abs} (hrel : Rel p4 m a) (r : PageRec) (hr : r ∈ a) (va : Nat)
    (hc : r.parents ++ [r.li] <+: vaPath va) (k : Kind) (s : St) (hs : s.mem = m) :
    (translateAddr k s p4 va).1 = .ok (some (r.frame.toNat + va % r.sz)) := by
  rw [translateAddr_fst, translate_covered hrel r hr va hc k s hs]
  obtain ⟨_, _, h⟩ := covered_ents hrel r hr va hc
  have hb : r.frame.toNat + va % r.sz < 2^52 := by
    rcases h with ⟨_, hsz, hfr, _⟩ | ⟨_, hsz, hfr, _⟩ | ⟨_, hsz, hfr, _⟩
    · have := tableAddr_bound r.word; rw [hfr] at this; rw [hsz]; omega
    · have := addr2M_bound r.word; rw [hfr] at this; rw [hsz]; omega
    · have := addr1G_bound r.word; rw [hfr] at this; rw [hsz]; omega
  simp only [hb, if_true]


/-! ### `translate_page` of a page that is not recorded -/

/-- **`translate_page` of an unrecorded page that no recorded huge page contains**, any mapper kind: `PageNotMapped`
when the page's table does not exist or its slot is zero; the only other state of such a page — a huge-page-sized
request whose slot links a lower table (left behind by `unmap`s until `clean_up`, or carrying smaller pages) —
yields `ParentEntryHugePage`. -/
theorem translatePage_unrecorded (k : Kind) (s : St) (p4 : Word) (a : Abs) (hinv : Inv s.mem p4) (hrel : Rel p4 s.mem a)
    (parents : List Nat) (li : Nat) (huge : Bool) (sz : Nat) (sh : PageShape parents huge sz) (hpi : IdxOK parents)
    (hli : li < 512) (hnr : ∀ r ∈ a, r.isPage parents li = false) (hnc : NotInHuge a parents) :
    ((tblAt s.mem p4 parents = none ∨ ∃ t, tblAt s.mem p4 parents = some t ∧ s.mem t li = 0#64) ∧
      (translatePage k s p4 parents li huge sz).1 = .error .notMapped) ∨
    (huge = true ∧ (∃ t t', tblAt s.mem p4 parents = some t ∧ tableOf (s.mem t li) = some t') ∧
      (translatePage k s p4 parents li huge sz).1 = .error .parentHuge) := by
  obtain ⟨_, hl⟩ := sh.len_le
  unfold translatePage
  rw [descendK_eq_descend k p4 parents s hinv hl hpi]
  rcases not_recorded_cases hrel parents li hl hpi hli hnr with hnt | ⟨t, ht, hz | ⟨hlt, t', hto⟩⟩
  · refine Or.inl ⟨Or.inl hnt, ?_⟩
    have hd := descend_notMapped s hrel parents hl hpi hnc hnt
    cases hdd : descend s p4 parents with
    | mk res s1 => rw [hdd] at hd; simp only at hd; subst hd; rfl
  · refine Or.inl ⟨Or.inr ⟨t, ht, hz⟩, ?_⟩
    have hd := (descend_ok_iff s p4 parents t).2 ht
    have hm := descend_mem s p4 parents
    cases hdd : descend s p4 parents with
    | mk res s1 =>
      rw [hdd] at hd hm; simp only at hd hm; subst hd
      have hu : Pte.isUnused (s1.mem t li) = true := by rw [hm, hz]; decide
      simp only [St.rd_fst, hu, if_true]
  · have hh : huge = true := shape_huge_of_len sh (by omega)
    refine Or.inr ⟨hh, ⟨t, t', ht, hto⟩, ?_⟩
    obtain ⟨⟨hP, hS⟩, _⟩ := link_of_tableOf hto
    have hd := (descend_ok_iff s p4 parents t).2 ht
    have hm := descend_mem s p4 parents
    cases hdd : descend s p4 parents with
    | mk res s1 =>
      rw [hdd] at hd hm; simp only at hd hm; subst hd
      have hu : Pte.isUnused (s1.mem t li) = false := by
        rw [hm]; exact (isUnused_eq_false_iff _).2 (ne_zero_of_bitP hP)
      have hg : Pte.huge (s1.mem t li) = false := by rw [hm]; exact hS
      simp [St.rd_fst, hu, hg, hh]

/-- …in particular an unrecorded 4 KiB page outside all recorded huge pages: `PageNotMapped`. -/
theorem translatePage_unrecorded_4k (k : Kind) (s : St) (p4 : Word) (a : Abs) (hinv : Inv s.mem p4)
    (hrel : Rel p4 s.mem a) (x y z li : Nat) (hpi : IdxOK [x, y, z]) (hli : li < 512)
    (hnr : ∀ r ∈ a, r.isPage [x, y, z] li = false) (hnc : NotInHuge a [x, y, z]) :
    (translatePage k s p4 [x, y, z] li false 4096).1 = .error .notMapped := by
  rcases translatePage_unrecorded k s p4 a hinv hrel [x, y, z] li false 4096 (.s4k x y z) hpi hli hnr hnc with
    ⟨_, h⟩ | ⟨h, _⟩
  · exact h
  · cases h

/-! ### Histories whose leaf flags all contain `PRESENT` yield abstract states whose records all have `PRESENT` -/

/-- The leaf flags of a `map_to` / `update_flags` call contain `PRESENT` (other calls: no condition). -/
def OpPresent : C01HistoryFull.HOp → Prop
  | .call (.map _ _ _ _ _ flags _ _) => flags &&& 1#64 = 1#64
  | .call (.update _ _ _ _ flags) => flags &&& 1#64 = 1#64
  | _ => True

theorem absStep_present (a : Abs) (ok : Bool) (op : C01HistoryFull.HOp) (ha : ∀ r ∈ a, r.flags &&& 1#64 = 1#64)
    (hop : OpPresent op) : ∀ r ∈ C01HistoryFull.absStep a ok op, r.flags &&& 1#64 = 1#64 := by
  cases op with
  | cleanUp => exact ha
  | cleanUpRange rs re => exact ha
  | call mop =>
    show ∀ r ∈ C01HistoryDormant.absStep a ok mop, _
    unfold C01HistoryDormant.absStep
    cases ok with
    | false => exact ha
    | true =>
      simp only [if_true]
      cases mop with
      | map parents li huge sz frame flags pflags allocs =>
        intro r hr
        simp only [absOk] at hr
        split at hr
        · exact ha r hr
        · rcases List.mem_cons.1 hr with rfl | h
          · exact hop
          · exact ha r h
      | unmap parents li huge sz =>
        intro r hr
        exact ha r (List.mem_filter.1 hr).1
      | update parents li huge sz flags =>
        intro r hr
        simp only [absOk] at hr
        obtain ⟨r0, hr0, hf⟩ := List.mem_filterMap.1 hr
        split at hf
        · split at hf
          · cases hf
          · cases hf; exact hop
        · cases hf; exact ha _ hr0
      | setParent parents idx flags => exact ha

/-- If every `map_to` / `update_flags` call of the history carries leaf flags containing `PRESENT`, every record of
the folded abstract state has `PRESENT`. -/
theorem expectedAbs_present (k : Kind) (rIdx : Nat) (p4 : Word) (ops : List C01HistoryFull.HOp) :
    ∀ (m : PMem) (a : Abs), (∀ r ∈ a, r.flags &&& 1#64 = 1#64) → (∀ op ∈ ops, OpPresent op) →
      ∀ r ∈ C01HistoryFull.expectedAbs k rIdx p4 m a ops, r.flags &&& 1#64 = 1#64 := by
  induction ops with
  | nil => intro m a ha _; exact ha
  | cons op rest ih =>
    intro m a ha hops
    exact ih _ _ (absStep_present a _ op ha (hops op List.mem_cons_self))
      (fun o ho => hops o (List.mem_cons_of_mem _ ho))

/-! ### Along histories -/

/-- the invariant and the correspondence after a valid history from the empty level-4 table -/
theorem history_inv_rel (k : Kind) (rIdx : Nat) (p4 : Word) (m : PMem) (hzero : ∀ i, m p4 i = 0#64)
    (ops : List C01HistoryFull.HOp) (hv : C01HistoryFull.HistoryValid k rIdx p4 m ops) :
    Inv (C01HistoryFull.runHistory k rIdx p4 m ops) p4 ∧
    Rel p4 (C01HistoryFull.runHistory k rIdx p4 m ops) (C01HistoryFull.expectedAbs k rIdx p4 m [] ops) := by
  obtain ⟨h1, h2, _⟩ := C01HistoryFull.history_rel k rIdx p4 ops m [] (init_inv m p4 hzero) (Rel.init p4 m hzero) hv
  exact ⟨h1, h2⟩

/-- **1. Histories whose recorded pages all have `PRESENT`** (language of `C01HistoryFull`: mapper calls of all
page sizes and clean-up calls, run with a mapper of any kind `k`; from the empty level-4 table). In the memory the
history leaves behind, for every mapper kind `k'` and EVERY virtual address `va` (canonical or not — only the index
bits matter):
* `PathOK` holds (every entry the walk reads is zero or present);
* `translate` returns exactly the rendering of the hardware walk (`C01.render`: `Mapped` with the walk's base, size,
  offset and `flags()` of the leaf entry; `NotMapped` if the walk finds nothing);
* in terms of the abstract state that is `xlOf`: `Mapped` with the recorded frame, the page size, the offset
  `va % size` and the leaf flags (`rec_flags`) for addresses inside a recorded page, `NotMapped` elsewhere;
* the hardware walk itself is `expectedHw` of the abstract state;
* `translate_addr` returns the physical address of the walk (and does not panic). -/
theorem history_translate_present (k : Kind) (rIdx : Nat) (p4 : Word) (m : PMem) (hzero : ∀ i, m p4 i = 0#64)
    (ops : List C01HistoryFull.HOp) (hv : C01HistoryFull.HistoryValid k rIdx p4 m ops)
    (hall : ∀ r ∈ C01HistoryFull.expectedAbs k rIdx p4 m [] ops, r.flags &&& 1#64 = 1#64)
    (k' : Kind) (s : St) (hs : s.mem = C01HistoryFull.runHistory k rIdx p4 m ops) (va : Nat) :
    PathOK s.mem p4 va ∧
    (translate k' s p4 va).1 = render s.mem p4 va ∧
    (translate k' s p4 va).1 = xlOf (C01HistoryFull.expectedAbs k rIdx p4 m [] ops) va ∧
    (walk s.mem p4 va).map Xlat.core = expectedHw (C01HistoryFull.expectedAbs k rIdx p4 m [] ops) va ∧
    (translateAddr k' s p4 va).1 = .ok ((walk s.mem p4 va).map Xlat.pa) := by
  obtain ⟨hinv, hrel⟩ := history_inv_rel k rIdx p4 m hzero ops hv
  rw [← hs] at hinv hrel
  have hp := pathOK_of_present hrel hall va
  exact ⟨hp, translate_eq_walk k' s p4 va hp, translate_of_rel hrel k' s rfl va, hw_of_rel hinv hrel va,
    translate_addr_eq_walk k' s p4 va hp⟩

/-- The same with the hypothesis on the HISTORY: every `map_to` / `update_flags` call carries leaf flags containing
`PRESENT`. -/
theorem history_translate_present' (k : Kind) (rIdx : Nat) (p4 : Word) (m : PMem) (hzero : ∀ i, m p4 i = 0#64)
    (ops : List C01HistoryFull.HOp) (hv : C01HistoryFull.HistoryValid k rIdx p4 m ops)
    (hops : ∀ op ∈ ops, OpPresent op)
    (k' : Kind) (s : St) (hs : s.mem = C01HistoryFull.runHistory k rIdx p4 m ops) (va : Nat) :
    PathOK s.mem p4 va ∧
    (translate k' s p4 va).1 = render s.mem p4 va ∧
    (translate k' s p4 va).1 = xlOf (C01HistoryFull.expectedAbs k rIdx p4 m [] ops) va ∧
    (walk s.mem p4 va).map Xlat.core = expectedHw (C01HistoryFull.expectedAbs k rIdx p4 m [] ops) va ∧
    (translateAddr k' s p4 va).1 = .ok ((walk s.mem p4 va).map Xlat.pa) :=
  history_translate_present k rIdx p4 m hzero ops hv
    (expectedAbs_present k rIdx p4 ops m [] (fun r hr => by cases hr) hops) k' s hs va

private theorem render_none {m : PMem} {p4 : Word} {va : Nat} (h : walk m p4 va = none) :
    render m p4 va = .ok .notMapped := by
  unfold render; rw [h]

private theorem map_core_none {o : Option Xlat} (h : o.map Xlat.core = none) : o = none := by
  cases o with
  | none => rfl
  | some x => cases h

/-- **2. Any valid history (pages mapped with or without `PRESENT`): the complete case analysis.** In the memory the
history leaves behind, for every mapper kind `k'` (the kinds do not differ in any case) and every address `va`:
`translate` returns `xlOf` of the folded abstract state; spelled out by what the abstract state has at `va`:

* `a.at va = some r` — for EVERY such record, present or not, 4 KiB or huge: `translate` returns
  `Mapped { r.frame, r.sz, va % r.sz, flags() of the slot word }` (`rec_flags`: the recorded flags, `| HUGE_PAGE` for
  the huge sizes), and `translate_addr` returns `r.frame + va % r.sz`;
  - (i) `r` has `PRESENT`: this is the rendering of the hardware walk (`PathOK` holds at `va`), and the walk yields
    `(r.frame, r.sz, va % r.sz, leaf flags)`;
  - (ii)+(iii) `r` lacks `PRESENT` (4 KiB, 2 MiB or 1 GiB alike): the hardware walk yields NOTHING, so `translate`
    (= `Mapped …`) differs from the rendering of the walk (= `NotMapped`) — the documented discrepancy. For 4 KiB
    pages the cause is the `is_unused()` test of the level-1 entry; for huge pages the cause is that `next_table`
    tests `HUGE_PAGE` before `PRESENT` (non-recursive kinds) resp. never tests `PRESENT` (recursive kind). The
    presumption "a huge page without `PRESENT` is reported `NotMapped`" is FALSE for the model;
* (iv) `a.at va = none`: `translate` returns `NotMapped`, `translate_addr` returns `None`, the walk yields nothing
  (so they agree; `PathOK` holds at `va`). -/
theorem history_translate_dormant (k : Kind) (rIdx : Nat) (p4 : Word) (m : PMem) (hzero : ∀ i, m p4 i = 0#64)
    (ops : List C01HistoryFull.HOp) (hv : C01HistoryFull.HistoryValid k rIdx p4 m ops)
    (k' : Kind) (s : St) (hs : s.mem = C01HistoryFull.runHistory k rIdx p4 m ops) (va : Nat) :
    (translate k' s p4 va).1 = xlOf (C01HistoryFull.expectedAbs k rIdx p4 m [] ops) va ∧
    (∀ r, (C01HistoryFull.expectedAbs k rIdx p4 m [] ops).at va = some r →
      (translate k' s p4 va).1 = .ok (.mapped r.frame r.sz (va % r.sz) (Pte.flags r.word)) ∧
      (translateAddr k' s p4 va).1 = .ok (some (r.frame.toNat + va % r.sz)) ∧
      Pte.flags r.word = (if r.huge then r.flags ||| 0x80#64 else r.flags ||| (r.frame &&& 0x1000#64)) ∧
      (r.flags &&& 1#64 = 1#64 →
        PathOK s.mem p4 va ∧ (translate k' s p4 va).1 = render s.mem p4 va ∧
        (walk s.mem p4 va).map Xlat.core = some (r.frame.toNat, r.sz, va % r.sz, leafFlagsOf r.huge r.flags)) ∧
      (¬ r.flags &&& 1#64 = 1#64 →
        walk s.mem p4 va = none ∧ render s.mem p4 va = .ok .notMapped ∧
        (translate k' s p4 va).1 ≠ render s.mem p4 va)) ∧
    ((C01HistoryFull.expectedAbs k rIdx p4 m [] ops).at va = none →
      (translate k' s p4 va).1 = .ok .notMapped ∧ (translateAddr k' s p4 va).1 = .ok none ∧
      walk s.mem p4 va = none ∧ PathOK s.mem p4 va ∧ (translate k' s p4 va).1 = render s.mem p4 va) := by
  obtain ⟨hinv, hrel⟩ := history_inv_rel k rIdx p4 m hzero ops hv
  rw [← hs] at hinv hrel
  have hw := hw_of_rel hinv hrel va
  refine ⟨translate_of_rel hrel k' s rfl va, ?_, ?_⟩
  · intro r hat
    obtain ⟨hr, hc⟩ := at_some hat
    have ht := translate_covered hrel r hr va hc k' s rfl
    refine ⟨ht, translateAddr_covered hrel r hr va hc k' s rfl, rec_flags (hrel.slots r hr).1, ?_, ?_⟩
    · intro hp
      have hpo := pathOK_covered hrel r hr va hc hp
      refine ⟨hpo, translate_eq_walk k' s p4 va hpo, ?_⟩
      rw [hw]; unfold expectedHw; rw [hat]; simp only [hp, if_true]
    · intro hp
      have hnone : walk s.mem p4 va = none := by
        apply map_core_none
        rw [hw]; unfold expectedHw; rw [hat]; simp only [hp, if_false]
      refine ⟨hnone, render_none hnone, ?_⟩
      rw [ht, render_none hnone]
      intro h; cases h
  · intro hat
    have hnc := at_none hat
    have ht := translate_uncovered hrel va hnc k' s rfl
    have hpo := pathOK_uncovered hrel va hnc
    have hnone : walk s.mem p4 va = none := by
      apply map_core_none
      rw [hw]; unfold expectedHw; rw [hat]
    refine ⟨ht, ?_, hnone, hpo, translate_eq_walk k' s p4 va hpo⟩
    rw [translateAddr_fst, ht]

/-- (ii) spelled out: **a 4 KiB page mapped without `PRESENT` is reported as mapped** by `translate` of every mapper
kind, while the hardware walk finds nothing. -/
theorem dormant_4k_is_mapped (k : Kind) (rIdx : Nat) (p4 : Word) (m : PMem) (hzero : ∀ i, m p4 i = 0#64)
    (ops : List C01HistoryFull.HOp) (hv : C01HistoryFull.HistoryValid k rIdx p4 m ops)
    (k' : Kind) (s : St) (hs : s.mem = C01HistoryFull.runHistory k rIdx p4 m ops) (va : Nat) (r : PageRec)
    (hat : (C01HistoryFull.expectedAbs k rIdx p4 m [] ops).at va = some r) (h4k : r.huge = false)
    (hnp : ¬ r.flags &&& 1#64 = 1#64) :
    (translate k' s p4 va).1 = .ok (.mapped r.frame 4096 (va % 4096) (r.flags ||| (r.frame &&& 0x1000#64))) ∧
    walk s.mem p4 va = none := by
  obtain ⟨_, h, _⟩ := history_translate_dormant k rIdx p4 m hzero ops hv k' s hs va
  obtain ⟨ht, _, hfl, _, hd⟩ := h r hat
  obtain ⟨_, hrel⟩ := history_inv_rel k rIdx p4 m hzero ops hv
  have hsz : r.sz = 4096 := by
    have sh := (hrel.slots r (at_some hat).1).1.shape
    obtain ⟨parents, li, huge, sz, frame, flags⟩ := r
    simp only at sh h4k
    cases sh with
    | s4k x y z => rfl
    | s2m x y => cases h4k
    | s1g x => cases h4k
  rw [hfl, hsz, h4k] at ht
  exact ⟨ht, (hd hnp).1⟩

/-- (iii) spelled out: **a huge page mapped without `PRESENT` is ALSO reported as mapped** by `translate` of every
mapper kind (frame, size 2 MiB / 1 GiB, offset, flags `| HUGE_PAGE`), while the hardware walk finds nothing. -/
theorem dormant_huge_is_mapped (k : Kind) (rIdx : Nat) (p4 : Word) (m : PMem) (hzero : ∀ i, m p4 i = 0#64)
    (ops : List C01HistoryFull.HOp) (hv : C01HistoryFull.HistoryValid k rIdx p4 m ops)
    (k' : Kind) (s : St) (hs : s.mem = C01HistoryFull.runHistory k rIdx p4 m ops) (va : Nat) (r : PageRec)
    (hat : (C01HistoryFull.expectedAbs k rIdx p4 m [] ops).at va = some r) (hh : r.huge = true)
    (hnp : ¬ r.flags &&& 1#64 = 1#64) :
    (translate k' s p4 va).1 = .ok (.mapped r.frame r.sz (va % r.sz) (r.flags ||| 0x80#64)) ∧
    (r.sz = 2^21 ∨ r.sz = 2^30) ∧ walk s.mem p4 va = none := by
  obtain ⟨_, h, _⟩ := history_translate_dormant k rIdx p4 m hzero ops hv k' s hs va
  obtain ⟨ht, _, hfl, _, hd⟩ := h r hat
  obtain ⟨_, hrel⟩ := history_inv_rel k rIdx p4 m hzero ops hv
  have hsz : r.sz = 2^21 ∨ r.sz = 2^30 := by
    have sh := (hrel.slots r (at_some hat).1).1.shape
    obtain ⟨parents, li, huge, sz, frame, flags⟩ := r
    simp only at sh hh
    cases sh with
    | s4k x y z => cases hh
    | s2m x y => exact Or.inl rfl
    | s1g x => exact Or.inr rfl
  rw [hfl, hh] at ht
  exact ⟨ht, hsz, (hd hnp).1⟩

/-- **3. `translate_page` along histories** (any mapper kind `k'`):
* of every recorded page — present or not — it returns the page's frame;
* of any page (any requested size) strictly inside a recorded huge page: `ParentEntryHugePage`;
* of an unrecorded page that no recorded huge page contains: `PageNotMapped` if the page's table does not exist or
  its slot is zero, and — only possible for a 2 MiB / 1 GiB request — `ParentEntryHugePage` if the slot links a
  lower table;
* in particular of an unrecorded 4 KiB page that no recorded huge page contains: `PageNotMapped`. -/
theorem history_translate_page (k : Kind) (rIdx : Nat) (p4 : Word) (m : PMem) (hzero : ∀ i, m p4 i = 0#64)
    (ops : List C01HistoryFull.HOp) (hv : C01HistoryFull.HistoryValid k rIdx p4 m ops)
    (k' : Kind) (s : St) (hs : s.mem = C01HistoryFull.runHistory k rIdx p4 m ops) :
    (∀ r ∈ C01HistoryFull.expectedAbs k rIdx p4 m [] ops,
      (translatePage k' s p4 r.parents r.li r.huge r.sz).1 = .ok r.frame) ∧
    (∀ r ∈ C01HistoryFull.expectedAbs k rIdx p4 m [] ops, r.huge = true → ∀ parents li,
      r.parents ++ [r.li] <+: parents → ∀ huge sz,
      (translatePage k' s p4 parents li huge sz).1 = .error .parentHuge) ∧
    (∀ parents li huge sz, PageShape parents huge sz → IdxOK parents → li < 512 →
      (∀ r ∈ C01HistoryFull.expectedAbs k rIdx p4 m [] ops, r.isPage parents li = false) →
      NotInHuge (C01HistoryFull.expectedAbs k rIdx p4 m [] ops) parents →
      ((tblAt s.mem p4 parents = none ∨ ∃ t, tblAt s.mem p4 parents = some t ∧ s.mem t li = 0#64) ∧
        (translatePage k' s p4 parents li huge sz).1 = .error .notMapped) ∨
      (huge = true ∧ (∃ t t', tblAt s.mem p4 parents = some t ∧ tableOf (s.mem t li) = some t') ∧
        (translatePage k' s p4 parents li huge sz).1 = .error .parentHuge)) ∧
    (∀ x y z li, IdxOK [x, y, z] → li < 512 →
      (∀ r ∈ C01HistoryFull.expectedAbs k rIdx p4 m [] ops, r.isPage [x, y, z] li = false) →
      NotInHuge (C01HistoryFull.expectedAbs k rIdx p4 m [] ops) [x, y, z] →
      (translatePage k' s p4 [x, y, z] li false 4096).1 = .error .notMapped) := by
  obtain ⟨hinv, hrel⟩ := history_inv_rel k rIdx p4 m hzero ops hv
  rw [← hs] at hinv hrel
  refine ⟨fun r hr => C01HistoryDormant.translate_of_rel hrel r hr k' s rfl,
    fun r hr hh parents li hc huge sz => translate_page_inside_huge k' s p4 _ hrel r hr hh parents li hc huge sz,
    fun parents li huge sz sh hpi hli hnr hnc =>
      translatePage_unrecorded k' s p4 _ hinv hrel parents li huge sz sh hpi hli hnr hnc,
    fun x y z li hpi hli hnr hnc => translatePage_unrecorded_4k k' s p4 _ hinv hrel x y z li hpi hli hnr hnc⟩


/-! ### Examples: the history `C01HistoryDormant.demoOps`

From the empty hierarchy (level-4 table at `0x1000`): `map_to` of the 4 KiB page at `0x5000` to frame `0x5000` with
flags `WRITABLE` only (dormant); a failing `unmap`; `map_to` of the 2 MiB page at `0xe00000` to frame `0x4000_0000`,
`WRITABLE` only (dormant) — `ops3`, leaving the memory `C02Outcome.mD` —; then `update_flags` with `PRESENT` on both
pages and a `set_flags_p3_entry` call — `opsAll`. -/

def ops3 : List C01HistoryFull.HOp := (C01HistoryDormant.demoOps.take 3).map .call
def opsAll : List C01HistoryFull.HOp := C01HistoryDormant.demoOps.map .call

theorem ops3_valid (k : Kind) : C01HistoryFull.HistoryValid k 0 0x1000#64 m0 ops3 :=
  C01HistoryFull.historyValid_calls k 0 0x1000#64 _ m0 (demoOps_take_valid k)

theorem opsAll_valid (k : Kind) : C01HistoryFull.HistoryValid k 0 0x1000#64 m0 opsAll :=
  C01HistoryFull.historyValid_calls k 0 0x1000#64 _ m0 (demoOps_valid k)

set_option maxRecDepth 100000 in
theorem ops3_abs : C01HistoryFull.expectedAbs ⟨false⟩ 0 0x1000#64 m0 [] ops3 = [rec2M, rec4K] := by
  unfold ops3; rw [C01HistoryFull.expectedAbs_calls]; decide +kernel

theorem opsAll_abs : C01HistoryFull.expectedAbs ⟨false⟩ 0 0x1000#64 m0 [] opsAll =
    [⟨[0, 0], 7, true, 2^21, 0x40000000#64, 0x8000000000000003#64⟩, ⟨[0, 0, 0], 5, false, 4096, 0x5000#64, 3#64⟩] := by
  unfold opsAll; rw [C01HistoryFull.expectedAbs_calls]; exact demoOps_abs.1

/-- **case (ii)**: after `ops3` the 4 KiB page at `0x5000` is recorded without `PRESENT`; `translate` of every mapper
kind reports `0x5123` as mapped to frame `0x5000` (flags `WRITABLE`, plus bit 12 = address bit 12 of the frame),
although the hardware walk finds nothing there -/
example (k' : Kind) (s : St) (hs : s.mem = C01HistoryFull.runHistory ⟨false⟩ 0 0x1000#64 m0 ops3) :
    (translate k' s 0x1000#64 0x5123).1 = .ok (.mapped 0x5000#64 4096 0x123 0x1002#64) ∧
    walk s.mem 0x1000#64 0x5123 = none := by
  have hat : (C01HistoryFull.expectedAbs ⟨false⟩ 0 0x1000#64 m0 [] ops3).at 0x5123 = some rec4K := by
    rw [ops3_abs]; decide
  exact dormant_4k_is_mapped ⟨false⟩ 0 _ m0 (fun _ => rfl) ops3 (ops3_valid _) k' s hs 0x5123 rec4K hat rfl (by decide)

/-- **case (iii)** — the presumption "a huge page without `PRESENT` is `NotMapped`" is false: after `ops3` the 2 MiB
page at `0xe00000` is recorded without `PRESENT`; `translate` of every mapper kind reports `0xe00123` as mapped to
frame `0x4000_0000` (size 2 MiB, flags `WRITABLE | HUGE_PAGE`), although the hardware walk finds nothing there -/
example (k' : Kind) (s : St) (hs : s.mem = C01HistoryFull.runHistory ⟨false⟩ 0 0x1000#64 m0 ops3) :
    (translate k' s 0x1000#64 0xe00123).1 = .ok (.mapped 0x40000000#64 (2^21) 0x123 0x82#64) ∧
    walk s.mem 0x1000#64 0xe00123 = none := by
  have hat : (C01HistoryFull.expectedAbs ⟨false⟩ 0 0x1000#64 m0 [] ops3).at 0xe00123 = some rec2M := by
    rw [ops3_abs]; decide
  obtain ⟨h1, _, h2⟩ := dormant_huge_is_mapped ⟨false⟩ 0 _ m0 (fun _ => rfl) ops3 (ops3_valid _) k' s hs 0xe00123 rec2M
    hat rfl (by decide)
  exact ⟨h1, h2⟩

set_option maxRecDepth 100000 in
/-- the same two facts by evaluating the model directly, for both mapper kinds (cross-check of cases (ii), (iii)) -/
example : ∀ r : Bool,
    (translate ⟨r⟩ ⟨mD, [], []⟩ 0x1000#64 0x5123).1 = .ok (.mapped 0x5000#64 4096 0x123 0x1002#64) ∧
    (translate ⟨r⟩ ⟨mD, [], []⟩ 0x1000#64 0xe00123).1 = .ok (.mapped 0x40000000#64 (2^21) 0x123 0x82#64) ∧
    (translateAddr ⟨r⟩ ⟨mD, [], []⟩ 0x1000#64 0xe00123).1 = .ok (some 0x40000123) ∧
    walk mD 0x1000#64 0x5123 = none ∧ walk mD 0x1000#64 0xe00123 = none := by
  decide +kernel

/-- **case (iv)**: no record covers `0x6000` (the neighbouring 4 KiB page) nor `0x8000000000`: `NotMapped`, in
agreement with the hardware walk -/
example (k' : Kind) (s : St) (hs : s.mem = C01HistoryFull.runHistory ⟨false⟩ 0 0x1000#64 m0 ops3) :
    (translate k' s 0x1000#64 0x6000).1 = .ok .notMapped ∧ walk s.mem 0x1000#64 0x6000 = none ∧
    (translate k' s 0x1000#64 0x8000000000).1 = .ok .notMapped ∧ (translateAddr k' s 0x1000#64 0x6000).1 = .ok none := by
  have h1 : (C01HistoryFull.expectedAbs ⟨false⟩ 0 0x1000#64 m0 [] ops3).at 0x6000 = none := by rw [ops3_abs]; decide
  have h2 : (C01HistoryFull.expectedAbs ⟨false⟩ 0 0x1000#64 m0 [] ops3).at 0x8000000000 = none := by
    rw [ops3_abs]; decide
  obtain ⟨_, _, a1⟩ := history_translate_dormant ⟨false⟩ 0 _ m0 (fun _ => rfl) ops3 (ops3_valid _) k' s hs 0x6000
  obtain ⟨_, _, a2⟩ := history_translate_dormant ⟨false⟩ 0 _ m0 (fun _ => rfl) ops3 (ops3_valid _) k' s hs 0x8000000000
  exact ⟨(a1 h1).1, (a1 h1).2.2.1, (a2 h2).1, (a1 h1).2.1⟩

/-- **case (i)**: after the whole history both pages have `PRESENT`; `history_translate_present` applies: `translate`
is the rendering of the hardware walk everywhere, e.g. `0x5123 ↦ 0x5000 + 0x123` (4 KiB, `PRESENT | WRITABLE`, bit 12
from the frame address) and `0xe00123 ↦ 0x4000_0000 + 0x123` (2 MiB, `PRESENT | WRITABLE | NO_EXECUTE | HUGE_PAGE`) -/
example (k' : Kind) (s : St) (hs : s.mem = C01HistoryFull.runHistory ⟨false⟩ 0 0x1000#64 m0 opsAll) :
    (translate k' s 0x1000#64 0x5123).1 = render s.mem 0x1000#64 0x5123 ∧
    (translate k' s 0x1000#64 0x5123).1 = .ok (.mapped 0x5000#64 4096 0x123 0x1003#64) ∧
    (translate k' s 0x1000#64 0xe00123).1 = render s.mem 0x1000#64 0xe00123 ∧
    (translate k' s 0x1000#64 0xe00123).1 = .ok (.mapped 0x40000000#64 (2^21) 0x123 0x8000000000000083#64) ∧
    (translate k' s 0x1000#64 0x6000).1 = .ok .notMapped := by
  have hall : ∀ r ∈ C01HistoryFull.expectedAbs ⟨false⟩ 0 0x1000#64 m0 [] opsAll, r.flags &&& 1#64 = 1#64 := by
    rw [opsAll_abs]; decide
  have h := fun va => history_translate_present ⟨false⟩ 0 _ m0 (fun _ => rfl) opsAll (opsAll_valid _) hall k' s hs va
  refine ⟨(h _).2.1, ?_, (h _).2.1, ?_, ?_⟩
  · rw [(h _).2.2.1, opsAll_abs]; decide
  · rw [(h _).2.2.1, opsAll_abs]; decide
  · rw [(h _).2.2.1, opsAll_abs]; decide

/-- the hypothesis on the history (`OpPresent`) fails for `opsAll` (its `map_to` calls lack `PRESENT`), but holds
e.g. for the clean-up history `C01HistoryFull.demoOps` -/
example : ∀ op ∈ C01HistoryFull.demoOps, OpPresent op := by
  intro op hop
  simp only [C01HistoryFull.demoOps, List.mem_cons, List.not_mem_nil, or_false] at hop
  rcases hop with rfl | rfl | rfl | rfl | rfl
  · show (3#64 : Word) &&& 1#64 = 1#64; decide
  · trivial
  · trivial
  · show (3#64 : Word) &&& 1#64 = 1#64; decide
  · trivial

/-- **`translate_page`** after `ops3`: the frame of the dormant 2 MiB and 4 KiB pages; `ParentEntryHugePage` for the
4 KiB page `[0,0,7]/3` inside the dormant 2 MiB page; `PageNotMapped` for the unrecorded 4 KiB page `[0,0,0]/6` -/
example (k' : Kind) (s : St) (hs : s.mem = C01HistoryFull.runHistory ⟨false⟩ 0 0x1000#64 m0 ops3) :
    (translatePage k' s 0x1000#64 [0, 0] 7 true (2^21)).1 = .ok 0x40000000#64 ∧
    (translatePage k' s 0x1000#64 [0, 0, 0] 5 false 4096).1 = .ok 0x5000#64 ∧
    (translatePage k' s 0x1000#64 [0, 0, 7] 3 false 4096).1 = .error .parentHuge ∧
    (translatePage k' s 0x1000#64 [0, 0, 0] 6 false 4096).1 = .error .notMapped := by
  obtain ⟨h1, h2, _, h4⟩ := history_translate_page ⟨false⟩ 0 _ m0 (fun _ => rfl) ops3 (ops3_valid _) k' s hs
  rw [ops3_abs] at h1 h2 h4
  refine ⟨h1 rec2M (by simp), h1 rec4K (by simp), h2 rec2M (by simp) rfl [0, 0, 7] 3 ⟨[], rfl⟩ false 4096, ?_⟩
  apply h4 0 0 0 6 (idx3 0 0 0 (by omega) (by omega) (by omega)) (by omega)
  · intro r hr
    simp only [List.mem_cons, List.not_mem_nil, or_false] at hr
    rcases hr with rfl | rfl <;> decide
  · exact demoD_notInHuge _ (by decide)

end X86.C01TranslateHistory
