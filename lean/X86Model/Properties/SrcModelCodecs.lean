/- C19 carried over to the translated source: the codec laws proved about the models of `Model/Codecs.lean`
(`Properties/C19.lean`) restated about the definitions *generated from the Rust source*, through the tie theorems of
`Properties/SrcTie/Codecs.lean`. -/
import X86Model.Properties.SrcTie.Codecs
import X86Model.Properties.C19

set_option linter.unusedSimpArgs false

namespace X86.SrcModelCodecs
open X86 X86.Generated X86.SrcTie

variable (cfg : Cfg)

theorem map_ok_inj {α β : Type} {f : α → β} {r : R α} {b : β} (h : r.map f = .ok b) : ∃ a, r = .ok a ∧ f a = b := by
  cases r with
  | ok a => exact ⟨a, rfl, by simpa [R.map] using h⟩
  | panic => simp [R.map] at h

/-- **DR7 condition fields, on the generated definitions**: `set_condition(n, c)` never panics (either profile), and
afterwards `condition(n)` is `c`, the condition of every other register and the size of every register are what
they were, and the flags are unchanged - for all 4 registers × 4 conditions × every 64-bit word. -/
theorem C19_dr7_set_condition_of_source (v : BitVec 64) (n : DebugAddressRegisterNumber) (c : BreakpointCondition) :
    ∃ r, Src.Dr7Value_set_condition cfg v (darn8 n) (bc8 c) = .ok ((), r) ∧
      Src.Dr7Value_condition cfg r (darn8 n) = .ok (bc8 c) ∧
      (∀ m, m ≠ n → Src.Dr7Value_condition cfg r (darn8 m) = Src.Dr7Value_condition cfg v (darn8 m)) ∧
      (∀ m, Src.Dr7Value_size cfg r (darn8 m) = Src.Dr7Value_size cfg v (darn8 m)) ∧
      Src.Dr7Value_flags cfg r = Src.Dr7Value_flags cfg v := by
  obtain ⟨r, hr, _⟩ := C19.dr7_set_condition_spec v n c
  obtain ⟨h1, h2, h3, h4, _⟩ := C19.dr7_set_condition_indep v r n c hr
  refine ⟨r, ?_, ?_, ?_, ?_, ?_⟩
  · rw [SrcTie.Dr7Value_set_condition, hr]; rfl
  · rw [SrcTie.Dr7Value_condition, h1]; rfl
  · intro m hm; rw [SrcTie.Dr7Value_condition, SrcTie.Dr7Value_condition, h2 m hm]
  · intro m; rw [SrcTie.Dr7Value_size, SrcTie.Dr7Value_size, h3 m]
  · rw [SrcTie.Dr7Value_flags, SrcTie.Dr7Value_flags, h4]

/-- The same for the size (LEN) fields. -/
theorem C19_dr7_set_size_of_source (v : BitVec 64) (n : DebugAddressRegisterNumber) (s : BreakpointSize) :
    ∃ r, Src.Dr7Value_set_size cfg v (darn8 n) (bs8 s) = .ok ((), r) ∧
      Src.Dr7Value_size cfg r (darn8 n) = .ok (bs8 s) ∧
      (∀ m, m ≠ n → Src.Dr7Value_size cfg r (darn8 m) = Src.Dr7Value_size cfg v (darn8 m)) ∧
      (∀ m, Src.Dr7Value_condition cfg r (darn8 m) = Src.Dr7Value_condition cfg v (darn8 m)) ∧
      Src.Dr7Value_flags cfg r = Src.Dr7Value_flags cfg v := by
  obtain ⟨r, hr, _⟩ := C19.dr7_set_size_spec v n s
  obtain ⟨h1, h2, h3, h4, _⟩ := C19.dr7_set_size_indep v r n s hr
  refine ⟨r, ?_, ?_, ?_, ?_, ?_⟩
  · rw [SrcTie.Dr7Value_set_size, hr]; rfl
  · rw [SrcTie.Dr7Value_size, h1]; rfl
  · intro m hm; rw [SrcTie.Dr7Value_size, SrcTie.Dr7Value_size, h2 m hm]
  · intro m; rw [SrcTie.Dr7Value_condition, SrcTie.Dr7Value_condition, h3 m]
  · rw [SrcTie.Dr7Value_flags, SrcTie.Dr7Value_flags, h4]

/-- **Exception vectors round-trip through the generated `try_from`**: every variant's number is accepted and gives
the variant back. -/
theorem C19_ev_round_trip_of_source (v : ExceptionVector) :
    Src.ExceptionVector_try_from_u8 cfg (ev8 v) = .ok (.ok (ev8 v)) := by
  rw [SrcTie.ExceptionVector_try_from]
  have hlt : v.toU8 < 256 := by cases v <;> decide
  have hn : (ev8 v).toNat = v.toU8 := by simp [ev8, BitVec.toNat_ofNat, Nat.mod_eq_of_lt hlt]
  rw [hn, C19.ev_round_trip]
  rfl

/-- PAT memory types round-trip through the generated `from_bits`. -/
theorem C19_pat_round_trip_of_source (t : PatMemoryType) :
    Src.PatMemoryType_from_bits cfg (pat8 t) = .ok (some (pat8 t)) := by
  rw [SrcTie.PatMemoryType_from_bits]
  have hlt : t.bits < 256 := by cases t <;> decide
  have hn : (pat8 t).toNat = t.bits := by simp [pat8, BitVec.toNat_ofNat, Nat.mod_eq_of_lt hlt]
  rw [hn, C19.pat_round_trip]
  rfl

/-- Breakpoint conditions and sizes round-trip through the generated `from_bits`. -/
theorem C19_bc_round_trip_of_source (c : BreakpointCondition) :
    Src.BreakpointCondition_from_bits cfg (BitVec.ofNat 64 c.toNat) = .ok (some (bc8 c)) := by
  rw [SrcTie.BreakpointCondition_from_bits]
  have hlt : c.toNat < 4 := by cases c <;> decide
  have hn : (BitVec.ofNat 64 c.toNat).toNat = c.toNat := by simp [BitVec.toNat_ofNat]; omega
  rw [hn, C19.bc_round_trip]
  rfl
theorem C19_bs_round_trip_of_source (s : BreakpointSize) :
    Src.BreakpointSize_from_bits cfg (BitVec.ofNat 64 s.toNat) = .ok (some (bs8 s)) := by
  rw [SrcTie.BreakpointSize_from_bits]
  have hlt : s.toNat < 4 := by cases s <;> decide
  have hn : (BitVec.ofNat 64 s.toNat).toNat = s.toNat := by simp [BitVec.toNat_ofNat]; omega
  rw [hn, C19.bs_round_trip]
  rfl

/-- `Dr7Value::from_bits` of the source accepts exactly the words without a bit outside the architecturally defined
ones (`Spec`'s mask), `from_bits_truncate` clears exactly those. -/
theorem C19_dr7_from_bits_of_source (b : BitVec 64) :
    Src.Dr7Value_from_bits cfg b = .ok (Dr7Value.fromBits b) ∧
    Src.Dr7Value_from_bits_truncate cfg b = .ok (b &&& Dr7Value.validBits) ∧
    Dr7Value.validBits = 0xffff2bff#64 := by
  refine ⟨SrcTie.Dr7Value_from_bits cfg b, SrcTie.Dr7Value_from_bits_truncate cfg b, ?_⟩
  simp only [Dr7Value.validBits, SrcTie.dr7Flags_all]; decide

end X86.SrcModelCodecs
