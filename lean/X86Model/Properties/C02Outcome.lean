/-
C02 — "the state dictates the outcome".

`Properties/C02.lean`, `C01Map.lean`, `C01Dormant.lean`, `C01HistoryDormant.lean` prove the direction
"result ⇒ state" (e.g. `PageAlreadyMapped` is only reported for a slot in use; an error changes no mapping).
This file proves the converse direction "state ⇒ result": for a hierarchy satisfying the invariant `Inv` whose
leaf slots are exactly the records of an abstract state `a` (`Rel p4 m a`), the documented outcome of a call is
determined by `a` (and, for allocation, by the allocator's answers), for every mapper kind.
-/
import X86Model.Properties.C01HistoryFull
import X86Model.Properties.C02

namespace X86.C02Outcome
open X86 X86.Spec X86.C01 X86.C01HistoryDormant

/-! ### Generic facts about the descents -/

/-- The descent of `map_to` along `p ++ q` is the descent along `p` followed by the descent along `q`. -/
theorem createPath_append (k : Kind) (pflags : Word) : ∀ (p q : List Nat) (s : St) (tbl : Word),
    createPath k pflags s tbl (p ++ q) =
      match createPath k pflags s tbl p with
      | (.ok (.ok t), s1) => createPath k pflags s1 t q
      | other => other := by
  intro p
  induction p with
  | nil => intro q s tbl; rfl
  | cons i p ih =>
    intro q s tbl
    simp only [List.cons_append, createPath]
    cases hc : createNextTable k s tbl i pflags with
    | mk res s1 =>
      cases res with
      | panic => rfl
      | ok res' =>
        cases res' with
        | error e => rfl
        | ok t1 => exact ih q s1 t1

/-- Along an existing path the descent of `map_to` succeeds with the table at the end of the path, requests no
frame (whatever the allocator would answer), and leaves every word of that table as it is (it may add parent
flags to entries of the tables above). -/
theorem createPath_prefix (k : Kind) (pflags : Word) (p4 : Word) (hpf : ParentFlagsOK pflags) (s : St)
    (hinv : Inv s.mem p4) (pre : List Nat) (g : Word) (hg : tblAt s.mem p4 pre = some g)
    (hl : pre.length ≤ 3) (hi : IdxOK pre) :
    ∃ s1, createPath k pflags s p4 pre = (.ok (.ok g), s1) ∧ s1.allocs = s.allocs ∧
      (∀ j, s1.mem g j = s.mem g j) ∧
      (∀ g' j, s1.mem g' j ≠ s.mem g' j →
        ∃ q, q.length < pre.length ∧ q.length ≤ 3 ∧ IdxOK q ∧ tblAt s.mem p4 q = some g') := by
  obtain ⟨seg, _, _, hal, hres⟩ := createPath_exists k pflags p4 hpf pre [] p4 g s hinv rfl
    (by simpa using hg) (by simpa using hl) (by simpa using hi)
  have hmem := createPath_exists_mem k pflags p4 hpf pre [] p4 g s hinv rfl
    (by simpa using hg) (by simpa using hl) (by simpa using hi)
  have hmem' : ∀ g' j, (createPath k pflags s p4 pre).2.mem g' j ≠ s.mem g' j →
      ∃ q, q.length < pre.length ∧ q.length ≤ 3 ∧ IdxOK q ∧ tblAt s.mem p4 q = some g' := by
    intro g' j hne
    obtain ⟨q, hq, rest⟩ := hmem g' j hne
    exact ⟨q, by simpa using hq, rest⟩
  refine ⟨(createPath k pflags s p4 pre).2, Prod.ext hres rfl, hal, ?_, hmem'⟩
  intro j
  apply Classical.byContradiction
  intro hne
  obtain ⟨q, hq, hq3, hqi, hgq⟩ := hmem' g j hne
  have : q = pre := hinv.wf q pre g hq3 hl hqi hi hgq hg
  rw [this] at hq; exact Nat.lt_irrefl _ hq

theorem huge_ne_zero {e : Word} (h : Pte.huge e = true) : e ≠ 0#64 := by
  intro h0; rw [h0] at h; exact absurd h (by decide)

theorem isUnused_false {e : Word} (h : e ≠ 0#64) : Pte.isUnused e = false := by
  simp [Pte.isUnused, h]

/-- `create_next_table` on an entry with the `HUGE_PAGE` bit (present or not): `ParentEntryHugePage`, nothing
is written, no frame is requested. -/
theorem createNextTable_huge (k : Kind) (s : St) (tbl : Word) (i : Nat) (pflags : Word)
    (hh : Pte.huge (s.mem tbl i) = true) :
    createNextTable k s tbl i pflags = (.ok (.error .hugePage), (s.rd tbl i).2) := by
  have hu := isUnused_false (huge_ne_zero hh)
  unfold createNextTable
  simp only [St.rd_fst, hu, Bool.false_eq_true, if_false, hh, if_true]

/-- `create_next_table` on an unused entry when the allocator answers `None` (or is exhausted):
`FrameAllocationFailed`, nothing is written. -/
theorem createNextTable_allocFail (k : Kind) (s : St) (tbl : Word) (i : Nat) (pflags : Word)
    (hz : s.mem tbl i = 0#64) (hal : s.allocs.headD none = none) :
    (createNextTable k s tbl i pflags).1 = .ok (.error .allocFailed) ∧
    (createNextTable k s tbl i pflags).2.mem = s.mem := by
  have hu : Pte.isUnused (s.mem tbl i) = true := by rw [hz]; decide
  unfold createNextTable
  simp only [St.rd_fst, hu, if_true]
  cases hall : s.allocs with
  | nil => simp only [St.alloc, St.rd, hall]; exact ⟨trivial, trivial⟩
  | cons a rest =>
    rw [hall] at hal
    have : a = none := hal
    subst this
    simp only [St.alloc, St.rd, hall]; exact ⟨trivial, trivial⟩

/-- A frame the allocator may hand out (4 KiB aligned, below 2^52) is linked as a table. -/
theorem fresh_link (k : Kind) (pflags f : Word) (hpf : ParentFlagsOK pflags)
    (hf : f &&& 0xfff0000000000fff#64 = 0#64) :
    Pte.aligned4K f = true ∧ nextTable (Pte.mk f (linkFl k pflags)) = .ok f := by
  obtain ⟨b1, b2, b3, b4, _⟩ := link_bits f (linkFl k pflags) hf (linkFl_ok k pflags hpf)
  exact ⟨b4, (nextTable_ok_iff _ _).2 ((tableOf_some_iff _ _).2 ⟨b1, b2, b3.symm⟩)⟩

/-- **The descent of `map_to` into a missing subtree fails with `FrameAllocationFailed` at the first `None`
answer**: the first parent entry is unused, the allocator hands out `fs` (fewer frames than there are missing
tables) and then answers `None` (or is exhausted). -/
theorem createPath_fresh_fail (k : Kind) (pflags : Word) : ∀ (path : List Nat) (fs : List Word) (tbl : Word)
    (s : St) (tail : List (Option Word)), fs.length < path.length → IdxOK path →
    (∀ i, path.head? = some i → s.mem tbl i = 0#64) → s.allocs = fs.map some ++ tail →
    tail.headD none = none →
    (∀ f ∈ fs, Pte.aligned4K f = true ∧ nextTable (Pte.mk f (linkFl k pflags)) = .ok f) →
    (createPath k pflags s tbl path).1 = .ok (.error .allocFailed) := by
  intro path
  induction path with
  | nil => intro fs tbl s tail hlen; simp at hlen
  | cons i is ih =>
    intro fs tbl s tail hlen hidx hz hal htail hfs
    cases fs with
    | nil =>
      have h := (createNextTable_allocFail k s tbl i pflags (hz i rfl) (by rw [hal]; exact htail)).1
      simp only [createPath]
      cases hc : createNextTable k s tbl i pflags with
      | mk res s1 => rw [hc] at h; simp only at h; subst h; rfl
    | cons f fs =>
      obtain ⟨h1, h2⟩ := hfs f (by simp)
      obtain ⟨s1, hc, hm, ha⟩ := C01HistoryFull.createNextTable_fresh k s tbl i pflags f (fs.map some ++ tail)
        (hz i rfl) (by simpa using hal) h1 h2
      have hz1 : ∀ j, is.head? = some j → s1.mem f j = 0#64 := by
        intro j hj
        rw [hm]
        apply linked_at_new
        cases is with
        | nil => cases hj
        | cons j' is' => simp at hj; subst hj; exact hidx j' (by simp)
      simp only [createPath, hc]
      exact ih fs f s1 tail (by simpa using hlen) (fun y hy => hidx y (List.mem_cons_of_mem _ hy)) hz1 ha htail
        (fun g hg => hfs g (List.mem_cons_of_mem _ hg))

/-- `descend` (the walk of `unmap` and of the non-recursive `update_flags`) stops with `ParentEntryHugePage` at an
entry with the `HUGE_PAGE` bit, present or not. -/
theorem descend_hits_huge : ∀ (p : List Nat) (s : St) (t g : Word) (i : Nat) (rest : List Nat),
    tblAt s.mem t p = some g → Pte.huge (s.mem g i) = true →
    (descend s t (p ++ i :: rest)).1 = .error .hugePage := by
  intro p
  induction p with
  | nil =>
    intro s t g i rest hg hh
    simp only [tblAt, Option.some.injEq] at hg
    subst hg
    simp only [List.nil_append, descend, St.rd_fst, nextTable, hh, if_true]
  | cons j p ih =>
    intro s t g i rest hg hh
    simp only [tblAt] at hg
    cases hto : tableOf (s.mem t j) with
    | none => rw [hto] at hg; cases hg
    | some t' =>
      rw [hto] at hg
      simp only [List.cons_append, descend, St.rd_fst, (nextTable_ok_iff _ _).2 hto]
      exact ih (s.rd t j).2 t' g i rest hg hh

/-- …and so does the recursive mapper's walk (`is_unused` first, then `HUGE_PAGE`). -/
theorem descendU_hits_huge : ∀ (p : List Nat) (s : St) (t g : Word) (i : Nat) (rest : List Nat),
    tblAt s.mem t p = some g → Pte.huge (s.mem g i) = true →
    (descendU s t (p ++ i :: rest)).1 = .error .hugePage := by
  intro p
  induction p with
  | nil =>
    intro s t g i rest hg hh
    simp only [tblAt, Option.some.injEq] at hg
    subst hg
    simp only [List.nil_append, descendU, St.rd_fst, nextTableU, isUnused_false (huge_ne_zero hh), hh, if_true,
      Bool.false_eq_true, if_false]
  | cons j p ih =>
    intro s t g i rest hg hh
    simp only [tblAt] at hg
    cases hto : tableOf (s.mem t j) with
    | none => rw [hto] at hg; cases hg
    | some t' =>
      rw [hto] at hg
      simp only [List.cons_append, descendU, St.rd_fst, nextTableU_of_tableOf _ _ hto]
      exact ih (s.rd t j).2 t' g i rest hg hh

theorem descendU_mem (s : St) (t : Word) (path : List Nat) : (descendU s t path).2.mem = s.mem := by
  induction path generalizing s t with
  | nil => rfl
  | cons i rest ih =>
    simp only [descendU]
    cases h : nextTableU ((s.rd t i).1) with
    | error e => rfl
    | ok t' => exact (ih _ t').trans rfl

theorem descendK_mem (k : Kind) (s : St) (t : Word) (path : List Nat) : (descendK k s t path).2.mem = s.mem := by
  unfold descendK
  by_cases hk : k.recursive = true
  · simp only [hk, if_true]; exact descendU_mem s t path
  · simp only [hk]; exact descend_mem s t path

theorem descendK_hits_huge (k : Kind) (p : List Nat) (s : St) (t g : Word) (i : Nat) (rest : List Nat)
    (hg : tblAt s.mem t p = some g) (hh : Pte.huge (s.mem g i) = true) :
    (descendK k s t (p ++ i :: rest)).1 = .error .hugePage := by
  unfold descendK
  by_cases hk : k.recursive = true
  · simp only [hk, if_true]; exact descendU_hits_huge p s t g i rest hg hh
  · simp only [hk]; exact descend_hits_huge p s t g i rest hg hh

/-! ### Containment of pages -/

/-- The page `parents`/`li` lies strictly inside the (larger) page of record `r`: `r.parents ++ [r.li]` is a
proper prefix of `parents ++ [li]`. -/
def StrictlyContains (r : PageRec) (parents : List Nat) (li : Nat) : Prop :=
  ∃ rest, rest ≠ [] ∧ r.parents ++ [r.li] ++ rest = parents ++ [li]

/-- …equivalently, `r.parents ++ [r.li]` is a prefix of the parent path. -/
theorem strictlyContains_iff (r : PageRec) (parents : List Nat) (li : Nat) :
    StrictlyContains r parents li ↔ r.parents ++ [r.li] <+: parents := by
  constructor
  · rintro ⟨rest, hne, h⟩
    rcases List.eq_nil_or_concat rest with h0 | ⟨L, b, hL⟩
    · exact absurd h0 hne
    · subst hL
      rw [List.concat_eq_append, ← List.append_assoc] at h
      have := (List.append_inj' h rfl).1
      exact ⟨L, this⟩
  · rintro ⟨t, ht⟩
    exact ⟨t ++ [li], by simp, by rw [← ht]; simp⟩

theorem shape_huge_of_len {p : List Nat} {h : Bool} {sz : Nat} (sh : PageShape p h sz) (hl : p.length ≤ 2) :
    h = true := by
  cases sh with
  | s4k a b c => simp at hl
  | s2m a b => rfl
  | s1g a => rfl

/-- No recorded huge page strictly contains a page below the parent path `parents`. -/
def NotInHuge (a : Abs) (parents : List Nat) : Prop :=
  ∀ r ∈ a, r.huge = true → ¬ r.parents ++ [r.li] <+: parents

/-- A well-formed record whose page strictly contains another page is a huge page; so "no recorded huge page
strictly contains the page" is the same as "no recorded page strictly contains it". -/
theorem huge_of_contains {r : PageRec} (hok : r.OK) {parents : List Nat} (hl : parents.length ≤ 3)
    (hc : r.parents ++ [r.li] <+: parents) : r.huge = true := by
  obtain ⟨t, ht⟩ := hc
  have hlen : r.parents.length ≤ 2 := by
    have := congrArg List.length ht
    simp at this; omega
  exact shape_huge_of_len hok.shape hlen

theorem notInHuge_iff {p4 : Word} {m : PMem} {a : Abs} (hrel : Rel p4 m a) (parents : List Nat) (li : Nat)
    (hl : parents.length ≤ 3) :
    NotInHuge a parents ↔ ∀ r ∈ a, ¬ StrictlyContains r parents li := by
  constructor
  · intro h r hr hc
    rw [strictlyContains_iff] at hc
    exact h r hr (huge_of_contains (hrel.slots r hr).1 hl hc) hc
  · intro h r hr _ hc
    exact h r hr ((strictlyContains_iff r parents li).2 hc)

/-- The slot of a recorded page: its table exists, the slot holds the page's non-zero raw word; for a huge
page that word has the `HUGE_PAGE` bit (whether or not it has `PRESENT`). -/
theorem slot_of_record {p4 : Word} {m : PMem} {a : Abs} (hrel : Rel p4 m a) (r : PageRec) (hr : r ∈ a) :
    r.OK ∧ ∃ g, tblAt m p4 r.parents = some g ∧ m g r.li = r.word ∧ m g r.li ≠ 0#64 ∧
      (r.huge = true → Pte.huge (m g r.li) = true) := by
  obtain ⟨hok, g, hg, hw, hne, _⟩ := hrel.slots r hr
  obtain ⟨_, _, _, w4, _⟩ := leafWord_facts hok.shape r.frame r.flags hok.flags hok.frame
  refine ⟨hok, g, hg, hw, by rw [hw]; exact hne, fun hh => ?_⟩
  rw [hw, huge_eq_bitPS]; exact w4 hh

/-! ### 1. The page is already mapped -/

/-- **`map_to` of a recorded page reports `PageAlreadyMapped`** — whether the page's flags contain `PRESENT` or
not, for every mapper kind, every page size of the request, every frame and flags, and every list of allocator
answers (no frame is requested: the allocator's answers are all still there). The only memory words that can
differ afterwards are entries of the tables strictly above the page's table (parent flags added). -/
theorem map_to_already_mapped (k : Kind) (s : St) (p4 : Word) (a : Abs) (hinv : Inv s.mem p4)
    (hrel : Rel p4 s.mem a) (r : PageRec) (hr : r ∈ a) (parents : List Nat) (li : Nat)
    (hp : r.isPage parents li = true) (huge : Bool) (frame flags pflags : Word) (hpf : ParentFlagsOK pflags) :
    ∃ s', mapTo k s p4 parents li huge frame flags pflags = (.ok (.error .alreadyMapped), s') ∧
      s'.allocs = s.allocs ∧
      (∀ g j, s'.mem g j ≠ s.mem g j →
        ∃ q, q.length < parents.length ∧ q.length ≤ 3 ∧ IdxOK q ∧ tblAt s.mem p4 q = some g) := by
  obtain ⟨e1, e2⟩ := (PageRec.isPage_iff _ _ _).1 hp
  obtain ⟨hok, g, hg, _, hne, _⟩ := slot_of_record hrel r hr
  rw [e1] at hg; rw [e2] at hne
  have hl3 : parents.length ≤ 3 := e1 ▸ hok.shape.len_le.2
  obtain ⟨s1, hc, hal, hsame, hmem⟩ := createPath_prefix k pflags p4 hpf s hinv parents g hg hl3 (e1 ▸ hok.idx)
  have hu : Pte.isUnused (s1.mem g li) = false := by rw [hsame]; exact isUnused_false hne
  refine ⟨(s1.rd g li).2, ?_, hal, hmem⟩
  unfold mapTo
  rw [hc]
  simp only [St.rd_fst, hu, Bool.not_false, if_true]

/-- …and, when the allocator honours its contract, the failed call keeps the invariant, the mapping of every
address and every leaf slot (`C02.map_error_no_change`, `map_to_leaves`). -/
theorem map_to_already_mapped_no_change (k : Kind) (p4 : Word) (m : PMem) (a : Abs) (hinv : Inv m p4)
    (hrel : Rel p4 m a) (parents : List Nat) (li : Nat) (huge : Bool) (sz : Nat) (frame flags pflags : Word)
    (allocs : List (Option Word)) (hv : ValidD p4 m (.map parents li huge sz frame flags pflags allocs))
    (r : PageRec) (hr : r ∈ a) (hp : r.isPage parents li = true) :
    ∃ s', mapTo k (⟨m, allocs, []⟩ : St) p4 parents li huge frame flags pflags = (.ok (.error .alreadyMapped), s') ∧
      Inv s'.mem p4 ∧ (∀ va, (walk s'.mem p4 va).map Xlat.core = (walk m p4 va).map Xlat.core) ∧
      Rel p4 s'.mem a := by
  obtain ⟨sh, hpi, hli, hpf, hfl, hfr, hal⟩ := hv
  obtain ⟨s', h, _⟩ := map_to_already_mapped k (⟨m, allocs, []⟩ : St) p4 a hinv hrel r hr parents li hp huge frame
    flags pflags hpf
  have h1 := C02.map_error_no_change k (⟨m, allocs, []⟩ : St) p4 parents li huge sz frame flags pflags sh hinv hpi hli
    hpf hfl hfr hal _ s' h
  have h2 := map_to_leaves k (⟨m, allocs, []⟩ : St) p4 parents li huge sz frame flags pflags sh hinv hpi hpf hfl hfr hal
  rw [h] at h2
  exact ⟨s', h, h1.1, h1.2, Rel.of_leafSame h2 hrel⟩

/-! ### 2. The page lies inside a larger huge page -/

/-- **`map_to` of a page inside a recorded huge page reports `ParentEntryHugePage`** — for every mapper kind and
every list of allocator answers (none is consumed), and whether or not the huge page's flags contain `PRESENT`:
`create_next_table` tests `is_unused()` and then `HUGE_PAGE`, never `PRESENT`. -/
theorem map_to_inside_huge (k : Kind) (s : St) (p4 : Word) (a : Abs) (hinv : Inv s.mem p4)
    (hrel : Rel p4 s.mem a) (r : PageRec) (hr : r ∈ a) (hh : r.huge = true) (parents : List Nat) (li : Nat)
    (hc : r.parents ++ [r.li] <+: parents) (huge : Bool) (frame flags pflags : Word) (hpf : ParentFlagsOK pflags) :
    ∃ s', mapTo k s p4 parents li huge frame flags pflags = (.ok (.error .parentHuge), s') ∧
      s'.allocs = s.allocs ∧
      (∀ g j, s'.mem g j ≠ s.mem g j →
        ∃ q, q.length < r.parents.length ∧ q.length ≤ 3 ∧ IdxOK q ∧ tblAt s.mem p4 q = some g) := by
  obtain ⟨rest, hrest⟩ := hc
  obtain ⟨hok, g, hg, _, _, hhuge⟩ := slot_of_record hrel r hr
  obtain ⟨s1, hc1, hal, hsame, hmem⟩ := createPath_prefix k pflags p4 hpf s hinv r.parents g hg hok.shape.len_le.2
    hok.idx
  have hh1 : Pte.huge (s1.mem g r.li) = true := by rw [hsame]; exact hhuge hh
  have hcp : createPath k pflags s p4 parents = (.ok (.error .hugePage), (s1.rd g r.li).2) := by
    rw [← hrest, List.append_assoc, createPath_append, hc1]
    simp only [List.singleton_append, createPath, createNextTable_huge k s1 g r.li pflags hh1]
  refine ⟨(s1.rd g r.li).2, ?_, hal, hmem⟩
  unfold mapTo
  rw [hcp]

/-- **`unmap` of a page inside a recorded huge page reports `ParentEntryHugePage`** and changes nothing (the
walk tests `HUGE_PAGE` before `PRESENT`: also for a huge page mapped without `PRESENT`). -/
theorem unmap_inside_huge (s : St) (p4 : Word) (a : Abs) (hrel : Rel p4 s.mem a) (r : PageRec) (hr : r ∈ a)
    (hh : r.huge = true) (parents : List Nat) (li : Nat) (hc : r.parents ++ [r.li] <+: parents)
    (huge : Bool) (sz : Nat) :
    (unmap s p4 parents li huge sz).1 = .error .parentHuge ∧ (unmap s p4 parents li huge sz).2.mem = s.mem := by
  obtain ⟨rest, hrest⟩ := hc
  obtain ⟨_, g, hg, _, _, hhuge⟩ := slot_of_record hrel r hr
  have hd := descend_hits_huge r.parents s p4 g r.li rest hg (hhuge hh)
  rw [show r.parents ++ r.li :: rest = parents by rw [← hrest]; simp] at hd
  have hres : (unmap s p4 parents li huge sz).1 = .error .parentHuge := by
    unfold unmap
    cases hdd : descend s p4 parents with
    | mk res s1 => rw [hdd] at hd; simp only at hd; subst hd; rfl
  exact ⟨hres, C02.unmap_error_no_change s p4 parents li huge sz _ hres⟩

/-- **`update_flags` of a page inside a recorded huge page reports `ParentEntryHugePage`** and changes nothing,
for every mapper kind (the recursive mapper tests `is_unused()` and then `HUGE_PAGE`). -/
theorem update_flags_inside_huge (k : Kind) (s : St) (p4 : Word) (a : Abs) (hrel : Rel p4 s.mem a)
    (r : PageRec) (hr : r ∈ a) (hh : r.huge = true) (parents : List Nat) (li : Nat)
    (hc : r.parents ++ [r.li] <+: parents) (huge : Bool) (flags : Word) :
    (updateFlags k s p4 parents li huge flags).1 = .error .parentHuge ∧
    (updateFlags k s p4 parents li huge flags).2.mem = s.mem := by
  obtain ⟨rest, hrest⟩ := hc
  obtain ⟨_, g, hg, _, _, hhuge⟩ := slot_of_record hrel r hr
  have hd := descendK_hits_huge k r.parents s p4 g r.li rest hg (hhuge hh)
  rw [show r.parents ++ r.li :: rest = parents by rw [← hrest]; simp] at hd
  have hm := descendK_mem k s p4 parents
  unfold updateFlags
  cases hdd : descendK k s p4 parents with
  | mk res s1 =>
    rw [hdd] at hd hm
    simp only at hd hm
    subst hd
    exact ⟨rfl, hm⟩

/-- The same for `translate_page`. -/
theorem translate_page_inside_huge (k : Kind) (s : St) (p4 : Word) (a : Abs) (hrel : Rel p4 s.mem a)
    (r : PageRec) (hr : r ∈ a) (hh : r.huge = true) (parents : List Nat) (li : Nat)
    (hc : r.parents ++ [r.li] <+: parents) (huge : Bool) (sz : Nat) :
    (translatePage k s p4 parents li huge sz).1 = .error .parentHuge := by
  obtain ⟨rest, hrest⟩ := hc
  obtain ⟨_, g, hg, _, _, hhuge⟩ := slot_of_record hrel r hr
  have hd := descendK_hits_huge k r.parents s p4 g r.li rest hg (hhuge hh)
  rw [show r.parents ++ r.li :: rest = parents by rw [← hrest]; simp] at hd
  unfold translatePage
  cases hdd : descendK k s p4 parents with
  | mk res s1 =>
    rw [hdd] at hd
    simp only at hd
    subst hd
    rfl

/-! ### 3. The page is not mapped -/

/-- A path that does not lead to a table breaks at a first entry that is not a table link. -/
theorem first_missing (m : PMem) : ∀ (p : List Nat) (t : Word), tblAt m t p = none →
    ∃ pre i post g, p = pre ++ i :: post ∧ tblAt m t pre = some g ∧ tableOf (m g i) = none := by
  intro p
  induction p with
  | nil => intro t h; simp [tblAt] at h
  | cons j p ih =>
    intro t h
    cases hto : tableOf (m t j) with
    | none => exact ⟨[], j, p, t, rfl, rfl, hto⟩
    | some t' =>
      simp only [tblAt, hto] at h
      obtain ⟨pre, i, post, g, e, hg, hn⟩ := ih t' h
      exact ⟨j :: pre, i, post, g, by rw [e]; rfl, by simp only [tblAt, hto]; exact hg, hn⟩

/-- `descend` stops at the first entry that is not a table link: `ParentEntryHugePage` if it has the `HUGE_PAGE`
bit, `PageNotMapped` otherwise. -/
theorem descend_stops : ∀ (p : List Nat) (s : St) (t g : Word) (i : Nat) (rest : List Nat),
    tblAt s.mem t p = some g → tableOf (s.mem g i) = none →
    (descend s t (p ++ i :: rest)).1 = .error (if Pte.huge (s.mem g i) then .hugePage else .notMapped) := by
  intro p
  induction p with
  | nil =>
    intro s t g i rest hg hn
    simp only [tblAt, Option.some.injEq] at hg
    subst hg
    simp only [List.nil_append, descend, St.rd_fst]
    rw [nextTable_eq, hn]
    cases Pte.huge (s.mem t i) <;> rfl
  | cons j p ih =>
    intro s t g i rest hg hn
    simp only [tblAt] at hg
    cases hto : tableOf (s.mem t j) with
    | none => rw [hto] at hg; cases hg
    | some t' =>
      rw [hto] at hg
      simp only [List.cons_append, descend, St.rd_fst, (nextTable_ok_iff _ _).2 hto]
      exact ih (s.rd t j).2 t' g i rest hg hn

/-- Under the correspondence, an entry of a level-4/3/2 table on the way to a page that no recorded huge page
contains is a table link or zero. -/
theorem entry_zero_of_notInHuge {p4 : Word} {m : PMem} {a : Abs} (hrel : Rel p4 m a)
    (pre : List Nat) (i : Nat) (post : List Nat) (hl : (pre ++ i :: post).length ≤ 3) (hpi : IdxOK (pre ++ i :: post))
    (hnc : NotInHuge a (pre ++ i :: post)) (g : Word) (hg : tblAt m p4 pre = some g)
    (hn : tableOf (m g i) = none) : m g i = 0#64 := by
  apply Classical.byContradiction
  intro hne
  have hpl : pre.length ≤ 2 := by simp at hl; omega
  obtain ⟨hpre, hrest⟩ := IdxOK_append.1 hpi
  obtain ⟨r, hr, e1, e2⟩ := hrel.complete pre i (m g i) (by omega) hpre (hrest i (by simp))
    ⟨g, hg, rfl, hne, Or.inr hn⟩
  have hok := (hrel.slots r hr).1
  have hc : r.parents ++ [r.li] <+: pre ++ i :: post := ⟨post, by rw [e1, e2]; simp⟩
  exact hnc r hr (huge_of_contains hok hl hc) hc

/-- The walk of `unmap`/`update_flags` towards a page whose table does not exist, and that no recorded huge page
contains, reports `PageNotMapped`. -/
theorem descend_notMapped {p4 : Word} {a : Abs} (s : St) (hrel : Rel p4 s.mem a) (parents : List Nat)
    (hl : parents.length ≤ 3) (hpi : IdxOK parents) (hnc : NotInHuge a parents)
    (hnt : tblAt s.mem p4 parents = none) : (descend s p4 parents).1 = .error .notMapped := by
  obtain ⟨pre, i, post, g, e, hg, hn⟩ := first_missing s.mem parents p4 hnt
  subst e
  have hz := entry_zero_of_notInHuge hrel pre i post hl hpi hnc g hg hn
  have hd := descend_stops pre s p4 g i post hg hn
  rw [hz] at hd
  exact hd

/-- **`unmap` and `update_flags` of a page that is not mapped report `PageNotMapped` and change nothing**, for
every mapper kind: no recorded huge page contains the page, and the page's table does not exist or its slot is
zero (so the page is not recorded either: a recorded page's slot is non-zero). The remaining state of an
unrecorded page — a huge-page-sized request whose slot links a lower table — is `link_slot_outcome` below. -/
theorem not_mapped_outcome (k : Kind) (s : St) (p4 : Word) (a : Abs) (hinv : Inv s.mem p4) (hrel : Rel p4 s.mem a)
    (parents : List Nat) (li : Nat) (huge : Bool) (sz : Nat) (flags : Word)
    (hl : parents.length ≤ 3) (hpi : IdxOK parents) (hnc : NotInHuge a parents)
    (hst : tblAt s.mem p4 parents = none ∨ ∃ t, tblAt s.mem p4 parents = some t ∧ s.mem t li = 0#64) :
    (unmap s p4 parents li huge sz).1 = .error .notMapped ∧ (unmap s p4 parents li huge sz).2.mem = s.mem ∧
    (updateFlags k s p4 parents li huge flags).1 = .error .notMapped ∧
    (updateFlags k s p4 parents li huge flags).2.mem = s.mem := by
  have hun : (unmap s p4 parents li huge sz).1 = .error .notMapped := by
    rcases hst with hnt | ⟨t, ht, hz⟩
    · have hd := descend_notMapped s hrel parents hl hpi hnc hnt
      unfold unmap
      cases hdd : descend s p4 parents with
      | mk res s1 => rw [hdd] at hd; simp only at hd; subst hd; rfl
    · exact (unmap_of_not_present s p4 parents li huge sz t ht (by rw [hz]; decide)).1
  have hup : (updateFlags ⟨false⟩ s p4 parents li huge flags).1 = .error .notMapped := by
    unfold updateFlags descendK
    simp only [Bool.false_eq_true, if_false]
    rcases hst with hnt | ⟨t, ht, hz⟩
    · have hd := descend_notMapped s hrel parents hl hpi hnc hnt
      cases hdd : descend s p4 parents with
      | mk res s1 => rw [hdd] at hd; simp only at hd; subst hd; rfl
    · have hd := (descend_ok_iff s p4 parents t).2 ht
      have hm := descend_mem s p4 parents
      cases hdd : descend s p4 parents with
      | mk res s1 =>
        rw [hdd] at hd hm; simp only at hd hm; subst hd
        have hu : Pte.isUnused (s1.mem t li) = true := by rw [hm, hz]; decide
        simp only [St.rd_fst, hu, if_true]
  rw [updateFlags_kind k s p4 parents li huge flags hinv hl hpi]
  exact ⟨hun, C02.unmap_error_no_change s p4 parents li huge sz _ hun, hup,
    C02.update_flags_error_no_change s p4 parents li huge flags _ hup⟩

/-- **The states of a page that is not recorded** (under the correspondence): its table does not exist, or its
slot is zero, or — only for a page of a huge size (fewer than three parent tables) — its slot links a lower table. -/
theorem not_recorded_cases {p4 : Word} {m : PMem} {a : Abs} (hrel : Rel p4 m a) (parents : List Nat) (li : Nat)
    (hl : parents.length ≤ 3) (hpi : IdxOK parents) (hli : li < 512)
    (hnr : ∀ r ∈ a, r.isPage parents li = false) :
    tblAt m p4 parents = none ∨ ∃ t, tblAt m p4 parents = some t ∧
      (m t li = 0#64 ∨ (parents.length < 3 ∧ ∃ t', tableOf (m t li) = some t')) := by
  cases ht : tblAt m p4 parents with
  | none => exact Or.inl rfl
  | some t =>
    refine Or.inr ⟨t, rfl, ?_⟩
    have hno : ¬ IsLeafSlot m p4 parents li (m t li) := by
      intro hs
      obtain ⟨r, hr, e1, e2⟩ := hrel.complete parents li _ hl hpi hli hs
      have := hnr r hr
      rw [(PageRec.isPage_iff _ _ _).2 ⟨e1, e2⟩] at this
      cases this
    by_cases hz : m t li = 0#64
    · exact Or.inl hz
    · right
      by_cases h3 : parents.length = 3
      · exact absurd ⟨t, ht, rfl, hz, Or.inl h3⟩ hno
      · cases hto : tableOf (m t li) with
        | none => exact absurd ⟨t, ht, rfl, hz, Or.inr hto⟩ hno
        | some t' => exact ⟨by omega, t', rfl⟩

/-- **In the language of the abstract state, for a 4 KiB page**: if no recorded page is the page and no recorded
(huge) page contains it, `unmap` and `update_flags` report `PageNotMapped` and change nothing. -/
theorem not_mapped_4k (k : Kind) (s : St) (p4 : Word) (a : Abs) (hinv : Inv s.mem p4) (hrel : Rel p4 s.mem a)
    (parents : List Nat) (li : Nat) (huge : Bool) (sz : Nat) (flags : Word)
    (hl : parents.length = 3) (hpi : IdxOK parents) (hli : li < 512)
    (hnr : ∀ r ∈ a, r.isPage parents li = false) (hnc : NotInHuge a parents) :
    (unmap s p4 parents li huge sz).1 = .error .notMapped ∧ (unmap s p4 parents li huge sz).2.mem = s.mem ∧
    (updateFlags k s p4 parents li huge flags).1 = .error .notMapped ∧
    (updateFlags k s p4 parents li huge flags).2.mem = s.mem := by
  apply not_mapped_outcome k s p4 a hinv hrel parents li huge sz flags (by omega) hpi hnc
  rcases not_recorded_cases hrel parents li (by omega) hpi hli hnr with h | ⟨t, ht, h | ⟨h, _⟩⟩
  · exact Or.inl h
  · exact Or.inr ⟨t, ht, h⟩
  · omega

/-- **A huge-page-sized request on a slot that links a lower table**: `unmap` and `update_flags` report
`ParentEntryHugePage` (the crate: "the entry is a page table, not a huge page") and change nothing; `map_to`
reports `PageAlreadyMapped` (`map_to_slot_used`). A 4 KiB request never meets this state: the entries of a
level-1 table are never links. -/
theorem link_slot_outcome (k : Kind) (s : St) (p4 : Word) (parents : List Nat) (li : Nat) (sz : Nat) (flags : Word)
    (t t' : Word) (ht : tblAt s.mem p4 parents = some t) (hlink : tableOf (s.mem t li) = some t') :
    (unmap s p4 parents li true sz).1 = .error .parentHuge ∧ (unmap s p4 parents li true sz).2.mem = s.mem ∧
    (updateFlags k s p4 parents li true flags).1 = .error .parentHuge ∧
    (updateFlags k s p4 parents li true flags).2.mem = s.mem := by
  obtain ⟨hP, hS, _⟩ := (tableOf_some_iff _ _).1 hlink
  rw [← present_eq_bitP] at hP
  rw [← huge_eq_bitPS] at hS
  have hne : s.mem t li ≠ 0#64 := ne_zero_of_bitP hP
  have hun : (unmap s p4 parents li true sz).1 = .error .parentHuge := by
    have hd := (descend_ok_iff s p4 parents t).2 ht
    have hm := descend_mem s p4 parents
    unfold unmap
    cases hdd : descend s p4 parents with
    | mk res s1 =>
      rw [hdd] at hd hm; simp only at hd hm; subst hd
      simp only [St.rd_fst, hm, hP, hS, Bool.not_true, Bool.false_eq_true, if_false, Bool.not_false, Bool.and_self,
        if_true]
  obtain ⟨hd, hm⟩ := descendK_of_tblAt k parents s p4 t ht
  have hup : (updateFlags k s p4 parents li true flags).1 = .error .parentHuge ∧
      (updateFlags k s p4 parents li true flags).2.mem = s.mem := by
    unfold updateFlags
    cases hdd : descendK k s p4 parents with
    | mk res s1 =>
      rw [hdd] at hd hm; simp only at hd hm; subst hd
      simp only [St.rd_fst, hm, isUnused_false hne, hS, Bool.false_eq_true, if_false, Bool.not_false, Bool.and_self,
        if_true]
      exact ⟨trivial, hm⟩
  exact ⟨hun, C02.unmap_error_no_change s p4 parents li true sz _ hun, hup⟩

/-- **`map_to` on a slot in use** — by a page, or by a link to a lower table — **reports `PageAlreadyMapped`**,
whatever the allocator would answer (generalises `map_to_already_mapped` to the link case). -/
theorem map_to_slot_used (k : Kind) (s : St) (p4 : Word) (hinv : Inv s.mem p4) (parents : List Nat) (li : Nat)
    (hl : parents.length ≤ 3) (hpi : IdxOK parents) (t : Word) (ht : tblAt s.mem p4 parents = some t)
    (hne : s.mem t li ≠ 0#64) (huge : Bool) (frame flags pflags : Word) (hpf : ParentFlagsOK pflags) :
    (mapTo k s p4 parents li huge frame flags pflags).1 = .ok (.error .alreadyMapped) := by
  obtain ⟨s1, hc, _, hsame, _⟩ := createPath_prefix k pflags p4 hpf s hinv parents t ht hl hpi
  have hu : Pte.isUnused (s1.mem t li) = false := by rw [hsame]; exact isUnused_false hne
  unfold mapTo
  rw [hc]
  simp only [St.rd_fst, hu, Bool.not_false, if_true]

/-! ### 4. Frame allocation failed -/

/-- **`map_to` reports `FrameAllocationFailed` at the first `None` answer** (all three allocation points): the
tables along `pre` exist, the entry `i` of the last one is unused — so the table at `pre ++ [i]` and all tables
below it (`post.length` more) are missing —, the allocator hands out the frames `fs` for the first `fs.length`
missing tables (fewer than there are missing tables: `fs.length ≤ post.length`) and then answers `None`, or is
exhausted. `fs = []` is "the first answer is `None`". Any mapper kind; the frames handed out need only be 4 KiB
aligned and below 2^52 (part of `AllocsOK`), the answers after the `None` are arbitrary. -/
theorem map_to_alloc_failed (k : Kind) (s : St) (p4 : Word) (hinv : Inv s.mem p4)
    (pre : List Nat) (i : Nat) (post : List Nat) (li : Nat) (huge : Bool) (frame flags pflags : Word)
    (hpf : ParentFlagsOK pflags) (hl : (pre ++ i :: post).length ≤ 3) (hpi : IdxOK (pre ++ i :: post))
    (g : Word) (hg : tblAt s.mem p4 pre = some g) (hz : s.mem g i = 0#64)
    (fs : List Word) (tail : List (Option Word)) (hal : s.allocs = fs.map some ++ tail)
    (hfs : ∀ f ∈ fs, f &&& 0xfff0000000000fff#64 = 0#64) (hlen : fs.length ≤ post.length)
    (htail : tail.headD none = none) :
    (mapTo k s p4 (pre ++ i :: post) li huge frame flags pflags).1 = .ok (.error .allocFailed) := by
  obtain ⟨hpre, hrest⟩ := IdxOK_append.1 hpi
  obtain ⟨s1, hc, hal1, hsame, _⟩ := createPath_prefix k pflags p4 hpf s hinv pre g hg
    (by simp at hl; omega) hpre
  have hf := createPath_fresh_fail k pflags (i :: post) fs g s1 tail (by simp; omega) hrest
    (fun j hj => by simp at hj; subst hj; rw [hsame]; exact hz) (by rw [hal1]; exact hal) htail
    (fun f hf => fresh_link k pflags f hpf (hfs f hf))
  have hcp : (createPath k pflags s p4 (pre ++ i :: post)).1 = .ok (.error .allocFailed) := by
    rw [createPath_append, hc]; exact hf
  unfold mapTo
  cases hcc : createPath k pflags s p4 (pre ++ i :: post) with
  | mk res s2 => rw [hcc] at hcp; simp only at hcp; subst hcp; rfl

/-- The first-allocation case in "depth" form: the first missing table on the page's path is at depth `j`
(`parents.take j` leads to a table whose entry `parents[j]` is unused) and the allocator's first answer is `None`
(or it is exhausted). -/
theorem map_to_alloc_failed_first (k : Kind) (s : St) (p4 : Word) (hinv : Inv s.mem p4)
    (parents : List Nat) (j : Nat) (hj : j < parents.length) (li : Nat) (huge : Bool) (frame flags pflags : Word)
    (hpf : ParentFlagsOK pflags) (hl : parents.length ≤ 3) (hpi : IdxOK parents)
    (g : Word) (hg : tblAt s.mem p4 (parents.take j) = some g) (hz : s.mem g parents[j] = 0#64)
    (hal : s.allocs.headD none = none) :
    (mapTo k s p4 parents li huge frame flags pflags).1 = .ok (.error .allocFailed) := by
  have e : parents.take j ++ parents[j] :: parents.drop (j + 1) = parents := by
    rw [← List.drop_eq_getElem_cons hj, List.take_append_drop]
  have h := map_to_alloc_failed k s p4 hinv (parents.take j) parents[j] (parents.drop (j + 1)) li huge frame flags pflags
    hpf (by rw [e]; exact hl) (by rw [e]; exact hpi) g hg hz [] s.allocs rfl (by simp) (by simp) hal
  rw [e] at h
  exact h

/-- Number of tables on the path `p` below `t` that exist. -/
def existDepth (m : PMem) : Word → List Nat → Nat
  | _, [] => 0
  | t, i :: rest =>
    match tableOf (m t i) with
    | some t' => existDepth m t' rest + 1
    | none => 0

/-- Number of tables `map_to` has to create for a page with parent path `parents`. -/
def missingTables (m : PMem) (p4 : Word) (parents : List Nat) : Nat := parents.length - existDepth m p4 parents

theorem existDepth_spec (m : PMem) : ∀ (p : List Nat) (t : Word),
    ∃ pre post g, p = pre ++ post ∧ pre.length = existDepth m t p ∧ tblAt m t pre = some g ∧
      (post = [] ∨ ∃ i post', post = i :: post' ∧ tableOf (m g i) = none) := by
  intro p
  induction p with
  | nil => intro t; exact ⟨[], [], t, rfl, rfl, rfl, Or.inl rfl⟩
  | cons j p ih =>
    intro t
    cases hto : tableOf (m t j) with
    | none => exact ⟨[], j :: p, t, rfl, by simp [existDepth, hto], rfl, Or.inr ⟨j, p, rfl, hto⟩⟩
    | some t' =>
      obtain ⟨pre, post, g, e, hlen, hg, hpost⟩ := ih t'
      refine ⟨j :: pre, post, g, by rw [e]; rfl, ?_, by simp only [tblAt, hto]; exact hg, hpost⟩
      simp only [existDepth, hto, List.length_cons, hlen]

/-- **In the language of the abstract state**: no recorded huge page contains the page, `n = missingTables`
tables are missing on its path, the allocator hands out fewer than `n` frames and then answers `None` (or is
exhausted) — `map_to` reports `FrameAllocationFailed`. -/
theorem map_to_alloc_failed_abs (k : Kind) (s : St) (p4 : Word) (a : Abs) (hinv : Inv s.mem p4) (hrel : Rel p4 s.mem a)
    (parents : List Nat) (li : Nat) (huge : Bool) (frame flags pflags : Word)
    (hpf : ParentFlagsOK pflags) (hl : parents.length ≤ 3) (hpi : IdxOK parents) (hnc : NotInHuge a parents)
    (fs : List Word) (tail : List (Option Word)) (hal : s.allocs = fs.map some ++ tail)
    (hfs : ∀ f ∈ fs, f &&& 0xfff0000000000fff#64 = 0#64) (hlen : fs.length < missingTables s.mem p4 parents)
    (htail : tail.headD none = none) :
    (mapTo k s p4 parents li huge frame flags pflags).1 = .ok (.error .allocFailed) := by
  obtain ⟨pre, post, g, e, hd, hg, hpost⟩ := existDepth_spec s.mem parents p4
  unfold missingTables at hlen
  rw [← hd] at hlen
  subst e
  rcases hpost with h | ⟨i, post', h, hn⟩
  · subst h; simp at hlen
  · subst h
    have hz := entry_zero_of_notInHuge hrel pre i post' hl hpi hnc g hg hn
    exact map_to_alloc_failed k s p4 hinv pre i post' li huge frame flags pflags hpf hl hpi g hg hz fs tail hal hfs
      (by simp at hlen; omega) htail

/-! ### 5. Success -/

/-- **`map_to` succeeds when tables are missing and the allocator provides them**: the tables along `pre` exist,
entry `i` of the last one is unused, and the allocator hands out one (aligned, below 2^52) frame for each of the
`post.length + 1` missing tables. (The page's slot lies in the last new table: it is unused.) -/
theorem map_to_succeeds_missing (k : Kind) (s : St) (p4 : Word) (hinv : Inv s.mem p4)
    (pre : List Nat) (i : Nat) (post : List Nat) (li : Nat) (huge : Bool) (sz : Nat) (frame flags pflags : Word)
    (sh : PageShape (pre ++ i :: post) huge sz) (hpi : IdxOK (pre ++ i :: post)) (hli : li < 512)
    (hpf : ParentFlagsOK pflags) (hfl : if huge then LeafBitsHuge flags else LeafBits4K flags)
    (hfr : FrameOK sz frame)
    (g : Word) (hg : tblAt s.mem p4 pre = some g) (hz : s.mem g i = 0#64)
    (fs : List Word) (rest : List (Option Word)) (hal : s.allocs = fs.map some ++ rest)
    (hfs : ∀ f ∈ fs, f &&& 0xfff0000000000fff#64 = 0#64) (hlen : fs.length = post.length + 1) :
    (mapTo k s p4 (pre ++ i :: post) li huge frame flags pflags).1 = .ok (.ok ()) := by
  obtain ⟨_, hl⟩ := sh.len_le
  obtain ⟨_, w2, _⟩ := leafWord_facts sh frame flags hfl hfr
  obtain ⟨hpre, hrest⟩ := IdxOK_append.1 hpi
  obtain ⟨s1, hc, hal1, hsame, _⟩ := createPath_prefix k pflags p4 hpf s hinv pre g hg
    (by simp at hl; omega) hpre
  obtain ⟨s2, hc2, hm2, _⟩ := C01HistoryFull.createPath_fresh k pflags (i :: post) fs g s1 rest (by simpa using hlen) hrest
    (fun j hj => by simp at hj; subst hj; rw [hsame]; exact hz) (by rw [hal1]; exact hal)
    (fun f hf => fresh_link k pflags f hpf (hfs f hf))
  have hslot : s2.mem (C01HistoryFull.linkedPath (linkFl k pflags) s1.mem g (i :: post) fs).2 li = 0#64 := by
    rw [hm2]
    exact C01HistoryFull.linkedPath_last_zero (linkFl k pflags) (i :: post) fs g s1.mem li (by simpa using hlen)
      (by simp) hli
  have hu : Pte.isUnused (s2.mem (C01HistoryFull.linkedPath (linkFl k pflags) s1.mem g (i :: post) fs).2 li) = true := by
    rw [hslot]; decide
  unfold mapTo
  rw [createPath_append, hc]
  simp only [hc2, St.rd_fst, hu, Bool.not_true, Bool.false_eq_true, if_false, w2]

/-- **`map_to` succeeds** (in the language of the abstract state): no recorded huge page contains the page, the
page's slot — if its table exists — is unused (so the page is not recorded), and the allocator hands out one
(aligned, below 2^52) frame for each missing table (`missingTables`; further answers are arbitrary). -/
theorem map_to_succeeds (k : Kind) (s : St) (p4 : Word) (a : Abs) (hinv : Inv s.mem p4) (hrel : Rel p4 s.mem a)
    (parents : List Nat) (li : Nat) (huge : Bool) (sz : Nat) (frame flags pflags : Word)
    (sh : PageShape parents huge sz) (hpi : IdxOK parents) (hli : li < 512)
    (hpf : ParentFlagsOK pflags) (hfl : if huge then LeafBitsHuge flags else LeafBits4K flags)
    (hfr : FrameOK sz frame) (hnc : NotInHuge a parents)
    (hslot : ∀ t, tblAt s.mem p4 parents = some t → s.mem t li = 0#64)
    (fs : List Word) (rest : List (Option Word)) (hal : s.allocs = fs.map some ++ rest)
    (hfs : ∀ f ∈ fs, f &&& 0xfff0000000000fff#64 = 0#64) (hlen : fs.length = missingTables s.mem p4 parents) :
    (mapTo k s p4 parents li huge frame flags pflags).1 = .ok (.ok ()) := by
  obtain ⟨pre, post, g, e, hd, hg, hpost⟩ := existDepth_spec s.mem parents p4
  unfold missingTables at hlen
  rw [← hd] at hlen
  subst e
  rcases hpost with h | ⟨i, post', h, hn⟩
  · subst h
    simp only [List.append_nil] at hg hslot sh hpi ⊢
    exact C01Dormant.map_dormant_succeeds k s p4 pre li huge sz frame flags pflags sh hinv hpi hpf hfl hfr g hg
      (hslot g hg)
  · subst h
    have hz := entry_zero_of_notInHuge hrel pre i post' sh.len_le.2 hpi hnc g hg hn
    exact map_to_succeeds_missing k s p4 hinv pre i post' li huge sz frame flags pflags sh hpi hli hpf hfl hfr g hg hz
      fs rest hal hfs (by simp at hlen; omega)

/-- Frames handed out by an allocator honouring its contract (`AllocsOK`) are aligned and below 2^52. -/
theorem fits_of_allocsOK (m : PMem) (p4 : Word) : ∀ (l : List (Option Word)), AllocsOK m p4 l →
    ∀ f, some f ∈ l → f &&& 0xfff0000000000fff#64 = 0#64 := by
  intro l
  induction l with
  | nil => intro _ f hf; cases hf
  | cons x l ih =>
    intro h f hf
    cases x with
    | none =>
      rcases List.mem_cons.1 hf with h' | h'
      · cases h'
      · exact ih h f h'
    | some y =>
      obtain ⟨h1, _, h3⟩ := h
      rcases List.mem_cons.1 hf with h' | h'
      · cases h'; exact h1.fits
      · exact ih h3 f h'

/-! ### Complement: the outcomes on a recorded page

For completeness: what `update_flags` and `unmap` report for a page that IS recorded. Note the asymmetry the
model (and the crate) has for pages mapped without `PRESENT`: `map_to` says `PageAlreadyMapped` (situation 1),
`update_flags` and `translate_page` succeed, but `unmap` says `PageNotMapped` — it tests `PRESENT`, not
`is_unused()`. -/

/-- `update_flags` of a recorded page (present or dormant) succeeds, for every mapper kind. -/
theorem update_flags_recorded {p4 : Word} {a : Abs} (k : Kind) (s : St) (hrel : Rel p4 s.mem a) (r : PageRec)
    (hr : r ∈ a) (flags : Word) : (updateFlags k s p4 r.parents r.li r.huge flags).1 = .ok () := by
  obtain ⟨_, g, hg, _, hne, hhuge⟩ := slot_of_record hrel r hr
  exact updateFlags_of_slot k s p4 r.parents r.li r.huge flags g hg hne hhuge

/-- `unmap` of a recorded page whose flags lack `PRESENT` reports `PageNotMapped` and changes nothing (the page
stays recorded). -/
theorem unmap_recorded_dormant {p4 : Word} {a : Abs} (s : St) (hrel : Rel p4 s.mem a) (r : PageRec) (hr : r ∈ a)
    (hnp : r.flags &&& 1#64 = 0#64) (huge : Bool) (sz : Nat) :
    (unmap s p4 r.parents r.li huge sz).1 = .error .notMapped ∧ (unmap s p4 r.parents r.li huge sz).2.mem = s.mem := by
  obtain ⟨hok, g, hg, hw, _⟩ := hrel.slots r hr
  obtain ⟨_, _, w3, _⟩ := leafWord_facts hok.shape r.frame r.flags hok.flags hok.frame
  apply unmap_of_not_present s p4 r.parents r.li huge sz g hg
  rw [hw, present_eq_bitP]
  exact w3.trans (bitP_of_not_present _ hnp)

/-- `unmap` on a slot holding a present entry (with the huge bit and an aligned address for a huge request)
returns the frame. -/
theorem unmap_of_slot (s : St) (p4 : Word) (parents : List Nat) (li : Nat) (huge : Bool) (sz : Nat)
    (t : Word) (ht : tblAt s.mem p4 parents = some t) (hP : Pte.present (s.mem t li) = true)
    (hh : huge = true → Pte.huge (s.mem t li) = true ∧ alignedTo (Pte.hugeAddr (s.mem t li)) sz = true) :
    (unmap s p4 parents li huge sz).1 =
      .ok (if huge then Pte.hugeAddr (s.mem t li) else Pte.addr (s.mem t li)) := by
  have hd := (descend_ok_iff s p4 parents t).2 ht
  have hm := descend_mem s p4 parents
  unfold unmap
  cases hdd : descend s p4 parents with
  | mk res s1 =>
    rw [hdd] at hd hm; simp only at hd hm; subst hd
    simp only [St.rd_fst, hm, hP, Bool.not_true, Bool.false_eq_true, if_false]
    cases huge with
    | false => simp
    | true =>
      obtain ⟨a, b⟩ := hh rfl
      simp [a, b]

/-- `unmap` of a recorded page whose flags contain `PRESENT` succeeds and returns the recorded frame. -/
theorem unmap_recorded_present {p4 : Word} {a : Abs} (s : St) (hrel : Rel p4 s.mem a) (r : PageRec) (hr : r ∈ a)
    (hp : r.flags &&& 1#64 = 1#64) : (unmap s p4 r.parents r.li r.huge r.sz).1 = .ok r.frame := by
  obtain ⟨hok, g, hg, hw, _⟩ := hrel.slots r hr
  obtain ⟨_, _, w3, _⟩ := leafWord_facts hok.shape r.frame r.flags hok.flags hok.frame
  have hP : Pte.present (s.mem g r.li) = true := by
    rw [hw, present_eq_bitP]; exact w3.trans (bitP_of_present _ hp)
  obtain ⟨parents, li, huge, sz, frame, flags⟩ := r
  have sh : PageShape parents huge sz := hok.shape
  have hfl : if huge then LeafBitsHuge flags else LeafBits4K flags := hok.flags
  have hfr : FrameOK sz frame := hok.frame
  have hslot : s.mem g li = leafWord huge frame flags := hw
  simp only at hg hP ⊢
  cases sh with
  | s4k a b c =>
    simp only [Bool.false_eq_true, if_false] at hfl
    have hfr' : frame &&& 0xfff0000000000fff#64 = 0#64 := by simpa [FrameOK] using hfr
    rw [unmap_of_slot s p4 _ li false 4096 g hg hP (fun h => by cases h), hslot]
    simp only [Bool.false_eq_true, if_false]
    rw [C01Dormant.leafWord_4k]; exact congrArg _ (leaf4k_addr frame flags hfr' hfl)
  | s2m a b =>
    simp only [if_true] at hfl
    have hfr' : frame &&& 0xfff00000001fffff#64 = 0#64 := by simpa [FrameOK] using hfr
    obtain ⟨c1, c2, _⟩ := leafHuge_addr frame flags hfr' hfl
    have hw' : leafWord true frame flags = Pte.mk frame (flags ||| Pte.HUGE) := rfl
    rw [unmap_of_slot s p4 _ li true (2^21) g hg hP
      (fun _ => by rw [hslot, hw', c1]; exact ⟨c2, alignedTo_of_2M frame hfr'⟩), hslot, hw']
    simp only [if_true]
    exact congrArg _ c1
  | s1g a =>
    simp only [if_true] at hfl
    have hfr' : frame &&& 0xfff000003fffffff#64 = 0#64 := by simpa [FrameOK] using hfr
    obtain ⟨c1, c2, _⟩ := leafHuge_addr frame flags (frame1G_2M frame hfr') hfl
    have hw' : leafWord true frame flags = Pte.mk frame (flags ||| Pte.HUGE) := rfl
    rw [unmap_of_slot s p4 _ li true (2^30) g hg hP
      (fun _ => by rw [hslot, hw', c1]; exact ⟨c2, alignedTo_of_1G frame hfr'⟩), hslot, hw']
    simp only [if_true]
    exact congrArg _ c1

/-! ### 6. Identically across mapper implementations; along histories -/

/-- `update_flags` does not depend on the mapper kind at all (result and memory), in any state satisfying the
invariant (`updateFlags_kind`). -/
theorem update_flags_kind_independent (k k' : Kind) (s : St) (p4 : Word) (hinv : Inv s.mem p4)
    (parents : List Nat) (li : Nat) (huge : Bool) (flags : Word) (hl : parents.length ≤ 3) (hpi : IdxOK parents) :
    updateFlags k s p4 parents li huge flags = updateFlags k' s p4 parents li huge flags := by
  rw [updateFlags_kind k s p4 parents li huge flags hinv hl hpi, updateFlags_kind k' s p4 parents li huge flags hinv hl hpi]

/-- Situation 1, any two mapper kinds: the same outcome. -/
theorem already_mapped_kind_independent (k k' : Kind) (s : St) (p4 : Word) (a : Abs) (hinv : Inv s.mem p4)
    (hrel : Rel p4 s.mem a) (r : PageRec) (hr : r ∈ a) (parents : List Nat) (li : Nat)
    (hp : r.isPage parents li = true) (huge : Bool) (frame flags pflags : Word) (hpf : ParentFlagsOK pflags) :
    (mapTo k s p4 parents li huge frame flags pflags).1 = (mapTo k' s p4 parents li huge frame flags pflags).1 := by
  obtain ⟨_, h1, _⟩ := map_to_already_mapped k s p4 a hinv hrel r hr parents li hp huge frame flags pflags hpf
  obtain ⟨_, h2, _⟩ := map_to_already_mapped k' s p4 a hinv hrel r hr parents li hp huge frame flags pflags hpf
  rw [h1, h2]

/-- Situation 2, any two mapper kinds: the same outcome of `map_to` and of `update_flags`. -/
theorem inside_huge_kind_independent (k k' : Kind) (s : St) (p4 : Word) (a : Abs) (hinv : Inv s.mem p4)
    (hrel : Rel p4 s.mem a) (r : PageRec) (hr : r ∈ a) (hh : r.huge = true) (parents : List Nat) (li : Nat)
    (hc : r.parents ++ [r.li] <+: parents) (huge : Bool) (frame flags pflags : Word) (hpf : ParentFlagsOK pflags) :
    (mapTo k s p4 parents li huge frame flags pflags).1 = (mapTo k' s p4 parents li huge frame flags pflags).1 ∧
    (updateFlags k s p4 parents li huge flags).1 = (updateFlags k' s p4 parents li huge flags).1 := by
  obtain ⟨_, h1, _⟩ := map_to_inside_huge k s p4 a hinv hrel r hr hh parents li hc huge frame flags pflags hpf
  obtain ⟨_, h2, _⟩ := map_to_inside_huge k' s p4 a hinv hrel r hr hh parents li hc huge frame flags pflags hpf
  rw [h1, h2, (update_flags_inside_huge k s p4 a hrel r hr hh parents li hc huge flags).1,
    (update_flags_inside_huge k' s p4 a hrel r hr hh parents li hc huge flags).1]
  exact ⟨rfl, rfl⟩

/-- Situations 4 and 5, any two mapper kinds: the same outcome of `map_to`. -/
theorem alloc_outcome_kind_independent (k k' : Kind) (s : St) (p4 : Word) (a : Abs) (hinv : Inv s.mem p4)
    (hrel : Rel p4 s.mem a) (parents : List Nat) (li : Nat) (huge : Bool) (sz : Nat) (frame flags pflags : Word)
    (sh : PageShape parents huge sz) (hpi : IdxOK parents) (hli : li < 512)
    (hpf : ParentFlagsOK pflags) (hfl : if huge then LeafBitsHuge flags else LeafBits4K flags)
    (hfr : FrameOK sz frame) (hnc : NotInHuge a parents)
    (hslot : ∀ t, tblAt s.mem p4 parents = some t → s.mem t li = 0#64)
    (fs : List Word) (tail : List (Option Word)) (hal : s.allocs = fs.map some ++ tail)
    (hfs : ∀ f ∈ fs, f &&& 0xfff0000000000fff#64 = 0#64)
    (hcase : fs.length = missingTables s.mem p4 parents ∨
      (fs.length < missingTables s.mem p4 parents ∧ tail.headD none = none)) :
    (mapTo k s p4 parents li huge frame flags pflags).1 = (mapTo k' s p4 parents li huge frame flags pflags).1 := by
  rcases hcase with h | ⟨h, ht⟩
  · rw [map_to_succeeds k s p4 a hinv hrel parents li huge sz frame flags pflags sh hpi hli hpf hfl hfr hnc hslot fs tail
      hal hfs h, map_to_succeeds k' s p4 a hinv hrel parents li huge sz frame flags pflags sh hpi hli hpf hfl hfr hnc
      hslot fs tail hal hfs h]
  · rw [map_to_alloc_failed_abs k s p4 a hinv hrel parents li huge frame flags pflags hpf sh.len_le.2 hpi hnc fs tail hal
      hfs h ht, map_to_alloc_failed_abs k' s p4 a hinv hrel parents li huge frame flags pflags hpf sh.len_le.2 hpi hnc
      fs tail hal hfs h ht]

/-- **The outcome table**: what the abstract state `a` dictates for the next call, of a mapper of kind `k'`, in
state `s` (with any allocator answers where none is needed):
1. `map_to` of a recorded page: `PageAlreadyMapped`;
2. `map_to` / `unmap` / `update_flags` of a page inside a recorded huge page: `ParentEntryHugePage`;
3. `unmap` / `update_flags` of a page no recorded huge page contains, whose table does not exist or whose slot is
   zero — in particular (3') of every unrecorded 4 KiB page —: `PageNotMapped`, nothing changes;
4. `map_to` when fewer frames are handed out before a `None` than tables are missing: `FrameAllocationFailed`;
5. `map_to` of an unmapped page with a frame for every missing table: success. -/
def Outcomes (k' : Kind) (s : St) (p4 : Word) (a : Abs) : Prop :=
    (∀ r ∈ a, ∀ huge frame flags pflags, ParentFlagsOK pflags →
      (mapTo k' s p4 r.parents r.li huge frame flags pflags).1 = .ok (.error .alreadyMapped)) ∧
    (∀ r ∈ a, r.huge = true → ∀ parents li, StrictlyContains r parents li → ∀ huge sz frame flags pflags,
      ParentFlagsOK pflags →
      (mapTo k' s p4 parents li huge frame flags pflags).1 = .ok (.error .parentHuge) ∧
      (unmap s p4 parents li huge sz).1 = .error .parentHuge ∧
      (updateFlags k' s p4 parents li huge flags).1 = .error .parentHuge) ∧
    (∀ parents li, parents.length ≤ 3 → IdxOK parents → NotInHuge a parents →
      (tblAt s.mem p4 parents = none ∨ ∃ t, tblAt s.mem p4 parents = some t ∧ s.mem t li = 0#64) →
      ∀ huge sz flags,
      (unmap s p4 parents li huge sz).1 = .error .notMapped ∧ (unmap s p4 parents li huge sz).2.mem = s.mem ∧
      (updateFlags k' s p4 parents li huge flags).1 = .error .notMapped ∧
      (updateFlags k' s p4 parents li huge flags).2.mem = s.mem) ∧
    (∀ parents li, parents.length = 3 → IdxOK parents → li < 512 → (∀ r ∈ a, r.isPage parents li = false) →
      NotInHuge a parents → ∀ huge sz flags,
      (unmap s p4 parents li huge sz).1 = .error .notMapped ∧ (unmap s p4 parents li huge sz).2.mem = s.mem ∧
      (updateFlags k' s p4 parents li huge flags).1 = .error .notMapped ∧
      (updateFlags k' s p4 parents li huge flags).2.mem = s.mem) ∧
    (∀ parents li huge frame flags pflags, ParentFlagsOK pflags → parents.length ≤ 3 → IdxOK parents →
      NotInHuge a parents → ∀ (fs : List Word) (tail : List (Option Word)), s.allocs = fs.map some ++ tail →
      (∀ f ∈ fs, f &&& 0xfff0000000000fff#64 = 0#64) → fs.length < missingTables s.mem p4 parents →
      tail.headD none = none →
      (mapTo k' s p4 parents li huge frame flags pflags).1 = .ok (.error .allocFailed)) ∧
    (∀ parents li huge sz frame flags pflags, PageShape parents huge sz → IdxOK parents → li < 512 →
      ParentFlagsOK pflags → (if huge then LeafBitsHuge flags else LeafBits4K flags) → FrameOK sz frame →
      NotInHuge a parents → (∀ t, tblAt s.mem p4 parents = some t → s.mem t li = 0#64) →
      ∀ (fs : List Word) (rest : List (Option Word)), s.allocs = fs.map some ++ rest →
      (∀ f ∈ fs, f &&& 0xfff0000000000fff#64 = 0#64) → fs.length = missingTables s.mem p4 parents →
      (mapTo k' s p4 parents li huge frame flags pflags).1 = .ok (.ok ()))

/-- The outcome table holds in every state satisfying the invariant whose leaf slots are the records of `a`. -/
theorem outcomes_of_rel (k' : Kind) (s : St) (p4 : Word) (a : Abs) (hinv : Inv s.mem p4) (hrel : Rel p4 s.mem a) :
    Outcomes k' s p4 a := by
  refine ⟨?_, ?_, ?_, ?_, ?_, ?_⟩
  · intro r hr huge frame flags pflags hpf
    obtain ⟨_, h, _⟩ := map_to_already_mapped k' s p4 a hinv hrel r hr r.parents r.li
      ((PageRec.isPage_iff _ _ _).2 ⟨rfl, rfl⟩) huge frame flags pflags hpf
    rw [h]
  · intro r hr hh parents li hc huge sz frame flags pflags hpf
    rw [strictlyContains_iff] at hc
    obtain ⟨_, h, _⟩ := map_to_inside_huge k' s p4 a hinv hrel r hr hh parents li hc huge frame flags pflags hpf
    exact ⟨by rw [h], (unmap_inside_huge s p4 a hrel r hr hh parents li hc huge sz).1,
      (update_flags_inside_huge k' s p4 a hrel r hr hh parents li hc huge flags).1⟩
  · intro parents li hl hpi hnc hst huge sz flags
    exact not_mapped_outcome k' s p4 a hinv hrel parents li huge sz flags hl hpi hnc hst
  · intro parents li hl hpi hli hnr hnc huge sz flags
    exact not_mapped_4k k' s p4 a hinv hrel parents li huge sz flags hl hpi hli hnr hnc
  · intro parents li huge frame flags pflags hpf hl hpi hnc fs tail hal hfs hlen htail
    exact map_to_alloc_failed_abs k' s p4 a hinv hrel parents li huge frame flags pflags hpf hl hpi hnc fs tail hal hfs
      hlen htail
  · intro parents li huge sz frame flags pflags sh hpi hli hpf hfl hfr hnc hslot fs rest hal hfs hlen
    exact map_to_succeeds k' s p4 a hinv hrel parents li huge sz frame flags pflags sh hpi hli hpf hfl hfr hnc hslot fs
      rest hal hfs hlen

/-- **Along histories** (language of `C01HistoryFull`: mapper calls and clean-up calls, run with a mapper of any
kind `k`, from the empty level-4 table): in the memory `runHistory …` the history leaves behind, the abstract
state `expectedAbs …` folded from the call results dictates the outcome of the next call — of a mapper of ANY
kind `k'` — as in the outcome table. -/
theorem history_outcomes (k : Kind) (rIdx : Nat) (p4 : Word) (m0 : PMem) (hzero : ∀ i, m0 p4 i = 0#64)
    (ops : List C01HistoryFull.HOp) (hv : C01HistoryFull.HistoryValid k rIdx p4 m0 ops) (k' : Kind) (s : St)
    (hs : s.mem = C01HistoryFull.runHistory k rIdx p4 m0 ops) :
    Outcomes k' s p4 (C01HistoryFull.expectedAbs k rIdx p4 m0 [] ops) := by
  obtain ⟨hinv, hrel, _⟩ := C01HistoryFull.history_rel k rIdx p4 ops m0 [] (init_inv m0 p4 hzero)
    (Rel.init p4 m0 hzero) hv
  rw [← hs] at hinv hrel
  exact outcomes_of_rel k' s p4 _ hinv hrel

/-- The same in the language of `C01HistoryDormant` (mapper calls only). -/
theorem history_outcomes_calls (k : Kind) (p4 : Word) (m0 : PMem) (hzero : ∀ i, m0 p4 i = 0#64)
    (ops : List MOp) (hv : C01HistoryDormant.HistoryValid k p4 m0 ops) (k' : Kind) (s : St)
    (hs : s.mem = C01HistoryDormant.runHistory k p4 m0 ops) :
    Outcomes k' s p4 (C01HistoryDormant.expectedAbs k p4 m0 [] ops) := by
  obtain ⟨hinv, hrel⟩ := C01HistoryDormant.history_rel k p4 ops m0 [] (init_inv m0 p4 hzero) (Rel.init p4 m0 hzero) hv
  rw [← hs] at hinv hrel
  exact outcomes_of_rel k' s p4 _ hinv hrel

/-! ### Non-vacuity: the hypotheses are satisfiable

The state `mD` after the first three calls of `C01HistoryDormant.demoOps` (level-4 table at `0x1000`; tables
`0x2000`, `0x3000`, `0x4000` at the paths `[0]`, `[0,0]`, `[0,0,0]`): the 4 KiB page `[0,0,0]/5` and the 2 MiB
page `[0,0]/7` are recorded — both mapped `WRITABLE` without `PRESENT`. -/

def mD : PMem := C01HistoryDormant.runHistory ⟨false⟩ 0x1000#64 m0 (demoOps.take 3)
def rec2M : PageRec := ⟨[0, 0], 7, true, 2^21, 0x40000000#64, 2#64⟩
def rec4K : PageRec := ⟨[0, 0, 0], 5, false, 4096, 0x5000#64, 2#64⟩

set_option maxRecDepth 100000 in
theorem demoD : Inv mD 0x1000#64 ∧ Rel 0x1000#64 mD [rec2M, rec4K] := by
  have h := C01HistoryDormant.history_rel ⟨false⟩ 0x1000#64 (demoOps.take 3) m0 [] (init_inv m0 _ (fun _ => rfl))
    (Rel.init _ m0 (fun _ => rfl)) (demoOps_take_valid _)
  have ha : C01HistoryDormant.expectedAbs ⟨false⟩ 0x1000#64 m0 [] (demoOps.take 3) = [rec2M, rec4K] := by
    decide +kernel
  rw [ha] at h; exact h

theorem idx3 (a b c : Nat) (ha : a < 512) (hb : b < 512) (hc : c < 512) : IdxOK [a, b, c] := by
  intro j h; simp at h; omega

theorem demoD_notInHuge (p : List Nat) (h : ¬ [0, 0, 7] <+: p) : NotInHuge [rec2M, rec4K] p := by
  intro r hr hh hc
  simp only [List.mem_cons, List.not_mem_nil, or_false] at hr
  rcases hr with rfl | rfl
  · exact h hc
  · cases hh

set_option maxRecDepth 100000 in
/-- 1. `map_to` of the recorded (dormant) 4 KiB page and of the recorded (dormant) 2 MiB page: already mapped,
for every mapper kind and allocator -/
example (k : Kind) (allocs : List (Option Word)) :
    (mapTo k ⟨mD, allocs, []⟩ 0x1000#64 [0, 0, 0] 5 false 0x9000#64 3#64 3#64).1 = .ok (.error .alreadyMapped) ∧
    (mapTo k ⟨mD, allocs, []⟩ 0x1000#64 [0, 0] 7 true 0x80000000#64 3#64 3#64).1 = .ok (.error .alreadyMapped) := by
  obtain ⟨_, h1, _⟩ := map_to_already_mapped k ⟨mD, allocs, []⟩ 0x1000#64 _ demoD.1 demoD.2 rec4K
    (.tail _ (.head _)) [0, 0, 0] 5 (by decide) false 0x9000#64 3#64 3#64 ⟨by decide, by decide⟩
  obtain ⟨_, h2, _⟩ := map_to_already_mapped k ⟨mD, allocs, []⟩ 0x1000#64 _ demoD.1 demoD.2 rec2M
    (.head _) [0, 0] 7 (by decide) true 0x80000000#64 3#64 3#64 ⟨by decide, by decide⟩
  rw [h1, h2]; exact ⟨rfl, rfl⟩

set_option maxRecDepth 100000 in
/-- cross-check by evaluating the model -/
example : (match (mapTo ⟨true⟩ ⟨mD, [], []⟩ 0x1000#64 [0, 0, 0] 5 false 0x9000#64 3#64 3#64).1 with
    | .ok (.error .alreadyMapped) => true | _ => false) = true := by
  decide +kernel

set_option maxRecDepth 100000 in
/-- 2. the 4 KiB page `[0,0,7]/3` lies inside the recorded 2 MiB page `[0,0]/7` (mapped without `PRESENT`):
`ParentEntryHugePage` from `map_to`, `unmap`, `update_flags`, for every mapper kind -/
example (k : Kind) (allocs : List (Option Word)) :
    StrictlyContains rec2M [0, 0, 7] 3 ∧
    (mapTo k ⟨mD, allocs, []⟩ 0x1000#64 [0, 0, 7] 3 false 0x9000#64 3#64 3#64).1 = .ok (.error .parentHuge) ∧
    (unmap ⟨mD, [], []⟩ 0x1000#64 [0, 0, 7] 3 false 4096).1 = .error .parentHuge ∧
    (updateFlags k ⟨mD, [], []⟩ 0x1000#64 [0, 0, 7] 3 false 3#64).1 = .error .parentHuge := by
  have hc : rec2M.parents ++ [rec2M.li] <+: [0, 0, 7] := ⟨[], rfl⟩
  obtain ⟨_, h1, _⟩ := map_to_inside_huge k ⟨mD, allocs, []⟩ 0x1000#64 _ demoD.1 demoD.2 rec2M (.head _) rfl
    [0, 0, 7] 3 hc false 0x9000#64 3#64 3#64 ⟨by decide, by decide⟩
  refine ⟨(strictlyContains_iff _ _ _).2 hc, by rw [h1], ?_, ?_⟩
  · exact (unmap_inside_huge ⟨mD, [], []⟩ 0x1000#64 _ demoD.2 rec2M (.head _) rfl [0, 0, 7] 3 hc false 4096).1
  · exact (update_flags_inside_huge k ⟨mD, [], []⟩ 0x1000#64 _ demoD.2 rec2M (.head _) rfl [0, 0, 7] 3 hc false 3#64).1

set_option maxRecDepth 100000 in
/-- 3. not mapped: the page `[0,0,0]/6` (its table exists, the slot is zero) and the page `[0,1,0]/0` (its table
does not exist); neither lies in the 2 MiB page -/
example (k : Kind) :
    (unmap ⟨mD, [], []⟩ 0x1000#64 [0, 0, 0] 6 false 4096).1 = .error .notMapped ∧
    (updateFlags k ⟨mD, [], []⟩ 0x1000#64 [0, 0, 0] 6 false 3#64).1 = .error .notMapped ∧
    (unmap ⟨mD, [], []⟩ 0x1000#64 [0, 1, 0] 0 false 4096).1 = .error .notMapped ∧
    (updateFlags k ⟨mD, [], []⟩ 0x1000#64 [0, 1, 0] 0 false 3#64).1 = .error .notMapped := by
  have h1 := not_mapped_outcome k ⟨mD, [], []⟩ 0x1000#64 _ demoD.1 demoD.2 [0, 0, 0] 6 false 4096 3#64 (by simp)
    (idx3 0 0 0 (by omega) (by omega) (by omega)) (demoD_notInHuge _ (by decide))
    (Or.inr ⟨0x4000#64, by decide +kernel, by decide +kernel⟩)
  have h2 := not_mapped_outcome k ⟨mD, [], []⟩ 0x1000#64 _ demoD.1 demoD.2 [0, 1, 0] 0 false 4096 3#64 (by simp)
    (idx3 0 1 0 (by omega) (by omega) (by omega)) (demoD_notInHuge _ (by decide))
    (Or.inl (by decide +kernel))
  exact ⟨h1.1, h1.2.2.1, h2.1, h2.2.2.1⟩

set_option maxRecDepth 100000 in
/-- 3'. the same for `[0,0,0]/6` from the abstract state alone (`not_mapped_4k`): it is not recorded and no
recorded huge page contains it -/
example (k : Kind) : (unmap ⟨mD, [], []⟩ 0x1000#64 [0, 0, 0] 6 false 4096).1 = .error .notMapped ∧
    (updateFlags k ⟨mD, [], []⟩ 0x1000#64 [0, 0, 0] 6 false 3#64).1 = .error .notMapped := by
  have h := not_mapped_4k k ⟨mD, [], []⟩ 0x1000#64 _ demoD.1 demoD.2 [0, 0, 0] 6 false 4096 3#64 rfl
    (idx3 0 0 0 (by omega) (by omega) (by omega)) (by omega) (by decide) (demoD_notInHuge _ (by decide))
  exact ⟨h.1, h.2.2.1⟩

set_option maxRecDepth 100000 in
/-- 3''. a 2 MiB request on the slot `[0,0]/0`, which links the level-1 table `0x4000`: `ParentEntryHugePage`
from `unmap`/`update_flags`, `PageAlreadyMapped` from `map_to` -/
example (k : Kind) (allocs : List (Option Word)) :
    (unmap ⟨mD, [], []⟩ 0x1000#64 [0, 0] 0 true (2^21)).1 = .error .parentHuge ∧
    (updateFlags k ⟨mD, [], []⟩ 0x1000#64 [0, 0] 0 true 3#64).1 = .error .parentHuge ∧
    (mapTo k ⟨mD, allocs, []⟩ 0x1000#64 [0, 0] 0 true 0x80000000#64 3#64 3#64).1 = .ok (.error .alreadyMapped) := by
  have ht : tblAt mD 0x1000#64 [0, 0] = some 0x3000#64 := by decide +kernel
  have hl : tableOf (mD 0x3000#64 0) = some 0x4000#64 := by decide +kernel
  have hne : mD 0x3000#64 0 ≠ 0#64 := by decide +kernel
  have h := link_slot_outcome k ⟨mD, [], []⟩ 0x1000#64 [0, 0] 0 (2^21) 3#64 0x3000#64 0x4000#64 ht hl
  refine ⟨h.1, h.2.2.1, ?_⟩
  exact map_to_slot_used k ⟨mD, allocs, []⟩ 0x1000#64 demoD.1 [0, 0] 0 (by simp) (by intro j h; simp at h; omega)
    0x3000#64 ht hne true 0x80000000#64 3#64 3#64 ⟨by decide, by decide⟩

/-- 4. frame allocation failed, on the empty hierarchy: at the first request (`None`, or an exhausted allocator)
and at the second request (one frame, then `None`), whatever follows the `None` -/
example (k : Kind) (rest : List (Option Word)) :
    (mapTo k ⟨m0, [], []⟩ 0x1000#64 [0, 0, 0] 5 false 0x5000#64 3#64 3#64).1 = .ok (.error .allocFailed) ∧
    (mapTo k ⟨m0, none :: rest, []⟩ 0x1000#64 [0, 0, 0] 5 false 0x5000#64 3#64 3#64).1 = .ok (.error .allocFailed) ∧
    (mapTo k ⟨m0, some 0x2000#64 :: none :: rest, []⟩ 0x1000#64 [0, 0, 0] 5 false 0x5000#64 3#64 3#64).1 =
      .ok (.error .allocFailed) := by
  have hinv : Inv m0 0x1000#64 := init_inv m0 _ (fun _ => rfl)
  have hi := idx3 0 0 0 (by omega) (by omega) (by omega)
  refine ⟨?_, ?_, ?_⟩
  · exact map_to_alloc_failed k ⟨m0, [], []⟩ 0x1000#64 hinv [] 0 [0, 0] 5 false 0x5000#64 3#64 3#64
      ⟨by decide, by decide⟩ (by simp) hi 0x1000#64 rfl rfl [] [] rfl (by simp) (by simp) rfl
  · exact map_to_alloc_failed k ⟨m0, none :: rest, []⟩ 0x1000#64 hinv [] 0 [0, 0] 5 false 0x5000#64 3#64 3#64
      ⟨by decide, by decide⟩ (by simp) hi 0x1000#64 rfl rfl [] (none :: rest) rfl (by simp) (by simp) rfl
  · exact map_to_alloc_failed k ⟨m0, some 0x2000#64 :: none :: rest, []⟩ 0x1000#64 hinv [] 0 [0, 0] 5 false 0x5000#64
      3#64 3#64 ⟨by decide, by decide⟩ (by simp) hi 0x1000#64 rfl rfl [0x2000#64] (none :: rest) rfl
      (by intro f hf; simp at hf; subst hf; decide) (by simp) rfl

set_option maxRecDepth 100000 in
/-- 4'. …and in the state `mD`, from the abstract state: two tables are missing for the page `[0,1,0]/0`; one
frame and then an exhausted allocator: `FrameAllocationFailed`; 5. with two frames: success -/
example (k : Kind) :
    missingTables mD 0x1000#64 [0, 1, 0] = 2 ∧
    (mapTo k ⟨mD, [some 0x6000#64], []⟩ 0x1000#64 [0, 1, 0] 0 false 0x5000#64 3#64 3#64).1 = .ok (.error .allocFailed) ∧
    (mapTo k ⟨mD, [some 0x6000#64, some 0x7000#64], []⟩ 0x1000#64 [0, 1, 0] 0 false 0x5000#64 3#64 3#64).1 =
      .ok (.ok ()) := by
  have hm : missingTables mD 0x1000#64 [0, 1, 0] = 2 := by decide +kernel
  have hi := idx3 0 1 0 (by omega) (by omega) (by omega)
  have hnc := demoD_notInHuge [0, 1, 0] (by decide)
  have hfl : (if false = true then LeafBitsHuge 3#64 else LeafBits4K 3#64) := by
    simp only [Bool.false_eq_true, if_false]; unfold LeafBits4K; decide
  have hfr : FrameOK 4096 0x5000#64 := by unfold FrameOK; simp only [if_true]; decide
  refine ⟨hm, ?_, ?_⟩
  · exact map_to_alloc_failed_abs k ⟨mD, [some 0x6000#64], []⟩ 0x1000#64 _ demoD.1 demoD.2 [0, 1, 0] 0 false 0x5000#64
      3#64 3#64 ⟨by decide, by decide⟩ (by simp) hi hnc [0x6000#64] [] rfl
      (by intro f hf; simp at hf; subst hf; decide) (by rw [hm]; decide) rfl
  · exact map_to_succeeds k ⟨mD, [some 0x6000#64, some 0x7000#64], []⟩ 0x1000#64 _ demoD.1 demoD.2 [0, 1, 0] 0 false
      4096 0x5000#64 3#64 3#64 (.s4k 0 1 0) hi (by omega) ⟨by decide, by decide⟩ hfl hfr hnc
      (fun t ht => by rw [show tblAt mD 0x1000#64 [0, 1, 0] = none from by decide +kernel] at ht; cases ht)
      [0x6000#64, 0x7000#64] [] rfl
      (by intro f hf; simp at hf; rcases hf with rfl | rfl <;> decide) (by rw [hm]; rfl)

set_option maxRecDepth 100000 in
/-- 5'. success without any allocation: the neighbouring page `[0,0,0]/6` (no table is missing, the slot is zero),
whatever the allocator would answer -/
example (k : Kind) (allocs : List (Option Word)) :
    (mapTo k ⟨mD, allocs, []⟩ 0x1000#64 [0, 0, 0] 6 false 0x5000#64 3#64 3#64).1 = .ok (.ok ()) := by
  have hfl : (if false = true then LeafBitsHuge 3#64 else LeafBits4K 3#64) := by
    simp only [Bool.false_eq_true, if_false]; unfold LeafBits4K; decide
  have hfr : FrameOK 4096 0x5000#64 := by unfold FrameOK; simp only [if_true]; decide
  have ht : tblAt mD 0x1000#64 [0, 0, 0] = some 0x4000#64 := by decide +kernel
  have hz : mD 0x4000#64 6 = 0#64 := by decide +kernel
  have hm : ([] : List Word).length = missingTables mD 0x1000#64 [0, 0, 0] := by decide +kernel
  exact map_to_succeeds k ⟨mD, allocs, []⟩ 0x1000#64 _ demoD.1 demoD.2 [0, 0, 0] 6 false
    4096 0x5000#64 3#64 3#64 (.s4k 0 0 0) (idx3 0 0 0 (by omega) (by omega) (by omega)) (by omega)
    ⟨by decide, by decide⟩ hfl hfr (demoD_notInHuge _ (by decide))
    (fun t h => by rw [ht] at h; rw [← Option.some.inj h]; exact hz)
    [] allocs rfl (by simp) hm

/-- 6. along a history: after the five calls of `C01HistoryFull.demoOps` (map, unmap, clean-up, map, clean-up; run
with a `MappedPageTable`) the abstract state is `[recB]` (the page `[0,0,1]/7`); a mapper of ANY kind then
reports `PageAlreadyMapped` for that page, and `PageNotMapped` for the page `[0,0,0]/5` that was unmapped. -/
example (k' : Kind) (s : St)
    (hs : s.mem = C01HistoryFull.runHistory ⟨false⟩ 0 0x1000#64 m0 C01HistoryFull.demoOps)
    (huge : Bool) (sz : Nat) (frame flags : Word) :
    (mapTo k' s 0x1000#64 [0, 0, 1] 7 huge frame flags 3#64).1 = .ok (.error .alreadyMapped) ∧
    (unmap s 0x1000#64 [0, 0, 0] 5 huge sz).1 = .error .notMapped ∧
    (updateFlags k' s 0x1000#64 [0, 0, 0] 5 huge flags).1 = .error .notMapped := by
  have h := history_outcomes ⟨false⟩ 0 0x1000#64 m0 (fun _ => rfl) _ C01HistoryFull.demo_valid k' s hs
  rw [C01HistoryFull.demo_abs] at h
  obtain ⟨h1, _, _, h4, _⟩ := h
  have hn : NotInHuge [C01HistoryFull.recB] [0, 0, 0] := by
    intro r hr hh
    simp only [List.mem_cons, List.not_mem_nil, or_false] at hr
    subst hr; cases hh
  have h4' := h4 [0, 0, 0] 5 rfl (idx3 0 0 0 (by omega) (by omega) (by omega)) (by omega) (by decide) hn huge sz flags
  exact ⟨h1 C01HistoryFull.recB (.head _) huge frame flags 3#64 ⟨by decide, by decide⟩, h4'.1, h4'.2.2.1⟩

end X86.C02Outcome
