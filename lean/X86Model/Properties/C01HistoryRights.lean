/-
C01 — effective rights in the history theorem.

`Properties/C01HistoryFull.lean`: after any valid history of `map_to`/`unmap`/`update_flags`/`set_flags_pN_entry`/
clean-up calls from an empty level-4 table, the hardware walk maps every address as the fold of the call results
says (frame, size, offset, leaf flags). Here the abstract record of a page additionally carries two booleans —
*guaranteed parent rights* `prw`/`pus` — and the theorem gives lower bounds on the EFFECTIVE rights of the walk
(`Xlat.rw`/`Xlat.us`: the AND of the `R/W` resp. `U/S` bits of every entry the walk uses):

* a successful `map_to` records `prw := WRITABLE ∈ pflags`, `pus := USER_ACCESSIBLE ∈ pflags` for the requested
  parent flags `pflags`;
* a successful `set_flags_pN_entry(flags)` on an entry that lies on the page's path lowers them by conjunction:
  `prw := prw && WRITABLE ∈ flags`, `pus := pus && USER_ACCESSIBLE ∈ flags`;
* nothing else changes them (other pages' `map_to` calls only OR flags into existing parent entries; `unmap`,
  `update_flags` write leaf slots only; clean-up does not touch an entry on the path of a recorded page).

`history_rights_from_empty`: for every recorded page whose leaf flags contain `PRESENT` and every address `va`
of the page, the walk succeeds with the recorded frame/size/offset/leaf flags, and
`rw ⊇ prw ∧ WRITABLE ∈ leaf flags`, `us ⊇ pus ∧ USER_ACCESSIBLE ∈ leaf flags`.
-/
import X86Model.Properties.C01HistoryFull
import X86Model.Proofs.ParentRights

namespace X86.C01HistoryRights
open X86 X86.Spec X86.C01 X86.C01HistoryFull
open X86.C01HistoryDormant (PageRec Abs Rel absOk pageShape_unique)

/-! ### Abstract state with guaranteed parent rights -/

/-- A page record with the rights guaranteed on every parent entry of its path. -/
structure RRec where
  page : PageRec
  prw : Bool
  pus : Bool
  deriving DecidableEq, Repr

abbrev AbsR := List RRec

/-- Forget the rights. -/
def AbsR.abs (a : AbsR) : Abs := a.map (·.page)

/-- The abstract effect of a successful mapper call. On the page records it is `C01HistoryDormant.absOk`. -/
def absOkR (a : AbsR) : MOp → AbsR
  | .map parents li huge sz frame flags pflags _ =>
    if leafWord huge frame flags = 0#64 then a
    else ⟨⟨parents, li, huge, sz, frame, flags⟩, bitRW pflags, bitUS pflags⟩ :: a
  | .unmap parents li _ _ => a.filter (fun x => !x.page.isPage parents li)
  | .update parents li _ _ flags =>
    a.filterMap (fun x =>
      if x.page.isPage parents li then
        (if leafWord x.page.huge x.page.frame flags = 0#64 then none
         else some { x with page := { x.page with flags := flags } })
      else some x)
  | .setParent parents idx flags =>
    a.map (fun x =>
      if (parents ++ [idx]).isPrefixOf x.page.parents then
        { x with prw := x.prw && bitRW flags, pus := x.pus && bitUS flags }
      else x)

/-- The abstract effect of a call of the extended language, as a function of whether it succeeded. -/
def absStepR (a : AbsR) (ok : Bool) : HOp → AbsR
  | .call op => if ok then absOkR a op else a
  | .cleanUp => a
  | .cleanUpRange _ _ => a

theorem absOkR_abs (a : AbsR) (op : MOp) : (absOkR a op).abs = absOk a.abs op := by
  cases op with
  | map parents li huge sz frame flags pflags allocs =>
    simp only [absOkR, absOk, AbsR.abs]
    by_cases hz : leafWord huge frame flags = 0#64
    · rw [if_pos hz, if_pos hz]
    · rw [if_neg hz, if_neg hz]; rfl
  | unmap parents li huge sz =>
    simp only [absOkR, absOk, AbsR.abs]
    induction a with
    | nil => rfl
    | cons x a ih =>
      simp only [List.filter_cons, List.map_cons]
      by_cases h : x.page.isPage parents li = true
      · simp [h, ih]
      · simp [h, ih]
  | update parents li huge sz flags =>
    simp only [absOkR, absOk, AbsR.abs]
    induction a with
    | nil => rfl
    | cons x a ih =>
      simp only [List.filterMap_cons, List.map_cons]
      by_cases h : x.page.isPage parents li = true
      · by_cases hz : leafWord x.page.huge x.page.frame flags = 0#64
        · simp [h, hz, ih]
        · simp [h, hz, ih]
      · simp [h, ih]
  | setParent parents idx flags =>
    simp only [absOkR, absOk, AbsR.abs, List.map_map]
    apply List.map_congr_left
    intro x _
    simp only [Function.comp]
    split <;> rfl

theorem absStepR_abs (a : AbsR) (ok : Bool) (op : HOp) : (absStepR a ok op).abs = absStep a.abs ok op := by
  cases op with
  | call op =>
    simp only [absStepR, absStep, C01HistoryDormant.absStep]
    cases ok
    · rfl
    · simp only [if_true]; exact absOkR_abs a op
  | cleanUp => rfl
  | cleanUpRange rs re => rfl

/-- The abstract state (with rights) a history dictates. -/
def expectedAbsR (k : Kind) (rIdx : Nat) (p4 : Word) : PMem → AbsR → List HOp → AbsR
  | _, a, [] => a
  | m, a, op :: rest =>
    expectedAbsR k rIdx p4 (exec k rIdx p4 m op).2 (absStepR a (exec k rIdx p4 m op).1 op) rest

theorem expectedAbsR_abs (k : Kind) (rIdx : Nat) (p4 : Word) (ops : List HOp) :
    ∀ m a, (expectedAbsR k rIdx p4 m a ops).abs = expectedAbs k rIdx p4 m a.abs ops := by
  induction ops with
  | nil => intro m a; rfl
  | cons op rest ih =>
    intro m a
    simp only [expectedAbsR, expectedAbs]
    rw [ih, absStepR_abs]

/-! ### The invariant: the guaranteed rights are on every parent entry of the page's path -/

/-- Every parent entry on the path of a recorded page has the rights its record guarantees. -/
def Granted (p4 : Word) (m : PMem) (a : AbsR) : Prop :=
  ∀ x ∈ a, ∀ q j t, q ++ [j] <+: x.page.parents → tblAt m p4 q = some t →
    (x.prw = true → bitRW (m t j) = true) ∧ (x.pus = true → bitUS (m t j) = true)

theorem mem_abs {a : AbsR} {x : RRec} (h : x ∈ a) : x.page ∈ a.abs := List.mem_map.2 ⟨x, h, rfl⟩

/-- A memory change that keeps every link with its rights keeps the guarantees of recorded pages. -/
theorem Granted.mono {p4 : Word} {m m' : PMem} {a : AbsR} (hg : Granted p4 m a) (hrel : Rel p4 m a.abs)
    (h : LinkMono p4 m m') : Granted p4 m' a := by
  intro x hx q j t' hpre ht'
  obtain ⟨hok, g, hgt, _⟩ := hrel.slots x.page (mem_abs hx)
  obtain ⟨ht, b1, b2⟩ := h.path x.page.parents hok.shape.len_le.2 hok.idx g hgt q j t' hpre ht'
  obtain ⟨c1, c2⟩ := hg x hx q j t' hpre ht
  exact ⟨fun y => b1 (c1 y), fun y => b2 (c2 y)⟩

/-! ### `map_to` -/

/-- **`map_to`** (whatever its result) keeps every link of the hierarchy with its rights; on success every
parent entry on the page's path has the requested `WRITABLE`/`USER_ACCESSIBLE` parent flags. -/
theorem mapTo_rights (k : Kind) (s : St) (p4 : Word) (parents : List Nat) (li : Nat) (huge : Bool) (sz : Nat)
    (frame flags pflags : Word)
    (sh : PageShape parents huge sz) (hinv : Inv s.mem p4) (hpi : IdxOK parents)
    (hpf : ParentFlagsOK pflags) (hal : AllocsOK s.mem p4 s.allocs) :
    LinkMono p4 s.mem (mapTo k s p4 parents li huge frame flags pflags).2.mem ∧
    ((mapTo k s p4 parents li huge frame flags pflags).1 = .ok (.ok ()) →
      PathFlags (mapTo k s p4 parents li huge frame flags pflags).2.mem p4 parents pflags) := by
  obtain ⟨hl1, hl3⟩ := sh.len_le
  have hcp := createPath_ok k pflags p4 hpf parents [] p4 s hinv rfl (by simpa using hl3) (by simpa using hpi) hal
  obtain ⟨hmono, hpath⟩ := createPath_rights k pflags p4 hpf parents [] p4 s hinv rfl (by simpa using hl3)
    (by simpa using hpi) hal
  unfold mapTo
  cases hc : createPath k pflags s p4 parents with
  | mk res s1 =>
    rw [hc] at hcp hmono hpath
    cases res with
    | panic => exact hcp.elim
    | ok res' =>
      cases res' with
      | error e => cases e <;> exact ⟨hmono, fun h => by cases h⟩
      | ok tl =>
        obtain ⟨hs1, htl⟩ := hcp
        simp only [List.nil_append] at htl
        simp only [St.rd_fst]
        by_cases hu : Pte.isUnused (s1.mem tl li) = true
        · have hzero : s1.mem tl li = 0#64 := by simpa [Pte.isUnused] using hu
          simp only [hu, Bool.not_true, Bool.false_eq_true, if_false]
          by_cases ha : Pte.aligned4K frame = true
          · simp only [ha, Bool.not_true, Bool.false_eq_true, if_false, St.wr_mem, St.rd_mem]
            have hset : LinkMono p4 s1.mem (s1.mem.set tl li (Pte.mk frame (if huge = true then flags ||| Pte.HUGE else flags))) :=
              linkMono_set_leaf s1.mem p4 hs1.inv.wf parents tl li _ htl hl3 hpi
                (Or.inr (by rw [hzero]; exact tableOf_zero))
            exact ⟨hmono.trans hset, fun _ => PathFlags.mono hset parents hl3 hpi tl htl pflags (hpath tl rfl)⟩
          · have ha' : Pte.aligned4K frame = false := by simpa using ha
            simp only [ha', Bool.not_false, if_true, St.rd_mem]
            exact ⟨hmono, fun h => by cases h⟩
        · have hu' : Pte.isUnused (s1.mem tl li) = false := by simpa using hu
          simp only [hu', Bool.not_false, if_true, St.rd_mem]
          exact ⟨hmono, fun h => by cases h⟩

/-! ### One step -/

/-- Records may disappear, change their leaf flags, or have their guarantees lowered. -/
theorem Granted.weaken {p4 : Word} {m : PMem} {a a' : AbsR} (hg : Granted p4 m a)
    (h : ∀ x' ∈ a', ∃ x ∈ a, x.page.parents = x'.page.parents ∧ (x'.prw = true → x.prw = true) ∧
      (x'.pus = true → x.pus = true)) : Granted p4 m a' := by
  intro x' hx' q j t hpre ht
  obtain ⟨x, hx, e, i1, i2⟩ := h x' hx'
  obtain ⟨c1, c2⟩ := hg x hx q j t (e ▸ hpre) ht
  exact ⟨fun y => c1 (i1 y), fun y => c2 (i2 y)⟩

private theorem setFlags_rights (e fl : Word) :
    bitRW (Pte.setFlags e fl) = bitRW fl ∧ bitUS (Pte.setFlags e fl) = bitUS fl := by
  unfold bitRW bitUS Pte.setFlags Pte.addr Pte.ADDR_MASK
  unfold Word at *
  refine ⟨?_, ?_⟩ <;> bv_decide

private theorem parent_bits' (e fl : Word) (h1 : fl &&& 1#64 = 1#64) (h2 : fl &&& 0x80#64 = 0#64)
    (h3 : fl &&& 0x000ffffffffff000#64 = 0#64) :
    bitP (Pte.setFlags e fl) = true ∧ bitPS (Pte.setFlags e fl) = false ∧
    tableAddr (Pte.setFlags e fl) = tableAddr e := by
  unfold bitP bitPS tableAddr Pte.setFlags Pte.addr Pte.ADDR_MASK
  unfold Word at *
  refine ⟨?_, ?_, ?_⟩ <;> bv_decide

private theorem step_map (k : Kind) (p4 : Word) (m : PMem) (a : AbsR)
    (parents : List Nat) (li : Nat) (huge : Bool) (sz : Nat) (frame flags pflags : Word) (allocs : List (Option Word))
    (hinv : Inv m p4) (hrel : Rel p4 m a.abs) (hg : Granted p4 m a)
    (hv : C01HistoryDormant.ValidD p4 m (.map parents li huge sz frame flags pflags allocs)) :
    Granted p4 (C01HistoryDormant.exec k p4 m (.map parents li huge sz frame flags pflags allocs)).2
      (absStepR a (C01HistoryDormant.exec k p4 m (.map parents li huge sz frame flags pflags allocs)).1
        (.call (.map parents li huge sz frame flags pflags allocs))) := by
  obtain ⟨sh, hpi, hli, hpf, hfl, hfr, hal⟩ := hv
  obtain ⟨hmono, hpath⟩ := mapTo_rights k (⟨m, allocs, []⟩ : St) p4 parents li huge sz frame flags pflags sh hinv hpi hpf hal
  show Granted p4 (mapTo k (⟨m, allocs, []⟩ : St) p4 parents li huge frame flags pflags).2.mem
    (absStepR a (okMap (mapTo k (⟨m, allocs, []⟩ : St) p4 parents li huge frame flags pflags).1)
      (.call (.map parents li huge sz frame flags pflags allocs)))
  have hold : Granted p4 (mapTo k (⟨m, allocs, []⟩ : St) p4 parents li huge frame flags pflags).2.mem a :=
    hg.mono hrel hmono
  cases hr : (mapTo k (⟨m, allocs, []⟩ : St) p4 parents li huge frame flags pflags).1 with
  | panic => exact hold
  | ok res =>
    cases res with
    | error e => exact hold
    | ok u =>
      cases u
      simp only [absStepR, okMap, if_true, absOkR]
      by_cases hz : leafWord huge frame flags = 0#64
      · rw [if_pos hz]; exact hold
      · rw [if_neg hz]
        intro x hx
        rcases List.mem_cons.1 hx with rfl | hx
        · intro q j t hpre ht
          exact hpath hr q j t hpre ht
        · exact hold x hx

private theorem step_unmap (p4 : Word) (m : PMem) (a : AbsR)
    (parents : List Nat) (li : Nat) (huge : Bool) (sz : Nat)
    (hinv : Inv m p4) (hrel : Rel p4 m a.abs) (hg : Granted p4 m a) (sh : PageShape parents huge sz) (hpi : IdxOK parents) :
    Granted p4 (X86.unmap (⟨m, [], []⟩ : St) p4 parents li huge sz).2.mem
      (absStepR a (okExc (X86.unmap (⟨m, [], []⟩ : St) p4 parents li huge sz).1) (.call (.unmap parents li huge sz))) := by
  obtain ⟨hl1, hl3⟩ := sh.len_le
  have hm := unmap_mem (⟨m, [], []⟩ : St) p4 parents li huge sz
  cases h : (X86.unmap (⟨m, [], []⟩ : St) p4 parents li huge sz).1 with
  | error e =>
    rw [h] at hm
    simp only at hm
    rw [hm]
    exact hg
  | ok fr =>
    rw [h] at hm
    obtain ⟨t, ht, _, hhuge, _, hmem⟩ := hm
    simp only [absStepR, okExc, if_true, absOkR]
    rw [hmem]
    have hleaf : parents.length = 3 ∨ tableOf (m t li) = none := by
      cases sh with
      | s4k a b c => left; rfl
      | s2m a b => right; unfold tableOf; simp [(hhuge rfl).1]
      | s1g a => right; unfold tableOf; simp [(hhuge rfl).1]
    have hmono : LinkMono p4 m (m.set t li 0#64) := linkMono_set_leaf m p4 hinv.wf parents t li _ ht hl3 hpi hleaf
    apply (hg.mono hrel hmono).weaken
    intro x' hx'
    exact ⟨x', (List.mem_filter.1 hx').1, rfl, id, id⟩

private theorem step_update (k : Kind) (p4 : Word) (m : PMem) (a : AbsR)
    (parents : List Nat) (li : Nat) (huge : Bool) (sz : Nat) (flags : Word)
    (hinv : Inv m p4) (hrel : Rel p4 m a.abs) (hg : Granted p4 m a) (sh : PageShape parents huge sz) (hpi : IdxOK parents) :
    Granted p4 (updateFlags k (⟨m, [], []⟩ : St) p4 parents li huge flags).2.mem
      (absStepR a (okExc (updateFlags k (⟨m, [], []⟩ : St) p4 parents li huge flags).1)
        (.call (.update parents li huge sz flags))) := by
  obtain ⟨hl1, hl3⟩ := sh.len_le
  rw [updateFlags_kind k (⟨m, [], []⟩ : St) p4 parents li huge flags hinv hl3 hpi]
  have hm := updateFlags_mem (⟨m, [], []⟩ : St) p4 parents li huge flags
  cases h : (updateFlags ⟨false⟩ (⟨m, [], []⟩ : St) p4 parents li huge flags).1 with
  | error e =>
    rw [h] at hm
    simp only at hm
    rw [hm]
    exact hg
  | ok u =>
    cases u
    rw [h] at hm
    obtain ⟨t, ht, hused, hhuge, hmem⟩ := hm
    simp only [absStepR, okExc, if_true, absOkR]
    rw [hmem]
    simp only at ht hused hhuge ⊢
    have hleaf : parents.length = 3 ∨ tableOf (m t li) = none := by
      cases sh with
      | s4k a b c => left; rfl
      | s2m a b => right; unfold tableOf; simp [hhuge rfl]
      | s1g a => right; unfold tableOf; simp [hhuge rfl]
    have hmono := linkMono_set_leaf m p4 hinv.wf parents t li
      (if huge = true then Pte.mk (Pte.hugeAddr (m t li)) (flags ||| Pte.HUGE) else Pte.setFlags (m t li) flags)
      ht hl3 hpi hleaf
    apply (hg.mono hrel hmono).weaken
    intro x' hx'
    obtain ⟨x, hx, hfx⟩ := List.mem_filterMap.1 hx'
    refine ⟨x, hx, ?_⟩
    by_cases hk : x.page.isPage parents li = true
    · rw [if_pos hk] at hfx
      by_cases hz : leafWord x.page.huge x.page.frame flags = 0#64
      · rw [if_pos hz] at hfx; cases hfx
      · rw [if_neg hz] at hfx
        have := Option.some.inj hfx
        subst this
        exact ⟨rfl, id, id⟩
    · rw [if_neg hk] at hfx
      have := Option.some.inj hfx
      subst this
      exact ⟨rfl, id, id⟩

private theorem step_setParent (k : Kind) (p4 : Word) (m : PMem) (a : AbsR)
    (parents : List Nat) (idx : Nat) (flags : Word)
    (hinv : Inv m p4) (hrel : Rel p4 m a.abs) (hg : Granted p4 m a) (hlen : parents.length ≤ 2) (hpi : IdxOK parents)
    (hidx : idx < 512) (hfl : ParentFlags flags) :
    Granted p4 (setParentFlags k (⟨m, [], []⟩ : St) p4 parents idx flags).2.mem
      (absStepR a (okExc (setParentFlags k (⟨m, [], []⟩ : St) p4 parents idx flags).1)
        (.call (.setParent parents idx flags))) := by
  rw [setParentFlags_kind k (⟨m, [], []⟩ : St) p4 parents idx flags hinv (by omega) hpi]
  have hm := setParentFlags_mem (⟨m, [], []⟩ : St) p4 parents idx flags
  cases h : (setParentFlags ⟨false⟩ (⟨m, [], []⟩ : St) p4 parents idx flags).1 with
  | error e =>
    rw [h] at hm
    simp only at hm
    rw [hm]
    exact hg
  | ok u =>
    cases u
    rw [h] at hm
    obtain ⟨t, ht, hused, hnh, hmem⟩ := hm
    simp only [absStepR, okExc, if_true, absOkR]
    rw [hmem]
    simp only at ht hused hnh ⊢
    have hne : m t idx ≠ 0#64 := by
      intro h0; rw [h0] at hused; simp [Pte.isUnused] at hused
    have hS : bitPS (m t idx) = false := by
      cases hpe : parents with
      | nil =>
        rw [hpe] at ht; simp [tblAt] at ht; subst ht
        exact hinv.p4nh idx hidx
      | cons a l => exact hnh (by rw [hpe]; simp)
    have hP : bitP (m t idx) = true := hinv.present_of_not_huge parents t idx hlen hpi ht hidx hne hS
    obtain ⟨b1, b2, b3⟩ := parent_bits' (m t idx) flags hfl.1 hfl.2.1 hfl.2.2
    have hto : tableOf (Pte.setFlags (m t idx) flags) = tableOf (m t idx) := by
      rw [(tableOf_some_iff _ _).2 ⟨b1, b2, rfl⟩, (tableOf_some_iff _ _).2 ⟨hP, hS, rfl⟩, b3]
    obtain ⟨r1, r2⟩ := setFlags_rights (m t idx) flags
    intro x' hx' q j t' hpre ht'
    obtain ⟨x, hx, hfx⟩ := List.mem_map.1 hx'
    -- the record `x'` comes from `x`: same page, guarantees lowered iff the entry lies on its path
    have hpar : x'.page.parents = x.page.parents := by
      rw [← hfx]; split <;> rfl
    obtain ⟨hok, _⟩ := hrel.slots x.page (mem_abs hx)
    rw [hpar] at hpre
    have hlenq : (q ++ [j]).length ≤ x.page.parents.length := List.IsPrefix.length_le hpre
    have hql : q.length ≤ 2 := by have := hok.shape.len_le.2; simp at hlenq; omega
    have hqi : IdxOK q := by
      obtain ⟨rest, hrest⟩ := hpre
      have := hok.idx
      rw [← hrest] at this
      exact (IdxOK_append.1 (IdxOK_append.1 this).1).1
    rw [tblAt_set_eq_root m p4 hinv.wf parents t idx _ ht (by omega) hpi (Or.inr hto) q (by omega) hqi] at ht'
    obtain ⟨c1, c2⟩ := hg x hx q j t' hpre ht'
    by_cases he : t' = t ∧ j = idx
    · obtain ⟨e1, e2⟩ := he
      subst e1; subst e2
      have hqp : q = parents := hinv.wf q parents t' (by omega) (by omega) hqi hpi ht' ht
      subst hqp
      rw [PMem.set_same, r1, r2]
      have hpre' : (q ++ [j]).isPrefixOf x.page.parents = true := by simpa using hpre
      rw [← hfx, if_pos hpre']
      simp only [Bool.and_eq_true]
      exact ⟨fun y => y.2, fun y => y.2⟩
    · rw [PMem.set_other m t idx _ t' j he]
      have hi1 : x'.prw = true → x.prw = true := by
        rw [← hfx]; split
        · simp only [Bool.and_eq_true]; exact fun y => y.1
        · exact id
      have hi2 : x'.pus = true → x.pus = true := by
        rw [← hfx]; split
        · simp only [Bool.and_eq_true]; exact fun y => y.1
        · exact id
      exact ⟨fun y => c1 (hi1 y), fun y => c2 (hi2 y)⟩

/-- Clean-up does not touch an entry on the path of a recorded page. -/
theorem granted_cleanUpRange (k : Kind) (rIdx : Nat) (p4 : Word) (m : PMem) (a : AbsR) (rs re : Nat)
    (hinv : Inv m p4) (hrel : Rel p4 m a.abs) (hg : Granted p4 m a) :
    Granted p4 (exec k rIdx p4 m (.cleanUpRange rs re)).2 a := by
  have hrel' := (step_cleanUpRange k rIdx p4 m a.abs rs re hinv hrel).2
  obtain ⟨seg, h⟩ := C10.clean_up_range_post k rIdx (⟨m, [], []⟩ : St) p4 rs re hinv
  change Rel p4 (X86.cleanUpRange k rIdx (⟨m, [], []⟩ : St) p4 rs re).2.mem a.abs at hrel'
  show Granted p4 (X86.cleanUpRange k rIdx (⟨m, [], []⟩ : St) p4 rs re).2.mem a
  generalize (X86.cleanUpRange k rIdx (⟨m, [], []⟩ : St) p4 rs re).2 = s' at h hrel'
  intro x hx q j t' hpre ht'
  obtain ⟨hok, g, hgt, _⟩ := hrel'.slots x.page (mem_abs hx)
  have hlenq : (q ++ [j]).length ≤ x.page.parents.length := List.IsPrefix.length_le hpre
  have hql : q.length ≤ 2 := by have := hok.shape.len_le.2; simp at hlenq; omega
  have hqi : IdxOK q := by
    obtain ⟨rest, hrest⟩ := hpre
    have := hok.idx
    rw [← hrest] at this
    exact (IdxOK_append.1 (IdxOK_append.1 this).1).1
  have ht0 : tblAt m p4 q = some t' := h.tree q t' (by omega) hqi ht'
  -- the entry is a link afterwards, so it was not zeroed
  obtain ⟨t, c, ht, hc⟩ := prefix_link s'.mem p4 x.page.parents g hgt q j hpre
  rw [ht'] at ht
  have : t' = t := Option.some.inj ht
  subst this
  have hsame : s'.mem t' j = m t' j := by
    apply Classical.byContradiction
    intro hmod
    obtain ⟨hz, _⟩ := h.mem t' j hmod
    rw [hz, tableOf_zero] at hc; cases hc
  rw [hsame]
  exact hg x hx q j t' hpre ht0

/-- **One step**: the guarantees are kept (with the abstract state updated by the call's result). -/
theorem step_granted (k : Kind) (rIdx : Nat) (p4 : Word) (m : PMem) (a : AbsR) (op : HOp)
    (hinv : Inv m p4) (hrel : Rel p4 m a.abs) (hg : Granted p4 m a) (hv : Valid p4 m op) :
    Granted p4 (exec k rIdx p4 m op).2 (absStepR a (exec k rIdx p4 m op).1 op) := by
  cases op with
  | call op =>
    cases op with
    | map parents li huge sz frame flags pflags allocs =>
      exact step_map k p4 m a parents li huge sz frame flags pflags allocs hinv hrel hg hv
    | unmap parents li huge sz =>
      obtain ⟨sh, hpi⟩ := hv
      exact step_unmap p4 m a parents li huge sz hinv hrel hg sh hpi
    | update parents li huge sz flags =>
      obtain ⟨sh, hpi, hli, hfl⟩ := hv
      exact step_update k p4 m a parents li huge sz flags hinv hrel hg sh hpi
    | setParent parents idx flags =>
      obtain ⟨hlen, hpi, hidx, hfl⟩ := hv
      exact step_setParent k p4 m a parents idx flags hinv hrel hg hlen hpi hidx hfl
  | cleanUp =>
    rw [exec_cleanUp]
    exact granted_cleanUpRange k rIdx p4 m a _ _ hinv hrel hg
  | cleanUpRange rs re => exact granted_cleanUpRange k rIdx p4 m a rs re hinv hrel hg

/-! ### The effective rights follow from the guarantees -/

/-- What the walk does with the present entry in a page's slot, including the effective rights. -/
theorem entryStep_leaf_rights {parents : List Nat} {huge : Bool} {sz : Nat} (sh : PageShape parents huge sz)
    (m : PhysMem) (e : Word) (va : Nat) (rw us : Bool) (hh : huge = true → bitPS e = true) (hP : bitP e = true) :
    ∃ x : Xlat, entryStep m (4 - parents.length) e va rw us = some x ∧
      x.base = (entryFrame sz e).toNat ∧ x.size = sz ∧ x.off = va % sz ∧
      x.flags = (if huge then leafFlagsHuge e else leafFlags4K e) ∧
      x.rw = (rw && bitRW e) ∧ x.us = (us && bitUS e) := by
  cases sh with
  | s4k a b c =>
    refine ⟨leafXlat 1 e va rw us, ?_, ?_⟩
    · unfold entryStep; simp [hP]
    · simp [leafXlat, entryFrame]
  | s2m a b =>
    have hS := hh rfl
    refine ⟨leafXlat 2 e va rw us, ?_, ?_⟩
    · unfold entryStep; simp [hP, hS]
    · simp [leafXlat, entryFrame]
  | s1g a =>
    have hS := hh rfl
    refine ⟨leafXlat 3 e va rw us, ?_, ?_⟩
    · unfold entryStep; simp [hP, hS]
    · simp [leafXlat, entryFrame]

private theorem leaf4k_rights (frame fl : Word) (hf : frame &&& 0xfff0000000000fff#64 = 0#64) :
    bitRW (Pte.mk frame fl) = bitRW fl ∧ bitUS (Pte.mk frame fl) = bitUS fl := by
  unfold bitRW bitUS Pte.mk
  unfold Word at *
  refine ⟨?_, ?_⟩ <;> bv_decide

private theorem leafHuge_rights (frame fl : Word) (hf : frame &&& 0xfff00000001fffff#64 = 0#64) :
    bitRW (Pte.mk frame (fl ||| 0x80#64)) = bitRW fl ∧ bitUS (Pte.mk frame (fl ||| 0x80#64)) = bitUS fl := by
  unfold bitRW bitUS Pte.mk
  unfold Word at *
  refine ⟨?_, ?_⟩ <;> bv_decide

/-- The `R/W` and `U/S` bits of a page's raw word are those of its leaf flags. -/
theorem leafWord_rights {parents : List Nat} {huge : Bool} {sz : Nat} (sh : PageShape parents huge sz)
    (frame flags : Word) (hfr : FrameOK sz frame) :
    bitRW (leafWord huge frame flags) = bitRW flags ∧ bitUS (leafWord huge frame flags) = bitUS flags := by
  cases sh with
  | s4k a b c =>
    have hfr' : frame &&& 0xfff0000000000fff#64 = 0#64 := by simpa [FrameOK] using hfr
    exact leaf4k_rights frame flags hfr'
  | s2m a b =>
    have hfr' : frame &&& 0xfff00000001fffff#64 = 0#64 := by simpa [FrameOK] using hfr
    exact leafHuge_rights frame flags hfr'
  | s1g a =>
    have hfr' : frame &&& 0xfff000003fffffff#64 = 0#64 := by simpa [FrameOK] using hfr
    exact leafHuge_rights frame flags (frame1G_2M frame hfr')

/-- **Effective rights of a recorded, present page**: every address of the page translates to the recorded
frame with the recorded leaf flags, and the effective `R/W` (`U/S`) right of the walk holds whenever the record
guarantees it on the parent entries and the leaf flags contain it. -/
theorem rights_of_granted {p4 : Word} {m : PMem} {a : AbsR} (hrel : Rel p4 m a.abs)
    (hg : Granted p4 m a) (x : RRec) (hx : x ∈ a) (hp : x.page.flags &&& 1#64 = 1#64)
    (va : Nat) (hc : x.page.covers va = true) :
    ∃ X : Xlat, walk m p4 va = some X ∧
      X.base = x.page.frame.toNat ∧ X.size = x.page.sz ∧ X.off = va % x.page.sz ∧
      X.flags = leafFlagsOf x.page.huge x.page.flags ∧
      (x.prw = true → bitRW x.page.flags = true → X.rw = true) ∧
      (x.pus = true → bitUS x.page.flags = true → X.us = true) := by
  rw [PageRec.covers_iff] at hc
  obtain ⟨hok, g, hgt, hw, hne, _⟩ := hrel.slots x.page (mem_abs hx)
  obtain ⟨_, hl3⟩ := hok.shape.len_le
  obtain ⟨_, _, w3, w4, w5, w6, _, _⟩ := leafWord_facts hok.shape x.page.frame x.page.flags hok.flags hok.frame
  obtain ⟨lr1, lr2⟩ := leafWord_rights hok.shape x.page.frame x.page.flags hok.frame
  have hwalk := walk_reach_rights m p4 g x.page.li va x.page.parents hgt hl3 hc
  have hw' : m g x.page.li = leafWord x.page.huge x.page.frame x.page.flags := hw
  have hP : bitP (m g x.page.li) = true := by rw [hw', w3]; exact bitP_of_present _ hp
  obtain ⟨X, hX, xb, xs, xo, xf, xrw, xus⟩ := entryStep_leaf_rights hok.shape m (m g x.page.li) va
    (accRights m p4 x.page.parents true true).1 (accRights m p4 x.page.parents true true).2
    (by rw [hw']; exact w4) hP
  obtain ⟨a1, a2⟩ := accRights_of_all m x.page.parents p4 true true x.prw x.pus (hg x hx)
  refine ⟨X, by rw [hwalk, hX], ?_, xs, xo, ?_, ?_, ?_⟩
  · rw [xb, hw', w5]
  · rw [xf, hw', w6]
  · intro h1 h2
    rw [xrw, a1 h1 rfl, hw', lr1, h2]; rfl
  · intro h1 h2
    rw [xus, a2 h1 rfl, hw', lr2, h2]; rfl

/-! ### The history theorem with effective rights -/

/-- The invariant, the correspondence and the guarantees are kept along any valid history. -/
theorem history_granted (k : Kind) (rIdx : Nat) (p4 : Word) (ops : List HOp) :
    ∀ (m : PMem) (a : AbsR), Inv m p4 → Rel p4 m a.abs → Granted p4 m a → HistoryValid k rIdx p4 m ops →
      Inv (runHistory k rIdx p4 m ops) p4 ∧
      Rel p4 (runHistory k rIdx p4 m ops) (expectedAbsR k rIdx p4 m a ops).abs ∧
      Granted p4 (runHistory k rIdx p4 m ops) (expectedAbsR k rIdx p4 m a ops) := by
  induction ops with
  | nil => intro m a hinv hrel hg _; exact ⟨hinv, hrel, hg⟩
  | cons op rest ih =>
    intro m a hinv hrel hg ⟨hv, hrest⟩
    obtain ⟨hi', hr'⟩ := step_ok k rIdx p4 m a.abs op hinv hrel hv
    have hg' := step_granted k rIdx p4 m a op hinv hrel hg hv
    rw [← absStepR_abs] at hr'
    exact ih _ _ hi' hr' hg' hrest

/-- **History theorem with effective rights** (no bound on the length of the history; all page sizes; any mapper
kind; leaf flags with or without `PRESENT`; clean-up calls): from the empty level-4 table, after any valid
history,
* the record list of the abstract state with rights is the abstract state of `history_full_from_empty`
  (so everything that theorem says holds for it), and
* for every recorded page whose leaf flags contain `PRESENT` and every address `va` of the page, the hardware
  walk translates `va` to the recorded frame (size, offset, leaf flags), **and its effective `R/W` right holds if
  `WRITABLE` was among the parent flags requested by the page's `map_to` call, no later successful
  `set_flags_pN_entry` call on an entry of the page's path left it out, and the page's current leaf flags contain
  it — likewise `U/S` with `USER_ACCESSIBLE`**. -/
theorem history_rights_from_empty (k : Kind) (rIdx : Nat) (p4 : Word) (m : PMem) (hzero : ∀ i, m p4 i = 0#64)
    (ops : List HOp) (hv : HistoryValid k rIdx p4 m ops) :
    (expectedAbsR k rIdx p4 m [] ops).abs = expectedAbs k rIdx p4 m [] ops ∧
    ∀ x ∈ expectedAbsR k rIdx p4 m [] ops, x.page.flags &&& 1#64 = 1#64 → ∀ va, x.page.covers va = true →
      ∃ X : Xlat, walk (runHistory k rIdx p4 m ops) p4 va = some X ∧
        X.base = x.page.frame.toNat ∧ X.size = x.page.sz ∧ X.off = va % x.page.sz ∧
        X.flags = leafFlagsOf x.page.huge x.page.flags ∧
        (x.prw = true → bitRW x.page.flags = true → X.rw = true) ∧
        (x.pus = true → bitUS x.page.flags = true → X.us = true) := by
  obtain ⟨_, hr, hg⟩ := history_granted k rIdx p4 ops m [] (init_inv m p4 hzero)
    (C01HistoryDormant.Rel.init p4 m hzero) (fun x hx => by cases hx) hv
  exact ⟨expectedAbsR_abs k rIdx p4 ops m [], fun x hx hp va hc => rights_of_granted hr hg x hx hp va hc⟩

/-! ### Non-vacuity: a concrete history

From the empty hierarchy (level-4 table at `0x1000`, all memory zero):
1. `map_to` of the 4 KiB page `[0,0,0]/5` (`0x5000`) to frame `0x5000`, leaf flags and parent flags
   `PRESENT | WRITABLE | USER_ACCESSIBLE` — guaranteed parent rights: writable and user;
2. `map_to` of the neighbouring page `[0,0,0]/6` (`0x6000`) to frame `0x6000` with leaf flags `PRESENT | WRITABLE |
   USER_ACCESSIBLE` but parent flags `PRESENT | WRITABLE` only — guaranteed: writable (the parent entries happen to be
   user-accessible because of call 1, but this call did not ask for it);
3. `set_flags_p2_entry(PRESENT | WRITABLE)` on the level-2 entry both pages hang under — `USER_ACCESSIBLE` is no
   longer guaranteed for the first page;
4. `clean_up()` — changes nothing. -/

def demoR : List HOp :=
  [ .call (.map [0, 0, 0] 5 false 4096 0x5000#64 7#64 7#64 [some 0x2000#64, some 0x3000#64, some 0x4000#64]),
    .call (.map [0, 0, 0] 6 false 4096 0x6000#64 7#64 3#64 []),
    .call (.setParent [0, 0] 0 3#64),
    .cleanUp ]

theorem demoR_valid (k : Kind) (rIdx : Nat) : HistoryValid k rIdx 0x1000#64 C01HistoryDormant.m0 demoR := by
  have hi3 : IdxOK [0, 0, 0] := by intro j h; simp at h; omega
  have hi2 : IdxOK [0, 0] := by intro j h; simp at h; omega
  refine ⟨⟨.s4k 0 0 0, hi3, by omega, ⟨by decide, by decide⟩, ?_, ?_, C09.demo3_allocsOK⟩,
    ⟨.s4k 0 0 0, hi3, by omega, ⟨by decide, by decide⟩, ?_, ?_, trivial⟩,
    ⟨by simp, hi2, by omega, by decide, by decide, by decide⟩, trivial, trivial⟩
  · simp only [Bool.false_eq_true, if_false]; unfold LeafBits4K; decide
  · unfold FrameOK; simp only [if_true]; decide
  · simp only [Bool.false_eq_true, if_false]; unfold LeafBits4K; decide
  · unfold FrameOK; simp only [if_true]; decide

theorem demoR_take2_valid (k : Kind) (rIdx : Nat) : HistoryValid k rIdx 0x1000#64 C01HistoryDormant.m0 (demoR.take 2) := by
  obtain ⟨h1, h2, _⟩ := demoR_valid k rIdx
  exact ⟨h1, h2, trivial⟩

set_option maxRecDepth 100000 in
/-- the abstract state with rights after calls 1–2, and after the whole history -/
theorem demoR_abs :
    expectedAbsR ⟨false⟩ 0 0x1000#64 C01HistoryDormant.m0 [] (demoR.take 2) =
      [⟨⟨[0, 0, 0], 6, false, 4096, 0x6000#64, 7#64⟩, true, false⟩,
       ⟨⟨[0, 0, 0], 5, false, 4096, 0x5000#64, 7#64⟩, true, true⟩] ∧
    expectedAbsR ⟨false⟩ 0 0x1000#64 C01HistoryDormant.m0 [] demoR =
      [⟨⟨[0, 0, 0], 6, false, 4096, 0x6000#64, 7#64⟩, true, false⟩,
       ⟨⟨[0, 0, 0], 5, false, 4096, 0x5000#64, 7#64⟩, true, false⟩] := by
  decide +kernel

/-- **after calls 1–2** the theorem says: `0x5123` translates to `0x5000 + 0x123` and is writable and
user-accessible; `0x6123` translates to `0x6000 + 0x123` and is writable -/
example :
    (∃ X, walk (runHistory ⟨false⟩ 0 0x1000#64 C01HistoryDormant.m0 (demoR.take 2)) 0x1000#64 0x5123 = some X ∧
      X.base = 0x5000 ∧ X.off = 0x123 ∧ X.rw = true ∧ X.us = true) ∧
    (∃ X, walk (runHistory ⟨false⟩ 0 0x1000#64 C01HistoryDormant.m0 (demoR.take 2)) 0x1000#64 0x6123 = some X ∧
      X.base = 0x6000 ∧ X.off = 0x123 ∧ X.rw = true) := by
  obtain ⟨_, h⟩ := history_rights_from_empty ⟨false⟩ 0 0x1000#64 C01HistoryDormant.m0 (fun _ => rfl) _
    (demoR_take2_valid _ _)
  rw [demoR_abs.1] at h
  obtain ⟨X, hX, xb, _, xo, _, xrw, xus⟩ := h ⟨⟨[0, 0, 0], 5, false, 4096, 0x5000#64, 7#64⟩, true, true⟩ (by simp)
    (by decide) 0x5123 (by decide)
  obtain ⟨Y, hY, yb, _, yo, _, yrw, _⟩ := h ⟨⟨[0, 0, 0], 6, false, 4096, 0x6000#64, 7#64⟩, true, false⟩ (by simp)
    (by decide) 0x6123 (by decide)
  exact ⟨⟨X, hX, xb, xo, xrw rfl (by decide), xus rfl (by decide)⟩, ⟨Y, hY, yb, yo, yrw rfl (by decide)⟩⟩

/-- **after the whole history** (parent-flag call and clean-up included) both pages are still writable -/
example :
    (∃ X, walk (runHistory ⟨false⟩ 0 0x1000#64 C01HistoryDormant.m0 demoR) 0x1000#64 0x5123 = some X ∧
      X.base = 0x5000 ∧ X.off = 0x123 ∧ X.rw = true) ∧
    (∃ X, walk (runHistory ⟨false⟩ 0 0x1000#64 C01HistoryDormant.m0 demoR) 0x1000#64 0x6123 = some X ∧
      X.base = 0x6000 ∧ X.off = 0x123 ∧ X.rw = true) := by
  obtain ⟨_, h⟩ := history_rights_from_empty ⟨false⟩ 0 0x1000#64 C01HistoryDormant.m0 (fun _ => rfl) _ (demoR_valid _ _)
  rw [demoR_abs.2] at h
  obtain ⟨X, hX, xb, _, xo, _, xrw, _⟩ := h ⟨⟨[0, 0, 0], 5, false, 4096, 0x5000#64, 7#64⟩, true, false⟩ (by simp)
    (by decide) 0x5123 (by decide)
  obtain ⟨Y, hY, yb, _, yo, _, yrw, _⟩ := h ⟨⟨[0, 0, 0], 6, false, 4096, 0x6000#64, 7#64⟩, true, false⟩ (by simp)
    (by decide) 0x6123 (by decide)
  exact ⟨⟨X, hX, xb, xo, xrw rfl (by decide)⟩, ⟨Y, hY, yb, yo, yrw rfl (by decide)⟩⟩

set_option maxRecDepth 100000 in
/-- cross-check by evaluating the model and the walk directly (after calls 1–3): the level-2 entry has lost
`USER_ACCESSIBLE`, so the effective `U/S` right is indeed gone, `R/W` is there -/
example : (walk (runHistory ⟨false⟩ 0 0x1000#64 C01HistoryDormant.m0 (demoR.take 3)) 0x1000#64 0x5123).map
      (fun X => (X.base, X.rw, X.us)) = some (0x5000, true, false) ∧
    (walk (runHistory ⟨false⟩ 0 0x1000#64 C01HistoryDormant.m0 (demoR.take 2)) 0x1000#64 0x5123).map
      (fun X => (X.base, X.rw, X.us)) = some (0x5000, true, true) := by
  decide +kernel

end X86.C01HistoryRights
