/-
C11 (flush half) — flushes invalidate exactly what they are asked to.

`tlb::flush`, `tlb::flush_all`, `MapperFlush::flush`, `MapperFlushAll::flush_all`, `tlb::flush_pcid`
and the `Invlpgb` broadcast builder, for every address / page / CR3 content / PCID / kind, and for
every page range (4 KiB and 2 MiB pages, including ranges that end at or cross the non-canonical
gap or reach the last page) x every processor maximum x every option combination.
The token half of the property (mapper operations return a token naming the argument page) is
stated over the mapper model and lives with C01.
-/
import X86Model.Proofs.Tlb
import X86Model.Proofs.Regs
import X86Model.Properties.C16
import X86Model.Spec.AsmOptions

namespace X86.C11
open X86 X86.Spec X86.Tlb X86.Regs X86.Consts

/-! #### `tlb::flush`, `MapperFlush::flush` -/

/-- `tlb::flush(addr)` executes exactly one `invlpg` whose operand is `addr`; no register changes. -/
theorem flush_trace (addr : BitVec 64) (c : Cpu) :
    Tlb.flush addr c = ⟨.ok (), c, [.invlpg addr], []⟩ := rfl

/-- `MapperFlush::new(page).flush()` executes exactly one `invlpg` of the page's start address. -/
theorem mapper_flush_trace (page : BitVec 64) (c : Cpu) :
    Tlb.mapperFlush page c = ⟨.ok (), c, [.invlpg page], []⟩ := rfl

/-! #### `tlb::flush_all`, `MapperFlushAll::flush_all` -/

/-- `flush_all` reads CR3 and writes back `frame | PWT | PCD` of what it read. -/
theorem flush_all_trace (c : Cpu) :
    Tlb.flushAll c =
      ⟨.ok (), { c with cr3 := c.cr3 &&& (0x000ffffffffff000#64 ||| CR3_ALL) },
       [.movFromCr 3, .movToCr 3 (c.cr3 &&& (0x000ffffffffff000#64 ||| CR3_ALL))], []⟩ := by
  unfold Tlb.flushAll
  rw [M.bind_ok _ _ c _ _ _ _ (C16.cr3_read c)]
  dsimp only
  have hf : frameValid (cr3Frame c.cr3) = true := by
    simp only [frameValid, cr3Frame, beq_iff_eq]; bv_decide
  obtain ⟨w1, w2⟩ := C16.cr3_write (cr3Frame c.cr3) (typedRead CR3_ALL c.cr3) c hf
  have hw := Ran.eta (Cr3.write (cr3Frame c.cr3) (typedRead CR3_ALL c.cr3) c)
  rw [w1, w2] at hw
  have hres : (Cr3.write (cr3Frame c.cr3) (typedRead CR3_ALL c.cr3) c).res = .ok () := rfl
  have hm : (Cr3.write (cr3Frame c.cr3) (typedRead CR3_ALL c.cr3) c).marks = [] := rfl
  rw [hres, hm] at hw
  rw [hw]
  have hv : cr3Frame c.cr3 ||| (typedRead CR3_ALL c.cr3 &&& 0xffff#64)
      = c.cr3 &&& (0x000ffffffffff000#64 ||| CR3_ALL) := by
    simp only [cr3Frame, typedRead, CR3_ALL]; bv_decide
  simp only [hv, List.singleton_append, List.append_nil]

/-- On the non-PCID interface (CR3 = frame + PWT/PCD, all other bits zero — what `Cr3::write`
produces) the reload writes the register's *current value* and changes nothing. With a PCID in
bits 0–11 the reload would clear PCID bits other than 3 and 4 (`Cr3Flags` is documented as
unused when PCIDs are enabled): recorded as an observation. -/
theorem flush_all_current_value (c : Cpu)
    (h : c.cr3 &&& ~~~(0x000ffffffffff000#64 ||| CR3_ALL) = 0#64) :
    Tlb.flushAll c = ⟨.ok (), c, [.movFromCr 3, .movToCr 3 c.cr3], []⟩ := by
  rw [flush_all_trace]
  have hv : c.cr3 &&& (0x000ffffffffff000#64 ||| CR3_ALL) = c.cr3 := by
    simp only [CR3_ALL] at *; bv_decide
  rw [hv]

theorem mapper_flush_all_eq : Tlb.mapperFlushAll = Tlb.flushAll := rfl

/-! #### `tlb::flush_pcid` -/

/-- The descriptor holds the PCID in its first quadword (byte 0) and the address in its second
(byte 8); the register operand is 0/1/2/3 for the four commands. -/
theorem flush_pcid_desc (cmd : InvPcidCommand) (c : Cpu) :
    Tlb.flushPcid cmd c = ⟨.ok (), c,
      [match cmd with
       | .address addr pcid => .invpcid 0#64 (pcid.zeroExtend 64) addr
       | .single pcid => .invpcid 1#64 (pcid.zeroExtend 64) 0#64
       | .all => .invpcid 2#64 0#64 0#64
       | .allExceptGlobal => .invpcid 3#64 0#64 0#64], []⟩ := by
  cases cmd <;> rfl

/-- … which is what the instruction reference prescribes (`invpcidOk`), for every PCID below 4096. -/
theorem flush_pcid_meets_spec (addr : BitVec 64) (pcid : BitVec 16) (h : pcid.toNat < 4096) :
    invpcidOk 0 addr.toNat pcid.toNat 0 (pcid.zeroExtend 64 : BitVec 64).toNat addr.toNat = true ∧
    invpcidOk 1 0 pcid.toNat 1 (pcid.zeroExtend 64 : BitVec 64).toNat 0 = true ∧
    invpcidOk 2 0 0 2 0 0 = true ∧ invpcidOk 3 0 0 3 0 0 = true := by
  have hz : (pcid.zeroExtend 64 : BitVec 64).toNat = pcid.toNat := by
    simp only [BitVec.zeroExtend_eq_setWidth, BitVec.toNat_setWidth]; omega
  refine ⟨?_, ?_, by decide, by decide⟩ <;>
    simp [invpcidOk, hz, h]


/-! #### The broadcast builder -/

/-- `flush_broadcast`'s register encoding is the APM layout: RAX bit 0 + VA[63:12], bits 1–5 =
PCID-valid / ASID-valid / global / final / nested, ECX[15:0] = count, ECX[31] = 2 MiB flag,
EDX[15:0] = ASID, EDX[27:16] = PCID, reserved positions zero — for every page, count, PCID, ASID,
option combination and both page sizes (`decodeInvlpgb` is the manual's field extraction). -/
theorem invlpgb_encoding (sz va count : Nat) (pcid asid : Option Nat) (g f n : Bool)
    (hsz : notGiant sz) (hva : canon va) (hal : va % sz = 0) (hc : count < 65536)
    (hp : ∀ p, pcid = some p → p < 4096) (ha : ∀ a, asid = some a → a < 65536) :
    decodeInvlpgb (encReq sz pcid asid g f n (va, count)).1 (encReq sz pcid asid g f n (va, count)).2.1
        (encReq sz pcid asid g f n (va, count)).2.2 =
      { vaValid := true, pcidValid := pcid.isSome, asidValid := asid.isSome, global := g,
        finalOnly := f, nested := n, va := va, count := count, size2M := sz == size2M,
        asid := asid.getD 0, pcid := pcid.getD 0 } := by
  have hva4 : va % 4096 = 0 := by rcases hsz with h | h <;> subst h <;> omega
  have hva64 : va < 2^64 := by unfold canon at hva; omega
  have hpp : pcid.getD 0 < 4096 := by
    cases pcid with
    | none => decide
    | some p => exact hp p rfl
  have haa : asid.getD 0 < 65536 := by
    cases asid with
    | none => decide
    | some a => exact ha a rfl
  simp only [encReq, broadcastRegs_closed sz va count pcid asid g f n hsz hva4 hc hp ha]
  exact (decode_closed va count (pcid.getD 0) (asid.getD 0) pcid.isSome asid.isSome g f n (sz == size2M)
    hva4 hva64 hc hpp haa).1

/-- The chunking loop, for every range of valid pages (any relation between start and end), every
processor maximum and every option combination:
* it terminates normally — `status = done`: no `unwrap` on `None`, every iteration makes progress;
* the requests it issues satisfy the specification `invlpgbRangeOk`: they tile the range in order
  (first request at `start`, each next one where the previous extent of `max(count,1)` pages ends,
  stepping over the non-canonical gap, the last extent ending at `end`), each count is at most
  `min(count_max, 65535)`, a request starting in the lower half never extends past 2^47, and every
  request carries the requested PCID/ASID/option bits and page-size flag. -/
theorem invlpgb_loop_meets_spec (sz cm : Nat) (pcid asid : Option Nat) (g f n : Bool)
    (hsz : notGiant sz) (hp : ∀ p, pcid = some p → p < 4096) (ha : ∀ a, asid = some a → a < 65536) :
    ∀ (k s e : Nat), remaining sz s e ≤ k → canon s → s % sz = 0 → canon e → e % sz = 0 →
      (flushLoop sz cm e s).status = .done ∧
      invlpgbRangeOk sz s e cm (optsOf pcid asid g f n)
        ((flushLoop sz cm e s).reqs.map (encReq sz pcid asid g f n)) = true := by
  intro k
  induction k with
  | zero =>
    intro s e hk hs hsa he hea
    by_cases hlt : s < e
    · obtain ⟨next, _, hdec, _⟩ := flushLoop_step sz cm s e hsz hs hsa he hea hlt
      omega
    · have hge : s ≥ e := by omega
      rw [flushLoop]
      simp only [hge, if_true, List.map_nil, invlpgbRangeOk, decide_true, and_self]
  | succ k ih =>
    intro s e hk hs hsa he hea
    by_cases hlt : s < e
    · obtain ⟨next, hrun, hdec, hcn, hna, hsp, hrk, hcnt, hgap⟩ := flushLoop_step sz cm s e hsz hs hsa he hea hlt
      obtain ⟨ih1, ih2⟩ := ih next e (by omega) hcn hna he hea
      have hc : chunkCount sz cm s e < 65536 := by omega
      have hq := head_ok sz s (chunkCount sz cm s e) pcid asid g f n hsz hs hsa hc hp ha
      rw [hrun]
      refine ⟨ih1, ?_⟩
      simp only [List.map_cons]
      generalize encReq sz pcid asid g f n (s, chunkCount sz cm s e) = q at hq ⊢
      obtain ⟨rax, ecx, edx⟩ := q
      obtain ⟨q1, q2, q3, q4, q5⟩ := hq
      simp only at q1 q2 q3 q4 q5
      simp only [invlpgbRangeOk, q1, q2, q3, q4, q5, hsp, ih2, hlt, hrk, hcnt, decide_true, beq_self_eq_true,
        Bool.and_true, Bool.true_and, reqExtent, Bool.or_eq_true, decide_eq_true_eq]
      by_cases hlow : s < 2^47
      · exact Or.inr (hgap hlow)
      · exact Or.inl (by omega)
    · have hge : s ≥ e := by omega
      rw [flushLoop]
      simp only [hge, if_true, List.map_nil, invlpgbRangeOk, decide_true, and_self]

/-- Termination, as a statement of its own: for every range of valid pages the loop ends
normally (no panic from `forward_checked_impl(..).unwrap()`, no iteration without progress). -/
theorem invlpgb_terminates (sz cm s e : Nat) (hsz : notGiant sz)
    (hs : canon s) (hsa : s % sz = 0) (he : canon e) (hea : e % sz = 0) :
    (flushLoop sz cm e s).status = .done :=
  (invlpgb_loop_meets_spec sz cm none none false false false hsz (by simp) (by simp)
    (remaining sz s e) s e (Nat.le_refl _) hs hsa he hea).1

/-- Every count handed to `flush_broadcast` is at most `min(count_max, 65535)`, and a request
starting in the lower half never extends past 2^47 — for every request of every range. -/
theorem invlpgb_bounds_no_gap (sz cm : Nat) (hsz : notGiant sz) :
    ∀ (k s e : Nat), remaining sz s e ≤ k → canon s → s % sz = 0 → canon e → e % sz = 0 →
      ∀ r ∈ (flushLoop sz cm e s).reqs,
        r.2 ≤ min cm 65535 ∧ (r.1 < 2^47 → r.1 + max r.2 1 * sz ≤ 2^47) ∧
        canon r.1 ∧ r.1 % sz = 0 ∧ s ≤ r.1 ∧ r.1 < e := by
  intro k
  induction k with
  | zero =>
    intro s e hk hs hsa he hea r hr
    by_cases hlt : s < e
    · obtain ⟨next, _, hdec, _⟩ := flushLoop_step sz cm s e hsz hs hsa he hea hlt
      omega
    · have hge : s ≥ e := by omega
      rw [flushLoop] at hr
      simp only [hge, if_true, List.not_mem_nil] at hr
  | succ k ih =>
    intro s e hk hs hsa he hea r hr
    by_cases hlt : s < e
    · obtain ⟨next, hrun, hdec, hcn, hna, hsp, hrk, hcnt, hgap⟩ := flushLoop_step sz cm s e hsz hs hsa he hea hlt
      rw [hrun] at hr
      simp only [List.mem_cons] at hr
      rcases hr with hr | hr
      · subst hr
        exact ⟨hcnt, hgap, hs, hsa, Nat.le_refl _, hlt⟩
      · obtain ⟨a1, a2, a3, a4, a5, a6⟩ := ih next e (by omega) hcn hna he hea r hr
        obtain ⟨_, _, _, next', _, hsp', _, _, _, hsn, _⟩ := chunk_step sz cm s e hsz hs hsa he hea hlt
        have : next' = next := by rw [hsp] at hsp'; injection hsp' with h; exact h.symm
        subst this
        exact ⟨a1, a2, a3, a4, by omega, a6⟩
    · have hge : s ≥ e := by omega
      rw [flushLoop] at hr
      simp only [hge, if_true, List.not_mem_nil] at hr

/-- Coverage, in set form: an address is inside the extent `[va, va + max(count,1)·SIZE)` of some
request iff it is a canonical address of the range `[start, end)`. So the requests together cover
every page of the range and nothing else (in particular nothing in the non-canonical gap and no
page outside the range), for every range, maximum and page size. -/
theorem invlpgb_covers (sz cm : Nat) (hsz : notGiant sz) :
    ∀ (k s e : Nat), remaining sz s e ≤ k → canon s → s % sz = 0 → canon e → e % sz = 0 →
      ∀ a : Nat, (∃ r ∈ (flushLoop sz cm e s).reqs, r.1 ≤ a ∧ a < r.1 + max r.2 1 * sz) ↔
        (s ≤ a ∧ a < e ∧ canon a) := by
  intro k
  induction k with
  | zero =>
    intro s e hk hs hsa he hea a
    by_cases hlt : s < e
    · obtain ⟨next, _, hdec, _⟩ := flushLoop_step sz cm s e hsz hs hsa he hea hlt
      omega
    · have hge : s ≥ e := by omega
      rw [flushLoop]
      simp only [hge, if_true, List.not_mem_nil, false_and, exists_false, false_iff]
      omega
  | succ k ih =>
    intro s e hk hs hsa he hea a
    by_cases hlt : s < e
    · obtain ⟨next, hrun, hdec, hcn, hna, hsp, _, _, hgap⟩ := flushLoop_step sz cm s e hsz hs hsa he hea hlt
      obtain ⟨_, _, _, next', _, hsp', _, _, hr, hsn, hne⟩ := chunk_step sz cm s e hsz hs hsa he hea hlt
      have : next' = next := by rw [hsp] at hsp'; injection hsp' with h; exact h.symm
      subst this
      have ih' := ih next' e (by omega) hcn hna he hea a
      rw [hrun]
      simp only [List.mem_cons, exists_eq_or_imp, ih']
      exact cover_step s e next' _ a hs he hcn hr hgap hsn hne
    · have hge : s ≥ e := by omega
      rw [flushLoop]
      simp only [hge, if_true, List.not_mem_nil, false_and, exists_false, false_iff]
      omega

/-- `InvlpgbFlushBuilder::flush` issues exactly these requests, one `invlpgb` each, in order. -/
theorem issueAll_trace (b : FlushBuilder) (reqs : List (Nat × Nat)) (c : Cpu) :
    issueAll b reqs c =
      ⟨.ok (), c, reqs.map (fun r =>
          let q := encReq b.sz b.pcid b.asid b.includeGlobal b.finalTranslationOnly b.includeNestedTranslations r
          Insn.invlpgb (BitVec.ofNat 64 q.1) (BitVec.ofNat 32 q.2.1) (BitVec.ofNat 32 q.2.2)), []⟩ := by
  induction reqs with
  | nil => rfl
  | cons r rs ih =>
    have h1 : flushBroadcast b.sz (some r) b.pcid b.asid b.includeGlobal b.finalTranslationOnly
        b.includeNestedTranslations c = ⟨.ok (), c,
          [Insn.invlpgb (BitVec.ofNat 64 (encReq b.sz b.pcid b.asid b.includeGlobal b.finalTranslationOnly b.includeNestedTranslations r).1)
            (BitVec.ofNat 32 (encReq b.sz b.pcid b.asid b.includeGlobal b.finalTranslationOnly b.includeNestedTranslations r).2.1)
            (BitVec.ofNat 32 (encReq b.sz b.pcid b.asid b.includeGlobal b.finalTranslationOnly b.includeNestedTranslations r).2.2)], []⟩ := rfl
    show (flushBroadcast b.sz (some r) b.pcid b.asid b.includeGlobal b.finalTranslationOnly
        b.includeNestedTranslations >>= fun _ => issueAll b rs) c = _
    rw [M.bind_ok _ _ c _ _ _ _ h1, ih]
    rfl

/-- The whole builder: for a range of valid pages, `flush` never panics, changes no register, and
its instruction trace is the `invlpgb` encoding of the loop's requests (which meet the
specification by `invlpgb_loop_meets_spec`). -/
theorem invlpgb_flush_trace (b : FlushBuilder) (s e : Nat) (c : Cpu) (hr : b.pageRange = some (s, e))
    (hsz : notGiant b.sz) (hs : canon s) (hsa : s % b.sz = 0) (he : canon e) (hea : e % b.sz = 0) :
    b.flush c = issueAll b (flushLoop b.sz b.invlpgb.countMax e s).reqs c := by
  unfold FlushBuilder.flush
  rw [hr]
  dsimp only
  rw [invlpgb_terminates b.sz b.invlpgb.countMax s e hsz hs hsa he hea]

/-! #### Non-vacuity: concrete ranges, including one that crosses the gap -/

-- two pages below the gap and one above it: the hypotheses of the loop theorems are met …
example : canon 0x7fffffffe000 ∧ canon 0xffff800000001000 ∧ 0x7fffffffe000 % 4096 = 0 ∧
    0xffff800000001000 % 4096 = 0 := by decide
example : notGiant 4096 ∧ notGiant 2097152 := ⟨Or.inl rfl, Or.inr rfl⟩
-- … so with processor maximum 7 the loop ends normally there
example : (flushLoop 4096 7 0xffff800000001000 0x7fffffffe000).status = .done :=
  invlpgb_terminates 4096 7 0x7fffffffe000 0xffff800000001000 (Or.inl rfl) (by decide) (by decide)
    (by decide) (by decide)
-- one iteration at the gap: 3 pages remain, only 2 lie below 2^47, so the count is 2
example : chunkCount 4096 7 0x7fffffffe000 0xffff800000001000 = 2 := by decide
example : chunkCount 4096 0 0x0 0x2000 = 0 ∧ chunkCount 4096 65535 0x0 0x40000000000 = 65535 := by decide
example : encReq 2097152 (some 0xabc) (some 0x12) true false true (0xffff800000200000, 5)
    = (0xffff80000020002f, 0x80000005, 0x0abc0012) := by decide
example : invlpgbRangeOk 4096 0x7fffffffe000 0xffff800000001000 7 (optsOf none none false false false)
    [(0x7fffffffe001, 2, 0), (0xffff800000000001, 1, 0)] = true := by decide

/-! ### The `asm!` blocks behind this property (re-extracted from the source on every run)

`Generated.asmSites` is rewritten by `translator/gen_asm.py` from the `asm!` invocations of the
crate; the theorems below are re-checked by the kernel against what the source says now. They
constrain what the compiler may do with the blocks (delete, merge, hoist, reorder memory accesses
across them) — behaviour that only shows in particular build profiles. -/

/-- Every `asm!` block of the files this property is anchored in carries only options its
instructions admit (`Spec/AsmOptions.lean`): no `pure` on instructions with side effects, no
`nomem`/`readonly` where the hardware dereferences the operand, no `nostack` on pushes/pops. -/
theorem asm_options_admissible :
    ∀ s ∈ Spec.AsmOptions.sitesOfFiles ["src/instructions/tlb.rs"], Spec.AsmOptions.admissible s = true := by
  decide +kernel

example : (Spec.AsmOptions.sitesOfFiles ["src/instructions/tlb.rs"]).length > 0 := by decide +kernel

end X86.C11
