/-
C01 (translation half) — `translate`, `translate_addr` and `translate_page` of every mapper kind
read a page-table hierarchy exactly as the MMU does.

For every state `s`, root frame `p4`, virtual address `va : Nat` (indices `va / 2^39 % 512`, … on
both sides), and both mapper kinds (`Kind.recursive = false / true`): if the entries on the path
of `va` are locally well-formed (`PathOK`: zero or PRESENT, and no PS bit in the P4 entry), then
the three model functions return what `Spec.walk` (the hardware walk, written from the SDM)
finds, never panic, do not modify memory and read exactly the entries the hardware reads.

`PathOK` holds in every state reachable through the API with leaf/parent flags containing PRESENT
(proved in the invariant part of C01); it is needed because the code does not test the PRESENT bit
everywhere the hardware does — see the `example`s in the last section, which show that each clause
of `PathOK` is necessary.

The ghost log `St.log` is newest-first (`St.events = log.reverse` is the chronological order), so
"appends the events `l` (given chronologically)" reads `{ s with log := l.reverse ++ s.log }`
throughout; `St.events_append` / `translate_events` give the equivalent `events = s.events ++ l`.

Helper lemmas: `Proofs/Translate.lean`.
-/
import X86Model.Proofs.Translate

namespace X86.C01
open X86 X86.Spec

/-! ### Vocabulary: the path of `va` as the hardware reads it -/

/-- An entry the documented API can produce: all-zero, or with the PRESENT bit. -/
def EntOK (e : Word) : Prop := e ≠ 0#64 → bitP e = true

/-- The PML4E, PDPTE, PDE and PTE the hardware would read for `va` (each one taken from the table
the previous one points to, whether or not the walk actually gets that far). -/
def ent4 (m : PMem) (p4 : Word) (va : Nat) : Word := m p4 (vaIdx4 va)
def ent3 (m : PMem) (p4 : Word) (va : Nat) : Word := m (tableAddr (ent4 m p4 va)) (vaIdx3 va)
def ent2 (m : PMem) (p4 : Word) (va : Nat) : Word := m (tableAddr (ent3 m p4 va)) (vaIdx2 va)
def ent1 (m : PMem) (p4 : Word) (va : Nat) : Word := m (tableAddr (ent2 m p4 va)) (vaIdx1 va)

/-- The hardware walk of `va` reads the PDPTE / PDE / PTE: every entry above is present with PS = 0
(i.e. references a table). -/
def reach3 (m : PMem) (p4 : Word) (va : Nat) : Bool :=
  bitP (ent4 m p4 va) && !bitPS (ent4 m p4 va)
def reach2 (m : PMem) (p4 : Word) (va : Nat) : Bool :=
  reach3 m p4 va && bitP (ent3 m p4 va) && !bitPS (ent3 m p4 va)
def reach1 (m : PMem) (p4 : Word) (va : Nat) : Bool :=
  reach2 m p4 va && bitP (ent2 m p4 va) && !bitPS (ent2 m p4 va)

/-- Local well-formedness along the path of `va`, down to level 4 / 3 / 2 / 1: every entry the walk
reads is zero or present, and the P4 entry does not have bit 7 (PS / `HUGE_PAGE`) set.
`OK3` is what `translate_page::<Size1GiB>` needs, `OK2` what `translate_page::<Size2MiB>` needs,
`PathOK` what `translate`, `translate_addr` and `translate_page::<Size4KiB>` need. -/
def OK4 (m : PMem) (p4 : Word) (va : Nat) : Prop :=
  EntOK (ent4 m p4 va) ∧ bitPS (ent4 m p4 va) = false
def OK3 (m : PMem) (p4 : Word) (va : Nat) : Prop :=
  OK4 m p4 va ∧ (reach3 m p4 va = true → EntOK (ent3 m p4 va))
def OK2 (m : PMem) (p4 : Word) (va : Nat) : Prop :=
  OK3 m p4 va ∧ (reach2 m p4 va = true → EntOK (ent2 m p4 va))
def PathOK (m : PMem) (p4 : Word) (va : Nat) : Prop :=
  OK2 m p4 va ∧ (reach1 m p4 va = true → EntOK (ent1 m p4 va))

instance (e : Word) : Decidable (EntOK e) := by unfold EntOK; exact inferInstance
instance (m : PMem) (p4 : Word) (va : Nat) : Decidable (OK4 m p4 va) := by
  unfold OK4; exact inferInstance
instance (m : PMem) (p4 : Word) (va : Nat) : Decidable (OK3 m p4 va) := by
  unfold OK3; exact inferInstance
instance (m : PMem) (p4 : Word) (va : Nat) : Decidable (OK2 m p4 va) := by
  unfold OK2; exact inferInstance
instance (m : PMem) (p4 : Word) (va : Nat) : Decidable (PathOK m p4 va) := by
  unfold PathOK; exact inferInstance

/-- A weaker, kind-specific hypothesis that already suffices for `translate`, `translate_addr` and
`translate_page::<Size4KiB>`. `next_table` of the non-recursive mappers tests `HUGE_PAGE` and
then `PRESENT`, so at levels 4..2 it only goes wrong on a non-present entry with PS set (`NtOK`:
"PS ⇒ present"); the recursive mapper tests `is_unused()` and never `PRESENT`, so it needs
"non-zero ⇒ present" at every level. The level-1 entry is only tested with `is_unused()` by both.
`PathOK` implies `PathOKFor k` for both kinds (`PathOK.toFor`); for the non-recursive kind
`PathOKFor` is exactly the set of states on which `translate` agrees with the walk
(`translate_eq_walk_iff_nonrec`), so no weaker hypothesis is possible there. The uniform `PathOK`
("non-zero ⇒ present" everywhere the walk reads, no PS in the P4 entry) is the weakest condition
of the requested shape that serves both kinds and all three functions: the `example`s of the last
section show a failing state for each of its clauses. -/
def PathOKFor (k : Kind) (m : PMem) (p4 : Word) (va : Nat) : Prop :=
  (NtOK k (ent4 m p4 va) ∧ bitPS (ent4 m p4 va) = false) ∧
  (reach3 m p4 va = true → NtOK k (ent3 m p4 va)) ∧
  (reach2 m p4 va = true → NtOK k (ent2 m p4 va)) ∧
  (reach1 m p4 va = true → EntOK (ent1 m p4 va))

theorem PathOK.toFor {m : PMem} {p4 : Word} {va : Nat} (h : PathOK m p4 va) (k : Kind) :
    PathOKFor k m p4 va :=
  ⟨⟨NtOK_of_entOK k h.1.1.1.1, h.1.1.1.2⟩, fun r => NtOK_of_entOK k (h.1.1.2 r),
   fun r => NtOK_of_entOK k (h.1.2 r), h.2⟩

/-- Number of entries the hardware walk of `va` reads. -/
def walkDepth (m : PMem) (p4 : Word) (va : Nat) : Nat :=
  if reach1 m p4 va then 4 else if reach2 m p4 va then 3 else if reach3 m p4 va then 2 else 1

/-- The four reads of a full walk, in order. -/
def pathReads (m : PMem) (p4 : Word) (va : Nat) : List Ev :=
  [.rd p4 (vaIdx4 va), .rd (tableAddr (ent4 m p4 va)) (vaIdx3 va),
   .rd (tableAddr (ent3 m p4 va)) (vaIdx2 va), .rd (tableAddr (ent2 m p4 va)) (vaIdx1 va)]

/-- The frames the hardware walk of `va` reads from: `p4` and the tables referenced by the
present, PS = 0 entries on the path. -/
def pathTables (m : PMem) (p4 : Word) (va : Nat) : List Word :=
  p4 :: ((if reach3 m p4 va then [tableAddr (ent4 m p4 va)] else []) ++
         (if reach2 m p4 va then [tableAddr (ent3 m p4 va)] else []) ++
         (if reach1 m p4 va then [tableAddr (ent2 m p4 va)] else []))

/-- The entry a successful walk ends in. -/
def leafEnt (m : PMem) (p4 : Word) (va : Nat) : Word :=
  if bitPS (ent3 m p4 va) then ent3 m p4 va
  else if bitPS (ent2 m p4 va) then ent2 m p4 va else ent1 m p4 va

/-- Flag domain on which `flags()` of the leaf and the hardware's attribute bits are compared:
bits 0..11 and 52..63, plus bit 12 (PAT) for huge leaves (same as `Driver.flagDom`). -/
def dom (size : Nat) : Word :=
  if size = 4096 then 0xfff0000000000fff#64 else 0xfff0000000001fff#64

/-- The walk result in the vocabulary of `Translate::translate`. -/
def render (m : PMem) (p4 : Word) (va : Nat) : R Xl :=
  match walk m p4 va with
  | none => .ok .notMapped
  | some x => .ok (.mapped (BitVec.ofNat 64 x.base) x.size x.off (Pte.flags (leafEnt m p4 va)))

/-- What `translate_page::<Size4KiB>` must return for the page containing `va`: the frame when the
walk ends in a 4 KiB leaf, `ParentEntryHugePage` when a larger leaf covers the page,
`PageNotMapped` when the walk finds a non-present entry. -/
def expect4K (m : PMem) (p4 : Word) (va : Nat) : Except OpErr Word :=
  match walk m p4 va with
  | none => .error .notMapped
  | some x => if x.size = 4096 then .ok (BitVec.ofNat 64 x.base) else .error .parentHuge

/-- `translate_page::<Size2MiB>`: the frame when the walk ends in a 2 MiB leaf whose address field
is 2 MiB-aligned (bits 13..20 zero; otherwise `InvalidFrameAddress` with bits 12..51 of the entry);
`ParentEntryHugePage` when a 1 GiB leaf covers the page or the slot holds a table (`reach1`: then
the walk continues into that table and ends in a 4 KiB leaf or a non-present PTE);
`PageNotMapped` when the walk finds a non-present entry on the way or at the slot. -/
def expect2M (m : PMem) (p4 : Word) (va : Nat) : Except OpErr Word :=
  match walk m p4 va with
  | some x =>
    if x.size = 2^21 then
      (if ent2 m p4 va &&& 0x1fe000#64 = 0#64 then .ok (BitVec.ofNat 64 x.base)
       else .error (.invalidFrame (tableAddr (ent2 m p4 va))))
    else .error .parentHuge
  | none => if reach1 m p4 va then .error .parentHuge else .error .notMapped

/-- `translate_page::<Size1GiB>`, likewise (alignment: bits 13..29 zero; the slot holds a table:
`reach2`). -/
def expect1G (m : PMem) (p4 : Word) (va : Nat) : Except OpErr Word :=
  match walk m p4 va with
  | some x =>
    if x.size = 2^30 then
      (if ent3 m p4 va &&& 0x3fffe000#64 = 0#64 then .ok (BitVec.ofNat 64 x.base)
       else .error (.invalidFrame (tableAddr (ent3 m p4 va))))
    else .error .parentHuge
  | none => if reach2 m p4 va then .error .parentHuge else .error .notMapped

/-! ### A concrete hierarchy for the non-vacuity examples -/

/-- Root at frame `0x1000`; one 4 KiB, two 2 MiB (one with a misaligned address field) and one
1 GiB mapping. -/
def demoMem : PMem := fun f i =>
  if f = 0x1000#64 ∧ i = 0 then 0x2003#64                    -- P4[0] → P3 at 0x2000
  else if f = 0x2000#64 ∧ i = 0 then 0x3007#64               -- P3[0] → P2 at 0x3000
  else if f = 0x2000#64 ∧ i = 1 then 0x40000083#64           -- P3[1]: 1 GiB leaf at 0x4000_0000
  else if f = 0x3000#64 ∧ i = 0 then 0x4003#64               -- P2[0] → P1 at 0x4000
  else if f = 0x3000#64 ∧ i = 1 then 0x8000000000a00083#64   -- P2[1]: 2 MiB leaf at 0xa0_0000, NX
  else if f = 0x3000#64 ∧ i = 2 then 0x8000000000c02083#64   -- P2[2]: 2 MiB leaf, address bit 13 set
  else if f = 0x4000#64 ∧ i = 5 then 0x7005#64               -- P1[5] → frame 0x7000 (bit 12 set)
  else 0#64

def demoSt : St := { mem := demoMem, allocs := [], log := [.alloc none] }

/-- (`Except` has no `DecidableEq` instance in core; needed to `decide` the examples.) -/
instance decEqExcept {ε α : Type} [DecidableEq ε] [DecidableEq α] : DecidableEq (Except ε α)
  | .ok a, .ok b =>
    if h : a = b then isTrue (by rw [h]) else isFalse (fun h' => h (Except.ok.inj h'))
  | .error a, .error b =>
    if h : a = b then isTrue (by rw [h]) else isFalse (fun h' => h (Except.error.inj h'))
  | .ok _, .error _ => isFalse (fun h => nomatch h)
  | .error _, .ok _ => isFalse (fun h => nomatch h)

/-- `PathOK` holds on addresses that end in a 4 KiB / 2 MiB / 1 GiB leaf, in a non-present PTE, and
in a non-present PML4E (upper half). -/
example : PathOK demoMem 0x1000#64 0x5123 ∧ PathOK demoMem 0x1000#64 0x345678 ∧
    PathOK demoMem 0x1000#64 0x7fffffff ∧ PathOK demoMem 0x1000#64 0x6000 ∧
    PathOK demoMem 0x1000#64 0xffff800000000000 := by decide

/-! ### Links to the entry-level forms of `Proofs/Translate.lean` -/

theorem walk_eq (m : PMem) (p4 : Word) (va : Nat) :
    walk m p4 va = walkE (ent4 m p4 va) (ent3 m p4 va) (ent2 m p4 va) (ent1 m p4 va) va := rfl

theorem render_eq (m : PMem) (p4 : Word) (va : Nat) :
    render m p4 va = renderE (ent4 m p4 va) (ent3 m p4 va) (ent2 m p4 va) (ent1 m p4 va) va := rfl

theorem walkDepth_eq (m : PMem) (p4 : Word) (va : Nat) :
    walkDepth m p4 va = depthE (ent4 m p4 va) (ent3 m p4 va) (ent2 m p4 va) := by
  unfold walkDepth depthE reach1 reach2 reach3
  cases bitP (ent4 m p4 va) <;> cases bitPS (ent4 m p4 va) <;> cases bitP (ent3 m p4 va) <;>
    cases bitPS (ent3 m p4 va) <;> cases bitP (ent2 m p4 va) <;> cases bitPS (ent2 m p4 va) <;> rfl

theorem reach3_iff (m : PMem) (p4 : Word) (va : Nat) :
    reach3 m p4 va = true ↔ bitP (ent4 m p4 va) = true ∧ bitPS (ent4 m p4 va) = false := by
  unfold reach3; cases bitP (ent4 m p4 va) <;> cases bitPS (ent4 m p4 va) <;> simp

theorem reach2_iff (m : PMem) (p4 : Word) (va : Nat) :
    reach2 m p4 va = true ↔
      reach3 m p4 va = true ∧ bitP (ent3 m p4 va) = true ∧ bitPS (ent3 m p4 va) = false := by
  unfold reach2
  cases reach3 m p4 va <;> cases bitP (ent3 m p4 va) <;> cases bitPS (ent3 m p4 va) <;> simp

theorem reach1_iff (m : PMem) (p4 : Word) (va : Nat) :
    reach1 m p4 va = true ↔
      reach2 m p4 va = true ∧ bitP (ent2 m p4 va) = true ∧ bitPS (ent2 m p4 va) = false := by
  unfold reach1
  cases reach2 m p4 va <;> cases bitP (ent2 m p4 va) <;> cases bitPS (ent2 m p4 va) <;> simp

/-! ### 1. `translate` = hardware walk -/

/-- `translate` returns the rendering of the walk and appends exactly the reads of the hardware
walk to the ghost log; memory and allocator are untouched. (Under the kind-specific weakest
hypothesis.) -/
theorem translate_eq_for (k : Kind) (s : St) (p4 : Word) (va : Nat)
    (h : PathOKFor k s.mem p4 va) :
    translate k s p4 va =
      (render s.mem p4 va,
       { s with log :=
          ((pathReads s.mem p4 va).take (walkDepth s.mem p4 va)).reverse ++ s.log }) := by
  obtain ⟨⟨h4, h4ps⟩, h3, h2, h1⟩ := h
  have hE := translateE_eq k (ent4 s.mem p4 va) (ent3 s.mem p4 va) (ent2 s.mem p4 va)
    (ent1 s.mem p4 va) va h4 h4ps
    (fun a => h3 ((reach3_iff ..).2 ⟨a, h4ps⟩))
    (fun a b c => h2 ((reach2_iff ..).2 ⟨(reach3_iff ..).2 ⟨a, h4ps⟩, b, c⟩))
    (fun a b c d e => h1 ((reach1_iff ..).2
      ⟨(reach2_iff ..).2 ⟨(reach3_iff ..).2 ⟨a, h4ps⟩, b, c⟩, d, e⟩))
  rw [translate_eq_E, render_eq, walkDepth_eq]
  show ((translateE k (ent4 s.mem p4 va) (ent3 s.mem p4 va) (ent2 s.mem p4 va)
      (ent1 s.mem p4 va) va).1,
    { s with
      log := ((pathReads s.mem p4 va).take (translateE k (ent4 s.mem p4 va)
                (ent3 s.mem p4 va) (ent2 s.mem p4 va) (ent1 s.mem p4 va) va).2).reverse
                ++ s.log }) = _
  rw [hE]

theorem translate_eq (k : Kind) (s : St) (p4 : Word) (va : Nat) (h : PathOK s.mem p4 va) :
    translate k s p4 va =
      (render s.mem p4 va,
       { s with log :=
          ((pathReads s.mem p4 va).take (walkDepth s.mem p4 va)).reverse ++ s.log }) :=
  translate_eq_for k s p4 va (h.toFor k)

/-- The same in chronological form: the events after `translate` are the events before, followed
by exactly the reads of the hardware walk, in the order the hardware performs them. -/
theorem translate_events (k : Kind) (s : St) (p4 : Word) (va : Nat) (h : PathOK s.mem p4 va) :
    (translate k s p4 va).2.events =
      s.events ++ (pathReads s.mem p4 va).take (walkDepth s.mem p4 va) := by
  rw [translate_eq k s p4 va h]; exact St.events_append s _

example : (translate ⟨true⟩ demoSt 0x1000#64 0x5123).1 = .ok (.mapped 0x7000#64 4096 0x123 0x1005#64) ∧
    (translate ⟨true⟩ demoSt 0x1000#64 0x5123).2.events =
      [.alloc none, .rd 0x1000#64 0, .rd 0x2000#64 0, .rd 0x3000#64 0, .rd 0x4000#64 5] ∧
    (translate ⟨true⟩ demoSt 0x1000#64 0x5123).2.log =
      [.rd 0x4000#64 5, .rd 0x3000#64 0, .rd 0x2000#64 0, .rd 0x1000#64 0, .alloc none] ∧
    walkDepth demoMem 0x1000#64 0x5123 = 4 := by decide

/-- For the non-recursive mappers `PathOKFor` is not only sufficient but necessary: `translate`
returns the rendering of the hardware walk exactly on the states satisfying it. (For the recursive
mapper it is sufficient but not necessary: after following a non-zero non-present entry it may
still happen to answer `NotMapped`.) -/
theorem translate_eq_walk_iff_nonrec (s : St) (p4 : Word) (va : Nat) :
    (translate ⟨false⟩ s p4 va).1 = render s.mem p4 va ↔ PathOKFor ⟨false⟩ s.mem p4 va := by
  have nt : ∀ e, NtOK ⟨false⟩ e ↔ (bitPS e = true → bitP e = true) := fun e => Iff.rfl
  rw [translate_eq_E, render_eq]
  show (translateE ⟨false⟩ (ent4 s.mem p4 va) (ent3 s.mem p4 va) (ent2 s.mem p4 va)
    (ent1 s.mem p4 va) va).1 = _ ↔ _
  rw [translateE_nonrec_iff]
  unfold PathOKFor EntOK
  simp only [nt]
  constructor
  · rintro ⟨a, b, c, d⟩
    refine ⟨⟨fun hps => (by rw [a] at hps; cases hps), a⟩, fun r3 => b ((reach3_iff ..).1 r3).1,
      fun r2 => ?_, fun r1 => ?_⟩
    · obtain ⟨r3, p3, ps3⟩ := (reach2_iff ..).1 r2
      exact c ((reach3_iff ..).1 r3).1 p3 ps3
    · obtain ⟨r2, p2, ps2⟩ := (reach1_iff ..).1 r1
      obtain ⟨r3, p3, ps3⟩ := (reach2_iff ..).1 r2
      exact d ((reach3_iff ..).1 r3).1 p3 ps3 p2 ps2
  · rintro ⟨⟨_, a⟩, b, c, d⟩
    have r3 := fun p4' => (reach3_iff s.mem p4 va).2 ⟨p4', a⟩
    refine ⟨a, fun p4' => b (r3 p4'), fun p4' p3 ps3 => c ((reach2_iff ..).2 ⟨r3 p4', p3, ps3⟩),
      fun p4' p3 ps3 p2 ps2 => d ((reach1_iff ..).2 ⟨(reach2_iff ..).2 ⟨r3 p4', p3, ps3⟩, p2, ps2⟩)⟩

example : PathOKFor ⟨false⟩ demoMem 0x1000#64 0x345678 := (PathOK.toFor (by decide) _)

/-- **`translate` agrees with the hardware walk**: not mapped iff the walk fails; otherwise the
frame start is the walk's physical base, with the walk's page size and offset, and the reported
flags are `flags()` of the leaf entry (related to the hardware's attribute bits by
`walk_leaf_facts`). -/
theorem translate_eq_walk (k : Kind) (s : St) (p4 : Word) (va : Nat) (h : PathOK s.mem p4 va) :
    (translate k s p4 va).1 = render s.mem p4 va := by
  rw [translate_eq k s p4 va h]

example : walk demoMem 0x1000#64 0x5123 =
    some { base := 0x7000, size := 4096, off := 0x123, flags := 5#64, rw := false, us := false } := by
  decide
example : (translate ⟨false⟩ demoSt 0x1000#64 0x345678).1 =
    .ok (.mapped 0xa00000#64 (2^21) 0x145678 0x8000000000000083#64) := by decide
example : (translate ⟨false⟩ demoSt 0x1000#64 0x7fffffff).1 =
    .ok (.mapped 0x40000000#64 (2^30) 0x3fffffff 0x83#64) := by decide
example : (translate ⟨true⟩ demoSt 0x1000#64 0x6000).1 = .ok .notMapped ∧
    walkDepth demoMem 0x1000#64 0x6000 = 4 := by decide

/-- It never panics under the hypothesis. -/
theorem translate_no_panic (k : Kind) (s : St) (p4 : Word) (va : Nat) (h : PathOK s.mem p4 va) :
    (translate k s p4 va).1 ≠ .panic := by
  rw [translate_eq_walk k s p4 va h]
  unfold render
  split <;> exact fun h => nomatch h

/-- What the walk reports about the leaf, in terms of the leaf entry (no hypothesis on the
tables): the size is one of the three page sizes, the offset is `va % size`, the base is
size-aligned and `base + size ≤ 2^52` (from the address masks), `flags()` of the leaf entry
restricted to the flag domain is the hardware's attribute word, and for a 4 KiB leaf bit 12 of
`flags()` (`PAT_HUGE_PAGE`) is bit 12 of the frame address. -/
theorem walk_leaf_facts (m : PMem) (p4 : Word) (va : Nat) (x : Xlat) (h : walk m p4 va = some x) :
    (x.size = 4096 ∨ x.size = 2^21 ∨ x.size = 2^30) ∧ x.off = va % x.size ∧
    x.base % x.size = 0 ∧ x.base + x.size ≤ 2^52 ∧
    Pte.flags (leafEnt m p4 va) &&& dom x.size = x.flags ∧
    (x.size = 4096 →
      (Pte.flags (leafEnt m p4 va)).getLsbD 12 = (BitVec.ofNat 64 x.base).getLsbD 12) :=
  walkE_facts _ _ _ _ va x h

/-- 4 KiB leaf `0x7005`: `flags()` is `0x1005` (bit 12 is address bit 12), the hardware's
attribute word is `5`. -/
example : Pte.flags (leafEnt demoMem 0x1000#64 0x5123) = 0x1005#64 ∧
    Pte.flags (leafEnt demoMem 0x1000#64 0x5123) &&& dom 4096 = 5#64 := by decide

/-- The statement of (1) spelled out. -/
theorem translate_eq_walk_spelled (k : Kind) (s : St) (p4 : Word) (va : Nat)
    (h : PathOK s.mem p4 va) :
    match walk s.mem p4 va with
    | none => (translate k s p4 va).1 = .ok .notMapped
    | some x => ∃ fl : Word,
        (translate k s p4 va).1 = .ok (.mapped (BitVec.ofNat 64 x.base) x.size x.off fl) ∧
        fl = Pte.flags (leafEnt s.mem p4 va) ∧ fl &&& dom x.size = x.flags ∧
        (x.size = 4096 → fl.getLsbD 12 = (BitVec.ofNat 64 x.base).getLsbD 12) ∧
        (BitVec.ofNat 64 x.base).toNat = x.base ∧ x.off = va % x.size ∧
        (x.size = 4096 ∨ x.size = 2^21 ∨ x.size = 2^30) ∧ x.base % x.size = 0 := by
  have ht := translate_eq_walk k s p4 va h
  unfold render at ht
  split
  · next hw => rw [hw] at ht; exact ht
  · next x hw =>
    rw [hw] at ht
    obtain ⟨hsz, hoff, hal, hb, hfl, h12⟩ := walk_leaf_facts s.mem p4 va x hw
    refine ⟨_, ht, rfl, hfl, h12, ?_, hoff, hsz, hal⟩
    rw [BitVec.toNat_ofNat]; apply Nat.mod_eq_of_lt
    rcases hsz with h' | h' | h' <;> rw [h'] at hb <;> omega

example : (walk demoMem 0x1000#64 0x345678).map (fun x => (x.base, x.size, x.off, x.flags)) =
    some (0xa00000, 2^21, 0x145678, 0x8000000000000083#64) := by decide

/-! ### 2. `translate_addr` = physical address of the hardware walk -/

/-- `translate_addr` is `translate` followed by `frame.start_address() + offset`; its effect on
the state is that of `translate`. -/
theorem translateAddr_state (k : Kind) (s : St) (p4 : Word) (va : Nat) :
    (translateAddr k s p4 va).2 = (translate k s p4 va).2 := by
  unfold translateAddr
  split <;> try simp_all
  split <;> simp_all

/-- **`translate_addr` agrees with the hardware walk**; in particular the `PhysAddr + u64` inside
never panics: `base + off < 2^52` follows from the address masks (`walk_leaf_facts`). -/
theorem translate_addr_eq_walk (k : Kind) (s : St) (p4 : Word) (va : Nat)
    (h : PathOK s.mem p4 va) :
    (translateAddr k s p4 va).1 = .ok ((walk s.mem p4 va).map Xlat.pa) := by
  unfold translateAddr
  rw [translate_eq k s p4 va h]
  unfold render
  cases hw : walk s.mem p4 va with
  | none => rfl
  | some x =>
    obtain ⟨hsz, hoff, _, hb, _, _⟩ := walk_leaf_facts s.mem p4 va x hw
    have hlt : x.off < x.size := by
      rw [hoff]; apply Nat.mod_lt
      rcases hsz with h' | h' | h' <;> rw [h'] <;> omega
    have hbase : (BitVec.ofNat 64 x.base).toNat = x.base := by
      rw [BitVec.toNat_ofNat]; apply Nat.mod_eq_of_lt; omega
    have : x.base + x.off < 2^52 := by omega
    simp only [hbase, this, if_true, Option.map, Xlat.pa]

example : (translateAddr ⟨true⟩ demoSt 0x1000#64 0x345678).1 = .ok (some 0xb45678) ∧
    (translateAddr ⟨false⟩ demoSt 0x1000#64 0x6000).1 = .ok none := by decide

/-! ### 3. `translate_page` of the three sizes = hardware walk

Parents / leaf index are those of `Driver.pathOf` (`vaIdx4 va = va / 2^39 % 512`, …, by
definition): 4 KiB `([i4,i3,i2], i1)`, 2 MiB `([i4,i3], i2)`, 1 GiB `([i4], i3)`; `huge` is
`false / true / true`, `sz` is `4096 / 2^21 / 2^30`. `va` is any address inside the page (the
indices used do not depend on the lower bits). -/

theorem translate_page_4K_eq_for (k : Kind) (s : St) (p4 : Word) (va : Nat)
    (h : PathOKFor k s.mem p4 va) :
    translatePage k s p4 [va / 2^39 % 512, va / 2^30 % 512, va / 2^21 % 512] (va / 2^12 % 512)
        false 4096 =
      (expect4K s.mem p4 va,
       { s with log :=
          ((pathReads s.mem p4 va).take (walkDepth s.mem p4 va)).reverse ++ s.log }) := by
  obtain ⟨⟨h4, h4ps⟩, h3, h2, h1⟩ := h
  have hE := tpE_4K k (ent4 s.mem p4 va) (ent3 s.mem p4 va) (ent2 s.mem p4 va)
    (ent1 s.mem p4 va) va h4 h4ps
    (fun a => h3 ((reach3_iff ..).2 ⟨a, h4ps⟩))
    (fun a b c => h2 ((reach2_iff ..).2 ⟨(reach3_iff ..).2 ⟨a, h4ps⟩, b, c⟩))
    (fun a b c d e => h1 ((reach1_iff ..).2
      ⟨(reach2_iff ..).2 ⟨(reach3_iff ..).2 ⟨a, h4ps⟩, b, c⟩, d, e⟩))
  rw [translatePage_eq_E, walkDepth_eq]
  show ((tpE k false 4096 [ent4 s.mem p4 va, ent3 s.mem p4 va, ent2 s.mem p4 va]
      (ent1 s.mem p4 va)).1,
    { s with
      log := ((pathReads s.mem p4 va).take (tpE k false 4096
                [ent4 s.mem p4 va, ent3 s.mem p4 va, ent2 s.mem p4 va]
                (ent1 s.mem p4 va)).2).reverse ++ s.log }) = _
  rw [hE]; rfl

/-- **`translate_page::<Size4KiB>`** returns `expect4K` and reads what the hardware reads. -/
theorem translate_page_4K_eq (k : Kind) (s : St) (p4 : Word) (va : Nat)
    (h : PathOK s.mem p4 va) :
    translatePage k s p4 [va / 2^39 % 512, va / 2^30 % 512, va / 2^21 % 512] (va / 2^12 % 512)
        false 4096 =
      (expect4K s.mem p4 va,
       { s with log :=
          ((pathReads s.mem p4 va).take (walkDepth s.mem p4 va)).reverse ++ s.log }) :=
  translate_page_4K_eq_for k s p4 va (h.toFor k)

example : (translatePage ⟨true⟩ demoSt 0x1000#64 [0, 0, 0] 5 false 4096).1 = .ok 0x7000#64 ∧
    expect4K demoMem 0x1000#64 0x5123 = .ok 0x7000#64 ∧
    expect4K demoMem 0x1000#64 0x345678 = .error .parentHuge ∧
    expect4K demoMem 0x1000#64 0x6000 = .error .notMapped := by decide

/-- **`translate_page::<Size2MiB>`** returns `expect2M` (no alignment hypothesis: a misaligned
address field is reported as `InvalidFrameAddress`) and reads the first `≤ 3` entries of the
hardware walk. Only the entries down to level 2 need to be well-formed. -/
theorem translate_page_2M_eq (k : Kind) (s : St) (p4 : Word) (va : Nat) (h : OK2 s.mem p4 va) :
    translatePage k s p4 [va / 2^39 % 512, va / 2^30 % 512] (va / 2^21 % 512) true (2^21) =
      (expect2M s.mem p4 va,
       { s with log :=
          ((pathReads s.mem p4 va).take (min (walkDepth s.mem p4 va) 3)).reverse ++ s.log }) := by
  obtain ⟨⟨⟨h4, h4ps⟩, h3⟩, h2⟩ := h
  have hE := tpE_2M k (ent4 s.mem p4 va) (ent3 s.mem p4 va) (ent2 s.mem p4 va)
    (ent1 s.mem p4 va) va (NtOK_of_entOK k h4) h4ps
    (fun a => NtOK_of_entOK k (h3 ((reach3_iff ..).2 ⟨a, h4ps⟩)))
    (fun a b c => h2 ((reach2_iff ..).2 ⟨(reach3_iff ..).2 ⟨a, h4ps⟩, b, c⟩))
  rw [translatePage_eq_E, walkDepth_eq]
  show ((tpE k true (2^21) [ent4 s.mem p4 va, ent3 s.mem p4 va] (ent2 s.mem p4 va)).1,
    { s with
      log := (([Ev.rd p4 (vaIdx4 va), .rd (tableAddr (ent4 s.mem p4 va)) (vaIdx3 va),
                .rd (tableAddr (ent3 s.mem p4 va)) (vaIdx2 va)]).take
                (tpE k true (2^21) [ent4 s.mem p4 va, ent3 s.mem p4 va]
                  (ent2 s.mem p4 va)).2).reverse ++ s.log }) = _
  rw [hE]
  simp only [← List.take_take]
  rfl

example : OK2 demoMem 0x1000#64 0x200000 ∧ expect2M demoMem 0x1000#64 0x200000 = .ok 0xa00000#64 ∧
    expect2M demoMem 0x1000#64 0x5123 = .error .parentHuge ∧     -- slot holds a table (4 KiB leaf below)
    expect2M demoMem 0x1000#64 0x6000 = .error .parentHuge ∧     -- slot holds a table (PTE not present)
    expect2M demoMem 0x1000#64 0x40000000 = .error .parentHuge ∧ -- a 1 GiB leaf covers the page
    expect2M demoMem 0x1000#64 0x600000 = .error .notMapped ∧
    expect2M demoMem 0x1000#64 0x400000 = .error (.invalidFrame 0xc02000#64) := by decide

/-- **`translate_page::<Size1GiB>`** returns `expect1G` and reads the first `≤ 2` entries of the
hardware walk. Only the P4 and P3 entries need to be well-formed. -/
theorem translate_page_1G_eq (k : Kind) (s : St) (p4 : Word) (va : Nat) (h : OK3 s.mem p4 va) :
    translatePage k s p4 [va / 2^39 % 512] (va / 2^30 % 512) true (2^30) =
      (expect1G s.mem p4 va,
       { s with log :=
          ((pathReads s.mem p4 va).take (min (walkDepth s.mem p4 va) 2)).reverse ++ s.log }) := by
  obtain ⟨⟨h4, h4ps⟩, h3⟩ := h
  have hE := tpE_1G k (ent4 s.mem p4 va) (ent3 s.mem p4 va) (ent2 s.mem p4 va)
    (ent1 s.mem p4 va) va (NtOK_of_entOK k h4) h4ps
    (fun a => h3 ((reach3_iff ..).2 ⟨a, h4ps⟩))
  rw [translatePage_eq_E, walkDepth_eq]
  show ((tpE k true (2^30) [ent4 s.mem p4 va] (ent3 s.mem p4 va)).1,
    { s with
      log := (([Ev.rd p4 (vaIdx4 va), .rd (tableAddr (ent4 s.mem p4 va)) (vaIdx3 va)]).take
                (tpE k true (2^30) [ent4 s.mem p4 va] (ent3 s.mem p4 va)).2).reverse ++ s.log }) = _
  rw [hE]
  simp only [← List.take_take]
  rfl

example : OK3 demoMem 0x1000#64 0x40000000 ∧
    expect1G demoMem 0x1000#64 0x40000000 = .ok 0x40000000#64 ∧
    expect1G demoMem 0x1000#64 0x5123 = .error .parentHuge ∧
    expect1G demoMem 0x1000#64 0x80000000 = .error .notMapped := by decide

/-! Success of `translate_page` ⇔ the walk ends in a leaf of exactly that size, and then the
frame is the walk's base. For the huge sizes the "⇐" direction needs the leaf's address field to
be size-aligned (bits 13..20 resp. 13..29 zero), as it is for every entry written by
`map_to`/`identity_map` (their `PhysFrame<Size2MiB>` / `PhysFrame<Size1GiB>` argument is
size-aligned by the type's invariant: `from_start_address` checks, `containing_address` aligns)
and preserved by `update_flags` (`set_addr(huge_frame_addr(entry), …)`); a misaligned field makes
`translate_page` return `InvalidFrameAddress` (see `expect2M` / `expect1G`), whereas `translate`
aligns down silently (`PhysFrame::containing_address`), like `Spec.walk`, which takes bits 51:21
resp. 51:30 and does not model the reserved-bit fault real hardware raises for such an entry. -/

theorem expect4K_ok_iff (m : PMem) (p4 : Word) (va : Nat) (f : Word) :
    expect4K m p4 va = .ok f ↔
      ∃ x, walk m p4 va = some x ∧ x.size = 4096 ∧ f = BitVec.ofNat 64 x.base := by
  unfold expect4K
  cases walk m p4 va with
  | none => simp
  | some x =>
    by_cases hs : x.size = 4096
    · simp only [hs, if_true, Except.ok.injEq, Option.some.injEq]
      constructor
      · intro h; exact ⟨x, rfl, hs, h.symm⟩
      · rintro ⟨x', hx, _, hf⟩; rw [hf, hx]
    · simp only [hs, if_false, Option.some.injEq]
      constructor
      · intro h; cases h
      · rintro ⟨x', hx, hs', _⟩; rw [← hx] at hs'; exact absurd hs' hs

theorem translate_page_4K_ok_iff (k : Kind) (s : St) (p4 : Word) (va : Nat)
    (h : PathOK s.mem p4 va) (f : Word) :
    (translatePage k s p4 [va / 2^39 % 512, va / 2^30 % 512, va / 2^21 % 512] (va / 2^12 % 512)
        false 4096).1 = .ok f ↔
      ∃ x, walk s.mem p4 va = some x ∧ x.size = 4096 ∧ f = BitVec.ofNat 64 x.base := by
  rw [translate_page_4K_eq k s p4 va h]; exact expect4K_ok_iff ..

theorem translate_page_2M_ok_iff (k : Kind) (s : St) (p4 : Word) (va : Nat)
    (h : OK2 s.mem p4 va)
    (hal : ∀ x, walk s.mem p4 va = some x → x.size = 2^21 → ent2 s.mem p4 va &&& 0x1fe000#64 = 0#64)
    (f : Word) :
    (translatePage k s p4 [va / 2^39 % 512, va / 2^30 % 512] (va / 2^21 % 512) true (2^21)).1
        = .ok f ↔
      ∃ x, walk s.mem p4 va = some x ∧ x.size = 2^21 ∧ f = BitVec.ofNat 64 x.base := by
  rw [translate_page_2M_eq k s p4 va h]
  show expect2M s.mem p4 va = .ok f ↔ _
  unfold expect2M
  cases hw : walk s.mem p4 va with
  | none => simp only [reduceCtorEq, false_and, exists_false, iff_false]; split <;> exact fun h => nomatch h
  | some x =>
    by_cases hs : x.size = 2^21
    · simp only [hs, if_true, hal x hw hs, Except.ok.injEq, Option.some.injEq]
      constructor
      · intro h; exact ⟨x, rfl, hs, h.symm⟩
      · rintro ⟨x', hx, _, hf⟩; rw [hf, hx]
    · simp only [hs, if_false, Option.some.injEq]
      constructor
      · intro h; cases h
      · rintro ⟨x', hx, hs', _⟩; rw [← hx] at hs'; exact absurd hs' hs

/-- The alignment hypothesis holds for the leaf at `0x200000`; it fails for the one at `0x400000`,
where `translate_page` reports `InvalidFrameAddress` although the walk finds a 2 MiB leaf. -/
example : ∀ x, walk demoMem 0x1000#64 0x200000 = some x → x.size = 2^21 →
    ent2 demoMem 0x1000#64 0x200000 &&& 0x1fe000#64 = 0#64 := fun _ _ _ => by decide
example : (translatePage ⟨false⟩ demoSt 0x1000#64 [0, 0] 2 true (2^21)).1 =
      .error (.invalidFrame 0xc02000#64) ∧
    (walk demoMem 0x1000#64 0x400000).map (fun x => (x.base, x.size)) = some (0xc00000, 2^21) := by
  decide

theorem translate_page_1G_ok_iff (k : Kind) (s : St) (p4 : Word) (va : Nat)
    (h : OK3 s.mem p4 va)
    (hal : ∀ x, walk s.mem p4 va = some x → x.size = 2^30 → ent3 s.mem p4 va &&& 0x3fffe000#64 = 0#64)
    (f : Word) :
    (translatePage k s p4 [va / 2^39 % 512] (va / 2^30 % 512) true (2^30)).1 = .ok f ↔
      ∃ x, walk s.mem p4 va = some x ∧ x.size = 2^30 ∧ f = BitVec.ofNat 64 x.base := by
  rw [translate_page_1G_eq k s p4 va h]
  show expect1G s.mem p4 va = .ok f ↔ _
  unfold expect1G
  cases hw : walk s.mem p4 va with
  | none => simp only [reduceCtorEq, false_and, exists_false, iff_false]; split <;> exact fun h => nomatch h
  | some x =>
    by_cases hs : x.size = 2^30
    · simp only [hs, if_true, hal x hw hs, Except.ok.injEq, Option.some.injEq]
      constructor
      · intro h; exact ⟨x, rfl, hs, h.symm⟩
      · rintro ⟨x', hx, _, hf⟩; rw [hf, hx]
    · simp only [hs, if_false, Option.some.injEq]
      constructor
      · intro h; cases h
      · rintro ⟨x', hx, hs', _⟩; rw [← hx] at hs'; exact absurd hs' hs

example : ∀ x, walk demoMem 0x1000#64 0x40000000 = some x → x.size = 2^30 →
    ent3 demoMem 0x1000#64 0x40000000 &&& 0x3fffe000#64 = 0#64 := fun _ _ _ => by decide

/-! ### 4. The translation functions are read-only

These hold for every state, without `PathOK`. Under `PathOK` the theorems above give the exact
log: `translate`, `translate_addr` and `translate_page::<Size4KiB>` append the first
`walkDepth` elements of `pathReads`, i.e. exactly the reads of the hardware walk (the huge sizes
stop after at most 3 resp. 2), and `pathReads_tables` says these are reads of `p4` and of the
tables referenced by present PS = 0 entries on the path. -/

/-- `translate` leaves memory and allocator alone and appends between one and four reads: a
prefix of the reads of a full walk along the address fields of the entries of `va`. -/
theorem translate_frame (k : Kind) (s : St) (p4 : Word) (va : Nat) :
    ∃ n, 1 ≤ n ∧ n ≤ 4 ∧
      (translate k s p4 va).2 =
        { s with log := ((pathReads s.mem p4 va).take n).reverse ++ s.log } := by
  rw [translate_eq_E]
  exact ⟨_, (translateE_count k _ _ _ _ va).1, (translateE_count k _ _ _ _ va).2, rfl⟩

theorem translate_mem (k : Kind) (s : St) (p4 : Word) (va : Nat) :
    (translate k s p4 va).2.mem = s.mem := by
  obtain ⟨n, _, _, h⟩ := translate_frame k s p4 va; rw [h]

theorem translate_allocs (k : Kind) (s : St) (p4 : Word) (va : Nat) :
    (translate k s p4 va).2.allocs = s.allocs := by
  obtain ⟨n, _, _, h⟩ := translate_frame k s p4 va; rw [h]

theorem translate_addr_frame (k : Kind) (s : St) (p4 : Word) (va : Nat) :
    ∃ n, 1 ≤ n ∧ n ≤ 4 ∧
      (translateAddr k s p4 va).2 =
        { s with log := ((pathReads s.mem p4 va).take n).reverse ++ s.log } := by
  rw [translateAddr_state]; exact translate_frame k s p4 va

theorem translate_addr_mem (k : Kind) (s : St) (p4 : Word) (va : Nat) :
    (translateAddr k s p4 va).2.mem = s.mem := by
  rw [translateAddr_state]; exact translate_mem k s p4 va

/-- `translate_page` (any parent-index list, any size): memory and allocator untouched; the log
grows by a prefix of the reads along the page's path (`readsOf`: the table at each step is the
address field of the entry read before) followed by the read of the slot. -/
theorem translate_page_frame (k : Kind) (s : St) (p4 : Word) (ps : List Nat) (li : Nat)
    (huge : Bool) (sz : Nat) :
    ∃ n, (translatePage k s p4 ps li huge sz).2 =
      { s with log :=
          ((readsOf s.mem p4 ps ++ [Ev.rd (lastTbl s.mem p4 ps) li]).take n).reverse ++ s.log } := by
  rw [translatePage_eq_E]; exact ⟨_, rfl⟩

theorem translate_page_mem (k : Kind) (s : St) (p4 : Word) (ps : List Nat) (li : Nat)
    (huge : Bool) (sz : Nat) : (translatePage k s p4 ps li huge sz).2.mem = s.mem := by
  obtain ⟨n, h⟩ := translate_page_frame k s p4 ps li huge sz; rw [h]

theorem translate_page_allocs (k : Kind) (s : St) (p4 : Word) (ps : List Nat) (li : Nat)
    (huge : Bool) (sz : Nat) : (translatePage k s p4 ps li huge sz).2.allocs = s.allocs := by
  obtain ⟨n, h⟩ := translate_page_frame k s p4 ps li huge sz; rw [h]

/-- The reads of the hardware walk are reads of in-range slots of `p4` and of the tables on the
path (frames referenced by present, PS = 0 entries). -/
theorem pathReads_tables (m : PMem) (p4 : Word) (va : Nat) :
    ∀ ev ∈ (pathReads m p4 va).take (walkDepth m p4 va),
      ∃ f i, ev = Ev.rd f i ∧ f ∈ pathTables m p4 va ∧ i < 512 := by
  have i4 : vaIdx4 va < 512 := Nat.mod_lt _ (by decide)
  have i3 : vaIdx3 va < 512 := Nat.mod_lt _ (by decide)
  have i2 : vaIdx2 va < 512 := Nat.mod_lt _ (by decide)
  have i1 : vaIdx1 va < 512 := Nat.mod_lt _ (by decide)
  intro ev hev
  by_cases r3 : reach3 m p4 va = true
  · by_cases r2 : reach2 m p4 va = true
    · by_cases r1 : reach1 m p4 va = true
      · simp [walkDepth, pathReads, r1] at hev
        rcases hev with rfl | rfl | rfl | rfl
        · exact ⟨_, _, rfl, by simp [pathTables], i4⟩
        · exact ⟨_, _, rfl, by simp [pathTables, r3], i3⟩
        · exact ⟨_, _, rfl, by simp [pathTables, r2], i2⟩
        · exact ⟨_, _, rfl, by simp [pathTables, r1], i1⟩
      · simp [walkDepth, pathReads, r1, r2] at hev
        rcases hev with rfl | rfl | rfl
        · exact ⟨_, _, rfl, by simp [pathTables], i4⟩
        · exact ⟨_, _, rfl, by simp [pathTables, r3], i3⟩
        · exact ⟨_, _, rfl, by simp [pathTables, r2], i2⟩
    · have r1 : ¬ reach1 m p4 va = true := fun h => r2 ((reach1_iff ..).1 h).1
      simp [walkDepth, pathReads, r1, r2, r3] at hev
      rcases hev with rfl | rfl
      · exact ⟨_, _, rfl, by simp [pathTables], i4⟩
      · exact ⟨_, _, rfl, by simp [pathTables, r3], i3⟩
  · have r2 : ¬ reach2 m p4 va = true := fun h => r3 ((reach2_iff ..).1 h).1
    have r1 : ¬ reach1 m p4 va = true := fun h => r2 ((reach1_iff ..).1 h).1
    simp [walkDepth, pathReads, r1, r2, r3] at hev
    subst hev
    exact ⟨_, _, rfl, by simp [pathTables], i4⟩

/-- Under `PathOK`, `translate` reads only in-range slots of `p4` and of table frames on the path. -/
theorem translate_reads_tables (k : Kind) (s : St) (p4 : Word) (va : Nat)
    (h : PathOK s.mem p4 va) :
    ∃ l : List Ev, (translate k s p4 va).2 = { s with log := l.reverse ++ s.log } ∧
      ∀ ev ∈ l, ∃ f i, ev = Ev.rd f i ∧ f ∈ pathTables s.mem p4 va ∧ i < 512 := by
  rw [translate_eq k s p4 va h]
  exact ⟨_, rfl, pathReads_tables s.mem p4 va⟩

example : pathTables demoMem 0x1000#64 0x5123 = [0x1000#64, 0x2000#64, 0x3000#64, 0x4000#64] ∧
    pathTables demoMem 0x1000#64 0x7fffffff = [0x1000#64, 0x2000#64] := by decide

/-! ### Each clause of the hypothesis is necessary

Concrete memories on which one clause of `PathOK` fails and `translate` (or `translate_page`)
differs from the hardware walk. -/

/-- PS set in the (present) P4 entry: the walk finds nothing, `translate` panics ("level 4 entry
has huge page bit set") for both kinds. -/
def badP4 : PMem := fun f i => if f = 0x1000#64 ∧ i = 0 then 0x2083#64 else 0#64
example : ¬ PathOK badP4 0x1000#64 0 ∧ walk badP4 0x1000#64 0 = none ∧
    (∀ r, (translate ⟨r⟩ ⟨badP4, [], []⟩ 0x1000#64 0).1 = .panic) := by decide

/-- A non-present P3 entry with PS set (`0x4000_0080`): no translation in hardware, but both
`next_table` variants report a huge page (neither tests `PRESENT` before `HUGE_PAGE`). -/
def badP3 : PMem := fun f i =>
  if f = 0x1000#64 ∧ i = 0 then 0x2003#64 else if f = 0x2000#64 ∧ i = 0 then 0x40000080#64 else 0#64
example : ¬ PathOK badP3 0x1000#64 0 ∧ walk badP3 0x1000#64 0 = none ∧
    (∀ r, (translate ⟨r⟩ ⟨badP3, [], []⟩ 0x1000#64 0).1 =
      .ok (.mapped 0x40000000#64 (2^30) 0 0x80#64)) := by decide

/-- A non-zero, non-present P4 entry without PS (`0x2002`): the non-recursive mappers agree with
the hardware (`PathOKFor ⟨false⟩` holds), the recursive one follows the entry (it only tests
`is_unused()`), so it needs "non-zero ⇒ present" at the upper levels too. -/
def badRec : PMem := fun f i =>
  if f = 0x1000#64 ∧ i = 0 then 0x2002#64 else if f = 0x2000#64 ∧ i = 0 then 0x40000083#64 else 0#64
example : ¬ PathOK badRec 0x1000#64 0 ∧ walk badRec 0x1000#64 0 = none ∧
    (translate ⟨false⟩ ⟨badRec, [], []⟩ 0x1000#64 0).1 = .ok .notMapped ∧
    (translate ⟨true⟩ ⟨badRec, [], []⟩ 0x1000#64 0).1 =
      .ok (.mapped 0x40000000#64 (2^30) 0 0x83#64) := by decide
example : PathOKFor ⟨false⟩ badRec 0x1000#64 0 := by
  unfold PathOKFor NtOK EntOK; decide

/-- A non-zero, non-present P1 entry (`0x7002`): `translate` and `translate_page` of both kinds
only test `is_unused()` at level 1 and report a mapping the hardware does not have. -/
def badP1 : PMem := fun f i =>
  if f = 0x1000#64 ∧ i = 0 then 0x2003#64 else if f = 0x2000#64 ∧ i = 0 then 0x3003#64
  else if f = 0x3000#64 ∧ i = 0 then 0x4003#64 else if f = 0x4000#64 ∧ i = 0 then 0x7002#64
  else 0#64
example : ¬ PathOK badP1 0x1000#64 0 ∧ walk badP1 0x1000#64 0 = none ∧
    (∀ r, (translate ⟨r⟩ ⟨badP1, [], []⟩ 0x1000#64 0).1 =
      .ok (.mapped 0x7000#64 4096 0 0x1002#64)) ∧
    (∀ r, (translatePage ⟨r⟩ ⟨badP1, [], []⟩ 0x1000#64 [0, 0, 0] 0 false 4096).1 =
      .ok 0x7000#64) := by decide

/-- A non-zero, non-present P2 slot without PS (`0x2`): `translate_page::<Size2MiB>` answers
`ParentEntryHugePage` where the walk just finds a non-present entry (`expect2M` = `PageNotMapped`). -/
def badP2 : PMem := fun f i =>
  if f = 0x1000#64 ∧ i = 0 then 0x2003#64 else if f = 0x2000#64 ∧ i = 0 then 0x3003#64
  else if f = 0x3000#64 ∧ i = 0 then 0x2#64 else 0#64
example : ¬ OK2 badP2 0x1000#64 0 ∧ expect2M badP2 0x1000#64 0 = .error .notMapped ∧
    (∀ r, (translatePage ⟨r⟩ ⟨badP2, [], []⟩ 0x1000#64 [0, 0] 0 true (2^21)).1 =
      .error .parentHuge) := by decide

end X86.C01
