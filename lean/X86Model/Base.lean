/-
Base definitions shared by every model: the result type of a Rust call that may
panic, the build-profile parameter, and checked/unchecked u64 arithmetic.
No imports beyond core: this file is linked into the `driver` executable.
-/
namespace X86

/-- Result of a Rust call that may panic. Panic messages are not modelled. -/
inductive R (α : Type) where
  | ok (a : α)
  | panic
  deriving DecidableEq, Repr, BEq

namespace R
def bind {α β} (r : R α) (f : α → R β) : R β :=
  match r with
  | ok a => f a
  | panic => panic

def map {α β} (f : α → β) (r : R α) : R β :=
  match r with
  | ok a => ok (f a)
  | panic => panic

instance : Monad R where
  pure := R.ok
  bind := R.bind

@[simp] theorem bind_ok {α β} (a : α) (f : α → R β) : (R.ok a).bind f = f a := rfl
@[simp] theorem bind_panic {α β} (f : α → R β) : (R.panic : R α).bind f = R.panic := rfl
@[simp] theorem map_ok {α β} (a : α) (f : α → β) : (R.ok a).map f = R.ok (f a) := rfl
@[simp] theorem map_panic {α β} (f : α → β) : (R.panic : R α).map f = R.panic := rfl

/-- `Option::unwrap` / `expect`. -/
def ofOption {α} : Option α → R α
  | some a => ok a
  | none => panic

@[simp] theorem ofOption_some {α} (a : α) : ofOption (some a) = ok a := rfl
@[simp] theorem ofOption_none {α} : ofOption (none : Option α) = panic := rfl
end R

/-- Build profile: `ovf = true` is a build with overflow checks (cargo `dev`/`test`
profile), `ovf = false` a build without (cargo `release`). -/
structure Cfg where
  ovf : Bool
  deriving DecidableEq, Repr

/-- Rust `a + b` on `u64`: exact when it fits, otherwise panic (checked build) or
wrap (unchecked build). -/
def addU64 (cfg : Cfg) (a b : Nat) : R Nat :=
  if a + b < 2^64 then .ok (a + b)
  else if cfg.ovf then .panic else .ok ((a + b) % 2^64)

/-- Rust `a - b` on `u64`. -/
def subU64 (cfg : Cfg) (a b : Nat) : R Nat :=
  if b ≤ a then .ok (a - b)
  else if cfg.ovf then .panic else .ok ((a + 2^64 - b) % 2^64)

/-- Rust `a * b` on `u64`. -/
def mulU64 (cfg : Cfg) (a b : Nat) : R Nat :=
  if a * b < 2^64 then .ok (a * b)
  else if cfg.ovf then .panic else .ok ((a * b) % 2^64)

/-- `u64::checked_add`. -/
def checkedAdd (a b : Nat) : Option Nat := if a + b < 2^64 then some (a + b) else none
/-- `u64::checked_sub`. -/
def checkedSub (a b : Nat) : Option Nat := if b ≤ a then some (a - b) else none
/-- `u64::checked_mul`. -/
def checkedMul (a b : Nat) : Option Nat := if a * b < 2^64 then some (a * b) else none

/-- `u64::is_power_of_two`, as the obviously-right finite search. -/
def isPow2 (n : Nat) : Bool := (List.range 64).any (fun k => n == 2^k)

/-- The three page sizes. -/
def size4K : Nat := 4096
def size2M : Nat := 2097152
def size1G : Nat := 1073741824

end X86
