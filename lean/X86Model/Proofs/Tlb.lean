/-
Helper lemmas for C11: the arithmetic of one iteration of the `invlpgb` chunking loop, on top of
the stepping theorems of C05.
-/
import X86Model.Model.Tlb
import X86Model.Spec.Tlb
import X86Model.Properties.C05
import X86Model.Proofs.Machine

namespace X86
open X86.Spec X86.Tlb

/-- The two page sizes the broadcast builder admits (`NotGiantPageSize`). -/
def notGiant (sz : Nat) : Prop := sz = 4096 ∨ sz = 2097152

theorem notGiant_pageSize {sz : Nat} (h : notGiant sz) : pageSize sz := by
  rcases h with h | h
  · exact Or.inl h
  · exact Or.inr (Or.inl h)

theorem secondHalf_page (sz : Nat) (h : notGiant sz) :
    Page.containingAddress sz SECOND_HALF = SECOND_HALF := by
  rcases h with h | h <;> subst h <;> decide

/-- Pages remaining = rank distance in pages, for canonical `s ≤ e`. -/
theorem remaining_eq (sz s e : Nat) (hs : canon s) (he : canon e) (hle : s ≤ e) :
    remaining sz s e = (rank e - rank s) / sz := by
  unfold remaining
  rw [C05.page_steps_eq_spec sz s e hs he]
  have hr : rank s ≤ rank e := (C05.rank_le_iff s e hs he).2 hle
  simp only [stepsPairSpec, stepsSpec, hr, if_true]

theorem remaining_gt (sz s e : Nat) (hs : canon s) (he : canon e) (hgt : e < s) :
    remaining sz s e = 0 := by
  unfold remaining
  rw [C05.page_steps_eq_spec sz s e hs he]
  have hr : ¬ rank s ≤ rank e := fun h => by
    have := (C05.rank_le_iff s e hs he).1 h; omega
  simp only [stepsPairSpec, stepsSpec, hr, if_false]


theorem canon_secondHalf : canon SECOND_HALF := by decide

/-- The count of one iteration, in closed form. -/
theorem chunkCount_eq (sz cm s e : Nat) (hsz : notGiant sz) (hs : canon s) (he : canon e) (hlt : s < e) :
    chunkCount sz cm s e =
      min (min (if s < SECOND_HALF then min ((rank e - rank s) / sz) ((rank SECOND_HALF - rank s) / sz)
                else (rank e - rank s) / sz) 65535) cm := by
  have hcap : ∀ c : Nat, (if c < 65536 then c else 65535) = min c 65535 := by
    intro c; split <;> omega
  unfold chunkCount
  dsimp only
  rw [secondHalf_page sz hsz, remaining_eq sz s e hs he (Nat.le_of_lt hlt), hcap]
  by_cases hlow : s < SECOND_HALF
  · rw [remaining_eq sz s SECOND_HALF hs canon_secondHalf (Nat.le_of_lt hlow)]
  · simp only [hlow, if_false]

/-- Moving to a later rank `r` (not beyond `e`, and not into the gap from the lower half). -/
theorem unrank_step (s e r : Nat) (hs : canon s) (he : canon e) (h1 : rank s < r) (h2 : r ≤ rank e)
    (h3 : s < 2^47 → r ≤ 2^47) :
    rank (unrank r) = r ∧ s < unrank r ∧ unrank r ≤ e := by
  unfold canon at hs he
  have hr : r < 2^48 := by have := Nat.mod_lt e (by decide : 2^48 > 0); simp only [rank] at h2; omega
  simp only [rank] at h1 h2 ⊢
  by_cases hh : r < 2^47
  · simp only [unrank, hh, if_true]; omega
  · simp only [unrank, hh, if_false]; omega

/-- Everything one loop iteration guarantees (for a non-empty range of aligned canonical pages). -/
theorem chunk_step (sz cm s e : Nat) (hsz : notGiant sz) (hs : canon s) (hsa : s % sz = 0)
    (he : canon e) (hea : e % sz = 0) (hlt : s < e) :
    chunkCount sz cm s e ≤ min cm 65535 ∧
    rank s + max (chunkCount sz cm s e) 1 * sz ≤ rank e ∧
    (s < 2^47 → s + max (chunkCount sz cm s e) 1 * sz ≤ 2^47) ∧
    ∃ next, Page.forwardChecked sz s (max (chunkCount sz cm s e) 1) = some next ∧
      pageForwardSpec sz s (max (chunkCount sz cm s e) 1) = some next ∧
      canon next ∧ next % sz = 0 ∧ rank next = rank s + max (chunkCount sz cm s e) 1 * sz ∧
      s < next ∧ next ≤ e := by
  have hc := chunkCount_eq sz cm s e hsz hs he hlt
  generalize chunkCount sz cm s e = count at hc ⊢
  have hcount : count ≤ min cm 65535 ∧ rank s + max count 1 * sz ≤ rank e ∧
      (s < 2^47 → s + max count 1 * sz ≤ 2^47) := by
    unfold canon at hs he
    simp only [SECOND_HALF, rank] at hc ⊢
    by_cases hlow : s < 18446603336221196288
    · simp only [hlow, if_true] at hc
      rcases hsz with h' | h' <;> subst h' <;> omega
    · simp only [hlow, if_false] at hc
      rcases hsz with h' | h' <;> subst h' <;> omega
  obtain ⟨h1, h2, h3⟩ := hcount
  refine ⟨h1, h2, h3, ?_⟩
  have hn : max count 1 < 2^64 := by omega
  have hf := C05.page_forward_eq_spec sz s (max count 1) (notGiant_pageSize hsz) hs hn
  have hsp : pageForwardSpec sz s (max count 1) = some (unrank (rank s + max count 1 * sz)) := by
    have : rank s + max count 1 * sz < 2^48 := by
      have := Nat.mod_lt e (by decide : 2^48 > 0); simp only [rank] at h2 ⊢; omega
    simp only [pageForwardSpec, this, if_true]
  refine ⟨unrank (rank s + max count 1 * sz), by rw [hf, hsp], hsp, ?_⟩
  have hal := C05.page_forward_aligned sz s (max count 1) _ (notGiant_pageSize hsz) hs hn hsa (by rw [hf, hsp])
  have hk : 0 < max count 1 * sz := by
    rcases hsz with h' | h' <;> subst h' <;> omega
  have hlow : s < 2^47 → rank s + max count 1 * sz ≤ 2^47 := by
    intro hl; have := h3 hl; simp only [rank]; omega
  obtain ⟨g1, g2, g3⟩ := unrank_step s e (rank s + max count 1 * sz) hs he (by omega) h2 hlow
  exact ⟨hal.2, hal.1, g1, g2, g3⟩


/-- The options of a builder, as the specification sees them. -/
def optsOf (pcid asid : Option Nat) (g f n : Bool) : InvlpgbOpts :=
  { pcid := pcid, asid := asid, global := g, finalOnly := f, nested := n }

theorem setBit_clear (x i : Nat) (b : Bool) (h : x / 2^i % 2 = 0) :
    setBit x i b = x + (if b then 2^i else 0) := by
  unfold setBit; rw [h]; simp

theorem setBits_clear (x lo len v : Nat) (h : x / 2^lo % 2^len = 0) :
    setBits x lo len v = x + v * 2^lo := by
  unfold setBits; rw [h]; simp

def b2n (b : Bool) : Nat := if b then 1 else 0

/-- Evaluate `broadcastRegs` to sums: each `set_bit`/`set_bits` hits a clear field. -/
macro "bits_eval" : tactic => `(tactic|
  (simp (disch := first | omega | (simp only [Nat.reducePow]; omega) | decide) only
      [broadcastRegs, setBit_clear, setBits_clear, b2n,
       if_true, if_false, Nat.reducePow, Nat.zero_add, Nat.add_zero, Nat.mul_one, Nat.mul_zero,
       Bool.false_eq_true, size2M, Nat.reduceBEq, Option.isSome, Option.getD,
       BroadcastRegs.mk.injEq, and_true, true_and] <;>
   (try omega)))

/-- Closed form of the register image of a range request. -/
theorem broadcastRegs_closed (sz va count : Nat) (pcid asid : Option Nat) (g f n : Bool)
    (hsz : notGiant sz) (hva : va % 4096 = 0) (hc : count < 65536)
    (hp : ∀ p, pcid = some p → p < 4096) (ha : ∀ a, asid = some a → a < 65536) :
    broadcastRegs sz (some (va, count)) pcid asid g f n =
      ⟨1 + va + 2 * b2n pcid.isSome + 4 * b2n asid.isSome + 8 * b2n g + 16 * b2n f + 32 * b2n n,
       count + 2147483648 * b2n (sz == size2M),
       pcid.getD 0 * 65536 + asid.getD 0⟩ := by
  cases pcid with
  | none =>
    cases asid with
    | none =>
      rcases hsz with h | h <;> subst h <;> cases g <;> cases f <;> cases n <;> bits_eval
    | some a =>
      have := ha a rfl
      rcases hsz with h | h <;> subst h <;> cases g <;> cases f <;> cases n <;> bits_eval
  | some p =>
    have := hp p rfl
    cases asid with
    | none =>
      rcases hsz with h | h <;> subst h <;> cases g <;> cases f <;> cases n <;> bits_eval
    | some a =>
      have := ha a rfl
      rcases hsz with h | h <;> subst h <;> cases g <;> cases f <;> cases n <;> bits_eval


theorem b2n_le (b : Bool) : b2n b ≤ 1 := by cases b <;> decide
theorem b2n_beq (b : Bool) : (b2n b == 1) = b := by cases b <;> decide

/-- Field arithmetic of the closed form (option bits as 0/1 numbers). -/
theorem closed_fields (va count p a x1 x2 x3 x4 x5 x6 : Nat)
    (hva : va % 4096 = 0) (hva64 : va < 2^64) (hc : count < 65536) (hp : p < 4096) (ha : a < 65536)
    (h1 : x1 ≤ 1) (h2 : x2 ≤ 1) (h3 : x3 ≤ 1) (h4 : x4 ≤ 1) (h5 : x5 ≤ 1) (h6 : x6 ≤ 1) :
    (1 + va + 2 * x1 + 4 * x2 + 8 * x3 + 16 * x4 + 32 * x5) % 2 = 1 ∧
    (1 + va + 2 * x1 + 4 * x2 + 8 * x3 + 16 * x4 + 32 * x5) / 2 % 2 = x1 ∧
    (1 + va + 2 * x1 + 4 * x2 + 8 * x3 + 16 * x4 + 32 * x5) / 4 % 2 = x2 ∧
    (1 + va + 2 * x1 + 4 * x2 + 8 * x3 + 16 * x4 + 32 * x5) / 8 % 2 = x3 ∧
    (1 + va + 2 * x1 + 4 * x2 + 8 * x3 + 16 * x4 + 32 * x5) / 16 % 2 = x4 ∧
    (1 + va + 2 * x1 + 4 * x2 + 8 * x3 + 16 * x4 + 32 * x5) / 32 % 2 = x5 ∧
    (1 + va + 2 * x1 + 4 * x2 + 8 * x3 + 16 * x4 + 32 * x5) / 4096 * 4096 = va ∧
    (1 + va + 2 * x1 + 4 * x2 + 8 * x3 + 16 * x4 + 32 * x5) / 64 % 64 = 0 ∧
    (1 + va + 2 * x1 + 4 * x2 + 8 * x3 + 16 * x4 + 32 * x5) < 18446744073709551616 ∧
    (count + 2147483648 * x6) % 65536 = count ∧
    (count + 2147483648 * x6) / 2147483648 % 2 = x6 ∧
    (count + 2147483648 * x6) / 65536 % 32768 = 0 ∧
    (count + 2147483648 * x6) < 4294967296 ∧
    (p * 65536 + a) % 65536 = a ∧ (p * 65536 + a) / 65536 % 4096 = p ∧
    (p * 65536 + a) / 268435456 = 0 ∧ (p * 65536 + a) < 4294967296 := by
  refine ⟨?_, ?_, ?_, ?_, ?_, ?_, ?_, ?_, ?_, ?_, ?_, ?_, ?_, ?_, ?_, ?_, ?_⟩ <;> omega

/-- Decoding the closed form per the APM layout gives back every field, and the reserved
positions are zero. -/
theorem decode_closed (va count p a : Nat) (bp ba g f n m : Bool)
    (hva : va % 4096 = 0) (hva64 : va < 2^64) (hc : count < 65536) (hp : p < 4096) (ha : a < 65536) :
    decodeInvlpgb (1 + va + 2 * b2n bp + 4 * b2n ba + 8 * b2n g + 16 * b2n f + 32 * b2n n)
        (count + 2147483648 * b2n m) (p * 65536 + a) =
      { vaValid := true, pcidValid := bp, asidValid := ba, global := g, finalOnly := f, nested := n,
        va := va, count := count, size2M := m, asid := a, pcid := p } ∧
    (1 + va + 2 * b2n bp + 4 * b2n ba + 8 * b2n g + 16 * b2n f + 32 * b2n n) / 64 % 64 = 0 ∧
    (count + 2147483648 * b2n m) / 65536 % 2^15 = 0 ∧ (p * 65536 + a) / 2^28 = 0 ∧
    (1 + va + 2 * b2n bp + 4 * b2n ba + 8 * b2n g + 16 * b2n f + 32 * b2n n) < 2^64 ∧
    (count + 2147483648 * b2n m) < 2^32 ∧ (p * 65536 + a) < 2^32 := by
  obtain ⟨f1, f2, f3, f4, f5, f6, f7, f8, f9, f10, f11, f12, f13, f14, f15, f16, f17⟩ :=
    closed_fields va count p a (b2n bp) (b2n ba) (b2n g) (b2n f) (b2n n) (b2n m) hva hva64 hc hp ha
      (b2n_le _) (b2n_le _) (b2n_le _) (b2n_le _) (b2n_le _) (b2n_le _)
  simp only [decodeInvlpgb, Nat.reducePow, f1, f2, f3, f4, f5, f6, f7, f8, f10, f11, f12, f14, f15, f16,
    b2n_beq, beq_self_eq_true, true_and]
  exact ⟨f9, f13, f17⟩


/-- The register triple `flush_broadcast` builds for one `(va, count)` request. -/
def encReq (sz : Nat) (pcid asid : Option Nat) (g f n : Bool) (r : Nat × Nat) : Nat × Nat × Nat :=
  ((broadcastRegs sz (some r) pcid asid g f n).rax, (broadcastRegs sz (some r) pcid asid g f n).ecx,
   (broadcastRegs sz (some r) pcid asid g f n).edx)

theorem remaining_decreases (sz s e inc next : Nat) (hsz : notGiant sz) (hs : canon s) (he : canon e)
    (hn : canon next) (hle : s ≤ e) (hne : next ≤ e) (hinc : 1 ≤ inc)
    (hr : rank next = rank s + inc * sz) (h2 : rank s + inc * sz ≤ rank e) :
    remaining sz next e < remaining sz s e := by
  rw [remaining_eq sz next e hn he hne, remaining_eq sz s e hs he hle, hr]
  simp only [rank] at h2 ⊢
  rcases hsz with h | h <;> subst h <;> omega

/-- One unfolding of the loop for a non-empty range of valid pages, with everything the
iteration guarantees. -/
theorem flushLoop_step (sz cm s e : Nat) (hsz : notGiant sz) (hs : canon s) (hsa : s % sz = 0)
    (he : canon e) (hea : e % sz = 0) (hlt : s < e) :
    ∃ next,
      flushLoop sz cm e s =
        ⟨(s, chunkCount sz cm s e) :: (flushLoop sz cm e next).reqs, (flushLoop sz cm e next).status⟩ ∧
      remaining sz next e < remaining sz s e ∧
      canon next ∧ next % sz = 0 ∧
      pageForwardSpec sz s (max (chunkCount sz cm s e) 1) = some next ∧
      rank next ≤ rank e ∧
      chunkCount sz cm s e ≤ min cm 65535 ∧
      (s < 2^47 → s + max (chunkCount sz cm s e) 1 * sz ≤ 2^47) := by
  obtain ⟨h1, h2, h3, next, hf, hsp, hcn, hna, hr, hsn, hne⟩ := chunk_step sz cm s e hsz hs hsa he hea hlt
  have hdec := remaining_decreases sz s e (max (chunkCount sz cm s e) 1) next hsz hs he hcn
    (Nat.le_of_lt hlt) hne (by omega) hr h2
  refine ⟨next, ?_, hdec, hcn, hna, hsp, by rw [hr]; exact h2, h1, h3⟩
  rw [flushLoop]
  have hng : ¬ s ≥ e := by omega
  simp only [hng, if_false, hf, hdec, if_true]

/-- The head request of an iteration decodes to exactly what the specification asks of it. -/
theorem head_ok (sz s count : Nat) (pcid asid : Option Nat) (g f n : Bool) (hsz : notGiant sz)
    (hs : canon s) (hsa : s % sz = 0) (hc : count < 65536)
    (hp : ∀ p, pcid = some p → p < 4096) (ha : ∀ a, asid = some a → a < 65536) :
    let q := encReq sz pcid asid g f n (s, count)
    let r := decodeInvlpgb q.1 q.2.1 q.2.2
    r.vaValid = true ∧ r.va = s ∧ r.count = count ∧ r.size2M = (sz == size2M) ∧
    optsOk (optsOf pcid asid g f n) q.1 q.2.1 q.2.2 r = true := by
  have hva : s % 4096 = 0 := by rcases hsz with h | h <;> subst h <;> omega
  have hva64 : s < 2^64 := by unfold canon at hs; omega
  have hpp : pcid.getD 0 < 4096 := by
    cases pcid with
    | none => decide
    | some p => exact hp p rfl
  have haa : asid.getD 0 < 65536 := by
    cases asid with
    | none => decide
    | some a => exact ha a rfl
  have hcl := broadcastRegs_closed sz s count pcid asid g f n hsz hva hc hp ha
  obtain ⟨d1, d2, d3, d4, d5, d6, d7⟩ := decode_closed s count (pcid.getD 0) (asid.getD 0) pcid.isSome asid.isSome
    g f n (sz == size2M) hva hva64 hc hpp haa
  simp only [encReq, hcl, d1, optsOk, optsOf, beq_self_eq_true, Bool.and_self, Bool.true_and, Bool.and_true,
    d2, d3, d4, decide_eq_true_eq, d5, d6, d7, and_self, Bool.and_eq_true, beq_iff_eq]


/-- Set arithmetic of one iteration: the extent `[s, s+K)` plus the canonical rest `[next, e)` is
the canonical part of `[s, e)`. -/
theorem cover_step (s e next K a : Nat) (hs : canon s) (he : canon e) (hcn : canon next)
    (hr : rank next = rank s + K) (hgap : s < 2^47 → s + K ≤ 2^47) (hsn : s < next) (hne : next ≤ e) :
    ((s ≤ a ∧ a < s + K) ∨ (next ≤ a ∧ a < e ∧ canon a)) ↔ (s ≤ a ∧ a < e ∧ canon a) := by
  unfold canon at hs he hcn ⊢
  simp only [rank] at hr
  constructor
  · rintro (h | h) <;> omega
  · intro h
    by_cases hin : a < s + K
    · exact Or.inl (by omega)
    · exact Or.inr (by omega)

end X86
