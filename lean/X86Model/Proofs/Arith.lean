/-
Helper lemmas for C07: exact characterisation of the arithmetic operators of the model.
-/
import X86Model.Model.Page
import X86Model.Spec.Canon
import X86Model.Proofs.Canon

namespace X86
open X86.Spec

theorem itemsSpec_length (sz s n : Nat) : (itemsSpec sz s n).length = n := by
  induction n generalizing s with
  | zero => rfl
  | succ n ih => simp only [itemsSpec, List.length_cons, ih]

theorem itemsSpec_get (sz s n i : Nat) (h : i < n) : (itemsSpec sz s n)[i]? = some (s + i * sz) := by
  induction n generalizing s i with
  | zero => omega
  | succ n ih =>
    cases i with
    | zero => simp [itemsSpec]
    | succ j =>
      simp only [itemsSpec, List.getElem?_cons_succ]
      rw [ih (s + sz) j (by omega)]
      congr 1; rw [Nat.add_mul]; omega

/-! ### VirtAddr -/

theorem va_new_ok (a : Nat) (h : canon a) : VirtAddr.new a = R.ok a := by
  unfold VirtAddr.new VirtAddr.tryNew VirtAddr.newTruncate
  rw [if_pos (signExt48_canon a h)]; rfl

theorem va_new_ok_inv (a r : Nat) (h : VirtAddr.new a = R.ok r) : r = a ∧ canon a := by
  unfold VirtAddr.new VirtAddr.tryNew VirtAddr.newTruncate at h
  by_cases he : signExt48 a = a
  · rw [if_pos he] at h; simp only [R.ofOption_some, R.ok.injEq] at h
    exact ⟨h.symm, he ▸ signExt48_is_canon a⟩
  · rw [if_neg he] at h; cases h

theorem va_add_eq (a n : Nat) (h1 : a + n < 2^64) (h2 : canon (a + n)) : VirtAddr.add a n = R.ok (a + n) := by
  unfold VirtAddr.add checkedAdd
  rw [if_pos h1]; simp only [R.ofOption_some, R.bind_ok]; exact va_new_ok _ h2

theorem va_add_inv (a n r : Nat) (h : VirtAddr.add a n = R.ok r) : r = a + n ∧ a + n < 2^64 ∧ canon r := by
  unfold VirtAddr.add checkedAdd at h
  by_cases h1 : a + n < 2^64
  · rw [if_pos h1] at h; simp only [R.ofOption_some, R.bind_ok] at h
    have := va_new_ok_inv _ _ h; exact ⟨this.1, h1, this.1 ▸ this.2⟩
  · rw [if_neg h1] at h; cases h

theorem va_sub_eq (a n : Nat) (h1 : n ≤ a) (h2 : canon (a - n)) : VirtAddr.sub a n = R.ok (a - n) := by
  unfold VirtAddr.sub checkedSub
  rw [if_pos h1]; simp only [R.ofOption_some, R.bind_ok]; exact va_new_ok _ h2

theorem va_sub_inv (a n r : Nat) (h : VirtAddr.sub a n = R.ok r) : r = a - n ∧ n ≤ a ∧ canon r := by
  unfold VirtAddr.sub checkedSub at h
  by_cases h1 : n ≤ a
  · rw [if_pos h1] at h; simp only [R.ofOption_some, R.bind_ok] at h
    have := va_new_ok_inv _ _ h; exact ⟨this.1, h1, this.1 ▸ this.2⟩
  · rw [if_neg h1] at h; cases h

theorem subaddr_inv (a b r : Nat) (h : R.ofOption (checkedSub a b) = R.ok r) : r = a - b ∧ b ≤ a := by
  unfold checkedSub at h
  by_cases h1 : b ≤ a
  · rw [if_pos h1] at h; simp only [R.ofOption_some, R.ok.injEq] at h; exact ⟨h.symm, h1⟩
  · rw [if_neg h1] at h; cases h

/-! ### PhysAddr -/

theorem pa_new_ok (a : Nat) (h : physValid a) : PhysAddr.new a = R.ok a := by
  unfold physValid at h
  unfold PhysAddr.new PhysAddr.tryNew PhysAddr.newTruncate
  rw [if_pos (Nat.mod_eq_of_lt h)]; rfl

theorem pa_new_ok_inv (a r : Nat) (h : PhysAddr.new a = R.ok r) : r = a ∧ physValid a := by
  unfold PhysAddr.new PhysAddr.tryNew PhysAddr.newTruncate at h
  by_cases he : a % 2^52 = a
  · rw [if_pos he] at h; simp only [R.ofOption_some, R.ok.injEq] at h
    exact ⟨h.symm, by unfold physValid; omega⟩
  · rw [if_neg he] at h; cases h

theorem pa_add_eq (a n : Nat) (h2 : physValid (a + n)) : PhysAddr.add a n = R.ok (a + n) := by
  have h1 : a + n < 2^64 := by unfold physValid at h2; omega
  unfold PhysAddr.add checkedAdd
  rw [if_pos h1]; simp only [R.ofOption_some, R.bind_ok]; exact pa_new_ok _ h2

theorem pa_add_inv (a n r : Nat) (h : PhysAddr.add a n = R.ok r) : r = a + n ∧ physValid r := by
  unfold PhysAddr.add checkedAdd at h
  by_cases h1 : a + n < 2^64
  · rw [if_pos h1] at h; simp only [R.ofOption_some, R.bind_ok] at h
    have := pa_new_ok_inv _ _ h; exact ⟨this.1, this.1 ▸ this.2⟩
  · rw [if_neg h1] at h; cases h

theorem pa_sub_eq (a n : Nat) (h1 : n ≤ a) (h2 : physValid (a - n)) : PhysAddr.sub a n = R.ok (a - n) := by
  unfold PhysAddr.sub checkedSub
  rw [if_pos h1]; simp only [R.ofOption_some, R.bind_ok]; exact pa_new_ok _ h2

theorem pa_sub_inv (a n r : Nat) (h : PhysAddr.sub a n = R.ok r) : r = a - n ∧ n ≤ a ∧ physValid r := by
  unfold PhysAddr.sub checkedSub at h
  by_cases h1 : n ≤ a
  · rw [if_pos h1] at h; simp only [R.ofOption_some, R.bind_ok] at h
    have := pa_new_ok_inv _ _ h; exact ⟨this.1, h1, this.1 ▸ this.2⟩
  · rw [if_neg h1] at h; cases h

/-! ### Pages and frames -/

theorem page_add_eq (sz p n : Nat) (hal : p % sz = 0) (h0 : n * sz < 2^64)
    (h1 : p + n * sz < 2^64) (h2 : canon (p + n * sz)) : Page.add sz p n = R.ok (p + n * sz) := by
  unfold Page.add checkedMul
  rw [if_pos h0]; simp only [R.ofOption_some, R.bind_ok]
  rw [va_add_eq p _ h1 h2]; simp only [R.map_ok]
  congr 1
  apply containing_of_aligned sz _ h2
  rw [Nat.add_mul_mod_self_right]; exact hal

theorem page_add_inv (sz p n r : Nat) (hal : p % sz = 0) (h : Page.add sz p n = R.ok r) :
    r = p + n * sz ∧ n * sz < 2^64 ∧ p + n * sz < 2^64 ∧ canon r := by
  unfold Page.add checkedMul at h
  by_cases h0 : n * sz < 2^64
  · rw [if_pos h0] at h; simp only [R.ofOption_some, R.bind_ok] at h
    cases hv : VirtAddr.add p (n * sz) with
    | panic => rw [hv] at h; cases h
    | ok w =>
      rw [hv] at h; simp only [R.map_ok, R.ok.injEq] at h
      obtain ⟨hw, hlt, hc⟩ := va_add_inv _ _ _ hv
      have : Page.containingAddress sz w = w :=
        containing_of_aligned sz w hc (by rw [hw, Nat.add_mul_mod_self_right]; exact hal)
      rw [this] at h; subst h
      exact ⟨hw, h0, hlt, hc⟩
  · rw [if_neg h0] at h; cases h

theorem page_sub_eq (sz p n : Nat) (hal : p % sz = 0) (h0 : n * sz ≤ p) (hp : p < 2^64)
    (h2 : canon (p - n * sz)) : Page.sub sz p n = R.ok (p - n * sz) := by
  unfold Page.sub checkedMul
  rw [if_pos (by omega)]; simp only [R.ofOption_some, R.bind_ok]
  rw [va_sub_eq p _ h0 h2]; simp only [R.map_ok]
  congr 1
  apply containing_of_aligned sz _ h2
  have hd : sz ∣ p := Nat.dvd_of_mod_eq_zero hal
  exact Nat.mod_eq_zero_of_dvd (Nat.dvd_sub hd (Nat.dvd_mul_left sz n))

theorem page_sub_inv (sz p n r : Nat) (hal : p % sz = 0) (h : Page.sub sz p n = R.ok r) :
    r = p - n * sz ∧ n * sz ≤ p ∧ canon r := by
  unfold Page.sub checkedMul at h
  by_cases h0 : n * sz < 2^64
  · rw [if_pos h0] at h; simp only [R.ofOption_some, R.bind_ok] at h
    cases hv : VirtAddr.sub p (n * sz) with
    | panic => rw [hv] at h; cases h
    | ok w =>
      rw [hv] at h; simp only [R.map_ok, R.ok.injEq] at h
      obtain ⟨hw, hle, hc⟩ := va_sub_inv _ _ _ hv
      have hd : sz ∣ p := Nat.dvd_of_mod_eq_zero hal
      have : Page.containingAddress sz w = w :=
        containing_of_aligned sz w hc
          (by rw [hw]; exact Nat.mod_eq_zero_of_dvd (Nat.dvd_sub hd (Nat.dvd_mul_left sz n)))
      rw [this] at h; subst h
      exact ⟨hw, hle, hc⟩
  · rw [if_neg h0] at h; cases h

theorem frame_containing_aligned (sz f : Nat) (hal : f % sz = 0) : PhysFrame.containingAddress sz f = f := by
  unfold PhysFrame.containingAddress; rw [hal]; rfl

theorem frame_add_eq (sz f n : Nat) (hal : f % sz = 0) (h2 : physValid (f + n * sz)) :
    PhysFrame.add sz f n = R.ok (f + n * sz) := by
  have h0 : n * sz < 2^64 := by unfold physValid at h2; omega
  unfold PhysFrame.add checkedMul
  rw [if_pos h0]; simp only [R.ofOption_some, R.bind_ok]
  rw [pa_add_eq f _ h2]; simp only [R.map_ok]
  congr 1
  apply frame_containing_aligned
  rw [Nat.add_mul_mod_self_right]; exact hal

theorem frame_add_inv (sz f n r : Nat) (hal : f % sz = 0) (h : PhysFrame.add sz f n = R.ok r) :
    r = f + n * sz ∧ physValid r := by
  unfold PhysFrame.add checkedMul at h
  by_cases h0 : n * sz < 2^64
  · rw [if_pos h0] at h; simp only [R.ofOption_some, R.bind_ok] at h
    cases hv : PhysAddr.add f (n * sz) with
    | panic => rw [hv] at h; cases h
    | ok w =>
      rw [hv] at h; simp only [R.map_ok, R.ok.injEq] at h
      obtain ⟨hw, hc⟩ := pa_add_inv _ _ _ hv
      rw [frame_containing_aligned sz w (by rw [hw, Nat.add_mul_mod_self_right]; exact hal)] at h
      subst h; exact ⟨hw, hc⟩
  · rw [if_neg h0] at h; cases h

theorem frame_sub_eq (sz f n : Nat) (hal : f % sz = 0) (h0 : n * sz ≤ f) (hf : physValid f) :
    PhysFrame.sub sz f n = R.ok (f - n * sz) := by
  unfold physValid at hf
  unfold PhysFrame.sub checkedMul
  rw [if_pos (by omega)]; simp only [R.ofOption_some, R.bind_ok]
  rw [pa_sub_eq f _ h0 (by unfold physValid; omega)]; simp only [R.map_ok]
  congr 1
  apply frame_containing_aligned
  have hd : sz ∣ f := Nat.dvd_of_mod_eq_zero hal
  exact Nat.mod_eq_zero_of_dvd (Nat.dvd_sub hd (Nat.dvd_mul_left sz n))

theorem frame_sub_inv (sz f n r : Nat) (hal : f % sz = 0) (h : PhysFrame.sub sz f n = R.ok r) :
    r = f - n * sz ∧ n * sz ≤ f ∧ physValid r := by
  unfold PhysFrame.sub checkedMul at h
  by_cases h0 : n * sz < 2^64
  · rw [if_pos h0] at h; simp only [R.ofOption_some, R.bind_ok] at h
    cases hv : PhysAddr.sub f (n * sz) with
    | panic => rw [hv] at h; cases h
    | ok w =>
      rw [hv] at h; simp only [R.map_ok, R.ok.injEq] at h
      obtain ⟨hw, hle, hc⟩ := pa_sub_inv _ _ _ hv
      have hd : sz ∣ f := Nat.dvd_of_mod_eq_zero hal
      rw [frame_containing_aligned sz w
        (by rw [hw]; exact Nat.mod_eq_zero_of_dvd (Nat.dvd_sub hd (Nat.dvd_mul_left sz n)))] at h
      subst h; exact ⟨hw, hle, hc⟩
  · rw [if_neg h0] at h; cases h

end X86
