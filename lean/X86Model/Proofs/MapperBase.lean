/-
Memory-level view of the mapper model: what each operation does to `St.mem`, ignoring the ghost
log; the table-tree function `tblAt`; and the hardware walk restated recursively (`walkFrom`).
-/
import X86Model.Model.Mapper
import X86Model.Spec.Walk
import Std.Tactic.BVDecide

namespace X86
open X86.Spec

/-! ### Entry-level facts (model names = spec names) -/

theorem present_eq_bitP (e : Word) : Pte.present e = bitP e := rfl
theorem huge_eq_bitPS (e : Word) : Pte.huge e = bitPS e := rfl
theorem addr_eq_tableAddr (e : Word) : Pte.addr e = tableAddr e := rfl

/-- The table an entry points to, if it is a present non-huge entry. -/
def tableOf (e : Word) : Option Word :=
  if Pte.present e && !Pte.huge e then some (Pte.addr e) else none

theorem nextTable_ok_iff (e t : Word) : nextTable e = .ok t ↔ tableOf e = some t := by
  unfold nextTable tableOf
  cases hh : Pte.huge e <;> cases hp : Pte.present e <;> simp

theorem nextTable_eq (e : Word) :
    nextTable e = match tableOf e with
      | some t => .ok t
      | none => if Pte.huge e then .error .hugePage else .error .notMapped := by
  unfold nextTable tableOf
  cases hh : Pte.huge e <;> cases hp : Pte.present e <;> simp

/-! ### `PMem.set` -/

@[simp] theorem PMem.set_same (m : PMem) (f : Word) (i : Nat) (v : Word) : (m.set f i v) f i = v := by
  simp [PMem.set]

theorem PMem.set_other (m : PMem) (f : Word) (i : Nat) (v : Word) (f' : Word) (i' : Nat)
    (h : ¬ (f' = f ∧ i' = i)) : (m.set f i v) f' i' = m f' i' := by
  simp [PMem.set, h]

/-! ### `St` primitives at memory level -/

@[simp] theorem St.rd_fst (s : St) (f : Word) (i : Nat) : (s.rd f i).1 = s.mem f i := rfl
@[simp] theorem St.rd_mem (s : St) (f : Word) (i : Nat) : (s.rd f i).2.mem = s.mem := rfl
@[simp] theorem St.rd_allocs (s : St) (f : Word) (i : Nat) : (s.rd f i).2.allocs = s.allocs := rfl
@[simp] theorem St.wr_mem (s : St) (f : Word) (i : Nat) (v : Word) : (s.wr f i v).mem = s.mem.set f i v := rfl
@[simp] theorem St.wr_allocs (s : St) (f : Word) (i : Nat) (v : Word) : (s.wr f i v).allocs = s.allocs := rfl
@[simp] theorem St.dealloc_mem (s : St) (f : Word) : (s.dealloc f).mem = s.mem := rfl

/-- Memory after zeroing a table: all 512 words of `f` are zero, everything else unchanged. -/
def PMem.zeroed (m : PMem) (f : Word) : PMem := fun f' i' => if f' = f ∧ i' < 512 then 0#64 else m f' i'

private theorem zero_fold_mem (f : Word) (l : List Nat) (s : St) :
    (l.foldl (fun s i => s.wr f i 0#64) s).mem = fun f' i' => if f' = f ∧ i' ∈ l then 0#64 else s.mem f' i' := by
  induction l generalizing s with
  | nil => funext f' i'; simp
  | cons a l ih =>
    rw [List.foldl_cons, ih]
    funext f' i'
    simp only [St.wr_mem, PMem.set, List.mem_cons]
    by_cases h1 : f' = f <;> by_cases h2 : i' = a <;> by_cases h3 : i' ∈ l <;> simp [h1, h2, h3]

theorem St.zeroTable_mem (s : St) (f : Word) : (s.zeroTable f).mem = s.mem.zeroed f := by
  unfold St.zeroTable PMem.zeroed
  rw [zero_fold_mem]
  funext f' i'
  simp only [List.mem_range]

private theorem zero_fold_allocs (f : Word) (l : List Nat) (s : St) :
    (l.foldl (fun s i => s.wr f i 0#64) s).allocs = s.allocs := by
  induction l generalizing s with
  | nil => rfl
  | cons a l ih => rw [List.foldl_cons, ih]; rfl

@[simp] theorem St.zeroTable_allocs (s : St) (f : Word) : (s.zeroTable f).allocs = s.allocs :=
  zero_fold_allocs f _ s

/-! ### The table tree -/

/-- Table reached from `t` by following `path` through present, non-huge entries. -/
def tblAt (m : PMem) : Word → List Nat → Option Word
  | t, [] => some t
  | t, i :: rest =>
    match tableOf (m t i) with
    | some t' => tblAt m t' rest
    | none => none

theorem tblAt_append (m : PMem) (t : Word) (p q : List Nat) :
    tblAt m t (p ++ q) = (tblAt m t p).bind (fun t' => tblAt m t' q) := by
  induction p generalizing t with
  | nil => simp [tblAt]
  | cons i p ih =>
    simp only [List.cons_append, tblAt]
    cases tableOf (m t i) with
    | none => simp
    | some t' => exact ih t'

/-- `descend` at memory level. -/
theorem descend_mem (s : St) (t : Word) (path : List Nat) : (descend s t path).2.mem = s.mem := by
  induction path generalizing s t with
  | nil => rfl
  | cons i rest ih =>
    simp only [descend]
    cases h : nextTable ((s.rd t i).1) with
    | error e => rfl
    | ok t' => exact (ih _ t').trans rfl

theorem descend_allocs (s : St) (t : Word) (path : List Nat) : (descend s t path).2.allocs = s.allocs := by
  induction path generalizing s t with
  | nil => rfl
  | cons i rest ih =>
    simp only [descend]
    cases h : nextTable ((s.rd t i).1) with
    | error e => rfl
    | ok t' => exact (ih _ t').trans rfl

theorem descend_ok_iff (s : St) (t : Word) (path : List Nat) (r : Word) :
    (descend s t path).1 = .ok r ↔ tblAt s.mem t path = some r := by
  induction path generalizing s t with
  | nil => simp [descend, tblAt]
  | cons i rest ih =>
    simp only [descend, tblAt, St.rd_fst]
    cases h : tableOf (s.mem t i) with
    | none =>
      cases hn : nextTable (s.mem t i) with
      | error e => simp
      | ok t' => rw [nextTable_ok_iff, h] at hn; cases hn
    | some t' =>
      rw [(nextTable_ok_iff _ _).2 h]
      exact ih _ t'

/-- a failed `descend` means the path does not lead to a table -/
theorem descend_err (s : St) (t : Word) (path : List Nat) (e : WalkErr)
    (h : (descend s t path).1 = .error e) : tblAt s.mem t path = none := by
  cases h' : tblAt s.mem t path with
  | none => rfl
  | some r => rw [((descend_ok_iff s t path r).2 h')] at h; cases h

/-! ### The hardware walk, recursively -/

/-- Index of `va` into the table at level `lvl` (4..1). -/
def vaIdx (lvl va : Nat) : Nat := va / 2^(12 + 9 * (lvl - 1)) % 512

/-- Leaf translation produced by entry `e` found at level `lvl`. -/
def leafXlat (lvl : Nat) (e : Word) (va : Nat) (rw us : Bool) : Xlat :=
  if lvl = 3 then
    { base := (addr1G e).toNat, size := 2^30, off := va % 2^30, flags := leafFlagsHuge e, rw := rw && bitRW e, us := us && bitUS e }
  else if lvl = 2 then
    { base := (addr2M e).toNat, size := 2^21, off := va % 2^21, flags := leafFlagsHuge e, rw := rw && bitRW e, us := us && bitUS e }
  else
    { base := (tableAddr e).toNat, size := 4096, off := va % 4096, flags := leafFlags4K e, rw := rw && bitRW e, us := us && bitUS e }

/-- The walk from table `t` at level `lvl`, with the rights accumulated so far. -/
def walkFrom (m : PhysMem) : Nat → Word → Nat → Bool → Bool → Option Xlat
  | 0, _, _, _, _ => none
  | lvl + 1, t, va, rw, us =>
    let e := m t (vaIdx (lvl + 1) va)
    if !bitP e then none
    else if lvl + 1 = 4 then
      (if bitPS e then none else walkFrom m lvl (tableAddr e) va (rw && bitRW e) (us && bitUS e))
    else if lvl + 1 = 1 then some (leafXlat 1 e va rw us)
    else if bitPS e then some (leafXlat (lvl + 1) e va rw us)
    else walkFrom m lvl (tableAddr e) va (rw && bitRW e) (us && bitUS e)

theorem walk_eq_walkFrom (m : PhysMem) (cr3 : Word) (va : Nat) :
    walk m cr3 va = walkFrom m 4 cr3 va true true := by
  have e4 : vaIdx 4 va = vaIdx4 va := rfl
  have e3 : vaIdx 3 va = vaIdx3 va := rfl
  have e2 : vaIdx 2 va = vaIdx2 va := rfl
  have e1 : vaIdx 1 va = vaIdx1 va := rfl
  unfold walk
  simp only [walkFrom, e4, e3, e2, e1, leafXlat, Bool.true_and]
  generalize m cr3 (vaIdx4 va) = E4
  cases h4p : bitP E4 <;> cases h4s : bitPS E4 <;> simp

end X86
