/-
Auxiliary definitions for the C14 theorems: the bridge from the model's descriptor type to the
spec's, the used slots of a table, the representation invariant, and the outcome relation.
-/
import X86Model.Model.Gdt
import X86Model.Spec.GdtTable

namespace X86.GdtProof
open X86 X86.Spec

/-- The model's descriptor as the spec's. -/
def toSpec : Descriptor → Desc
  | .user v => .user v
  | .system lo hi => .system lo hi

/-- The slots in use: `table[..len]` (what `entries()` returns). -/
def slots (g : Gdt) : List (BitVec 64) := g.table.take g.len

/-- The representation invariant of `GlobalDescriptorTable<MAX>`: the array has `MAX` elements,
`1 ≤ len ≤ MAX ≤ 2^13`, slot 0 is the null descriptor. -/
structure Inv (g : Gdt) : Prop where
  tlen : g.table.length = g.max
  pos : 1 ≤ g.len
  le : g.len ≤ g.max
  cap : g.max ≤ 8192
  null : g.table[0]? = some 0#64

/-- Model outcome vs spec outcome of one call. -/
def outOk : R (BitVec 16) → Option SelFields → Prop
  | .ok sel, some sf => decodeSel sel = sf
  | .panic, none => True
  | _, _ => False

/-- Outcomes of a whole history, call by call. -/
def outsOk : List (R (BitVec 16)) → List (Option SelFields) → Prop
  | [], [] => True
  | r :: rs, o :: os => outOk r o ∧ outsOk rs os
  | _, _ => False

end X86.GdtProof
