/-
Effective rights of the hardware walk along a path of the hierarchy (`accRights`, `walk_reach_rights`), and
memory changes that keep every table link and only add `WRITABLE`/`USER_ACCESSIBLE` to it (`LinkMono`):
single-word writes into leaf slots, rewriting a link with more flags, linking a fresh table, and hence
the descent of `map_to` (`createPath_linkMono`), which moreover leaves the requested parent flags on every
entry of the page's path (`createPath_pathFlags`). Used by `Properties/C01HistoryRights.lean`.
-/
import X86Model.Proofs.LeafSlots

namespace X86
open X86.Spec

/-! ### Rights accumulated by the walk along a path -/

/-- `R/W` and `U/S` accumulated along the path `q` starting at table `t` (AND of the bits of the entries). -/
def accRights (m : PMem) : Word → List Nat → Bool → Bool → Bool × Bool
  | _, [], rw, us => (rw, us)
  | t, j :: q, rw, us =>
    match tableOf (m t j) with
    | some t' => accRights m t' q (rw && bitRW (m t j)) (us && bitUS (m t j))
    | none => (rw, us)

/-- The walk reaches the table at path `p` with the rights accumulated along `p`, and processes the entry at
the next index. -/
theorem walk_reach_rights (m : PMem) (p4 : Word) (f : Word) (i : Nat) (va : Nat) :
    ∀ (p : List Nat), tblAt m p4 p = some f → p.length ≤ 3 → p ++ [i] <+: vaPath va →
      walk m p4 va = entryStep m (4 - p.length) (m f i) va (accRights m p4 p true true).1 (accRights m p4 p true true).2 := by
  have gen : ∀ (q r : List Nat) (t : Word) (rw us : Bool),
      tblAt m t q = some f → (r ++ q).length ≤ 3 → r ++ q ++ [i] <+: vaPath va →
      walkFrom m (4 - r.length) t va rw us =
        entryStep m (4 - (r ++ q).length) (m f i) va (accRights m t q rw us).1 (accRights m t q rw us).2 := by
    intro q
    induction q with
    | nil =>
      intro r t rw us hq hlen hpre
      simp only [List.append_nil] at hlen hpre ⊢
      have htf : t = f := by simpa [tblAt] using hq
      subst htf
      obtain ⟨k, hk⟩ : ∃ k, 4 - r.length = k + 1 := ⟨3 - r.length, by omega⟩
      have hidx : vaIdx (k + 1) va = i := by
        obtain ⟨rest, hrest⟩ := hpre
        exact vaIdx_of_prefix va r i rest k (by simpa using hrest) hk
      rw [hk, walkFrom_succ, hidx]
      rfl
    | cons j q ih =>
      intro r t rw us hq hlen hpre
      have hrl : r.length ≤ 2 := by simp at hlen; omega
      obtain ⟨k, hk⟩ : ∃ k, 4 - r.length = k + 1 := ⟨3 - r.length, by omega⟩
      have hidx : vaIdx (k + 1) va = j := by
        obtain ⟨rest, hrest⟩ := hpre
        exact vaIdx_of_prefix va r j (q ++ [i] ++ rest) k (by simpa using hrest) hk
      simp only [tblAt] at hq
      cases hto : tableOf (m t j) with
      | none => rw [hto] at hq; cases hq
      | some t' =>
        rw [hto] at hq
        obtain ⟨hP, hS, hta⟩ := (tableOf_some_iff _ _).1 hto
        have hlen' : ((r ++ [j]) ++ q).length ≤ 3 := by simpa using hlen
        have hpre' : (r ++ [j]) ++ q ++ [i] <+: vaPath va := by simpa using hpre
        have h1 := ih (r ++ [j]) t' (rw && bitRW (m t j)) (us && bitUS (m t j)) hq hlen' hpre'
        have hk' : 4 - (r ++ [j]).length = k := by simp; omega
        have hl2 : (r ++ j :: q).length = ((r ++ [j]) ++ q).length := by simp
        have hacc : accRights m t (j :: q) rw us = accRights m t' q (rw && bitRW (m t j)) (us && bitUS (m t j)) := by
          simp only [accRights, hto]
        rw [hk, walkFrom_succ, hidx, hl2, hacc, ← h1, hk']
        unfold entryStep
        by_cases h4 : k + 1 = 4
        · have : k = 3 := by omega
          subst this; simp [hP, hS, hta]
        · have hk0 : k ≠ 0 := by omega
          simp [hP, hS, h4, hk0, hta]
  intro p hp hpl hpre
  have := gen p [] p4 true true hp (by simpa using hpl) (by simpa using hpre)
  simpa [walk_eq_walkFrom] using this

/-- If every entry on the path has the `R/W` (`U/S`) bit, the accumulated right is kept. -/
theorem accRights_of_all (m : PMem) : ∀ (q : List Nat) (t : Word) (rw us : Bool) (wantRW wantUS : Bool),
    (∀ q1 j t1, q1 ++ [j] <+: q → tblAt m t q1 = some t1 →
      (wantRW = true → bitRW (m t1 j) = true) ∧ (wantUS = true → bitUS (m t1 j) = true)) →
    (wantRW = true → rw = true → (accRights m t q rw us).1 = true) ∧
    (wantUS = true → us = true → (accRights m t q rw us).2 = true) := by
  intro q
  induction q with
  | nil => intro t rw us _ _ _; exact ⟨fun _ h => h, fun _ h => h⟩
  | cons j q ih =>
    intro t rw us wRW wUS hall
    simp only [accRights]
    cases hto : tableOf (m t j) with
    | none => exact ⟨fun _ h => h, fun _ h => h⟩
    | some t' =>
      simp only
      have hhead := hall [] j t (by simp) rfl
      have hrest : ∀ q1 j1 t1, q1 ++ [j1] <+: q → tblAt m t' q1 = some t1 →
          (wRW = true → bitRW (m t1 j1) = true) ∧ (wUS = true → bitUS (m t1 j1) = true) := by
        intro q1 j1 t1 hpre ht1
        apply hall (j :: q1) j1 t1
        · simpa using hpre
        · simp only [tblAt, hto]; exact ht1
      obtain ⟨i1, i2⟩ := ih t' (rw && bitRW (m t j)) (us && bitUS (m t j)) wRW wUS hrest
      exact ⟨fun hw hr => i1 hw (by rw [hr, hhead.1 hw]; rfl), fun hw hr => i2 hw (by rw [hr, hhead.2 hw]; rfl)⟩


/-! ### Memory changes that keep every link and only add rights to it -/

/-- Every table link of the hierarchy (entry of a level-4/3/2 table pointing to a lower table) still points to
the same table, and has kept its `R/W` and `U/S` bits. -/
def LinkMono (p4 : Word) (m m' : PMem) : Prop :=
  ∀ q t i c, q.length ≤ 2 → IdxOK q → i < 512 → tblAt m p4 q = some t → tableOf (m t i) = some c →
    tableOf (m' t i) = some c ∧ (bitRW (m t i) = true → bitRW (m' t i) = true) ∧
      (bitUS (m t i) = true → bitUS (m' t i) = true)

theorem LinkMono.refl (p4 : Word) (m : PMem) : LinkMono p4 m m :=
  fun _ _ _ _ _ _ _ _ h => ⟨h, id, id⟩

theorem LinkMono.of_eq {p4 : Word} {m m' : PMem} (h : m' = m) : LinkMono p4 m m' := by
  subst h; exact LinkMono.refl _ _

/-- Tables stay where they are. -/
theorem LinkMono.tbl {p4 : Word} {m m' : PMem} (h : LinkMono p4 m m') (q : List Nat) (t : Word)
    (hq : q.length ≤ 3) (hqi : IdxOK q) (ht : tblAt m p4 q = some t) : tblAt m' p4 q = some t := by
  have gen : ∀ (q r : List Nat) (t0 t : Word), tblAt m p4 r = some t0 → tblAt m' p4 r = some t0 →
      (r ++ q).length ≤ 3 → IdxOK (r ++ q) → tblAt m t0 q = some t → tblAt m' t0 q = some t := by
    intro q
    induction q with
    | nil => intro r t0 t _ _ _ _ h0; exact h0
    | cons j q ih =>
      intro r t0 t hr hr' hlen hidx h0
      have hrl : r.length ≤ 2 := by simp at hlen; omega
      have hri : IdxOK r := (IdxOK_append.1 hidx).1
      have hj : j < 512 := (IdxOK_append.1 hidx).2 j (by simp)
      simp only [X86.tblAt] at h0 ⊢
      cases hto : tableOf (m t0 j) with
      | none => rw [hto] at h0; cases h0
      | some t1 =>
        rw [hto] at h0
        obtain ⟨hto', _⟩ := h r t0 j t1 hrl hri hj hr hto
        rw [hto']
        simp only
        apply ih (r ++ [j]) t1 t
        · rw [tblAt_append, hr]; simp [X86.tblAt, hto]
        · rw [tblAt_append, hr']; simp [X86.tblAt, hto']
        · simpa using hlen
        · simpa using hidx
        · exact h0
  exact gen q [] p4 t rfl rfl (by simpa using hq) (by simpa using hqi) ht

theorem LinkMono.trans {p4 : Word} {m m1 m2 : PMem} (h1 : LinkMono p4 m m1) (h2 : LinkMono p4 m1 m2) :
    LinkMono p4 m m2 := by
  intro q t i c hq hqi hi ht hc
  obtain ⟨a1, a2, a3⟩ := h1 q t i c hq hqi hi ht hc
  obtain ⟨b1, b2, b3⟩ := h2 q t i c hq hqi hi (h1.tbl q t (by omega) hqi ht) a1
  exact ⟨b1, fun h => b2 (a2 h), fun h => b3 (a3 h)⟩

/-- A write into a leaf slot (a slot of a level-1 table, or a slot that holds no link). -/
theorem linkMono_set_leaf (m : PMem) (p4 : Word) (hwf : WF m p4) (p : List Nat) (t : Word) (i : Nat) (v : Word)
    (hp : tblAt m p4 p = some t) (hpl : p.length ≤ 3) (hpi : IdxOK p)
    (hleaf : p.length = 3 ∨ tableOf (m t i) = none) : LinkMono p4 m (m.set t i v) := by
  intro q t' i' c hq hqi _ ht hc
  have hne : ¬ (t' = t ∧ i' = i) := by
    rintro ⟨e1, e2⟩
    subst e1; subst e2
    have : q = p := hwf q p t' (by omega) hpl hqi hpi ht hp
    subst this
    rcases hleaf with h | h
    · omega
    · rw [h] at hc; cases hc
  rw [PMem.set_other m t i v t' i' hne]
  exact ⟨hc, id, id⟩

/-- Rewriting a link into a link to the same table with at least the same rights. -/
theorem linkMono_set_link (m : PMem) (p4 : Word) (t : Word) (i : Nat) (v c : Word)
    (h1 : tableOf (m t i) = some c) (h2 : tableOf v = some c)
    (hrw : bitRW (m t i) = true → bitRW v = true) (hus : bitUS (m t i) = true → bitUS v = true) :
    LinkMono p4 m (m.set t i v) := by
  intro q t' i' c' _ _ _ _ hc
  by_cases he : t' = t ∧ i' = i
  · obtain ⟨e1, e2⟩ := he
    subst e1; subst e2
    rw [PMem.set_same]
    rw [h1] at hc
    exact ⟨hc ▸ h2, hrw, hus⟩
  · rw [PMem.set_other m t i v t' i' he]
    exact ⟨hc, id, id⟩

/-- Linking a fresh zeroed table at an unused slot. -/
theorem linkMono_linked (m : PMem) (p4 : Word) (tbl : Word) (i : Nat) (f fl : Word)
    (hzero : m tbl i = 0#64) (hfresh : FreshAt m p4 f) : LinkMono p4 m (linked m tbl i f fl) := by
  intro q t' i' c hq hqi _ ht hc
  have h1 : t' ≠ f := fun h => hfresh.notTable q (by omega) hqi (h ▸ ht)
  have h2 : ¬ (t' = tbl ∧ i' = i) := by
    rintro ⟨e1, e2⟩
    subst e1; subst e2
    rw [hzero, tableOf_zero] at hc; cases hc
  rw [linked_other m tbl i f fl t' i' h1 h2]
  exact ⟨hc, id, id⟩

/-! ### Bit-level facts -/

private theorem new_link_rights (k : Kind) (f pflags : Word) :
    (bitRW pflags = true → bitRW (Pte.mk f (linkFl k pflags)) = true) ∧
    (bitUS pflags = true → bitUS (Pte.mk f (linkFl k pflags)) = true) := by
  unfold bitRW bitUS Pte.mk linkFl Pte.PRESENT Pte.WRITABLE
  cases k.recursive
  · simp only [Bool.false_eq_true, if_false]
    unfold Word at *
    refine ⟨?_, ?_⟩ <;> bv_decide
  · simp only [if_true]
    unfold Word at *
    refine ⟨?_, ?_⟩ <;> bv_decide

private theorem or_flags_rights (e pflags : Word) :
    let v := Pte.setFlags e (Pte.flags e ||| pflags)
    (bitRW pflags = true → bitRW v = true) ∧ (bitUS pflags = true → bitUS v = true) ∧
    (bitRW e = true → bitRW v = true) ∧ (bitUS e = true → bitUS v = true) := by
  unfold bitRW bitUS Pte.setFlags Pte.flags Pte.addr Pte.ADDR_MASK Pte.FLAGS_ALL
  unfold Word at *
  refine ⟨?_, ?_, ?_, ?_⟩ <;> bv_decide

private theorem contains_rights (e pflags : Word) (h : (pflags != 0#64 && !Pte.contains e pflags) = false) :
    (bitRW pflags = true → bitRW e = true) ∧ (bitUS pflags = true → bitUS e = true) := by
  unfold Pte.contains Pte.flags Pte.FLAGS_ALL at h
  unfold bitRW bitUS
  unfold Word at *
  refine ⟨?_, ?_⟩ <;> bv_decide

/-! ### The descent of `map_to` -/

/-- **`create_next_table`** keeps every link with its rights; on success the entry it went through has the
requested `WRITABLE`/`USER_ACCESSIBLE` flags. -/
theorem createNextTable_linkMono (k : Kind) (s : St) (p4 : Word) (r : List Nat) (tbl : Word) (i : Nat) (pflags : Word)
    (hinv : Inv s.mem p4) (hr : tblAt s.mem p4 r = some tbl) (hrl : r.length ≤ 2) (hri : IdxOK r)
    (hi : i < 512) (hpf : ParentFlagsOK pflags) (hal : AllocsOK s.mem p4 s.allocs) :
    match createNextTable k s tbl i pflags with
    | (.ok (.ok _), s') => LinkMono p4 s.mem s'.mem ∧
        (bitRW pflags = true → bitRW (s'.mem tbl i) = true) ∧ (bitUS pflags = true → bitUS (s'.mem tbl i) = true)
    | (_, _) => True := by
  unfold createNextTable
  simp only [St.rd_fst]
  by_cases hu : Pte.isUnused (s.mem tbl i) = true
  · have hzero : s.mem tbl i = 0#64 := by simpa [Pte.isUnused] using hu
    simp only [hu, if_true]
    cases hall : s.allocs with
    | nil => simp only [St.alloc, St.rd, hall]
    | cons a rest =>
      cases a with
      | none => simp only [St.alloc, St.rd, hall]
      | some f =>
        rw [hall] at hal
        obtain ⟨hfresh, hdist, hrest⟩ := hal
        have hlf := linkFl_ok k pflags hpf
        obtain ⟨b1, b2, b3, b4, b5⟩ := link_bits f (linkFl k pflags) hfresh.fits hlf
        have hnt : nextTable (Pte.mk f (linkFl k pflags)) = .ok f := by
          rw [nextTable_ok_iff]; exact (tableOf_some_iff _ _).2 ⟨b1, b2, b3.symm⟩
        simp only [St.alloc, St.rd, hall]
        have hfl : (if k.recursive = true then Pte.PRESENT ||| Pte.WRITABLE ||| pflags else Pte.PRESENT ||| pflags) = linkFl k pflags := rfl
        simp only [hfl, b4, Bool.not_true, Bool.false_eq_true, if_false, hnt]
        have hmem : ∀ (s0 : St), s0.mem = s.mem →
            ((St.wr s0 tbl i (Pte.mk f (linkFl k pflags))).zeroTable f).mem = linked s.mem tbl i f (linkFl k pflags) := by
          intro s0 h0; rw [St.zeroTable_mem, St.wr_mem, h0]; rfl
        have htf : tbl ≠ f := fun h => hfresh.notTable r (by omega) hri (h ▸ hr)
        rw [hmem ⟨s.mem, rest, _⟩ rfl, linked_at_slot s.mem tbl i f _ htf]
        exact ⟨linkMono_linked s.mem p4 tbl i f _ hzero hfresh, new_link_rights k f pflags⟩
  · have hu' : Pte.isUnused (s.mem tbl i) = false := by simpa using hu
    have hne : s.mem tbl i ≠ 0#64 := by
      intro h0; rw [h0] at hu'; simp [Pte.isUnused] at hu'
    simp only [hu', Bool.false_eq_true, if_false]
    by_cases hh : Pte.huge (s.mem tbl i) = true
    · simp only [hh, if_true]
    · have hS : Pte.huge (s.mem tbl i) = false := by simpa using hh
      have hP : Pte.present (s.mem tbl i) = true := hinv.present_of_not_huge r tbl i hrl hri hr hi hne hS
      simp only [hS, Bool.false_eq_true, if_false]
      have hnt0 : nextTable (s.mem tbl i) = .ok (Pte.addr (s.mem tbl i)) := by
        unfold nextTable; simp [hS, hP]
      by_cases hc : (pflags != 0#64 && !Pte.contains (s.mem tbl i) pflags) = true
      · simp only [hc, if_true]
        obtain ⟨b1, b2, b3⟩ := or_flags_bits (s.mem tbl i) pflags hP hS hpf
        have hnt : nextTable (Pte.setFlags (s.mem tbl i) (Pte.flags (s.mem tbl i) ||| pflags)) =
            .ok (Pte.addr (s.mem tbl i)) := by
          rw [nextTable_ok_iff]; exact (tableOf_some_iff _ _).2 ⟨b1, b2, by rw [b3]; rfl⟩
        simp only [hnt]
        simp only [St.wr_mem, St.rd_mem]
        obtain ⟨r1, r2, r3, r4⟩ := or_flags_rights (s.mem tbl i) pflags
        rw [PMem.set_same]
        exact ⟨linkMono_set_link s.mem p4 tbl i _ (tableAddr (s.mem tbl i))
          ((tableOf_some_iff _ _).2 ⟨hP, hS, rfl⟩) ((tableOf_some_iff _ _).2 ⟨b1, b2, b3.symm⟩) r3 r4, r1, r2⟩
      · have hc' : (pflags != 0#64 && !Pte.contains (s.mem tbl i) pflags) = false := by simpa using hc
        simp only [hc, Bool.false_eq_true, if_false, hnt0]
        simp only [St.rd_mem]
        exact ⟨LinkMono.refl _ _, contains_rights _ _ hc'⟩


/-- the requested `WRITABLE`/`USER_ACCESSIBLE` parent flags are on every entry of the path `path` below `tbl` -/
def PathFlags (m : PMem) (tbl : Word) (path : List Nat) (pflags : Word) : Prop :=
  ∀ q j t, q ++ [j] <+: path → tblAt m tbl q = some t →
    (bitRW pflags = true → bitRW (m t j) = true) ∧ (bitUS pflags = true → bitUS (m t j) = true)

/-- **The descent of `map_to`** keeps every link of the hierarchy with its rights (whatever its result); on
success every entry on the page's parent path has the requested `WRITABLE`/`USER_ACCESSIBLE` flags. -/
theorem createPath_rights (k : Kind) (pflags : Word) (p4 : Word) (hpf : ParentFlagsOK pflags) :
    ∀ (parents r : List Nat) (tbl : Word) (s : St),
      Inv s.mem p4 → tblAt s.mem p4 r = some tbl → r.length + parents.length ≤ 3 → IdxOK (r ++ parents) →
      AllocsOK s.mem p4 s.allocs →
      LinkMono p4 s.mem (createPath k pflags s tbl parents).2.mem ∧
      (∀ tl, (createPath k pflags s tbl parents).1 = .ok (.ok tl) →
        PathFlags (createPath k pflags s tbl parents).2.mem tbl parents pflags) := by
  intro parents
  induction parents with
  | nil =>
    intro r tbl s _ _ _ _ _
    simp only [createPath]
    refine ⟨LinkMono.refl _ _, ?_⟩
    intro tl _ q j t hpre
    have := List.IsPrefix.length_le hpre
    simp at this
  | cons i parents ih =>
    intro r tbl s hinv hr hlen hidx hal
    have hrl : r.length ≤ 2 := by simp at hlen; omega
    have hri : IdxOK r := (IdxOK_append.1 hidx).1
    have hi : i < 512 := (IdxOK_append.1 hidx).2 i (by simp)
    have hstep := createNextTable_ok k s p4 r tbl i pflags hinv hr hrl hri hi hpf hal
    have hmono := createNextTable_linkMono k s p4 r tbl i pflags hinv hr hrl hri hi hpf hal
    simp only [createPath]
    cases hc : createNextTable k s tbl i pflags with
    | mk res s1 =>
      rw [hc] at hstep hmono
      cases res with
      | panic => exact hstep.elim
      | ok res' =>
        cases res' with
        | error e =>
          simp only
          exact ⟨LinkMono.of_eq hstep.1, fun tl h => by cases h⟩
        | ok t1 =>
          obtain ⟨hs1, ht1⟩ := hstep
          obtain ⟨hm1, hb1⟩ := hmono
          simp only
          obtain ⟨hm2, hp2⟩ := ih (r ++ [i]) t1 s1 hs1.inv ht1 (by simp at hlen ⊢; omega) (by simpa using hidx)
            hs1.allocs
          refine ⟨hm1.trans hm2, ?_⟩
          intro tl htl
          -- the link `(tbl, i)` of `s1` is kept by the rest of the descent
          have hr1 : tblAt s1.mem p4 r = some tbl := hm1.tbl r tbl (by omega) hri hr
          have hto1 : tableOf (s1.mem tbl i) = some t1 := by
            rw [tblAt_append, hr1] at ht1
            simp only [Option.bind_some, tblAt] at ht1
            cases h : tableOf (s1.mem tbl i) with
            | none => rw [h] at ht1; cases ht1
            | some x => rw [h] at ht1; simpa using ht1
          obtain ⟨hto2, k1, k2⟩ := hm2 r tbl i t1 hrl hri hi hr1 hto1
          intro q j t hpre ht
          cases q with
          | nil =>
            simp only [tblAt] at ht
            have hj : j = i := by
              obtain ⟨rest, hrest⟩ := hpre
              simp at hrest; exact hrest.1
            have htt : t = tbl := (Option.some.inj ht).symm
            subst hj; subst htt
            exact ⟨fun h => k1 (hb1.1 h), fun h => k2 (hb1.2 h)⟩
          | cons i' q' =>
            have hi' : i' = i := by
              obtain ⟨rest, hrest⟩ := hpre
              simp at hrest; exact hrest.1
            subst hi'
            have hpre' : q' ++ [j] <+: parents := by
              obtain ⟨rest, hrest⟩ := hpre
              simp at hrest
              exact ⟨rest, by simpa using hrest⟩
            simp only [tblAt, hto2] at ht
            exact hp2 tl htl q' j t hpre' ht


/-- Every entry on an existing path is a link. -/
theorem prefix_link (m : PMem) (t0 : Word) (path : List Nat) (g : Word) (hg : tblAt m t0 path = some g)
    (q : List Nat) (j : Nat) (hpre : q ++ [j] <+: path) :
    ∃ t c, tblAt m t0 q = some t ∧ tableOf (m t j) = some c := by
  obtain ⟨rest, hrest⟩ := hpre
  rw [← hrest, List.append_assoc, tblAt_append] at hg
  cases hq : tblAt m t0 q with
  | none => rw [hq] at hg; cases hg
  | some t =>
    rw [hq] at hg
    simp only [Option.bind_some, List.cons_append, List.nil_append, tblAt] at hg
    cases hc : tableOf (m t j) with
    | none => rw [hc] at hg; cases hg
    | some c => exact ⟨t, c, rfl, hc⟩

/-- The entries on an existing path keep their place and their rights under a `LinkMono` change. -/
theorem LinkMono.path {p4 : Word} {m m' : PMem} (h : LinkMono p4 m m') (path : List Nat) (hl : path.length ≤ 3)
    (hi : IdxOK path) (g : Word) (hg : tblAt m p4 path = some g) (q : List Nat) (j : Nat) (t' : Word)
    (hpre : q ++ [j] <+: path) (ht' : tblAt m' p4 q = some t') :
    tblAt m p4 q = some t' ∧ (bitRW (m t' j) = true → bitRW (m' t' j) = true) ∧
      (bitUS (m t' j) = true → bitUS (m' t' j) = true) := by
  obtain ⟨t, c, ht, hc⟩ := prefix_link m p4 path g hg q j hpre
  have hlen : (q ++ [j]).length ≤ path.length := List.IsPrefix.length_le hpre
  have hql : q.length ≤ 2 := by simp at hlen; omega
  have hqi : IdxOK (q ++ [j]) := by
    obtain ⟨rest, hrest⟩ := hpre
    rw [← hrest] at hi
    exact (IdxOK_append.1 hi).1
  obtain ⟨hqi1, hqi2⟩ := IdxOK_append.1 hqi
  have ht2 : tblAt m' p4 q = some t := h.tbl q t (by omega) hqi1 ht
  rw [ht2] at ht'
  have : t = t' := Option.some.inj ht'
  subst this
  obtain ⟨_, b1, b2⟩ := h q t j c hql hqi1 (hqi2 j (by simp)) ht hc
  exact ⟨ht, b1, b2⟩

theorem PathFlags.mono {p4 : Word} {m m' : PMem} (h : LinkMono p4 m m') (path : List Nat) (hl : path.length ≤ 3)
    (hi : IdxOK path) (g : Word) (hg : tblAt m p4 path = some g) (pflags : Word)
    (hp : PathFlags m p4 path pflags) : PathFlags m' p4 path pflags := by
  intro q j t' hpre ht'
  obtain ⟨ht, b1, b2⟩ := h.path path hl hi g hg q j t' hpre ht'
  obtain ⟨c1, c2⟩ := hp q j t' hpre ht
  exact ⟨fun x => b1 (c1 x), fun x => b2 (c2 x)⟩

end X86
