/-
Helper lemmas for alignment (C06): powers of two, greatest/least multiples.
-/
import X86Model.Model.Page
import X86Model.Spec.Canon
import X86Model.Proofs.Canon

namespace X86
open X86.Spec

theorem isPow2_iff (n : Nat) : isPow2 n = true ↔ ∃ k, k < 64 ∧ n = 2^k := by
  unfold isPow2
  simp only [List.any_eq_true, List.mem_range, beq_iff_eq]

theorem isPow2_pos (n : Nat) (h : isPow2 n = true) : 0 < n := by
  obtain ⟨k, _, rfl⟩ := (isPow2_iff n).1 h
  exact Nat.two_pow_pos k

/-- `a - a % al` is a multiple of `al`, not above `a`, and the greatest such. -/
theorem down_dvd (a al : Nat) : al ∣ a - a % al := Nat.dvd_sub_mod a

theorem down_le (a al : Nat) : a - a % al ≤ a := Nat.sub_le _ _

theorem down_eq_mul (a al : Nat) : a - a % al = al * (a / al) := by
  have := Nat.div_add_mod a al; omega

theorem down_greatest (a al m : Nat) (hal : 0 < al) (hm : al ∣ m) (hle : m ≤ a) : m ≤ a - a % al := by
  obtain ⟨q, rfl⟩ := hm
  rw [down_eq_mul]
  apply Nat.mul_le_mul_left
  rw [Nat.le_div_iff_mul_le hal, Nat.mul_comm]; exact hle

theorem down_gt (a al : Nat) (hal : 0 < al) : a < a - a % al + al := by
  have := Nat.mod_lt a hal; omega

/-- The least multiple of `al` that is `≥ a`. -/
def upSpec (a al : Nat) : Nat := if a % al = 0 then a else a - a % al + al

theorem up_dvd (a al : Nat) : al ∣ upSpec a al := by
  unfold upSpec; split
  · exact Nat.dvd_of_mod_eq_zero (by assumption)
  · exact Nat.dvd_add (down_dvd a al) (Nat.dvd_refl al)

theorem up_ge (a al : Nat) (hal : 0 < al) : a ≤ upSpec a al := by
  unfold upSpec; split
  · exact Nat.le_refl a
  · exact Nat.le_of_lt (down_gt a al hal)

theorem up_least (a al m : Nat) (hal : 0 < al) (hm : al ∣ m) (hge : a ≤ m) : upSpec a al ≤ m := by
  unfold upSpec; split
  · exact hge
  · rename_i hne
    obtain ⟨q, rfl⟩ := hm
    rw [down_eq_mul]
    have h1 : a / al < q := by
      rw [Nat.div_lt_iff_lt_mul hal]
      rcases Nat.lt_or_ge a (q * al) with h | h
      · exact h
      · exfalso
        have : a = al * q := by rw [Nat.mul_comm] at h; omega
        exact hne (by rw [this]; exact Nat.mul_mod_right al q)
    calc al * (a / al) + al = al * (a / al + 1) := by rw [Nat.mul_add, Nat.mul_one]
      _ ≤ al * q := Nat.mul_le_mul_left al h1

theorem up_lt (a al : Nat) (hal : 0 < al) : upSpec a al < a + al := by
  unfold upSpec; split
  · omega
  · have := Nat.mod_lt a hal
    have : a % al ≠ 0 := by assumption
    have := Nat.mod_le a al
    omega

/-- Powers of two up to `2^47` divide both `2^47` and the start of the upper half. -/
theorem pow2_dvd_half (k : Nat) (hk : k ≤ 47) : 2^k ∣ 2^47 ∧ 2^k ∣ 2^64 - 2^47 := by
  have h1 : 2^k ∣ 2^47 := Nat.pow_dvd_pow 2 hk
  refine ⟨h1, ?_⟩
  have : (2:Nat)^64 - 2^47 = 2^47 * (2^17 - 1) := by decide
  rw [this]; exact Nat.dvd_trans h1 (Nat.dvd_mul_right _ _)

end X86
