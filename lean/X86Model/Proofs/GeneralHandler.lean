/-
Helper lemmas for C13 (Properties/C13.lean): the installation fold over expansions that each write
(at most) their own entry.
-/
import X86Model.Model.GeneralHandler

namespace X86.GH
open X86

theorem foldR_append {α β : Type} (f : β → α → R β) (b : β) (l₁ l₂ : List α) :
    foldR f b (l₁ ++ l₂) = match foldR f b l₁ with
      | .ok b' => foldR f b' l₂
      | .panic => .panic := by
  induction l₁ generalizing b with
  | nil => simp [foldR]
  | cons a as ih =>
    simp only [List.cons_append, foldR]
    cases f b a with
    | ok b' => simpa using ih b'
    | panic => rfl

/-- Running the first `n` expansions, where the expansion for `v` never panics and writes `g v`
(if any) into entry `v`, on a table of 256 entries: entry `v` ends up with `g v` exactly when
`v < n`, `v` is in the range and `g v` is a stub; every other entry is as before. -/
theorem fold_writes_own_slot (r : RangeArg) (g : Nat → Option Stub) (t0 : Delta) (h0 : t0.size = 256)
    (n : Nat) (hn : n ≤ 256) :
    ∃ t, foldR (step r) t0 ((List.range n).map (fun v => (v, R.ok ((g v).map (fun s => (v, s)))))) = .ok t ∧
      t.size = 256 ∧
      ∀ v, t[v]? = if v < n ∧ r.contains v = true ∧ (g v).isSome = true then some (g v) else t0[v]? := by
  induction n with
  | zero => exact ⟨t0, by simp [foldR], h0, by simp⟩
  | succ n ih =>
    obtain ⟨t, ht, hsz, hget⟩ := ih (by omega)
    rw [List.range_succ, List.map_append, foldR_append, ht]
    simp only [List.map_cons, List.map_nil, foldR, step]
    have hlt : ∀ v, v ≠ n → (v < n + 1) = (v < n) := fun v hv => by apply propext; omega
    by_cases hc : r.contains n = true
    · simp only [hc, if_true]
      cases hg : g n with
      | none =>
        refine ⟨t, rfl, hsz, ?_⟩
        intro v
        rw [hget v]
        by_cases hv : v = n
        · subst hv; simp [hg]
        · simp [hlt v hv]
      | some s =>
        refine ⟨t.setIfInBounds n (some s), rfl, by simp [hsz], ?_⟩
        intro v
        rw [Array.getElem?_setIfInBounds]
        by_cases hv : n = v
        · subst hv
          have : n < t.size := by omega
          simp [this, hc, hg]
        · simp only [hv, if_false]
          rw [hget v]
          simp [hlt v (fun h => hv h.symm)]
    · have hc' : r.contains n = false := by simpa using hc
      simp only [hc', Bool.false_eq_true, if_false]
      refine ⟨t, rfl, hsz, ?_⟩
      intro v
      rw [hget v]
      by_cases hv : v = n
      · subst hv; simp [hc']
      · simp [hlt v hv]

end X86.GH
