/-
How the wrapper monad runs: the two cases of `bind`.
-/
import X86Model.Model.Machine

namespace X86
open X86.Spec

theorem M.bind_ok {α β} (x : M α) (f : α → M β) (c : Cpu) (a : α) (c1 : Cpu) (t1 : List Insn)
    (m1 : List Nat) (h : x c = ⟨.ok a, c1, t1, m1⟩) :
    (x >>= f) c = ⟨(f a c1).res, (f a c1).cpu, t1 ++ (f a c1).trace, m1 ++ (f a c1).marks⟩ := by
  show M.bind x f c = _
  unfold M.bind
  rw [h]

theorem M.bind_panic {α β} (x : M α) (f : α → M β) (c : Cpu) (c1 : Cpu) (t1 : List Insn)
    (m1 : List Nat) (h : x c = ⟨.panic, c1, t1, m1⟩) :
    (x >>= f) c = ⟨.panic, c1, t1, m1⟩ := by
  show M.bind x f c = _
  unfold M.bind
  rw [h]

theorem Ran.eta {α} (r : Ran α) : r = ⟨r.res, r.cpu, r.trace, r.marks⟩ := by cases r; rfl

end X86
