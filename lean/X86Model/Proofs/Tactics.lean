/-
Proof automation shared by the arithmetic properties: split every `if`/`match`
first (while the `Decidable` instances still match their propositions), then
unfold `rank`, normalise `some _ = some _`, and finish by linear arithmetic.
-/
import X86Model.Spec.Canon

namespace X86
open X86.Spec

macro "arith_split" : tactic => `(tactic| (
  (repeat' split) <;> (repeat' (split at *)) <;>
  (try simp only [rank, Option.some.injEq, reduceCtorEq, Prod.mk.injEq, R.ok.injEq,
     false_and, and_false, and_true, true_and] at *) <;>
  (try subst_vars) <;> (try omega)))

end X86
