/-
`create_next_table` and the descent of `map_to` through (possibly missing) parent tables.
-/
import X86Model.Proofs.MapperAlloc

namespace X86
open X86.Spec

/-- The allocator's remaining answers are usable: every frame it will hand out is fresh for the
current hierarchy, and it never hands out the same frame twice. -/
def AllocsOK (m : PMem) (p4 : Word) : List (Option Word) → Prop
  | [] => True
  | none :: rest => AllocsOK m p4 rest
  | some f :: rest => FreshAt m p4 f ∧ (∀ g, some g ∈ rest → g ≠ f) ∧ AllocsOK m p4 rest

theorem AllocsOK_mono (m m' : PMem) (p4 : Word) (f : Word)
    (htree : ∀ q g, q.length ≤ 3 → IdxOK q → tblAt m' p4 q = some g → tblAt m p4 q = some g ∨ g = f) :
    ∀ l, AllocsOK m p4 l → (∀ g, some g ∈ l → g ≠ f) → AllocsOK m' p4 l := by
  intro l
  induction l with
  | nil => intros; trivial
  | cons a l ih =>
    intro h hne
    cases a with
    | none => exact ih h (fun g hg => hne g (List.mem_cons_of_mem _ hg))
    | some a =>
      obtain ⟨h1, h2, h3⟩ := h
      refine ⟨⟨h1.fits, ?_⟩, h2, ih h3 (fun g hg => hne g (List.mem_cons_of_mem _ hg))⟩
      intro q hq hqi hcontra
      rcases htree q a hq hqi hcontra with h | h
      · exact h1.notTable q hq hqi h
      · exact hne a (List.mem_cons_self) h

theorem AllocsOK_same (m m' : PMem) (p4 : Word)
    (htree : ∀ q g, q.length ≤ 3 → IdxOK q → tblAt m' p4 q = some g → tblAt m p4 q = some g) :
    ∀ l, AllocsOK m p4 l → AllocsOK m' p4 l := by
  intro l
  induction l with
  | nil => intros; trivial
  | cons a l ih =>
    intro h
    cases a with
    | none => exact ih h
    | some a =>
      obtain ⟨h1, h2, h3⟩ := h
      exact ⟨⟨h1.fits, fun q hq hqi hc => h1.notTable q hq hqi (htree q a hq hqi hc)⟩, h2, ih h3⟩

/-- Parent-table flags: not `HUGE_PAGE`, no address bits. (`PRESENT` need not be requested: a newly created
parent entry is always linked `PRESENT` - `fix:` commit F9 -, and existing parent entries are present by the
invariant.) -/
structure ParentFlagsOK (fl : Word) : Prop where
  nohuge : fl &&& 0x80#64 = 0#64
  noaddr : fl &&& 0x000ffffffffff000#64 = 0#64

/-- Flags of a freshly created parent entry (`PRESENT | WRITABLE` added by the recursive mapper). -/
def linkFl (k : Kind) (pflags : Word) : Word :=
  if k.recursive then Pte.PRESENT ||| Pte.WRITABLE ||| pflags else Pte.PRESENT ||| pflags

theorem linkFl_ok (k : Kind) (pflags : Word) (h : ParentFlagsOK pflags) : LinkFlags (linkFl k pflags) := by
  obtain ⟨h2, h3⟩ := h
  unfold linkFl Pte.PRESENT Pte.WRITABLE
  cases k.recursive
  · simp only [Bool.false_eq_true, if_false]
    unfold Word at *
    refine ⟨?_, ?_, ?_⟩ <;> bv_decide
  · simp only [if_true]
    unfold Word at *
    refine ⟨?_, ?_, ?_⟩ <;> bv_decide

theorem or_flags_bits (e pflags : Word) (hP : Pte.present e = true) (hS : Pte.huge e = false)
    (h : ParentFlagsOK pflags) :
    let v := Pte.setFlags e (Pte.flags e ||| pflags)
    bitP v = true ∧ bitPS v = false ∧ tableAddr v = tableAddr e := by
  obtain ⟨h2, h3⟩ := h
  unfold Pte.present Pte.PRESENT at hP
  unfold Pte.huge Pte.HUGE at hS
  unfold bitP bitPS tableAddr Pte.setFlags Pte.flags Pte.addr Pte.ADDR_MASK Pte.FLAGS_ALL
  unfold Word at *
  refine ⟨?_, ?_, ?_⟩ <;> bv_decide

/-- What one step of the descent of `map_to` guarantees. -/
structure StepOK (m m' : PMem) (p4 : Word) (allocs' : List (Option Word)) : Prop where
  inv : Inv m' p4
  core : ∀ va, (walk m' p4 va).map Xlat.core = (walk m p4 va).map Xlat.core
  allocs : AllocsOK m' p4 allocs'
  /-- the descent writes only present entries and zeroes: the strict variant of the entry invariant
  ("every non-zero entry is present") is kept as well -/
  strict : AllPresent m p4 → AllPresent m' p4

/-- **`create_next_table`**: never panics; an error leaves memory untouched; on success the next
table is in the tree at `r ++ [i]`, no mapping has changed and the invariant holds. -/
theorem createNextTable_ok (k : Kind) (s : St) (p4 : Word) (r : List Nat) (tbl : Word) (i : Nat) (pflags : Word)
    (hinv : Inv s.mem p4) (hr : tblAt s.mem p4 r = some tbl) (hrl : r.length ≤ 2) (hri : IdxOK r)
    (hi : i < 512) (hpf : ParentFlagsOK pflags) (hal : AllocsOK s.mem p4 s.allocs) :
    match createNextTable k s tbl i pflags with
    | (.panic, _) => False
    | (.ok (.error _), s') => s'.mem = s.mem ∧ AllocsOK s'.mem p4 s'.allocs
    | (.ok (.ok t), s') => StepOK s.mem s'.mem p4 s'.allocs ∧ tblAt s'.mem p4 (r ++ [i]) = some t := by
  unfold createNextTable
  simp only [St.rd_fst]
  by_cases hu : Pte.isUnused (s.mem tbl i) = true
  · -- unused entry: allocate
    have hzero : s.mem tbl i = 0#64 := by simpa [Pte.isUnused] using hu
    simp only [hu, if_true]
    cases hall : s.allocs with
    | nil =>
      simp only [St.alloc, St.rd, hall]
      exact ⟨trivial, trivial⟩
    | cons a rest =>
      cases a with
      | none =>
        simp only [St.alloc, St.rd, hall]
        rw [hall] at hal
        exact ⟨trivial, hal⟩
      | some f =>
        rw [hall] at hal
        obtain ⟨hfresh, hdist, hrest⟩ := hal
        have hlf := linkFl_ok k pflags hpf
        obtain ⟨b1, b2, b3, b4, b5⟩ := link_bits f (linkFl k pflags) hfresh.fits hlf
        have hnt : nextTable (Pte.mk f (linkFl k pflags)) = .ok f := by
          rw [nextTable_ok_iff]; exact (tableOf_some_iff _ _).2 ⟨b1, b2, b3.symm⟩
        simp only [St.alloc, St.rd, hall]
        have hfl : (if k.recursive = true then Pte.PRESENT ||| Pte.WRITABLE ||| pflags else Pte.PRESENT ||| pflags) = linkFl k pflags := rfl
        simp only [hfl, b4, Bool.not_true, Bool.false_eq_true, if_false, hnt]
        have hmem : ∀ (s0 : St), s0.mem = s.mem →
            ((St.wr s0 tbl i (Pte.mk f (linkFl k pflags))).zeroTable f).mem = linked s.mem tbl i f (linkFl k pflags) := by
          intro s0 h0; rw [St.zeroTable_mem, St.wr_mem, h0]; rfl
        have T := tblAt_linked s.mem p4 hinv r tbl i f (linkFl k pflags) hr hrl hri hi hzero hfresh hlf
        refine ⟨⟨?_, ?_, ?_, ?_⟩, ?_⟩
        · rw [hmem ⟨s.mem, rest, _⟩ rfl]; exact Inv_linked s.mem p4 hinv r tbl i f _ hr hrl hri hi hzero hfresh hlf
        · intro va; rw [hmem ⟨s.mem, rest, _⟩ rfl, walk_linked s.mem p4 hinv r tbl i f _ hr hrl hri hi hzero hfresh hlf va]
        · rw [hmem ⟨s.mem, rest, _⟩ rfl]
          simp only [St.zeroTable_allocs, St.wr_allocs]
          apply AllocsOK_mono s.mem _ p4 f _ rest hrest hdist
          intro q g hq hqi hg
          rw [T q hq hqi] at hg
          split at hg
          · right; exact (Option.some.inj hg).symm
          · split at hg
            · cases hg
            · left; exact hg
        · intro hst
          rw [hmem ⟨s.mem, rest, _⟩ rfl]
          exact EntriesOK_linked s.mem p4 hinv r tbl i f _ hr hrl hri hi hzero hfresh hlf _ hst
        · rw [hmem ⟨s.mem, rest, _⟩ rfl, T (r ++ [i]) (by simp; omega)
            (IdxOK_append.2 ⟨hri, fun j hj => by simp at hj; rw [hj]; exact hi⟩)]
          simp
  · -- existing entry
    have hu' : Pte.isUnused (s.mem tbl i) = false := by simpa using hu
    have hne : s.mem tbl i ≠ 0#64 := by
      intro h0; rw [h0] at hu'; simp [Pte.isUnused] at hu'
    simp only [hu', Bool.false_eq_true, if_false]
    by_cases hh : Pte.huge (s.mem tbl i) = true
    · simp only [hh, if_true]
      exact ⟨rfl, hal⟩
    · have hS : Pte.huge (s.mem tbl i) = false := by simpa using hh
      -- a non-zero, non-huge entry of a level-4/3/2 table is a table link: present
      have hP : Pte.present (s.mem tbl i) = true := hinv.present_of_not_huge r tbl i hrl hri hr hi hne hS
      simp only [hS, Bool.false_eq_true, if_false]
      have hnt0 : nextTable (s.mem tbl i) = .ok (Pte.addr (s.mem tbl i)) := by
        unfold nextTable; simp [hS, hP]
      by_cases hc : (pflags != 0#64 && !Pte.contains (s.mem tbl i) pflags) = true
      · simp only [hc, if_true]
        obtain ⟨b1, b2, b3⟩ := or_flags_bits (s.mem tbl i) pflags hP hS hpf
        have hnt : nextTable (Pte.setFlags (s.mem tbl i) (Pte.flags (s.mem tbl i) ||| pflags)) =
            .ok (Pte.addr (s.mem tbl i)) := by
          rw [nextTable_ok_iff]; exact (tableOf_some_iff _ _).2 ⟨b1, b2, by rw [b3]; rfl⟩
        simp only [hnt]
        obtain ⟨i1, i2, i3⟩ := set_table_entry s.mem p4 hinv r tbl i _ hr hrl hri hi hP hS b1 b2 b3
        refine ⟨⟨i1, i3, ?_, ?_⟩, ?_⟩
        · simp only [St.wr_mem, St.wr_allocs, St.rd_mem, St.rd_allocs]
          exact AllocsOK_same s.mem _ p4 (fun q g hq hqi hg => by rw [i2 q hq hqi] at hg; exact hg) _ hal
        · intro hst
          have hto : tableOf (Pte.setFlags (s.mem tbl i) (Pte.flags (s.mem tbl i) ||| pflags)) = tableOf (s.mem tbl i) := by
            rw [(tableOf_some_iff _ _).2 ⟨b1, b2, rfl⟩, (tableOf_some_iff _ _).2 ⟨hP, hS, rfl⟩, b3]
          exact AllPresent_set s.mem p4 hinv.wf hst r tbl i _ hr (by omega) hri (Or.inr hto) (Or.inr b1)
        · simp only [St.wr_mem, St.rd_mem]
          rw [i2 (r ++ [i]) (by simp; omega) (IdxOK_append.2 ⟨hri, fun j hj => by simp at hj; rw [hj]; exact hi⟩)]
          rw [tblAt_append, hr]
          simp [tblAt, (tableOf_some_iff _ _).2 ⟨hP, hS, rfl⟩]; rfl
      · simp only [hc, Bool.false_eq_true, if_false, hnt0]
        refine ⟨⟨hinv, fun _ => rfl, hal, id⟩, ?_⟩
        simp only [St.rd_mem]
        rw [tblAt_append, hr]
        simp [tblAt, (tableOf_some_iff _ _).2 ⟨hP, hS, rfl⟩]; rfl

end X86

namespace X86
open X86.Spec

theorem StepOK.trans {m m1 m2 : PMem} {p4 : Word} {a1 a2 : List (Option Word)}
    (h1 : StepOK m m1 p4 a1) (h2 : StepOK m1 m2 p4 a2) : StepOK m m2 p4 a2 :=
  ⟨h2.inv, fun va => (h2.core va).trans (h1.core va), h2.allocs, fun h => h2.strict (h1.strict h)⟩

/-- **The descent of `map_to`** through the parent tables, creating the missing ones: never panics;
whatever happens (success, allocation failure at any point, huge parent), no mapping changes and
the invariant holds; on success the last table is in the tree at the page's parent path. -/
theorem createPath_ok (k : Kind) (pflags : Word) (p4 : Word) (hpf : ParentFlagsOK pflags) :
    ∀ (parents r : List Nat) (tbl : Word) (s : St),
      Inv s.mem p4 → tblAt s.mem p4 r = some tbl → r.length + parents.length ≤ 3 → IdxOK (r ++ parents) →
      AllocsOK s.mem p4 s.allocs →
      match createPath k pflags s tbl parents with
      | (.panic, _) => False
      | (.ok (.error _), s') => StepOK s.mem s'.mem p4 s'.allocs
      | (.ok (.ok t), s') => StepOK s.mem s'.mem p4 s'.allocs ∧ tblAt s'.mem p4 (r ++ parents) = some t := by
  intro parents
  induction parents with
  | nil =>
    intro r tbl s hinv hr _ _ hal
    simp only [createPath, List.append_nil]
    exact ⟨⟨hinv, fun _ => rfl, hal, id⟩, hr⟩
  | cons i parents ih =>
    intro r tbl s hinv hr hlen hidx hal
    have hrl : r.length ≤ 2 := by simp at hlen; omega
    have hri : IdxOK r := (IdxOK_append.1 hidx).1
    have hi : i < 512 := (IdxOK_append.1 hidx).2 i (by simp)
    have hstep := createNextTable_ok k s p4 r tbl i pflags hinv hr hrl hri hi hpf hal
    simp only [createPath]
    cases hc : createNextTable k s tbl i pflags with
    | mk res s1 =>
      rw [hc] at hstep
      cases res with
      | panic => exact hstep
      | ok res' =>
        cases res' with
        | error e =>
          obtain ⟨hm, ha⟩ := hstep
          simp only
          exact ⟨hm ▸ hinv, fun va => by rw [hm], ha, fun h => hm ▸ h⟩
        | ok t1 =>
          obtain ⟨hs1, ht1⟩ := hstep
          simp only
          have hrec := ih (r ++ [i]) t1 s1 hs1.inv ht1 (by simp at hlen ⊢; omega) (by simpa using hidx) hs1.allocs
          cases hc2 : createPath k pflags s1 t1 parents with
          | mk res2 s2 =>
            rw [hc2] at hrec
            cases res2 with
            | panic => exact hrec
            | ok res2' =>
              cases res2' with
              | error e => exact hs1.trans hrec
              | ok t2 =>
                obtain ⟨hs2, ht2⟩ := hrec
                exact ⟨hs1.trans hs2, by simpa using ht2⟩

end X86
