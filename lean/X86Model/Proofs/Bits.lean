/-
Helper lemmas for the bit-field codecs (C19): `getBits`/`setBits` of the model against the
`field`/`IsFieldUpdate` vocabulary of Spec/Codecs.lean, for every width, position and length.
-/
import X86Model.Model.Codecs
import X86Model.Spec.Codecs

namespace X86
open X86.Spec

/-- Bit `i` of the mask `(2^len - 1) << lo` is set exactly for `lo ≤ i < lo + len` (inside the word). -/
theorem mask_getLsbD {w : Nat} (lo len i : Nat) :
    (BitVec.ofNat w (2 ^ len - 1) <<< lo).getLsbD i
      = (decide (i < w) && decide (lo ≤ i) && decide (i - lo < len)) := by
  simp only [BitVec.getLsbD_shiftLeft, BitVec.getLsbD_ofNat, Nat.testBit_two_pow_sub_one]
  by_cases h1 : i < w <;> by_cases h2 : i < lo <;> by_cases h3 : i - lo < len <;>
    simp [h1, h2, h3] <;> omega

theorem getLsbD_of_toNat_lt {w : Nat} (v : BitVec w) (len j : Nat) (hv : v.toNat < 2 ^ len)
    (hj : len ≤ j) : v.getLsbD j = false := by
  rw [BitVec.getLsbD, Nat.testBit_lt_two_pow]
  exact Nat.lt_of_lt_of_le hv (Nat.pow_le_pow_right (by omega) hj)

/-- `get_bits(lo..lo+len)` reads the architectural field. -/
theorem getBits_toNat {w : Nat} (x : BitVec w) (lo len : Nat) (hw : lo + len ≤ w) :
    (getBits x lo len).toNat = field x lo len := by
  unfold getBits field
  have h1 : 2 ^ len ≤ 2 ^ w := Nat.pow_le_pow_right (by omega) (by omega)
  have h2 : 0 < 2 ^ len := Nat.pow_pos (by omega)
  rw [BitVec.toNat_and, BitVec.toNat_ushiftRight, BitVec.toNat_ofNat, BitVec.extractLsb'_toNat,
    Nat.mod_eq_of_lt (by omega), Nat.and_two_pow_sub_one_eq_mod]

theorem field_lt {w : Nat} (x : BitVec w) (lo len : Nat) : field x lo len < 2 ^ len :=
  (x.extractLsb' lo len).isLt

/-- `set_bits(lo..lo+len, v)` with a fitting value never panics, writes exactly the field and
leaves every other bit unchanged. -/
theorem setBits_isFieldUpdate {w : Nat} (x v : BitVec w) (lo len : Nat)
    (hv : v.toNat < 2 ^ len) (hw : lo + len ≤ w) :
    ∃ r, setBits x lo len v = .ok r ∧ IsFieldUpdate x r lo len v.toNat := by
  refine ⟨x &&& ~~~(BitVec.ofNat w (2 ^ len - 1) <<< lo) ||| v <<< lo, by simp [setBits, hv], ?_, ?_⟩
  · unfold field
    have : BitVec.extractLsb' lo len (x &&& ~~~(BitVec.ofNat w (2 ^ len - 1) <<< lo) ||| v <<< lo)
        = v.setWidth len := by
      apply BitVec.eq_of_getLsbD_eq
      intro j hj
      simp only [BitVec.getLsbD_extractLsb', BitVec.getLsbD_or, BitVec.getLsbD_and,
        BitVec.getLsbD_not, mask_getLsbD, BitVec.getLsbD_setWidth]
      simp only [BitVec.getLsbD_shiftLeft]
      have h1 : lo + j < w := by omega
      have h2 : lo + j - lo = j := by omega
      simp [hj, h1, h2]
    rw [this, BitVec.toNat_setWidth]
    exact Nat.mod_eq_of_lt hv
  · intro i hi hout
    simp only [BitVec.getLsbD_or, BitVec.getLsbD_and, BitVec.getLsbD_not, mask_getLsbD]
    simp only [BitVec.getLsbD_shiftLeft]
    rcases hout with h | h
    · have h2 : ¬ lo ≤ i := by omega
      simp [hi, h, h2]
    · have : v.getLsbD (i - lo) = false := getLsbD_of_toNat_lt v len (i - lo) hv (by omega)
      have h2 : ¬ i - lo < len := by omega
      simp [hi, this, h2]

/-- The executable oracle `isFieldUpdate` decides `IsFieldUpdate`. -/
theorem isFieldUpdate_iff {w : Nat} (x r : BitVec w) (lo len v : Nat) :
    isFieldUpdate x r lo len v = true ↔ IsFieldUpdate x r lo len v := by
  unfold isFieldUpdate IsFieldUpdate
  rw [Bool.and_eq_true, beq_iff_eq, List.all_eq_true]
  constructor
  · rintro ⟨h1, h2⟩
    refine ⟨h1, fun i hi hout => ?_⟩
    have := h2 i (List.mem_range.mpr hi)
    rw [if_pos hout] at this
    exact eq_of_beq this
  · rintro ⟨h1, h2⟩
    refine ⟨h1, fun i hi => ?_⟩
    split
    · next hout => exact beq_iff_eq.mpr (h2 i (List.mem_range.mp hi) hout)
    · rfl

end X86
