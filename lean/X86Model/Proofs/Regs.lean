/-
Helper lemmas for C16: word-level glue identities (`bv_decide`), the run of `Msr::read/write`,
and the tactic that evaluates a wrapper's model on a symbolic register file.
-/
import X86Model.Model.Regs
import X86Model.Proofs.Machine
import X86Model.Model.RFlags
import X86Model.Spec.Regs
import Std.Tactic.BVDecide

namespace X86
open X86.Spec X86.Consts X86.Regs

/-- Evaluate a monadic model: unfold the monad and the machine step. -/
macro "run_model" : tactic => `(tactic|
  simp only [bind, M.bind, M.insn, pure, M.pure, M.ofR, M.panic, M.assert, step, Out.one, Out.none,
    List.append_nil, List.nil_append, List.cons_append])

/-- `((high as u64) << 32) | (low as u64)` of the two halves `rdmsr` returns is the register. -/
theorem msr_glue (v : BitVec 64) :
    (((v >>> 32).truncate 32 : BitVec 32).zeroExtend 64 <<< 32) |||
      ((((v.truncate 32 : BitVec 32).zeroExtend 64).truncate 32 : BitVec 32).zeroExtend 64) = v := by
  simp only [BitVec.truncate_eq_setWidth]
  bv_decide

/-- `EDX:EAX` of `low = value as u32`, `high = (value >> 32) as u32` is the value. -/
theorem edxEax_split (v : BitVec 64) :
    edxEax (v.truncate 32) ((v >>> 32).truncate 32) = v := by
  simp only [edxEax, BitVec.truncate_eq_setWidth]
  bv_decide

theorem Msr.read_run (reg : BitVec 32) (c : Cpu) :
    Msr.read reg c = ⟨.ok (c.msr reg.toNat), c, [.rdmsr reg], []⟩ := by
  unfold Msr.read
  run_model
  rw [msr_glue]

theorem Msr.write_run (reg : BitVec 32) (v : BitVec 64) (c : Cpu) :
    Msr.write reg v c =
      ⟨.ok (), c.setMsr reg.toNat v, [.wrmsr reg (v.truncate 32) ((v >>> 32).truncate 32)], []⟩ := by
  unfold Msr.write
  run_model
  rw [edxEax_split]

theorem Cpu.msr_setMsr (c : Cpu) (n : Nat) (v : BitVec 64) : (c.setMsr n v).msr n = v := by
  simp only [Cpu.setMsr, if_pos]

theorem Cpu.setMsr_setMsr (c : Cpu) (n : Nat) (v w : BitVec 64) :
    (c.setMsr n v).setMsr n w = c.setMsr n w := by
  simp only [Cpu.setMsr]
  congr 1
  funext k
  split <;> rfl

end X86

namespace X86
open X86.Spec X86.Consts X86.Regs

/-! ### The specification's formulas: what "stores the fields, preserves the rest" means -/

/-- After a typed write the modelled bits are exactly the given fields … -/
theorem typedRead_typedWrite (all old fields : BitVec 64) (h : fields &&& ~~~all = 0#64) :
    typedRead all (typedWrite all old fields) = fields := by
  simp only [typedRead, typedWrite]; bv_decide

/-- … and every bit the type does not model is the old bit. -/
theorem typedWrite_preserves (all old fields : BitVec 64) (h : fields &&& ~~~all = 0#64) :
    typedWrite all old fields &&& ~~~all = old &&& ~~~all := by
  simp only [typedWrite]; bv_decide

/-! ### Address glue -/

theorem physNew_cr3 (v : BitVec 64) :
    physNew (v &&& 0x000ffffffffff000#64) = .ok (v &&& 0x000ffffffffff000#64) := by
  have h : physNewTruncate (v &&& 0x000ffffffffff000#64) = v &&& 0x000ffffffffff000#64 := by
    simp only [physNewTruncate]; bv_decide
  simp only [physNew, h, if_true]

theorem frameContaining_cr3 (v : BitVec 64) :
    frameContaining (v &&& 0x000ffffffffff000#64) = v &&& 0x000ffffffffff000#64 := by
  simp only [frameContaining]; bv_decide

theorem canonical_iff (a : BitVec 64) : canonical a = true ↔ virtNewTruncate a = a := by
  simp only [canonical, virtNewTruncate, Bool.or_eq_true, beq_iff_eq]
  constructor
  · intro h; rcases h with h | h <;> bv_decide
  · intro h
    by_cases h0 : a.sshiftRight 47 = 0#64
    · exact Or.inl h0
    · right; bv_decide

theorem virtNew_canonical (a : BitVec 64) (h : canonical a = true) : virtNew a = .ok a := by
  have h' := (canonical_iff a).1 h
  simp only [virtNew, virtTryNew, h', if_true, R.ofOption_some]

theorem virtNew_noncanonical (a : BitVec 64) (h : canonical a = false) : virtNew a = .panic := by
  have h' : ¬ virtNewTruncate a = a := by
    intro e; have := (canonical_iff a).2 e; rw [h] at this; exact Bool.false_ne_true this
  simp only [virtNew, virtTryNew, h', if_false, R.ofOption_none]

end X86

namespace X86
open X86.Spec X86.Consts X86.Regs

/-! ### STAR selector checks -/

theorem starRejection_none (a b x y : Nat) :
    starRejection a b x y = none ↔
      ((a : Int) - 16 = (b : Int) - 8 ∧ (x : Int) = (y : Int) - 8 ∧ b % 4 = 3 ∧ y % 4 = 0) := by
  unfold starRejection
  constructor
  · intro h
    split at h; · exact absurd h (by simp)
    split at h; · exact absurd h (by simp)
    split at h; · exact absurd h (by simp)
    split at h; · exact absurd h (by simp)
    rename_i h1 h2 h3 h4
    exact ⟨Decidable.not_not.1 h1, Decidable.not_not.1 h2, Decidable.not_not.1 h3, Decidable.not_not.1 h4⟩
  · rintro ⟨h1, h2, h3, h4⟩
    simp only [h1, h2, h3, h4, ne_eq, not_true_eq_false, if_false]

theorem sel_rpl_toNat (b : BitVec 16) : (b &&& 3#16).toNat = b.toNat % 4 := by
  simp only [BitVec.toNat_and, BitVec.toNat_ofNat]
  exact Nat.and_two_pow_sub_one_eq_mod b.toNat 2

theorem sel_rpl3 (b : BitVec 16) : (b &&& 3#16 = 3#16) ↔ b.toNat % 4 = 3 := by
  constructor
  · intro h; rw [← sel_rpl_toNat, h]; rfl
  · intro h; apply BitVec.eq_of_toNat_eq; rw [sel_rpl_toNat, h]; rfl

theorem sel_rpl0 (b : BitVec 16) : (b &&& 3#16 = 0#16) ↔ b.toNat % 4 = 0 := by
  constructor
  · intro h; rw [← sel_rpl_toNat, h]; rfl
  · intro h; apply BitVec.eq_of_toNat_eq; rw [sel_rpl_toNat, h]; rfl

end X86
