/-
The tree invariant of a page-table hierarchy in flat memory and the frame rule: writing one
word of one table changes the hardware walk only for addresses whose path goes through that word.
-/
import X86Model.Proofs.MapperBase

namespace X86
open X86.Spec

/-- Indices of `va` from level `lvl` down to level 1. -/
def vaPathFrom : Nat → Nat → List Nat
  | 0, _ => []
  | lvl + 1, va => vaIdx (lvl + 1) va :: vaPathFrom lvl va

@[simp] theorem vaPathFrom_length (lvl va : Nat) : (vaPathFrom lvl va).length = lvl := by
  induction lvl with
  | zero => rfl
  | succ n ih => simp [vaPathFrom, ih]

/-- The full index path `[i4, i3, i2, i1]` of a virtual address. -/
def vaPath (va : Nat) : List Nat := vaPathFrom 4 va

theorem vaPath_drop (va n : Nat) (h : n ≤ 4) : (vaPath va).drop n = vaPathFrom (4 - n) va := by
  have : n = 0 ∨ n = 1 ∨ n = 2 ∨ n = 3 ∨ n = 4 := by omega
  rcases this with h | h | h | h | h <;> subst h <;> rfl

/-- If `r ++ j :: rest` is the path of `va`, then `j` is the index of `va` at level `4 - |r|`. -/
theorem vaIdx_of_prefix (va : Nat) (r : List Nat) (j : Nat) (rest : List Nat) (k : Nat)
    (h : r ++ j :: rest = vaPath va) (hk : 4 - r.length = k + 1) : vaIdx (k + 1) va = j := by
  have h1 : (vaPath va).drop r.length = j :: rest := by rw [← h]; simp
  rw [vaPath_drop va r.length (by omega), hk, vaPathFrom] at h1
  exact (List.cons.inj h1).1

/-- All indices of a path are real table indices. -/
def IdxOK (p : List Nat) : Prop := ∀ j ∈ p, j < 512

theorem vaIdx_lt (lvl va : Nat) : vaIdx lvl va < 512 := by unfold vaIdx; omega

theorem IdxOK_vaPathFrom (lvl va : Nat) : IdxOK (vaPathFrom lvl va) := by
  induction lvl with
  | zero => intro j hj; simp [vaPathFrom] at hj
  | succ n ih =>
    intro j hj
    simp only [vaPathFrom, List.mem_cons] at hj
    rcases hj with h | h
    · rw [h]; exact vaIdx_lt _ _
    · exact ih j h

theorem IdxOK_append {p q : List Nat} : IdxOK (p ++ q) ↔ IdxOK p ∧ IdxOK q := by
  unfold IdxOK; simp only [List.mem_append]
  constructor
  · intro h; exact ⟨fun j hj => h j (Or.inl hj), fun j hj => h j (Or.inr hj)⟩
  · rintro ⟨h1, h2⟩ j (hj | hj)
    · exact h1 j hj
    · exact h2 j hj

/-- A prefix of a virtual address's path has real indices. -/
theorem IdxOK_of_prefix {r : List Nat} {va : Nat} (h : r <+: vaPath va) : IdxOK r := by
  obtain ⟨rest, hrest⟩ := h
  have := IdxOK_vaPathFrom 4 va
  rw [show vaPathFrom 4 va = vaPath va from rfl, ← hrest] at this
  exact (IdxOK_append.1 this).1

/-- **Tree invariant**: the tables of the hierarchy (paths of length ≤ 3 from the root through
present, non-huge entries) are pairwise distinct frames — no frame is used as two tables, and no
table is reachable twice. -/
def WF (m : PMem) (p4 : Word) : Prop :=
  ∀ p q f, p.length ≤ 3 → q.length ≤ 3 → IdxOK p → IdxOK q →
    tblAt m p4 p = some f → tblAt m p4 q = some f → p = q

/-- What the walk does with an entry `e` read at level `lvl`. -/
def entryStep (m : PhysMem) (lvl : Nat) (e : Word) (va : Nat) (rw us : Bool) : Option Xlat :=
  if !bitP e then none
  else if lvl = 4 then
    (if bitPS e then none else walkFrom m 3 (tableAddr e) va (rw && bitRW e) (us && bitUS e))
  else if lvl = 1 then some (leafXlat 1 e va rw us)
  else if bitPS e then some (leafXlat lvl e va rw us)
  else walkFrom m (lvl - 1) (tableAddr e) va (rw && bitRW e) (us && bitUS e)

theorem walkFrom_succ (m : PhysMem) (lvl : Nat) (t : Word) (va : Nat) (rw us : Bool) :
    walkFrom m (lvl + 1) t va rw us = entryStep m (lvl + 1) (m t (vaIdx (lvl + 1) va)) va rw us := by
  unfold walkFrom
  unfold entryStep
  simp only [Nat.add_sub_cancel]
  by_cases h4 : lvl + 1 = 4
  · have : lvl = 3 := by omega
    subst this; simp
  · simp [h4]

theorem tableOf_some_iff (e t : Word) : tableOf e = some t ↔ bitP e = true ∧ bitPS e = false ∧ t = tableAddr e := by
  unfold tableOf
  rw [present_eq_bitP, huge_eq_bitPS, addr_eq_tableAddr]
  cases bitP e <;> cases bitPS e <;> simp [eq_comm]

/-- **Frame rule (off the written word).** Let `f` be the table at path `p` and write word `(f, i)`.
A walk that is at table `t` (reached by path `r`) and continues with the indices of `va` never
reads the written word — and therefore returns the same result — if `r` is already longer than
`p`, or `p ++ [i]` is not a prefix of the walk's index path. -/
theorem walkFrom_set_off (m : PMem) (p4 : Word) (hwf : WF m p4) (p : List Nat) (f : Word) (i : Nat) (v : Word)
    (hp : tblAt m p4 p = some f) (hpl : p.length ≤ 3) (hpi : IdxOK p) (va : Nat) :
    ∀ (lvl : Nat) (t : Word) (r : List Nat) (rw us : Bool),
      tblAt m p4 r = some t → r.length + lvl = 4 → IdxOK r →
      (p.length < r.length ∨ ¬ (p ++ [i] <+: r ++ vaPathFrom lvl va)) →
      walkFrom (m.set f i v) lvl t va rw us = walkFrom m lvl t va rw us := by
  intro lvl
  induction lvl with
  | zero => intros; rfl
  | succ lvl ih =>
    intro t r rw us hr hlen hri hoff
    rw [walkFrom_succ, walkFrom_succ]
    -- the entry read at this level is not the written word
    have hne : ¬ (t = f ∧ vaIdx (lvl + 1) va = i) := by
      rintro ⟨htf, hidx⟩
      have hrp : r = p := hwf r p f (by omega) hpl hri hpi (htf ▸ hr) hp
      rcases hoff with h | h
      · rw [hrp] at h; exact Nat.lt_irrefl _ h
      · apply h
        rw [hrp, vaPathFrom, hidx]
        exact ⟨vaPathFrom lvl va, by simp⟩
    rw [PMem.set_other m f i v t _ hne]
    generalize he : m t (vaIdx (lvl + 1) va) = e
    -- same entry: either the walk ends here, or it descends into the same table
    unfold entryStep
    by_cases hP : bitP e = true
    · by_cases hS : bitPS e = true
      · simp [hP, hS]
      · have hS' : bitPS e = false := by simpa using hS
        have hto : tableOf e = some (tableAddr e) := (tableOf_some_iff e _).2 ⟨hP, hS', rfl⟩
        have hr' : tblAt m p4 (r ++ [vaIdx (lvl + 1) va]) = some (tableAddr e) := by
          rw [tblAt_append, hr]; simp [tblAt, he, hto]
        have hoff' : p.length < (r ++ [vaIdx (lvl + 1) va]).length ∨
            ¬ (p ++ [i] <+: (r ++ [vaIdx (lvl + 1) va]) ++ vaPathFrom lvl va) := by
          rcases hoff with h | h
          · left; simp; omega
          · right; simpa [vaPathFrom] using h
        have hlen' : (r ++ [vaIdx (lvl + 1) va]).length + lvl = 4 := by simp; omega
        have hri' : IdxOK (r ++ [vaIdx (lvl + 1) va]) :=
          IdxOK_append.2 ⟨hri, fun j hj => by simp at hj; rw [hj]; exact vaIdx_lt _ _⟩
        have := ih (tableAddr e) (r ++ [vaIdx (lvl + 1) va]) (rw && bitRW e) (us && bitUS e) hr' hlen' hri' hoff'
        by_cases h4 : lvl + 1 = 4
        · have : lvl = 3 := by omega
          subst this; simp [hP, hS', this]
        · by_cases h1 : lvl + 1 = 1
          · simp [hP, h1]
          · simp only [hP, hS', h4, h1, Nat.add_sub_cancel]
            simpa using this
    · have hP' : bitP e = false := by simpa using hP
      simp [hP']

/-- The mapping part of a translation (everything except the effective rights). -/
def Xlat.core (x : Xlat) : Nat × Nat × Nat × Word := (x.base, x.size, x.off, x.flags)

/-- The accumulated rights do not influence which mapping a walk finds. -/
theorem walkFrom_core (m : PhysMem) (va : Nat) :
    ∀ (lvl : Nat) (t : Word) (rw us rw' us' : Bool),
      (walkFrom m lvl t va rw us).map Xlat.core = (walkFrom m lvl t va rw' us').map Xlat.core := by
  intro lvl
  induction lvl with
  | zero => intros; rfl
  | succ lvl ih =>
    intro t rw us rw' us'
    rw [walkFrom_succ, walkFrom_succ]
    generalize m t (vaIdx (lvl + 1) va) = e
    unfold entryStep
    by_cases hP : bitP e = true
    · by_cases h4 : lvl + 1 = 4
      · have h3 : lvl = 3 := by omega
        subst h3
        by_cases hS : bitPS e = true
        · simp [hP, hS]
        · simp only [hP, hS, Bool.not_true, Bool.false_eq_true, if_false, if_true]
          exact ih _ _ _ _ _
      · by_cases h1 : lvl + 1 = 1
        · simp [hP, h4, h1, leafXlat, Xlat.core]
        · by_cases hS : bitPS e = true
          · simp only [hP, hS, h4, h1, Bool.not_true, Bool.false_eq_true, if_false, if_true, Option.map_some]
            simp only [leafXlat, Xlat.core]
            split <;> (try split) <;> rfl
          · simp only [hP, hS, h4, h1, Bool.not_true, Bool.false_eq_true, if_false, Nat.add_sub_cancel]
            exact ih _ _ _ _ _
    · simp [hP]

/-- Off-path addresses keep their whole translation (including effective rights). -/
theorem walk_set_off (m : PMem) (p4 : Word) (hwf : WF m p4) (p : List Nat) (f : Word) (i : Nat) (v : Word)
    (hp : tblAt m p4 p = some f) (hpl : p.length ≤ 3) (hpi : IdxOK p) (va : Nat)
    (hoff : ¬ (p ++ [i] <+: vaPath va)) :
    walk (m.set f i v) p4 va = walk m p4 va := by
  rw [walk_eq_walkFrom, walk_eq_walkFrom]
  exact walkFrom_set_off m p4 hwf p f i v hp hpl hpi va 4 p4 [] true true rfl rfl (fun _ h => by cases h)
    (Or.inr (by simpa [vaPath] using hoff))

/-- **Frame rule (on the written word).** If `p ++ [i]` is a prefix of `va`'s path, both walks — before
and after the write — reach the table `f` with the same accumulated rights and then process the
old resp. new entry. -/
theorem walk_set_on (m : PMem) (p4 : Word) (hwf : WF m p4) (f : Word) (i : Nat) (v : Word) (va : Nat) :
    ∀ (p : List Nat), tblAt m p4 p = some f → p.length ≤ 3 → p ++ [i] <+: vaPath va →
    ∃ rw us,
      walk m p4 va = entryStep m (4 - p.length) (m f i) va rw us ∧
      walk (m.set f i v) p4 va = entryStep (m.set f i v) (4 - p.length) v va rw us := by
  -- generalised: start at table `t` reached by `r`, with `r ++ q = p`
  have gen : ∀ (q r : List Nat) (t : Word) (rw us : Bool),
      tblAt m p4 r = some t → tblAt m p4 (r ++ q) = some f → (r ++ q).length ≤ 3 →
      r ++ q ++ [i] <+: vaPath va →
      ∃ rw' us',
        walkFrom m (4 - r.length) t va rw us = entryStep m (4 - (r ++ q).length) (m f i) va rw' us' ∧
        walkFrom (m.set f i v) (4 - r.length) t va rw us =
          entryStep (m.set f i v) (4 - (r ++ q).length) v va rw' us' := by
    intro q
    induction q with
    | nil =>
      intro r t rw us hr hrq hlen hpre
      simp only [List.append_nil] at hrq hlen hpre ⊢
      have htf : t = f := by rw [hr] at hrq; exact Option.some.inj hrq
      subst htf
      obtain ⟨k, hk⟩ : ∃ k, 4 - r.length = k + 1 := ⟨3 - r.length, by omega⟩
      -- the index of `va` at this level is `i`
      have hidx : vaIdx (k + 1) va = i := by
        obtain ⟨rest, hrest⟩ := hpre
        exact vaIdx_of_prefix va r i rest k (by simpa using hrest) hk
      refine ⟨rw, us, ?_, ?_⟩
      · rw [hk, walkFrom_succ, hidx]
      · rw [hk, walkFrom_succ, hidx, PMem.set_same]
    | cons j q ih =>
      intro r t rw us hr hrq hlen hpre
      have hrl : r.length ≤ 2 := by simp at hlen; omega
      obtain ⟨k, hk⟩ : ∃ k, 4 - r.length = k + 1 := ⟨3 - r.length, by omega⟩
      -- the walk's index at this level is `j`
      have hidx : vaIdx (k + 1) va = j := by
        obtain ⟨rest, hrest⟩ := hpre
        exact vaIdx_of_prefix va r j (q ++ [i] ++ rest) k (by simpa using hrest) hk
      -- the entry at (t, j) is a table entry, and it is not the written word
      have hsplit : tblAt m p4 (r ++ j :: q) = (tblAt m p4 (r ++ [j])).bind (fun t' => tblAt m t' q) := by
        have : r ++ j :: q = (r ++ [j]) ++ q := by simp
        rw [this, tblAt_append]
      have hrj : ∃ t', tblAt m p4 (r ++ [j]) = some t' := by
        cases h : tblAt m p4 (r ++ [j]) with
        | none => rw [hsplit, h] at hrq; cases hrq
        | some t' => exact ⟨t', rfl⟩
      obtain ⟨t', ht'⟩ := hrj
      have hto : tableOf (m t j) = some t' := by
        rw [tblAt_append, hr] at ht'
        simp only [Option.bind_some, tblAt] at ht'
        cases h : tableOf (m t j) with
        | none => rw [h] at ht'; cases ht'
        | some x => rw [h] at ht'; simpa using ht'
      obtain ⟨hP, hS, hta⟩ := (tableOf_some_iff _ _).1 hto
      have hne : ¬ (t = f ∧ j = i) := by
        rintro ⟨htf, _⟩
        have hall : IdxOK (r ++ j :: q) := by
          have : r ++ j :: q <+: vaPath va := by
            obtain ⟨rest, hrest⟩ := hpre
            exact ⟨[i] ++ rest, by simpa using hrest⟩
          exact IdxOK_of_prefix this
        have := hwf r (r ++ j :: q) f (by omega) hlen (IdxOK_append.1 hall).1 hall (htf ▸ hr) hrq
        have hl := congrArg List.length this
        simp at hl
      have hrq' : tblAt m p4 ((r ++ [j]) ++ q) = some f := by simpa using hrq
      have hlen' : ((r ++ [j]) ++ q).length ≤ 3 := by simpa using hlen
      have hpre' : (r ++ [j]) ++ q ++ [i] <+: vaPath va := by simpa using hpre
      obtain ⟨rw', us', h1, h2⟩ := ih (r ++ [j]) t' (rw && bitRW (m t j)) (us && bitUS (m t j)) ht' hrq' hlen' hpre'
      have hk' : 4 - (r ++ [j]).length = k := by simp; omega
      have hl2 : (r ++ j :: q).length = ((r ++ [j]) ++ q).length := by simp
      refine ⟨rw', us', ?_, ?_⟩
      · rw [hk, walkFrom_succ, hidx, hl2, ← h1, hk']
        unfold entryStep
        by_cases h4 : k + 1 = 4
        · have : k = 3 := by omega
          subst this; simp [hP, hS, hta]
        · have hk0 : k ≠ 0 := by omega
          simp [hP, hS, h4, hk0, hta]
      · rw [hk, walkFrom_succ, hidx, hl2, ← h2, hk', PMem.set_other m f i v t j hne]
        unfold entryStep
        by_cases h4 : k + 1 = 4
        · have : k = 3 := by omega
          subst this; simp [hP, hS, hta]
        · have hk0 : k ≠ 0 := by omega
          simp [hP, hS, h4, hk0, hta]
  intro p hp hpl hpre
  have := gen p [] p4 true true rfl (by simpa using hp) (by simpa using hpl) (by simpa using hpre)
  simpa [walk_eq_walkFrom] using this

end X86
