/-
Linking a fresh, zeroed table into the hierarchy (`create_next_table` on an unused entry):
the table tree grows by exactly that table, no translation changes, the invariant is kept.
-/
import X86Model.Proofs.MapperWF

namespace X86
open X86.Spec

/-- `m2` agrees with `m` on every word the walk of `va` from table `t` (level `lvl`) reads in `m`. -/
def AgreeWalk (m m2 : PMem) (va : Nat) : Nat → Word → Prop
  | 0, _ => True
  | lvl + 1, t =>
    m2 t (vaIdx (lvl + 1) va) = m t (vaIdx (lvl + 1) va) ∧
    ∀ t', tableOf (m t (vaIdx (lvl + 1) va)) = some t' → AgreeWalk m m2 va lvl t'

theorem walkFrom_congr (m m2 : PMem) (va : Nat) :
    ∀ (lvl : Nat) (t : Word) (rw us : Bool), AgreeWalk m m2 va lvl t →
      walkFrom m2 lvl t va rw us = walkFrom m lvl t va rw us := by
  intro lvl
  induction lvl with
  | zero => intros; rfl
  | succ lvl ih =>
    intro t rw us ⟨h1, h2⟩
    rw [walkFrom_succ, walkFrom_succ, h1]
    generalize he : m t (vaIdx (lvl + 1) va) = e at h2
    unfold entryStep
    by_cases hP : bitP e = true
    · by_cases hS : bitPS e = true
      · simp [hP, hS]
      · have hS' : bitPS e = false := by simpa using hS
        have hrec := ih (tableAddr e) (rw && bitRW e) (us && bitUS e)
          (h2 _ ((tableOf_some_iff e _).2 ⟨hP, hS', rfl⟩))
        by_cases h4 : lvl + 1 = 4
        · have : lvl = 3 := by omega
          subst this; simp [hP, hS', hrec]
        · by_cases h1' : lvl + 1 = 1
          · simp [hP, h1']
          · simp only [hP, hS', h4, h1', Nat.add_sub_cancel]
            simpa using hrec
    · have hP' : bitP e = false := by simpa using hP
      simp [hP']

/-- The same for the table tree: `m2` agrees with `m` on the words read along `q` from `t`. -/
def AgreePath (m m2 : PMem) : Word → List Nat → Prop
  | _, [] => True
  | t, j :: q => m2 t j = m t j ∧ ∀ t', tableOf (m t j) = some t' → AgreePath m m2 t' q

theorem tblAt_congr (m m2 : PMem) : ∀ (q : List Nat) (t : Word), AgreePath m m2 t q →
    tblAt m2 t q = tblAt m t q := by
  intro q
  induction q with
  | nil => intros; rfl
  | cons j q ih =>
    intro t ⟨h1, h2⟩
    simp only [tblAt, h1]
    cases hto : tableOf (m t j) with
    | none => rfl
    | some t' => exact ih t' (h2 t' hto)

/-- The walk reaches the table at path `p` and processes the entry at the next index. -/
theorem walk_reach (m : PMem) (p4 : Word) (hwf : WF m p4) (p : List Nat) (f : Word) (i : Nat) (va : Nat)
    (hp : tblAt m p4 p = some f) (hpl : p.length ≤ 3) (hpre : p ++ [i] <+: vaPath va) :
    ∃ rw us, walk m p4 va = entryStep m (4 - p.length) (m f i) va rw us := by
  obtain ⟨rw, us, h1, _⟩ := walk_set_on m p4 hwf f i (m f i) va p hp hpl hpre
  exact ⟨rw, us, h1⟩

/-- A frame that can be handed out by the allocator: 4 KiB aligned, below 2^52, and not a table of
the hierarchy (the `FrameAllocator` contract: "only unique unused frames"). -/
structure FreshAt (m : PMem) (p4 : Word) (f : Word) : Prop where
  fits : f &&& 0xfff0000000000fff#64 = 0#64
  notTable : ∀ q, q.length ≤ 3 → IdxOK q → tblAt m p4 q ≠ some f

/-- Flags put on a new parent entry: present, not huge, no address bits. -/
structure LinkFlags (fl : Word) : Prop where
  pres : fl &&& 1#64 = 1#64
  nohuge : fl &&& 0x80#64 = 0#64
  noaddr : fl &&& 0x000ffffffffff000#64 = 0#64

theorem link_bits (f fl : Word) (hf : f &&& 0xfff0000000000fff#64 = 0#64) (h : LinkFlags fl) :
    bitP (Pte.mk f fl) = true ∧ bitPS (Pte.mk f fl) = false ∧ tableAddr (Pte.mk f fl) = f ∧
    Pte.aligned4K f = true ∧ Pte.mk f fl ≠ 0#64 := by
  obtain ⟨h1, h2, h3⟩ := h
  unfold bitP bitPS tableAddr Pte.mk Pte.aligned4K
  unfold Word at *
  refine ⟨?_, ?_, ?_, ?_, ?_⟩ <;> bv_decide

/-- Memory after linking the fresh frame `f` at slot `(tbl, i)` and zeroing it. -/
def linked (m : PMem) (tbl : Word) (i : Nat) (f fl : Word) : PMem := (m.set tbl i (Pte.mk f fl)).zeroed f

theorem linked_at_slot (m : PMem) (tbl : Word) (i : Nat) (f fl : Word) (hne : tbl ≠ f) :
    linked m tbl i f fl tbl i = Pte.mk f fl := by
  unfold linked PMem.zeroed
  simp [hne]

theorem linked_at_new (m : PMem) (tbl : Word) (i : Nat) (f fl : Word) (j : Nat) (hj : j < 512) :
    linked m tbl i f fl f j = 0#64 := by
  unfold linked PMem.zeroed
  simp [hj]

theorem linked_other (m : PMem) (tbl : Word) (i : Nat) (f fl : Word) (t : Word) (j : Nat)
    (ht : t ≠ f) (hne : ¬ (t = tbl ∧ j = i)) : linked m tbl i f fl t j = m t j := by
  unfold linked PMem.zeroed
  simp only [ht, false_and, if_false]
  exact PMem.set_other m tbl i _ t j hne

section Link
variable (m : PMem) (p4 : Word) (hinv : Inv m p4) (r : List Nat) (tbl : Word) (i : Nat) (f fl : Word)
  (hr : tblAt m p4 r = some tbl) (hrl : r.length ≤ 2) (hri : IdxOK r) (hi : i < 512)
  (hzero : m tbl i = 0#64) (hfresh : FreshAt m p4 f) (hfl : LinkFlags fl)

include hinv hr hrl hri hfresh in
/-- Reads along a path that does not go through the new slot are unaffected. -/
theorem linked_agreePath : ∀ (q r' : List Nat) (t : Word), tblAt m p4 r' = some t →
    (r' ++ q).length ≤ 3 → IdxOK (r' ++ q) → (r.length < r'.length ∨ ¬ (r ++ [i] <+: r' ++ q)) →
    AgreePath m (linked m tbl i f fl) t q := by
  intro q
  induction q with
  | nil => intros; trivial
  | cons j q ih =>
    intro r' t hr' hlen hidx hoff
    have hr'i : IdxOK r' := (IdxOK_append.1 hidx).1
    have hr'l : r'.length ≤ 3 := by simp at hlen; omega
    have htf : t ≠ f := fun h => hfresh.notTable r' hr'l hr'i (h ▸ hr')
    have hne : ¬ (t = tbl ∧ j = i) := by
      rintro ⟨htt, hji⟩
      have hrr : r' = r := hinv.wf r' r tbl hr'l (by omega) hr'i hri (htt ▸ hr') hr
      rcases hoff with h | h
      · rw [hrr] at h; exact Nat.lt_irrefl _ h
      · apply h; rw [hrr, hji]; exact ⟨q, by simp⟩
    refine ⟨linked_other m tbl i f fl t j htf hne, ?_⟩
    intro t' hto
    have hr'' : tblAt m p4 (r' ++ [j]) = some t' := by
      rw [tblAt_append, hr']; simp [tblAt, hto]
    apply ih (r' ++ [j]) t' hr'' (by simpa using hlen) (by simpa using hidx)
    rcases hoff with h | h
    · left; simp; omega
    · right; simpa using h

include hinv hr hrl hri hi hzero hfresh hfl in
/-- **The table tree after linking**: the new table sits at `r ++ [i]`, nothing hangs below it,
and every other path leads where it led before. -/
theorem tblAt_linked (q : List Nat) (hq : q.length ≤ 3) (hqi : IdxOK q) :
    tblAt (linked m tbl i f fl) p4 q =
      if q = r ++ [i] then some f
      else if r ++ [i] <+: q then none
      else tblAt m p4 q := by
  have htf : tbl ≠ f := fun h => hfresh.notTable r (by omega) hri (h ▸ hr)
  obtain ⟨b1, b2, b3, _, _⟩ := link_bits f fl hfresh.fits hfl
  have hlink : tableOf (Pte.mk f fl) = some f := (tableOf_some_iff _ _).2 ⟨b1, b2, b3.symm⟩
  by_cases hpre : r ++ [i] <+: q
  · obtain ⟨q', hq'⟩ := hpre
    -- down to `tbl` nothing changed
    have hdown : tblAt (linked m tbl i f fl) p4 r = some tbl := by
      rw [tblAt_congr m _ r p4 (linked_agreePath m p4 hinv r tbl i f fl hr hrl hri hfresh r [] p4 rfl
        (by simp; omega) (by simpa using hri) (Or.inr (by
          simp only [List.nil_append]
          rintro ⟨x, hx⟩
          have := congrArg List.length hx
          simp at this)))]
      exact hr
    have hstep : tblAt (linked m tbl i f fl) p4 (r ++ [i]) = some f := by
      rw [tblAt_append, hdown]
      simp [tblAt, linked_at_slot m tbl i f fl htf, hlink]
    rw [← hq']
    cases q' with
    | nil => simp [hstep]
    | cons j q'' =>
      have hne : ¬ (r ++ [i] ++ j :: q'' = r ++ [i]) := by
        intro h; have := congrArg List.length h; simp at this
      have hj : j < 512 := hqi j (by rw [← hq']; simp)
      have hto0 : tableOf (0#64 : Word) = none := by decide
      rw [if_neg hne, if_pos ⟨j :: q'', rfl⟩, tblAt_append, hstep]
      simp [tblAt, linked_at_new m tbl i f fl j hj, hto0]
  · have hne : q ≠ r ++ [i] := fun h => hpre ⟨[], by simp [h]⟩
    rw [if_neg hne, if_neg hpre]
    exact tblAt_congr m _ q p4 (linked_agreePath m p4 hinv r tbl i f fl hr hrl hri hfresh q [] p4 rfl
      (by simpa using hq) (by simpa using hqi) (Or.inr (by simpa using hpre)))

include hinv hr hrl hri hi hzero hfresh hfl in
/-- Linking a fresh zeroed table changes no translation at all. -/
theorem walk_linked (va : Nat) : walk (linked m tbl i f fl) p4 va = walk m p4 va := by
  have htf : tbl ≠ f := fun h => hfresh.notTable r (by omega) hri (h ▸ hr)
  obtain ⟨b1, b2, b3, _, _⟩ := link_bits f fl hfresh.fits hfl
  by_cases hva : r ++ [i] <+: vaPath va
  · -- both walks end with "not present"
    obtain ⟨rw, us, h1⟩ := walk_reach m p4 hinv.wf r tbl i va hr (by omega) hva
    rw [h1, hzero]
    have hz : ∀ m' lvl rw us, entryStep m' lvl 0#64 va rw us = none := by
      intro m' lvl rw us; unfold entryStep; simp [bitP]
    rw [hz]
    -- the new hierarchy
    have hwf2 : WF (linked m tbl i f fl) p4 := by
      intro a b g ha hb hai hbi hga hgb
      rw [tblAt_linked m p4 hinv r tbl i f fl hr hrl hri hi hzero hfresh hfl a ha hai] at hga
      rw [tblAt_linked m p4 hinv r tbl i f fl hr hrl hri hi hzero hfresh hfl b hb hbi] at hgb
      by_cases ea : a = r ++ [i] <;> by_cases eb : b = r ++ [i]
      · rw [ea, eb]
      · rw [if_pos ea] at hga; rw [if_neg eb] at hgb
        split at hgb
        · cases hgb
        · exact absurd (Option.some.inj hga ▸ hgb) (hfresh.notTable b hb hbi)
      · rw [if_pos eb] at hgb; rw [if_neg ea] at hga
        split at hga
        · cases hga
        · exact absurd (Option.some.inj hgb ▸ hga) (hfresh.notTable a ha hai)
      · rw [if_neg ea] at hga; rw [if_neg eb] at hgb
        split at hga
        · cases hga
        · split at hgb
          · cases hgb
          · exact hinv.wf a b g ha hb hai hbi hga hgb
    have hdown : tblAt (linked m tbl i f fl) p4 r = some tbl := by
      rw [tblAt_linked m p4 hinv r tbl i f fl hr hrl hri hi hzero hfresh hfl r (by omega) hri]
      have h1 : r ≠ r ++ [i] := by intro h; have := congrArg List.length h; simp at this
      have h2 : ¬ (r ++ [i] <+: r) := by
        rintro ⟨x, hx⟩; have := congrArg List.length hx; simp at this
      rw [if_neg h1, if_neg h2]; exact hr
    obtain ⟨rw2, us2, h2⟩ := walk_reach (linked m tbl i f fl) p4 hwf2 r tbl i va hdown (by omega) hva
    rw [h2, linked_at_slot m tbl i f fl htf]
    obtain ⟨k, hk⟩ : ∃ k, 4 - r.length = k + 2 := ⟨2 - r.length, by omega⟩
    unfold entryStep
    rw [hk]
    have hnext : ∀ rw' us', walkFrom (linked m tbl i f fl) (k + 1) f va rw' us' = none := by
      intro rw' us'
      rw [walkFrom_succ, linked_at_new m tbl i f fl _ (vaIdx_lt _ _), hz]
    by_cases h4 : k + 2 = 4
    · have : k = 2 := by omega
      subst this
      simp only [b1, b2, Bool.not_true, Bool.false_eq_true, if_false, if_true, b3]
      exact hnext _ _
    · have h1' : k + 2 ≠ 1 := by omega
      simp only [b1, b2, h4, h1', Bool.not_true, Bool.false_eq_true, if_false, b3]
      have : k + 2 - 1 = k + 1 := by omega
      rw [this]; exact hnext _ _
  · rw [walk_eq_walkFrom, walk_eq_walkFrom]
    apply walkFrom_congr
    -- every word the walk reads is untouched
    have gen : ∀ (lvl : Nat) (t : Word) (r' : List Nat), tblAt m p4 r' = some t → r'.length + lvl = 4 →
        IdxOK r' → (r.length < r'.length ∨ ¬ (r ++ [i] <+: r' ++ vaPathFrom lvl va)) →
        AgreeWalk m (linked m tbl i f fl) va lvl t := by
      intro lvl
      induction lvl with
      | zero => intros; trivial
      | succ lvl ih =>
        intro t r' hr' hlen hr'i hoff
        have hr'l : r'.length ≤ 3 := by omega
        have htf' : t ≠ f := fun h => hfresh.notTable r' hr'l hr'i (h ▸ hr')
        have hne : ¬ (t = tbl ∧ vaIdx (lvl + 1) va = i) := by
          rintro ⟨htt, hji⟩
          have hrr : r' = r := hinv.wf r' r tbl hr'l (by omega) hr'i hri (htt ▸ hr') hr
          rcases hoff with h | h
          · rw [hrr] at h; exact Nat.lt_irrefl _ h
          · apply h; rw [hrr, vaPathFrom, hji]; exact ⟨vaPathFrom lvl va, by simp⟩
        refine ⟨linked_other m tbl i f fl t _ htf' hne, ?_⟩
        intro t' hto
        have hr'' : tblAt m p4 (r' ++ [vaIdx (lvl + 1) va]) = some t' := by
          rw [tblAt_append, hr']; simp [tblAt, hto]
        apply ih t' (r' ++ [vaIdx (lvl + 1) va]) hr'' (by simp; omega)
          (IdxOK_append.2 ⟨hr'i, fun j hj => by simp at hj; rw [hj]; exact vaIdx_lt _ _⟩)
        rcases hoff with h | h
        · left; simp; omega
        · right; simpa [vaPathFrom] using h
    exact gen 4 p4 [] rfl rfl (fun _ h => by cases h) (Or.inr (by simpa [vaPath] using hva))

include hinv hr hrl hri hi hzero hfresh hfl in
/-- Linking a fresh zeroed table keeps `EntriesOK` (the link is present, the new table is zero). -/
theorem EntriesOK_linked (X : Nat → Word → Prop) (h : EntriesOK X m p4) :
    EntriesOK X (linked m tbl i f fl) p4 := by
  have htf : tbl ≠ f := fun h => hfresh.notTable r (by omega) hri (h ▸ hr)
  obtain ⟨b1, b2, b3, _, b5⟩ := link_bits f fl hfresh.fits hfl
  have T := tblAt_linked m p4 hinv r tbl i f fl hr hrl hri hi hzero hfresh hfl
  intro q g j hq hqi hg hj hne
  rw [T q hq hqi] at hg
  by_cases eq : q = r ++ [i]
  · rw [if_pos eq] at hg
    have : g = f := (Option.some.inj hg).symm
    subst this
    rw [linked_at_new m tbl i g fl j hj] at hne
    exact absurd rfl hne
  · rw [if_neg eq] at hg
    split at hg
    · cases hg
    · have hgf : g ≠ f := fun h => hfresh.notTable q hq hqi (h ▸ hg)
      by_cases hw : g = tbl ∧ j = i
      · obtain ⟨h1, h2⟩ := hw
        subst h1; subst h2
        rw [linked_at_slot m g j f fl htf]
        exact Or.inl b1
      · rw [linked_other m tbl i f fl g j hgf hw] at hne ⊢
        exact h q g j hq hqi hg hj hne

include hinv hr hrl hri hi hzero hfresh hfl in
/-- Linking a fresh zeroed table preserves the invariant. -/
theorem Inv_linked : Inv (linked m tbl i f fl) p4 := by
  have htf : tbl ≠ f := fun h => hfresh.notTable r (by omega) hri (h ▸ hr)
  obtain ⟨b1, b2, b3, _, b5⟩ := link_bits f fl hfresh.fits hfl
  have T := tblAt_linked m p4 hinv r tbl i f fl hr hrl hri hi hzero hfresh hfl
  refine ⟨?_, ?_, ?_⟩
  · intro a b g ha hb hai hbi hga hgb
    rw [T a ha hai] at hga
    rw [T b hb hbi] at hgb
    by_cases ea : a = r ++ [i] <;> by_cases eb : b = r ++ [i]
    · rw [ea, eb]
    · rw [if_pos ea] at hga; rw [if_neg eb] at hgb
      split at hgb
      · cases hgb
      · exact absurd (Option.some.inj hga ▸ hgb) (hfresh.notTable b hb hbi)
    · rw [if_pos eb] at hgb; rw [if_neg ea] at hga
      split at hga
      · cases hga
      · exact absurd (Option.some.inj hgb ▸ hga) (hfresh.notTable a ha hai)
    · rw [if_neg ea] at hga; rw [if_neg eb] at hgb
      split at hga
      · cases hga
      · split at hgb
        · cases hgb
        · exact hinv.wf a b g ha hb hai hbi hga hgb
  · exact EntriesOK_linked m p4 hinv r tbl i f fl hr hrl hri hi hzero hfresh hfl _ hinv.pres
  · intro j hj
    have hp4f : p4 ≠ f := fun h => hfresh.notTable [] (by simp) (fun _ h => by cases h) (by simp [tblAt, h])
    by_cases hw : p4 = tbl ∧ j = i
    · obtain ⟨h1, h2⟩ := hw
      subst h1; subst h2
      rw [linked_at_slot m p4 j f fl htf]
      exact b2
    · rw [linked_other m tbl i f fl p4 j hp4f hw]
      exact hinv.p4nh j hj

end Link

end X86

namespace X86
open X86.Spec

/-- Rewriting a table entry into another entry that points to the same table (only flag bits
differ) changes no mapping — only effective rights — and keeps the invariant. -/
theorem set_table_entry (m : PMem) (p4 : Word) (hinv : Inv m p4) (r : List Nat) (tbl : Word) (i : Nat) (v : Word)
    (hr : tblAt m p4 r = some tbl) (hrl : r.length ≤ 2) (hri : IdxOK r) (hi : i < 512)
    (hP : bitP (m tbl i) = true) (hS : bitPS (m tbl i) = false)
    (b1 : bitP v = true) (b2 : bitPS v = false) (b3 : tableAddr v = tableAddr (m tbl i)) :
    Inv (m.set tbl i v) p4 ∧
    (∀ q, q.length ≤ 3 → IdxOK q → tblAt (m.set tbl i v) p4 q = tblAt m p4 q) ∧
    ∀ va, (walk (m.set tbl i v) p4 va).map Xlat.core = (walk m p4 va).map Xlat.core := by
  have hl3 : r.length ≤ 3 := by omega
  have hto : tableOf v = tableOf (m tbl i) := by
    rw [(tableOf_some_iff _ _).2 ⟨b1, b2, rfl⟩, (tableOf_some_iff _ _).2 ⟨hP, hS, rfl⟩, b3]
  refine ⟨?_, ?_, ?_⟩
  · exact Inv_set m p4 hinv _ tbl i _ hr hl3 hri (Or.inr hto) (Or.inr b1) (fun _ => b2)
  · intro q hq hqi
    exact tblAt_set_eq_root m p4 hinv.wf r tbl i v hr hl3 hri (Or.inr hto) q hq hqi
  · intro va
    by_cases hva : r ++ [i] <+: vaPath va
    · obtain ⟨rw, us, h1, h2⟩ := walk_set_on m p4 hinv.wf tbl i v va _ hr hl3 hva
      rw [h1, h2]
      obtain ⟨k, hk⟩ : ∃ k, 4 - r.length = k + 2 := ⟨2 - r.length, by omega⟩
      have hbelow : ∀ rw' us',
          walkFrom (m.set tbl i v) (k + 1) (tableAddr (m tbl i)) va rw' us' =
          walkFrom m (k + 1) (tableAddr (m tbl i)) va rw' us' := by
        intro rw' us'
        have hr' : tblAt m p4 (r ++ [i]) = some (tableAddr (m tbl i)) := by
          rw [tblAt_append, hr]; simp [tblAt, (tableOf_some_iff _ _).2 ⟨hP, hS, rfl⟩]
        exact walkFrom_set_off m p4 hinv.wf r tbl i _ hr hl3 hri va (k + 1) _ (r ++ [i]) rw' us' hr'
          (by simp; omega) (IdxOK_append.2 ⟨hri, fun j hj => by simp at hj; rw [hj]; exact hi⟩)
          (Or.inl (by simp))
      unfold entryStep
      rw [hk]
      by_cases h4 : k + 2 = 4
      · have : k = 2 := by omega
        subst this
        simp only [b1, hP, b2, hS, Bool.not_true, Bool.false_eq_true, if_false, if_true, b3]
        rw [hbelow]; exact walkFrom_core _ _ _ _ _ _ _ _
      · have h1' : k + 2 ≠ 1 := by omega
        simp only [b1, hP, b2, hS, h4, h1', Bool.not_true, Bool.false_eq_true, if_false, b3]
        have : k + 2 - 1 = k + 1 := by omega
        rw [this, hbelow]; exact walkFrom_core _ _ _ _ _ _ _ _
    · rw [walk_set_off m p4 hinv.wf _ tbl i _ hr hl3 hri va hva]

end X86
