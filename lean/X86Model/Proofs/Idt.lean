/-
Helper lemmas for C12: the layouts computed from the generated field lists, the memory image of an
entry in closed form, the option setters in closed form (with the generated bit positions
evaluated), and the slice-index arithmetic. Property statements are in Properties/C12.lean.
-/
import X86Model.Model.Idt
import X86Model.Spec.Gate
import Std.Tactic.BVDecide

set_option linter.unusedSimpArgs false

namespace X86.Idt
open X86 X86.Spec

/-! ### Layouts (from the generated field order and types, by the `repr(C)` rule) -/

theorem opts_layout : optsLayout = some ⟨[("cs", 0), ("bits", 2)], 4, 2⟩ := by decide

theorem entry_layout : entryLayout =
    some ⟨[("pointer_low", 0), ("options", 2), ("pointer_middle", 6), ("pointer_high", 8), ("reserved", 12),
           ("phantom", 16)], 16, 4⟩ := by decide

theorem entry_size : entrySize = 16 := by decide

theorem table_size : tableSize = 4096 := by decide +kernel

/-- The `interrupts` array the slice functions index: field 27, at byte 512, 224 entries. -/
theorem slice_field : Generated.Idt.sliceBody.2.1 = Generated.Idt.sliceMutBody.2.1 ∧
    fieldOffset Generated.Idt.sliceBody.2.1 = some 512 ∧ fieldLen Generated.Idt.sliceBody.2.1 = 224 ∧
    Generated.Idt.sliceBody.2.2 = (32, 32) ∧ Generated.Idt.sliceMutBody.2.2 = (32, 32) := by decide +kernel

/-! ### Memory image in closed form -/

theorem opts_toBits (o : EntryOptions) :
    o.toBits = o.cs.setWidth 128 ||| (o.bits.setWidth 128 <<< 16) := by
  unfold EntryOptions.toBits
  rw [opts_layout]
  simp [assemble, EntryOptions.fieldVal, EntryOptions.getField]

theorem entry_toBits (e : Entry) :
    e.toBits = e.pointer_low.setWidth 128 ||| (e.options.cs.setWidth 128 <<< 16) |||
      (e.options.bits.setWidth 128 <<< 32) ||| (e.pointer_middle.setWidth 128 <<< 48) |||
      (e.pointer_high.setWidth 128 <<< 64) ||| (e.reserved.setWidth 128 <<< 96) := by
  unfold Entry.toBits
  rw [entry_layout]
  simp [assemble, Entry.fieldVal, opts_toBits]
  bv_decide

theorem offsets_in : offsetIn optsLayout "cs" = 0 ∧ offsetIn optsLayout "bits" = 2 ∧
    offsetIn entryLayout "pointer_low" = 0 ∧ offsetIn entryLayout "options" = 2 ∧
    offsetIn entryLayout "pointer_middle" = 6 ∧ offsetIn entryLayout "pointer_high" = 8 ∧
    offsetIn entryLayout "reserved" = 12 := by decide

theorem entry_ofBits (w : BitVec 128) :
    Entry.ofBits w = { pointer_low := w.setWidth 16,
                       options := { cs := (w >>> 16).setWidth 16, bits := (w >>> 32).setWidth 16 },
                       pointer_middle := (w >>> 48).setWidth 16,
                       pointer_high := (w >>> 64).setWidth 32,
                       reserved := (w >>> 96).setWidth 32 } := by
  obtain ⟨a, b, c, d, e, f, g⟩ := offsets_in
  unfold Entry.ofBits EntryOptions.ofBits
  rw [a, b, c, d, e, f, g]
  simp only [Entry.mk.injEq, EntryOptions.mk.injEq]
  refine ⟨?_, ⟨?_, ?_⟩, ?_, ?_, ?_⟩ <;> bv_decide

/-! ### `minimal()`, `missing()` and the setters in closed form -/

theorem minimal_eq : EntryOptions.minimal = ⟨0#16, 0x0e00#16⟩ := by decide

theorem missing_eq : Entry.missing = ⟨0#16, ⟨0#16, 0x0e00#16⟩, 0#16, 0#32, 0#32⟩ := by decide

theorem set_code_selector_eq (o : EntryOptions) (s : BitVec 16) :
    o.setCodeSelector s = .ok { o with cs := s } := by
  simp [EntryOptions.setCodeSelector, Generated.Idt.codeSelectorField, EntryOptions.setField, R.ofOption]

theorem set_present_eq (cfg : Cfg) (o : EntryOptions) (b : Bool) :
    o.setPresent cfg b = .ok { o with bits := if b then o.bits ||| 0x8000#16 else o.bits &&& 0x7fff#16 } := by
  cases b <;> simp [EntryOptions.setPresent, applyBitSetter, Generated.Idt.set_present, EntryOptions.getField,
    EntryOptions.setField, setBit, ofBool, R.ofOption]

theorem disable_interrupts_eq (cfg : Cfg) (o : EntryOptions) (b : Bool) :
    o.disableInterrupts cfg b = .ok { o with bits := if b then o.bits &&& 0xfeff#16 else o.bits ||| 0x0100#16 } := by
  cases b <;> simp [EntryOptions.disableInterrupts, applyBitSetter, Generated.Idt.disable_interrupts,
    EntryOptions.getField, EntryOptions.setField, setBit, ofBool, R.ofOption]

theorem set_privilege_level_eq (cfg : Cfg) (o : EntryOptions) (d : BitVec 2) :
    o.setPrivilegeLevel cfg d = .ok { o with bits := (o.bits &&& 0x9fff#16) ||| (d.setWidth 16 <<< 13) } := by
  have h : (d.setWidth 16 <<< 14 >>> 14 == d.setWidth 16) = true := by bv_decide
  simp [EntryOptions.setPrivilegeLevel, applyBitSetter, Generated.Idt.set_privilege_level, EntryOptions.getField,
    EntryOptions.setField, setBits, R.ofOption, h]

/-- `set_bits(0..3, v)` on `u16`: the "value fits" assertion is `v ≤ 7`. -/
theorem setBits_0_3 (x v : BitVec 16) :
    setBits x 0 3 v = if v ≤ 7#16 then .ok ((x &&& 0xfff8#16) ||| v) else .panic := by
  by_cases hv : v ≤ 7#16
  · have hfit : (v <<< 13 >>> 13 == v) = true := by bv_decide
    simp [setBits, hfit, hv]
  · have hfit : (v <<< 13 >>> 13 == v) = false := by bv_decide
    have hz : (v == 0#16) = false := by bv_decide
    simp [setBits, hfit, hv, hz]

/-- `set_stack_index(i)`: `i + 1` overflows only for 65535 (panic in a checked build, 0 otherwise); the
sum must fit in three bits. -/
theorem set_stack_index_eq (cfg : Cfg) (o : EntryOptions) (i : BitVec 16) :
    o.setStackIndex cfg i =
      if i = 0xffff#16 ∧ cfg.ovf = true then .panic
      else if i + 1#16 ≤ 7#16 then .ok { o with bits := (o.bits &&& 0xfff8#16) ||| (i + 1#16) }
      else .panic := by
  have h0 : BitVec.uaddOverflow i 1#16 = (i == 0xffff#16) := by bv_decide
  unfold EntryOptions.setStackIndex applyBitSetter
  simp only [Generated.Idt.set_stack_index, EntryOptions.getField, EntryOptions.setField]
  simp only [h0]
  by_cases h : i = 0xffff#16 <;> cases hc : cfg.ovf <;> by_cases h7 : i + 1#16 ≤ 7#16 <;>
    simp [h, hc, h7, setBits_0_3, R.ofOption]

theorem set_handler_addr_eq (cfg : Cfg) (e : Entry) (a : BitVec 64) (cs : BitVec 16) :
    e.setHandlerAddr cfg a cs =
      .ok { e with pointer_low := a.setWidth 16, pointer_middle := (a >>> 16).setWidth 16,
                   pointer_high := (a >>> 32).setWidth 32, options := ⟨cs, 0x8e00#16⟩ } := by
  unfold Entry.setHandlerAddr
  rw [minimal_eq, set_code_selector_eq, R.bind_ok, set_present_eq]
  have hb : (0x0e00#16 ||| 0x8000#16) = 0x8e00#16 := by bv_decide
  simp only [if_true, hb]

/-! ### Range bounds and slice indexing -/

theorem bound_start (lo : Bound) : boundIdx Generated.Idt.sliceStart lo = lo.first := by
  cases lo <;> simp [boundIdx, Generated.Idt.sliceStart, Bound.first]

theorem bound_end (hi : Bound) : boundIdx Generated.Idt.sliceEnd hi = hi.endExcl := by
  cases hi <;> simp [boundIdx, Generated.Idt.sliceEnd, Bound.endExcl, IDT_VECTORS]

theorem endExcl_le (hi : Bound) (h : hi.inU8) : hi.endExcl ≤ 256 := by
  cases hi <;> simp [Bound.endExcl, Bound.inU8, IDT_VECTORS] at * <;> omega

/-- `&self.interrupts[(L - 32)..(U - 32)]` for `32 ≤ L`, `U ≤ 256`, in both build profiles. -/
theorem slice_calc (cfg : Cfg) (body : String × Nat × Nat × Nat)
    (hb : fieldOffset body.2.1 = some 512 ∧ fieldLen body.2.1 = 224 ∧ body.2.2 = (32, 32))
    (L U : Nat) (hU : U ≤ 256) (hL : 32 ≤ L) :
    sliceRange cfg body L U = if U < L then R.panic else R.ok (16 * L, U - L) := by
  obtain ⟨g1, g2, g3⟩ := hb
  have g3a : body.2.2.1 = 32 := by rw [g3]
  have g3b : body.2.2.2 = 32 := by rw [g3]
  unfold sliceRange
  simp only [g1, g2, g3a, g3b, entry_size, R.ofOption, R.map]
  have h1 : subU64 cfg L 32 = .ok (L - 32) := by simp [subU64, hL]
  rw [h1, R.bind_ok]
  by_cases h2 : 32 ≤ U
  · have : subU64 cfg U 32 = .ok (U - 32) := by simp [subU64, h2]
    rw [this, R.bind_ok]
    by_cases h3 : U < L
    · simp only [h3, if_true]; rw [if_neg (by omega)]
    · simp only [h3, if_false]; rw [if_pos (by omega)]; congr 2 <;> omega
  · have h3 : U < L := by omega
    simp only [h3, if_true]
    cases hc : cfg.ovf
    · have : subU64 cfg U 32 = .ok ((U + 2^64 - 32) % 2^64) := by simp [subU64, h2, hc]
      rw [this, R.bind_ok]; rw [if_neg (by omega)]
    · have : subU64 cfg U 32 = .panic := by simp [subU64, h2, hc]
      rw [this, R.bind_panic]

theorem slice_with_eq_spec (cfg : Cfg) (body : String × Nat × Nat × Nat)
    (hb : fieldOffset body.2.1 = some 512 ∧ fieldLen body.2.1 = 224 ∧ body.2.2 = (32, 32))
    (lo hi : Bound) (hhi : hi.inU8) :
    sliceWith body cfg lo hi =
      match rangeSpec lo hi with
      | some (first, n) => .ok (gateByteOffset first, n)
      | none => .panic := by
  have hU := endExcl_le hi hhi
  unfold sliceWith conditionSliceBounds rangeSpec
  simp only [bound_start, bound_end, Generated.Idt.sliceMinLower, gateByteOffset, IDT_GATE_BYTES]
  by_cases hL : lo.first < 32
  · simp only [hL, if_true, R.bind_panic]
  · simp only [hL, if_false, R.bind_ok]
    rw [slice_calc cfg body hb _ _ hU (by omega)]
    by_cases h3 : hi.endExcl < lo.first <;> simp only [h3, if_true, if_false]

end X86.Idt
