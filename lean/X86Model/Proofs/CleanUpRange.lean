/-
Clean-up, range clauses (C10 part 2): on ranges of canonical 4 KiB pages the recursive helper never
panics, touches and frees only tables whose address span overlaps the range, and leaves no empty
table overlapping the range behind.

Spans are measured in page numbers of rank space (`pn`, `Proofs/CleanUpArith.lean`): the table at index
path `q` (length `n ≤ 3`, level `4 - n`) has number `tnum q` among the tables of its level and spans the
pages `tnum q · 512^(4-n) … + 512^(4-n) - 1`.
-/
import X86Model.Proofs.CleanUpTree
import X86Model.Proofs.CleanUpArith

namespace X86
open X86.Spec

/-- Number of the table at index path `q` among the tables of its level. -/
def tnum (q : List Nat) : Nat := q.foldl (fun a i => a * 512 + i) 0

@[simp] theorem tnum_nil : tnum [] = 0 := rfl
theorem tnum_snoc (q : List Nat) (i : Nat) : tnum (q ++ [i]) = tnum q * 512 + i := by
  simp [tnum, List.foldl_append]

/-- First and last page (rank-space page numbers) of the address span of the table at path `q`. -/
def spanLo (q : List Nat) : Nat := tnum q * 512 ^ (4 - q.length)
def spanHi (q : List Nat) : Nat := tnum q * 512 ^ (4 - q.length) + 512 ^ (4 - q.length) - 1

/-- The span of the table at `q` intersects the page-number interval `lo..hi`. -/
def Overlaps (q : List Nat) (lo hi : Nat) : Prop := spanLo q ≤ hi ∧ lo ≤ spanHi q

theorem spanLo_le_spanHi (q : List Nat) : spanLo q ≤ spanHi q := by
  unfold spanLo spanHi
  have : 0 < 512 ^ (4 - q.length) := Nat.pow_pos (by decide)
  omega

/-- The span of a child lies inside the span of its parent. -/
theorem span_snoc (q : List Nat) (j : Nat) (hq : q.length ≤ 3) (hj : j < 512) :
    spanLo q ≤ spanLo (q ++ [j]) ∧ spanHi (q ++ [j]) ≤ spanHi q := by
  unfold spanLo spanHi
  rw [tnum_snoc]
  simp only [List.length_append, List.length_singleton]
  have hpow : 512 ^ (4 - q.length) = 512 * 512 ^ (4 - (q.length + 1)) := by
    have : 4 - q.length = (4 - (q.length + 1)) + 1 := by omega
    rw [this, Nat.pow_succ]; omega
  rw [hpow]
  generalize 512 ^ (4 - (q.length + 1)) = w
  generalize tnum q = t
  constructor
  · calc t * (512 * w) = t * 512 * w := by rw [Nat.mul_assoc]
      _ ≤ (t * 512 + j) * w := Nat.mul_le_mul_right _ (by omega)
  · have h1 : (t * 512 + j) * w + w = (t * 512 + j + 1) * w := (Nat.succ_mul _ _).symm
    have h2 : (t * 512 + j + 1) * w ≤ (t * 512 + 512) * w := Nat.mul_le_mul_right _ (by omega)
    have h3 : (t * 512 + 512) * w = t * (512 * w) + 512 * w := by
      rw [Nat.add_mul, Nat.mul_assoc]
    omega

/-- Nesting along a whole path extension. -/
theorem span_nested : ∀ (e r : List Nat), (r ++ e).length ≤ 4 → IdxOK e →
    spanLo r ≤ spanLo (r ++ e) ∧ spanHi (r ++ e) ≤ spanHi r := by
  intro e
  induction e with
  | nil => intro r _ _; simp
  | cons j e ih =>
    intro r hlen hidx
    have hj : j < 512 := hidx j (by simp)
    have hr3 : r.length ≤ 3 := by simp at hlen; omega
    obtain ⟨h3, h4⟩ := span_snoc r j hr3 hj
    have heq : r ++ j :: e = (r ++ [j]) ++ e := by simp
    obtain ⟨h1, h2⟩ := ih (r ++ [j]) (by rw [← heq]; exact hlen) (fun x hx => hidx x (List.mem_cons_of_mem _ hx))
    rw [heq]
    exact ⟨Nat.le_trans h3 h1, Nat.le_trans h2 h4⟩

theorem Overlaps.mono {q : List Nat} {lo hi lo' hi' : Nat} (h : Overlaps q lo' hi') (h1 : lo ≤ lo') (h2 : hi' ≤ hi) :
    Overlaps q lo hi := ⟨Nat.le_trans h.1 h2, Nat.le_trans h1 h.2⟩

/-- A table below `ri` that overlaps `lo..hi` overlaps the part of `lo..hi` inside `ri`'s span. -/
theorem Overlaps.restrict {ri e : List Nat} {lo hi : Nat} (hlen : (ri ++ e).length ≤ 4) (he : IdxOK e)
    (h : Overlaps (ri ++ e) lo hi) : Overlaps (ri ++ e) (max lo (spanLo ri)) (min hi (spanHi ri)) := by
  obtain ⟨n1, n2⟩ := span_nested e ri hlen he
  have := spanLo_le_spanHi (ri ++ e)
  obtain ⟨h1, h2⟩ := h
  exact ⟨by rw [Nat.le_min]; exact ⟨h1, by omega⟩, by rw [Nat.max_le]; exact ⟨h2, by omega⟩⟩

/-- An ancestor of an overlapping table overlaps. -/
theorem Overlaps.ancestor {ri e : List Nat} {lo hi : Nat} (hlen : (ri ++ e).length ≤ 4) (he : IdxOK e)
    (h : Overlaps (ri ++ e) lo hi) : Overlaps ri lo hi := by
  obtain ⟨n1, n2⟩ := span_nested e ri hlen he
  exact ⟨Nat.le_trans n1 h.1, Nat.le_trans h.2 n2⟩

/-- The span of `r ++ [i]` in the form used by the arithmetic lemmas (`T = tnum r`, `level = 4 - |r|`). -/
theorem span_child_eq (r : List Nat) (i level : Nat) (hl : r.length + level = 4) (hlev : 1 ≤ level) :
    spanLo (r ++ [i]) = (tnum r * 512 + i) * 512 ^ (level - 1) ∧
    spanHi (r ++ [i]) = (tnum r * 512 + i + 1) * 512 ^ (level - 1) - 1 := by
  unfold spanLo spanHi
  rw [tnum_snoc]
  have : 4 - (r ++ [i]).length = level - 1 := by simp; omega
  rw [this]
  refine ⟨rfl, ?_⟩
  have : (tnum r * 512 + i + 1) * 512 ^ (level - 1) = (tnum r * 512 + i) * 512 ^ (level - 1) + 512 ^ (level - 1) :=
    Nat.succ_mul _ _
  omega

/-! ### What a run guarantees about spans -/

/-- `q` is not under the index that clean-up must skip. -/
def NotSkipped (rsk : Option Nat) (q : List Nat) : Prop := ∀ x, rsk = some x → q.head? ≠ some x

/-- Span clauses of a run on the table at `r` for the page-number interval `lo..hi`: everything
freed overlaps the interval; memory changes only in the table `r` itself or in tables overlapping it. -/
structure OvPost (p4 : Word) (r : List Nat) (lo hi : Nat) (s s' : St) (seg : List Ev) : Prop where
  freedOv : ∀ g ∈ deallocsIn seg, ∃ q, q.length ≤ 3 ∧ IdxOK q ∧ tblAt s.mem p4 q = some g ∧ Overlaps q lo hi
  memOv : ∀ f j, s'.mem f j ≠ s.mem f j →
    ∃ q, q.length ≤ 2 ∧ IdxOK q ∧ tblAt s.mem p4 q = some f ∧ (q = r ∨ Overlaps q lo hi)

theorem OvPost.of_memEq (p4 : Word) (r : List Nat) (lo hi : Nat) (s s' : St) (seg : List Ev)
    (hm : s'.mem = s.mem) (hd : deallocsIn seg = []) : OvPost p4 r lo hi s s' seg where
  freedOv := by intro g hg; rw [hd] at hg; cases hg
  memOv := by intro f j h; rw [hm] at h; exact absurd rfl h

theorem OvPost.trans {p4 : Word} {rsk : Option Nat} {r : List Nat} {lo hi : Nat} {s s1 s2 : St} {a b : List Ev}
    (hc : CleanPost p4 rsk r s s1 a) (h1 : OvPost p4 r lo hi s s1 a) (h2 : OvPost p4 r lo hi s1 s2 b) :
    OvPost p4 r lo hi s s2 (a ++ b) where
  freedOv := by
    intro g hg
    rw [deallocsIn_append] at hg
    rcases List.mem_append.1 hg with h | h
    · exact h1.freedOv g h
    · obtain ⟨q, hq, hqi, hf, ho⟩ := h2.freedOv g h
      exact ⟨q, hq, hqi, hc.tree q g hq hqi hf, ho⟩
  memOv := by
    intro f j hne
    by_cases h : s2.mem f j = s1.mem f j
    · exact h1.memOv f j (by rw [← h]; exact hne)
    · obtain ⟨q, hq, hqi, hf, ho⟩ := h2.memOv f j h
      exact ⟨q, hq, hqi, hc.tree q f (by omega) hqi hf, ho⟩

/-- The span clauses of a run on child `i` (interval restricted to the child's span) give the span
clauses of the parent. -/
theorem OvPost.of_child {p4 : Word} {r : List Nat} {i : Nat} {lo hi lo' hi' : Nat} {s s' : St} {seg : List Ev}
    (h : OvPost p4 (r ++ [i]) lo' hi' s s' seg) (h1 : lo ≤ lo') (h2 : hi' ≤ hi) (hov : Overlaps (r ++ [i]) lo hi) :
    OvPost p4 r lo hi s s' seg where
  freedOv := by
    intro g hg
    obtain ⟨q, hq, hqi, hf, ho⟩ := h.freedOv g hg
    exact ⟨q, hq, hqi, hf, ho.mono h1 h2⟩
  memOv := by
    intro f j hne
    obtain ⟨q, hq, hqi, hf, ho⟩ := h.memOv f j hne
    refine ⟨q, hq, hqi, hf, Or.inr ?_⟩
    rcases ho with rfl | ho
    · exact hov
    · exact ho.mono h1 h2

theorem foldl_inv_prefix {α β : Type} (P : List α → β → Prop) (F : β → α → β) :
    ∀ (l pre : List α) (init : β), P pre init →
      (∀ p a post acc, pre ++ l = p ++ a :: post → P p acc → P (p ++ [a]) (F acc a)) →
      P (pre ++ l) (l.foldl F init) := by
  intro l
  induction l with
  | nil => intro pre init h _; simpa using h
  | cons a l ih =>
    intro pre init h hstep
    rw [List.foldl_cons]
    have h1 : P (pre ++ [a]) (F init a) := hstep pre a l init rfl h
    have := ih (pre ++ [a]) (F init a) h1 (fun p b post acc hp hacc => hstep p b post acc (by simpa using hp) hacc)
    simpa using this

theorem alignDown_tableAlign_ne_panic (a lvl : Nat) (hl : lvl ≤ 4) :
    VirtAddr.alignDown a (PageTableLevel.tableAlign lvl) ≠ .panic := by
  have hp : isPow2 (PageTableLevel.tableAlign lvl) = true := by
    have : lvl = 0 ∨ lvl = 1 ∨ lvl = 2 ∨ lvl = 3 ∨ lvl = 4 := by omega
    rcases this with rfl | rfl | rfl | rfl | rfl <;> decide
  unfold VirtAddr.alignDown X86.alignDown
  simp [hp, R.map]

theorem mem_drop_range {i n k : Nat} (h : i ∈ (List.range n).drop k) : k ≤ i ∧ i < n := by
  obtain ⟨idx, hidx, hget⟩ := List.mem_iff_getElem.1 h
  rw [List.getElem_drop, List.getElem_range] at hget
  have : k + idx < n := by
    have := hidx; simp at this; omega
  omega

theorem nodup_drop_range (n k : Nat) : ((List.range n).drop k).Nodup :=
  (List.nodup_range (n := n)).sublist (List.drop_sublist _ _)

/-- Loop invariant of the entry loop (range version). `pre` = window indices already processed. -/
structure LoopR (p4 : Word) (rsk : Option Nat) (r : List Nat) (lo hi : Nat) (s : St) (pre : List Nat)
    (acc : R Unit × St) : Prop where
  np : acc.1 ≠ .panic
  post : ∃ seg, CleanPost p4 rsk r s acc.2 seg ∧ OvPost p4 r lo hi s acc.2 seg
  complete : ∀ i ∈ pre, ∀ e g, (r ++ [i] ++ e).length ≤ 3 → IdxOK (r ++ [i] ++ e) → Overlaps (r ++ [i] ++ e) lo hi →
    NotSkipped rsk (r ++ [i] ++ e) → tblAt acc.2.mem p4 (r ++ [i] ++ e) = some g → ∃ j, j < 512 ∧ acc.2.mem g j ≠ 0#64

theorem exists_nonzero_of_not_all {m : PMem} {g : Word} (h : ¬ ∀ j, j < 512 → m g j = 0#64) :
    ∃ j, j < 512 ∧ m g j ≠ 0#64 := by
  apply Classical.byContradiction
  intro hne
  apply h
  intro j hj
  apply Classical.byContradiction
  intro hz
  exact hne ⟨j, hj, hz⟩

/-- **The recursive clean-up helper on a range of pages** (`RangeIn`: canonical 4 KiB page starts,
`rs ≤ re`, inside the span of the table at `r`): besides `CleanPost`, it never panics, it reports
"table is now empty" truthfully, everything it frees or modifies overlaps the range (or is the table
`r` itself), and afterwards no linked table strictly below `r` whose span overlaps the range is empty
(outside the recursive slot). -/
theorem cleanUpLevel_range (k : Kind) (rIdx : Nat) (p4 : Word) :
    ∀ (lvl : Nat) (r : List Nat) (tbl : Word) (s : St) (rs re : Nat),
      1 ≤ lvl → Inv s.mem p4 → tblAt s.mem p4 r = some tbl → r.length + lvl = 4 → IdxOK r →
      (∀ x, recSkipOf k rIdx = some x → r ≠ [] → r.head? ≠ some x) →
      RangeIn lvl (tnum r) rs re →
      (∃ seg, CleanPost p4 (recSkipOf k rIdx) r s (cleanUpLevel k rIdx lvl s tbl rs re).2 seg ∧
              OvPost p4 r (pn rs) (pn re) s (cleanUpLevel k rIdx lvl s tbl rs re).2 seg) ∧
      (∃ b, (cleanUpLevel k rIdx lvl s tbl rs re).1 = .ok b ∧
            (b = true ↔ ∀ j, j < 512 → (cleanUpLevel k rIdx lvl s tbl rs re).2.mem tbl j = 0#64)) ∧
      (∀ q g, Below r q → q.length ≤ 3 → IdxOK q → Overlaps q (pn rs) (pn re) → NotSkipped (recSkipOf k rIdx) q →
          tblAt (cleanUpLevel k rIdx lvl s tbl rs re).2.mem p4 q = some g →
          ∃ j, j < 512 ∧ (cleanUpLevel k rIdx lvl s tbl rs re).2.mem g j ≠ 0#64) := by
  intro lvl
  induction lvl with
  | zero => intro r tbl s rs re h; omega
  | succ level ih =>
    intro r tbl s rs re _ hinv hr hlen hri hskip hrange
    have hrl : r.length ≤ 3 := by omega
    obtain ⟨hprs, hpre, hle, hTs, hTe⟩ := hrange
    have hrange : RangeIn (level + 1) (tnum r) rs re := ⟨hprs, hpre, hle, hTs, hTe⟩
    unfold cleanUpLevel
    simp only
    split
    · rename_i hgt; omega
    · split
      · rename_i heq
        exact absurd heq (alignDown_tableAlign_ne_panic rs (level + 1) (by omega))
      · rename_i tableAddr htable
        split
        · -- level 1
          rename_i hl1
          obtain ⟨h1, h2, ⟨seg, h3, h4⟩, h5⟩ := tableIsEmpty_spec s tbl
          have hd : deallocsIn seg = [] := by
            unfold deallocsIn
            rw [List.filterMap_eq_nil_iff]
            intro ev hev; obtain ⟨j, rfl⟩ := h4 ev hev; rfl
          refine ⟨⟨seg, CleanPost.reads p4 _ r s _ seg hinv h1 h2 h3 tbl r hrl hri (List.prefix_refl _) hr h4,
            OvPost.of_memEq p4 r _ _ s _ seg h1 hd⟩, ⟨_, rfl, by rw [h1]; exact h5⟩, ?_⟩
          intro q g hb hq _ _ _ _
          have := hb.2
          omega
        · -- levels 2..4
          rename_i hl1
          have hl : level + 1 = 2 ∨ level + 1 = 3 ∨ level + 1 = 4 := by omega
          have hrl2 : r.length ≤ 2 := by omega
          obtain ⟨hw1, hw2, _, _⟩ := window (level + 1) (tnum r) rs re hl hrange
          -- the loop
          generalize hX : List.foldl _ (R.ok (), s) _ = X
          have hl' : LoopR p4 (recSkipOf k rIdx) r (pn rs) (pn re) s
              ((List.range (VirtAddr.pageTableIndex re (level + 1) + 1)).drop (VirtAddr.pageTableIndex rs (level + 1))) X := by
            rw [← hX]
            refine foldl_inv_prefix (LoopR p4 (recSkipOf k rIdx) r (pn rs) (pn re) s) _
              ((List.range (VirtAddr.pageTableIndex re (level + 1) + 1)).drop (VirtAddr.pageTableIndex rs (level + 1)))
              [] (R.ok (), s)
              ⟨by simp, ⟨[], CleanPost.refl p4 _ r s hinv, OvPost.of_memEq p4 r _ _ s s [] rfl rfl⟩,
               by intro i hi; cases hi⟩ ?_
            intro pr i post acc hsplit hacc
            simp only [List.nil_append] at hsplit
            -- facts about the index
            have himem : i ∈ (List.range (VirtAddr.pageTableIndex re (level + 1) + 1)).drop (VirtAddr.pageTableIndex rs (level + 1)) := by
              rw [hsplit]; simp
            obtain ⟨hi1, hi2'⟩ := mem_drop_range himem
            have hi2 : i ≤ VirtAddr.pageTableIndex re (level + 1) := by omega
            have hi : i < 512 := by omega
            have hnd := nodup_drop_range (VirtAddr.pageTableIndex re (level + 1) + 1) (VirtAddr.pageTableIndex rs (level + 1))
            rw [hsplit] at hnd
            have hinp : i ∉ pr := by
              intro hin
              have := (List.nodup_append.1 hnd).2.2 i hin i (by simp)
              exact this rfl
            -- the arithmetic of this entry
            obtain ⟨ta, st0, en0, hta, hfw, hadd, hchild, hpn1, hpn2⟩ :=
              child_range (level + 1) (tnum r) rs re i hl hrange hi1 hi2
            have htaeq : ta = tableAddr := by rw [htable] at hta; exact (R.ok.inj hta).symm
            subst htaeq
            obtain ⟨hsl, hsh⟩ := span_child_eq r i (level + 1) hlen (by omega)
            simp only [Nat.add_sub_cancel] at hpn1 hpn2 hchild hsl hsh
            rw [← hsl] at hpn1
            rw [← hsh] at hpn2
            have hst_le : (max (Page.containingAddress 4096 st0) rs) ≤ (min (Page.containingAddress 4096 en0) re) := hchild.2.2.1
            have hpnle : pn (max (Page.containingAddress 4096 st0) rs) ≤ pn (min (Page.containingAddress 4096 en0) re) :=
              (pn_mono hchild.1 hchild.2.1).1 hst_le
            have hovi : Overlaps (r ++ [i]) (pn rs) (pn re) := by
              rw [hpn1, hpn2] at hpnle
              constructor
              · have := Nat.le_min.1 (Nat.le_trans (Nat.le_max_right _ _) hpnle); exact this.1
              · have := Nat.max_le.1 (Nat.le_trans hpnle (Nat.min_le_right _ _)); exact this.1
            have hlo : pn rs ≤ pn (max (Page.containingAddress 4096 st0) rs) := by rw [hpn1]; exact Nat.le_max_left _ _
            have hhi : pn (min (Page.containingAddress 4096 en0) re) ≤ pn re := by rw [hpn2]; exact Nat.min_le_left _ _
            -- unpack the accumulator
            obtain ⟨ra, s0⟩ := acc
            obtain ⟨hnp0, ⟨seg0, hp0, ho0⟩, hcomp0⟩ := hacc
            cases ra with
            | panic => exact absurd rfl hnp0
            | ok u =>
              cases u
              have hr0 : tblAt s0.mem p4 r = some tbl :=
                hp0.keep r tbl hrl hri hr (fun hb => Nat.lt_irrefl _ hb.2)
              have hri' : IdxOK (r ++ [i]) := IdxOK_append.2 ⟨hri, fun j hj => by simp at hj; rw [hj]; exact hi⟩
              -- earlier subtrees are not disturbed by a step that only changes tables at/below `r ++ [i]` or `tbl`
              have hearlier : ∀ (s' : St) (segx : List Ev), CleanPost p4 (recSkipOf k rIdx) r s0 s' segx →
                  (∀ g j, s'.mem g j ≠ s0.mem g j →
                    (∃ q2, q2.length ≤ 2 ∧ IdxOK q2 ∧ r ++ [i] <+: q2 ∧ tblAt s0.mem p4 q2 = some g) ∨ g = tbl) →
                  ∀ i' ∈ pr, ∀ e g, (r ++ [i'] ++ e).length ≤ 3 → IdxOK (r ++ [i'] ++ e) →
                    Overlaps (r ++ [i'] ++ e) (pn rs) (pn re) → NotSkipped (recSkipOf k rIdx) (r ++ [i'] ++ e) →
                    tblAt s'.mem p4 (r ++ [i'] ++ e) = some g → ∃ j, j < 512 ∧ s'.mem g j ≠ 0#64 := by
                intro s' segx hcx hchg i' hi' e g hlen' hidx' hov' hns' hg'
                have hg0 := hcx.tree _ g hlen' hidx' hg'
                obtain ⟨j, hj, hnz⟩ := hcomp0 i' hi' e g hlen' hidx' hov' hns' hg0
                refine ⟨j, hj, ?_⟩
                by_cases hsame : s'.mem g j = s0.mem g j
                · rw [hsame]; exact hnz
                · exfalso
                  rcases hchg g j hsame with ⟨q2, hq2, hq2i, hpre2, hg2⟩ | hgt
                  · have := hp0.inv.wf q2 (r ++ [i'] ++ e) g (by omega) hlen' hq2i hidx' hg2 hg0
                    rw [this] at hpre2
                    obtain ⟨x, hx⟩ := hpre2
                    have hx' : r ++ (i :: x) = r ++ (i' :: e) := by simpa [List.append_assoc] using hx
                    have hce := List.append_cancel_left hx'
                    have : i = i' := (List.cons.inj hce).1
                    exact hinp (this ▸ hi')
                  · have := hp0.inv.wf (r ++ [i'] ++ e) r tbl hlen' hrl hidx' hri (hgt ▸ hg0) hr0
                    have := congrArg List.length this
                    simp at this
              simp only
              split
              · -- recursive slot: skipped
                rename_i hsk
                refine ⟨by simp, ⟨seg0, hp0, ho0⟩, ?_⟩
                intro i' hi' e g hlen' hidx' hov' hns' hg'
                rcases List.mem_append.1 hi' with h | h
                · exact hcomp0 i' h e g hlen' hidx' hov' hns' hg'
                · exfalso
                  simp at h; subst h
                  simp only [Bool.and_eq_true, beq_iff_eq] at hsk
                  obtain ⟨⟨hk, hl4⟩, hir⟩ := hsk
                  have hrnil : r = [] := by
                    have : r.length = 0 := by omega
                    exact List.length_eq_zero_iff.1 this
                  subst hrnil
                  exact hns' rIdx (by simp [recSkipOf, hk]) (by simp [hir])
              · rename_i hnskip
                have hrd : CleanPost p4 (recSkipOf k rIdx) r s0 (s0.rd tbl i).2 [.rd tbl i] :=
                  CleanPost.reads p4 _ r s0 _ _ hp0.inv rfl rfl (by simp) tbl r hrl hri (List.prefix_refl _) hr0
                    (by intro ev h; simp at h; exact ⟨i, h⟩)
                have hrdo : OvPost p4 r (pn rs) (pn re) s0 (s0.rd tbl i).2 [.rd tbl i] :=
                  OvPost.of_memEq p4 r _ _ s0 _ _ rfl rfl
                have hp1 := CleanPost.trans hinv hp0 hrd
                have ho1 := OvPost.trans hp0 ho0 hrdo
                split
                · -- not a table entry
                  rename_i err hnt
                  refine ⟨by simp, ⟨_, hp1, ho1⟩, ?_⟩
                  intro i' hi' e g hlen' hidx' hov' hns' hg'
                  rcases List.mem_append.1 hi' with h | h
                  · exact hearlier _ _ hrd (by intro g j hne; exact absurd rfl hne) i' h e g hlen' hidx' hov' hns' hg'
                  · exfalso
                    simp at h; subst h
                    simp only [St.rd_mem] at hg'
                    rw [List.append_assoc, tblAt_append, hr0] at hg'
                    have : tableOf (s0.mem tbl i') = none := by
                      have := nextTable_eq (s0.mem tbl i')
                      simp only [St.rd_fst] at hnt
                      rw [hnt] at this
                      cases hto : tableOf (s0.mem tbl i') with
                      | none => rfl
                      | some t => rw [hto] at this; cases this
                    simp [tblAt, this] at hg'
                · rename_i child hnt
                  have hto : tableOf (s0.mem tbl i) = some child := (nextTable_ok_iff _ _).1 (by simpa using hnt)
                  split
                  · rename_i hnone; rw [hfw] at hnone; cases hnone
                  · rename_i st0' hsome
                    have : st0 = st0' := by rw [hfw] at hsome; exact Option.some.inj hsome
                    subst this
                    split
                    · rename_i hpan; rw [hadd] at hpan; cases hpan
                    · rename_i en0' hok
                      have : en0 = en0' := by rw [hadd] at hok; exact R.ok.inj hok
                      subst this
                      have hrc : tblAt (s0.rd tbl i).2.mem p4 (r ++ [i]) = some child := by
                        simp only [St.rd_mem]
                        rw [tblAt_append, hr0]; simp [tblAt, hto]
                      have hskip' : ∀ x, recSkipOf k rIdx = some x → r ++ [i] ≠ [] → (r ++ [i]).head? ≠ some x := by
                        intro x hx _
                        cases r with
                        | nil =>
                          simp only [List.nil_append, List.head?_cons, ne_eq, Option.some.injEq]
                          intro hix
                          apply hnskip
                          unfold recSkipOf at hx
                          split at hx
                          · rename_i hk
                            have hl4 : level + 1 = 4 := by simp at hlen; omega
                            simp only [Option.some.injEq] at hx
                            simp [hk, hl4, hix, hx]
                          · cases hx
                        | cons a r' =>
                          simpa using hskip x hx (by simp)
                      have hchild' : RangeIn level (tnum (r ++ [i]))
                          (max (Page.containingAddress 4096 st0) rs) (min (Page.containingAddress 4096 en0) re) := by
                        rw [tnum_snoc]; exact hchild
                      obtain ⟨⟨seg1, hc1, hoc1⟩, ⟨b, hb, hbiff⟩, hcompc⟩ := ih (r ++ [i]) child (s0.rd tbl i).2
                        (max (Page.containingAddress 4096 st0) rs) (min (Page.containingAddress 4096 en0) re)
                        (by omega) hp1.inv hrc (by simp; omega) hri' hskip' hchild'
                      have hp2 := CleanPost.trans hinv hp1 hc1.lift
                      have ho2 := OvPost.trans hp1 ho1 (hoc1.of_child hlo hhi hovi)
                      -- the child run changes only tables at/below `r ++ [i]`
                      have hchg1 : ∀ g j, (cleanUpLevel k rIdx level (s0.rd tbl i).2 child
                            (max (Page.containingAddress 4096 st0) rs) (min (Page.containingAddress 4096 en0) re)).2.mem g j ≠ s0.mem g j →
                          ∃ q2, q2.length ≤ 2 ∧ IdxOK q2 ∧ r ++ [i] <+: q2 ∧ tblAt s0.mem p4 q2 = some g := by
                        intro g j hne
                        obtain ⟨_, q2, hq2, hq2i, hpre2, hg2⟩ := hc1.mem g j (by simpa using hne)
                        exact ⟨q2, hq2, hq2i, hpre2, by simpa using hg2⟩
                      -- completeness inside the subtree of `r ++ [i]`, in the state after the child run
                      have hsub : ∀ e g, (r ++ [i] ++ e).length ≤ 3 → IdxOK (r ++ [i] ++ e) →
                          Overlaps (r ++ [i] ++ e) (pn rs) (pn re) → NotSkipped (recSkipOf k rIdx) (r ++ [i] ++ e) →
                          tblAt (cleanUpLevel k rIdx level (s0.rd tbl i).2 child
                            (max (Page.containingAddress 4096 st0) rs) (min (Page.containingAddress 4096 en0) re)).2.mem p4 (r ++ [i] ++ e) = some g →
                          e ≠ [] →
                          ∃ j, j < 512 ∧ (cleanUpLevel k rIdx level (s0.rd tbl i).2 child
                            (max (Page.containingAddress 4096 st0) rs) (min (Page.containingAddress 4096 en0) re)).2.mem g j ≠ 0#64 := by
                        intro e g hlen' hidx' hov' hns' hg' hene
                        have hbelow : Below (r ++ [i]) (r ++ [i] ++ e) := by
                          refine ⟨List.prefix_append _ _, ?_⟩
                          have : 0 < e.length := List.length_pos_iff.2 hene
                          simp; omega
                        have hov2 := Overlaps.restrict (ri := r ++ [i]) (e := e) (by omega) (IdxOK_append.1 hidx').2 hov'
                        rw [← hpn1, ← hpn2] at hov2
                        exact hcompc _ g hbelow hlen' hidx' hov2 hns' hg'
                      split
                      · rename_i heq; rw [heq] at hb; cases hb
                      · -- the child is not empty: it stays
                        rename_i s1 heq
                        rw [heq] at hp2 ho2 hb hbiff hchg1 hsub hc1
                        simp only at hp2 ho2 hb hbiff hchg1 hsub hc1
                        have hbf : b = false := by simpa using (R.ok.inj hb).symm
                        subst hbf
                        refine ⟨by simp, ⟨_, hp2, ho2⟩, ?_⟩
                        intro i' hi' e g hlen' hidx' hov' hns' hg'
                        rcases List.mem_append.1 hi' with h | h
                        · exact hearlier _ _ (CleanPost.trans hp0.inv hrd hc1.lift)
                            (by intro g j hne; exact Or.inl (hchg1 g j hne)) i' h e g hlen' hidx' hov' hns' hg'
                        · simp at h; subst h
                          by_cases hene : e = []
                          · subst hene
                            simp only [List.append_nil] at hg' ⊢
                            have hck : tblAt s1.mem p4 (r ++ [i']) = some child :=
                              hc1.keep _ child (by simp; omega) hri' hrc (fun hbb => Nat.lt_irrefl _ hbb.2)
                            rw [hck] at hg'
                            have hgc : g = child := (Option.some.inj hg').symm
                            subst hgc
                            apply exists_nonzero_of_not_all
                            intro hall
                            have := hbiff.2 hall
                            cases this
                          · exact hsub e g hlen' hidx' hov' hns' hg' hene
                      · -- the child is empty: unlink and free it
                        rename_i s1 heq
                        rw [heq] at hp2 ho2 hb hbiff hchg1 hc1
                        simp only at hp2 ho2 hb hbiff hchg1 hc1
                        have hbt : b = true := by simpa using (R.ok.inj hb).symm
                        subst hbt
                        have hempty := hbiff.1 rfl
                        have hr1 : tblAt s1.mem p4 r = some tbl :=
                          hp2.keep r tbl hrl hri hr (fun hbb => Nat.lt_irrefl _ hbb.2)
                        have hsame : s1.mem tbl i = s0.mem tbl i := by
                          apply Classical.byContradiction
                          intro hne
                          obtain ⟨q2, hq2, hq2i, hpre2, hg2⟩ := hchg1 tbl i hne
                          have : q2 = r := hp0.inv.wf q2 r tbl (by omega) hrl hq2i hri hg2 hr0
                          rw [this] at hpre2
                          obtain ⟨x, hx⟩ := hpre2
                          have := congrArg List.length hx
                          simp at this
                        have hto1 : tableOf (s1.mem tbl i) = some child := by rw [hsame]; exact hto
                        have hu := CleanPost.unlink p4 (recSkipOf k rIdx) r tbl i child s1 hp2.inv hr1 hrl2 hri hi hto1
                          hempty (fun x hx => hskip' x hx (by simp))
                        have hrc1 : tblAt s1.mem p4 (r ++ [i]) = some child := by
                          rw [tblAt_append, hr1]; simp [tblAt, hto1]
                        have huo : OvPost p4 r (pn rs) (pn re) s1 ((s1.wr tbl i 0#64).dealloc child) [.wr tbl i 0#64, .dealloc child] := by
                          constructor
                          · intro g hg
                            simp [deallocsIn] at hg; subst hg
                            exact ⟨r ++ [i], by simp; omega, hri', hrc1, hovi⟩
                          · intro f j hne
                            simp only [St.dealloc_mem, St.wr_mem] at hne
                            by_cases hw : f = tbl ∧ j = i
                            · exact ⟨r, hrl2, hri, hw.1 ▸ hr1, Or.inl rfl⟩
                            · exact absurd (PMem.set_other s1.mem tbl i _ f j hw) hne
                        have hp3 := CleanPost.trans hinv hp2 hu
                        have ho3 := OvPost.trans hp2 ho2 huo
                        refine ⟨by simp, ⟨_, hp3, ho3⟩, ?_⟩
                        intro i' hi' e g hlen' hidx' hov' hns' hg'
                        rcases List.mem_append.1 hi' with h | h
                        · refine hearlier _ _ (CleanPost.trans hp0.inv (CleanPost.trans hp0.inv hrd hc1.lift) hu) ?_ i' h e g hlen' hidx' hov' hns' hg'
                          intro g j hne
                          simp only [St.dealloc_mem, St.wr_mem] at hne
                          by_cases hw : g = tbl ∧ j = i
                          · exact Or.inr hw.1
                          · rw [PMem.set_other s1.mem tbl i _ g j hw] at hne
                            exact Or.inl (hchg1 g j hne)
                        · exfalso
                          simp at h; subst h
                          have hnone : tblAt ((s1.wr tbl i' 0#64).dealloc child).mem p4 (r ++ [i']) = none := by
                            obtain ⟨q, _, _, _, hq1, hq2, _, _⟩ := hu.freed child (by simp [deallocsIn])
                            have : q = r ++ [i'] := hp2.inv.wf q (r ++ [i']) child (by omega) (by simp; omega) (by assumption) hri' hq1 hrc1
                            rw [← this]; exact hq2
                          rw [tblAt_append, hnone] at hg'
                          cases hg'
          -- after the loop: the emptiness test
          obtain ⟨rx, s2⟩ := X
          obtain ⟨hnp, ⟨seg2, hp2, ho2⟩, hcomp⟩ := hl'
          cases rx with
          | panic => exact absurd rfl hnp
          | ok u =>
            cases u
            simp only
            have hr2 : tblAt s2.mem p4 r = some tbl :=
              hp2.keep r tbl hrl hri hr (fun hb => Nat.lt_irrefl _ hb.2)
            obtain ⟨h1, h2, ⟨seg3, h3, h4⟩, h5⟩ := tableIsEmpty_spec s2 tbl
            have hd : deallocsIn seg3 = [] := by
              unfold deallocsIn
              rw [List.filterMap_eq_nil_iff]
              intro ev hev; obtain ⟨j, rfl⟩ := h4 ev hev; rfl
            have hp3 : CleanPost p4 (recSkipOf k rIdx) r s2 (tableIsEmpty s2 tbl).2 seg3 :=
              CleanPost.reads p4 _ r s2 _ seg3 hp2.inv h1 h2 h3 tbl r hrl hri (List.prefix_refl _) hr2 h4
            refine ⟨⟨_, CleanPost.trans hinv hp2 hp3, OvPost.trans hp2 ho2 (OvPost.of_memEq p4 r _ _ s2 _ seg3 h1 hd)⟩,
              ⟨_, rfl, by rw [h1]; exact h5⟩, ?_⟩
            intro q g hb hq hqi hov hns hg
            rw [h1] at hg ⊢
            -- q = r ++ [i] ++ e
            obtain ⟨⟨x, hx⟩, hxl⟩ := hb
            cases x with
            | nil => simp at hx; rw [hx] at hxl; exact absurd hxl (Nat.lt_irrefl _)
            | cons i e =>
              have hq' : q = r ++ [i] ++ e := by rw [← hx]; simp
              subst hq'
              have hi : i < 512 := hqi i (by simp)
              have hovi : Overlaps (r ++ [i]) (pn rs) (pn re) :=
                Overlaps.ancestor (ri := r ++ [i]) (e := e) (by omega) (fun j hj => hqi j (by simp [hj])) hov
              -- `i` is in the window
              have hwin : VirtAddr.pageTableIndex rs (level + 1) ≤ i ∧ i ≤ VirtAddr.pageTableIndex re (level + 1) := by
                apply Classical.byContradiction
                intro hnw
                have ho : i < VirtAddr.pageTableIndex rs (level + 1) ∨ VirtAddr.pageTableIndex re (level + 1) < i := by omega
                have := outside_window (level + 1) (tnum r) rs re i hl hrange hi ho
                obtain ⟨hsl, hsh⟩ := span_child_eq r i (level + 1) hlen (by omega)
                simp only [Nat.add_sub_cancel] at this hsl hsh
                rw [← hsl, ← hsh] at this
                obtain ⟨o1, o2⟩ := hovi
                omega
              have himem : i ∈ (List.range (VirtAddr.pageTableIndex re (level + 1) + 1)).drop (VirtAddr.pageTableIndex rs (level + 1)) := by
                rw [List.mem_iff_getElem]
                refine ⟨i - VirtAddr.pageTableIndex rs (level + 1), by simp; omega, ?_⟩
                rw [List.getElem_drop, List.getElem_range]; omega
              exact hcomp i himem e g hq hqi hov hns hg

/-! ### Repeating a clean-up -/

/-- No linked table strictly below `r` that overlaps `lo..hi` (outside the skipped slot) is empty —
the state a clean-up run leaves behind (`cleanUpLevel_range`). -/
def Stable (p4 : Word) (rsk : Option Nat) (r : List Nat) (lo hi : Nat) (m : PMem) : Prop :=
  ∀ q g, Below r q → q.length ≤ 3 → IdxOK q → Overlaps q lo hi → NotSkipped rsk q →
    tblAt m p4 q = some g → ∃ j, j < 512 ∧ m g j ≠ 0#64

/-- `s'` is `s` with some read events appended. -/
def ReadsOnly (s s' : St) : Prop :=
  s'.mem = s.mem ∧ s'.allocs = s.allocs ∧ ∃ seg, s'.events = s.events ++ seg ∧ ∀ ev ∈ seg, ∃ f j, ev = Ev.rd f j

theorem ReadsOnly.refl (s : St) : ReadsOnly s s := ⟨rfl, rfl, [], by simp, by intro ev h; cases h⟩

theorem ReadsOnly.trans {a b c : St} (h1 : ReadsOnly a b) (h2 : ReadsOnly b c) : ReadsOnly a c := by
  obtain ⟨m1, a1, s1, e1, r1⟩ := h1
  obtain ⟨m2, a2, s2, e2, r2⟩ := h2
  refine ⟨m2.trans m1, a2.trans a1, s1 ++ s2, by rw [e2, e1]; simp, ?_⟩
  intro ev h
  rcases List.mem_append.1 h with h | h
  · exact r1 ev h
  · exact r2 ev h

theorem ReadsOnly.rd (s : St) (f : Word) (i : Nat) : ReadsOnly s (s.rd f i).2 :=
  ⟨rfl, rfl, [.rd f i], by simp, by intro ev h; simp at h; exact ⟨f, i, h⟩⟩

theorem ReadsOnly.isEmpty (s : St) (tbl : Word) : ReadsOnly s (tableIsEmpty s tbl).2 := by
  obtain ⟨h1, h2, ⟨seg, h3, h4⟩, _⟩ := tableIsEmpty_spec s tbl
  exact ⟨h1, h2, seg, h3, fun ev hev => by obtain ⟨j, hj⟩ := h4 ev hev; exact ⟨tbl, j, hj⟩⟩

/-- **A clean-up of a hierarchy that a clean-up of the same range left behind changes nothing**: it
only reads — no write, no deallocation. -/
theorem cleanUpLevel_stable (k : Kind) (rIdx : Nat) (p4 : Word) :
    ∀ (lvl : Nat) (r : List Nat) (tbl : Word) (s : St) (rs re : Nat),
      1 ≤ lvl → Inv s.mem p4 → tblAt s.mem p4 r = some tbl → r.length + lvl = 4 → IdxOK r →
      (∀ x, recSkipOf k rIdx = some x → r ≠ [] → r.head? ≠ some x) →
      RangeIn lvl (tnum r) rs re → Stable p4 (recSkipOf k rIdx) r (pn rs) (pn re) s.mem →
      ReadsOnly s (cleanUpLevel k rIdx lvl s tbl rs re).2 := by
  intro lvl
  induction lvl with
  | zero => intro r tbl s rs re h; omega
  | succ level ih =>
    intro r tbl s rs re _ hinv hr hlen hri hskip hrange hstable
    have hrl : r.length ≤ 3 := by omega
    unfold cleanUpLevel
    simp only
    split
    · exact ReadsOnly.refl s
    · split
      · exact ReadsOnly.refl s
      · rename_i tableAddr htable
        split
        · exact ReadsOnly.isEmpty s tbl
        · rename_i hl1
          have hl : level + 1 = 2 ∨ level + 1 = 3 ∨ level + 1 = 4 := by omega
          generalize hX : List.foldl _ (R.ok (), s) _ = X
          have hl' : ReadsOnly s X.2 := by
            rw [← hX]
            refine foldl_inv (fun (acc : R Unit × St) => ReadsOnly s acc.2) _ _ _ (ReadsOnly.refl s) ?_
            intro acc i himem hacc
            obtain ⟨hi1, hi2'⟩ := mem_drop_range himem
            have hi2 : i ≤ VirtAddr.pageTableIndex re (level + 1) := by omega
            obtain ⟨_, hw2, _, _⟩ := window (level + 1) (tnum r) rs re hl hrange
            have hi : i < 512 := by omega
            obtain ⟨ta, st0, en0, hta, hfw, hadd, hchild, hpn1, hpn2⟩ :=
              child_range (level + 1) (tnum r) rs re i hl hrange hi1 hi2
            have htaeq : ta = tableAddr := by rw [htable] at hta; exact (R.ok.inj hta).symm
            subst htaeq
            obtain ⟨hsl, hsh⟩ := span_child_eq r i (level + 1) hlen (by omega)
            simp only [Nat.add_sub_cancel] at hpn1 hpn2 hchild hsl hsh
            rw [← hsl] at hpn1
            rw [← hsh] at hpn2
            have hpnle : pn (max (Page.containingAddress 4096 st0) rs) ≤ pn (min (Page.containingAddress 4096 en0) re) :=
              (pn_mono hchild.1 hchild.2.1).1 hchild.2.2.1
            have hovi : Overlaps (r ++ [i]) (pn rs) (pn re) := by
              rw [hpn1, hpn2] at hpnle
              constructor
              · have := Nat.le_min.1 (Nat.le_trans (Nat.le_max_right _ _) hpnle); exact this.1
              · have := Nat.max_le.1 (Nat.le_trans hpnle (Nat.min_le_right _ _)); exact this.1
            have hlo : pn rs ≤ pn (max (Page.containingAddress 4096 st0) rs) := by rw [hpn1]; exact Nat.le_max_left _ _
            have hhi : pn (min (Page.containingAddress 4096 en0) re) ≤ pn re := by rw [hpn2]; exact Nat.min_le_left _ _
            obtain ⟨ra, s0⟩ := acc
            obtain ⟨hm0, ha0, hev0⟩ := hacc
            have hacc : ReadsOnly s s0 := ⟨hm0, ha0, hev0⟩
            simp only at hm0
            cases ra with
            | panic => exact hacc
            | ok u =>
              cases u
              simp only
              have hri' : IdxOK (r ++ [i]) := IdxOK_append.2 ⟨hri, fun j hj => by simp at hj; rw [hj]; exact hi⟩
              split
              · exact hacc
              · rename_i hnskip
                have h1 := hacc.trans (ReadsOnly.rd s0 tbl i)
                split
                · exact h1
                · rename_i child hnt
                  have hto : tableOf (s.mem tbl i) = some child := by
                    rw [← hm0]; exact (nextTable_ok_iff _ _).1 (by simpa using hnt)
                  split
                  · exact h1
                  · rename_i st0' hsome
                    have : st0 = st0' := by rw [hfw] at hsome; exact Option.some.inj hsome
                    subst this
                    split
                    · exact h1
                    · rename_i en0' hok
                      have : en0 = en0' := by rw [hadd] at hok; exact R.ok.inj hok
                      subst this
                      have hm1 : (s0.rd tbl i).2.mem = s.mem := by simpa using hm0
                      have hrc : tblAt (s0.rd tbl i).2.mem p4 (r ++ [i]) = some child := by
                        rw [hm1, tblAt_append, hr]; simp [tblAt, hto]
                      have hskip' : ∀ x, recSkipOf k rIdx = some x → r ++ [i] ≠ [] → (r ++ [i]).head? ≠ some x := by
                        intro x hx _
                        cases r with
                        | nil =>
                          simp only [List.nil_append, List.head?_cons, ne_eq, Option.some.injEq]
                          intro hix
                          apply hnskip
                          unfold recSkipOf at hx
                          split at hx
                          · rename_i hk
                            have hl4 : level + 1 = 4 := by simp at hlen; omega
                            simp only [Option.some.injEq] at hx
                            simp [hk, hl4, hix, hx]
                          · cases hx
                        | cons a r' =>
                          simpa using hskip x hx (by simp)
                      have hchild' : RangeIn level (tnum (r ++ [i]))
                          (max (Page.containingAddress 4096 st0) rs) (min (Page.containingAddress 4096 en0) re) := by
                        rw [tnum_snoc]; exact hchild
                      have hstable' : Stable p4 (recSkipOf k rIdx) (r ++ [i])
                          (pn (max (Page.containingAddress 4096 st0) rs)) (pn (min (Page.containingAddress 4096 en0) re))
                          (s0.rd tbl i).2.mem := by
                        rw [hm1]
                        intro q g hb hq hqi hov hns hg
                        exact hstable q g hb.of_ext hq hqi (hov.mono hlo hhi) hns hg
                      have hinv1 : Inv (s0.rd tbl i).2.mem p4 := by rw [hm1]; exact hinv
                      have hro := ih (r ++ [i]) child (s0.rd tbl i).2 _ _ (by omega) hinv1 hrc (by simp; omega) hri' hskip' hchild' hstable'
                      obtain ⟨_, ⟨b, hb, hbiff⟩, _⟩ := cleanUpLevel_range k rIdx p4 level (r ++ [i]) child (s0.rd tbl i).2 _ _
                        (by omega) hinv1 hrc (by simp; omega) hri' hskip' hchild'
                      -- the child is not empty, so the answer is `false`
                      have hbf : b = false := by
                        cases b with
                        | false => rfl
                        | true =>
                          exfalso
                          have hall := hbiff.1 rfl
                          rw [hro.1, hm1] at hall
                          obtain ⟨j, hj, hnz⟩ := hstable (r ++ [i]) child ⟨List.prefix_append _ _, by simp⟩ (by simp; omega) hri' hovi
                            (fun x hx => hskip' x hx (by simp)) (by rw [tblAt_append, hr]; simp [tblAt, hto])
                          exact hnz (hall j hj)
                      subst hbf
                      split
                      · rename_i heq; rw [heq] at hb; cases hb
                      · rename_i heq; rw [heq] at hro; exact h1.trans hro
                      · rename_i heq; rw [heq] at hb; cases hb
          obtain ⟨rx, s2⟩ := X
          cases rx with
          | panic => exact hl'
          | ok u =>
            cases u
            simp only
            exact ReadsOnly.trans hl' (ReadsOnly.isEmpty s2 tbl)

end X86
