/-
Stage B of the source tie: every bit-vector reference definition of `Model/RefBV.lean` corresponds to the
`Nat` model of the same name (`Model/Addr.lean`, `Model/Page.lean`) under `BitVec.toNat`.

Conventions: plain values are compared through `toNat`; `Option`/`R` results through `Option.map`/`R.map`
`BitVec.toNat`; pairs component-wise; `Bool`/`R Bool` as they are. A hypothesis is present only where the
statement is false without it (the comment on the theorem says why).
-/
import X86Model.Model.RefBV
import X86Model.Model.Page
import X86Model.Proofs.RustObs

namespace X86.RefBridge

theorem ult_false {w} (x y : BitVec w) : (x.ult y = false) ↔ y.toNat ≤ x.toNat := by
  rw [← Bool.not_eq_true, BitVec.ult_iff_lt, BitVec.lt_def]; omega
theorem ule_false {w} (x y : BitVec w) : (x.ule y = false) ↔ y.toNat < x.toNat := by
  rw [← Bool.not_eq_true, BitVec.ule_iff_le, BitVec.le_def]; omega
theorem ult_true {w} (x y : BitVec w) : (x.ult y = true) ↔ x.toNat < y.toNat := by
  rw [BitVec.ult_iff_lt, BitVec.lt_def]
theorem ule_true {w} (x y : BitVec w) : (x.ule y = true) ↔ x.toNat ≤ y.toNat := by
  rw [BitVec.ule_iff_le, BitVec.le_def]
theorem uaddOverflow_true {w} (x y : BitVec w) : (x.uaddOverflow y = true) ↔ 2^w ≤ x.toNat + y.toNat := by
  simp [BitVec.uaddOverflow]
theorem uaddOverflow_false {w} (x y : BitVec w) : (x.uaddOverflow y = false) ↔ x.toNat + y.toNat < 2^w := by
  simp [BitVec.uaddOverflow]
theorem umulOverflow_true {w} (x y : BitVec w) : (x.umulOverflow y = true) ↔ 2^w ≤ x.toNat * y.toNat := by
  simp [BitVec.umulOverflow]
theorem umulOverflow_false {w} (x y : BitVec w) : (x.umulOverflow y = false) ↔ x.toNat * y.toNat < 2^w := by
  simp [BitVec.umulOverflow]
theorem usubOverflow_true {w} (x y : BitVec w) : (x.usubOverflow y = true) ↔ x.toNat < y.toNat := by
  simp [BitVec.usubOverflow]
theorem usubOverflow_false {w} (x y : BitVec w) : (x.usubOverflow y = false) ↔ y.toNat ≤ x.toNat := by
  simp [BitVec.usubOverflow]
theorem ite_some_none_eq_none {α} (p : Prop) [Decidable p] (a : α) :
    ((if p then some a else none) = none) ↔ ¬ p := by
  split <;> simp [*]
theorem ite_some_none_eq_some {α} (p : Prop) [Decidable p] (a b : α) :
    ((if p then some a else none) = some b) ↔ p ∧ a = b := by
  split <;> simp [*]

/-- bit-vector goal -> linear arithmetic over toNat, then omega.
(An extension of `bv_nat` of `Proofs/RustObs.lean`: also translates `= false` forms of the comparisons, the overflow
predicates, `==`, and peels `Option.map`/`R.map`/constructor equations. It has its own name on purpose: declaring a
second macro called `bv_nat` here makes both expansions compete and failures are reported only as a silent `sorry`.) -/
macro "bvn" : tactic =>
  `(tactic| ((try simp -implicitDefEqProofs only [Bool.not_eq_true, ult_false, ule_false, ult_true, ule_true,
      uaddOverflow_true, uaddOverflow_false, umulOverflow_true, umulOverflow_false, usubOverflow_true,
      usubOverflow_false, beq_iff_eq, beq_eq_false_iff_ne, bne_iff_ne, ne_eq,
      ite_some_none_eq_none, ite_some_none_eq_some,
      Option.map_some, Option.map_none, R.map_ok, R.map_panic, Option.some.injEq, R.ok.injEq, reduceCtorEq,
      Prod.mk.injEq, Prod.map_apply,
      R.ofOption_some, R.ofOption_none, R.bind_ok, R.bind_panic,
      bitvec_to_nat, BitVec.toNat_umod, BitVec.toNat_udiv, BitVec.toNat_allOnes, Nat.shiftRight_eq_div_pow, Nat.shiftLeft_eq] at *) <;>
    (try simp only [Nat.reducePow, Nat.reduceMod, Nat.reduceMul, Nat.reduceSub, Nat.reduceAdd] at *) <;> omega))

/-- unfold the `bif`s and the Nat-side checked arithmetic, split every `if`/`match`, finish with `bvn` -/
macro "bridge" : tactic =>
  `(tactic| ((try simp only [Bool.cond_eq_ite, Bool.false_eq_true, if_false, if_true, checkedAdd, checkedSub, checkedMul, Rust.checkedMul, Rust.onOpt, R.ofOption]) <;>
     (repeat' split) <;> bvn))

theorem signExt48_toNat (a : BitVec 64) : (RefBV.signExt48 a).toNat = X86.signExt48 a.toNat := by
  unfold RefBV.signExt48 X86.signExt48
  bridge

namespace VirtAddr

theorem newTruncate_toNat (a : BitVec 64) :
    (RefBV.VirtAddr.newTruncate a).toNat = X86.VirtAddr.newTruncate a.toNat := signExt48_toNat a

theorem tryNew_toNat (a : BitVec 64) :
    (RefBV.VirtAddr.tryNew a).map BitVec.toNat = X86.VirtAddr.tryNew a.toNat := by
  unfold RefBV.VirtAddr.tryNew X86.VirtAddr.tryNew
  rw [← newTruncate_toNat]
  bridge

theorem new_toNat (a : BitVec 64) :
    (RefBV.VirtAddr.new a).map BitVec.toNat = X86.VirtAddr.new a.toNat := by
  unfold RefBV.VirtAddr.new X86.VirtAddr.new
  rw [← tryNew_toNat]
  cases RefBV.VirtAddr.tryNew a <;> rfl

theorem pageOffset_toNat (a : BitVec 64) :
    (RefBV.VirtAddr.pageOffset a).toNat = X86.VirtAddr.pageOffset a.toNat := by
  unfold RefBV.VirtAddr.pageOffset X86.VirtAddr.pageOffset
  bridge

theorem p1Index_toNat (a : BitVec 64) :
    (RefBV.VirtAddr.p1Index a).toNat = X86.VirtAddr.p1Index a.toNat := by
  unfold RefBV.VirtAddr.p1Index X86.VirtAddr.p1Index
  bridge

theorem p2Index_toNat (a : BitVec 64) :
    (RefBV.VirtAddr.p2Index a).toNat = X86.VirtAddr.p2Index a.toNat := by
  unfold RefBV.VirtAddr.p2Index X86.VirtAddr.p2Index
  bridge

theorem p3Index_toNat (a : BitVec 64) :
    (RefBV.VirtAddr.p3Index a).toNat = X86.VirtAddr.p3Index a.toNat := by
  unfold RefBV.VirtAddr.p3Index X86.VirtAddr.p3Index
  bridge

theorem p4Index_toNat (a : BitVec 64) :
    (RefBV.VirtAddr.p4Index a).toNat = X86.VirtAddr.p4Index a.toNat := by
  unfold RefBV.VirtAddr.p4Index X86.VirtAddr.p4Index
  bridge

/-- `l ∈ 1..4` is needed: for other `l` the bit-vector version answers `p4Index`, the Nat model shifts by
`12 + 9 * (l - 1)`. -/
theorem pageTableIndex_toNat (a : BitVec 64) (l : BitVec 8) (hl : l = 1 ∨ l = 2 ∨ l = 3 ∨ l = 4) :
    (RefBV.VirtAddr.pageTableIndex a l).toNat = X86.VirtAddr.pageTableIndex a.toNat l.toNat := by
  rcases hl with rfl | rfl | rfl | rfl
  · rw [show RefBV.VirtAddr.pageTableIndex a 1 = RefBV.VirtAddr.p1Index a from rfl, p1Index_toNat]
    simp only [X86.VirtAddr.pageTableIndex, X86.VirtAddr.p1Index]; bvn
  · rw [show RefBV.VirtAddr.pageTableIndex a 2 = RefBV.VirtAddr.p2Index a from rfl, p2Index_toNat]
    simp only [X86.VirtAddr.pageTableIndex, X86.VirtAddr.p2Index]; bvn
  · rw [show RefBV.VirtAddr.pageTableIndex a 3 = RefBV.VirtAddr.p3Index a from rfl, p3Index_toNat]
    simp only [X86.VirtAddr.pageTableIndex, X86.VirtAddr.p3Index]; bvn
  · rw [show RefBV.VirtAddr.pageTableIndex a 4 = RefBV.VirtAddr.p4Index a from rfl, p4Index_toNat]
    simp only [X86.VirtAddr.pageTableIndex, X86.VirtAddr.p4Index]; bvn

end VirtAddr

namespace VirtAddr

theorem stepsBetweenU64_toNat (s e : BitVec 64) :
    (RefBV.VirtAddr.stepsBetweenU64 s e).map BitVec.toNat = X86.VirtAddr.stepsBetweenU64 s.toNat e.toNat := by
  unfold RefBV.VirtAddr.stepsBetweenU64 X86.VirtAddr.stepsBetweenU64
  bridge

theorem stepsBetweenImpl_toNat (s e : BitVec 64) :
    (RefBV.VirtAddr.stepsBetweenImpl s e).map BitVec.toNat (Option.map BitVec.toNat)
      = X86.VirtAddr.stepsBetweenImpl s.toNat e.toNat := by
  unfold X86.VirtAddr.stepsBetweenImpl
  rw [← stepsBetweenU64_toNat]
  unfold RefBV.VirtAddr.stepsBetweenImpl RefBV.VirtAddr.stepsBetweenU64
  cases BitVec.ult e s <;> rfl

theorem add_toNat (a rhs : BitVec 64) :
    (RefBV.VirtAddr.add a rhs).map BitVec.toNat = X86.VirtAddr.add a.toNat rhs.toNat := by
  unfold RefBV.VirtAddr.add X86.VirtAddr.add checkedAdd
  cases h : BitVec.uaddOverflow a rhs
  · rw [if_pos (by bvn)]
    simp only [cond_false, R.ofOption_some, R.bind_ok, new_toNat]; congr 1; bvn
  · rw [if_neg (by bvn)]; rfl

theorem sub_toNat (a rhs : BitVec 64) :
    (RefBV.VirtAddr.sub a rhs).map BitVec.toNat = X86.VirtAddr.sub a.toNat rhs.toNat := by
  unfold RefBV.VirtAddr.sub X86.VirtAddr.sub checkedSub
  cases h : BitVec.ult a rhs
  · rw [if_pos (by bvn)]
    simp only [cond_false, R.ofOption_some, R.bind_ok, new_toNat]; congr 1; bvn
  · rw [if_neg (by bvn)]; rfl

theorem subAddr_toNat (a b : BitVec 64) :
    (RefBV.VirtAddr.subAddr a b).map BitVec.toNat = X86.VirtAddr.subAddr a.toNat b.toNat := by
  unfold RefBV.VirtAddr.subAddr X86.VirtAddr.subAddr
  bridge

end VirtAddr

namespace PhysAddr

theorem newTruncate_toNat (a : BitVec 64) :
    (RefBV.PhysAddr.newTruncate a).toNat = X86.PhysAddr.newTruncate a.toNat := by
  unfold RefBV.PhysAddr.newTruncate X86.PhysAddr.newTruncate
  bridge

theorem tryNew_toNat (a : BitVec 64) :
    (RefBV.PhysAddr.tryNew a).map BitVec.toNat = X86.PhysAddr.tryNew a.toNat := by
  unfold RefBV.PhysAddr.tryNew X86.PhysAddr.tryNew
  rw [← newTruncate_toNat]
  bridge

theorem new_toNat (a : BitVec 64) :
    (RefBV.PhysAddr.new a).map BitVec.toNat = X86.PhysAddr.new a.toNat := by
  unfold RefBV.PhysAddr.new X86.PhysAddr.new
  rw [← tryNew_toNat]
  cases RefBV.PhysAddr.tryNew a <;> rfl

theorem add_toNat (a rhs : BitVec 64) :
    (RefBV.PhysAddr.add a rhs).map BitVec.toNat = X86.PhysAddr.add a.toNat rhs.toNat := by
  unfold RefBV.PhysAddr.add X86.PhysAddr.add checkedAdd
  cases h : BitVec.uaddOverflow a rhs
  · rw [if_pos (by bvn)]
    simp only [cond_false, R.ofOption_some, R.bind_ok, new_toNat]; congr 1; bvn
  · rw [if_neg (by bvn)]; rfl

theorem sub_toNat (a rhs : BitVec 64) :
    (RefBV.PhysAddr.sub a rhs).map BitVec.toNat = X86.PhysAddr.sub a.toNat rhs.toNat := by
  unfold RefBV.PhysAddr.sub X86.PhysAddr.sub checkedSub
  cases h : BitVec.ult a rhs
  · rw [if_pos (by bvn)]
    simp only [cond_false, R.ofOption_some, R.bind_ok, new_toNat]; congr 1; bvn
  · rw [if_neg (by bvn)]; rfl

theorem subAddr_toNat (a b : BitVec 64) :
    (RefBV.PhysAddr.subAddr a b).map BitVec.toNat = X86.PhysAddr.subAddr a.toNat b.toNat := by
  unfold RefBV.PhysAddr.subAddr X86.PhysAddr.subAddr
  bridge

end PhysAddr

namespace PageTableIndex

theorem new_toNat (i : BitVec 16) :
    (RefBV.PageTableIndex.new i).map BitVec.toNat = X86.PageTableIndex.new i.toNat := by
  unfold RefBV.PageTableIndex.new X86.PageTableIndex.new
  bridge

theorem newTruncate_toNat (i : BitVec 16) :
    (RefBV.PageTableIndex.newTruncate i).toNat = X86.PageTableIndex.newTruncate i.toNat := by
  unfold RefBV.PageTableIndex.newTruncate X86.PageTableIndex.newTruncate
  bridge

theorem forwardChecked_toNat (i : BitVec 16) (count : BitVec 64) :
    (RefBV.PageTableIndex.forwardChecked i count).map BitVec.toNat
      = X86.PageTableIndex.forwardChecked i.toNat count.toNat := by
  unfold RefBV.PageTableIndex.forwardChecked X86.PageTableIndex.forwardChecked
  bridge

theorem backwardChecked_toNat (i : BitVec 16) (count : BitVec 64) :
    (RefBV.PageTableIndex.backwardChecked i count).map BitVec.toNat
      = X86.PageTableIndex.backwardChecked i.toNat count.toNat := by
  unfold RefBV.PageTableIndex.backwardChecked X86.PageTableIndex.backwardChecked
  bridge

theorem stepsBetween_toNat (s e : BitVec 16) :
    (RefBV.PageTableIndex.stepsBetween s e).map BitVec.toNat (Option.map BitVec.toNat)
      = X86.PageTableIndex.stepsBetween s.toNat e.toNat := by
  unfold RefBV.PageTableIndex.stepsBetween X86.PageTableIndex.stepsBetween
  bridge

end PageTableIndex

namespace PageOffset

theorem new_toNat (o : BitVec 16) :
    (RefBV.PageOffset.new o).map BitVec.toNat = X86.PageOffset.new o.toNat := by
  unfold RefBV.PageOffset.new X86.PageOffset.new
  bridge

theorem newTruncate_toNat (o : BitVec 16) :
    (RefBV.PageOffset.newTruncate o).toNat = X86.PageOffset.newTruncate o.toNat := by
  unfold RefBV.PageOffset.newTruncate X86.PageOffset.newTruncate
  bridge

end PageOffset

namespace PageTableLevel

/-- Holds for every `l : BitVec 8` (both sides answer `none` outside `2..4`). -/
theorem nextLower_toNat (l : BitVec 8) :
    (RefBV.PageTableLevel.nextLower l).map BitVec.toNat = X86.PageTableLevel.nextLower l.toNat := by
  unfold RefBV.PageTableLevel.nextLower X86.PageTableLevel.nextLower
  bridge

/-- Holds for every `l : BitVec 8`. -/
theorem nextHigher_toNat (l : BitVec 8) :
    (RefBV.PageTableLevel.nextHigher l).map BitVec.toNat = X86.PageTableLevel.nextHigher l.toNat := by
  unfold RefBV.PageTableLevel.nextHigher X86.PageTableLevel.nextHigher
  bridge

/-- `l ∈ 1..4` is needed: the Nat model is `2^(l*9+12)` for every `l`, the bit-vector version is a 4-way case
distinction whose default is level 4. -/
theorem tableAlign_toNat (l : BitVec 8) (hl : l = 1 ∨ l = 2 ∨ l = 3 ∨ l = 4) :
    (RefBV.PageTableLevel.tableAlign l).toNat = X86.PageTableLevel.tableAlign l.toNat := by
  rcases hl with rfl | rfl | rfl | rfl <;> rfl

/-- `l ∈ 1..4` is needed (as for `tableAlign`). -/
theorem entryAlign_toNat (l : BitVec 8) (hl : l = 1 ∨ l = 2 ∨ l = 3 ∨ l = 4) :
    (RefBV.PageTableLevel.entryAlign l).toNat = X86.PageTableLevel.entryAlign l.toNat := by
  rcases hl with rfl | rfl | rfl | rfl <;> rfl

end PageTableLevel

/-! ### powers of two, `alignDown`, `alignUp` -/

theorem isPowerOfTwo_cases (al : BitVec 64) : Rust.isPowerOfTwo al =
    (al == 0x1#64 || al == 0x2#64 || al == 0x4#64 || al == 0x8#64 || al == 0x10#64 || al == 0x20#64 || al == 0x40#64 || al == 0x80#64 || al == 0x100#64 || al == 0x200#64 || al == 0x400#64 || al == 0x800#64 || al == 0x1000#64 || al == 0x2000#64 || al == 0x4000#64 || al == 0x8000#64 || al == 0x10000#64 || al == 0x20000#64 || al == 0x40000#64 || al == 0x80000#64 || al == 0x100000#64 || al == 0x200000#64 || al == 0x400000#64 || al == 0x800000#64 || al == 0x1000000#64 || al == 0x2000000#64 || al == 0x4000000#64 || al == 0x8000000#64 || al == 0x10000000#64 || al == 0x20000000#64 || al == 0x40000000#64 || al == 0x80000000#64 || al == 0x100000000#64 || al == 0x200000000#64 || al == 0x400000000#64 || al == 0x800000000#64 || al == 0x1000000000#64 || al == 0x2000000000#64 || al == 0x4000000000#64 || al == 0x8000000000#64 || al == 0x10000000000#64 || al == 0x20000000000#64 || al == 0x40000000000#64 || al == 0x80000000000#64 || al == 0x100000000000#64 || al == 0x200000000000#64 || al == 0x400000000000#64 || al == 0x800000000000#64 || al == 0x1000000000000#64 || al == 0x2000000000000#64 || al == 0x4000000000000#64 || al == 0x8000000000000#64 || al == 0x10000000000000#64 || al == 0x20000000000000#64 || al == 0x40000000000000#64 || al == 0x80000000000000#64 || al == 0x100000000000000#64 || al == 0x200000000000000#64 || al == 0x400000000000000#64 || al == 0x800000000000000#64 || al == 0x1000000000000000#64 || al == 0x2000000000000000#64 || al == 0x4000000000000000#64 || al == 0x8000000000000000#64) := by
  unfold Rust.isPowerOfTwo
  bv_decide

theorem isPow2_cases (n : Nat) : X86.isPow2 n =
    (n == 1 || n == 2 || n == 4 || n == 8 || n == 16 || n == 32 || n == 64 || n == 128 || n == 256 || n == 512 || n == 1024 || n == 2048 || n == 4096 || n == 8192 || n == 16384 || n == 32768 || n == 65536 || n == 131072 || n == 262144 || n == 524288 || n == 1048576 || n == 2097152 || n == 4194304 || n == 8388608 || n == 16777216 || n == 33554432 || n == 67108864 || n == 134217728 || n == 268435456 || n == 536870912 || n == 1073741824 || n == 2147483648 || n == 4294967296 || n == 8589934592 || n == 17179869184 || n == 34359738368 || n == 68719476736 || n == 137438953472 || n == 274877906944 || n == 549755813888 || n == 1099511627776 || n == 2199023255552 || n == 4398046511104 || n == 8796093022208 || n == 17592186044416 || n == 35184372088832 || n == 70368744177664 || n == 140737488355328 || n == 281474976710656 || n == 562949953421312 || n == 1125899906842624 || n == 2251799813685248 || n == 4503599627370496 || n == 9007199254740992 || n == 18014398509481984 || n == 36028797018963968 || n == 72057594037927936 || n == 144115188075855872 || n == 288230376151711744 || n == 576460752303423488 || n == 1152921504606846976 || n == 2305843009213693952 || n == 4611686018427387904 || n == 9223372036854775808) := by
  unfold X86.isPow2
  rw [show List.range 64 = [0, 1, 2, 3, 4, 5, 6, 7, 8, 9, 10, 11, 12, 13, 14, 15, 16, 17, 18, 19, 20, 21, 22, 23, 24, 25, 26, 27, 28, 29, 30, 31, 32, 33, 34, 35, 36, 37, 38, 39, 40, 41, 42, 43, 44, 45, 46, 47, 48, 49, 50, 51, 52, 53, 54, 55, 56, 57, 58, 59, 60, 61, 62, 63] from rfl]
  simp only [List.any_cons, List.any_nil, Bool.or_false, Nat.reducePow, Bool.or_assoc]

theorem beq_toNat {w} (x y : BitVec w) : (x == y) = (x.toNat == y.toNat) := by
  rw [Bool.eq_iff_iff]; simp [BitVec.toNat_inj]

theorem isPowerOfTwo_eq (al : BitVec 64) : Rust.isPowerOfTwo al = X86.isPow2 al.toNat := by
  rw [isPowerOfTwo_cases, isPow2_cases]
  simp only [beq_toNat, BitVec.toNat_ofNat, Nat.reducePow, Nat.reduceMod]

theorem isPow2_iff (n : Nat) : X86.isPow2 n = true ↔ ∃ k, k < 64 ∧ n = 2^k := by
  simp [X86.isPow2, List.any_eq_true, List.mem_range]

theorem mask_shift (a k : BitVec 64) : a &&& ~~~((1#64 <<< k) - 1) = (a >>> k) <<< k := by
  bv_decide

/-- the core of `alignDown`: clearing the low `k` bits -/
theorem and_not_mask_toNat (a al : BitVec 64) (k : Nat) (hk : k < 64) (hal : al.toNat = 2^k) :
    (a &&& ~~~(al - 1)).toNat = a.toNat - a.toNat % al.toNat := by
  have hlt : 2^k < 2^64 := Nat.pow_lt_pow_right (by decide) hk
  have hkb : (BitVec.ofNat 64 k).toNat = k := by
    rw [BitVec.toNat_ofNat]; exact Nat.mod_eq_of_lt (by omega)
  have e : al = 1#64 <<< (BitVec.ofNat 64 k) := by
    apply BitVec.eq_of_toNat_eq
    rw [hal, BitVec.shiftLeft_eq', BitVec.toNat_shiftLeft, hkb,
      Nat.shiftLeft_eq, BitVec.toNat_ofNat, Nat.mod_eq_of_lt (by decide : 1 < 2^64), Nat.one_mul,
      Nat.mod_eq_of_lt hlt]
  rw [e, mask_shift, ← e, hal, BitVec.shiftLeft_eq', BitVec.ushiftRight_eq', BitVec.toNat_shiftLeft,
    BitVec.toNat_ushiftRight, hkb, Nat.shiftLeft_eq, Nat.shiftRight_eq_div_pow]
  have h1 := Nat.div_add_mod a.toNat (2^k)
  have h2 := a.isLt
  rw [Nat.mul_comm] at h1
  rw [Nat.mod_eq_of_lt (by omega)]
  omega

theorem or_mask (a m : BitVec 64) : a ||| m = (a &&& ~~~m) + m ∧ BitVec.uaddOverflow (a &&& ~~~m) m = false := by
  constructor <;> bv_decide

theorem and_mask (a m : BitVec 64) : a &&& m = a - (a &&& ~~~m) ∧ BitVec.ule (a &&& ~~~m) a = true := by
  constructor <;> bv_decide

/-- `al` a power of two: the three mask expressions of `align_down`/`align_up` in `Nat` terms. -/
theorem masks_toNat (a al : BitVec 64) (h : X86.isPow2 al.toNat = true) :
    (a &&& ~~~(al - 1)).toNat = a.toNat - a.toNat % al.toNat ∧
    (a &&& (al - 1)).toNat = a.toNat % al.toNat ∧
    (a ||| (al - 1)).toNat = a.toNat - a.toNat % al.toNat + (al.toNat - 1) := by
  obtain ⟨k, hk, hal⟩ := (isPow2_iff _).1 h
  have hd := and_not_mask_toNat a al k hk hal
  have hpos : 0 < al.toNat := by rw [hal]; exact Nat.pow_pos (by decide)
  have hm : (al - 1).toNat = al.toNat - 1 := by bvn
  have hle := Nat.mod_le a.toNat al.toNat
  obtain ⟨o1, o2⟩ := or_mask a (al - 1)
  obtain ⟨a1, a2⟩ := and_mask a (al - 1)
  refine ⟨hd, ?_, ?_⟩
  · rw [a1]; bvn
  · rw [o1]; bvn

theorem alignDown_toNat (a al : BitVec 64) :
    (RefBV.alignDown a al).map BitVec.toNat = X86.alignDown a.toNat al.toNat := by
  unfold RefBV.alignDown X86.alignDown
  rw [isPowerOfTwo_eq]
  cases h : X86.isPow2 al.toNat
  · rfl
  · simp only [cond_true, if_true, R.map_ok, (masks_toNat a al h).1]

theorem alignUp_toNat (a al : BitVec 64) :
    (RefBV.alignUp a al).map BitVec.toNat = X86.alignUp a.toNat al.toNat := by
  unfold RefBV.alignUp X86.alignUp
  rw [isPowerOfTwo_eq]
  cases h : X86.isPow2 al.toNat
  · rfl
  · obtain ⟨_, h2, h3⟩ := masks_toNat a al h
    have hle := Nat.mod_le a.toNat al.toNat
    simp only [cond_true, if_true, checkedAdd]
    generalize a &&& (al - 1) = x at *
    generalize a ||| (al - 1) = y at *
    generalize a.toNat % al.toNat = r at *
    bridge

/-! ### transport lemmas for `R.map` / `R.bind` -/

theorem R_map_map_toNat {f : BitVec 64 → BitVec 64} {g : Nat → Nat} (hfg : ∀ x, (f x).toNat = g x.toNat)
    (r : R (BitVec 64)) : (r.map f).map BitVec.toNat = (r.map BitVec.toNat).map g := by
  cases r <;> simp [hfg]

theorem R_bind_map_toNat {F : BitVec 64 → R (BitVec 64)} {G : Nat → R Nat}
    (hFG : ∀ x, (F x).map BitVec.toNat = G x.toNat)
    (r : R (BitVec 64)) : (r.bind F).map BitVec.toNat = (r.map BitVec.toNat).bind G := by
  cases r <;> simp [hFG]

theorem R_map_beq_toNat (a : BitVec 64) (r : R (BitVec 64)) :
    r.map (fun x => x == a) = (r.map BitVec.toNat).map (fun n => n == a.toNat) := by
  cases r <;> simp [beq_toNat]

namespace VirtAddr

theorem alignUp_toNat (a al : BitVec 64) :
    (RefBV.VirtAddr.alignUp a al).map BitVec.toNat = X86.VirtAddr.alignUp a.toNat al.toNat := by
  unfold RefBV.VirtAddr.alignUp X86.VirtAddr.alignUp
  rw [R_map_map_toNat newTruncate_toNat, RefBridge.alignUp_toNat]

theorem alignDown_toNat (a al : BitVec 64) :
    (RefBV.VirtAddr.alignDown a al).map BitVec.toNat = X86.VirtAddr.alignDown a.toNat al.toNat := by
  unfold RefBV.VirtAddr.alignDown X86.VirtAddr.alignDown
  rw [R_map_map_toNat newTruncate_toNat, RefBridge.alignDown_toNat]

theorem isAligned_eq (a al : BitVec 64) :
    RefBV.VirtAddr.isAligned a al = X86.VirtAddr.isAligned a.toNat al.toNat := by
  unfold RefBV.VirtAddr.isAligned X86.VirtAddr.isAligned
  rw [R_map_beq_toNat, alignDown_toNat]

end VirtAddr

namespace PhysAddr

theorem alignUp_toNat (a al : BitVec 64) :
    (RefBV.PhysAddr.alignUp a al).map BitVec.toNat = X86.PhysAddr.alignUp a.toNat al.toNat := by
  unfold RefBV.PhysAddr.alignUp X86.PhysAddr.alignUp
  rw [R_bind_map_toNat new_toNat, RefBridge.alignUp_toNat]

theorem alignDown_toNat (a al : BitVec 64) :
    (RefBV.PhysAddr.alignDown a al).map BitVec.toNat = X86.PhysAddr.alignDown a.toNat al.toNat :=
  RefBridge.alignDown_toNat a al

theorem isAligned_eq (a al : BitVec 64) :
    RefBV.PhysAddr.isAligned a al = X86.PhysAddr.isAligned a.toNat al.toNat := by
  unfold RefBV.PhysAddr.isAligned X86.PhysAddr.isAligned
  rw [R_map_beq_toNat, alignDown_toNat]

end PhysAddr

/-! ### pages and frames

The page size `sz` is an arbitrary `BitVec 64` wherever the statement holds for every value (most of them:
`a - a % sz`, `x / sz` and `count * sz` commute with `toNat` for every `sz`); `RefBV.IsPageSize sz` is assumed
only where needed. -/

theorem sub_mod_toNat (a sz : BitVec 64) : (a - a % sz).toNat = a.toNat - a.toNat % sz.toNat := by
  have := Nat.mod_le a.toNat sz.toNat
  bvn

theorem checkedMul_toNat (a b : BitVec 64) :
    (Rust.checkedMul a b).map BitVec.toNat = X86.checkedMul a.toNat b.toNat := by
  unfold Rust.checkedMul X86.checkedMul
  bridge

theorem onOpt_checkedMul {β} (a b : BitVec 64) (f : BitVec 64 → β) (g : Nat → β) (n : β)
    (hfg : ∀ x, f x = g x.toNat) :
    Rust.onOpt (Rust.checkedMul a b) f n = (match X86.checkedMul a.toNat b.toNat with | none => n | some c => g c) := by
  rw [← checkedMul_toNat]
  cases Rust.checkedMul a b <;> simp [Rust.onOpt, hfg]

namespace VirtAddr

theorem forwardCheckedU64_toNat (s c : BitVec 64) :
    (RefBV.VirtAddr.forwardCheckedU64 s c).map BitVec.toNat = X86.VirtAddr.forwardCheckedU64 s.toNat c.toNat := by
  unfold RefBV.VirtAddr.forwardCheckedU64 X86.VirtAddr.forwardCheckedU64
  bridge

theorem backwardCheckedU64_toNat (s c : BitVec 64) :
    (RefBV.VirtAddr.backwardCheckedU64 s c).map BitVec.toNat = X86.VirtAddr.backwardCheckedU64 s.toNat c.toNat := by
  unfold RefBV.VirtAddr.backwardCheckedU64 X86.VirtAddr.backwardCheckedU64
  bridge

end VirtAddr

namespace Page

theorem containingAddress_toNat (sz a : BitVec 64) :
    (RefBV.Page.containingAddress sz a).toNat = X86.Page.containingAddress sz.toNat a.toNat := by
  unfold RefBV.Page.containingAddress X86.Page.containingAddress
  rw [VirtAddr.newTruncate_toNat, sub_mod_toNat]

theorem fromStartAddress_toNat (sz a : BitVec 64) :
    (RefBV.Page.fromStartAddress sz a).map BitVec.toNat = X86.Page.fromStartAddress sz.toNat a.toNat := by
  unfold RefBV.Page.fromStartAddress X86.Page.fromStartAddress
  rw [← sub_mod_toNat, ← VirtAddr.newTruncate_toNat]
  bridge

theorem containingAddress_congr {s s' a a' : Nat} (hs : s = s') (ha : a = a') :
    X86.Page.containingAddress s (X86.VirtAddr.newTruncate a) = X86.Page.containingAddress s' (X86.VirtAddr.newTruncate a') := by
  subst hs; subst ha; rfl

/-- No bound on the indices is needed: they are `u16`, so the sum cannot wrap. -/
theorem fromIndices1G_toNat (i4 i3 : BitVec 16) :
    (RefBV.Page.fromIndices1G i4 i3).toNat = X86.Page.fromIndices1G i4.toNat i3.toNat := by
  unfold RefBV.Page.fromIndices1G X86.Page.fromIndices1G X86.size1G
  rw [containingAddress_toNat, VirtAddr.newTruncate_toNat]
  exact containingAddress_congr (by bvn) (by bvn)

theorem fromIndices2M_toNat (i4 i3 i2 : BitVec 16) :
    (RefBV.Page.fromIndices2M i4 i3 i2).toNat = X86.Page.fromIndices2M i4.toNat i3.toNat i2.toNat := by
  unfold RefBV.Page.fromIndices2M X86.Page.fromIndices2M X86.size2M
  rw [containingAddress_toNat, VirtAddr.newTruncate_toNat]
  exact containingAddress_congr (by bvn) (by bvn)

theorem fromIndices4K_toNat (i4 i3 i2 i1 : BitVec 16) :
    (RefBV.Page.fromIndices4K i4 i3 i2 i1).toNat
      = X86.Page.fromIndices4K i4.toNat i3.toNat i2.toNat i1.toNat := by
  unfold RefBV.Page.fromIndices4K X86.Page.fromIndices4K X86.size4K
  rw [containingAddress_toNat, VirtAddr.newTruncate_toNat]
  exact containingAddress_congr (by bvn) (by bvn)

theorem add_toNat (sz p rhs : BitVec 64) :
    (RefBV.Page.add sz p rhs).map BitVec.toNat = X86.Page.add sz.toNat p.toNat rhs.toNat := by
  unfold RefBV.Page.add X86.Page.add
  rw [← checkedMul_toNat]
  cases Rust.checkedMul rhs sz
  · rfl
  · simp only [Option.map_some, R.ofOption_some, R.bind_ok]
    rw [R_map_map_toNat (containingAddress_toNat sz), VirtAddr.add_toNat]

theorem sub_toNat (sz p rhs : BitVec 64) :
    (RefBV.Page.sub sz p rhs).map BitVec.toNat = X86.Page.sub sz.toNat p.toNat rhs.toNat := by
  unfold RefBV.Page.sub X86.Page.sub
  rw [← checkedMul_toNat]
  cases Rust.checkedMul rhs sz
  · rfl
  · simp only [Option.map_some, R.ofOption_some, R.bind_ok]
    rw [R_map_map_toNat (containingAddress_toNat sz), VirtAddr.sub_toNat]

theorem subPage_toNat (sz p q : BitVec 64) :
    (RefBV.Page.subPage sz p q).map BitVec.toNat = X86.Page.subPage sz.toNat p.toNat q.toNat := by
  unfold RefBV.Page.subPage X86.Page.subPage
  rw [R_map_map_toNat (g := (· / sz.toNat)) (fun x => BitVec.toNat_udiv), VirtAddr.subAddr_toNat]

theorem stepsBetweenImpl_toNat (sz s e : BitVec 64) :
    (RefBV.Page.stepsBetweenImpl sz s e).map BitVec.toNat (Option.map BitVec.toNat)
      = X86.Page.stepsBetweenImpl sz.toNat s.toNat e.toNat := by
  unfold X86.Page.stepsBetweenImpl
  rw [← VirtAddr.stepsBetweenU64_toNat]
  unfold RefBV.Page.stepsBetweenImpl RefBV.VirtAddr.stepsBetweenU64
  cases BitVec.ult e s
  · simp only [cond_false, Option.map_some, Prod.map_apply, BitVec.toNat_udiv]
  · rfl

theorem forwardChecked_toNat (sz p count : BitVec 64) :
    (RefBV.Page.forwardChecked sz p count).map BitVec.toNat
      = X86.Page.forwardChecked sz.toNat p.toNat count.toNat := by
  unfold RefBV.Page.forwardChecked X86.Page.forwardChecked
  rw [← checkedMul_toNat]
  cases Rust.checkedMul count sz
  · rfl
  · exact VirtAddr.forwardCheckedU64_toNat _ _

theorem backwardChecked_toNat (sz p count : BitVec 64) :
    (RefBV.Page.backwardChecked sz p count).map BitVec.toNat
      = X86.Page.backwardChecked sz.toNat p.toNat count.toNat := by
  unfold RefBV.Page.backwardChecked X86.Page.backwardChecked
  rw [← checkedMul_toNat]
  cases Rust.checkedMul count sz
  · rfl
  · exact VirtAddr.backwardCheckedU64_toNat _ _

end Page

namespace PhysFrame

theorem containingAddress_toNat (sz a : BitVec 64) :
    (RefBV.PhysFrame.containingAddress sz a).toNat = X86.PhysFrame.containingAddress sz.toNat a.toNat :=
  sub_mod_toNat a sz

theorem fromStartAddress_toNat (sz a : BitVec 64) :
    (RefBV.PhysFrame.fromStartAddress sz a).map BitVec.toNat = X86.PhysFrame.fromStartAddress sz.toNat a.toNat := by
  unfold RefBV.PhysFrame.fromStartAddress X86.PhysFrame.fromStartAddress
  rw [← sub_mod_toNat]
  bridge

theorem add_toNat (sz f rhs : BitVec 64) :
    (RefBV.PhysFrame.add sz f rhs).map BitVec.toNat = X86.PhysFrame.add sz.toNat f.toNat rhs.toNat := by
  unfold RefBV.PhysFrame.add X86.PhysFrame.add
  rw [← checkedMul_toNat]
  cases Rust.checkedMul rhs sz
  · rfl
  · simp only [Option.map_some, R.ofOption_some, R.bind_ok]
    rw [R_map_map_toNat (containingAddress_toNat sz), PhysAddr.add_toNat]

theorem sub_toNat (sz f rhs : BitVec 64) :
    (RefBV.PhysFrame.sub sz f rhs).map BitVec.toNat = X86.PhysFrame.sub sz.toNat f.toNat rhs.toNat := by
  unfold RefBV.PhysFrame.sub X86.PhysFrame.sub
  rw [← checkedMul_toNat]
  cases Rust.checkedMul rhs sz
  · rfl
  · simp only [Option.map_some, R.ofOption_some, R.bind_ok]
    rw [R_map_map_toNat (containingAddress_toNat sz), PhysAddr.sub_toNat]

theorem subFrame_toNat (sz f g : BitVec 64) :
    (RefBV.PhysFrame.subFrame sz f g).map BitVec.toNat = X86.PhysFrame.subFrame sz.toNat f.toNat g.toNat := by
  unfold RefBV.PhysFrame.subFrame X86.PhysFrame.subFrame
  rw [R_map_map_toNat (g := (· / sz.toNat)) (fun x => BitVec.toNat_udiv), PhysAddr.subAddr_toNat]

end PhysFrame

/-! ### ranges -/

/-- The `Nat` range denoted by a bit-vector range. -/
def toRange (r : RefBV.Range) : X86.Range := ⟨r.1.toNat, r.2.toNat⟩

/-- `toNat` on the result of one `next` call: the item and the updated range. -/
def nextToNat (x : Option (BitVec 64) × RefBV.Range) : Option Nat × X86.Range :=
  (x.1.map BitVec.toNat, toRange x.2)

theorem rustAdd_toNat (cfg : Cfg) (a b : BitVec 64) :
    (Rust.add cfg a b).map BitVec.toNat = X86.addU64 cfg a.toNat b.toNat := by
  unfold Rust.add X86.addU64
  cases cfg.ovf <;> simp only [Bool.and_true, Bool.and_false] <;> bridge

namespace Range

theorem pageIsEmpty_page (r : RefBV.Range) :
    RefBV.Range.pageIsEmpty r = X86.Range.isEmpty .page (toRange r) := by
  unfold RefBV.Range.pageIsEmpty X86.Range.isEmpty toRange
  rw [Bool.eq_iff_iff]; simp only [decide_eq_true_eq]; bvn

theorem pageIsEmpty_frame (r : RefBV.Range) :
    RefBV.Range.pageIsEmpty r = X86.Range.isEmpty .frame (toRange r) := pageIsEmpty_page r

theorem pageInclIsEmpty_pageIncl (r : RefBV.Range) :
    RefBV.Range.pageInclIsEmpty r = X86.Range.isEmpty .pageIncl (toRange r) := by
  unfold RefBV.Range.pageInclIsEmpty X86.Range.isEmpty toRange
  rw [Bool.eq_iff_iff]; simp only [decide_eq_true_eq]; bvn

theorem pageInclIsEmpty_frameIncl (r : RefBV.Range) :
    RefBV.Range.pageInclIsEmpty r = X86.Range.isEmpty .frameIncl (toRange r) := pageInclIsEmpty_pageIncl r

theorem pageLen_toNat (cfg : Cfg) (sz : BitVec 64) (r : RefBV.Range) :
    (RefBV.Range.pageLen sz r).map BitVec.toNat = X86.Range.len cfg .page sz.toNat (toRange r) := by
  unfold RefBV.Range.pageLen X86.Range.len
  rw [← pageIsEmpty_page]
  cases RefBV.Range.pageIsEmpty r
  · exact Page.subPage_toNat sz r.2 r.1
  · rfl

theorem frameLen_toNat (cfg : Cfg) (sz : BitVec 64) (r : RefBV.Range) :
    (RefBV.Range.frameLen sz r).map BitVec.toNat = X86.Range.len cfg .frame sz.toNat (toRange r) := by
  unfold RefBV.Range.frameLen X86.Range.len
  rw [← pageIsEmpty_frame]
  cases RefBV.Range.pageIsEmpty r
  · exact PhysFrame.subFrame_toNat sz r.2 r.1
  · rfl

theorem pageInclLen_toNat (cfg : Cfg) (sz : BitVec 64) (r : RefBV.Range) :
    (RefBV.Range.pageInclLen cfg sz r).map BitVec.toNat = X86.Range.len cfg .pageIncl sz.toNat (toRange r) := by
  unfold RefBV.Range.pageInclLen X86.Range.len
  rw [← pageInclIsEmpty_pageIncl]
  cases RefBV.Range.pageInclIsEmpty r
  · simp only [cond_false, Bool.false_eq_true, if_false]
    rw [R_bind_map_toNat (G := fun d => addU64 cfg d 1) (fun x => rustAdd_toNat cfg x 1#64), Page.subPage_toNat]
    rfl
  · rfl

theorem frameInclLen_toNat (cfg : Cfg) (sz : BitVec 64) (r : RefBV.Range) :
    (RefBV.Range.frameInclLen cfg sz r).map BitVec.toNat = X86.Range.len cfg .frameIncl sz.toNat (toRange r) := by
  unfold RefBV.Range.frameInclLen X86.Range.len
  rw [← pageInclIsEmpty_frameIncl]
  cases RefBV.Range.pageInclIsEmpty r
  · simp only [cond_false, Bool.false_eq_true, if_false]
    rw [R_bind_map_toNat (G := fun d => addU64 cfg d 1) (fun x => rustAdd_toNat cfg x 1#64), PhysFrame.subFrame_toNat]
    rfl
  · rfl

end Range

/-- For a power of two `al`, `alignDown` is `a - a % al` also as a bit-vector. -/
theorem alignDown_eq_sub_mod (a al : BitVec 64) (h : Rust.isPowerOfTwo al = true) :
    RefBV.alignDown a al = .ok (a - a % al) := by
  unfold RefBV.alignDown
  rw [h, cond_true]
  congr 1
  apply BitVec.eq_of_toNat_eq
  rw [sub_mod_toNat, (masks_toNat a al (by rw [← isPowerOfTwo_eq]; exact h)).1]

theorem isPageSize_isPowerOfTwo {sz : BitVec 64} (h : RefBV.IsPageSize sz) : Rust.isPowerOfTwo sz = true := by
  rcases h with rfl | rfl | rfl <;> rfl

namespace Range

theorem physTruncate_allOnes : RefBV.PhysAddr.newTruncate (BitVec.allOnes 64) = 0xfffffffffffff#64 := by
  unfold RefBV.PhysAddr.newTruncate; bv_decide

/-- `PhysAddr::new_truncate(u64::MAX).align_down(SIZE)` is `maxFrame`; `SIZE` must be a power of two, otherwise
`align_down` panics. -/
theorem maxFrame_eq (sz : BitVec 64) (h : Rust.isPowerOfTwo sz = true) :
    RefBV.PhysAddr.alignDown (RefBV.PhysAddr.newTruncate (BitVec.allOnes 64)) sz = .ok (RefBV.Range.maxFrame sz) := by
  rw [physTruncate_allOnes]
  exact alignDown_eq_sub_mod _ sz h

theorem maxFrame_toNat (sz : BitVec 64) :
    (RefBV.Range.maxFrame sz).toNat = X86.Range.maxFrame sz.toNat := by
  unfold RefBV.Range.maxFrame X86.Range.maxFrame
  rw [sub_mod_toNat]
  bvn

theorem pageNext_toNat (sz : BitVec 64) (r : RefBV.Range) :
    (RefBV.Range.pageNext sz r).map nextToNat = X86.Range.next .page sz.toNat (toRange r) := by
  unfold RefBV.Range.pageNext X86.Range.next toRange
  cases h : BitVec.ult r.1 r.2
  · simp only [cond_false]; rw [if_neg (by bvn)]; rfl
  · simp only [cond_true]; rw [if_pos (by bvn)]
    have := Page.add_toNat sz r.1 1#64
    rw [show (1#64).toNat = 1 from rfl] at this
    rw [← this]
    cases RefBV.Page.add sz r.1 1#64 <;> rfl

theorem frameNext_toNat (sz : BitVec 64) (r : RefBV.Range) :
    (RefBV.Range.frameNext sz r).map nextToNat = X86.Range.next .frame sz.toNat (toRange r) := by
  unfold RefBV.Range.frameNext X86.Range.next toRange
  cases h : BitVec.ult r.1 r.2
  · simp only [cond_false]; rw [if_neg (by bvn)]; rfl
  · simp only [cond_true]; rw [if_pos (by bvn)]
    have := PhysFrame.add_toNat sz r.1 1#64
    rw [show (1#64).toNat = 1 from rfl] at this
    rw [← this]
    cases RefBV.PhysFrame.add sz r.1 1#64 <;> rfl

theorem pageInclNext_toNat (sz : BitVec 64) (r : RefBV.Range) :
    (RefBV.Range.pageInclNext sz r).map nextToNat = X86.Range.next .pageIncl sz.toNat (toRange r) := by
  unfold RefBV.Range.pageInclNext X86.Range.next toRange
  cases h : BitVec.ule r.1 r.2
  · simp only [cond_false]; rw [if_neg (by bvn)]; rfl
  · simp only [cond_true]; rw [if_pos (by bvn)]
    rw [← VirtAddr.forwardCheckedU64_toNat]
    cases RefBV.VirtAddr.forwardCheckedU64 r.1 sz
    · have := Page.sub_toNat sz r.2 1#64
      rw [show (1#64).toNat = 1 from rfl] at this
      simp only [Rust.onOpt, Option.map_none]
      rw [← this]
      cases RefBV.Page.sub sz r.2 1#64 <;> rfl
    · simp only [Rust.onOpt, Option.map_some, R.map_ok, nextToNat, toRange, Page.containingAddress_toNat]


end Range

namespace Range

/-- `sz` must be a power of two (every page size is): otherwise the `align_down` computing the largest frame
panics in the bit-vector version, while the `Nat` model uses `maxFrame sz` directly. -/
theorem frameInclNext_toNat (sz : BitVec 64) (hsz : Rust.isPowerOfTwo sz = true) (r : RefBV.Range) :
    (RefBV.Range.frameInclNext sz r).map nextToNat = X86.Range.next .frameIncl sz.toNat (toRange r) := by
  unfold RefBV.Range.frameInclNext X86.Range.next toRange
  rw [maxFrame_eq sz hsz, ← maxFrame_toNat sz]
  generalize RefBV.Range.maxFrame sz = m
  rw [R.bind_ok]
  -- (case distinction first: `simp` with `cond_true` on a `bif` whose condition is not a literal can hang)
  cases h : BitVec.ule r.1 r.2
  · simp only [cond_false]; rw [if_neg (by bvn)]; rfl
  · cases h2 : BitVec.ult r.1 m
    · simp only [cond_true, cond_false]; rw [if_pos (by bvn), if_neg (by bvn)]
      have := PhysFrame.sub_toNat sz r.2 1#64
      rw [show (1#64).toNat = 1 from rfl] at this
      rw [← this]
      cases RefBV.PhysFrame.sub sz r.2 1#64 <;> rfl
    · simp only [cond_true]; rw [if_pos (by bvn), if_pos (by bvn)]
      have := PhysFrame.add_toNat sz r.1 1#64
      rw [show (1#64).toNat = 1 from rfl] at this
      rw [← this]
      cases RefBV.PhysFrame.add sz r.1 1#64 <;> rfl

/-- The same for the three page sizes. -/
theorem frameInclNext_toNat' (sz : BitVec 64) (hsz : RefBV.IsPageSize sz) (r : RefBV.Range) :
    (RefBV.Range.frameInclNext sz r).map nextToNat = X86.Range.next .frameIncl sz.toNat (toRange r) :=
  frameInclNext_toNat sz (isPageSize_isPowerOfTwo hsz) r

theorem as4KiB_toNat (r : RefBV.Range) :
    toRange (RefBV.Range.as4KiB r) = X86.Range.as4KiB (toRange r) := by
  unfold RefBV.Range.as4KiB X86.Range.as4KiB toRange
  simp only [Page.containingAddress_toNat]
  rfl

end Range

/-! ### the three page sizes -/

theorem toNat_size4K : (0x1000#64).toNat = X86.size4K := rfl
theorem toNat_size2M : (0x200000#64).toNat = X86.size2M := by unfold X86.size2M; bvn
theorem toNat_size1G : (0x40000000#64).toNat = X86.size1G := by unfold X86.size1G; bvn

theorem isPageSize_toNat {sz : BitVec 64} (h : RefBV.IsPageSize sz) :
    sz.toNat = X86.size4K ∨ sz.toNat = X86.size2M ∨ sz.toNat = X86.size1G := by
  rcases h with rfl | rfl | rfl
  · exact Or.inl toNat_size4K
  · exact Or.inr (Or.inl toNat_size2M)
  · exact Or.inr (Or.inr toNat_size1G)

end X86.RefBridge
