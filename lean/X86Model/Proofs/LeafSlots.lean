/-
Leaf slots of a page-table hierarchy — the non-zero entries that are not links to a lower table
(pages, mapped with or without `PRESENT`) — and how the mapper's memory writes change them:
single-word writes (`isLeafSlot_set`), the descent of `map_to` (`createPath_leafSame`: it creates,
removes and changes no leaf slot), the descents of the two mapper kinds (`descendK_eq_descend`), and
the hardware walk (`walk_some_leaf`: a successful walk ends in a present leaf slot on the address's path).
Used by `Properties/C01HistoryDormant.lean`.
-/
import X86Model.Proofs.Dormant

namespace X86
open X86.Spec

/-- Slot `j` of the table at path `q` holds the non-zero word `w`, and `w` is not a link to a lower
table (`q` has length 3 — a level-1 table —, or `w` is not a present non-huge entry). -/
def IsLeafSlot (m : PMem) (p4 : Word) (q : List Nat) (j : Nat) (w : Word) : Prop :=
  ∃ g, tblAt m p4 q = some g ∧ m g j = w ∧ w ≠ 0#64 ∧ (q.length = 3 ∨ tableOf w = none)

/-- Two memories have the same leaf slots (at real table indices). -/
def LeafSame (p4 : Word) (m m' : PMem) : Prop :=
  ∀ q j w, q.length ≤ 3 → IdxOK q → j < 512 → (IsLeafSlot m p4 q j w ↔ IsLeafSlot m' p4 q j w)

theorem LeafSame.refl (p4 : Word) (m : PMem) : LeafSame p4 m m := fun _ _ _ _ _ _ => Iff.rfl

theorem LeafSame.trans {p4 : Word} {m1 m2 m3 : PMem} (h1 : LeafSame p4 m1 m2) (h2 : LeafSame p4 m2 m3) :
    LeafSame p4 m1 m3 := fun q j w hq hqi hj => (h1 q j w hq hqi hj).trans (h2 q j w hq hqi hj)

theorem LeafSame.of_eq {p4 : Word} {m m' : PMem} (h : m' = m) : LeafSame p4 m m' := by
  subst h; exact LeafSame.refl _ _

theorem tableOf_zero : tableOf (0#64 : Word) = none := by decide

theorem ne_zero_of_bitP {e : Word} (h : bitP e = true) : e ≠ 0#64 := by
  intro h0; rw [h0] at h; simp [bitP] at h

/-- **Leaf slots after a single-word write** that keeps the tree: the written slot is a leaf slot iff the
new word is a non-zero non-link; every other slot is as before. -/
theorem isLeafSlot_set (m : PMem) (p4 : Word) (hwf : WF m p4) (p : List Nat) (f : Word) (i : Nat) (v : Word)
    (hp : tblAt m p4 p = some f) (hpl : p.length ≤ 3) (hpi : IdxOK p)
    (hv : p.length = 3 ∨ tableOf v = tableOf (m f i))
    (q : List Nat) (j : Nat) (w : Word) (hq : q.length ≤ 3) (hqi : IdxOK q) :
    IsLeafSlot (m.set f i v) p4 q j w ↔
      if q = p ∧ j = i then (w = v ∧ v ≠ 0#64 ∧ (p.length = 3 ∨ tableOf v = none))
      else IsLeafSlot m p4 q j w := by
  unfold IsLeafSlot
  rw [tblAt_set_eq_root m p4 hwf p f i v hp hpl hpi hv q hq hqi]
  by_cases hqj : q = p ∧ j = i
  · rw [if_pos hqj]
    obtain ⟨h1, h2⟩ := hqj
    subst h1; subst h2
    constructor
    · rintro ⟨g, hg, hw, hne, hl⟩
      rw [hp] at hg
      have : g = f := (Option.some.inj hg).symm
      subst this
      rw [PMem.set_same] at hw
      subst hw
      exact ⟨rfl, hne, hl⟩
    · rintro ⟨hw, hne, hl⟩
      subst hw
      exact ⟨f, hp, PMem.set_same _ _ _ _, hne, hl⟩
  · rw [if_neg hqj]
    have hoff : ∀ g, tblAt m p4 q = some g → (m.set f i v) g j = m g j := by
      intro g hg
      apply PMem.set_other
      rintro ⟨hgf, hji⟩
      apply hqj
      exact ⟨hwf q p f hq hpl hqi hpi (hgf ▸ hg) hp, hji⟩
    constructor
    · rintro ⟨g, hg, hw, rest⟩
      exact ⟨g, hg, by rw [← hoff g hg]; exact hw, rest⟩
    · rintro ⟨g, hg, hw, rest⟩
      exact ⟨g, hg, by rw [hoff g hg]; exact hw, rest⟩

/-- Rewriting a table link into another link to the same table changes no leaf slot. -/
theorem leafSame_set_link (m : PMem) (p4 : Word) (hwf : WF m p4) (p : List Nat) (f : Word) (i : Nat) (v t' : Word)
    (hp : tblAt m p4 p = some f) (hpl : p.length ≤ 2) (hpi : IdxOK p)
    (h1 : tableOf (m f i) = some t') (h2 : tableOf v = some t') : LeafSame p4 m (m.set f i v) := by
  intro q j w hq hqi _
  rw [isLeafSlot_set m p4 hwf p f i v hp (by omega) hpi (Or.inr (by rw [h1, h2])) q j w hq hqi]
  by_cases hqj : q = p ∧ j = i
  · rw [if_pos hqj]
    obtain ⟨e1, e2⟩ := hqj
    subst e1; subst e2
    constructor
    · rintro ⟨g, hg, hw, _, hl⟩
      rw [hp] at hg
      have : g = f := (Option.some.inj hg).symm
      subst this
      rw [← hw, h1] at hl
      rcases hl with hl | hl
      · omega
      · cases hl
    · rintro ⟨_, _, hl⟩
      rw [h2] at hl
      rcases hl with hl | hl
      · omega
      · cases hl
  · rw [if_neg hqj]

section Link
variable (m : PMem) (p4 : Word) (hinv : Inv m p4) (r : List Nat) (tbl : Word) (i : Nat) (f fl : Word)
  (hr : tblAt m p4 r = some tbl) (hrl : r.length ≤ 2) (hri : IdxOK r) (hi : i < 512)
  (hzero : m tbl i = 0#64) (hfresh : FreshAt m p4 f) (hfl : LinkFlags fl)

include hinv hr hrl hri hi hzero hfresh hfl in
/-- Linking a fresh zeroed table creates, removes and changes no leaf slot. -/
theorem leafSame_linked : LeafSame p4 m (linked m tbl i f fl) := by
  have htf : tbl ≠ f := fun h => hfresh.notTable r (by omega) hri (h ▸ hr)
  obtain ⟨b1, b2, b3, _, _⟩ := link_bits f fl hfresh.fits hfl
  have hlink : tableOf (Pte.mk f fl) = some f := (tableOf_some_iff _ _).2 ⟨b1, b2, b3.symm⟩
  have T := tblAt_linked m p4 hinv r tbl i f fl hr hrl hri hi hzero hfresh hfl
  have hnone : tblAt m p4 (r ++ [i]) = none := by
    rw [tblAt_append, hr]; simp [tblAt, hzero, tableOf_zero]
  intro q j w hq hqi hj
  unfold IsLeafSlot
  rw [T q hq hqi]
  by_cases eq : q = r ++ [i]
  · rw [if_pos eq]
    constructor
    · rintro ⟨g, hg, _⟩
      rw [eq, hnone] at hg; cases hg
    · rintro ⟨g, hg, hw, hne, _⟩
      have : g = f := (Option.some.inj hg).symm
      subst this
      rw [linked_at_new m tbl i g fl j hj] at hw
      exact absurd hw.symm hne
  · rw [if_neg eq]
    by_cases hpre : r ++ [i] <+: q
    · rw [if_pos hpre]
      constructor
      · rintro ⟨g, hg, _⟩
        obtain ⟨q', hq'⟩ := hpre
        rw [← hq', tblAt_append, hnone] at hg
        cases hg
      · rintro ⟨g, hg, _⟩; cases hg
    · rw [if_neg hpre]
      have hoff : ∀ g, tblAt m p4 q = some g → ¬ (g = tbl ∧ j = i) → linked m tbl i f fl g j = m g j := by
        intro g hg hne
        exact linked_other m tbl i f fl g j (fun h => hfresh.notTable q hq hqi (h ▸ hg)) hne
      constructor
      · rintro ⟨g, hg, hw, hne, hl⟩
        by_cases hgj : g = tbl ∧ j = i
        · obtain ⟨e1, e2⟩ := hgj
          subst e1; subst e2
          rw [hzero] at hw
          exact absurd hw.symm hne
        · exact ⟨g, hg, by rw [hoff g hg hgj]; exact hw, hne, hl⟩
      · rintro ⟨g, hg, hw, hne, hl⟩
        by_cases hgj : g = tbl ∧ j = i
        · obtain ⟨e1, e2⟩ := hgj
          subst e1; subst e2
          have hqr : q = r := hinv.wf q r g hq (by omega) hqi hri hg hr
          rw [linked_at_slot m g j f fl htf] at hw
          rw [← hw, hlink, hqr] at hl
          rcases hl with hl | hl
          · omega
          · cases hl
        · exact ⟨g, hg, by rw [← hoff g hg hgj]; exact hw, hne, hl⟩

end Link

/-- **`create_next_table`** creates, removes and changes no leaf slot (whatever its result). -/
theorem createNextTable_leafSame (k : Kind) (s : St) (p4 : Word) (r : List Nat) (tbl : Word) (i : Nat) (pflags : Word)
    (hinv : Inv s.mem p4) (hr : tblAt s.mem p4 r = some tbl) (hrl : r.length ≤ 2) (hri : IdxOK r)
    (hi : i < 512) (hpf : ParentFlagsOK pflags) (hal : AllocsOK s.mem p4 s.allocs) :
    LeafSame p4 s.mem (createNextTable k s tbl i pflags).2.mem := by
  unfold createNextTable
  simp only [St.rd_fst]
  by_cases hu : Pte.isUnused (s.mem tbl i) = true
  · have hzero : s.mem tbl i = 0#64 := by simpa [Pte.isUnused] using hu
    simp only [hu, if_true]
    cases hall : s.allocs with
    | nil =>
      simp only [St.alloc, St.rd, hall]
      exact LeafSame.refl _ _
    | cons a rest =>
      cases a with
      | none =>
        simp only [St.alloc, St.rd, hall]
        exact LeafSame.refl _ _
      | some f =>
        rw [hall] at hal
        obtain ⟨hfresh, hdist, hrest⟩ := hal
        have hlf := linkFl_ok k pflags hpf
        obtain ⟨b1, b2, b3, b4, b5⟩ := link_bits f (linkFl k pflags) hfresh.fits hlf
        have hnt : nextTable (Pte.mk f (linkFl k pflags)) = .ok f := by
          rw [nextTable_ok_iff]; exact (tableOf_some_iff _ _).2 ⟨b1, b2, b3.symm⟩
        simp only [St.alloc, St.rd, hall]
        have hfl : (if k.recursive = true then Pte.PRESENT ||| Pte.WRITABLE ||| pflags else Pte.PRESENT ||| pflags) = linkFl k pflags := rfl
        simp only [hfl, b4, Bool.not_true, Bool.false_eq_true, if_false, hnt]
        have hmem : ∀ (s0 : St), s0.mem = s.mem →
            ((St.wr s0 tbl i (Pte.mk f (linkFl k pflags))).zeroTable f).mem = linked s.mem tbl i f (linkFl k pflags) := by
          intro s0 h0; rw [St.zeroTable_mem, St.wr_mem, h0]; rfl
        rw [hmem ⟨s.mem, rest, _⟩ rfl]
        exact leafSame_linked s.mem p4 hinv r tbl i f _ hr hrl hri hi hzero hfresh hlf
  · have hu' : Pte.isUnused (s.mem tbl i) = false := by simpa using hu
    have hne : s.mem tbl i ≠ 0#64 := by
      intro h0; rw [h0] at hu'; simp [Pte.isUnused] at hu'
    simp only [hu', Bool.false_eq_true, if_false]
    by_cases hh : Pte.huge (s.mem tbl i) = true
    · simp only [hh, if_true]
      exact LeafSame.refl _ _
    · have hS : Pte.huge (s.mem tbl i) = false := by simpa using hh
      have hP : Pte.present (s.mem tbl i) = true := hinv.present_of_not_huge r tbl i hrl hri hr hi hne hS
      simp only [hS, Bool.false_eq_true, if_false]
      have hnt0 : nextTable (s.mem tbl i) = .ok (Pte.addr (s.mem tbl i)) := by
        unfold nextTable; simp [hS, hP]
      by_cases hc : (pflags != 0#64 && !Pte.contains (s.mem tbl i) pflags) = true
      · simp only [hc, if_true]
        obtain ⟨b1, b2, b3⟩ := or_flags_bits (s.mem tbl i) pflags hP hS hpf
        have hnt : nextTable (Pte.setFlags (s.mem tbl i) (Pte.flags (s.mem tbl i) ||| pflags)) =
            .ok (Pte.addr (s.mem tbl i)) := by
          rw [nextTable_ok_iff]; exact (tableOf_some_iff _ _).2 ⟨b1, b2, by rw [b3]; rfl⟩
        simp only [hnt]
        simp only [St.wr_mem, St.rd_mem]
        exact leafSame_set_link s.mem p4 hinv.wf r tbl i _ (tableAddr (s.mem tbl i)) hr hrl hri
          ((tableOf_some_iff _ _).2 ⟨hP, hS, rfl⟩) ((tableOf_some_iff _ _).2 ⟨b1, b2, b3.symm⟩)
      · simp only [hc, Bool.false_eq_true, if_false, hnt0]
        exact LeafSame.refl _ _

/-- **The descent of `map_to`** (creating the missing tables, adding parent flags) creates, removes and
changes no leaf slot, whatever its result. -/
theorem createPath_leafSame (k : Kind) (pflags : Word) (p4 : Word) (hpf : ParentFlagsOK pflags) :
    ∀ (parents r : List Nat) (tbl : Word) (s : St),
      Inv s.mem p4 → tblAt s.mem p4 r = some tbl → r.length + parents.length ≤ 3 → IdxOK (r ++ parents) →
      AllocsOK s.mem p4 s.allocs →
      LeafSame p4 s.mem (createPath k pflags s tbl parents).2.mem := by
  intro parents
  induction parents with
  | nil =>
    intro r tbl s _ _ _ _ _
    simp only [createPath]
    exact LeafSame.refl _ _
  | cons i parents ih =>
    intro r tbl s hinv hr hlen hidx hal
    have hrl : r.length ≤ 2 := by simp at hlen; omega
    have hri : IdxOK r := (IdxOK_append.1 hidx).1
    have hi : i < 512 := (IdxOK_append.1 hidx).2 i (by simp)
    have hstep := createNextTable_ok k s p4 r tbl i pflags hinv hr hrl hri hi hpf hal
    have hls := createNextTable_leafSame k s p4 r tbl i pflags hinv hr hrl hri hi hpf hal
    simp only [createPath]
    cases hc : createNextTable k s tbl i pflags with
    | mk res s1 =>
      rw [hc] at hstep hls
      cases res with
      | panic => exact hls
      | ok res' =>
        cases res' with
        | error e => exact hls
        | ok t1 =>
          obtain ⟨hs1, ht1⟩ := hstep
          simp only
          exact hls.trans (ih (r ++ [i]) t1 s1 hs1.inv ht1 (by simp at hlen ⊢; omega) (by simpa using hidx) hs1.allocs)

/-! ### The two descents agree on a hierarchy satisfying the invariant -/

theorem nextTableU_eq_nextTable (e : Word) (h : e ≠ 0#64 → Pte.huge e = false → Pte.present e = true) :
    nextTableU e = nextTable e := by
  unfold nextTableU nextTable
  by_cases h0 : e = 0#64
  · subst h0
    have hu : Pte.isUnused (0#64 : Word) = true := by decide
    have hh : Pte.huge (0#64 : Word) = false := by decide
    have hp : Pte.present (0#64 : Word) = false := by decide
    simp [hu, hh, hp]
  · have hu : Pte.isUnused e = false := by simp [Pte.isUnused, h0]
    cases hh : Pte.huge e with
    | true => simp [hu]
    | false => simp [hu, h h0 hh]

/-- The recursive mapper's descent (`is_unused`, then `HUGE_PAGE`; no `PRESENT` test) does exactly what
the other mappers' descent does, when every non-zero entry is present or a leaf entry. -/
theorem descendU_eq_descend (p4 : Word) : ∀ (path r : List Nat) (tbl : Word) (s : St),
    LeafOrPresent s.mem p4 → tblAt s.mem p4 r = some tbl → r.length + path.length ≤ 3 → IdxOK (r ++ path) →
    descendU s tbl path = descend s tbl path := by
  intro path
  induction path with
  | nil => intros; rfl
  | cons i rest ih =>
    intro r tbl s hap hr hlen hidx
    have hrl : r.length ≤ 2 := by simp at hlen; omega
    have hri : IdxOK r := (IdxOK_append.1 hidx).1
    have hi : i < 512 := (IdxOK_append.1 hidx).2 i (by simp)
    have hnt : nextTableU (s.mem tbl i) = nextTable (s.mem tbl i) := by
      apply nextTableU_eq_nextTable
      intro hne hh
      rcases hap r tbl i (by omega) hri hr hi hne with h | h | ⟨_, h⟩
      · exact h
      · omega
      · rw [hh] at h; cases h
    simp only [descendU, descend, St.rd_fst, hnt]
    cases hn : nextTable (s.mem tbl i) with
    | error e => rfl
    | ok t =>
      have ht : tblAt s.mem p4 (r ++ [i]) = some t := by
        rw [tblAt_append, hr]; simp [tblAt, (nextTable_ok_iff _ _).1 hn]
      exact ih (r ++ [i]) t (s.rd tbl i).2 hap (by simpa using ht) (by simp at hlen ⊢; omega) (by simpa using hidx)

theorem descendK_eq_descend (k : Kind) (p4 : Word) (path : List Nat) (s : St) (hinv : Inv s.mem p4)
    (hlen : path.length ≤ 3) (hidx : IdxOK path) : descendK k s p4 path = descend s p4 path := by
  unfold descendK
  by_cases hk : k.recursive = true
  · simp only [hk, if_true]
    exact descendU_eq_descend p4 path [] p4 s hinv.pres rfl (by simpa using hlen) (by simpa using hidx)
  · simp only [hk]; rfl

/-- `update_flags` of every mapper kind behaves like the `MappedPageTable` one (invariant assumed). -/
theorem updateFlags_kind (k : Kind) (s : St) (p4 : Word) (parents : List Nat) (li : Nat) (huge : Bool) (flags : Word)
    (hinv : Inv s.mem p4) (hlen : parents.length ≤ 3) (hidx : IdxOK parents) :
    updateFlags k s p4 parents li huge flags = updateFlags ⟨false⟩ s p4 parents li huge flags := by
  unfold updateFlags
  rw [descendK_eq_descend k p4 parents s hinv hlen hidx, descendK_eq_descend ⟨false⟩ p4 parents s hinv hlen hidx]

/-- `set_flags_pN_entry` of every mapper kind behaves like the `MappedPageTable` one (invariant assumed). -/
theorem setParentFlags_kind (k : Kind) (s : St) (p4 : Word) (parents : List Nat) (idx : Nat) (flags : Word)
    (hinv : Inv s.mem p4) (hlen : parents.length ≤ 3) (hidx : IdxOK parents) :
    setParentFlags k s p4 parents idx flags = setParentFlags ⟨false⟩ s p4 parents idx flags := by
  unfold setParentFlags
  rw [descendK_eq_descend k p4 parents s hinv hlen hidx, descendK_eq_descend ⟨false⟩ p4 parents s hinv hlen hidx]

/-! ### A successful hardware walk ends in a present leaf slot -/

theorem walkFrom_some_leaf (m : PMem) (p4 : Word) (va : Nat) (x : Xlat) :
    ∀ (lvl : Nat) (t : Word) (r : List Nat) (rw us : Bool),
      tblAt m p4 r = some t → r.length + lvl = 4 → r ++ vaPathFrom lvl va = vaPath va →
      walkFrom m lvl t va rw us = some x →
      ∃ q j g, q ++ [j] <+: vaPath va ∧ q.length ≤ 3 ∧ tblAt m p4 q = some g ∧ bitP (m g j) = true ∧
        (q.length = 3 ∨ bitPS (m g j) = true) := by
  intro lvl
  induction lvl with
  | zero => intro t r rw us _ _ _ h; simp [walkFrom] at h
  | succ lvl ih =>
    intro t r rw us hr hlen hpath h
    rw [walkFrom_succ] at h
    have hpre : r ++ [vaIdx (lvl + 1) va] <+: vaPath va :=
      ⟨vaPathFrom lvl va, by rw [← hpath]; simp [vaPathFrom]⟩
    generalize he : m t (vaIdx (lvl + 1) va) = e at h
    unfold entryStep at h
    by_cases hP : bitP e = true
    · have here : ∀ (_ : r.length = 3 ∨ bitPS e = true),
          ∃ q j g, q ++ [j] <+: vaPath va ∧ q.length ≤ 3 ∧ tblAt m p4 q = some g ∧ bitP (m g j) = true ∧
            (q.length = 3 ∨ bitPS (m g j) = true) :=
        fun hl => ⟨r, vaIdx (lvl + 1) va, t, hpre, by omega, hr, by rw [he]; exact hP, by rw [he]; exact hl⟩
      have below : bitPS e = false → ∀ rw' us', walkFrom m lvl (tableAddr e) va rw' us' = some x →
          ∃ q j g, q ++ [j] <+: vaPath va ∧ q.length ≤ 3 ∧ tblAt m p4 q = some g ∧ bitP (m g j) = true ∧
            (q.length = 3 ∨ bitPS (m g j) = true) := by
        intro hS rw' us' hw
        have hto : tableOf e = some (tableAddr e) := (tableOf_some_iff e _).2 ⟨hP, hS, rfl⟩
        have hr' : tblAt m p4 (r ++ [vaIdx (lvl + 1) va]) = some (tableAddr e) := by
          rw [tblAt_append, hr]; simp [tblAt, he, hto]
        exact ih (tableAddr e) (r ++ [vaIdx (lvl + 1) va]) rw' us' hr' (by simp; omega)
          (by rw [← hpath]; simp [vaPathFrom]) hw
      by_cases h4 : lvl + 1 = 4
      · have : lvl = 3 := by omega
        subst this
        by_cases hS : bitPS e = true
        · simp [hP, hS] at h
        · have hS' : bitPS e = false := by simpa using hS
          simp only [hP, hS', Bool.not_true, Bool.false_eq_true, if_false, if_true] at h
          exact below hS' _ _ h
      · by_cases h1 : lvl + 1 = 1
        · exact here (Or.inl (by omega))
        · by_cases hS : bitPS e = true
          · exact here (Or.inr hS)
          · have hS' : bitPS e = false := by simpa using hS
            simp only [hP, hS', h4, h1, Bool.not_true, Bool.false_eq_true, if_false, Nat.add_sub_cancel] at h
            exact below hS' _ _ h
    · have hP' : bitP e = false := by simpa using hP
      simp [hP'] at h

/-- **A successful hardware walk ends in a present leaf slot on the address's path**: an entry of a level-1
table, or a level-3/level-2 entry with the PS bit. -/
theorem walk_some_leaf (m : PMem) (p4 : Word) (va : Nat) (x : Xlat) (h : walk m p4 va = some x) :
    ∃ q j g, q ++ [j] <+: vaPath va ∧ q.length ≤ 3 ∧ tblAt m p4 q = some g ∧ bitP (m g j) = true ∧
      (q.length = 3 ∨ bitPS (m g j) = true) := by
  rw [walk_eq_walkFrom] at h
  exact walkFrom_some_leaf m p4 va x 4 p4 [] true true rfl rfl rfl h

end X86
