/-
Memory-level characterisation of the non-allocating mapper operations, and bit-level facts about
the entries they write.
-/
import X86Model.Proofs.MapperInv

namespace X86
open X86.Spec

/-! ### alignment of huge-frame addresses -/

theorem alignedTo_pow (a : Word) (k : Nat) (hk : k ≤ 64) (h : alignedTo a (2^k) = true) :
    a.toNat % 2^k = 0 := by
  unfold alignedTo at h; simpa using h

theorem alignedTo_2M (a : Word) (h : alignedTo a (2^21) = true) : a &&& 0x1fffff#64 = 0#64 := by
  have h' := alignedTo_pow a 21 (by omega) h
  apply BitVec.eq_of_toNat_eq
  rw [BitVec.toNat_and]
  have : (0x1fffff#64 : BitVec 64).toNat = 2^21 - 1 := by decide
  rw [this, Nat.and_two_pow_sub_one_eq_mod, h']; rfl

theorem alignedTo_1G (a : Word) (h : alignedTo a (2^30) = true) : a &&& 0x3fffffff#64 = 0#64 := by
  have h' := alignedTo_pow a 30 (by omega) h
  apply BitVec.eq_of_toNat_eq
  rw [BitVec.toNat_and]
  have : (0x3fffffff#64 : BitVec 64).toNat = 2^30 - 1 := by decide
  rw [this, Nat.and_two_pow_sub_one_eq_mod, h']; rfl

theorem addr2M_of_aligned (e : Word) (h : alignedTo (Pte.hugeAddr e) (2^21) = true) :
    addr2M e = Pte.hugeAddr e := by
  have := alignedTo_2M _ h
  unfold Pte.hugeAddr at *
  unfold addr2M
  bv_decide

theorem addr1G_of_aligned (e : Word) (h : alignedTo (Pte.hugeAddr e) (2^30) = true) :
    addr1G e = Pte.hugeAddr e := by
  have := alignedTo_1G _ h
  unfold Pte.hugeAddr at *
  unfold addr1G
  bv_decide

/-- The three page shapes: parent-index count, `huge` flag, size, and the level of the leaf slot. -/
inductive PageShape : List Nat → Bool → Nat → Prop where
  | s4k (a b c : Nat) : PageShape [a, b, c] false 4096
  | s2m (a b : Nat) : PageShape [a, b] true (2^21)
  | s1g (a : Nat) : PageShape [a] true (2^30)

theorem PageShape.len_le {p : List Nat} {h : Bool} {sz : Nat} (s : PageShape p h sz) :
    1 ≤ p.length ∧ p.length ≤ 3 := by
  cases s <;> simp

/-! ### `unmap` -/

/-- `unmap` at memory level: an error changes nothing; success zeroes exactly the page's slot. -/
theorem unmap_mem (s : St) (p4 : Word) (parents : List Nat) (li : Nat) (huge : Bool) (sz : Nat) :
    match (unmap s p4 parents li huge sz).1 with
    | .error _ => (unmap s p4 parents li huge sz).2.mem = s.mem
    | .ok fr => ∃ t, tblAt s.mem p4 parents = some t ∧
        Pte.present (s.mem t li) = true ∧
        (huge = true → Pte.huge (s.mem t li) = true ∧ alignedTo (Pte.hugeAddr (s.mem t li)) sz = true) ∧
        fr = (if huge then Pte.hugeAddr (s.mem t li) else Pte.addr (s.mem t li)) ∧
        (unmap s p4 parents li huge sz).2.mem = s.mem.set t li 0#64 := by
  unfold unmap
  cases hd : descend s p4 parents with
  | mk res s1 =>
    have hm : s1.mem = s.mem := by have := descend_mem s p4 parents; rw [hd] at this; exact this
    cases res with
    | error e => simp [hm]
    | ok t =>
      have ht : tblAt s.mem p4 parents = some t := by
        have := (descend_ok_iff s p4 parents t).1 (by rw [hd])
        exact this
      simp only [St.rd_fst, hm]
      by_cases hp : Pte.present (s.mem t li) = true
      · simp only [hp, Bool.not_true, Bool.false_eq_true, if_false]
        by_cases hh : huge = true
        · subst hh
          by_cases hhe : Pte.huge (s.mem t li) = true
          · simp only [hhe, Bool.not_true, Bool.and_false, Bool.false_eq_true, if_false, Bool.true_and]
            by_cases hal : alignedTo (Pte.hugeAddr (s.mem t li)) sz = true
            · simp only [hal, Bool.not_true, Bool.false_eq_true, if_false, if_true]
              exact ⟨t, ht, hp, fun _ => ⟨hhe, hal⟩, rfl, by simp [hm]⟩
            · simp [hal, hm]
          · simp [hhe, hm]
        · have hh' : huge = false := by simpa using hh
          subst hh'
          simp only [Bool.false_and, Bool.false_eq_true, if_false]
          exact ⟨t, ht, hp, (fun h => by cases h), rfl, by simp [hm]⟩
      · simp [hp, hm]

/-! ### `update_flags` (non-recursive mapper kinds) -/

theorem updateFlags_mem (s : St) (p4 : Word) (parents : List Nat) (li : Nat) (huge : Bool) (flags : Word) :
    match (updateFlags ⟨false⟩ s p4 parents li huge flags).1 with
    | .error _ => (updateFlags ⟨false⟩ s p4 parents li huge flags).2.mem = s.mem
    | .ok () => ∃ t, tblAt s.mem p4 parents = some t ∧
        Pte.isUnused (s.mem t li) = false ∧
        (huge = true → Pte.huge (s.mem t li) = true) ∧
        (updateFlags ⟨false⟩ s p4 parents li huge flags).2.mem =
          s.mem.set t li (if huge then Pte.mk (Pte.hugeAddr (s.mem t li)) (flags ||| Pte.HUGE)
                          else Pte.setFlags (s.mem t li) flags) := by
  unfold updateFlags descendK
  simp only [Bool.false_eq_true, if_false]
  cases hd : descend s p4 parents with
  | mk res s1 =>
    have hm : s1.mem = s.mem := by have := descend_mem s p4 parents; rw [hd] at this; exact this
    cases res with
    | error e => simp [hm]
    | ok t =>
      have ht : tblAt s.mem p4 parents = some t := (descend_ok_iff s p4 parents t).1 (by rw [hd])
      simp only [St.rd_fst, hm]
      by_cases hu : Pte.isUnused (s.mem t li) = true
      · simp [hu, hm]
      · have hu' : Pte.isUnused (s.mem t li) = false := by simpa using hu
        simp only [hu', Bool.false_eq_true, if_false]
        by_cases hh : huge = true
        · subst hh
          by_cases hhe : Pte.huge (s.mem t li) = true
          · simp only [hhe, Bool.not_true, Bool.and_false, Bool.false_eq_true, if_false, if_true]
            exact ⟨t, ht, hu', (fun _ => hhe), by simp [hm]⟩
          · simp [hhe, hm]
        · have hh' : huge = false := by simpa using hh
          subst hh'
          simp only [Bool.false_and, Bool.false_eq_true, if_false]
          exact ⟨t, ht, hu', (fun h => by cases h), by simp [hm]⟩

/-! ### `set_flags_pN_entry` (non-recursive mapper kinds) -/

theorem setParentFlags_mem (s : St) (p4 : Word) (parents : List Nat) (idx : Nat) (flags : Word) :
    match (setParentFlags ⟨false⟩ s p4 parents idx flags).1 with
    | .error _ => (setParentFlags ⟨false⟩ s p4 parents idx flags).2.mem = s.mem
    | .ok () => ∃ t, tblAt s.mem p4 parents = some t ∧
        Pte.isUnused (s.mem t idx) = false ∧
        (parents ≠ [] → Pte.huge (s.mem t idx) = false) ∧
        (setParentFlags ⟨false⟩ s p4 parents idx flags).2.mem =
          s.mem.set t idx (Pte.setFlags (s.mem t idx) flags) := by
  unfold setParentFlags descendK
  simp only [Bool.false_eq_true, if_false]
  cases hd : descend s p4 parents with
  | mk res s1 =>
    have hm : s1.mem = s.mem := by have := descend_mem s p4 parents; rw [hd] at this; exact this
    cases res with
    | error e => simp [hm]
    | ok t =>
      have ht : tblAt s.mem p4 parents = some t := (descend_ok_iff s p4 parents t).1 (by rw [hd])
      simp only [St.rd_fst, hm]
      by_cases hu : Pte.isUnused (s.mem t idx) = true
      · simp [hu, hm]
      · have hu' : Pte.isUnused (s.mem t idx) = false := by simpa using hu
        simp only [hu', Bool.false_eq_true, if_false]
        by_cases hh : (!parents.isEmpty && Pte.huge (s.mem t idx)) = true
        · simp [hh, hm]
        · simp only [hh, Bool.false_eq_true, if_false]
          refine ⟨t, ht, hu', ?_, by simp [hm]⟩
          intro hne
          cases hpe : parents with
          | nil => exact absurd hpe hne
          | cons a l =>
            rw [hpe] at hh
            simpa using hh

/-! ### `translate_page` never writes -/

theorem translatePage_mem (k : Kind) (s : St) (p4 : Word) (parents : List Nat) (li : Nat) (huge : Bool) (sz : Nat) :
    (translatePage k s p4 parents li huge sz).2.mem = s.mem := by
  have hdU : ∀ (s : St) (t : Word) (path : List Nat), (descendU s t path).2.mem = s.mem := by
    intro s t path
    induction path generalizing s t with
    | nil => rfl
    | cons i rest ih =>
      simp only [descendU]
      cases h : nextTableU ((s.rd t i).1) with
      | error e => rfl
      | ok t' => exact (ih _ t').trans rfl
  have hite : ∀ (c : Prop) [Decidable c] (a b : Except OpErr Word × St),
      (if c then a else b).2.mem = if c then a.2.mem else b.2.mem := by
    intro c _ a b; split <;> rfl
  unfold translatePage descendK
  cases hk : k.recursive
  · simp only [Bool.false_eq_true, if_false]
    cases hd : descend s p4 parents with
    | mk res s1 =>
      have hm : s1.mem = s.mem := by have := descend_mem s p4 parents; rw [hd] at this; exact this
      cases res with
      | error e => exact hm
      | ok t => simp only [St.rd_fst, hite, St.rd_mem, hm, ite_self]
  · simp only [if_true]
    cases hd : descendU s p4 parents with
    | mk res s1 =>
      have hm : s1.mem = s.mem := by have := hdU s p4 parents; rw [hd] at this; exact this
      cases res with
      | error e => exact hm
      | ok t => simp only [St.rd_fst, hite, St.rd_mem, hm, ite_self]

end X86
