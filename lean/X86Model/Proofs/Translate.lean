/-
Helper lemmas for C01 (translation functions of the mapper model vs. the hardware walk):
bit-level facts relating the `Pte` accessors of the model to the entry format of `Spec/Walk.lean`,
the two `next_table` variants as one function of the architectural bits, and the shape of the
ghost log of read-only descents.

The ghost log `St.log` is kept newest-first (`St.events = log.reverse` is the chronological order).
All log clauses here have the form `{ s with log := l.reverse ++ s.log }` with `l` the appended
events in chronological order; `St.events_append` turns that into `events = s.events ++ l`.

Note for `bv_decide`: state bit-level lemmas over `BitVec 64`, not over the abbreviation `Word`
(the reflection does not see through the abbreviation in instance arguments).
-/
import X86Model.Model.Mapper
import X86Model.Spec.Walk
import Std.Tactic.BVDecide

namespace X86
open X86.Spec

/-! ### The model's accessors are the architectural fields -/

theorem present_eq_bitP (e : Word) : Pte.present e = bitP e := rfl
theorem huge_eq_bitPS (e : Word) : Pte.huge e = bitPS e := rfl
theorem addr_eq_tableAddr (e : Word) : Pte.addr e = tableAddr e := rfl
theorem flags_eq_leafFlagsHuge (e : Word) : Pte.flags e = leafFlagsHuge e := rfl

theorem flags_and_dom4K (e : BitVec 64) :
    Pte.flags e &&& 0xfff0000000000fff#64 = leafFlags4K e := by
  unfold Pte.flags Pte.FLAGS_ALL leafFlags4K; bv_decide

theorem flags_and_domHuge (e : BitVec 64) :
    Pte.flags e &&& 0xfff0000000001fff#64 = leafFlagsHuge e := by
  unfold Pte.flags Pte.FLAGS_ALL leafFlagsHuge; bv_decide

/-- `flags()` of a 4 KiB leaf reports bit 12 of the frame address (as `PAT_HUGE_PAGE`). -/
theorem flags_bit12 (e : BitVec 64) : (Pte.flags e).getLsbD 12 = (tableAddr e).getLsbD 12 := by
  unfold Pte.flags Pte.FLAGS_ALL tableAddr
  simp only [BitVec.getLsbD_and]
  rw [show (0xfff0000000001fff#64).getLsbD 12 = true by decide,
    show (0x000ffffffffff000#64).getLsbD 12 = true by decide]

theorem bitP_zero : bitP 0#64 = false := by decide
theorem bitPS_zero : bitPS 0#64 = false := by decide

theorem ne_zero_of_bitP {e : Word} (h : bitP e = true) : e ≠ 0#64 := by
  intro h0; rw [h0, bitP_zero] at h; cases h

theorem ne_zero_of_bitPS {e : Word} (h : bitPS e = true) : e ≠ 0#64 := by
  intro h0; rw [h0, bitPS_zero] at h; cases h

theorem isUnused_eq_true_iff (e : Word) : Pte.isUnused e = true ↔ e = 0#64 := by
  unfold Pte.isUnused; exact beq_iff_eq

theorem isUnused_eq_false_iff (e : Word) : Pte.isUnused e = false ↔ e ≠ 0#64 := by
  unfold Pte.isUnused; exact beq_eq_false_iff_ne

/-! ### `PhysFrame::containing_address` of a huge entry is the architectural address field -/

theorem alignDown_shift (a : BitVec 64) (n : Nat) :
    BitVec.ofNat 64 (a.toNat - a.toNat % 2^n) = (a >>> n) <<< n := by
  apply BitVec.eq_of_toNat_eq
  rw [BitVec.toNat_shiftLeft, BitVec.toNat_ushiftRight, BitVec.toNat_ofNat, Nat.shiftLeft_eq,
    Nat.shiftRight_eq_div_pow]
  have := Nat.div_add_mod a.toNat (2^n)
  have h2 : a.toNat / 2^n * 2^n = a.toNat - a.toNat % 2^n := by
    rw [Nat.mul_comm]; omega
  rw [h2]

theorem alignDown_1G (e : BitVec 64) : alignDownW (Pte.addr e) (2^30) = addr1G e := by
  unfold alignDownW
  rw [alignDown_shift]
  unfold Pte.addr Pte.ADDR_MASK addr1G
  bv_decide

theorem alignDown_2M (e : BitVec 64) : alignDownW (Pte.addr e) (2^21) = addr2M e := by
  unfold alignDownW
  rw [alignDown_shift]
  unfold Pte.addr Pte.ADDR_MASK addr2M
  bv_decide

theorem ofNat_toNat64 (a : BitVec 64) : BitVec.ofNat 64 a.toNat = a := by
  rw [BitVec.ofNat_toNat, BitVec.setWidth_eq]

/-! ### Ranges and alignment of the three address fields (from the masks) -/

theorem toNat_mod_two_pow (a : BitVec 64) (n : Nat) (hn : n ≤ 64) :
    a.toNat % 2^n = (a &&& BitVec.ofNat 64 (2^n - 1)).toNat := by
  have h1 : 2^n ≤ 2^64 := Nat.pow_le_pow_right (by omega) hn
  have h0 : 0 < 2^n := Nat.pow_pos (by omega)
  have h2 : (2^n - 1) % 2^64 = 2^n - 1 := Nat.mod_eq_of_lt (by omega)
  rw [BitVec.toNat_and, BitVec.toNat_ofNat, h2, Nat.and_two_pow_sub_one_eq_mod]

theorem tableAddr_bound (e : BitVec 64) : (tableAddr e).toNat + 4096 ≤ 2^52 := by
  have : tableAddr e ≤ 0x000ffffffffff000#64 := by unfold tableAddr; bv_decide
  rw [BitVec.le_def] at this
  simpa using this

theorem addr2M_bound (e : BitVec 64) : (addr2M e).toNat + 2^21 ≤ 2^52 := by
  have : addr2M e ≤ 0x000fffffffe00000#64 := by unfold addr2M; bv_decide
  rw [BitVec.le_def] at this
  simpa using this

theorem addr1G_bound (e : BitVec 64) : (addr1G e).toNat + 2^30 ≤ 2^52 := by
  have : addr1G e ≤ 0x000fffffc0000000#64 := by unfold addr1G; bv_decide
  rw [BitVec.le_def] at this
  simpa using this

theorem tableAddr_aligned (e : BitVec 64) : (tableAddr e).toNat % 4096 = 0 := by
  rw [show (4096 : Nat) = 2^12 by rfl, toNat_mod_two_pow _ 12 (by omega)]
  have : tableAddr e &&& BitVec.ofNat 64 (2^12 - 1) = 0#64 := by unfold tableAddr; bv_decide
  rw [this]; rfl

theorem addr2M_aligned (e : BitVec 64) : (addr2M e).toNat % 2^21 = 0 := by
  rw [toNat_mod_two_pow _ 21 (by omega)]
  have : addr2M e &&& BitVec.ofNat 64 (2^21 - 1) = 0#64 := by unfold addr2M; bv_decide
  rw [this]; rfl

theorem addr1G_aligned (e : BitVec 64) : (addr1G e).toNat % 2^30 = 0 := by
  rw [toNat_mod_two_pow _ 30 (by omega)]
  have : addr1G e &&& BitVec.ofNat 64 (2^30 - 1) = 0#64 := by unfold addr1G; bv_decide
  rw [this]; rfl

/-! ### `PhysFrame::from_start_address(huge_frame_addr(e))` in `translate_page` -/

/-- 2 MiB: the alignment test passes iff bits 13..20 of the entry are zero. -/
theorem alignedTo_hugeAddr_2M (e : BitVec 64) :
    alignedTo (Pte.hugeAddr e) (2^21) = decide (e &&& 0x1fe000#64 = 0#64) := by
  unfold alignedTo
  rw [toNat_mod_two_pow _ 21 (by omega)]
  have h : (Pte.hugeAddr e &&& BitVec.ofNat 64 (2^21 - 1)) = e &&& 0x1fe000#64 := by
    unfold Pte.hugeAddr; bv_decide
  rw [h]
  by_cases h0 : e &&& 0x1fe000#64 = 0#64
  · rw [h0]; simp
  · have : (e &&& 0x1fe000#64).toNat ≠ 0 := fun h' => h0 (BitVec.eq_of_toNat_eq h')
    simpa [h0] using this

/-- 1 GiB: the alignment test passes iff bits 13..29 of the entry are zero. -/
theorem alignedTo_hugeAddr_1G (e : BitVec 64) :
    alignedTo (Pte.hugeAddr e) (2^30) = decide (e &&& 0x3fffe000#64 = 0#64) := by
  unfold alignedTo
  rw [toNat_mod_two_pow _ 30 (by omega)]
  have h : (Pte.hugeAddr e &&& BitVec.ofNat 64 (2^30 - 1)) = e &&& 0x3fffe000#64 := by
    unfold Pte.hugeAddr; bv_decide
  rw [h]
  by_cases h0 : e &&& 0x3fffe000#64 = 0#64
  · rw [h0]; simp
  · have : (e &&& 0x3fffe000#64).toNat ≠ 0 := fun h' => h0 (BitVec.eq_of_toNat_eq h')
    simpa [h0] using this

theorem hugeAddr_eq_addr2M (e : BitVec 64) (h : e &&& 0x1fe000#64 = 0#64) :
    Pte.hugeAddr e = addr2M e := by
  unfold Pte.hugeAddr addr2M; bv_decide

theorem hugeAddr_eq_addr1G (e : BitVec 64) (h : e &&& 0x3fffe000#64 = 0#64) :
    Pte.hugeAddr e = addr1G e := by
  unfold Pte.hugeAddr addr1G; bv_decide

/-! ### The two `next_table` variants on entries that are zero or present -/

/-- The `next_table` test of mapper kind `k` (`translate`, `translate_page`, `update_flags`, …). -/
def ntK (k : Kind) : Word → Except WalkErr Word := if k.recursive then nextTableU else nextTable

/-- What `next_table` of kind `k` needs from an entry to agree with the hardware's reading of the
P and PS bits: the recursive variant (`is_unused` first, no `PRESENT` test) needs "non-zero ⇒
present"; the other one (`HUGE_PAGE` first, then `PRESENT`) only needs "PS ⇒ present". -/
def NtOK (k : Kind) (e : Word) : Prop :=
  if k.recursive then (e ≠ 0#64 → bitP e = true) else (bitPS e = true → bitP e = true)

theorem NtOK_of_entOK (k : Kind) {e : Word} (h : e ≠ 0#64 → bitP e = true) : NtOK k e := by
  unfold NtOK
  split
  · exact h
  · exact fun hPS => h (ne_zero_of_bitPS hPS)

/-- On an entry satisfying `NtOK` (in particular one that is zero or present), both variants decide
by the architectural bits P and PS exactly as the hardware does. (Without the hypothesis they
differ from the hardware: the non-recursive one reports a non-present entry with PS set as a huge
page, the recursive one follows a non-zero non-present entry.) -/
theorem ntK_eq (k : Kind) (e : Word) (h : NtOK k e) :
    ntK k e = if bitP e then (if bitPS e then .error .hugePage else .ok (tableAddr e))
              else .error .notMapped := by
  obtain ⟨r⟩ := k
  cases r
  · -- `nextTable`: HUGE_PAGE first, then PRESENT
    have h : bitPS e = true → bitP e = true := h
    show nextTable e = _
    unfold nextTable
    rw [huge_eq_bitPS, present_eq_bitP, addr_eq_tableAddr]
    cases hPS : bitPS e <;> cases hP : bitP e <;> simp
    exact absurd (h hPS) (by simp [hP])
  · -- `nextTableU`: is_unused first, then HUGE_PAGE
    have h : e ≠ 0#64 → bitP e = true := h
    show nextTableU e = _
    unfold nextTableU
    rw [huge_eq_bitPS, addr_eq_tableAddr]
    by_cases h0 : e = 0#64
    · subst h0; simp [Pte.isUnused, bitP_zero]
    · have hP := h h0
      have hu : Pte.isUnused e = false := (isUnused_eq_false_iff e).2 h0
      simp [hu, hP]

theorem translate_ntK (k : Kind) :
    (if k.recursive = true then nextTableU else nextTable) = ntK k := rfl

theorem descendK_nil (k : Kind) (s : St) (t : Word) : descendK k s t [] = (.ok t, s) := by
  obtain ⟨r⟩ := k; cases r <;> rfl

theorem descendK_cons (k : Kind) (s : St) (t : Word) (i : Nat) (rest : List Nat) :
    descendK k s t (i :: rest) =
      match ntK k (s.mem t i) with
      | .error err => (.error err, { s with log := .rd t i :: s.log })
      | .ok t' => descendK k { s with log := .rd t i :: s.log } t' rest := by
  obtain ⟨r⟩ := k; cases r <;> rfl

/-! ### Read-only operations only append `rd` events -/

/-- A state whose (newest-first) log is `l.reverse ++ s.log` has the chronological events of `s`
followed by `l`. -/
theorem St.events_append (s : St) (l : List Ev) :
    ({ s with log := l.reverse ++ s.log } : St).events = s.events ++ l := by
  simp [St.events]

/-- `s'` is `s` with some read events `l` (chronological) appended to the ghost log (memory and
allocator untouched). -/
def OnlyReads (s s' : St) : Prop :=
  ∃ l : List Ev, s' = { s with log := l.reverse ++ s.log } ∧ ∀ ev ∈ l, ∃ f i, ev = Ev.rd f i

theorem OnlyReads.refl (s : St) : OnlyReads s s :=
  ⟨[], by cases s; simp, by intro ev h; cases h⟩

theorem OnlyReads.rd (s : St) (f : Word) (i : Nat) : OnlyReads s (s.rd f i).2 :=
  ⟨[.rd f i], rfl, by intro ev h; simp at h; exact ⟨f, i, h⟩⟩

theorem OnlyReads.trans {s s' s'' : St} (h1 : OnlyReads s s') (h2 : OnlyReads s' s'') :
    OnlyReads s s'' := by
  obtain ⟨l1, rfl, hl1⟩ := h1
  obtain ⟨l2, rfl, hl2⟩ := h2
  refine ⟨l1 ++ l2, by simp, ?_⟩
  intro ev h
  rcases List.mem_append.1 h with h | h
  · exact hl1 ev h
  · exact hl2 ev h

theorem OnlyReads.mem {s s' : St} (h : OnlyReads s s') : s'.mem = s.mem := by
  obtain ⟨l, rfl, _⟩ := h; rfl

theorem OnlyReads.allocs {s s' : St} (h : OnlyReads s s') : s'.allocs = s.allocs := by
  obtain ⟨l, rfl, _⟩ := h; rfl

theorem descendK_onlyReads (k : Kind) (ps : List Nat) :
    ∀ (s : St) (t : Word), OnlyReads s (descendK k s t ps).2 := by
  induction ps with
  | nil => intro s t; rw [descendK_nil]; exact OnlyReads.refl s
  | cons i rest ih =>
    intro s t
    rw [descendK_cons]
    split
    · exact OnlyReads.rd s t i
    · exact (OnlyReads.rd s t i).trans (ih _ _)

/-! ### The walk and `translate` as functions of the four entries on the path -/

theorem ntK_ok {k : Kind} {e t : Word} (h : ntK k e = .ok t) : t = tableAddr e := by
  obtain ⟨r⟩ := k
  cases r
  · change nextTable e = _ at h
    unfold nextTable at h
    split at h
    · cases h
    · split at h
      · cases h; rfl
      · cases h
  · change nextTableU e = _ at h
    unfold nextTableU at h
    split at h
    · cases h
    · split at h
      · cases h
      · cases h; rfl

def walkE (e4 e3 e2 e1 : Word) (va : Nat) : Option Xlat :=
  if !bitP e4 || bitPS e4 then none else
  if !bitP e3 then none else
  if bitPS e3 then
    some { base := (addr1G e3).toNat, size := 2^30, off := va % 2^30, flags := leafFlagsHuge e3,
           rw := bitRW e4 && bitRW e3, us := bitUS e4 && bitUS e3 }
  else
  if !bitP e2 then none else
  if bitPS e2 then
    some { base := (addr2M e2).toNat, size := 2^21, off := va % 2^21, flags := leafFlagsHuge e2,
           rw := bitRW e4 && bitRW e3 && bitRW e2, us := bitUS e4 && bitUS e3 && bitUS e2 }
  else
  if !bitP e1 then none else
    some { base := (tableAddr e1).toNat, size := 4096, off := va % 4096, flags := leafFlags4K e1,
           rw := bitRW e4 && bitRW e3 && bitRW e2 && bitRW e1,
           us := bitUS e4 && bitUS e3 && bitUS e2 && bitUS e1 }

theorem walk_eq_walkE (m : PhysMem) (cr3 : BitVec 64) (va : Nat) :
    walk m cr3 va =
      walkE (m cr3 (vaIdx4 va)) (m (tableAddr (m cr3 (vaIdx4 va))) (vaIdx3 va))
        (m (tableAddr (m (tableAddr (m cr3 (vaIdx4 va))) (vaIdx3 va))) (vaIdx2 va))
        (m (tableAddr (m (tableAddr (m (tableAddr (m cr3 (vaIdx4 va))) (vaIdx3 va))) (vaIdx2 va))) (vaIdx1 va)) va := rfl

def translateE (k : Kind) (e4 e3 e2 e1 : Word) (va : Nat) : R Xl × Nat :=
  match ntK k e4 with
  | .error .notMapped => (.ok .notMapped, 1)
  | .error .hugePage => (.panic, 1)
  | .ok _ =>
    match ntK k e3 with
    | .error .notMapped => (.ok .notMapped, 2)
    | .error .hugePage =>
      (.ok (.mapped (alignDownW (Pte.addr e3) (2^30)) (2^30) (va % 2^30) (Pte.flags e3)), 2)
    | .ok _ =>
      match ntK k e2 with
      | .error .notMapped => (.ok .notMapped, 3)
      | .error .hugePage =>
        (.ok (.mapped (alignDownW (Pte.addr e2) (2^21)) (2^21) (va % 2^21) (Pte.flags e2)), 3)
      | .ok _ =>
        if Pte.isUnused e1 then (.ok .notMapped, 4)
        else (.ok (.mapped (Pte.addr e1) 4096 (va % 4096) (Pte.flags e1)), 4)

theorem translate_eq_E_aux (k : Kind) (s : St) (p4 : Word) (va : Nat) (e4 e3 e2 e1 : Word)
    (he4 : s.mem p4 (va / 2^39 % 512) = e4) (he3 : s.mem (tableAddr e4) (va / 2^30 % 512) = e3)
    (he2 : s.mem (tableAddr e3) (va / 2^21 % 512) = e2)
    (he1 : s.mem (tableAddr e2) (va / 2^12 % 512) = e1) :
    translate k s p4 va =
      ((translateE k e4 e3 e2 e1 va).1,
       { s with log :=
          (([Ev.rd p4 (va / 2^39 % 512), .rd (tableAddr e4) (va / 2^30 % 512),
            .rd (tableAddr e3) (va / 2^21 % 512),
            .rd (tableAddr e2) (va / 2^12 % 512)]).take (translateE k e4 e3 e2 e1 va).2).reverse
            ++ s.log }) := by
  simp only [translate, St.rd, translate_ntK, translateE]
  rw [he4]
  cases h4 : ntK k e4 with
  | error err => cases err <;> simp
  | ok t3 =>
    cases ntK_ok h4
    simp only []
    rw [he3]
    cases h3 : ntK k e3 with
    | error err => cases err <;> simp
    | ok t2 =>
      cases ntK_ok h3
      simp only []
      rw [he2]
      cases h2 : ntK k e2 with
      | error err => cases err <;> simp
      | ok t1 =>
        cases ntK_ok h2
        simp only []
        simp only [he1]
        by_cases hu : Pte.isUnused e1 = true <;> simp [hu]

theorem translate_eq_E (k : Kind) (s : St) (p4 : Word) (va : Nat) :
    translate k s p4 va =
      let e4 := s.mem p4 (vaIdx4 va)
      let e3 := s.mem (tableAddr e4) (vaIdx3 va)
      let e2 := s.mem (tableAddr e3) (vaIdx2 va)
      let e1 := s.mem (tableAddr e2) (vaIdx1 va)
      ((translateE k e4 e3 e2 e1 va).1,
       { s with log :=
          (([Ev.rd p4 (vaIdx4 va), .rd (tableAddr e4) (vaIdx3 va), .rd (tableAddr e3) (vaIdx2 va),
            .rd (tableAddr e2) (vaIdx1 va)]).take (translateE k e4 e3 e2 e1 va).2).reverse
            ++ s.log }) :=
  translate_eq_E_aux k s p4 va _ _ _ _ rfl rfl rfl rfl

def leafE (e3 e2 e1 : Word) : Word := if bitPS e3 then e3 else if bitPS e2 then e2 else e1

def renderE (e4 e3 e2 e1 : Word) (va : Nat) : R Xl :=
  match walkE e4 e3 e2 e1 va with
  | none => .ok .notMapped
  | some x => .ok (.mapped (BitVec.ofNat 64 x.base) x.size x.off (Pte.flags (leafE e3 e2 e1)))

def depthE (e4 e3 e2 : Word) : Nat :=
  if bitP e4 && !bitPS e4 then
    (if bitP e3 && !bitPS e3 then (if bitP e2 && !bitPS e2 then 4 else 3) else 2)
  else 1

theorem translateE_eq (k : Kind) (e4 e3 e2 e1 : Word) (va : Nat)
    (h4 : NtOK k e4) (h4ps : bitPS e4 = false)
    (h3 : bitP e4 = true → NtOK k e3)
    (h2 : bitP e4 = true → bitP e3 = true → bitPS e3 = false → NtOK k e2)
    (h1 : bitP e4 = true → bitP e3 = true → bitPS e3 = false → bitP e2 = true → bitPS e2 = false →
      e1 ≠ 0#64 → bitP e1 = true) :
    translateE k e4 e3 e2 e1 va = (renderE e4 e3 e2 e1 va, depthE e4 e3 e2) := by
  unfold translateE
  rw [ntK_eq k e4 h4]
  cases hP4 : bitP e4
  · simp [renderE, walkE, depthE, hP4]
  · simp only [h4ps, if_true, Bool.false_eq_true, if_false]
    rw [ntK_eq k e3 (h3 hP4)]
    cases hP3 : bitP e3
    · simp [renderE, walkE, depthE, hP4, hP3, h4ps]
    · cases hPS3 : bitPS e3
      · simp only [if_true, Bool.false_eq_true, if_false]
        rw [ntK_eq k e2 (h2 hP4 hP3 hPS3)]
        cases hP2 : bitP e2
        · simp [renderE, walkE, depthE, hP4, hP3, h4ps, hPS3, hP2]
        · cases hPS2 : bitPS e2
          · simp only [if_true, Bool.false_eq_true, if_false]
            have h1' := h1 hP4 hP3 hPS3 hP2 hPS2
            cases hP1 : bitP e1
            · have h0 : e1 = 0#64 := by
                by_cases h0 : e1 = 0#64
                · exact h0
                · rw [h1' h0] at hP1; cases hP1
              subst h0
              simp [renderE, walkE, depthE, hP4, hP3, h4ps, hPS3, hP2, hPS2, hP1, Pte.isUnused]
            · have hu : Pte.isUnused e1 = false := (isUnused_eq_false_iff e1).2 (ne_zero_of_bitP hP1)
              simp [renderE, walkE, depthE, leafE, hP4, hP3, h4ps, hPS3, hP2, hPS2, hP1, hu,
                addr_eq_tableAddr]
          · simp [renderE, walkE, depthE, leafE, hP4, hP3, h4ps, hPS3, hP2, hPS2]
            exact alignDown_2M e2
      · simp [renderE, walkE, depthE, leafE, hP4, hP3, h4ps, hPS3]
        exact alignDown_1G e3

/-! ### `translate_page` as a function of the entries on the page's path -/

/-- Entries read along the parent indices `ps` starting in table `t`, following the address field
of each entry as the hardware would. -/
def entsOf (m : PMem) : Word → List Nat → List Word
  | _, [] => []
  | t, i :: r => m t i :: entsOf m (tableAddr (m t i)) r
def lastTbl (m : PMem) : Word → List Nat → Word
  | t, [] => t
  | t, i :: r => lastTbl m (tableAddr (m t i)) r
def readsOf (m : PMem) : Word → List Nat → List Ev
  | _, [] => []
  | t, i :: r => .rd t i :: readsOf m (tableAddr (m t i)) r

/-- Pure descent through a list of entries: first error (if any) and number of entries looked at. -/
def dE (k : Kind) : List Word → Option WalkErr × Nat
  | [] => (none, 0)
  | e :: es =>
    match ntK k e with
    | .error err => (some err, 1)
    | .ok _ => ((dE k es).1, (dE k es).2 + 1)

theorem readsOf_length (m : PMem) (ps : List Nat) : ∀ t, (readsOf m t ps).length = ps.length := by
  induction ps with
  | nil => intro t; rfl
  | cons i r ih => intro t; simp [readsOf, ih]

theorem dE_none_count (k : Kind) (es : List Word) : (dE k es).1 = none → (dE k es).2 = es.length := by
  induction es with
  | nil => intro _; rfl
  | cons e es ih =>
    intro h
    unfold dE at h ⊢
    split at h
    · cases h
    · simp only [List.length_cons]; rw [ih h]

theorem dE_count_le (k : Kind) (es : List Word) : (dE k es).2 ≤ es.length := by
  induction es with
  | nil => exact Nat.le_refl _
  | cons e es ih =>
    unfold dE
    split
    · simp
    · simp only [List.length_cons]; omega

theorem entsOf_length (m : PMem) (ps : List Nat) : ∀ t, (entsOf m t ps).length = ps.length := by
  induction ps with
  | nil => intro t; rfl
  | cons i r ih => intro t; simp [entsOf, ih]

theorem descendK_eq (k : Kind) (ps : List Nat) : ∀ (s : St) (t : Word),
    descendK k s t ps =
      ((match (dE k (entsOf s.mem t ps)).1 with
        | some err => .error err
        | none => .ok (lastTbl s.mem t ps)),
       { s with log :=
          ((readsOf s.mem t ps).take (dE k (entsOf s.mem t ps)).2).reverse ++ s.log }) := by
  induction ps with
  | nil => intro s t; rw [descendK_nil]; cases s; simp [dE, entsOf, lastTbl, readsOf]
  | cons i r ih =>
    intro s t
    rw [descendK_cons]
    cases h : ntK k (s.mem t i) with
    | error err => simp [dE, entsOf, readsOf, h]
    | ok t' =>
      cases ntK_ok h
      simp only []
      rw [ih]
      simp [dE, entsOf, readsOf, lastTbl, h]

def slotE (huge : Bool) (sz : Nat) (e : Word) : Except OpErr Word :=
  if Pte.isUnused e then .error .notMapped
  else if huge && !Pte.huge e then .error .parentHuge
  else if huge && !alignedTo (Pte.hugeAddr e) sz then .error (.invalidFrame (Pte.addr e))
  else .ok (if huge then Pte.hugeAddr e else Pte.addr e)

def tpE (k : Kind) (huge : Bool) (sz : Nat) (es : List Word) (e : Word) : Except OpErr Word × Nat :=
  match (dE k es).1 with
  | some err => (.error (.ofWalk err), (dE k es).2)
  | none => (slotE huge sz e, es.length + 1)

theorem translatePage_eq_E (k : Kind) (s : St) (p4 : Word) (ps : List Nat) (li : Nat) (huge : Bool)
    (sz : Nat) :
    translatePage k s p4 ps li huge sz =
      let r := tpE k huge sz (entsOf s.mem p4 ps) (s.mem (lastTbl s.mem p4 ps) li)
      (r.1, { s with log :=
                ((readsOf s.mem p4 ps ++ [Ev.rd (lastTbl s.mem p4 ps) li]).take r.2).reverse
                  ++ s.log }) := by
  unfold translatePage tpE
  rw [descendK_eq]
  cases h : (dE k (entsOf s.mem p4 ps)).1 with
  | some err =>
    have : (dE k (entsOf s.mem p4 ps)).2 ≤ (readsOf s.mem p4 ps).length := by
      rw [readsOf_length, ← entsOf_length s.mem ps p4]; exact dE_count_le k _
    simp [List.take_append_of_le_length this]
  | none =>
    have hc := dE_none_count k _ h
    rw [entsOf_length] at hc
    have hl : (readsOf s.mem p4 ps ++ [Ev.rd (lastTbl s.mem p4 ps) li]).length ≤ ps.length + 1 := by
      simp [readsOf_length]
    simp only [St.rd, slotE, hc, entsOf_length, List.take_of_length_le hl]
    have hr : List.take ps.length (readsOf s.mem p4 ps) = readsOf s.mem p4 ps :=
      List.take_of_length_le (by rw [readsOf_length]; exact Nat.le_refl _)
    rw [hr]
    by_cases h1 : Pte.isUnused (s.mem (lastTbl s.mem p4 ps) li) = true
    · simp [h1]
    · by_cases h2 : (huge && !Pte.huge (s.mem (lastTbl s.mem p4 ps) li)) = true
      · simp [h1, h2]
      · by_cases h3 : (huge && !alignedTo (Pte.hugeAddr (s.mem (lastTbl s.mem p4 ps) li)) sz) = true
        · simp [h1, h2, h3]
        · simp [h1, h2, h3]

def expect4KE (e4 e3 e2 e1 : Word) (va : Nat) : Except OpErr Word :=
  match walkE e4 e3 e2 e1 va with
  | none => .error .notMapped
  | some x => if x.size = 4096 then .ok (BitVec.ofNat 64 x.base) else .error .parentHuge

def table3E (e4 e3 : Word) : Bool := bitP e4 && !bitPS e4 && bitP e3 && !bitPS e3
def table2E (e4 e3 e2 : Word) : Bool := table3E e4 e3 && bitP e2 && !bitPS e2

def expect2ME (e4 e3 e2 e1 : Word) (va : Nat) : Except OpErr Word :=
  match walkE e4 e3 e2 e1 va with
  | some x =>
    if x.size = 2^21 then
      (if e2 &&& 0x1fe000#64 = 0#64 then .ok (BitVec.ofNat 64 x.base)
       else .error (.invalidFrame (tableAddr e2)))
    else .error .parentHuge
  | none => if table2E e4 e3 e2 then .error .parentHuge else .error .notMapped

def expect1GE (e4 e3 e2 e1 : Word) (va : Nat) : Except OpErr Word :=
  match walkE e4 e3 e2 e1 va with
  | some x =>
    if x.size = 2^30 then
      (if e3 &&& 0x3fffe000#64 = 0#64 then .ok (BitVec.ofNat 64 x.base)
       else .error (.invalidFrame (tableAddr e3)))
    else .error .parentHuge
  | none => if table3E e4 e3 then .error .parentHuge else .error .notMapped

theorem eq_zero_of_not_bitP {e : Word} (h : e ≠ 0#64 → bitP e = true) (hP : bitP e = false) :
    e = 0#64 := by
  by_cases h0 : e = 0#64
  · exact h0
  · rw [h h0] at hP; cases hP

theorem tpE_4K (k : Kind) (e4 e3 e2 e1 : Word) (va : Nat)
    (h4 : NtOK k e4) (h4ps : bitPS e4 = false)
    (h3 : bitP e4 = true → NtOK k e3)
    (h2 : bitP e4 = true → bitP e3 = true → bitPS e3 = false → NtOK k e2)
    (h1 : bitP e4 = true → bitP e3 = true → bitPS e3 = false → bitP e2 = true → bitPS e2 = false →
      e1 ≠ 0#64 → bitP e1 = true) :
    tpE k false 4096 [e4, e3, e2] e1 = (expect4KE e4 e3 e2 e1 va, depthE e4 e3 e2) := by
  unfold tpE
  simp only [dE]
  rw [ntK_eq k e4 h4]
  cases hP4 : bitP e4
  · simp [expect4KE, walkE, depthE, hP4, OpErr.ofWalk]
  · simp only [h4ps, if_true, Bool.false_eq_true, if_false]
    rw [ntK_eq k e3 (h3 hP4)]
    cases hP3 : bitP e3
    · simp [expect4KE, walkE, depthE, hP4, hP3, h4ps, OpErr.ofWalk]
    · cases hPS3 : bitPS e3
      · simp only [if_true, Bool.false_eq_true, if_false]
        rw [ntK_eq k e2 (h2 hP4 hP3 hPS3)]
        cases hP2 : bitP e2
        · simp [expect4KE, walkE, depthE, hP4, hP3, h4ps, hPS3, hP2, OpErr.ofWalk]
        · cases hPS2 : bitPS e2
          · simp only [if_true, Bool.false_eq_true, if_false]
            have h1' := h1 hP4 hP3 hPS3 hP2 hPS2
            cases hP1 : bitP e1
            · have h0 := eq_zero_of_not_bitP h1' hP1
              subst h0
              simp [expect4KE, walkE, depthE, hP4, hP3, h4ps, hPS3, hP2, hPS2, hP1, slotE, Pte.isUnused]
            · have hu : Pte.isUnused e1 = false := (isUnused_eq_false_iff e1).2 (ne_zero_of_bitP hP1)
              simp [expect4KE, walkE, depthE, hP4, hP3, h4ps, hPS3, hP2, hPS2, hP1, hu, slotE,
                addr_eq_tableAddr]
          · simp [expect4KE, walkE, depthE, hP4, hP3, h4ps, hPS3, hP2, hPS2, OpErr.ofWalk]
      · simp [expect4KE, walkE, depthE, hP4, hP3, h4ps, hPS3, OpErr.ofWalk]

theorem tpE_2M (k : Kind) (e4 e3 e2 e1 : Word) (va : Nat)
    (h4 : NtOK k e4) (h4ps : bitPS e4 = false)
    (h3 : bitP e4 = true → NtOK k e3)
    (h2 : bitP e4 = true → bitP e3 = true → bitPS e3 = false → e2 ≠ 0#64 → bitP e2 = true) :
    tpE k true (2^21) [e4, e3] e2 = (expect2ME e4 e3 e2 e1 va, min (depthE e4 e3 e2) 3) := by
  unfold tpE
  simp only [dE]
  rw [ntK_eq k e4 h4]
  cases hP4 : bitP e4
  · simp [expect2ME, walkE, depthE, table2E, table3E, hP4, OpErr.ofWalk]
  · simp only [h4ps, if_true, Bool.false_eq_true, if_false]
    rw [ntK_eq k e3 (h3 hP4)]
    cases hP3 : bitP e3
    · simp [expect2ME, walkE, depthE, table2E, table3E, hP4, hP3, h4ps, OpErr.ofWalk]
    · cases hPS3 : bitPS e3
      · simp only [if_true, Bool.false_eq_true, if_false]
        have h2' := h2 hP4 hP3 hPS3
        cases hP2 : bitP e2
        · have h0 := eq_zero_of_not_bitP h2' hP2
          subst h0
          simp [expect2ME, walkE, depthE, table2E, table3E, hP4, hP3, h4ps, hPS3, hP2, slotE, Pte.isUnused]
        · have hu : Pte.isUnused e2 = false := (isUnused_eq_false_iff e2).2 (ne_zero_of_bitP hP2)
          cases hPS2 : bitPS e2
          · cases hP1 : bitP e1 <;>
              simp [expect2ME, walkE, depthE, table2E, table3E, hP4, hP3, h4ps, hPS3, hP2, hPS2, hP1,
                hu, slotE, huge_eq_bitPS]
          · have ha := alignedTo_hugeAddr_2M e2
            by_cases hal : e2 &&& 0x1fe000#64 = 0#64
            · simp only [hal, decide_true, hugeAddr_eq_addr2M e2 hal, Nat.reducePow] at ha
              simp [expect2ME, walkE, depthE, hP4, hP3, h4ps, hPS3, hP2, hPS2,
                hu, slotE, huge_eq_bitPS, hal, hugeAddr_eq_addr2M e2 hal, ha]
            · simp only [hal, decide_false, Nat.reducePow] at ha
              simp [expect2ME, walkE, depthE, hP4, hP3, h4ps, hPS3, hP2, hPS2,
                hu, slotE, huge_eq_bitPS, ha, hal, addr_eq_tableAddr]
      · simp [expect2ME, walkE, depthE, hP4, hP3, h4ps, hPS3, OpErr.ofWalk]

theorem tpE_1G (k : Kind) (e4 e3 e2 e1 : Word) (va : Nat)
    (h4 : NtOK k e4) (h4ps : bitPS e4 = false)
    (h3 : bitP e4 = true → e3 ≠ 0#64 → bitP e3 = true) :
    tpE k true (2^30) [e4] e3 = (expect1GE e4 e3 e2 e1 va, min (depthE e4 e3 e2) 2) := by
  unfold tpE
  simp only [dE]
  rw [ntK_eq k e4 h4]
  cases hP4 : bitP e4
  · simp [expect1GE, walkE, depthE, table3E, hP4, OpErr.ofWalk]
  · simp only [h4ps, if_true, Bool.false_eq_true, if_false]
    have h3' := h3 hP4
    cases hP3 : bitP e3
    · have h0 := eq_zero_of_not_bitP h3' hP3
      subst h0
      simp [expect1GE, walkE, depthE, table3E, hP4, hP3, h4ps, slotE, Pte.isUnused]
    · have hu : Pte.isUnused e3 = false := (isUnused_eq_false_iff e3).2 (ne_zero_of_bitP hP3)
      cases hPS3 : bitPS e3
      · cases hP2 : bitP e2 <;> cases hPS2 : bitPS e2 <;> cases hP1 : bitP e1 <;>
          simp [expect1GE, walkE, depthE, table3E, hP4, hP3, h4ps, hPS3, hP2, hPS2, hP1,
            hu, slotE, huge_eq_bitPS]
      · have ha := alignedTo_hugeAddr_1G e3
        by_cases hal : e3 &&& 0x3fffe000#64 = 0#64
        · simp only [hal, decide_true, hugeAddr_eq_addr1G e3 hal, Nat.reducePow] at ha
          simp [expect1GE, walkE, depthE, hP4, hP3, h4ps, hPS3,
            hu, slotE, huge_eq_bitPS, hal, hugeAddr_eq_addr1G e3 hal, ha]
        · simp only [hal, decide_false, Nat.reducePow] at ha
          simp [expect1GE, walkE, depthE, hP4, hP3, h4ps, hPS3,
            hu, slotE, huge_eq_bitPS, ha, hal, addr_eq_tableAddr]

/-! ### What the walk reports about a leaf -/

/-- Everything `walkE` reports about a leaf follows from the leaf entry's bits. -/
theorem walkE_facts (e4 e3 e2 e1 : Word) (va : Nat) (x : Xlat) (h : walkE e4 e3 e2 e1 va = some x) :
    (x.size = 4096 ∨ x.size = 2^21 ∨ x.size = 2^30) ∧ x.off = va % x.size ∧
    x.base % x.size = 0 ∧ x.base + x.size ≤ 2^52 ∧
    Pte.flags (leafE e3 e2 e1) &&&
      (if x.size = 4096 then 0xfff0000000000fff#64 else 0xfff0000000001fff#64) = x.flags ∧
    (x.size = 4096 →
      (Pte.flags (leafE e3 e2 e1)).getLsbD 12 = (BitVec.ofNat 64 x.base).getLsbD 12) := by
  unfold walkE at h
  split at h
  · cases h
  split at h
  · cases h
  split at h
  · next hPS3 =>
    cases h
    refine ⟨Or.inr (Or.inr rfl), rfl, addr1G_aligned e3, addr1G_bound e3, ?_, ?_⟩
    · simp only [leafE, hPS3, if_true]
      exact flags_and_domHuge e3
    · intro h; simp at h
  split at h
  · cases h
  split at h
  · next hPS3 _ hPS2 =>
    cases h
    refine ⟨Or.inr (Or.inl rfl), rfl, addr2M_aligned e2, addr2M_bound e2, ?_, ?_⟩
    · simp only [leafE, hPS3, hPS2, if_true]
      exact flags_and_domHuge e2
    · intro h; simp at h
  split at h
  · cases h
  · next hPS3 _ hPS2 _ =>
    cases h
    refine ⟨Or.inl rfl, rfl, tableAddr_aligned e1, tableAddr_bound e1, ?_, ?_⟩
    · simp only [leafE, hPS3, hPS2, if_true]
      exact flags_and_dom4K e1
    · intro _
      simp only [leafE, hPS3, hPS2, ofNat_toNat64]
      exact flags_bit12 e1

theorem translateE_count (k : Kind) (e4 e3 e2 e1 : Word) (va : Nat) :
    1 ≤ (translateE k e4 e3 e2 e1 va).2 ∧ (translateE k e4 e3 e2 e1 va).2 ≤ 4 := by
  unfold translateE
  repeat' split
  all_goals exact ⟨by simp, by simp⟩

/-! ### For the non-recursive mappers the hypothesis is also necessary -/

theorem ntK_nonrec (e : Word) :
    ntK ⟨false⟩ e = if bitPS e then .error .hugePage
                    else if bitP e then .ok (tableAddr e) else .error .notMapped := rfl

theorem alignDown_1G_lit (e : Word) : alignDownW (Pte.addr e) 1073741824 = addr1G e := alignDown_1G e
theorem alignDown_2M_lit (e : Word) : alignDownW (Pte.addr e) 2097152 = addr2M e := alignDown_2M e

theorem alignDown_1G_lit' (e : Word) : alignDownW (tableAddr e) 1073741824 = addr1G e := alignDown_1G e
theorem alignDown_2M_lit' (e : Word) : alignDownW (tableAddr e) 2097152 = addr2M e := alignDown_2M e

theorem translateE_nonrec_iff (e4 e3 e2 e1 : Word) (va : Nat) :
    (translateE ⟨false⟩ e4 e3 e2 e1 va).1 = renderE e4 e3 e2 e1 va ↔
      (bitPS e4 = false ∧
       (bitP e4 = true → bitPS e3 = true → bitP e3 = true) ∧
       (bitP e4 = true → bitP e3 = true → bitPS e3 = false → bitPS e2 = true → bitP e2 = true) ∧
       (bitP e4 = true → bitP e3 = true → bitPS e3 = false → bitP e2 = true → bitPS e2 = false →
          e1 ≠ 0#64 → bitP e1 = true)) := by
  unfold translateE renderE walkE
  simp only [ntK_nonrec]
  by_cases h0 : e1 = 0#64
  · subst h0
    cases hP4 : bitP e4 <;> cases hPS4 : bitPS e4 <;> cases hP3 : bitP e3 <;> cases hPS3 : bitPS e3 <;>
      cases hP2 : bitP e2 <;> cases hPS2 : bitPS e2 <;>
      simp [leafE, hPS3, hPS2, bitP_zero, Pte.isUnused, alignDown_1G_lit, alignDown_2M_lit]
  · have hu : Pte.isUnused e1 = false := (isUnused_eq_false_iff e1).2 h0
    cases hP4 : bitP e4 <;> cases hPS4 : bitPS e4 <;> cases hP3 : bitP e3 <;> cases hPS3 : bitPS e3 <;>
      cases hP2 : bitP e2 <;> cases hPS2 : bitPS e2 <;> cases hP1 : bitP e1 <;>
      simp [leafE, hPS3, hPS2, hu, h0, addr_eq_tableAddr, alignDown_1G_lit',
        alignDown_2M_lit']

end X86
