/-
Preservation of the table tree under single-word writes, and the state invariant.
-/
import X86Model.Proofs.MapperOps

namespace X86
open X86.Spec

/-- Writing word `(f, i)` of the table at path `p` leaves every table of the tree where it is,
provided the written word does not change which table (if any) the slot points to — or the
table is a level-1 table, whose slots are never table pointers. -/
theorem tblAt_set_eq (m : PMem) (p4 : Word) (hwf : WF m p4) (p : List Nat) (f : Word) (i : Nat) (v : Word)
    (hp : tblAt m p4 p = some f) (hpl : p.length ≤ 3) (hpi : IdxOK p)
    (hv : p.length = 3 ∨ tableOf v = tableOf (m f i)) :
    ∀ (q r : List Nat) (t : Word), tblAt m p4 r = some t → (r ++ q).length ≤ 3 → IdxOK (r ++ q) →
      tblAt (m.set f i v) t q = tblAt m t q := by
  intro q
  induction q with
  | nil => intros; rfl
  | cons j q ih =>
    intro r t hr hlen hidx
    simp only [tblAt]
    have hent : tableOf ((m.set f i v) t j) = tableOf (m t j) := by
      by_cases hw : t = f ∧ j = i
      · obtain ⟨htf, hji⟩ := hw
        subst htf; subst hji
        rw [PMem.set_same]
        have hrp : r = p := hwf r p t (by simp at hlen; omega) hpl (IdxOK_append.1 hidx).1 hpi hr hp
        rcases hv with h | h
        · exfalso; rw [hrp] at hlen; simp at hlen; omega
        · exact h
      · rw [PMem.set_other m f i v t j hw]
    rw [hent]
    cases hto : tableOf (m t j) with
    | none => rfl
    | some t' =>
      have hr' : tblAt m p4 (r ++ [j]) = some t' := by
        rw [tblAt_append, hr]; simp [tblAt, hto]
      exact ih (r ++ [j]) t' hr' (by simpa using hlen) (by simpa using hidx)

theorem tblAt_set_eq_root (m : PMem) (p4 : Word) (hwf : WF m p4) (p : List Nat) (f : Word) (i : Nat) (v : Word)
    (hp : tblAt m p4 p = some f) (hpl : p.length ≤ 3) (hpi : IdxOK p)
    (hv : p.length = 3 ∨ tableOf v = tableOf (m f i)) (q : List Nat) (hq : q.length ≤ 3) (hqi : IdxOK q) :
    tblAt (m.set f i v) p4 q = tblAt m p4 q :=
  tblAt_set_eq m p4 hwf p f i v hp hpl hpi hv q [] p4 rfl (by simpa using hq) (by simpa using hqi)

/-- Hence such a write preserves the tree invariant. -/
theorem WF_set (m : PMem) (p4 : Word) (hwf : WF m p4) (p : List Nat) (f : Word) (i : Nat) (v : Word)
    (hp : tblAt m p4 p = some f) (hpl : p.length ≤ 3) (hpi : IdxOK p)
    (hv : p.length = 3 ∨ tableOf v = tableOf (m f i)) : WF (m.set f i v) p4 := by
  intro a b g ha hb hai hbi hga hgb
  rw [tblAt_set_eq_root m p4 hwf p f i v hp hpl hpi hv a ha hai] at hga
  rw [tblAt_set_eq_root m p4 hwf p f i v hp hpl hpi hv b hb hbi] at hgb
  exact hwf a b g ha hb hai hbi hga hgb

/-- Every non-zero entry of every table of the hierarchy is present (holds in all states reached
through the API with flags that contain `PRESENT`). -/
def AllPresent (m : PMem) (p4 : Word) : Prop :=
  ∀ p f i, p.length ≤ 3 → IdxOK p → tblAt m p4 p = some f → i < 512 → m f i ≠ 0#64 →
    Pte.present (m f i) = true

/-- No level-4 entry has the `HUGE_PAGE` bit (it is reserved there). -/
def P4NoHuge (m : PMem) (p4 : Word) : Prop := ∀ i, i < 512 → Pte.huge (m p4 i) = false

/-- The state invariant of a mapper's page-table hierarchy. -/
structure Inv (m : PMem) (p4 : Word) : Prop where
  wf : WF m p4
  pres : AllPresent m p4
  p4nh : P4NoHuge m p4

/-- A single-word write that keeps the tree, writes zero or a present entry, and does not put
`HUGE_PAGE` into the level-4 table preserves the invariant. -/
theorem Inv_set (m : PMem) (p4 : Word) (hinv : Inv m p4) (p : List Nat) (f : Word) (i : Nat) (v : Word)
    (hp : tblAt m p4 p = some f) (hpl : p.length ≤ 3) (hpi : IdxOK p)
    (hv : p.length = 3 ∨ tableOf v = tableOf (m f i))
    (hpres : v = 0#64 ∨ Pte.present v = true)
    (hp4 : p = [] → Pte.huge v = false) : Inv (m.set f i v) p4 := by
  refine ⟨WF_set m p4 hinv.wf p f i v hp hpl hpi hv, ?_, ?_⟩
  · intro q g j hq hqi hg hj hne
    rw [tblAt_set_eq_root m p4 hinv.wf p f i v hp hpl hpi hv q hq hqi] at hg
    by_cases hw : g = f ∧ j = i
    · obtain ⟨hgf, hji⟩ := hw
      subst hgf; subst hji
      rw [PMem.set_same] at hne ⊢
      rcases hpres with h | h
      · exact absurd h hne
      · exact h
    · rw [PMem.set_other m f i v g j hw] at hne ⊢
      exact hinv.pres q g j hq hqi hg hj hne
  · intro j hj
    by_cases hw : p4 = f ∧ j = i
    · obtain ⟨hgf, hji⟩ := hw
      subst hgf; subst hji
      rw [PMem.set_same]
      have : p = [] := hinv.wf p [] p4 hpl (by simp) hpi (fun _ h => by cases h) hp rfl
      exact hp4 this
    · rw [PMem.set_other m f i v p4 j hw]
      exact hinv.p4nh j hj

/-- The empty hierarchy (all-zero level-4 table) satisfies the invariant. -/
theorem Inv_init (m : PMem) (p4 : Word) (h : ∀ i, m p4 i = 0#64) : Inv m p4 := by
  have hto : ∀ i, tableOf (m p4 i) = none := by
    intro i; rw [h i]; decide
  have hroot : ∀ q f, tblAt m p4 q = some f → q = [] ∧ f = p4 := by
    intro q f hq
    cases q with
    | nil => simp [tblAt] at hq; exact ⟨rfl, hq.symm⟩
    | cons j q => simp [tblAt, hto j] at hq
  refine ⟨?_, ?_, ?_⟩
  · intro a b g _ _ _ _ ha hb
    rw [(hroot a g ha).1, (hroot b g hb).1]
  · intro q g j _ _ hg _ hne
    obtain ⟨_, hgp⟩ := hroot q g hg
    subst hgp; exact absurd (h j) hne
  · intro j _; rw [h j]; decide

end X86
