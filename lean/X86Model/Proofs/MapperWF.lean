/-
Preservation of the table tree under single-word writes, and the state invariant.
-/
import X86Model.Proofs.MapperOps

namespace X86
open X86.Spec

/-- Writing word `(f, i)` of the table at path `p` leaves every table of the tree where it is,
provided the written word does not change which table (if any) the slot points to — or the
table is a level-1 table, whose slots are never table pointers. -/
theorem tblAt_set_eq (m : PMem) (p4 : Word) (hwf : WF m p4) (p : List Nat) (f : Word) (i : Nat) (v : Word)
    (hp : tblAt m p4 p = some f) (hpl : p.length ≤ 3) (hpi : IdxOK p)
    (hv : p.length = 3 ∨ tableOf v = tableOf (m f i)) :
    ∀ (q r : List Nat) (t : Word), tblAt m p4 r = some t → (r ++ q).length ≤ 3 → IdxOK (r ++ q) →
      tblAt (m.set f i v) t q = tblAt m t q := by
  intro q
  induction q with
  | nil => intros; rfl
  | cons j q ih =>
    intro r t hr hlen hidx
    simp only [tblAt]
    have hent : tableOf ((m.set f i v) t j) = tableOf (m t j) := by
      by_cases hw : t = f ∧ j = i
      · obtain ⟨htf, hji⟩ := hw
        subst htf; subst hji
        rw [PMem.set_same]
        have hrp : r = p := hwf r p t (by simp at hlen; omega) hpl (IdxOK_append.1 hidx).1 hpi hr hp
        rcases hv with h | h
        · exfalso; rw [hrp] at hlen; simp at hlen; omega
        · exact h
      · rw [PMem.set_other m f i v t j hw]
    rw [hent]
    cases hto : tableOf (m t j) with
    | none => rfl
    | some t' =>
      have hr' : tblAt m p4 (r ++ [j]) = some t' := by
        rw [tblAt_append, hr]; simp [tblAt, hto]
      exact ih (r ++ [j]) t' hr' (by simpa using hlen) (by simpa using hidx)

theorem tblAt_set_eq_root (m : PMem) (p4 : Word) (hwf : WF m p4) (p : List Nat) (f : Word) (i : Nat) (v : Word)
    (hp : tblAt m p4 p = some f) (hpl : p.length ≤ 3) (hpi : IdxOK p)
    (hv : p.length = 3 ∨ tableOf v = tableOf (m f i)) (q : List Nat) (hq : q.length ≤ 3) (hqi : IdxOK q) :
    tblAt (m.set f i v) p4 q = tblAt m p4 q :=
  tblAt_set_eq m p4 hwf p f i v hp hpl hpi hv q [] p4 rfl (by simpa using hq) (by simpa using hqi)

/-- Hence such a write preserves the tree invariant. -/
theorem WF_set (m : PMem) (p4 : Word) (hwf : WF m p4) (p : List Nat) (f : Word) (i : Nat) (v : Word)
    (hp : tblAt m p4 p = some f) (hpl : p.length ≤ 3) (hpi : IdxOK p)
    (hv : p.length = 3 ∨ tableOf v = tableOf (m f i)) : WF (m.set f i v) p4 := by
  intro a b g ha hb hai hbi hga hgb
  rw [tblAt_set_eq_root m p4 hwf p f i v hp hpl hpi hv a ha hai] at hga
  rw [tblAt_set_eq_root m p4 hwf p f i v hp hpl hpi hv b hb hbi] at hgb
  exact hwf a b g ha hb hai hbi hga hgb

/-- Every non-zero entry of a table of the hierarchy is present, or satisfies the exemption `X`
(a predicate on the length of the table's path and the entry word). -/
def EntriesOK (X : Nat → Word → Prop) (m : PMem) (p4 : Word) : Prop :=
  ∀ p f i, p.length ≤ 3 → IdxOK p → tblAt m p4 p = some f → i < 512 → m f i ≠ 0#64 →
    Pte.present (m f i) = true ∨ X p.length (m f i)

/-- A non-zero entry that may lack `PRESENT`: a *leaf* entry — an entry of a level-1 table (path
length 3), or an entry of a level-3/level-2 table (path length 1/2) with the `HUGE_PAGE` bit: a
page mapped without `PRESENT` (reserved / swapped out). Table links are never exempt:
`tableOf e = some t` needs `PRESENT`. -/
def DormantLeaf (n : Nat) (e : Word) : Prop := n = 3 ∨ (1 ≤ n ∧ Pte.huge e = true)

/-- **The generalised entry invariant**: every non-zero entry of every table of the hierarchy is
present, or it is a leaf entry (4 KiB slot, or huge-page entry of a level-3/level-2 table). -/
def LeafOrPresent (m : PMem) (p4 : Word) : Prop := EntriesOK DormantLeaf m p4

/-- The strict variant: every non-zero entry of every table of the hierarchy is present (holds in
all states reached through the API with leaf flags that contain `PRESENT`; `C01.history_dictates`). -/
def AllPresent (m : PMem) (p4 : Word) : Prop := EntriesOK (fun _ _ => False) m p4

theorem EntriesOK.mono {X Y : Nat → Word → Prop} {m : PMem} {p4 : Word} (hXY : ∀ n e, X n e → Y n e)
    (h : EntriesOK X m p4) : EntriesOK Y m p4 := by
  intro p f i hp hpi hf hi hne
  rcases h p f i hp hpi hf hi hne with h | h
  · exact Or.inl h
  · exact Or.inr (hXY _ _ h)

theorem AllPresent.leafOrPresent {m : PMem} {p4 : Word} (h : AllPresent m p4) : LeafOrPresent m p4 :=
  EntriesOK.mono (fun _ _ hf => hf.elim) h

theorem AllPresent.present {m : PMem} {p4 : Word} (h : AllPresent m p4) (p : List Nat) (f : Word) (i : Nat)
    (hp : p.length ≤ 3) (hpi : IdxOK p) (hf : tblAt m p4 p = some f) (hi : i < 512) (hne : m f i ≠ 0#64) :
    Pte.present (m f i) = true := by
  rcases h p f i hp hpi hf hi hne with h | h
  · exact h
  · exact h.elim

/-- No level-4 entry has the `HUGE_PAGE` bit (it is reserved there). -/
def P4NoHuge (m : PMem) (p4 : Word) : Prop := ∀ i, i < 512 → Pte.huge (m p4 i) = false

/-- The state invariant of a mapper's page-table hierarchy. -/
structure Inv (m : PMem) (p4 : Word) : Prop where
  wf : WF m p4
  pres : LeafOrPresent m p4
  p4nh : P4NoHuge m p4

/-- A non-zero, non-huge entry of a level-4/3/2 table is present (it is a table link). -/
theorem Inv.present_of_not_huge {m : PMem} {p4 : Word} (hinv : Inv m p4) (p : List Nat) (f : Word) (i : Nat)
    (hp : p.length ≤ 2) (hpi : IdxOK p) (hf : tblAt m p4 p = some f) (hi : i < 512) (hne : m f i ≠ 0#64)
    (hnh : Pte.huge (m f i) = false) : Pte.present (m f i) = true := by
  rcases hinv.pres p f i (by omega) hpi hf hi hne with h | h | ⟨_, h⟩
  · exact h
  · omega
  · rw [hnh] at h; cases h

/-- A non-zero entry of the level-4 table is present. -/
theorem Inv.present_p4 {m : PMem} {p4 : Word} (hinv : Inv m p4) (i : Nat) (hi : i < 512) (hne : m p4 i ≠ 0#64) :
    Pte.present (m p4 i) = true :=
  hinv.present_of_not_huge [] p4 i (by simp) (fun _ h => by cases h) rfl hi hne (hinv.p4nh i hi)

/-- A single-word write that keeps the tree and writes zero, a present entry or an exempt one keeps
`EntriesOK`. -/
theorem EntriesOK_set (X : Nat → Word → Prop) (m : PMem) (p4 : Word) (hwf : WF m p4) (h : EntriesOK X m p4)
    (p : List Nat) (f : Word) (i : Nat) (v : Word)
    (hp : tblAt m p4 p = some f) (hpl : p.length ≤ 3) (hpi : IdxOK p)
    (hv : p.length = 3 ∨ tableOf v = tableOf (m f i))
    (hpres : v = 0#64 ∨ Pte.present v = true ∨ X p.length v) : EntriesOK X (m.set f i v) p4 := by
  intro q g j hq hqi hg hj hne
  rw [tblAt_set_eq_root m p4 hwf p f i v hp hpl hpi hv q hq hqi] at hg
  by_cases hw : g = f ∧ j = i
  · obtain ⟨hgf, hji⟩ := hw
    subst hgf; subst hji
    have hqp : q = p := hwf q p g hq hpl hqi hpi hg hp
    rw [PMem.set_same] at hne ⊢
    rcases hpres with h | h | h
    · exact absurd h hne
    · exact Or.inl h
    · exact Or.inr (hqp ▸ h)
  · rw [PMem.set_other m f i v g j hw] at hne ⊢
    exact h q g j hq hqi hg hj hne

/-- A single-word write that keeps the tree, writes zero, a present entry or a (possibly
non-present) leaf entry, and does not put `HUGE_PAGE` into the level-4 table preserves the invariant. -/
theorem Inv_set' (m : PMem) (p4 : Word) (hinv : Inv m p4) (p : List Nat) (f : Word) (i : Nat) (v : Word)
    (hp : tblAt m p4 p = some f) (hpl : p.length ≤ 3) (hpi : IdxOK p)
    (hv : p.length = 3 ∨ tableOf v = tableOf (m f i))
    (hpres : v = 0#64 ∨ Pte.present v = true ∨ DormantLeaf p.length v)
    (hp4 : p = [] → Pte.huge v = false) : Inv (m.set f i v) p4 := by
  refine ⟨WF_set m p4 hinv.wf p f i v hp hpl hpi hv,
    EntriesOK_set DormantLeaf m p4 hinv.wf hinv.pres p f i v hp hpl hpi hv hpres, ?_⟩
  intro j hj
  by_cases hw : p4 = f ∧ j = i
  · obtain ⟨hgf, hji⟩ := hw
    subst hgf; subst hji
    rw [PMem.set_same]
    have : p = [] := hinv.wf p [] p4 hpl (by simp) hpi (fun _ h => by cases h) hp rfl
    exact hp4 this
  · rw [PMem.set_other m f i v p4 j hw]
    exact hinv.p4nh j hj

/-- A single-word write that keeps the tree, writes zero or a present entry, and does not put
`HUGE_PAGE` into the level-4 table preserves the invariant. -/
theorem Inv_set (m : PMem) (p4 : Word) (hinv : Inv m p4) (p : List Nat) (f : Word) (i : Nat) (v : Word)
    (hp : tblAt m p4 p = some f) (hpl : p.length ≤ 3) (hpi : IdxOK p)
    (hv : p.length = 3 ∨ tableOf v = tableOf (m f i))
    (hpres : v = 0#64 ∨ Pte.present v = true)
    (hp4 : p = [] → Pte.huge v = false) : Inv (m.set f i v) p4 :=
  Inv_set' m p4 hinv p f i v hp hpl hpi hv (hpres.elim Or.inl (fun h => Or.inr (Or.inl h))) hp4

/-- The same write keeps the strict variant when the written word is zero or present. -/
theorem AllPresent_set (m : PMem) (p4 : Word) (hwf : WF m p4) (h : AllPresent m p4)
    (p : List Nat) (f : Word) (i : Nat) (v : Word)
    (hp : tblAt m p4 p = some f) (hpl : p.length ≤ 3) (hpi : IdxOK p)
    (hv : p.length = 3 ∨ tableOf v = tableOf (m f i))
    (hpres : v = 0#64 ∨ Pte.present v = true) : AllPresent (m.set f i v) p4 :=
  EntriesOK_set _ m p4 hwf h p f i v hp hpl hpi hv (hpres.elim Or.inl (fun h => Or.inr (Or.inl h)))

/-- The empty hierarchy (all-zero level-4 table) satisfies the invariant. -/
theorem Inv_init (m : PMem) (p4 : Word) (h : ∀ i, m p4 i = 0#64) : Inv m p4 := by
  have hto : ∀ i, tableOf (m p4 i) = none := by
    intro i; rw [h i]; decide
  have hroot : ∀ q f, tblAt m p4 q = some f → q = [] ∧ f = p4 := by
    intro q f hq
    cases q with
    | nil => simp [tblAt] at hq; exact ⟨rfl, hq.symm⟩
    | cons j q => simp [tblAt, hto j] at hq
  refine ⟨?_, ?_, ?_⟩
  · intro a b g _ _ _ _ ha hb
    rw [(hroot a g ha).1, (hroot b g hb).1]
  · intro q g j _ _ hg _ hne
    obtain ⟨_, hgp⟩ := hroot q g hg
    subst hgp; exact absurd (h j) hne
  · intro j _; rw [h j]; decide

/-- The empty hierarchy also satisfies the strict variant. -/
theorem AllPresent_init (m : PMem) (p4 : Word) (h : ∀ i, m p4 i = 0#64) : AllPresent m p4 := by
  have hto : ∀ i, tableOf (m p4 i) = none := by
    intro i; rw [h i]; decide
  intro q g j _ _ hg _ hne
  cases q with
  | nil => simp [tblAt] at hg; subst hg; exact absurd (h j) hne
  | cons j' q => simp [tblAt, hto j'] at hg

end X86
