/-
Helper lemmas for C17: how the monad runs, what `are_enabled`/`cli`/`sti` do to the flag, and
the general bracket lemma for `without_interrupts` around an arbitrary closure.
-/
import X86Model.Model.Interrupts
import X86Model.Proofs.Machine
import Std.Tactic.BVDecide

namespace X86
open X86.Spec X86.Consts X86.Interrupts

/-! ### The flag -/

/-- The register file with the interrupt flag forced to `b` and nothing else changed. -/
def setIF (c : Cpu) (b : Bool) : Cpu :=
  { c with rflags := if b then c.rflags ||| IF_MASK else c.rflags &&& ~~~IF_MASK }

theorem ifFlag_setIF (c : Cpu) (b : Bool) : (setIF c b).ifFlag = b := by
  cases b <;> simp only [setIF, Cpu.ifFlag, IF_MASK, Bool.false_eq_true, if_false, if_true] <;>
    generalize c.rflags = r <;> bv_decide

theorem setIF_setIF (c : Cpu) (a b : Bool) : setIF (setIF c a) b = setIF c b := by
  have h : ∀ r : BitVec 64,
      (if b then (if a then r ||| IF_MASK else r &&& ~~~IF_MASK) ||| IF_MASK
        else (if a then r ||| IF_MASK else r &&& ~~~IF_MASK) &&& ~~~IF_MASK) =
      (if b then r ||| IF_MASK else r &&& ~~~IF_MASK) := by
    intro r; cases a <;> cases b <;> simp only [IF_MASK, Bool.false_eq_true, if_false, if_true] <;> bv_decide
  simp only [setIF, h]

theorem setIF_self (c : Cpu) : setIF c c.ifFlag = c := by
  have h0 : ∀ r : BitVec 64,
      (if (r &&& 0x200#64 != 0#64) = true then r ||| 0x200#64 else r &&& ~~~0x200#64) = r := by
    intro r
    by_cases hr : (r &&& 0x200#64 != 0#64) = true
    · simp only [hr, if_true]; bv_decide
    · simp only [hr, Bool.false_eq_true, if_false]; bv_decide
  have h : (if c.ifFlag then c.rflags ||| IF_MASK else c.rflags &&& ~~~IF_MASK) = c.rflags := h0 c.rflags
  simp only [setIF, h]

/-- `cli`/`sti` as state changes. -/
theorem step_cli (c : Cpu) : (step c .cli).1 = setIF c false := rfl
theorem step_sti (c : Cpu) : (step c .sti).1 = setIF c true := rfl

/-! ### The wrappers -/

theorem areEnabled_run (c : Cpu) : areEnabled c = ⟨.ok c.ifFlag, c, [.pushfq], []⟩ := by
  have h : ((c.rflags &&& RFLAGS_ALL) &&& RFLAGS_INTERRUPT_FLAG == RFLAGS_INTERRUPT_FLAG) = c.ifFlag := by
    simp only [Cpu.ifFlag, IF_MASK, RFLAGS_ALL, RFLAGS_INTERRUPT_FLAG]
    generalize c.rflags = r
    bv_decide
  have hr : RFlags.read c = ⟨.ok (c.rflags &&& RFLAGS_ALL), c, [.pushfq], []⟩ := rfl
  unfold areEnabled
  rw [M.bind_ok _ _ c _ _ _ _ hr]
  simp only [pure, M.pure, h, List.append_nil]

theorem enable_run (c : Cpu) : enable c = ⟨.ok (), setIF c true, [.sti], []⟩ := rfl
theorem disable_run (c : Cpu) : disable c = ⟨.ok (), setIF c false, [.cli], []⟩ := rfl

/-- `without_interrupts` around an arbitrary closure, flag initially clear: only the flag
query is added; the closure runs once from the same state. -/
theorem withoutInterrupts_off {α} (f : M α) (c : Cpu) (h : c.ifFlag = false) :
    withoutInterrupts f c = ⟨(f c).res, (f c).cpu, .pushfq :: (f c).trace, (f c).marks⟩ := by
  unfold withoutInterrupts
  rw [M.bind_ok _ _ c _ _ _ _ (areEnabled_run c)]
  simp only [h, Bool.false_eq_true, if_false]
  cases hf : f c with
  | mk res c1 t1 m1 =>
    cases res with
    | ok a =>
      rw [M.bind_ok _ _ c _ _ _ _ hf]
      simp only [pure, M.pure, List.append_nil, List.nil_append, List.singleton_append]
    | panic =>
      rw [M.bind_panic _ _ c _ _ _ hf]
      simp only [List.nil_append, List.singleton_append]

/-- Flag initially set, closure returns: `cli`, the closure once from the state with the flag
clear, `sti`. -/
theorem withoutInterrupts_on_ok {α} (f : M α) (c : Cpu) (h : c.ifFlag = true) (a : α) (c1 : Cpu)
    (t1 : List Insn) (m1 : List Nat) (hf : f (setIF c false) = ⟨.ok a, c1, t1, m1⟩) :
    withoutInterrupts f c = ⟨.ok a, setIF c1 true, [.pushfq, .cli] ++ t1 ++ [.sti], m1⟩ := by
  unfold withoutInterrupts
  rw [M.bind_ok _ _ c _ _ _ _ (areEnabled_run c)]
  simp only [h, if_true]
  rw [M.bind_ok _ _ c _ _ _ _ (disable_run c)]
  rw [M.bind_ok _ _ _ _ _ _ _ hf]
  rw [M.bind_ok _ _ c1 _ _ _ _ (enable_run c1)]
  simp only [pure, M.pure, List.append_nil, List.nil_append, List.cons_append]

/-- Flag initially set, closure panics: the panic propagates and `sti` is not executed. -/
theorem withoutInterrupts_on_panic {α} (f : M α) (c : Cpu) (h : c.ifFlag = true) (c1 : Cpu)
    (t1 : List Insn) (m1 : List Nat) (hf : f (setIF c false) = ⟨.panic, c1, t1, m1⟩) :
    withoutInterrupts f c = ⟨.panic, c1, [.pushfq, .cli] ++ t1, m1⟩ := by
  unfold withoutInterrupts
  rw [M.bind_ok _ _ c _ _ _ _ (areEnabled_run c)]
  simp only [h, if_true]
  rw [M.bind_ok _ _ c _ _ _ _ (disable_run c)]
  rw [M.bind_panic _ _ _ _ _ _ hf]
  simp only [List.nil_append, List.cons_append]

/-- The flag-relevant part of an instruction trace. -/
def flagEvs : List Insn → List IEv
  | [] => []
  | .cli :: is => .cli :: flagEvs is
  | .sti :: is => .sti :: flagEvs is
  | .hlt :: is => .hlt :: flagEvs is
  | _ :: is => flagEvs is

theorem flagEvs_append (a b : List Insn) : flagEvs (a ++ b) = flagEvs a ++ flagEvs b := by
  induction a with
  | nil => rfl
  | cons i is ih => cases i <;> simp only [List.cons_append, flagEvs, ih]

end X86
