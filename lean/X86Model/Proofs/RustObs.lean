/-
Observers for results of translated Rust code, and the tactic `src_tie`.

An equation between two terms of type `R α`, `Option α`, `Except Unit α` (nested in any way over bit-vectors
and `Bool`) is split by extensionality into equations between *observations* (`isOk`, `get`, `isSome`, …);
the `rust_obs` simp set pushes every observer through `if`, `R.bind`, `Rust.onOpt`, `Rust.onRes`,
`Rust.unwrap` and the arithmetic primitives of `Base/Rust.lean` until only bit-vector/Bool terms remain;
`bv_decide` then decides the resulting formula. The proof does not depend on how the source spelled the
computation - only on what it computes - so a behaviour-preserving rewrite of the Rust source keeps the tie
theorems checking, and a behaviour-changing one makes `bv_decide` fail with a counterexample.
-/
import Std.Tactic.BVDecide
import X86Model.Base.Rust

namespace X86

/-! ### observers -/

def R.isOk {α} : R α → Bool
  | .ok _ => true
  | .panic => false

def R.get {α} [Inhabited α] : R α → α
  | .ok a => a
  | .panic => default

/-- `Option.getD default`, under a name the simp set can own. -/
def Rust.oget {α} [Inhabited α] (o : Option α) : α := o.getD default

def Rust.eIsOk {α} : Except Unit α → Bool
  | .ok _ => true
  | .error _ => false

def Rust.eget {α} [Inhabited α] : Except Unit α → α
  | .ok a => a
  | .error _ => default

/-! ### extensionality -/

theorem R.ext_obs {α} [Inhabited α] {r s : R α} (h1 : r.isOk = s.isOk) (h2 : r.isOk = true → r.get = s.get) :
    r = s := by
  cases r <;> cases s <;> simp_all [R.isOk, R.get]

theorem Rust.opt_ext_obs {α} [Inhabited α] {r s : Option α} (h1 : r.isSome = s.isSome)
    (h2 : r.isSome = true → Rust.oget r = Rust.oget s) : r = s := by
  cases r <;> cases s <;> simp_all [Rust.oget]

theorem Rust.res_ext_obs {α} [Inhabited α] {r s : Except Unit α} (h1 : Rust.eIsOk r = Rust.eIsOk s)
    (h2 : Rust.eIsOk r = true → Rust.eget r = Rust.eget s) : r = s := by
  cases r <;> cases s <;> simp_all [Rust.eIsOk, Rust.eget]

theorem Rust.prod_ext_obs {α β} {r s : α × β} (h1 : r.1 = s.1) (h2 : r.2 = s.2) : r = s := by
  cases r; cases s; simp_all

/-! ### the `rust_obs` simp set -/

section
variable {α β : Type}

@[simp] theorem R.isOk_ok (a : α) : (R.ok a).isOk = true := rfl
@[simp] theorem R.isOk_panic : (R.panic : R α).isOk = false := rfl
@[simp] theorem R.get_ok [Inhabited α] (a : α) : (R.ok a).get = a := rfl
@[simp] theorem R.get_panic [Inhabited α] : (R.panic : R α).get = default := rfl

theorem R.isOk_bind [Inhabited α] (r : R α) (f : α → R β) :
    (r.bind f).isOk = (r.isOk && (f r.get).isOk) := by cases r <;> rfl
theorem R.get_bind [Inhabited α] [Inhabited β] (r : R α) (f : α → R β) :
    (r.bind f).get = if r.isOk then (f r.get).get else default := by cases r <;> rfl
theorem R.isOk_map (r : R α) (f : α → β) : (r.map f).isOk = r.isOk := by cases r <;> rfl
theorem R.get_map [Inhabited α] [Inhabited β] (r : R α) (f : α → β) :
    (r.map f).get = if r.isOk then f r.get else default := by cases r <;> rfl
theorem R.isOk_ofOption (o : Option α) : (R.ofOption o).isOk = o.isSome := by cases o <;> rfl
theorem R.get_ofOption [Inhabited α] (o : Option α) : (R.ofOption o).get = Rust.oget o := by cases o <;> rfl

/-- Every `if` of the generated and reference definitions tests a `Bool`; it is turned into `bif` first, so
that no `Decidable` instance has to follow the rewriting of the condition. -/
theorem Rust.ite_true_eq_cond (b : Bool) (x y : α) : (if b = true then x else y) = bif b then x else y := by
  cases b <;> rfl

theorem R.isOk_cond (c : Bool) (a b : R α) :
    (bif c then a else b).isOk = bif c then a.isOk else b.isOk := by cases c <;> rfl
theorem R.get_cond [Inhabited α] (c : Bool) (a b : R α) :
    (bif c then a else b).get = bif c then a.get else b.get := by cases c <;> rfl

theorem Rust.isSome_cond (c : Bool) (a b : Option α) :
    (bif c then a else b).isSome = bif c then a.isSome else b.isSome := by cases c <;> rfl
theorem Rust.oget_cond [Inhabited α] (c : Bool) (a b : Option α) :
    Rust.oget (bif c then a else b) = bif c then Rust.oget a else Rust.oget b := by cases c <;> rfl
@[simp] theorem Rust.oget_some [Inhabited α] (a : α) : Rust.oget (some a) = a := rfl
@[simp] theorem Rust.oget_none [Inhabited α] : Rust.oget (none : Option α) = default := rfl

theorem Rust.eIsOk_cond (c : Bool) (a b : Except Unit α) :
    Rust.eIsOk (bif c then a else b) = bif c then Rust.eIsOk a else Rust.eIsOk b := by cases c <;> rfl
theorem Rust.eget_cond [Inhabited α] (c : Bool) (a b : Except Unit α) :
    Rust.eget (bif c then a else b) = bif c then Rust.eget a else Rust.eget b := by cases c <;> rfl
@[simp] theorem Rust.eIsOk_ok (a : α) : Rust.eIsOk (Except.ok a : Except Unit α) = true := rfl
@[simp] theorem Rust.eIsOk_error (u : Unit) : Rust.eIsOk (Except.error u : Except Unit α) = false := rfl
@[simp] theorem Rust.eget_ok [Inhabited α] (a : α) : Rust.eget (Except.ok a : Except Unit α) = a := rfl
@[simp] theorem Rust.eget_error [Inhabited α] (u : Unit) : Rust.eget (Except.error u : Except Unit α) = default := rfl

theorem Rust.fst_cond (c : Bool) (a b : α × β) :
    (bif c then a else b).1 = bif c then a.1 else b.1 := by cases c <;> rfl
theorem Rust.snd_cond (c : Bool) (a b : α × β) :
    (bif c then a else b).2 = bif c then a.2 else b.2 := by cases c <;> rfl
theorem Rust.fst_mk (a : α) (b : β) : (a, b).1 = a := rfl
theorem Rust.snd_mk (a : α) (b : β) : (a, b).2 = b := rfl

/-- `onOpt` is a `bif` on `isSome`; observers then go through the `cond` lemmas. -/
theorem Rust.onOpt_eq [Inhabited α] (o : Option α) (f : α → β) (n : β) :
    Rust.onOpt o f n = bif o.isSome then f (Rust.oget o) else n := by cases o <;> rfl
theorem Rust.onRes_eq [Inhabited α] (r : Except Unit α) (f : α → β) (n : β) :
    Rust.onRes r f n = bif Rust.eIsOk r then f (Rust.eget r) else n := by cases r <;> rfl
theorem Rust.unwrap_eq [Inhabited α] (o : Option α) :
    Rust.unwrap o = bif o.isSome then R.ok (Rust.oget o) else R.panic := by cases o <;> rfl
theorem R.ofOption_eq [Inhabited α] (o : Option α) :
    R.ofOption o = bif o.isSome then R.ok (Rust.oget o) else R.panic := by cases o <;> rfl
theorem Rust.bind_eq [Inhabited α] (r : R α) (f : α → R β) :
    r.bind f = bif r.isOk then f r.get else R.panic := by cases r <;> rfl
theorem Rust.map_eq [Inhabited α] (r : R α) (f : α → β) :
    r.map f = bif r.isOk then R.ok (f r.get) else R.panic := by cases r <;> rfl
theorem Rust.monad_bind_eq (r : R α) (f : α → R β) : (r >>= f) = r.bind f := rfl
end

/-- Observers of values of the primitive operations. -/
theorem Rust.checkedAdd_isSome {w} (a b : BitVec w) : (Rust.checkedAdd a b).isSome = !BitVec.uaddOverflow a b := by
  unfold Rust.checkedAdd; cases BitVec.uaddOverflow a b <;> rfl
theorem Rust.checkedAdd_oget {w} (a b : BitVec w) :
    Rust.oget (Rust.checkedAdd a b) = bif BitVec.uaddOverflow a b then default else a + b := by
  unfold Rust.checkedAdd; cases BitVec.uaddOverflow a b <;> rfl
theorem Rust.checkedSub_isSome {w} (a b : BitVec w) : (Rust.checkedSub a b).isSome = !BitVec.usubOverflow a b := by
  unfold Rust.checkedSub; cases BitVec.usubOverflow a b <;> rfl
theorem Rust.checkedSub_oget {w} (a b : BitVec w) :
    Rust.oget (Rust.checkedSub a b) = bif BitVec.usubOverflow a b then default else a - b := by
  unfold Rust.checkedSub; cases BitVec.usubOverflow a b <;> rfl
theorem Rust.checkedMul_isSome {w} (a b : BitVec w) : (Rust.checkedMul a b).isSome = !BitVec.umulOverflow a b := by
  unfold Rust.checkedMul; cases BitVec.umulOverflow a b <;> rfl
theorem Rust.checkedMul_oget {w} (a b : BitVec w) :
    Rust.oget (Rust.checkedMul a b) = bif BitVec.umulOverflow a b then default else a * b := by
  unfold Rust.checkedMul; cases BitVec.umulOverflow a b <;> rfl

@[simp] theorem Rust.default_bitvec {w} : (default : BitVec w) = 0#w := rfl
@[simp] theorem Rust.default_bool : (default : Bool) = false := rfl
@[simp] theorem Rust.default_option {α} : (default : Option α) = none := rfl
theorem Rust.default_prod {α β} [Inhabited α] [Inhabited β] : (default : α × β) = (default, default) := rfl
theorem Rust.default_unit : (default : Unit) = () := rfl

/-- The lemmas that eliminate every combinator into `if` and push observers to the leaves. -/
macro "rust_obs_simp" : tactic =>
  `(tactic| simp only [Rust.ite_true_eq_cond, Rust.monad_bind_eq, Rust.bind_eq, Rust.map_eq, Rust.onOpt_eq,
      Rust.onRes_eq, Rust.unwrap_eq, R.ofOption_eq,
      R.isOk_cond, R.get_cond, Rust.isSome_cond, Rust.oget_cond, Rust.eIsOk_cond, Rust.eget_cond, Rust.fst_cond,
      Rust.snd_cond, Rust.fst_mk, Rust.snd_mk,
      R.isOk_ok, R.isOk_panic, R.get_ok, R.get_panic, Rust.oget_some, Rust.oget_none, Option.isSome_some,
      Option.isSome_none, Rust.eIsOk_ok, Rust.eIsOk_error, Rust.eget_ok, Rust.eget_error,
      Rust.checkedAdd_isSome, Rust.checkedAdd_oget, Rust.checkedSub_isSome, Rust.checkedSub_oget,
      Rust.checkedMul_isSome, Rust.checkedMul_oget,
      Rust.add, Rust.sub, Rust.mul, Rust.rem, Rust.div, Rust.shl, Rust.shr, Rust.isPowerOfTwo, Rust.getBits, Rust.setBits, Rust.getBitsDyn, Rust.setBitsDyn,
      Rust.fieldMask, Rust.getBit, Rust.setBit,
      Rust.default_bitvec, Rust.default_bool, Rust.default_option, Rust.default_prod, Rust.default_unit,
      cond_true, cond_false] at *)

end X86

namespace X86

/-- `src_tie [defs]`: prove an equation between a generated definition and a reference definition.
Splits the equation into observations, unfolds `defs` (the generated and reference definitions involved),
normalises with the `rust_obs` lemmas and decides the remaining bit-vector formula. -/
syntax "src_tie" "[" Lean.Parser.Tactic.simpLemma,* "]" : tactic
macro_rules
  | `(tactic| src_tie [$ls,*]) => `(tactic|
      ((repeat' (first | apply R.ext_obs | apply Rust.opt_ext_obs | apply Rust.res_ext_obs
                       | apply Rust.prod_ext_obs | intro _)) <;>
       ((try simp only [$ls,*] at *) <;> rust_obs_simp <;> bv_decide)))

/-- Turn a bit-vector goal into linear arithmetic over `toNat` (the preprocessing of `bv_omega` plus
unsigned division/remainder by literals) and call `omega`. -/
macro "bv_nat" : tactic =>
  `(tactic| ((try simp -implicitDefEqProofs only [bitvec_to_nat, BitVec.toNat_umod, BitVec.toNat_udiv,
      BitVec.ult_iff_lt, BitVec.ule_iff_le] at *) <;> (try simp only [Nat.reducePow, Nat.reduceMod] at *) <;> omega))

end X86

namespace X86
theorem R.ext_obs_iff {α} [Inhabited α] {r s : R α} :
    r = s ↔ (r.isOk = s.isOk ∧ (r.isOk = true → r.get = s.get)) :=
  ⟨fun h => by subst h; exact ⟨rfl, fun _ => rfl⟩, fun ⟨h1, h2⟩ => R.ext_obs h1 h2⟩
theorem Rust.opt_ext_obs_iff {α} [Inhabited α] {r s : Option α} :
    r = s ↔ (r.isSome = s.isSome ∧ (r.isSome = true → Rust.oget r = Rust.oget s)) :=
  ⟨fun h => by subst h; exact ⟨rfl, fun _ => rfl⟩, fun ⟨h1, h2⟩ => Rust.opt_ext_obs h1 h2⟩
theorem Rust.res_ext_obs_iff {α} [Inhabited α] {r s : Except Unit α} :
    r = s ↔ (Rust.eIsOk r = Rust.eIsOk s ∧ (Rust.eIsOk r = true → Rust.eget r = Rust.eget s)) :=
  ⟨fun h => by subst h; exact ⟨rfl, fun _ => rfl⟩, fun ⟨h1, h2⟩ => Rust.res_ext_obs h1 h2⟩
theorem Rust.prod_ext_obs_iff {α β} {r s : α × β} : r = s ↔ (r.1 = s.1 ∧ r.2 = s.2) :=
  ⟨fun h => by subst h; exact ⟨rfl, rfl⟩, fun ⟨h1, h2⟩ => Rust.prod_ext_obs h1 h2⟩
theorem Rust.unit_eq (a b : Unit) : (a = b) = True := by simp
end X86

namespace X86
/-! ### normal form for structural (non-`bv_decide`) tie proofs: everything is a right-nested `R.bind` -/
theorem R.map_eq_bind {α β} (r : R α) (f : α → β) : r.map f = r.bind fun a => R.ok (f a) := by cases r <;> rfl
theorem R.bind_assoc {α β γ} (r : R α) (f : α → R β) (g : β → R γ) :
    (r.bind f).bind g = r.bind fun a => (f a).bind g := by cases r <;> rfl
theorem Rust.unwrap_eq_ofOption {α} (o : Option α) : Rust.unwrap o = R.ofOption o := by cases o <;> rfl
theorem R.bind_cond {α β} (c : Bool) (a b : R α) (f : α → R β) :
    (bif c then a else b).bind f = bif c then a.bind f else b.bind f := by cases c <;> rfl
theorem R.bind_panic' {α β} (f : α → R β) : (R.panic : R α).bind f = R.panic := rfl
theorem R.bind_onOpt {α β γ} (o : Option α) (g : α → R β) (n : R β) (f : β → R γ) :
    (Rust.onOpt o g n).bind f = Rust.onOpt o (fun a => (g a).bind f) (n.bind f) := by cases o <;> rfl

theorem Rust.onRes_ok {α β} (a : α) (f : α → β) (n : β) : Rust.onRes (Except.ok a : Except Unit α) f n = f a := rfl
theorem Rust.onRes_error {α β} (u : Unit) (f : α → β) (n : β) : Rust.onRes (Except.error u : Except Unit α) f n = n := rfl
theorem Rust.onOpt_some {α β} (a : α) (f : α → β) (n : β) : Rust.onOpt (some a) f n = f a := rfl
theorem Rust.onOpt_none {α β} (f : α → β) (n : β) : Rust.onOpt (none : Option α) f n = n := rfl
theorem Rust.onOpt_ok_ok {α β} (o : Option α) (g : α → β) (n : β) :
    Rust.onOpt o (fun x => R.ok (g x)) (R.ok n) = R.ok (Rust.onOpt o g n) := by cases o <;> rfl
theorem Rust.onOpt_some_none {α} (o : Option α) : Rust.onOpt o (fun x => some x) none = o := by cases o <;> rfl
theorem Rust.onOpt_cond {α β} (c : Bool) (a b : Option α) (f : α → β) (n : β) :
    Rust.onOpt (bif c then a else b) f n = bif c then Rust.onOpt a f n else Rust.onOpt b f n := by cases c <;> rfl
theorem R.ofOption_bind_ok {α β} (o : Option α) (g : α → β) :
    (R.ofOption o).bind (fun a => R.ok (g a)) = R.ofOption (o.map g) := by cases o <;> rfl

/-- Structural tie: unfold the generated definition, rewrite the calls of translated functions with their tie
theorems, unfold the reference definition, bring both sides into bind-normal form; they must then coincide. -/
syntax "tie_struct" "[" Lean.Parser.Tactic.simpLemma,* "]" : tactic
macro_rules
  | `(tactic| tie_struct [$ls,*]) => `(tactic|
      (simp (disch := assumption) only [$ls,*, Rust.monad_bind_eq, R.map_eq_bind, R.bind_assoc, R.bind_ok,
        R.bind_panic', Rust.unwrap_eq_ofOption, R.bind_cond, R.bind_onOpt, Rust.onRes_ok, Rust.onRes_error,
        Rust.onOpt_some, Rust.onOpt_none, Rust.onOpt_ok_ok, Rust.onOpt_some_none]))
end X86
