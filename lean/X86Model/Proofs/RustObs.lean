/-
Observers for results of translated Rust code, and the tactic `src_tie`.

An equation between two terms of type `R α`, `Option α`, `Except Unit α` (nested in any way over bit-vectors
and `Bool`) is split by extensionality into equations between *observations* (`isOk`, `get`, `isSome`, …);
the `rust_obs` simp set pushes every observer through `if`, `R.bind`, `Rust.onOpt`, `Rust.onRes`,
`Rust.unwrap` and the arithmetic primitives of `Base/Rust.lean` until only bit-vector/Bool terms remain;
`bv_decide` then decides the resulting formula. The proof does not depend on how the source spelled the
computation - only on what it computes - so a behaviour-preserving rewrite of the Rust source keeps the tie
theorems checking, and a behaviour-changing one makes `bv_decide` fail with a counterexample.
-/
import Std.Tactic.BVDecide
import X86Model.Base.Rust

namespace X86

/-! ### observers -/

def R.isOk {α} : R α → Bool
  | .ok _ => true
  | .panic => false

def R.get {α} [Inhabited α] : R α → α
  | .ok a => a
  | .panic => default

/-- `Option.getD default`, under a name the simp set can own. -/
def Rust.oget {α} [Inhabited α] (o : Option α) : α := o.getD default

def Rust.eIsOk {α} : Except Unit α → Bool
  | .ok _ => true
  | .error _ => false

def Rust.eget {α} [Inhabited α] : Except Unit α → α
  | .ok a => a
  | .error _ => default

/-! ### extensionality -/

theorem R.ext_obs {α} [Inhabited α] {r s : R α} (h1 : r.isOk = s.isOk) (h2 : r.isOk = true → r.get = s.get) :
    r = s := by
  cases r <;> cases s <;> simp_all [R.isOk, R.get]

theorem Rust.opt_ext_obs {α} [Inhabited α] {r s : Option α} (h1 : r.isSome = s.isSome)
    (h2 : r.isSome = true → Rust.oget r = Rust.oget s) : r = s := by
  cases r <;> cases s <;> simp_all [Rust.oget]

theorem Rust.res_ext_obs {α} [Inhabited α] {r s : Except Unit α} (h1 : Rust.eIsOk r = Rust.eIsOk s)
    (h2 : Rust.eIsOk r = true → Rust.eget r = Rust.eget s) : r = s := by
  cases r <;> cases s <;> simp_all [Rust.eIsOk, Rust.eget]

theorem Rust.prod_ext_obs {α β} {r s : α × β} (h1 : r.1 = s.1) (h2 : r.2 = s.2) : r = s := by
  cases r; cases s; simp_all

/-! ### the `rust_obs` simp set -/

section
variable {α β : Type}

@[simp] theorem R.isOk_ok (a : α) : (R.ok a).isOk = true := rfl
@[simp] theorem R.isOk_panic : (R.panic : R α).isOk = false := rfl
@[simp] theorem R.get_ok [Inhabited α] (a : α) : (R.ok a).get = a := rfl
@[simp] theorem R.get_panic [Inhabited α] : (R.panic : R α).get = default := rfl

theorem R.isOk_bind [Inhabited α] (r : R α) (f : α → R β) :
    (r.bind f).isOk = (r.isOk && (f r.get).isOk) := by cases r <;> rfl
theorem R.get_bind [Inhabited α] [Inhabited β] (r : R α) (f : α → R β) :
    (r.bind f).get = if r.isOk then (f r.get).get else default := by cases r <;> rfl
theorem R.isOk_map (r : R α) (f : α → β) : (r.map f).isOk = r.isOk := by cases r <;> rfl
theorem R.get_map [Inhabited α] [Inhabited β] (r : R α) (f : α → β) :
    (r.map f).get = if r.isOk then f r.get else default := by cases r <;> rfl
theorem R.isOk_ofOption (o : Option α) : (R.ofOption o).isOk = o.isSome := by cases o <;> rfl
theorem R.get_ofOption [Inhabited α] (o : Option α) : (R.ofOption o).get = Rust.oget o := by cases o <;> rfl

theorem R.isOk_ite (c : Prop) [Decidable c] (a b : R α) :
    (if c then a else b).isOk = if c then a.isOk else b.isOk := by split <;> rfl
theorem R.get_ite [Inhabited α] (c : Prop) [Decidable c] (a b : R α) :
    (if c then a else b).get = if c then a.get else b.get := by split <;> rfl

theorem Rust.isSome_ite (c : Prop) [Decidable c] (a b : Option α) :
    (if c then a else b).isSome = if c then a.isSome else b.isSome := by split <;> rfl
theorem Rust.oget_ite [Inhabited α] (c : Prop) [Decidable c] (a b : Option α) :
    Rust.oget (if c then a else b) = if c then Rust.oget a else Rust.oget b := by split <;> rfl
@[simp] theorem Rust.oget_some [Inhabited α] (a : α) : Rust.oget (some a) = a := rfl
@[simp] theorem Rust.oget_none [Inhabited α] : Rust.oget (none : Option α) = default := rfl

theorem Rust.eIsOk_ite (c : Prop) [Decidable c] (a b : Except Unit α) :
    Rust.eIsOk (if c then a else b) = if c then Rust.eIsOk a else Rust.eIsOk b := by split <;> rfl
theorem Rust.eget_ite [Inhabited α] (c : Prop) [Decidable c] (a b : Except Unit α) :
    Rust.eget (if c then a else b) = if c then Rust.eget a else Rust.eget b := by split <;> rfl
@[simp] theorem Rust.eIsOk_ok (a : α) : Rust.eIsOk (Except.ok a : Except Unit α) = true := rfl
@[simp] theorem Rust.eIsOk_error (u : Unit) : Rust.eIsOk (Except.error u : Except Unit α) = false := rfl
@[simp] theorem Rust.eget_ok [Inhabited α] (a : α) : Rust.eget (Except.ok a : Except Unit α) = a := rfl
@[simp] theorem Rust.eget_error [Inhabited α] (u : Unit) : Rust.eget (Except.error u : Except Unit α) = default := rfl

theorem Rust.fst_ite (c : Prop) [Decidable c] (a b : α × β) :
    (if c then a else b).1 = if c then a.1 else b.1 := by split <;> rfl
theorem Rust.snd_ite (c : Prop) [Decidable c] (a b : α × β) :
    (if c then a else b).2 = if c then a.2 else b.2 := by split <;> rfl

/-- `onOpt` is an `if` on `isSome`; observers then go through the `ite` lemmas. -/
theorem Rust.onOpt_eq [Inhabited α] (o : Option α) (f : α → β) (n : β) :
    Rust.onOpt o f n = if o.isSome then f (Rust.oget o) else n := by cases o <;> rfl
theorem Rust.onRes_eq [Inhabited α] (r : Except Unit α) (f : α → β) (n : β) :
    Rust.onRes r f n = if Rust.eIsOk r then f (Rust.eget r) else n := by cases r <;> rfl
theorem Rust.unwrap_eq [Inhabited α] (o : Option α) :
    Rust.unwrap o = if o.isSome then R.ok (Rust.oget o) else R.panic := by cases o <;> rfl
theorem R.ofOption_eq [Inhabited α] (o : Option α) :
    R.ofOption o = if o.isSome then R.ok (Rust.oget o) else R.panic := by cases o <;> rfl
theorem Rust.bind_eq [Inhabited α] (r : R α) (f : α → R β) :
    r.bind f = if r.isOk then f r.get else R.panic := by cases r <;> rfl
theorem Rust.map_eq [Inhabited α] (r : R α) (f : α → β) :
    r.map f = if r.isOk then R.ok (f r.get) else R.panic := by cases r <;> rfl
theorem Rust.monad_bind_eq (r : R α) (f : α → R β) : (r >>= f) = r.bind f := rfl
end

/-- Observers of values of the primitive operations. -/
theorem Rust.checkedAdd_isSome {w} (a b : BitVec w) : (Rust.checkedAdd a b).isSome = !BitVec.uaddOverflow a b := by
  unfold Rust.checkedAdd; split <;> simp_all
theorem Rust.checkedAdd_oget {w} (a b : BitVec w) :
    Rust.oget (Rust.checkedAdd a b) = if BitVec.uaddOverflow a b then default else a + b := by
  unfold Rust.checkedAdd; split <;> simp_all
theorem Rust.checkedSub_isSome {w} (a b : BitVec w) : (Rust.checkedSub a b).isSome = !BitVec.usubOverflow a b := by
  unfold Rust.checkedSub; split <;> simp_all
theorem Rust.checkedSub_oget {w} (a b : BitVec w) :
    Rust.oget (Rust.checkedSub a b) = if BitVec.usubOverflow a b then default else a - b := by
  unfold Rust.checkedSub; split <;> simp_all
theorem Rust.checkedMul_isSome {w} (a b : BitVec w) : (Rust.checkedMul a b).isSome = !BitVec.umulOverflow a b := by
  unfold Rust.checkedMul; split <;> simp_all
theorem Rust.checkedMul_oget {w} (a b : BitVec w) :
    Rust.oget (Rust.checkedMul a b) = if BitVec.umulOverflow a b then default else a * b := by
  unfold Rust.checkedMul; split <;> simp_all

@[simp] theorem Rust.default_bitvec {w} : (default : BitVec w) = 0#w := rfl
@[simp] theorem Rust.default_bool : (default : Bool) = false := rfl
@[simp] theorem Rust.default_option {α} : (default : Option α) = none := rfl

/-- The lemmas that eliminate every combinator into `if` and push observers to the leaves. -/
macro "rust_obs_simp" : tactic =>
  `(tactic| simp only [Rust.monad_bind_eq, Rust.bind_eq, Rust.map_eq, Rust.onOpt_eq, Rust.onRes_eq, Rust.unwrap_eq,
      R.ofOption_eq,
      R.isOk_ite, R.get_ite, Rust.isSome_ite, Rust.oget_ite, Rust.eIsOk_ite, Rust.eget_ite, Rust.fst_ite, Rust.snd_ite,
      R.isOk_ok, R.isOk_panic, R.get_ok, R.get_panic, Rust.oget_some, Rust.oget_none, Option.isSome_some,
      Option.isSome_none, Rust.eIsOk_ok, Rust.eIsOk_error, Rust.eget_ok, Rust.eget_error,
      Rust.checkedAdd_isSome, Rust.checkedAdd_oget, Rust.checkedSub_isSome, Rust.checkedSub_oget,
      Rust.checkedMul_isSome, Rust.checkedMul_oget,
      Rust.add, Rust.sub, Rust.mul, Rust.rem, Rust.div, Rust.isPowerOfTwo, Rust.getBits, Rust.setBits,
      Rust.fieldMask, Rust.getBit, Rust.setBit,
      Rust.default_bitvec, Rust.default_bool, Rust.default_option,
      Bool.and_eq_true, Bool.or_eq_true, Bool.not_eq_true', beq_iff_eq, bne_iff_ne, decide_eq_true_eq,
      Bool.if_true_left, Bool.if_false_right, if_true, if_false] at *)

end X86

namespace X86

/-- `src_tie [defs]`: prove an equation between a generated definition and a reference definition.
Splits the equation into observations, unfolds `defs` (the generated and reference definitions involved),
normalises with the `rust_obs` lemmas and decides the remaining bit-vector formula. -/
syntax "src_tie" "[" Lean.Parser.Tactic.simpLemma,* "]" : tactic
macro_rules
  | `(tactic| src_tie [$ls,*]) => `(tactic|
      ((repeat' (first | apply R.ext_obs | apply Rust.opt_ext_obs | apply Rust.res_ext_obs
                       | apply Rust.prod_ext_obs | intro _)) <;>
       ((try simp only [$ls,*] at *) <;> rust_obs_simp <;> bv_decide)))

/-- Turn a bit-vector goal into linear arithmetic over `toNat` (the preprocessing of `bv_omega` plus
unsigned division/remainder by literals) and call `omega`. -/
macro "bv_nat" : tactic =>
  `(tactic| ((try simp -implicitDefEqProofs only [bitvec_to_nat, BitVec.toNat_umod, BitVec.toNat_udiv,
      BitVec.ult_iff_lt, BitVec.ule_iff_le] at *) <;> (try simp only [Nat.reducePow, Nat.reduceMod] at *) <;> omega))

end X86
