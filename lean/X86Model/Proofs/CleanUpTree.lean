/-
Clean-up at the level of the table tree (C10): unlinking an empty table changes no translation and
keeps the invariant; the recursive helper `cleanUpLevel` only ever unlinks-and-frees empty tables.
-/
import X86Model.Proofs.MapperLog
import X86Model.Model.CleanUp

namespace X86
open X86.Spec

/-! ### Unlinking a table: effect on the tree -/

/-- Zeroing word `(f, i)` of the table at path `p`: a descent that does not pass through that slot
is unaffected. -/
theorem tblAt_zero_off (m : PMem) (p4 : Word) (hwf : WF m p4) (p : List Nat) (f : Word) (i : Nat)
    (hp : tblAt m p4 p = some f) (hpl : p.length ≤ 3) (hpi : IdxOK p) :
    ∀ (q r : List Nat) (t : Word), tblAt m p4 r = some t → (r ++ q).length ≤ 3 → IdxOK (r ++ q) →
      (p.length < r.length ∨ ¬ (p ++ [i] <+: r ++ q)) →
      tblAt (m.set f i 0#64) t q = tblAt m t q := by
  intro q
  induction q with
  | nil => intros; rfl
  | cons j q ih =>
    intro r t hr hlen hidx hoff
    simp only [tblAt]
    have hne : ¬ (t = f ∧ j = i) := by
      rintro ⟨htf, hji⟩
      have hrp : r = p := hwf r p f (by simp at hlen; omega) hpl (IdxOK_append.1 hidx).1 hpi (htf ▸ hr) hp
      rcases hoff with h | h
      · rw [hrp] at h; exact Nat.lt_irrefl _ h
      · apply h; rw [hrp, hji]; exact ⟨q, by simp⟩
    rw [PMem.set_other m f i _ t j hne]
    cases hto : tableOf (m t j) with
    | none => rfl
    | some t' =>
      have hr' : tblAt m p4 (r ++ [j]) = some t' := by
        rw [tblAt_append, hr]; simp [tblAt, hto]
      refine ih (r ++ [j]) t' hr' (by simpa using hlen) (by simpa using hidx) ?_
      rcases hoff with h | h
      · left; simp; omega
      · right; simpa using h

/-- The table tree after zeroing slot `(f, i)` of the table at `p`: everything at or below
`p ++ [i]` is gone, everything else is where it was. -/
theorem tblAt_unlink (m : PMem) (p4 : Word) (hwf : WF m p4) (p : List Nat) (f : Word) (i : Nat)
    (hp : tblAt m p4 p = some f) (hpl : p.length ≤ 3) (hpi : IdxOK p)
    (q : List Nat) (hq : q.length ≤ 3) (hqi : IdxOK q) :
    tblAt (m.set f i 0#64) p4 q = if p ++ [i] <+: q then none else tblAt m p4 q := by
  by_cases hpre : p ++ [i] <+: q
  · rw [if_pos hpre]
    obtain ⟨rest, hrest⟩ := hpre
    have hq' : q = p ++ ([i] ++ rest) := by rw [← hrest]; simp
    rw [hq', tblAt_append]
    have hpp : tblAt (m.set f i 0#64) p4 p = some f := by
      rw [tblAt_zero_off m p4 hwf p f i hp hpl hpi p [] p4 rfl (by simpa using hpl) (by simpa using hpi)
        (Or.inr (by
          intro ⟨x, hx⟩
          have := congrArg List.length hx
          simp at this))]
      exact hp
    rw [hpp]
    have h0 : tableOf (0#64 : Word) = none := by decide
    simp [tblAt, h0]
  · rw [if_neg hpre]
    exact tblAt_zero_off m p4 hwf p f i hp hpl hpi q [] p4 rfl (by simpa using hq) (by simpa using hqi)
      (Or.inr (by simpa using hpre))

/-- Unlinking keeps the invariant. -/
theorem Inv_unlink (m : PMem) (p4 : Word) (hinv : Inv m p4) (p : List Nat) (f : Word) (i : Nat)
    (hp : tblAt m p4 p = some f) (hpl : p.length ≤ 3) (hpi : IdxOK p) :
    Inv (m.set f i 0#64) p4 := by
  have T := tblAt_unlink m p4 hinv.wf p f i hp hpl hpi
  have back : ∀ q g, q.length ≤ 3 → IdxOK q → tblAt (m.set f i 0#64) p4 q = some g → tblAt m p4 q = some g := by
    intro q g hq hqi hg
    rw [T q hq hqi] at hg
    split at hg
    · cases hg
    · exact hg
  refine ⟨?_, ?_, ?_⟩
  · intro a b g ha hb hai hbi hga hgb
    exact hinv.wf a b g ha hb hai hbi (back a g ha hai hga) (back b g hb hbi hgb)
  · intro q g j hq hqi hg hj hne
    by_cases hw : g = f ∧ j = i
    · obtain ⟨h1, h2⟩ := hw; subst h1; subst h2
      rw [PMem.set_same] at hne; exact absurd rfl hne
    · rw [PMem.set_other m f i _ g j hw] at hne ⊢
      exact hinv.pres q g j hq hqi (back q g hq hqi hg) hj hne
  · intro j hj
    by_cases hw : p4 = f ∧ j = i
    · obtain ⟨h1, h2⟩ := hw; subst h1; subst h2
      rw [PMem.set_same]; decide
    · rw [PMem.set_other m f i _ p4 j hw]; exact hinv.p4nh j hj

/-- **Unlinking an empty table changes no translation.** `(f, i)` is a slot of the table at path
`p` (level ≥ 2) that points to the table `c`, all of whose 512 entries are zero. -/
theorem walk_unlink_empty (m : PMem) (p4 : Word) (hinv : Inv m p4) (p : List Nat) (f : Word) (i : Nat) (c : Word)
    (hp : tblAt m p4 p = some f) (hpl : p.length ≤ 2) (hpi : IdxOK p)
    (hc : tableOf (m f i) = some c) (hempty : ∀ j, j < 512 → m c j = 0#64) (va : Nat) :
    walk (m.set f i 0#64) p4 va = walk m p4 va := by
  by_cases hva : p ++ [i] <+: vaPath va
  · obtain ⟨rw, us, h1, h2⟩ := walk_set_on m p4 hinv.wf f i 0#64 va p hp (by omega) hva
    rw [h1, h2]
    have hz : ∀ m' lvl rw us, entryStep m' lvl 0#64 va rw us = none := by
      intro m' lvl rw us; unfold entryStep; simp [bitP]
    rw [hz]
    obtain ⟨hP, hS, hta⟩ := (tableOf_some_iff _ _).1 hc
    obtain ⟨k, hk⟩ : ∃ k, 4 - p.length = k + 2 := ⟨2 - p.length, by omega⟩
    rw [hk]
    have hdown : ∀ rw' us', walkFrom m (k + 1) c va rw' us' = none := by
      intro rw' us'
      rw [walkFrom_succ, hempty _ (vaIdx_lt _ _), hz]
    unfold entryStep
    by_cases h4 : k + 2 = 4
    · have : k = 2 := by omega
      subst this
      simp only [hP, hS, Bool.not_true, Bool.false_eq_true, if_false, if_true, ← hta]
      exact (hdown _ _).symm
    · have h1' : k + 2 ≠ 1 := by omega
      simp only [hP, hS, h4, h1', Bool.not_true, Bool.false_eq_true, if_false, ← hta]
      have : k + 2 - 1 = k + 1 := by omega
      rw [this]; exact (hdown _ _).symm
  · exact walk_set_off m p4 hinv.wf p f i _ hp (by omega) hpi va hva

/-! ### What a clean-up run guarantees -/

/-- Frames deallocated in a log segment, in order. -/
def deallocsIn (l : List Ev) : List Word :=
  l.filterMap fun ev => match ev with
    | .dealloc g => some g
    | _ => none

@[simp] theorem deallocsIn_nil : deallocsIn [] = [] := rfl
@[simp] theorem deallocsIn_append (a b : List Ev) : deallocsIn (a ++ b) = deallocsIn a ++ deallocsIn b := by
  simp [deallocsIn, List.filterMap_append]

/-- Every deallocation is immediately preceded by the write that zeroes the parent entry which
pointed (in memory `m0`) to the deallocated table: "only after unlinking it from its parent". -/
def UnlinkedBeforeFree (m0 : PMem) (seg : List Ev) : Prop :=
  ∀ pre g post, seg = pre ++ .dealloc g :: post →
    ∃ pre' f j, pre = pre' ++ [.wr f j 0#64] ∧ tableOf (m0 f j) = some g

theorem UnlinkedBeforeFree.of_noDealloc {m0 : PMem} {seg : List Ev} (h : ∀ g, Ev.dealloc g ∉ seg) :
    UnlinkedBeforeFree m0 seg := by
  intro pre g post hs
  exact absurd (by rw [hs]; simp) (h g)

theorem UnlinkedBeforeFree.append {m0 : PMem} {a b : List Ev} (ha : UnlinkedBeforeFree m0 a)
    (hb : UnlinkedBeforeFree m0 b) : UnlinkedBeforeFree m0 (a ++ b) := by
  intro pre g post hs
  rcases List.append_eq_append_iff.1 hs with ⟨a', h1, h2⟩ | ⟨c', h1, h2⟩
  · obtain ⟨pre', f, j, hp, ht⟩ := hb a' g post h2
    exact ⟨a ++ pre', f, j, by rw [h1, hp]; simp, ht⟩
  · cases c' with
    | nil =>
      simp at h2
      obtain ⟨pre', f, j, hp, ht⟩ := hb [] g post (by simpa using h2.symm)
      simp at hp
    | cons x c'' =>
      simp only [List.cons_append, List.cons.injEq] at h2
      obtain ⟨hx, _⟩ := h2
      subst hx
      exact ha pre g c'' h1

/-- `q` is a path strictly below `r`. -/
def Below (r q : List Nat) : Prop := r <+: q ∧ r.length < q.length

/-- Guarantees of a clean-up run from `s` to `s'` that works on the table at path `r` and its
subtree (`recSkip`: the level-4 index whose subtree must not be touched, if any). -/
structure CleanPost (p4 : Word) (recSkip : Option Nat) (r : List Nat) (s s' : St) (seg : List Ev) : Prop where
  inv : Inv s'.mem p4
  walk : ∀ va, walk s'.mem p4 va = walk s.mem p4 va
  allocs : s'.allocs = s.allocs
  events : s'.events = s.events ++ seg
  /-- memory changes only by zeroing entries of tables at or below `r` -/
  mem : ∀ f j, s'.mem f j ≠ s.mem f j →
    s'.mem f j = 0#64 ∧ ∃ q, q.length ≤ 2 ∧ IdxOK q ∧ r <+: q ∧ tblAt s.mem p4 q = some f
  /-- … and only entries that pointed to a table (present, not huge) which this run deallocates: a slot
  that holds a leaf — in particular a page mapped without `PRESENT` — is never modified -/
  link : ∀ f j, s'.mem f j ≠ s.mem f j → ∃ c, tableOf (s.mem f j) = some c ∧ c ∈ deallocsIn seg
  /-- tables only disappear … -/
  tree : ∀ q g, q.length ≤ 3 → IdxOK q → tblAt s'.mem p4 q = some g → tblAt s.mem p4 q = some g
  /-- … and only strictly below `r` -/
  keep : ∀ q g, q.length ≤ 3 → IdxOK q → tblAt s.mem p4 q = some g → ¬ Below r q → tblAt s'.mem p4 q = some g
  /-- the log: reads, zero-writes and deallocations only, all inside the subtree of `r` -/
  touch : ∀ ev ∈ seg, (∃ f j, (ev = .rd f j ∨ ev = .wr f j 0#64) ∧
      ∃ q, q.length ≤ 3 ∧ IdxOK q ∧ r <+: q ∧ tblAt s.mem p4 q = some f) ∨ (∃ g, ev = .dealloc g)
  /-- every deallocated frame was a table strictly below `r`, is unlinked now, is entirely zero, and
  does not hang under the recursive slot -/
  freed : ∀ g ∈ deallocsIn seg, ∃ q, q.length ≤ 3 ∧ IdxOK q ∧ Below r q ∧ tblAt s.mem p4 q = some g ∧
      tblAt s'.mem p4 q = none ∧ (∀ x, x < 512 → s'.mem g x = 0#64) ∧ (∀ x, recSkip = some x → q.head? ≠ some x)
  nodup : (deallocsIn seg).Nodup
  order : UnlinkedBeforeFree s.mem seg

theorem CleanPost.refl (p4 : Word) (recSkip : Option Nat) (r : List Nat) (s : St) (hinv : Inv s.mem p4) :
    CleanPost p4 recSkip r s s [] where
  inv := hinv
  walk := fun _ => rfl
  allocs := rfl
  events := by simp
  mem := by intro f j h; exact absurd rfl h
  link := by intro f j h; exact absurd rfl h
  tree := by intro q g _ _ h; exact h
  keep := by intro q g _ _ h _; exact h
  touch := by intro ev h; cases h
  freed := by intro g h; cases h
  nodup := by simp
  order := UnlinkedBeforeFree.of_noDealloc (by intro g h; cases h)

/-- reads of a table at or below `r` -/
theorem CleanPost.reads (p4 : Word) (recSkip : Option Nat) (r : List Nat) (s s' : St) (seg : List Ev) (hinv : Inv s.mem p4)
    (hm : s'.mem = s.mem) (ha : s'.allocs = s.allocs) (he : s'.events = s.events ++ seg)
    (f : Word) (q : List Nat) (hq : q.length ≤ 3) (hqi : IdxOK q) (hrq : r <+: q) (hf : tblAt s.mem p4 q = some f)
    (hseg : ∀ ev ∈ seg, ∃ j, ev = .rd f j) : CleanPost p4 recSkip r s s' seg where
  inv := hm ▸ hinv
  walk := fun _ => by rw [hm]
  allocs := ha
  events := he
  mem := by intro f j h; rw [hm] at h; exact absurd rfl h
  link := by intro f j h; rw [hm] at h; exact absurd rfl h
  tree := by intro q g _ _ h; rw [hm] at h; exact h
  keep := by intro q g _ _ h _; rw [hm]; exact h
  touch := by
    intro ev hev
    obtain ⟨j, rfl⟩ := hseg ev hev
    exact Or.inl ⟨f, j, Or.inl rfl, q, hq, hqi, hrq, hf⟩
  freed := by
    intro g hg
    have : deallocsIn seg = [] := by
      unfold deallocsIn
      rw [List.filterMap_eq_nil_iff]
      intro ev hev; obtain ⟨j, rfl⟩ := hseg ev hev; rfl
    rw [this] at hg; cases hg
  nodup := by
    have : deallocsIn seg = [] := by
      unfold deallocsIn
      rw [List.filterMap_eq_nil_iff]
      intro ev hev; obtain ⟨j, rfl⟩ := hseg ev hev; rfl
    rw [this]; simp
  order := UnlinkedBeforeFree.of_noDealloc (by
    intro g hg; obtain ⟨j, h⟩ := hseg _ hg; cases h)

theorem Below.of_ext {r e q : List Nat} (h : Below (r ++ e) q) : Below r q := by
  obtain ⟨⟨x, hx⟩, hl⟩ := h
  refine ⟨⟨e ++ x, by rw [← hx]; simp⟩, ?_⟩
  simp at hl; omega

theorem prefix_of_ext {r e q : List Nat} (h : r ++ e <+: q) : r <+: q := by
  obtain ⟨x, hx⟩ := h
  exact ⟨e ++ x, by rw [← hx]; simp⟩

/-- A run on a subtree is a run on any enclosing subtree. -/
theorem CleanPost.lift {p4 : Word} {rs : Option Nat} {r e : List Nat} {s s' : St} {seg : List Ev}
    (h : CleanPost p4 rs (r ++ e) s s' seg) : CleanPost p4 rs r s s' seg where
  inv := h.inv
  walk := h.walk
  allocs := h.allocs
  events := h.events
  mem := by
    intro f j hne
    obtain ⟨h0, q, hq, hqi, hrq, hf⟩ := h.mem f j hne
    exact ⟨h0, q, hq, hqi, prefix_of_ext hrq, hf⟩
  link := h.link
  tree := h.tree
  keep := by
    intro q g hq hqi hg hnb
    exact h.keep q g hq hqi hg (fun hb => hnb hb.of_ext)
  touch := by
    intro ev hev
    rcases h.touch ev hev with ⟨f, j, hk, q, hq, hqi, hrq, hf⟩ | hd
    · exact Or.inl ⟨f, j, hk, q, hq, hqi, prefix_of_ext hrq, hf⟩
    · exact Or.inr hd
  freed := by
    intro g hg
    obtain ⟨q, hq, hqi, hb, h1, h2, h3, h4⟩ := h.freed g hg
    exact ⟨q, hq, hqi, hb.of_ext, h1, h2, h3, h4⟩
  nodup := h.nodup
  order := h.order

theorem UnlinkedBeforeFree.mono {m0 m1 : PMem} {seg : List Ev} (h : UnlinkedBeforeFree m1 seg)
    (hm : ∀ f j g, tableOf (m1 f j) = some g → tableOf (m0 f j) = some g) : UnlinkedBeforeFree m0 seg := by
  intro pre g post hs
  obtain ⟨pre', f, j, hp, ht⟩ := h pre g post hs
  exact ⟨pre', f, j, hp, hm f j g ht⟩

/-- Two consecutive runs on the same subtree. -/
theorem CleanPost.trans {p4 : Word} {rs : Option Nat} {r : List Nat} {s s1 s2 : St} {a b : List Ev}
    (hinv : Inv s.mem p4) (h1 : CleanPost p4 rs r s s1 a) (h2 : CleanPost p4 rs r s1 s2 b) :
    CleanPost p4 rs r s s2 (a ++ b) where
  inv := h2.inv
  walk := fun va => (h2.walk va).trans (h1.walk va)
  allocs := h2.allocs.trans h1.allocs
  events := by rw [h2.events, h1.events]; simp
  mem := by
    intro f j hne
    by_cases h : s2.mem f j = s1.mem f j
    · obtain ⟨h0, q, hq, hqi, hrq, hf⟩ := h1.mem f j (by rw [← h]; exact hne)
      exact ⟨h.trans h0, q, hq, hqi, hrq, hf⟩
    · obtain ⟨h0, q, hq, hqi, hrq, hf⟩ := h2.mem f j h
      exact ⟨h0, q, hq, hqi, hrq, h1.tree q f (by omega) hqi hf⟩
  link := by
    intro f j hne
    by_cases h : s2.mem f j = s1.mem f j
    · obtain ⟨c, hc, hd⟩ := h1.link f j (by rw [← h]; exact hne)
      exact ⟨c, hc, by rw [deallocsIn_append]; exact List.mem_append_left _ hd⟩
    · obtain ⟨c, hc, hd⟩ := h2.link f j h
      by_cases h' : s1.mem f j = s.mem f j
      · exact ⟨c, by rw [← h']; exact hc, by rw [deallocsIn_append]; exact List.mem_append_right _ hd⟩
      · have := (h1.mem f j h').1
        rw [this] at hc
        have h0 : tableOf (0#64 : Word) = none := by decide
        rw [h0] at hc; cases hc
  tree := by intro q g hq hqi hg; exact h1.tree q g hq hqi (h2.tree q g hq hqi hg)
  keep := by intro q g hq hqi hg hnb; exact h2.keep q g hq hqi (h1.keep q g hq hqi hg hnb) hnb
  touch := by
    intro ev hev
    rcases List.mem_append.1 hev with h | h
    · exact h1.touch ev h
    · rcases h2.touch ev h with ⟨f, j, hk, q, hq, hqi, hrq, hf⟩ | hd
      · exact Or.inl ⟨f, j, hk, q, hq, hqi, hrq, h1.tree q f hq hqi hf⟩
      · exact Or.inr hd
  freed := by
    have zero2 : ∀ g x, s1.mem g x = 0#64 → s2.mem g x = 0#64 := by
      intro g x h0
      by_cases h : s2.mem g x = s1.mem g x
      · rw [h, h0]
      · exact (h2.mem g x h).1
    intro g hg
    rw [deallocsIn_append] at hg
    rcases List.mem_append.1 hg with h | h
    · obtain ⟨q, hq, hqi, hb, e1, e2, e3, e4⟩ := h1.freed g h
      refine ⟨q, hq, hqi, hb, e1, ?_, fun x hx => zero2 g x (e3 x hx), e4⟩
      cases hx : tblAt s2.mem p4 q with
      | none => rfl
      | some y => have := h2.tree q y hq hqi hx; rw [e2] at this; cases this
    · obtain ⟨q, hq, hqi, hb, e1, e2, e3, e4⟩ := h2.freed g h
      exact ⟨q, hq, hqi, hb, h1.tree q g hq hqi e1, e2, e3, e4⟩
  nodup := by
    rw [deallocsIn_append, List.nodup_append]
    refine ⟨h1.nodup, h2.nodup, ?_⟩
    intro g hga g' hgb hgg
    subst hgg
    obtain ⟨qa, hqa, hqai, _, a1, a2, _, _⟩ := h1.freed g hga
    obtain ⟨qb, hqb, hqbi, _, b1, _, _, _⟩ := h2.freed g hgb
    have b1' := h1.tree qb g hqb hqbi b1
    have : qa = qb := hinv.wf qa qb g hqa hqb hqai hqbi a1 b1'
    subst this
    rw [a2] at b1; cases b1
  order := by
    apply h1.order.append
    apply h2.order.mono
    intro f j g ht
    by_cases h : s1.mem f j = s.mem f j
    · rw [← h]; exact ht
    · have := (h1.mem f j h).1
      rw [this] at ht
      have h0 : tableOf (0#64 : Word) = none := by decide
      rw [h0] at ht; cases ht

/-- **Unlink-and-free of an empty child table.** -/
theorem CleanPost.unlink (p4 : Word) (rs : Option Nat) (r : List Nat) (tbl : Word) (i : Nat) (c : Word) (s : St)
    (hinv : Inv s.mem p4) (hr : tblAt s.mem p4 r = some tbl) (hrl : r.length ≤ 2) (hri : IdxOK r) (hi : i < 512)
    (hc : tableOf (s.mem tbl i) = some c) (hempty : ∀ x, x < 512 → s.mem c x = 0#64)
    (hskip : ∀ x, rs = some x → (r ++ [i]).head? ≠ some x) :
    CleanPost p4 rs r s ((s.wr tbl i 0#64).dealloc c) [.wr tbl i 0#64, .dealloc c] := by
  have T := tblAt_unlink s.mem p4 hinv.wf r tbl i hr (by omega) hri
  have hri' : IdxOK (r ++ [i]) := IdxOK_append.2 ⟨hri, fun j hj => by simp at hj; rw [hj]; exact hi⟩
  have hrc : tblAt s.mem p4 (r ++ [i]) = some c := by
    rw [tblAt_append, hr]; simp [tblAt, hc]
  refine ⟨?_, ?_, rfl, by simp, ?_, ?_, ?_, ?_, ?_, ?_, by simp [deallocsIn], ?_⟩
  · exact Inv_unlink s.mem p4 hinv r tbl i hr (by omega) hri
  · intro va; exact walk_unlink_empty s.mem p4 hinv r tbl i c hr hrl hri hc hempty va
  · intro f j hne
    simp only [St.dealloc_mem, St.wr_mem] at hne ⊢
    by_cases hw : f = tbl ∧ j = i
    · obtain ⟨h1, h2⟩ := hw; subst h1; subst h2
      exact ⟨PMem.set_same _ _ _ _, r, hrl, hri, List.prefix_refl _, hr⟩
    · exact absurd (PMem.set_other s.mem tbl i _ f j hw) hne
  · intro f j hne
    simp only [St.dealloc_mem, St.wr_mem] at hne
    by_cases hw : f = tbl ∧ j = i
    · obtain ⟨h1, h2⟩ := hw; subst h1; subst h2
      exact ⟨c, hc, by simp [deallocsIn]⟩
    · exact absurd (PMem.set_other s.mem tbl i _ f j hw) hne
  · intro q g hq hqi hg
    simp only [St.dealloc_mem, St.wr_mem] at hg
    rw [T q hq hqi] at hg
    split at hg
    · cases hg
    · exact hg
  · intro q g hq hqi hg hnb
    simp only [St.dealloc_mem, St.wr_mem]
    rw [T q hq hqi, if_neg]
    · exact hg
    · intro hpre
      apply hnb
      refine ⟨prefix_of_ext hpre, ?_⟩
      obtain ⟨x, hx⟩ := hpre
      have := congrArg List.length hx
      simp at this; omega
  · intro ev hev
    simp at hev
    rcases hev with rfl | rfl
    · exact Or.inl ⟨tbl, i, Or.inr rfl, r, by omega, hri, List.prefix_refl _, hr⟩
    · exact Or.inr ⟨c, rfl⟩
  · intro g hg
    simp [deallocsIn] at hg
    subst hg
    refine ⟨r ++ [i], by simp; omega, hri', ⟨List.prefix_append _ _, by simp⟩, hrc, ?_, ?_, hskip⟩
    · simp only [St.dealloc_mem, St.wr_mem]
      rw [T (r ++ [i]) (by simp; omega) hri', if_pos (List.prefix_refl _)]
    · intro x hx
      simp only [St.dealloc_mem, St.wr_mem]
      by_cases hw : g = tbl ∧ x = i
      · obtain ⟨h1, h2⟩ := hw; subst h1; subst h2; exact PMem.set_same _ _ _ _
      · rw [PMem.set_other s.mem tbl i _ g x hw]; exact hempty x hx
  · intro pre g post hs
    cases pre with
    | nil => simp at hs
    | cons a pre =>
      simp only [List.cons_append, List.cons.injEq] at hs
      obtain ⟨ha, hs⟩ := hs
      cases pre with
      | nil =>
        simp only [List.nil_append, List.cons.injEq, Ev.dealloc.injEq] at hs
        obtain ⟨hg, _⟩ := hs
        subst hg; subst ha
        exact ⟨[], tbl, i, rfl, hc⟩
      | cons b pre =>
        simp only [List.cons_append, List.cons.injEq] at hs
        obtain ⟨_, hs⟩ := hs
        exact absurd hs (by simp)

/-! ### The emptiness test -/

private theorem tableIsEmpty_go_spec (tbl : Word) : ∀ (fuel : Nat) (s : St) (i : Nat),
    (tableIsEmpty.go tbl s i fuel).2.mem = s.mem ∧ (tableIsEmpty.go tbl s i fuel).2.allocs = s.allocs ∧
    (∃ seg, (tableIsEmpty.go tbl s i fuel).2.events = s.events ++ seg ∧ ∀ ev ∈ seg, ∃ j, ev = Ev.rd tbl j) ∧
    ((tableIsEmpty.go tbl s i fuel).1 = true ↔ ∀ j, i ≤ j → j < i + fuel → s.mem tbl j = 0#64) := by
  intro fuel
  induction fuel with
  | zero =>
    intro s i
    refine ⟨rfl, rfl, ⟨[], by simp [tableIsEmpty.go], by intro ev h; cases h⟩, ?_⟩
    simp [tableIsEmpty.go]
    intro j h1 h2; omega
  | succ n ih =>
    intro s i
    simp only [tableIsEmpty.go, St.rd_fst]
    by_cases hz : Pte.isUnused (s.mem tbl i) = true
    · simp only [hz, if_true]
      obtain ⟨h1, h2, ⟨seg, h3, h4⟩, h5⟩ := ih (s.rd tbl i).2 (i + 1)
      refine ⟨by simpa using h1, by simpa using h2, ⟨.rd tbl i :: seg, by rw [h3]; simp, ?_⟩, ?_⟩
      · intro ev hev
        rcases List.mem_cons.1 hev with h | h
        · exact ⟨i, h⟩
        · exact h4 ev h
      · rw [h5]
        have h0 : s.mem tbl i = 0#64 := by simpa [Pte.isUnused] using hz
        simp only [St.rd_mem]
        constructor
        · intro h j hj1 hj2
          by_cases hji : j = i
          · rw [hji]; exact h0
          · exact h j (by omega) (by omega)
        · intro h j hj1 hj2; exact h j (by omega) (by omega)
    · simp only [hz, Bool.false_eq_true, if_false]
      refine ⟨rfl, rfl, ⟨[.rd tbl i], by simp, by intro ev h; simp at h; exact ⟨i, h⟩⟩, ?_⟩
      simp only [Bool.false_eq_true, false_iff]
      intro h
      apply hz
      have := h i (Nat.le_refl _) (by omega)
      simp [Pte.isUnused, this]

theorem tableIsEmpty_spec (s : St) (tbl : Word) :
    (tableIsEmpty s tbl).2.mem = s.mem ∧ (tableIsEmpty s tbl).2.allocs = s.allocs ∧
    (∃ seg, (tableIsEmpty s tbl).2.events = s.events ++ seg ∧ ∀ ev ∈ seg, ∃ j, ev = Ev.rd tbl j) ∧
    ((tableIsEmpty s tbl).1 = true ↔ ∀ j, j < 512 → s.mem tbl j = 0#64) := by
  obtain ⟨h1, h2, h3, h4⟩ := tableIsEmpty_go_spec tbl 512 s 0
  refine ⟨h1, h2, h3, ?_⟩
  unfold tableIsEmpty
  rw [h4]
  constructor
  · intro h j hj; exact h j (Nat.zero_le _) (by omega)
  · intro h j _ hj; exact h j (by omega)

/-- The emptiness test as a clean-up step on the table at `r`. -/
theorem CleanPost.isEmpty (p4 : Word) (rs : Option Nat) (r : List Nat) (tbl : Word) (s : St) (hinv : Inv s.mem p4)
    (hr : tblAt s.mem p4 r = some tbl) (hrl : r.length ≤ 3) (hri : IdxOK r) :
    ∃ seg, CleanPost p4 rs r s (tableIsEmpty s tbl).2 seg := by
  obtain ⟨h1, h2, ⟨seg, h3, h4⟩, _⟩ := tableIsEmpty_spec s tbl
  exact ⟨seg, CleanPost.reads p4 rs r s _ seg hinv h1 h2 h3 tbl r hrl hri (List.prefix_refl _) hr h4⟩

theorem foldl_inv {α β : Type} (P : β → Prop) (F : β → α → β) : ∀ (l : List α) (init : β),
    P init → (∀ acc a, a ∈ l → P acc → P (F acc a)) → P (l.foldl F init) := by
  intro l
  induction l with
  | nil => intro init h _; exact h
  | cons a l ih =>
    intro init h hstep
    rw [List.foldl_cons]
    exact ih _ (hstep init a (by simp) h) (fun acc b hb hp => hstep acc b (List.mem_cons_of_mem _ hb) hp)

/-- The level-4 index whose subtree clean-up must leave alone. -/
def recSkipOf (k : Kind) (rIdx : Nat) : Option Nat := if k.recursive then some rIdx else none

/-- The loop invariant of the entry loop of `cleanUpLevel` on the table at `r` (relative to the state
`s` the call started in). -/
def LoopInv (p4 : Word) (rs : Option Nat) (r : List Nat) (s : St) (acc : R Unit × St) : Prop :=
  ∃ seg, CleanPost p4 rs r s acc.2 seg

/-- **The recursive clean-up helper** on the table `tbl` at path `r` (level `lvl`, `r.length + lvl = 4`),
for any range arguments whatsoever and any mapper kind: whatever it returns (including a panic), the
run satisfies `CleanPost`; and when it answers "the table is now empty", all 512 entries are zero. -/
theorem cleanUpLevel_post (k : Kind) (rIdx : Nat) (p4 : Word) :
    ∀ (lvl : Nat) (r : List Nat) (tbl : Word) (s : St) (rs re : Nat),
      Inv s.mem p4 → tblAt s.mem p4 r = some tbl → r.length + lvl = 4 → IdxOK r →
      (∀ x, recSkipOf k rIdx = some x → r ≠ [] → r.head? ≠ some x) →
      (∃ seg, CleanPost p4 (recSkipOf k rIdx) r s (cleanUpLevel k rIdx lvl s tbl rs re).2 seg) ∧
      ((cleanUpLevel k rIdx lvl s tbl rs re).1 = .ok true →
        ∀ j, j < 512 → (cleanUpLevel k rIdx lvl s tbl rs re).2.mem tbl j = 0#64) := by
  intro lvl
  induction lvl with
  | zero =>
    intro r tbl s rs re hinv _ _ _ _
    refine ⟨⟨[], by simpa [cleanUpLevel] using CleanPost.refl p4 _ r s hinv⟩, ?_⟩
    intro h; simp [cleanUpLevel] at h
  | succ level ih =>
    intro r tbl s rs re hinv hr hlen hri hskip
    have hrl : r.length ≤ 3 := by omega
    unfold cleanUpLevel
    simp only
    split
    · exact ⟨⟨[], CleanPost.refl p4 _ r s hinv⟩, by intro h; cases h⟩
    · split
      · exact ⟨⟨[], CleanPost.refl p4 _ r s hinv⟩, by intro h; cases h⟩
      · split
        · -- level 1: only the emptiness test
          obtain ⟨h1, _, _, h4⟩ := tableIsEmpty_spec s tbl
          refine ⟨CleanPost.isEmpty p4 _ r tbl s hinv hr hrl hri, ?_⟩
          intro hres j hj
          simp only [R.ok.injEq] at hres
          rw [h1]; exact h4.1 hres j hj
        · -- levels 2..4: the loop, then the emptiness test
          rename_i hl1
          have hrl2 : r.length ≤ 2 := by omega
          have hloop : ∀ (F : R Unit × St → Nat → R Unit × St) (l : List Nat) (x : R Unit × St),
              (∀ acc i, i ∈ l → LoopInv p4 (recSkipOf k rIdx) r s acc → LoopInv p4 (recSkipOf k rIdx) r s (F acc i)) →
              List.foldl F (R.ok (), s) l = x → LoopInv p4 (recSkipOf k rIdx) r s x := by
            intro F l x hF hx
            rw [← hx]
            exact foldl_inv (LoopInv p4 (recSkipOf k rIdx) r s) F l _ ⟨[], CleanPost.refl p4 _ r s hinv⟩ hF
          have hmemi : ∀ i, i ∈ (List.range (VirtAddr.pageTableIndex re (level + 1) + 1)).drop
              (VirtAddr.pageTableIndex rs (level + 1)) → i < 512 := by
            intro i hi
            have := List.mem_of_mem_drop hi
            have := List.mem_range.1 this
            have : VirtAddr.pageTableIndex re (level + 1) < 512 := by
              unfold VirtAddr.pageTableIndex; exact Nat.mod_lt _ (by decide)
            omega
          generalize hX : List.foldl _ (R.ok (), s) _ = X
          have hl : LoopInv p4 (recSkipOf k rIdx) r s X := by
            refine hloop _ _ _ ?_ hX
            intro acc i hmem hacc
            have hi : i < 512 := hmemi i hmem
            obtain ⟨ra, s0⟩ := acc
            obtain ⟨seg0, hp0⟩ := hacc
            cases ra with
            | panic => exact ⟨seg0, hp0⟩
            | ok u =>
              cases u
              simp only
              split
              · exact ⟨seg0, hp0⟩
              · rename_i hnskip
                -- the table is still where it was
                have hr0 : tblAt s0.mem p4 r = some tbl :=
                  hp0.keep r tbl hrl hri hr (fun hb => Nat.lt_irrefl _ hb.2)
                -- the read of the entry
                have hrd : CleanPost p4 (recSkipOf k rIdx) r s0 (s0.rd tbl i).2 [.rd tbl i] :=
                  CleanPost.reads p4 _ r s0 _ _ hp0.inv rfl rfl (by simp) tbl r hrl hri (List.prefix_refl _) hr0
                    (by intro ev h; simp at h; exact ⟨i, h⟩)
                have hp1 := CleanPost.trans hinv hp0 hrd
                split
                · exact ⟨_, hp1⟩
                · rename_i child hnt
                  split
                  · exact ⟨_, hp1⟩
                  · split
                    · exact ⟨_, hp1⟩
                    · rename_i st0 _ _ en0 _
                      have hto : tableOf (s0.mem tbl i) = some child := (nextTable_ok_iff _ _).1 (by simpa using hnt)
                      have hri' : IdxOK (r ++ [i]) := IdxOK_append.2 ⟨hri, fun j hj => by simp at hj; rw [hj]; exact hi⟩
                      have hrc : tblAt (s0.rd tbl i).2.mem p4 (r ++ [i]) = some child := by
                        simp only [St.rd_mem]
                        rw [tblAt_append, hr0]; simp [tblAt, hto]
                      have hskip' : ∀ x, recSkipOf k rIdx = some x → r ++ [i] ≠ [] → (r ++ [i]).head? ≠ some x := by
                        intro x hx _
                        cases r with
                        | nil =>
                          simp only [List.nil_append, List.head?_cons, ne_eq, Option.some.injEq]
                          intro hix
                          apply hnskip
                          unfold recSkipOf at hx
                          split at hx
                          · rename_i hk
                            have hl4 : level + 1 = 4 := by simp at hlen; omega
                            simp only [Option.some.injEq] at hx
                            simp [hk, hl4, hix, hx]
                          · cases hx
                        | cons a r' =>
                          simpa using hskip x hx (by simp)
                      obtain ⟨⟨seg1, hc1⟩, hres1⟩ := ih (r ++ [i]) child (s0.rd tbl i).2
                        (max (Page.containingAddress 4096 st0) rs) (min (Page.containingAddress 4096 en0) re)
                        hp1.inv hrc (by simp; omega) hri' hskip'
                      have hp2 := CleanPost.trans hinv hp1 hc1.lift
                      split
                      · rename_i heq; rw [heq] at hp2; exact ⟨_, hp2⟩
                      · rename_i heq; rw [heq] at hp2; exact ⟨_, hp2⟩
                      · rename_i s1 heq
                        rw [heq] at hp2 hres1 hc1
                        simp only at hp2 hres1 hc1
                        -- the child is empty; the parent entry still points to it
                        have hempty := hres1 trivial
                        have hr1 : tblAt s1.mem p4 r = some tbl :=
                          hp2.keep r tbl hrl hri hr (fun hb => Nat.lt_irrefl _ hb.2)
                        have hsame : s1.mem tbl i = s0.mem tbl i := by
                          apply Classical.byContradiction
                          intro hne
                          obtain ⟨_, q, hq, hqi, hrq, hf⟩ := hc1.mem tbl i hne
                          have hr0' : tblAt (s0.rd tbl i).2.mem p4 r = some tbl := by simpa using hr0
                          have : q = r := hp1.inv.wf q r tbl (by omega) hrl hqi hri hf hr0'
                          rw [this] at hrq
                          obtain ⟨x, hx⟩ := hrq
                          have := congrArg List.length hx
                          simp at this
                        have hto1 : tableOf (s1.mem tbl i) = some child := by rw [hsame]; exact hto
                        have hu := CleanPost.unlink p4 (recSkipOf k rIdx) r tbl i child s1 hp2.inv hr1 hrl2 hri hi hto1
                          hempty (fun x hx => hskip' x hx (by simp))
                        exact ⟨_, CleanPost.trans hinv hp2 hu⟩
          -- the loop is done; the emptiness test
          obtain ⟨rx, s2⟩ := X
          obtain ⟨seg2, hp2⟩ := hl
          cases rx with
          | panic => exact ⟨⟨seg2, hp2⟩, by intro h; cases h⟩
          | ok u =>
            cases u
            simp only
            have hr2 : tblAt s2.mem p4 r = some tbl :=
              hp2.keep r tbl hrl hri hr (fun hb => Nat.lt_irrefl _ hb.2)
            obtain ⟨seg3, hp3⟩ := CleanPost.isEmpty p4 (recSkipOf k rIdx) r tbl s2 hp2.inv hr2 hrl hri
            obtain ⟨h1, _, _, h4⟩ := tableIsEmpty_spec s2 tbl
            refine ⟨⟨_, CleanPost.trans hinv hp2 hp3⟩, ?_⟩
            intro hres j hj
            simp only [R.ok.injEq] at hres
            rw [h1]; exact h4.1 hres j hj

end X86
