/-
Small bridge lemmas between `BitVec` words and their `Nat` values, used by the instruction-level
properties (C11, C16–C18).
-/
import X86Model.Spec.Insn

namespace X86
open X86.Spec

/-- Masking a 32-bit word to a port width is reduction modulo `2^width`. -/
theorem Width.mask_toNat (w : Width) (x : BitVec 32) :
    (x &&& w.mask).toNat = x.toNat % 2 ^ w.bits := by
  cases w <;> simp only [Width.mask, Width.bits, BitVec.toNat_and, BitVec.toNat_ofNat,
    Nat.reducePow, Nat.reduceMod]
  · exact Nat.and_two_pow_sub_one_eq_mod x.toNat 8
  · exact Nat.and_two_pow_sub_one_eq_mod x.toNat 16
  · exact Nat.and_two_pow_sub_one_eq_mod x.toNat 32

/-- Zero-extending to 64 bits and truncating back is the identity. -/
theorem trunc32_zext64 (x : BitVec 32) : (x.zeroExtend 64).truncate 32 = x := by
  ext i hi
  simp only [BitVec.truncate_eq_setWidth, BitVec.getElem_setWidth, BitVec.getLsbD_setWidth]
  simp [hi]; omega

end X86
