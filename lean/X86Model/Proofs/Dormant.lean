/-
Helper lemmas for pages mapped WITHOUT the `PRESENT` flag (`Properties/C01Dormant.lean`): what the
software descents do when the page's tables exist, the frame of `map_to`'s descent when no table is
missing, and bit-level facts about non-present leaf words.
-/
import X86Model.Proofs.MapperLog

namespace X86
open X86.Spec

/-! ### Descents along an existing path -/

/-- The recursive mapper's `next_table` variant follows every table link. -/
theorem nextTableU_of_tableOf (e t : Word) (h : tableOf e = some t) : nextTableU e = .ok t := by
  obtain ⟨hP, hS, ht⟩ := (tableOf_some_iff e t).1 h
  have hne : Pte.isUnused e = false := by
    unfold Pte.isUnused
    have : e ≠ 0#64 := by
      intro h0; rw [h0] at hP; simp [bitP] at hP
    simp [this]
  unfold nextTableU
  rw [hne, huge_eq_bitPS, hS, addr_eq_tableAddr, ← ht]
  simp

theorem descendU_of_tblAt : ∀ (path : List Nat) (s : St) (t r : Word), tblAt s.mem t path = some r →
    (descendU s t path).1 = .ok r ∧ (descendU s t path).2.mem = s.mem := by
  intro path
  induction path with
  | nil => intro s t r h; simp [tblAt] at h; subst h; exact ⟨rfl, rfl⟩
  | cons i rest ih =>
    intro s t r h
    simp only [tblAt] at h
    cases hto : tableOf (s.mem t i) with
    | none => rw [hto] at h; cases h
    | some t' =>
      rw [hto] at h
      simp only [descendU, St.rd_fst, nextTableU_of_tableOf _ _ hto]
      exact ih (s.rd t i).2 t' r h

/-- Every mapper kind's descent reaches the table at an existing path, without changing memory. -/
theorem descendK_of_tblAt (k : Kind) (path : List Nat) (s : St) (t r : Word) (h : tblAt s.mem t path = some r) :
    (descendK k s t path).1 = .ok r ∧ (descendK k s t path).2.mem = s.mem := by
  unfold descendK
  by_cases hk : k.recursive = true
  · simp only [hk, if_true]; exact descendU_of_tblAt path s t r h
  · simp only [hk]
    exact ⟨(descend_ok_iff s t path r).2 h, descend_mem s t path⟩

/-- **`translate_page`** (any mapper kind) on a page whose tables exist and whose slot holds the non-zero
word `e` (present or not): it reports the frame `e` names. -/
theorem translatePage_of_slot (k : Kind) (s : St) (p4 : Word) (parents : List Nat) (li : Nat) (huge : Bool) (sz : Nat)
    (t : Word) (ht : tblAt s.mem p4 parents = some t) (hne : s.mem t li ≠ 0#64)
    (hh : huge = true → Pte.huge (s.mem t li) = true ∧ alignedTo (Pte.hugeAddr (s.mem t li)) sz = true) :
    (translatePage k s p4 parents li huge sz).1 =
      .ok (if huge then Pte.hugeAddr (s.mem t li) else Pte.addr (s.mem t li)) := by
  obtain ⟨h1, h2⟩ := descendK_of_tblAt k parents s p4 t ht
  unfold translatePage
  cases hd : descendK k s p4 parents with
  | mk res s1 =>
    rw [hd] at h1 h2
    simp only at h1 h2
    subst h1
    have hu : Pte.isUnused (s.mem t li) = false := by simp [Pte.isUnused, hne]
    simp only [St.rd_fst, h2, hu, Bool.false_eq_true, if_false]
    cases huge with
    | false => simp
    | true =>
      obtain ⟨a, b⟩ := hh rfl
      simp [a, b]

/-- **`update_flags`** (any mapper kind) succeeds on a page whose tables exist and whose slot holds a
non-zero word (present or not) — with the huge bit for a huge-page request. -/
theorem updateFlags_of_slot (k : Kind) (s : St) (p4 : Word) (parents : List Nat) (li : Nat) (huge : Bool)
    (flags : Word) (t : Word) (ht : tblAt s.mem p4 parents = some t) (hne : s.mem t li ≠ 0#64)
    (hh : huge = true → Pte.huge (s.mem t li) = true) :
    (updateFlags k s p4 parents li huge flags).1 = .ok () := by
  obtain ⟨h1, h2⟩ := descendK_of_tblAt k parents s p4 t ht
  unfold updateFlags
  cases hd : descendK k s p4 parents with
  | mk res s1 =>
    rw [hd] at h1 h2
    simp only at h1 h2
    subst h1
    have hu : Pte.isUnused (s.mem t li) = false := by simp [Pte.isUnused, hne]
    simp only [St.rd_fst, h2, hu, Bool.false_eq_true, if_false]
    cases huge with
    | false => simp
    | true => simp [hh rfl]

/-- **`unmap`** reports `PageNotMapped` for a slot whose word is not present, and changes nothing. -/
theorem unmap_of_not_present (s : St) (p4 : Word) (parents : List Nat) (li : Nat) (huge : Bool) (sz : Nat)
    (t : Word) (ht : tblAt s.mem p4 parents = some t) (hnp : Pte.present (s.mem t li) = false) :
    (unmap s p4 parents li huge sz).1 = .error .notMapped ∧ (unmap s p4 parents li huge sz).2.mem = s.mem := by
  have h1 := (descend_ok_iff s p4 parents t).2 ht
  have h2 := descend_mem s p4 parents
  unfold unmap
  cases hd : descend s p4 parents with
  | mk res s1 =>
    rw [hd] at h1 h2
    simp only at h1 h2
    subst h1
    simp [h2, hnp]

/-! ### The descent of `map_to` when no table is missing -/

/-- When no table on the page's path is missing, the descent of `map_to` modifies at most the parent
entries on that path (it may add the requested parent flags): every modified word lies in a table at a
strict prefix of the path — never in the table that holds the page's slot. -/
theorem createPath_exists_mem (k : Kind) (pflags : Word) (p4 : Word) (hpf : ParentFlagsOK pflags) :
    ∀ (parents r : List Nat) (tbl t : Word) (s : St),
      Inv s.mem p4 → tblAt s.mem p4 r = some tbl → tblAt s.mem p4 (r ++ parents) = some t →
      r.length + parents.length ≤ 3 → IdxOK (r ++ parents) →
      ∀ g j, (createPath k pflags s tbl parents).2.mem g j ≠ s.mem g j →
        ∃ q, q.length < r.length + parents.length ∧ q.length ≤ 3 ∧ IdxOK q ∧ tblAt s.mem p4 q = some g := by
  intro parents
  induction parents with
  | nil =>
    intro r tbl t s _ _ _ _ _ g j hne
    simp [createPath] at hne
  | cons i parents ih =>
    intro r tbl t s hinv hr ht hlen hidx g j hne
    have hrl : r.length ≤ 2 := by simp at hlen; omega
    have hri : IdxOK r := (IdxOK_append.1 hidx).1
    have hi : i < 512 := (IdxOK_append.1 hidx).2 i (by simp)
    have hsplit : tblAt s.mem p4 (r ++ i :: parents) = (tblAt s.mem tbl [i]).bind (fun t' => tblAt s.mem t' parents) := by
      rw [show r ++ i :: parents = r ++ ([i] ++ parents) from by simp, tblAt_append, hr]
      simp only [Option.bind_some]
      exact tblAt_append s.mem tbl [i] parents
    rw [hsplit] at ht
    cases hto : tableOf (s.mem tbl i) with
    | none => simp [tblAt, hto] at ht
    | some t1 =>
      have ht' : tblAt s.mem t1 parents = some t := by simpa [tblAt, hto] using ht
      obtain ⟨hP, hS, ht1⟩ := (tableOf_some_iff _ _).1 hto
      obtain ⟨s1, hc, hs1⟩ := createNextTable_existing k s tbl i pflags t1 hpf hto
      have hr1 : tblAt s.mem p4 (r ++ [i]) = some t1 := by
        rw [tblAt_append, hr]; simp [tblAt, hto]
      have hfull : tblAt s.mem p4 ((r ++ [i]) ++ parents) = some t := by
        rw [tblAt_append, hr1]; simpa using ht'
      simp only [createPath, hc] at hne
      rcases hs1 with rfl | rfl
      · obtain ⟨q, hq, hq3, hqi, hg⟩ := ih (r ++ [i]) t1 t (s.rd tbl i).2 hinv hr1 hfull
          (by simp at hlen ⊢; omega) (by simpa using hidx) g j hne
        exact ⟨q, by simp at hq ⊢; omega, hq3, hqi, hg⟩
      · obtain ⟨b1, b2, b3⟩ := or_flags_bits (s.mem tbl i) pflags (by rw [present_eq_bitP]; exact hP)
          (by rw [huge_eq_bitPS]; exact hS) hpf
        obtain ⟨i1, i2, _⟩ := set_table_entry s.mem p4 hinv r tbl i _ hr hrl hri hi hP hS b1 b2 b3
        have hlen' : ((r ++ [i]) ++ parents).length ≤ 3 := by simp at hlen ⊢; omega
        have hidx' : IdxOK ((r ++ [i]) ++ parents) := by simpa using hidx
        have hr1' : tblAt (s.mem.set tbl i (Pte.setFlags (s.mem tbl i) (Pte.flags (s.mem tbl i) ||| pflags))) p4 (r ++ [i]) = some t1 := by
          rw [i2 _ (by simp; omega) (IdxOK_append.2 ⟨hri, fun j hj => by simp at hj; rw [hj]; exact hi⟩)]; exact hr1
        have hfull' : tblAt (s.mem.set tbl i (Pte.setFlags (s.mem tbl i) (Pte.flags (s.mem tbl i) ||| pflags))) p4 ((r ++ [i]) ++ parents) = some t := by
          rw [i2 _ hlen' hidx']; exact hfull
        generalize hS1 : (s.rd tbl i).2.wr tbl i (Pte.setFlags (s.mem tbl i) (Pte.flags (s.mem tbl i) ||| pflags)) = S1 at hne
        have hS1m : S1.mem = s.mem.set tbl i (Pte.setFlags (s.mem tbl i) (Pte.flags (s.mem tbl i) ||| pflags)) := by
          rw [← hS1]; rfl
        by_cases hsame : (createPath k pflags S1 t1 parents).2.mem g j = S1.mem g j
        · -- the word was changed by this step: it is the parent entry `(tbl, i)`
          rw [hsame, hS1m] at hne
          by_cases hw : g = tbl ∧ j = i
          · exact ⟨r, by simp, by omega, hri, by rw [hw.1]; exact hr⟩
          · exact absurd (PMem.set_other s.mem tbl i _ g j hw) hne
        · obtain ⟨q, hq, hq3, hqi, hg⟩ := ih (r ++ [i]) t1 t S1
            (by rw [hS1m]; exact i1) (by rw [hS1m]; exact hr1') (by rw [hS1m]; exact hfull')
            (by simp at hlen ⊢; omega) (by simpa using hidx) g j hsame
          rw [hS1m, i2 q hq3 hqi] at hg
          exact ⟨q, by simp at hq ⊢; omega, hq3, hqi, hg⟩

/-! ### Bit-level facts about leaf words -/

theorem leaf4k_addr (frame fl : Word) (hf : frame &&& 0xfff0000000000fff#64 = 0#64)
    (h2 : fl &&& 0x000ffffffffff000#64 = 0#64) : Pte.addr (Pte.mk frame fl) = frame := by
  unfold Pte.addr Pte.mk Pte.ADDR_MASK
  unfold Word at *
  bv_decide

theorem leafHuge_addr (frame fl : Word) (hf : frame &&& 0xfff00000001fffff#64 = 0#64)
    (h2 : fl &&& 0x000fffffffffe000#64 = 0#64) :
    Pte.hugeAddr (Pte.mk frame (fl ||| Pte.HUGE)) = frame ∧ Pte.huge (Pte.mk frame (fl ||| Pte.HUGE)) = true ∧
    Pte.mk frame (fl ||| Pte.HUGE) ≠ 0#64 := by
  unfold Pte.hugeAddr Pte.mk Pte.huge Pte.HUGE
  unfold Word at *
  refine ⟨?_, ?_, ?_⟩ <;> bv_decide

theorem not_present_of_flags (frame fl : Word) (hf : frame &&& 0xfff0000000000fff#64 = 0#64)
    (h : fl &&& 1#64 = 0#64) :
    Pte.present (Pte.mk frame fl) = false ∧ Pte.present (Pte.mk frame (fl ||| Pte.HUGE)) = false := by
  unfold Pte.present Pte.mk Pte.PRESENT Pte.HUGE
  unfold Word at *
  refine ⟨?_, ?_⟩ <;> bv_decide

theorem alignedTo_of_2M (a : Word) (h : a &&& 0xfff00000001fffff#64 = 0#64) : alignedTo a (2^21) = true := by
  have h' : a &&& 0x1fffff#64 = 0#64 := by unfold Word at *; bv_decide
  have h2 := congrArg BitVec.toNat h'
  rw [BitVec.toNat_and] at h2
  have : (0x1fffff#64 : BitVec 64).toNat = 2^21 - 1 := by decide
  rw [this, Nat.and_two_pow_sub_one_eq_mod] at h2
  unfold alignedTo
  simpa using h2

theorem alignedTo_of_1G (a : Word) (h : a &&& 0xfff000003fffffff#64 = 0#64) : alignedTo a (2^30) = true := by
  have h' : a &&& 0x3fffffff#64 = 0#64 := by unfold Word at *; bv_decide
  have h2 := congrArg BitVec.toNat h'
  rw [BitVec.toNat_and] at h2
  have : (0x3fffffff#64 : BitVec 64).toNat = 2^30 - 1 := by decide
  rw [this, Nat.and_two_pow_sub_one_eq_mod] at h2
  unfold alignedTo
  simpa using h2

theorem frame1G_2M (a : Word) (h : a &&& 0xfff000003fffffff#64 = 0#64) : a &&& 0xfff00000001fffff#64 = 0#64 := by
  unfold Word at *; bv_decide

end X86
