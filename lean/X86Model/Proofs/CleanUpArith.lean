/-
Arithmetic of `clean_up(page_table, level, range)` (`Model/CleanUp.lean`) in "page-number
space": the 2^36 pages of the 48-bit canonical address space, numbered in ascending canonical
order, so that the canonical gap disappears. The lemmas say that inside the index window
`startIdx ..= endIdx` the address computations never panic / never return `None`, and that the
sub-range handed to the child table of entry `i` is exactly the intersection of the range with
the span of that child.
-/
import X86Model.Model.Page
import X86Model.Spec.Canon
import X86Model.Proofs.Canon
import X86Model.Proofs.Arith

namespace X86

/-- page number of a canonical virtual address in rank space (the 2^36 pages of the 48-bit space in ascending canonical order) -/
def pn (va : Nat) : Nat := va % 2^48 / 4096
/-- `va` is the start address of a 4 KiB page: canonical and page aligned -/
def PageAddr (va : Nat) : Prop := Spec.canon va ∧ va % 4096 = 0
/-- The inclusive range `rs ..= re` is non-empty and lies inside the address span of table number `T` of `level`
(a level-`level` table spans 512^level pages; tables of a level are numbered in rank order, the level-4 table is number 0). -/
def RangeIn (level T rs re : Nat) : Prop :=
  PageAddr rs ∧ PageAddr re ∧ rs ≤ re ∧ pn rs / 512^level = T ∧ pn re / 512^level = T

open X86.Spec

/-- The start address of page number `p` (inverse of `pn` on page start addresses). -/
def unpn (p : Nat) : Nat := if p < 2^35 then p * 4096 else p * 4096 + (2^64 - 2^48)

/-! ### `pn` / `unpn` -/

theorem pn_lt {a : Nat} (_h : PageAddr a) : pn a < 2^36 := by
  unfold pn; omega

theorem pageAddr_eq_unpn {a : Nat} (h : PageAddr a) : a = unpn (pn a) := by
  unfold PageAddr canon at h; unfold unpn pn; split <;> omega

theorem pn_unpn {p : Nat} (h : p < 2^36) : pn (unpn p) = p := by
  unfold unpn pn; split <;> omega

theorem pageAddr_unpn {p : Nat} (h : p < 2^36) : PageAddr (unpn p) := by
  unfold PageAddr canon unpn; split <;> omega

theorem unpn_le_iff {a b : Nat} (ha : a < 2^36) (hb : b < 2^36) : unpn a ≤ unpn b ↔ a ≤ b := by
  unfold unpn; split <;> split <;> omega

theorem pageAddr_exists {a : Nat} (h : PageAddr a) : ∃ p, p < 2^36 ∧ a = unpn p :=
  ⟨pn a, pn_lt h, pageAddr_eq_unpn h⟩

theorem unpn_max {a b : Nat} (ha : a < 2^36) (hb : b < 2^36) : max (unpn a) (unpn b) = unpn (max a b) := by
  have h := unpn_le_iff ha hb
  simp only [Nat.max_def]
  by_cases hab : a ≤ b
  · rw [if_pos hab, if_pos (h.2 hab)]
  · rw [if_neg hab, if_neg (fun h' => hab (h.1 h'))]

theorem unpn_min {a b : Nat} (ha : a < 2^36) (hb : b < 2^36) : min (unpn a) (unpn b) = unpn (min a b) := by
  have h := unpn_le_iff ha hb
  simp only [Nat.min_def]
  by_cases hab : a ≤ b
  · rw [if_pos hab, if_pos (h.2 hab)]
  · rw [if_neg hab, if_neg (fun h' => hab (h.1 h'))]

/-- 1. `pn` is strictly monotone on page start addresses. -/
theorem pn_mono {a b : Nat} (ha : PageAddr a) (hb : PageAddr b) : a ≤ b ↔ pn a ≤ pn b := by
  obtain ⟨p, hp, rfl⟩ := pageAddr_exists ha
  obtain ⟨q, hq, rfl⟩ := pageAddr_exists hb
  rw [pn_unpn hp, pn_unpn hq]; exact unpn_le_iff hp hq

theorem pn_inj {a b : Nat} (ha : PageAddr a) (hb : PageAddr b) (h : pn a = pn b) : a = b := by
  rw [pageAddr_eq_unpn ha, pageAddr_eq_unpn hb, h]

/-- 2. The level-4 table (number 0) spans everything. -/
theorem rangeIn_top {rs re : Nat} (hs : PageAddr rs) (he : PageAddr re) (h : rs ≤ re) : RangeIn 4 0 rs re := by
  have h1 := pn_lt hs
  have h2 := pn_lt he
  refine ⟨hs, he, h, ?_, ?_⟩ <;> omega

example : PageAddr 0 ∧ PageAddr 0xfffffffffffff000 := by
  unfold PageAddr canon; omega

/-- 3. The table index of an address is the base-512 digit of its page number. -/
theorem index_eq (level va : Nat) (hl : level = 1 ∨ level = 2 ∨ level = 3 ∨ level = 4) (hv : PageAddr va) :
    VirtAddr.pageTableIndex va level = pn va / 512^(level-1) % 512 := by
  have _ := hv
  unfold VirtAddr.pageTableIndex pn
  rcases hl with rfl | rfl | rfl | rfl <;> simp only [Nat.reduceSub, Nat.reduceMul, Nat.reducePow] <;> omega

/-- 4. The index window of a range inside table `T`. -/
theorem window (level T rs re : Nat) (hl : level = 2 ∨ level = 3 ∨ level = 4) (h : RangeIn level T rs re) :
    VirtAddr.pageTableIndex rs level ≤ VirtAddr.pageTableIndex re level ∧
    VirtAddr.pageTableIndex re level < 512 ∧
    pn rs / 512^(level-1) = T * 512 + VirtAddr.pageTableIndex rs level ∧
    pn re / 512^(level-1) = T * 512 + VirtAddr.pageTableIndex re level := by
  obtain ⟨hs, he, hle, hTs, hTe⟩ := h
  have hl' : level = 1 ∨ level = 2 ∨ level = 3 ∨ level = 4 := Or.inr hl
  rw [index_eq level rs hl' hs, index_eq level re hl' he]
  have hm := (pn_mono hs he).1 hle
  generalize pn rs = ps at *
  generalize pn re = pe at *
  rcases hl with rfl | rfl | rfl <;> simp only [Nat.reduceSub, Nat.reducePow] at * <;> omega

/-! ### The model functions on page start addresses -/

theorem alignDown_unpn (level p : Nat) (hl : level = 2 ∨ level = 3 ∨ level = 4) (hp : p < 2^36) :
    VirtAddr.alignDown (unpn p) (PageTableLevel.tableAlign level) = .ok (unpn (p / 512^level * 512^level)) := by
  unfold VirtAddr.alignDown X86.alignDown PageTableLevel.tableAlign
  rcases hl with rfl | rfl | rfl
  all_goals
    rw [if_pos (by decide)]
    simp only [R.map_ok, R.ok.injEq, VirtAddr.newTruncate, signExt48, unpn, Nat.reduceMul, Nat.reduceAdd, Nat.reducePow]
    (repeat' split) <;> omega

theorem forward_unpn (level T i : Nat) (hl : level = 2 ∨ level = 3 ∨ level = 4) (hT : T < 512^(4-level))
    (hi : i < 512) :
    VirtAddr.forwardCheckedU64 (unpn (T * 512^level)) (PageTableLevel.entryAlign level * i)
      = some (unpn ((T * 512 + i) * 512^(level-1))) := by
  unfold VirtAddr.forwardCheckedU64 checkedAdd PageTableLevel.entryAlign unpn
  rcases hl with rfl | rfl | rfl
  all_goals
    simp only [Nat.reduceSub, Nat.reduceMul, Nat.reduceAdd, Nat.reducePow] at hT ⊢
    arith_split

theorem add_unpn (level q : Nat) (hl : level = 2 ∨ level = 3 ∨ level = 4) (hq : q < 2^36)
    (hal : q % 512^(level-1) = 0) :
    VirtAddr.add (unpn q) (PageTableLevel.entryAlign level - 1) = .ok (unpn (q + 512^(level-1) - 1) + 4095) := by
  have key : unpn q + (PageTableLevel.entryAlign level - 1) = unpn (q + 512^(level-1) - 1) + 4095 ∧
      unpn q + (PageTableLevel.entryAlign level - 1) < 2^64 ∧
      canon (unpn q + (PageTableLevel.entryAlign level - 1)) := by
    unfold PageTableLevel.entryAlign unpn canon
    rcases hl with rfl | rfl | rfl
    all_goals
      simp only [Nat.reduceSub, Nat.reduceMul, Nat.reduceAdd, Nat.reducePow] at hal ⊢
      (repeat' split) <;> omega
  rw [va_add_eq _ _ key.2.1 key.2.2, key.1]

theorem containing_unpn {p : Nat} (hp : p < 2^36) : Page.containingAddress 4096 (unpn p) = unpn p := by
  apply containing_of_aligned _ _ (pageAddr_unpn hp).1 (pageAddr_unpn hp).2

theorem containing_unpn_last {p : Nat} (hp : p < 2^36) : Page.containingAddress 4096 (unpn p + 4095) = unpn p := by
  have h := pageAddr_unpn hp
  have : unpn p + 4095 - (unpn p + 4095) % 4096 = unpn p := by
    have := h.2; omega
  unfold Page.containingAddress
  rw [this]; exact signExt48_canon _ h.1

/-! ### Page-number arithmetic of one entry -/

theorem child_core (level T ps pe i : Nat) (hl : level = 2 ∨ level = 3 ∨ level = 4)
    (hps : ps < 2^36) (hpe : pe < 2^36) (hle : ps ≤ pe)
    (hTs : ps / 512^level = T) (hTe : pe / 512^level = T)
    (h1 : ps / 512^(level-1) % 512 ≤ i) (h2 : i ≤ pe / 512^(level-1) % 512) :
    T < 512^(4-level) ∧ i < 512 ∧
    (T * 512 + i) * 512^(level-1) < 2^36 ∧
    (T * 512 + i) * 512^(level-1) % 512^(level-1) = 0 ∧
    (T * 512 + i) * 512^(level-1) + 512^(level-1) - 1 < 2^36 ∧
    (T * 512 + i) * 512^(level-1) + 512^(level-1) - 1 = (T * 512 + i + 1) * 512^(level-1) - 1 ∧
    max ((T * 512 + i) * 512^(level-1)) ps ≤ min ((T * 512 + i + 1) * 512^(level-1) - 1) pe ∧
    max ((T * 512 + i) * 512^(level-1)) ps / 512^(level-1) = T * 512 + i ∧
    min ((T * 512 + i + 1) * 512^(level-1) - 1) pe / 512^(level-1) = T * 512 + i := by
  rcases hl with rfl | rfl | rfl
  all_goals
    simp only [Nat.reduceSub, Nat.reducePow] at *
    simp only [Nat.max_def, Nat.min_def]
    refine ⟨?_, ?_, ?_, ?_, ?_, ?_, ?_, ?_, ?_⟩ <;> (repeat' split) <;> omega

/-- 5. Inside the window nothing panics, and the child's sub-range is the intersection of the
range with the child's span. -/
theorem child_range (level T rs re i : Nat) (hl : level = 2 ∨ level = 3 ∨ level = 4) (h : RangeIn level T rs re)
    (h1 : VirtAddr.pageTableIndex rs level ≤ i) (h2 : i ≤ VirtAddr.pageTableIndex re level) :
    ∃ tableAddr st0 en0,
      VirtAddr.alignDown rs (PageTableLevel.tableAlign level) = .ok tableAddr ∧
      VirtAddr.forwardCheckedU64 tableAddr (PageTableLevel.entryAlign level * i) = some st0 ∧
      VirtAddr.add st0 (PageTableLevel.entryAlign level - 1) = .ok en0 ∧
      RangeIn (level - 1) (T * 512 + i)
        (max (Page.containingAddress 4096 st0) rs) (min (Page.containingAddress 4096 en0) re) ∧
      pn (max (Page.containingAddress 4096 st0) rs) = max (pn rs) ((T * 512 + i) * 512^(level-1)) ∧
      pn (min (Page.containingAddress 4096 en0) re) = min (pn re) ((T * 512 + i + 1) * 512^(level-1) - 1) := by
  obtain ⟨hs, he, hle, hTs, hTe⟩ := h
  have hl' : level = 1 ∨ level = 2 ∨ level = 3 ∨ level = 4 := Or.inr hl
  rw [index_eq level rs hl' hs] at h1
  rw [index_eq level re hl' he] at h2
  have hm := (pn_mono hs he).1 hle
  obtain ⟨ps, hps, rfl⟩ := pageAddr_exists hs
  obtain ⟨pe, hpe, rfl⟩ := pageAddr_exists he
  rw [pn_unpn hps] at h1 hTs hm ⊢
  rw [pn_unpn hpe] at h2 hTe hm ⊢
  obtain ⟨hT, hi, hq, hqal, hq', hqe, hne, hd1, hd2⟩ := child_core level T ps pe i hl hps hpe hm hTs hTe h1 h2
  have hmax : max ((T * 512 + i) * 512^(level-1)) ps < 2^36 := by
    rw [Nat.max_def]; split <;> assumption
  have hmin : min ((T * 512 + i + 1) * 512^(level-1) - 1) pe < 2^36 := by
    rw [Nat.min_def]; split <;> omega
  refine ⟨unpn (T * 512^level), unpn ((T * 512 + i) * 512^(level-1)),
    unpn ((T * 512 + i) * 512^(level-1) + 512^(level-1) - 1) + 4095, ?_, ?_, ?_, ?_⟩
  · rw [alignDown_unpn level ps hl hps, hTs]
  · exact forward_unpn level T i hl hT hi
  · exact add_unpn level _ hl hq hqal
  · rw [containing_unpn hq, containing_unpn_last hq', hqe, unpn_max hq hps, unpn_min (by omega) hpe,
      pn_unpn hmax, pn_unpn hmin]
    refine ⟨⟨pageAddr_unpn hmax, pageAddr_unpn hmin, (unpn_le_iff hmax hmin).2 hne, ?_, ?_⟩, ?_, ?_⟩
    · rw [pn_unpn hmax]; exact hd1
    · rw [pn_unpn hmin]; exact hd2
    · exact Nat.max_comm _ _
    · exact Nat.min_comm _ _

/-- 6. An entry outside the window does not intersect the range. -/
theorem outside_window (level T rs re i : Nat) (hl : level = 2 ∨ level = 3 ∨ level = 4) (h : RangeIn level T rs re)
    (hi : i < 512)
    (ho : i < VirtAddr.pageTableIndex rs level ∨ VirtAddr.pageTableIndex re level < i) :
    (T * 512 + i + 1) * 512^(level-1) - 1 < pn rs ∨ pn re < (T * 512 + i) * 512^(level-1) := by
  obtain ⟨hs, he, hle, hTs, hTe⟩ := h
  have hl' : level = 1 ∨ level = 2 ∨ level = 3 ∨ level = 4 := Or.inr hl
  rw [index_eq level rs hl' hs, index_eq level re hl' he] at ho
  have hps := pn_lt hs
  have hpe := pn_lt he
  generalize pn rs = ps at *
  generalize pn re = pe at *
  rcases hl with rfl | rfl | rfl <;> simp only [Nat.reduceSub, Nat.reducePow] at * <;> omega

/-- 7. If the range covers the whole span of child `i`, the child gets exactly its span. -/
theorem child_full (level T rs re i : Nat) (hl : level = 2 ∨ level = 3 ∨ level = 4) (h : RangeIn level T rs re)
    (h1 : VirtAddr.pageTableIndex rs level ≤ i) (h2 : i ≤ VirtAddr.pageTableIndex re level)
    (hfull : pn rs ≤ (T * 512 + i) * 512^(level-1) ∧ (T * 512 + i + 1) * 512^(level-1) - 1 ≤ pn re) :
    ∃ tableAddr st0 en0,
      VirtAddr.alignDown rs (PageTableLevel.tableAlign level) = .ok tableAddr ∧
      VirtAddr.forwardCheckedU64 tableAddr (PageTableLevel.entryAlign level * i) = some st0 ∧
      VirtAddr.add st0 (PageTableLevel.entryAlign level - 1) = .ok en0 ∧
      RangeIn (level - 1) (T * 512 + i)
        (max (Page.containingAddress 4096 st0) rs) (min (Page.containingAddress 4096 en0) re) ∧
      pn (max (Page.containingAddress 4096 st0) rs) = (T * 512 + i) * 512^(level-1) ∧
      pn (min (Page.containingAddress 4096 en0) re) = (T * 512 + i + 1) * 512^(level-1) - 1 := by
  obtain ⟨ta, st0, en0, ha, hf, hadd, hr, hp1, hp2⟩ := child_range level T rs re i hl h h1 h2
  refine ⟨ta, st0, en0, ha, hf, hadd, hr, ?_, ?_⟩
  · rw [hp1]; exact Nat.max_eq_right hfull.1
  · rw [hp2]; exact Nat.min_eq_right hfull.2

/-! ### Sanity instances -/

-- the level-4 table, a range straddling the canonical gap: entry 255 ends at the last lower-half
-- page, entry 256 starts at the first upper-half page
example : VirtAddr.alignDown 0x7ffffffff000 (PageTableLevel.tableAlign 4) = .ok 0 := by decide
example : VirtAddr.alignDown 0xffff800000000000 (PageTableLevel.tableAlign 4) = .ok 0 := by decide
example : VirtAddr.pageTableIndex 0x7ffffffff000 4 = 255 ∧ VirtAddr.pageTableIndex 0xffff800000000000 4 = 256 := by
  decide
example : VirtAddr.forwardCheckedU64 0 (PageTableLevel.entryAlign 4 * 255) = some 0x7f8000000000 := by decide
example : VirtAddr.forwardCheckedU64 0 (PageTableLevel.entryAlign 4 * 256) = some 0xffff800000000000 := by decide
example : VirtAddr.add 0x7f8000000000 (PageTableLevel.entryAlign 4 - 1) = .ok 0x7fffffffffff := by decide
example : VirtAddr.add 0xffff800000000000 (PageTableLevel.entryAlign 4 - 1) = .ok 0xffff807fffffffff := by decide
example : max (Page.containingAddress 4096 0x7f8000000000) 0x7ffffffff000 = 0x7ffffffff000 ∧
    min (Page.containingAddress 4096 0x7fffffffffff) 0xffff800000000000 = 0x7ffffffff000 := by decide
example : max (Page.containingAddress 4096 0xffff800000000000) 0x7ffffffff000 = 0xffff800000000000 ∧
    min (Page.containingAddress 4096 0xffff807fffffffff) 0xffff800000000000 = 0xffff800000000000 := by decide
example : pn 0x7ffffffff000 = 2^35 - 1 ∧ pn 0xffff800000000000 = 2^35 ∧ pn 0xfffffffffffff000 = 2^36 - 1 := by
  decide
-- the last entry of the level-4 table: no overflow at the top of the address space
example : VirtAddr.forwardCheckedU64 0 (PageTableLevel.entryAlign 4 * 511) = some 0xffffff8000000000 ∧
    VirtAddr.add 0xffffff8000000000 (PageTableLevel.entryAlign 4 - 1) = .ok 0xffffffffffffffff ∧
    Page.containingAddress 4096 0xffffffffffffffff = 0xfffffffffffff000 := by decide
example : RangeIn 4 0 0x7ffffffff000 0xffff800000000000 := by
  unfold RangeIn PageAddr canon pn; omega

end X86
