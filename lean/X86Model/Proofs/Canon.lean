/-
Helper lemmas about canonical addresses, `unrank`, sign extension and index fields.
-/
import X86Model.Model.Page
import X86Model.Spec.Canon
import X86Model.Proofs.Tactics

namespace X86
open X86.Spec

theorem ofIndices_fields (i4 i3 i2 i1 : Nat) (h4 : i4 < 512) (h3 : i3 < 512) (h2 : i2 < 512) (h1 : i1 < 512) :
    ofIndices i4 i3 i2 i1 < 2^48 ∧ ofIndices i4 i3 i2 i1 % 4096 = 0 ∧
    ofIndices i4 i3 i2 i1 / 2^39 % 512 = i4 ∧ ofIndices i4 i3 i2 i1 / 2^30 % 512 = i3 ∧
    ofIndices i4 i3 i2 i1 / 2^21 % 512 = i2 ∧ ofIndices i4 i3 i2 i1 / 2^12 % 512 = i1 := by
  unfold ofIndices; omega

theorem unrank_fields (r : Nat) (h : r < 2^48) :
    canon (unrank r) ∧ unrank r % 2^48 = r ∧ unrank r % 4096 = r % 4096 ∧
    unrank r / 2^39 % 512 = r / 2^39 % 512 ∧ unrank r / 2^30 % 512 = r / 2^30 % 512 ∧
    unrank r / 2^21 % 512 = r / 2^21 % 512 ∧ unrank r / 2^12 % 512 = r / 2^12 % 512 := by
  unfold unrank canon; split <;> omega

theorem unrank_mod (r sz : Nat) (h : r < 2^48) (hsz : pageSize sz) : unrank r % sz = r % sz := by
  unfold unrank; rcases hsz with h' | h' | h' <;> subst h' <;> split <;> omega

theorem signExt48_eq (a : Nat) : signExt48 a = unrank (a % 2^48) := rfl

theorem unrank_rank (a : Nat) (h : canon a) : unrank (a % 2^48) = a := by
  unfold canon at h; unfold unrank; split <;> omega

theorem signExt48_canon (a : Nat) (h : canon a) : signExt48 a = a := by
  rw [signExt48_eq]; exact unrank_rank a h

theorem signExt48_is_canon (a : Nat) : canon (signExt48 a) := by
  rw [signExt48_eq]; exact (unrank_fields _ (by omega)).1

/-- `containing_address` of an already aligned canonical address is the address itself. -/
theorem containing_of_aligned (sz y : Nat) (hc : canon y) (ha : y % sz = 0) :
    Page.containingAddress sz y = y := by
  unfold Page.containingAddress VirtAddr.newTruncate
  rw [ha, Nat.sub_zero]; exact signExt48_canon y hc

theorem idxSpec_unfold (a : Nat) :
    idxSpec 4 a = a / 2^39 % 512 ∧ idxSpec 3 a = a / 2^30 % 512 ∧
    idxSpec 2 a = a / 2^21 % 512 ∧ idxSpec 1 a = a / 2^12 % 512 := by
  refine ⟨?_, ?_, ?_, ?_⟩ <;> rfl

end X86
