/-
The ghost access log of the mapper model (C09): which frames an operation reads and writes, when it
asks the allocator, and what happens between an allocation and the first use of the new table.

All statements are about the *chronological* log `St.events`; a call extends it by a segment:
`s'.events = s.events ++ seg`.
-/
import X86Model.Proofs.MapperCreate

namespace X86
open X86.Spec

/-! ### Events -/

/-- The frame a memory event touches. -/
def Ev.frame? : Ev → Option Word
  | .rd f _ => some f
  | .wr f _ _ => some f
  | _ => none

def Ev.isAlloc : Ev → Bool
  | .alloc _ => true
  | _ => false

def Ev.isDealloc : Ev → Bool
  | .dealloc _ => true
  | _ => false

def Ev.isRead : Ev → Bool
  | .rd _ _ => true
  | _ => false

/-- Frames handed out by the allocator in a log segment. -/
def allocatedIn (l : List Ev) : List Word :=
  l.filterMap fun ev => match ev with
    | .alloc (some f) => some f
    | _ => none

/-- Number of allocator requests in a log segment. -/
def allocCount (l : List Ev) : Nat := (l.filter Ev.isAlloc).length

@[simp] theorem allocatedIn_nil : allocatedIn [] = [] := rfl
@[simp] theorem allocatedIn_append (a b : List Ev) : allocatedIn (a ++ b) = allocatedIn a ++ allocatedIn b := by
  simp [allocatedIn, List.filterMap_append]
@[simp] theorem allocCount_nil : allocCount [] = 0 := rfl
@[simp] theorem allocCount_append (a b : List Ev) : allocCount (a ++ b) = allocCount a + allocCount b := by
  simp [allocCount, List.filter_append]

/-- The 512 writes of `PageTable::zero()` on frame `f`, in index order. -/
def zeroEvs (f : Word) : List Ev := (List.range 512).map fun j => Ev.wr f j 0#64

/-! ### Chronological log of the primitives -/

@[simp] theorem St.events_rd (s : St) (f : Word) (i : Nat) : (s.rd f i).2.events = s.events ++ [.rd f i] := by
  simp [St.events, St.rd]
@[simp] theorem St.events_wr (s : St) (f : Word) (i : Nat) (v : Word) : (s.wr f i v).events = s.events ++ [.wr f i v] := by
  simp [St.events, St.wr]
@[simp] theorem St.events_dealloc (s : St) (f : Word) : (s.dealloc f).events = s.events ++ [.dealloc f] := by
  simp [St.events, St.dealloc]
theorem St.events_alloc (s : St) : s.alloc.2.events = s.events ++ [.alloc s.alloc.1] := by
  unfold St.alloc
  cases s.allocs with
  | nil => simp [St.events]
  | cons a rest => simp [St.events]

private theorem zero_fold_events (f : Word) (l : List Nat) (s : St) :
    (l.foldl (fun s i => s.wr f i 0#64) s).events = s.events ++ l.map (fun j => Ev.wr f j 0#64) := by
  induction l generalizing s with
  | nil => simp
  | cons a l ih => rw [List.foldl_cons, ih]; simp

@[simp] theorem St.events_zeroTable (s : St) (f : Word) : (s.zeroTable f).events = s.events ++ zeroEvs f := by
  unfold St.zeroTable zeroEvs
  exact zero_fold_events f _ s

theorem mem_zeroEvs {f : Word} {ev : Ev} (h : ev ∈ zeroEvs f) : ∃ j, j < 512 ∧ ev = .wr f j 0#64 := by
  unfold zeroEvs at h
  obtain ⟨j, hj, rfl⟩ := List.mem_map.1 h
  exact ⟨j, List.mem_range.1 hj, rfl⟩

@[simp] theorem allocatedIn_zeroEvs (f : Word) : allocatedIn (zeroEvs f) = [] := by
  unfold allocatedIn
  rw [List.filterMap_eq_nil_iff]
  intro ev h
  obtain ⟨j, _, rfl⟩ := mem_zeroEvs h
  rfl

@[simp] theorem allocCount_zeroEvs (f : Word) : allocCount (zeroEvs f) = 0 := by
  unfold allocCount
  rw [List.length_eq_zero_iff, List.filter_eq_nil_iff]
  intro ev h
  obtain ⟨j, _, rfl⟩ := mem_zeroEvs h
  simp [Ev.isAlloc]

/-! ### Tables of the hierarchy -/

/-- `f` is a page table of the hierarchy rooted at `p4` (the level-4 table itself, or a frame
reached from it through at most three present, non-huge entries). -/
def IsTable (m : PMem) (p4 f : Word) : Prop :=
  ∃ q, q.length ≤ 3 ∧ IdxOK q ∧ tblAt m p4 q = some f

theorem IsTable.root (m : PMem) (p4 : Word) : IsTable m p4 p4 :=
  ⟨[], Nat.zero_le _, (fun _ h => by cases h), rfl⟩

/-! ### Read-only descents -/

/-- `descend` only reads, and only tables of the hierarchy. -/
theorem descend_events (p4 : Word) : ∀ (path r : List Nat) (tbl : Word) (s : St),
    tblAt s.mem p4 r = some tbl → r.length + path.length ≤ 3 → IdxOK (r ++ path) →
    ∃ seg, (descend s tbl path).2.events = s.events ++ seg ∧
      ∀ ev ∈ seg, ∃ f i, ev = .rd f i ∧ IsTable s.mem p4 f := by
  intro path
  induction path with
  | nil => intro r tbl s _ _ _; exact ⟨[], by simp [descend], by intro ev h; cases h⟩
  | cons i rest ih =>
    intro r tbl s hr hlen hidx
    have hrl : r.length ≤ 3 := by simp at hlen; omega
    have hri : IdxOK r := (IdxOK_append.1 hidx).1
    have htbl : IsTable s.mem p4 tbl := ⟨r, hrl, hri, hr⟩
    simp only [descend, St.rd_fst]
    cases hnt : nextTable (s.mem tbl i) with
    | error e =>
      refine ⟨[.rd tbl i], by simp, ?_⟩
      intro ev h; simp at h; exact ⟨tbl, i, h, htbl⟩
    | ok t =>
      have ht : tblAt s.mem p4 (r ++ [i]) = some t := by
        rw [tblAt_append, hr]; simp [tblAt, (nextTable_ok_iff _ _).1 hnt]
      obtain ⟨seg, hseg, hall⟩ := ih (r ++ [i]) t (s.rd tbl i).2 (by simpa using ht)
        (by simp at hlen ⊢; omega) (by simpa using hidx)
      refine ⟨.rd tbl i :: seg, ?_, ?_⟩
      · simp only []; rw [hseg]; simp
      · intro ev h
        rcases List.mem_cons.1 h with h | h
        · exact ⟨tbl, i, h, htbl⟩
        · simpa using hall ev h

end X86
