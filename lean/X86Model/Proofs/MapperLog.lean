/-
The ghost access log of the mapper model (C09): which frames an operation reads and writes, when it
asks the allocator, and what happens between an allocation and the first use of the new table.

All statements are about the *chronological* log `St.events`; a call extends it by a segment:
`s'.events = s.events ++ seg`.
-/
import X86Model.Proofs.MapperCreate

namespace X86
open X86.Spec

/-! ### Events -/

/-- The frame a memory event touches. -/
def Ev.frame? : Ev → Option Word
  | .rd f _ => some f
  | .wr f _ _ => some f
  | _ => none

def Ev.isAlloc : Ev → Bool
  | .alloc _ => true
  | _ => false

def Ev.isDealloc : Ev → Bool
  | .dealloc _ => true
  | _ => false

def Ev.isRead : Ev → Bool
  | .rd _ _ => true
  | _ => false

/-- Frames handed out by the allocator in a log segment. -/
def allocatedIn (l : List Ev) : List Word :=
  l.filterMap fun ev => match ev with
    | .alloc (some f) => some f
    | _ => none

/-- Number of allocator requests in a log segment. -/
def allocCount (l : List Ev) : Nat := (l.filter Ev.isAlloc).length

@[simp] theorem allocatedIn_nil : allocatedIn [] = [] := rfl
@[simp] theorem allocatedIn_append (a b : List Ev) : allocatedIn (a ++ b) = allocatedIn a ++ allocatedIn b := by
  simp [allocatedIn, List.filterMap_append]
@[simp] theorem allocCount_nil : allocCount [] = 0 := rfl
@[simp] theorem allocCount_append (a b : List Ev) : allocCount (a ++ b) = allocCount a + allocCount b := by
  simp [allocCount, List.filter_append]

/-- The 512 writes of `PageTable::zero()` on frame `f`, in index order. -/
def zeroEvs (f : Word) : List Ev := (List.range 512).map fun j => Ev.wr f j 0#64

/-! ### Chronological log of the primitives -/

@[simp] theorem St.events_rd (s : St) (f : Word) (i : Nat) : (s.rd f i).2.events = s.events ++ [.rd f i] := by
  simp [St.events, St.rd]
@[simp] theorem St.events_wr (s : St) (f : Word) (i : Nat) (v : Word) : (s.wr f i v).events = s.events ++ [.wr f i v] := by
  simp [St.events, St.wr]
@[simp] theorem St.events_dealloc (s : St) (f : Word) : (s.dealloc f).events = s.events ++ [.dealloc f] := by
  simp [St.events, St.dealloc]
theorem St.events_alloc (s : St) : s.alloc.2.events = s.events ++ [.alloc s.alloc.1] := by
  unfold St.alloc
  cases s.allocs with
  | nil => simp [St.events]
  | cons a rest => simp [St.events]

private theorem zero_fold_events (f : Word) (l : List Nat) (s : St) :
    (l.foldl (fun s i => s.wr f i 0#64) s).events = s.events ++ l.map (fun j => Ev.wr f j 0#64) := by
  induction l generalizing s with
  | nil => simp
  | cons a l ih => rw [List.foldl_cons, ih]; simp

@[simp] theorem St.events_zeroTable (s : St) (f : Word) : (s.zeroTable f).events = s.events ++ zeroEvs f := by
  unfold St.zeroTable zeroEvs
  exact zero_fold_events f _ s

theorem mem_zeroEvs {f : Word} {ev : Ev} (h : ev ∈ zeroEvs f) : ∃ j, j < 512 ∧ ev = .wr f j 0#64 := by
  unfold zeroEvs at h
  obtain ⟨j, hj, rfl⟩ := List.mem_map.1 h
  exact ⟨j, List.mem_range.1 hj, rfl⟩

@[simp] theorem allocatedIn_zeroEvs (f : Word) : allocatedIn (zeroEvs f) = [] := by
  unfold allocatedIn
  rw [List.filterMap_eq_nil_iff]
  intro ev h
  obtain ⟨j, _, rfl⟩ := mem_zeroEvs h
  rfl

@[simp] theorem allocCount_zeroEvs (f : Word) : allocCount (zeroEvs f) = 0 := by
  unfold allocCount
  rw [List.length_eq_zero_iff, List.filter_eq_nil_iff]
  intro ev h
  obtain ⟨j, _, rfl⟩ := mem_zeroEvs h
  simp [Ev.isAlloc]

/-! ### Tables of the hierarchy -/

/-- `f` is a page table of the hierarchy rooted at `p4` (the level-4 table itself, or a frame
reached from it through at most three present, non-huge entries). -/
def IsTable (m : PMem) (p4 f : Word) : Prop :=
  ∃ q, q.length ≤ 3 ∧ IdxOK q ∧ tblAt m p4 q = some f

theorem IsTable.root (m : PMem) (p4 : Word) : IsTable m p4 p4 :=
  ⟨[], Nat.zero_le _, (fun _ h => by cases h), rfl⟩

/-! ### Read-only descents -/

/-- `descend` only reads, and only tables of the hierarchy. -/
theorem descend_events (p4 : Word) : ∀ (path r : List Nat) (tbl : Word) (s : St),
    tblAt s.mem p4 r = some tbl → r.length + path.length ≤ 3 → IdxOK (r ++ path) →
    ∃ seg, (descend s tbl path).2.events = s.events ++ seg ∧
      ∀ ev ∈ seg, ∃ f i, ev = .rd f i ∧ IsTable s.mem p4 f := by
  intro path
  induction path with
  | nil => intro r tbl s _ _ _; exact ⟨[], by simp [descend], by intro ev h; cases h⟩
  | cons i rest ih =>
    intro r tbl s hr hlen hidx
    have hrl : r.length ≤ 3 := by simp at hlen; omega
    have hri : IdxOK r := (IdxOK_append.1 hidx).1
    have htbl : IsTable s.mem p4 tbl := ⟨r, hrl, hri, hr⟩
    simp only [descend, St.rd_fst]
    cases hnt : nextTable (s.mem tbl i) with
    | error e =>
      refine ⟨[.rd tbl i], by simp, ?_⟩
      intro ev h; simp at h; exact ⟨tbl, i, h, htbl⟩
    | ok t =>
      have ht : tblAt s.mem p4 (r ++ [i]) = some t := by
        rw [tblAt_append, hr]; simp [tblAt, (nextTable_ok_iff _ _).1 hnt]
      obtain ⟨seg, hseg, hall⟩ := ih (r ++ [i]) t (s.rd tbl i).2 (by simpa using ht)
        (by simp at hlen ⊢; omega) (by simpa using hidx)
      refine ⟨.rd tbl i :: seg, ?_, ?_⟩
      · simp only []; rw [hseg]; simp
      · intro ev h
        rcases List.mem_cons.1 h with h | h
        · exact ⟨tbl, i, h, htbl⟩
        · simpa using hall ev h

/-! ### "Zeroed before use" -/

/-- Whenever the allocator hands out a frame `f`, the very next events are the write of the parent
entry that links it and then the complete zeroing of `f` (`wr f 0 0 … wr f 511 0`) — so no entry
of `f` is read, and nothing but zero is written to it, before all 512 entries are zero. -/
def ZeroedAfterAlloc (seg : List Ev) : Prop :=
  ∀ pre f post, seg = pre ++ .alloc (some f) :: post →
    ∃ t i v rest, post = .wr t i v :: (zeroEvs f ++ rest)

theorem ZeroedAfterAlloc.of_noAlloc {seg : List Ev} (h : ∀ f, Ev.alloc (some f) ∉ seg) : ZeroedAfterAlloc seg := by
  intro pre f post hs
  exact absurd (by rw [hs]; simp) (h f)

theorem ZeroedAfterAlloc.append {a b : List Ev} (ha : ZeroedAfterAlloc a) (hb : ZeroedAfterAlloc b) :
    ZeroedAfterAlloc (a ++ b) := by
  intro pre f post hs
  rcases List.append_eq_append_iff.1 hs with ⟨a', h1, h2⟩ | ⟨c', h1, h2⟩
  · exact hb a' f post h2
  · cases c' with
    | nil => simp at h2; exact hb [] f post (by simpa using h2.symm)
    | cons x c'' =>
      simp only [List.cons_append, List.cons.injEq] at h2
      obtain ⟨hx, hpost⟩ := h2
      subst hx
      obtain ⟨t, i, v, rest, hc⟩ := ha pre f c'' h1
      refine ⟨t, i, v, rest ++ b, ?_⟩
      rw [hpost, hc]; simp

/-- The log segment of a successful allocation in `create_next_table`. -/
theorem ZeroedAfterAlloc.fresh (tbl : Word) (i : Nat) (f v : Word) :
    ZeroedAfterAlloc ([.rd tbl i, .alloc (some f), .wr tbl i v] ++ zeroEvs f) := by
  intro pre g post hs
  cases pre with
  | nil => simp at hs
  | cons x pre =>
    simp only [List.cons_append, List.cons.injEq] at hs
    obtain ⟨_, hs⟩ := hs
    cases pre with
    | nil =>
      simp only [List.nil_append, List.cons.injEq, Ev.alloc.injEq, Option.some.injEq] at hs
      obtain ⟨hg, hpost⟩ := hs
      subst hg
      exact ⟨tbl, i, v, [], by rw [← hpost]; simp⟩
    | cons y pre =>
      simp only [List.cons_append, List.cons.injEq] at hs
      obtain ⟨_, hs⟩ := hs
      simp only [List.nil_append] at hs
      have hmem : Ev.alloc (some g) ∈ Ev.wr tbl i v :: zeroEvs f := by rw [hs]; simp
      rcases List.mem_cons.1 hmem with h | h
      · cases h
      · obtain ⟨j, _, hj⟩ := mem_zeroEvs h; cases hj

/-! ### The descent of `map_to`: what the log of `create_next_table` / `createPath` guarantees -/

/-- Guarantees about the log segment `seg` that took state `s` to `s'` (at most `n` allocator
requests). Composable (`CreateLog.trans`). -/
structure CreateLog (p4 : Word) (s s' : St) (seg : List Ev) (n : Nat) : Prop where
  events : s'.events = s.events ++ seg
  /-- every read and write touches a table of the hierarchy as it was in `s`, or a frame handed out
  by the allocator in this segment -/
  touch : ∀ ev ∈ seg, ∀ f, ev.frame? = some f → IsTable s.mem p4 f ∨ f ∈ allocatedIn seg
  /-- memory differs only in such frames -/
  memdiff : ∀ f i, s'.mem f i ≠ s.mem f i → IsTable s.mem p4 f ∨ f ∈ allocatedIn seg
  /-- the tables afterwards are the tables before plus allocated frames -/
  tree : ∀ q g, q.length ≤ 3 → IdxOK q → tblAt s'.mem p4 q = some g →
    tblAt s.mem p4 q = some g ∨ g ∈ allocatedIn seg
  nodealloc : ∀ ev ∈ seg, ev.isDealloc = false
  count : allocCount seg ≤ n
  zeroed : ZeroedAfterAlloc seg

theorem CreateLog.refl (p4 : Word) (s : St) : CreateLog p4 s s [] 0 :=
  { events := by simp
    touch := by intro ev h; cases h
    memdiff := by intro f i h; exact absurd rfl h
    tree := by intro q g _ _ h; exact Or.inl h
    nodealloc := by intro ev h; cases h
    count := by simp
    zeroed := ZeroedAfterAlloc.of_noAlloc (by intro f h; cases h) }

theorem CreateLog.trans {p4 : Word} {s s1 s2 : St} {a b : List Ev} {n m : Nat}
    (h1 : CreateLog p4 s s1 a n) (h2 : CreateLog p4 s1 s2 b m) : CreateLog p4 s s2 (a ++ b) (n + m) := by
  have lift : ∀ f, IsTable s1.mem p4 f → IsTable s.mem p4 f ∨ f ∈ allocatedIn (a ++ b) := by
    intro f ⟨q, hq, hqi, hf⟩
    rcases h1.tree q f hq hqi hf with h | h
    · exact Or.inl ⟨q, hq, hqi, h⟩
    · right; simp [h]
  refine ⟨?_, ?_, ?_, ?_, ?_, ?_, h1.zeroed.append h2.zeroed⟩
  · rw [h2.events, h1.events]; simp
  · intro ev hev f hf
    rcases List.mem_append.1 hev with h | h
    · rcases h1.touch ev h f hf with h' | h'
      · exact Or.inl h'
      · right; simp [h']
    · rcases h2.touch ev h f hf with h' | h'
      · exact lift f h'
      · right; simp [h']
  · intro f i hne
    by_cases h : s2.mem f i = s1.mem f i
    · rcases h1.memdiff f i (by rw [← h]; exact hne) with h' | h'
      · exact Or.inl h'
      · right; simp [h']
    · rcases h2.memdiff f i h with h' | h'
      · exact lift f h'
      · right; simp [h']
  · intro q g hq hqi hg
    rcases h2.tree q g hq hqi hg with h | h
    · rcases h1.tree q g hq hqi h with h' | h'
      · exact Or.inl h'
      · right; simp [h']
    · right; simp [h]
  · intro ev hev
    rcases List.mem_append.1 hev with h | h
    · exact h1.nodealloc ev h
    · exact h2.nodealloc ev h
  · have := h1.count; have := h2.count; simp; omega

theorem CreateLog.mono {p4 : Word} {s s' : St} {seg : List Ev} {n m : Nat}
    (h : CreateLog p4 s s' seg n) (hnm : n ≤ m) : CreateLog p4 s s' seg m :=
  { h with count := Nat.le_trans h.count hnm }

/-- A step that does not change memory and only reads `tbl` / gets a refusal from the allocator. -/
theorem CreateLog.of_memEq {p4 : Word} {s s' : St} {seg : List Ev} {tbl : Word}
    (hm : s'.mem = s.mem) (he : s'.events = s.events ++ seg)
    (hseg : ∀ ev ∈ seg, (∃ i, ev = .rd tbl i) ∨ ev = .alloc none)
    (ht : IsTable s.mem p4 tbl) (hc : allocCount seg ≤ 1) : CreateLog p4 s s' seg 1 where
  events := he
  touch := by
    intro ev hev f hf
    rcases hseg ev hev with ⟨i, rfl⟩ | rfl
    · simp [Ev.frame?] at hf; subst hf; exact Or.inl ht
    · simp [Ev.frame?] at hf
  memdiff := by intro f i h; rw [hm] at h; exact absurd rfl h
  tree := by intro q g _ _ h; rw [hm] at h; exact Or.inl h
  nodealloc := by
    intro ev hev
    rcases hseg ev hev with ⟨i, rfl⟩ | rfl <;> rfl
  count := hc
  zeroed := ZeroedAfterAlloc.of_noAlloc (by
    intro f hf
    rcases hseg _ hf with ⟨i, h⟩ | h <;> cases h)

/-- **`create_next_table`, log view** (same hypotheses as `createNextTable_ok`). -/
theorem createNextTable_log (k : Kind) (s : St) (p4 : Word) (r : List Nat) (tbl : Word) (i : Nat) (pflags : Word)
    (hinv : Inv s.mem p4) (hr : tblAt s.mem p4 r = some tbl) (hrl : r.length ≤ 2) (hri : IdxOK r)
    (hi : i < 512) (hpf : ParentFlagsOK pflags) (hal : AllocsOK s.mem p4 s.allocs) :
    match createNextTable k s tbl i pflags with
    | (.panic, _) => False
    | (.ok _, s') => ∃ seg, CreateLog p4 s s' seg 1 := by
  have htbl : IsTable s.mem p4 tbl := ⟨r, by omega, hri, hr⟩
  unfold createNextTable
  simp only [St.rd_fst]
  by_cases hu : Pte.isUnused (s.mem tbl i) = true
  · have hzero : s.mem tbl i = 0#64 := by simpa [Pte.isUnused] using hu
    simp only [hu, if_true]
    cases hall : s.allocs with
    | nil =>
      simp only [St.alloc, St.rd, hall]
      refine ⟨[.rd tbl i, .alloc none], CreateLog.of_memEq rfl (by simp [St.events]) ?_ htbl (by simp [allocCount, List.filter, Ev.isAlloc])⟩
      intro ev h; simp at h; rcases h with h | h
      · exact Or.inl ⟨i, h⟩
      · exact Or.inr h
    | cons a rest =>
      cases a with
      | none =>
        simp only [St.alloc, St.rd, hall]
        refine ⟨[.rd tbl i, .alloc none], CreateLog.of_memEq rfl (by simp [St.events]) ?_ htbl (by simp [allocCount, List.filter, Ev.isAlloc])⟩
        intro ev h; simp at h; rcases h with h | h
        · exact Or.inl ⟨i, h⟩
        · exact Or.inr h
      | some f =>
        rw [hall] at hal
        obtain ⟨hfresh, hdist, hrest⟩ := hal
        have hlf := linkFl_ok k pflags hpf
        obtain ⟨b1, b2, b3, b4, b5⟩ := link_bits f (linkFl k pflags) hfresh.fits hlf
        have hnt : nextTable (Pte.mk f (linkFl k pflags)) = .ok f := by
          rw [nextTable_ok_iff]; exact (tableOf_some_iff _ _).2 ⟨b1, b2, b3.symm⟩
        simp only [St.alloc, St.rd, hall]
        have hfl : (if k.recursive = true then Pte.PRESENT ||| Pte.WRITABLE ||| pflags else Pte.PRESENT ||| pflags) = linkFl k pflags := rfl
        simp only [hfl, b4, Bool.not_true, Bool.false_eq_true, if_false, hnt]
        have T := tblAt_linked s.mem p4 hinv r tbl i f (linkFl k pflags) hr hrl hri hi hzero hfresh hlf
        have htf : tbl ≠ f := fun h => hfresh.notTable r (by omega) hri (h ▸ hr)
        refine ⟨[.rd tbl i, .alloc (some f), .wr tbl i (Pte.mk f (linkFl k pflags))] ++ zeroEvs f, ?_⟩
        have hal : allocatedIn ([.rd tbl i, .alloc (some f), .wr tbl i (Pte.mk f (linkFl k pflags))] ++ zeroEvs f) = [f] := by
          rw [allocatedIn_append, allocatedIn_zeroEvs]; rfl
        have hmem : ∀ (s0 : St), s0.mem = s.mem →
            ((St.wr s0 tbl i (Pte.mk f (linkFl k pflags))).zeroTable f).mem = linked s.mem tbl i f (linkFl k pflags) := by
          intro s0 h0; rw [St.zeroTable_mem, St.wr_mem, h0]; rfl
        refine ⟨?_, ?_, ?_, ?_, ?_, ?_, ZeroedAfterAlloc.fresh tbl i f _⟩
        · rw [St.events_zeroTable, St.events_wr]; simp [St.events]
        · intro ev hev g hg
          rw [hal]
          simp only [List.cons_append, List.nil_append, List.mem_cons] at hev
          rcases hev with rfl | rfl | rfl | hev
          · simp [Ev.frame?] at hg; subst hg; exact Or.inl htbl
          · simp [Ev.frame?] at hg
          · simp [Ev.frame?] at hg; subst hg; exact Or.inl htbl
          · obtain ⟨j, _, rfl⟩ := mem_zeroEvs hev
            simp [Ev.frame?] at hg; subst hg; right; simp
        · intro g j hne
          rw [hal]
          rw [hmem ⟨s.mem, rest, _⟩ rfl] at hne
          by_cases hgf : g = f
          · right; simp [hgf]
          · by_cases hw : g = tbl ∧ j = i
            · left; rw [hw.1]; exact htbl
            · exact absurd (linked_other s.mem tbl i f _ g j hgf hw) hne
        · intro q g hq hqi hg
          rw [hal]
          rw [hmem ⟨s.mem, rest, _⟩ rfl, T q hq hqi] at hg
          split at hg
          · right; simp [(Option.some.inj hg).symm]
          · split at hg
            · cases hg
            · exact Or.inl hg
        · intro ev hev
          simp only [List.cons_append, List.nil_append, List.mem_cons] at hev
          rcases hev with rfl | rfl | rfl | hev
          · rfl
          · rfl
          · rfl
          · obtain ⟨j, _, rfl⟩ := mem_zeroEvs hev; rfl
        · rw [allocCount_append, allocCount_zeroEvs]; simp [allocCount, List.filter, Ev.isAlloc]
  · have hu' : Pte.isUnused (s.mem tbl i) = false := by simpa using hu
    have hne : s.mem tbl i ≠ 0#64 := by
      intro h0; rw [h0] at hu'; simp [Pte.isUnused] at hu'
    simp only [hu', Bool.false_eq_true, if_false]
    have rdonly : CreateLog p4 s (s.rd tbl i).2 [.rd tbl i] 1 :=
      CreateLog.of_memEq rfl (by simp) (by intro ev h; simp at h; exact Or.inl ⟨i, h⟩) htbl (by simp [allocCount, List.filter, Ev.isAlloc])
    by_cases hh : Pte.huge (s.mem tbl i) = true
    · simp only [hh, if_true]
      exact ⟨_, rdonly⟩
    · have hS : Pte.huge (s.mem tbl i) = false := by simpa using hh
      have hP : Pte.present (s.mem tbl i) = true := hinv.present_of_not_huge r tbl i hrl hri hr hi hne hS
      simp only [hS, Bool.false_eq_true, if_false]
      have hnt0 : nextTable (s.mem tbl i) = .ok (Pte.addr (s.mem tbl i)) := by
        unfold nextTable; simp [hS, hP]
      by_cases hc : (pflags != 0#64 && !Pte.contains (s.mem tbl i) pflags) = true
      · simp only [hc, if_true]
        obtain ⟨b1, b2, b3⟩ := or_flags_bits (s.mem tbl i) pflags hP hS hpf
        have hnt : nextTable (Pte.setFlags (s.mem tbl i) (Pte.flags (s.mem tbl i) ||| pflags)) =
            .ok (Pte.addr (s.mem tbl i)) := by
          rw [nextTable_ok_iff]; exact (tableOf_some_iff _ _).2 ⟨b1, b2, by rw [b3]; rfl⟩
        simp only [hnt]
        obtain ⟨_, i2, _⟩ := set_table_entry s.mem p4 hinv r tbl i _ hr hrl hri hi hP hS b1 b2 b3
        refine ⟨[.rd tbl i, .wr tbl i (Pte.setFlags (s.mem tbl i) (Pte.flags (s.mem tbl i) ||| pflags))], ?_⟩
        refine ⟨by simp, ?_, ?_, ?_, ?_, by simp [allocCount, List.filter, Ev.isAlloc], ZeroedAfterAlloc.of_noAlloc (by intro f h; simp at h)⟩
        · intro ev hev g hg
          simp at hev
          rcases hev with rfl | rfl <;> (simp [Ev.frame?] at hg; subst hg; exact Or.inl htbl)
        · intro g j hne'
          simp only [St.wr_mem, St.rd_mem] at hne'
          by_cases hw : g = tbl ∧ j = i
          · left; rw [hw.1]; exact htbl
          · exact absurd (PMem.set_other s.mem tbl i _ g j hw) hne'
        · intro q g hq hqi hg
          simp only [St.wr_mem, St.rd_mem] at hg
          rw [i2 q hq hqi] at hg
          exact Or.inl hg
        · intro ev hev
          simp at hev
          rcases hev with rfl | rfl <;> rfl
      · simp only [hc, Bool.false_eq_true, if_false, hnt0]
        exact ⟨_, rdonly⟩

/-- **The descent of `map_to`, log view**: whatever happens (success, allocation failure at any
point, huge parent), the log segment satisfies `CreateLog` with at most one allocator request per
parent level. -/
theorem createPath_log (k : Kind) (pflags : Word) (p4 : Word) (hpf : ParentFlagsOK pflags) :
    ∀ (parents r : List Nat) (tbl : Word) (s : St),
      Inv s.mem p4 → tblAt s.mem p4 r = some tbl → r.length + parents.length ≤ 3 → IdxOK (r ++ parents) →
      AllocsOK s.mem p4 s.allocs →
      match createPath k pflags s tbl parents with
      | (.panic, _) => False
      | (.ok _, s') => ∃ seg, CreateLog p4 s s' seg parents.length := by
  intro parents
  induction parents with
  | nil =>
    intro r tbl s _ _ _ _ _
    simp only [createPath]
    exact ⟨[], CreateLog.refl p4 s⟩
  | cons i parents ih =>
    intro r tbl s hinv hr hlen hidx hal
    have hrl : r.length ≤ 2 := by simp at hlen; omega
    have hri : IdxOK r := (IdxOK_append.1 hidx).1
    have hi : i < 512 := (IdxOK_append.1 hidx).2 i (by simp)
    have hstep := createNextTable_ok k s p4 r tbl i pflags hinv hr hrl hri hi hpf hal
    have hlog := createNextTable_log k s p4 r tbl i pflags hinv hr hrl hri hi hpf hal
    simp only [createPath]
    cases hc : createNextTable k s tbl i pflags with
    | mk res s1 =>
      rw [hc] at hstep hlog
      cases res with
      | panic => exact hstep
      | ok res' =>
        obtain ⟨seg1, hl1⟩ := hlog
        cases res' with
        | error e =>
          simp only
          exact ⟨seg1, hl1.mono (by simp)⟩
        | ok t1 =>
          obtain ⟨hs1, ht1⟩ := hstep
          simp only
          have hrec := ih (r ++ [i]) t1 s1 hs1.inv ht1 (by simp at hlen ⊢; omega) (by simpa using hidx) hs1.allocs
          cases hc2 : createPath k pflags s1 t1 parents with
          | mk res2 s2 =>
            rw [hc2] at hrec
            cases res2 with
            | panic => exact hrec
            | ok res2' =>
              obtain ⟨seg2, hl2⟩ := hrec
              exact ⟨seg1 ++ seg2, (hl1.trans hl2).mono (by simp; omega)⟩

/-! ### No allocation when the tables exist -/

/-- `create_next_table` on a slot that already points to a table: no allocator request; the entry is
at most rewritten with additional parent flags. -/
theorem createNextTable_existing (k : Kind) (s : St) (tbl : Word) (i : Nat) (pflags t1 : Word)
    (hpf : ParentFlagsOK pflags) (hto : tableOf (s.mem tbl i) = some t1) :
    ∃ s', createNextTable k s tbl i pflags = (.ok (.ok t1), s') ∧
      (s' = (s.rd tbl i).2 ∨
       s' = (s.rd tbl i).2.wr tbl i (Pte.setFlags (s.mem tbl i) (Pte.flags (s.mem tbl i) ||| pflags))) := by
  obtain ⟨hP, hS, ht1⟩ := (tableOf_some_iff _ _).1 hto
  rw [← present_eq_bitP] at hP
  rw [← huge_eq_bitPS] at hS
  have hne : s.mem tbl i ≠ 0#64 := by
    intro h0; rw [h0] at hP; simp [Pte.present, Pte.PRESENT] at hP
  have hu : Pte.isUnused (s.mem tbl i) = false := by simp [Pte.isUnused, hne]
  have hnt0 : nextTable (s.mem tbl i) = .ok t1 := (nextTable_ok_iff _ _).2 hto
  unfold createNextTable
  simp only [St.rd_fst, hu, Bool.false_eq_true, if_false, hS]
  by_cases hc : (pflags != 0#64 && !Pte.contains (s.mem tbl i) pflags) = true
  · simp only [hc, if_true]
    obtain ⟨b1, b2, b3⟩ := or_flags_bits (s.mem tbl i) pflags hP hS hpf
    have hnt : nextTable (Pte.setFlags (s.mem tbl i) (Pte.flags (s.mem tbl i) ||| pflags)) = .ok t1 := by
      rw [nextTable_ok_iff]; exact (tableOf_some_iff _ _).2 ⟨b1, b2, by rw [b3]; exact ht1⟩
    simp only [hnt]
    exact ⟨_, rfl, Or.inr rfl⟩
  · simp only [hc, Bool.false_eq_true, if_false, hnt0]
    exact ⟨_, rfl, Or.inl rfl⟩

/-- **No frame is requested when the needed tables already exist.** -/
theorem createPath_exists (k : Kind) (pflags : Word) (p4 : Word) (hpf : ParentFlagsOK pflags) :
    ∀ (parents r : List Nat) (tbl t : Word) (s : St),
      Inv s.mem p4 → tblAt s.mem p4 r = some tbl → tblAt s.mem p4 (r ++ parents) = some t →
      r.length + parents.length ≤ 3 → IdxOK (r ++ parents) →
      ∃ seg, (createPath k pflags s tbl parents).2.events = s.events ++ seg ∧ allocCount seg = 0 ∧
        (createPath k pflags s tbl parents).2.allocs = s.allocs ∧
        (createPath k pflags s tbl parents).1 = .ok (.ok t) := by
  intro parents
  induction parents with
  | nil =>
    intro r tbl t s _ hr ht _ _
    simp only [List.append_nil] at ht
    rw [hr] at ht
    exact ⟨[], by simp [createPath], by simp, rfl, by simp [createPath, Option.some.inj ht]⟩
  | cons i parents ih =>
    intro r tbl t s hinv hr ht hlen hidx
    have hrl : r.length ≤ 2 := by simp at hlen; omega
    have hri : IdxOK r := (IdxOK_append.1 hidx).1
    have hi : i < 512 := (IdxOK_append.1 hidx).2 i (by simp)
    -- the entry points to a table
    have hsplit : tblAt s.mem p4 (r ++ i :: parents) = (tblAt s.mem tbl [i]).bind (fun t' => tblAt s.mem t' parents) := by
      rw [show r ++ i :: parents = r ++ ([i] ++ parents) from by simp, tblAt_append, hr]
      simp only [Option.bind_some]
      exact tblAt_append s.mem tbl [i] parents
    rw [hsplit] at ht
    cases hto : tableOf (s.mem tbl i) with
    | none => simp [tblAt, hto] at ht
    | some t1 =>
      have ht' : tblAt s.mem t1 parents = some t := by simpa [tblAt, hto] using ht
      obtain ⟨hP, hS, ht1⟩ := (tableOf_some_iff _ _).1 hto
      obtain ⟨s1, hc, hs1⟩ := createNextTable_existing k s tbl i pflags t1 hpf hto
      have hr1 : tblAt s.mem p4 (r ++ [i]) = some t1 := by
        rw [tblAt_append, hr]; simp [tblAt, hto]
      have hfull : tblAt s.mem p4 ((r ++ [i]) ++ parents) = some t := by
        rw [tblAt_append, hr1]; simpa using ht'
      simp only [createPath, hc]
      rcases hs1 with rfl | rfl
      · -- entry left as it is
        obtain ⟨seg, he, hcnt, hal, hres⟩ := ih (r ++ [i]) t1 t (s.rd tbl i).2 hinv hr1 hfull
          (by simp at hlen ⊢; omega) (by simpa using hidx)
        exact ⟨.rd tbl i :: seg, by rw [he]; simp, by simpa [allocCount, List.filter, Ev.isAlloc] using hcnt,
          by simpa using hal, hres⟩
      · -- parent flags added
        obtain ⟨b1, b2, b3⟩ := or_flags_bits (s.mem tbl i) pflags (by rw [present_eq_bitP]; exact hP)
          (by rw [huge_eq_bitPS]; exact hS) hpf
        obtain ⟨i1, i2, _⟩ := set_table_entry s.mem p4 hinv r tbl i _ hr hrl hri hi hP hS b1 b2 b3
        have hlen' : ((r ++ [i]) ++ parents).length ≤ 3 := by simp at hlen ⊢; omega
        have hidx' : IdxOK ((r ++ [i]) ++ parents) := by simpa using hidx
        have hr1' : tblAt (s.mem.set tbl i (Pte.setFlags (s.mem tbl i) (Pte.flags (s.mem tbl i) ||| pflags))) p4 (r ++ [i]) = some t1 := by
          rw [i2 _ (by simp; omega) (IdxOK_append.2 ⟨hri, fun j hj => by simp at hj; rw [hj]; exact hi⟩)]; exact hr1
        have hfull' : tblAt (s.mem.set tbl i (Pte.setFlags (s.mem tbl i) (Pte.flags (s.mem tbl i) ||| pflags))) p4 ((r ++ [i]) ++ parents) = some t := by
          rw [i2 _ hlen' hidx']; exact hfull
        obtain ⟨seg, he, hcnt, hal, hres⟩ := ih (r ++ [i]) t1 t
          ((s.rd tbl i).2.wr tbl i (Pte.setFlags (s.mem tbl i) (Pte.flags (s.mem tbl i) ||| pflags)))
          (by simpa using i1) (by simpa using hr1') (by simpa using hfull')
          (by simp at hlen ⊢; omega) (by simpa using hidx)
        refine ⟨.rd tbl i :: .wr tbl i (Pte.setFlags (s.mem tbl i) (Pte.flags (s.mem tbl i) ||| pflags)) :: seg, by rw [he]; simp, ?_, by simpa using hal, hres⟩
        simpa [allocCount, List.filter, Ev.isAlloc] using hcnt

/-! ### Operations that never allocate: unmap, update_flags, set_flags_pN_entry, translate_page -/

/-- The recursive mapper's descent (`is_unused` first, no `PRESENT` test) also only reads tables of
the hierarchy — provided every non-zero entry of a table is present or a leaf entry (part of the state
invariant): an entry the descent follows is a non-huge entry of a level-4/3/2 table. -/
theorem descendU_events (p4 : Word) : ∀ (path r : List Nat) (tbl : Word) (s : St),
    LeafOrPresent s.mem p4 →
    tblAt s.mem p4 r = some tbl → r.length + path.length ≤ 3 → IdxOK (r ++ path) →
    ∃ seg, (descendU s tbl path).2.events = s.events ++ seg ∧
      (descendU s tbl path).2.mem = s.mem ∧ (descendU s tbl path).2.allocs = s.allocs ∧
      (∀ t, (descendU s tbl path).1 = .ok t → tblAt s.mem p4 (r ++ path) = some t) ∧
      ∀ ev ∈ seg, ∃ f i, ev = .rd f i ∧ IsTable s.mem p4 f := by
  intro path
  induction path with
  | nil =>
    intro r tbl s _ hr _ _
    refine ⟨[], by simp [descendU], rfl, rfl, ?_, by intro ev h; cases h⟩
    intro t ht; simp [descendU] at ht; subst ht; simpa using hr
  | cons i rest ih =>
    intro r tbl s hap hr hlen hidx
    have hrl : r.length ≤ 3 := by simp at hlen; omega
    have hri : IdxOK r := (IdxOK_append.1 hidx).1
    have hi : i < 512 := (IdxOK_append.1 hidx).2 i (by simp)
    have htbl : IsTable s.mem p4 tbl := ⟨r, hrl, hri, hr⟩
    simp only [descendU, St.rd_fst]
    cases hnt : nextTableU (s.mem tbl i) with
    | error e =>
      refine ⟨[.rd tbl i], ?_, ?_, ?_, ?_, ?_⟩
      · simp
      · rfl
      · rfl
      · intro t ht; cases ht
      · intro ev h; simp at h; exact ⟨tbl, i, h, htbl⟩
    | ok t =>
      have hto : tableOf (s.mem tbl i) = some t := by
        unfold nextTableU at hnt
        split at hnt
        · cases hnt
        · rename_i hu
          split at hnt
          · cases hnt
          · rename_i hh
            have hne : s.mem tbl i ≠ 0#64 := by
              intro h0; rw [h0] at hu; simp [Pte.isUnused] at hu
            have hP : Pte.present (s.mem tbl i) = true := by
              rcases hap r tbl i hrl hri hr hi hne with h | h | ⟨_, h⟩
              · exact h
              · simp at hlen; omega
              · exact absurd h hh
            cases hnt
            unfold tableOf
            simp [hP, hh]
      have ht : tblAt s.mem p4 (r ++ [i]) = some t := by
        rw [tblAt_append, hr]; simp [tblAt, hto]
      obtain ⟨seg, hseg, hm, ha, hok, hall⟩ := ih (r ++ [i]) t (s.rd tbl i).2 hap (by simpa using ht)
        (by simp at hlen ⊢; omega) (by simpa using hidx)
      refine ⟨.rd tbl i :: seg, ?_, ?_, ?_, ?_, ?_⟩
      · simp only []; rw [hseg]; simp
      · simpa using hm
      · simpa using ha
      · intro t' ht'; simpa using hok t' ht'
      · intro ev h
        rcases List.mem_cons.1 h with h | h
        · exact ⟨tbl, i, h, htbl⟩
        · simpa using hall ev h

/-- `descend`, packaged like `descendU_events`. -/
theorem descend_events' (p4 : Word) (path r : List Nat) (tbl : Word) (s : St)
    (hr : tblAt s.mem p4 r = some tbl) (hlen : r.length + path.length ≤ 3) (hidx : IdxOK (r ++ path)) :
    ∃ seg, (descend s tbl path).2.events = s.events ++ seg ∧
      (descend s tbl path).2.mem = s.mem ∧ (descend s tbl path).2.allocs = s.allocs ∧
      (∀ t, (descend s tbl path).1 = .ok t → tblAt s.mem p4 (r ++ path) = some t) ∧
      ∀ ev ∈ seg, ∃ f i, ev = .rd f i ∧ IsTable s.mem p4 f := by
  obtain ⟨seg, h1, h2⟩ := descend_events p4 path r tbl s hr hlen hidx
  refine ⟨seg, h1, descend_mem s tbl path, descend_allocs s tbl path, ?_, h2⟩
  intro t ht
  have := (descend_ok_iff s tbl path t).1 ht
  rw [tblAt_append, hr]; simpa using this

/-- When is the descent of mapper kind `k` covered: the recursive kind needs "non-zero ⇒ present or a
leaf entry" (the entry part of the state invariant `Inv`). -/
def KindOK (k : Kind) (m : PMem) (p4 : Word) : Prop := k.recursive = true → LeafOrPresent m p4

theorem descendK_events (k : Kind) (p4 : Word) (path : List Nat) (s : St) (hk : KindOK k s.mem p4)
    (hlen : path.length ≤ 3) (hidx : IdxOK path) :
    ∃ seg, (descendK k s p4 path).2.events = s.events ++ seg ∧
      (descendK k s p4 path).2.mem = s.mem ∧ (descendK k s p4 path).2.allocs = s.allocs ∧
      (∀ t, (descendK k s p4 path).1 = .ok t → tblAt s.mem p4 path = some t) ∧
      ∀ ev ∈ seg, ∃ f i, ev = .rd f i ∧ IsTable s.mem p4 f := by
  unfold descendK
  by_cases hrec : k.recursive = true
  · simp only [hrec, if_true]
    simpa using descendU_events p4 path [] p4 s (hk hrec) rfl (by simpa using hlen) (by simpa using hidx)
  · simp only [hrec, if_false]
    simpa using descend_events' p4 path [] p4 s rfl (by simpa using hlen) (by simpa using hidx)

/-- Log guarantee of an operation that never allocates or frees: every event is a read or a write
of a page table of the hierarchy, memory differs only inside such tables, the allocator is not
consulted. -/
structure TableOnly (p4 : Word) (s s' : St) (seg : List Ev) : Prop where
  events : s'.events = s.events ++ seg
  touch : ∀ ev ∈ seg, ∃ f, IsTable s.mem p4 f ∧ ((∃ i, ev = .rd f i) ∨ (∃ i v, ev = .wr f i v))
  memdiff : ∀ f i, s'.mem f i ≠ s.mem f i → IsTable s.mem p4 f
  allocs : s'.allocs = s.allocs

theorem TableOnly.noAlloc {p4 : Word} {s s' : St} {seg : List Ev} (h : TableOnly p4 s s' seg) :
    allocCount seg = 0 ∧ ∀ ev ∈ seg, ev.isDealloc = false := by
  constructor
  · unfold allocCount
    rw [List.length_eq_zero_iff, List.filter_eq_nil_iff]
    intro ev hev
    obtain ⟨f, _, ⟨i, rfl⟩ | ⟨i, v, rfl⟩⟩ := h.touch ev hev <;> simp [Ev.isAlloc]
  · intro ev hev
    obtain ⟨f, _, ⟨i, rfl⟩ | ⟨i, v, rfl⟩⟩ := h.touch ev hev <;> rfl

/-- descent, then a read of slot `li` of the reached table -/
theorem TableOnly.rd_end {p4 : Word} {s s1 : St} {seg : List Ev} {t : Word} (li : Nat)
    (he : s1.events = s.events ++ seg) (hm : s1.mem = s.mem) (ha : s1.allocs = s.allocs)
    (hseg : ∀ ev ∈ seg, ∃ f i, ev = .rd f i ∧ IsTable s.mem p4 f) (ht : IsTable s.mem p4 t) :
    TableOnly p4 s (s1.rd t li).2 (seg ++ [.rd t li]) where
  events := by simp [he]
  touch := by
    intro ev hev
    rcases List.mem_append.1 hev with h | h
    · obtain ⟨f, i, rfl, hf⟩ := hseg ev h; exact ⟨f, hf, Or.inl ⟨i, rfl⟩⟩
    · simp at h; exact ⟨t, ht, Or.inl ⟨li, h⟩⟩
  memdiff := by intro f i h; simp [hm] at h
  allocs := by simp [ha]

/-- descent, a read of slot `li` of the reached table, then a write to the same slot -/
theorem TableOnly.wr_end {p4 : Word} {s s1 : St} {seg : List Ev} {t : Word} (li : Nat) (v : Word)
    (he : s1.events = s.events ++ seg) (hm : s1.mem = s.mem) (ha : s1.allocs = s.allocs)
    (hseg : ∀ ev ∈ seg, ∃ f i, ev = .rd f i ∧ IsTable s.mem p4 f) (ht : IsTable s.mem p4 t) :
    TableOnly p4 s ((s1.rd t li).2.wr t li v) (seg ++ [.rd t li, .wr t li v]) where
  events := by simp [he]
  touch := by
    intro ev hev
    rcases List.mem_append.1 hev with h | h
    · obtain ⟨f, i, rfl, hf⟩ := hseg ev h; exact ⟨f, hf, Or.inl ⟨i, rfl⟩⟩
    · simp at h
      rcases h with h | h
      · exact ⟨t, ht, Or.inl ⟨li, h⟩⟩
      · exact ⟨t, ht, Or.inr ⟨li, v, h⟩⟩
  memdiff := by
    intro f i h
    simp only [St.wr_mem, St.rd_mem, hm] at h
    by_cases hw : f = t ∧ i = li
    · rw [hw.1]; exact ht
    · exact absurd (PMem.set_other s.mem t li v f i hw) h
  allocs := by simp [ha]

/-- an error during the descent -/
theorem TableOnly.desc_end {p4 : Word} {s s1 : St} {seg : List Ev}
    (he : s1.events = s.events ++ seg) (hm : s1.mem = s.mem) (ha : s1.allocs = s.allocs)
    (hseg : ∀ ev ∈ seg, ∃ f i, ev = .rd f i ∧ IsTable s.mem p4 f) :
    TableOnly p4 s s1 seg where
  events := he
  touch := by
    intro ev h
    obtain ⟨f, i, rfl, hf⟩ := hseg ev h; exact ⟨f, hf, Or.inl ⟨i, rfl⟩⟩
  memdiff := by intro f i h; simp [hm] at h
  allocs := ha

end X86
