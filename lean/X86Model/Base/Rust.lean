/-
Fixed-width semantics of the Rust subset that `translator/gen_fns.py` emits (Generated/SrcFns.lean).
Every integer is a `BitVec` of the type's width; a call that may panic returns `R`.
No imports beyond `Base`: the generated definitions are linked into the `driver` executable, which
evaluates them next to the hand-written models (so the correspondence check validates the translator too).

All conditions are `Bool`-valued bit-vector predicates (`BitVec.uaddOverflow`, `BitVec.ult`, …) so that
an equation between a generated definition and a reference definition reduces to one bit-vector formula
(`Proofs/RustObs.lean`), which `bv_decide` decides whatever the syntactic shape of the source was.

Reference for the meaning of each operation: the Rust reference ("Arithmetic and logical binary
operators", "Overflow"), `core::num` documentation (`checked_*`, `is_power_of_two`), crate `bit_field`
0.10 (`get_bits`, `set_bits`: the value must fit the field or the call panics).
-/
import X86Model.Base

namespace X86.Rust

/-- `a + b`: exact, or panic (overflow checks on) / wrap (off). -/
def add {w} (cfg : Cfg) (a b : BitVec w) : R (BitVec w) :=
  bif BitVec.uaddOverflow a b && cfg.ovf then .panic else .ok (a + b)

/-- `a - b`. -/
def sub {w} (cfg : Cfg) (a b : BitVec w) : R (BitVec w) :=
  bif BitVec.usubOverflow a b && cfg.ovf then .panic else .ok (a - b)

/-- `a * b`. -/
def mul {w} (cfg : Cfg) (a b : BitVec w) : R (BitVec w) :=
  bif BitVec.umulOverflow a b && cfg.ovf then .panic else .ok (a * b)

/-- `a % b` on unsigned integers: panics for `b = 0` in every profile. -/
def rem {w} (a b : BitVec w) : R (BitVec w) :=
  bif b == 0 then .panic else .ok (a % b)

/-- `a / b` on unsigned integers. -/
def div {w} (a b : BitVec w) : R (BitVec w) :=
  bif b == 0 then .panic else .ok (a / b)

/-- `a << n` with a non-literal amount `n` of width `v` (`w < 2^v` for every pair of Rust integer types):
panic (checks on) / amount masked to the width (off) when `n ≥ w`. -/
def shl {w v} (cfg : Cfg) (a : BitVec w) (n : BitVec v) : R (BitVec w) :=
  bif BitVec.ule (BitVec.ofNat v w) n && cfg.ovf then .panic else .ok (a <<< (n % BitVec.ofNat v w))

/-- `a >> n` (logical) with a non-literal amount. -/
def shr {w v} (cfg : Cfg) (a : BitVec w) (n : BitVec v) : R (BitVec w) :=
  bif BitVec.ule (BitVec.ofNat v w) n && cfg.ovf then .panic else .ok (a >>> (n % BitVec.ofNat v w))

def checkedAdd {w} (a b : BitVec w) : Option (BitVec w) :=
  bif BitVec.uaddOverflow a b then none else some (a + b)

def checkedSub {w} (a b : BitVec w) : Option (BitVec w) :=
  bif BitVec.usubOverflow a b then none else some (a - b)

def checkedMul {w} (a b : BitVec w) : Option (BitVec w) :=
  bif BitVec.umulOverflow a b then none else some (a * b)

/-- `x.is_power_of_two()`: exactly one bit set. -/
def isPowerOfTwo {w} (x : BitVec w) : Bool :=
  x != 0 && (x &&& (x - 1)) == 0

/-- Mask of the `hi - lo` low bits (`lo < hi ≤ w`, literals in the source). -/
def fieldMask (w lo hi : Nat) : BitVec w := BitVec.allOnes w >>> (w - (hi - lo))

/-- `x.get_bits(lo..hi)`: bits `lo..hi` moved down to position 0. -/
def getBits {w} (x : BitVec w) (lo hi : Nat) : BitVec w :=
  (x >>> lo) &&& fieldMask w lo hi

/-- `x.set_bits(lo..hi, v)`: `bit_field` asserts that `v` fits into `hi - lo` bits, then replaces the field. -/
def setBits {w} (x : BitVec w) (lo hi : Nat) (v : BitVec w) : R (BitVec w) :=
  bif (v &&& ~~~fieldMask w lo hi) == 0 then .ok ((x &&& ~~~(fieldMask w lo hi <<< lo)) ||| (v <<< lo)) else .panic

/-- `x.get_bits(r)` with a `Range<usize>` computed at run time (`bit_field` 0.10: the three range assertions,
then "shift away high bits", "shift away low bits"). -/
def getBitsDyn {w} (x : BitVec w) (lo hi : BitVec 64) : R (BitVec w) :=
  bif BitVec.ult lo (BitVec.ofNat 64 w) && BitVec.ule hi (BitVec.ofNat 64 w) && BitVec.ult lo hi then
    .ok (((x <<< (BitVec.ofNat 64 w - hi)) >>> (BitVec.ofNat 64 w - hi)) >>> lo)
  else .panic

/-- `x.set_bits(r, v)` with a range computed at run time: the same assertions, "value does not fit into bit
range", then the source's bitmask expression. -/
def setBitsDyn {w} (x : BitVec w) (lo hi : BitVec 64) (v : BitVec w) : R (BitVec w) :=
  bif BitVec.ult lo (BitVec.ofNat 64 w) && BitVec.ule hi (BitVec.ofNat 64 w) && BitVec.ult lo hi then
    bif ((v <<< (BitVec.ofNat 64 w - (hi - lo))) >>> (BitVec.ofNat 64 w - (hi - lo))) == v then
      .ok ((x &&& ~~~((((BitVec.allOnes w <<< (BitVec.ofNat 64 w - hi)) >>> (BitVec.ofNat 64 w - hi)) >>> lo) <<< lo))
        ||| (v <<< lo))
    else .panic
  else .panic

/-- `x.get_bit(i)`. -/
def getBit {w} (x : BitVec w) (i : Nat) : Bool := x.getLsbD i

/-- `x.set_bit(i, b)`. -/
def setBit {w} (x : BitVec w) (i : Nat) (b : Bool) : BitVec w :=
  bif b then x ||| (1#w <<< i) else x &&& ~~~(1#w <<< i)

/-- `Option::unwrap` / `expect`. -/
def unwrap {α} (o : Option α) : R α :=
  match o with
  | some a => .ok a
  | none => .panic

/-- `match o { Some(v) => f v, None => n }` (also `if let`, `?`). -/
def onOpt {α β} (o : Option α) (f : α → β) (n : β) : β :=
  match o with
  | some a => f a
  | none => n

/-- `match r { Ok(v) => f v, Err(_) => n }`. -/
def onRes {α β} (r : Except Unit α) (f : α → β) (n : β) : β :=
  match r with
  | .ok a => f a
  | .error _ => n

end X86.Rust
