/-
Line protocol between the Rust harness and the Lean model driver.

Input line:   `<op> <arg>* => <impl-output-token>*`       (integers in decimal)
Header line:  `#cfg ovf=<0|1>`                            (measured by the harness)

For every input line the driver evaluates the model (`model output`) and the
property's spec oracle on the implementation's output, and prints
  `D <lineno> <line> :: <model output>`   model and implementation disagree
  `F <lineno> <line> :: <model output>`   the implementation's output violates the spec oracle
  `U <lineno> <line>`                     unknown op / unparsable line (framework error)
followed by `E` sample lines, `H <op>:<class> <count>` histogram lines and one
`S lines=<n> dis=<d> fail=<f> unknown=<u>` summary line.
-/
import X86Model.Base
import Std.Data.HashMap

namespace X86.Driver

/-- Outcome of one handler call: the model's output tokens and the oracle verdict on the
implementation's output tokens. -/
structure Verdict where
  model : List String
  oracleOk : Bool
  /-- which part of the oracle rejected the implementation output (diagnostic only) -/
  why : String := ""
  /-- the definitions generated from the source were evaluated on this line as well (third voice) -/
  srcChecked : Bool := false

abbrev Handler := Cfg → String → Array Nat → List String → Option Verdict

/-- A handler that carries driver state from line to line (operation histories). -/
abbrev SHandler (σ : Type) := Cfg → String → Array Nat → List String → σ → Option (Verdict × σ)

def Handler.lift {σ : Type} (h : Handler) : SHandler σ :=
  fun cfg op a impl st => (h cfg op a impl).map (fun v => (v, st))

def fmtR (r : R Nat) : List String :=
  match r with
  | .ok v => ["ok", toString v]
  | .panic => ["panic"]

def fmtRBool (r : R Bool) : List String :=
  match r with
  | .ok v => ["ok", if v then "1" else "0"]
  | .panic => ["panic"]

def fmtOpt (o : Option Nat) : List String :=
  match o with
  | some v => ["some", toString v]
  | none => ["none"]

def fmtPair (p : Nat × Option Nat) : List String :=
  toString p.1 :: fmtOpt p.2

def fmtNat (n : Nat) : List String := [toString n]

def fmtBool (b : Bool) : List String := [if b then "1" else "0"]

def fmtNats (l : List Nat) : List String := l.map toString

/-- Parse `ok v` / `some v` style outputs: the value of a one-value success, if any. -/
def outVal? (toks : List String) : Option Nat :=
  match toks with
  | [_, v] => v.toNat?
  | _ => none

/-- Verdict whose oracle is "implementation output equals `spec`". -/
def eqSpec (model spec impl : List String) : Verdict :=
  { model := model, oracleOk := impl == spec }

/-- Verdict with an arbitrary oracle. -/
def withOracle (model : List String) (ok : Bool) : Verdict :=
  { model := model, oracleOk := ok }

def parseLine (line : String) : Option (String × Array Nat × List String) :=
  match line.splitOn " => " with
  | [lhs, rhs] =>
    match lhs.splitOn " " with
    | op :: args =>
      let nums := args.filterMap (·.toNat?)
      if nums.length == args.length then
        some (op, nums.toArray, (rhs.splitOn " ").filter (· ≠ ""))
      else none
    | [] => none
  | _ => none

structure Stats where
  lines : Nat := 0
  dis : Nat := 0
  fail : Nat := 0
  unknown : Nat := 0
  src : Nat := 0
  hist : Std.HashMap String Nat := {}
  samples : Std.HashMap String Nat := {}

partial def loop {σ : Type} (handler : SHandler σ) (h : IO.FS.Stream) (out : IO.FS.Stream)
    (cfg : Cfg) (st : Stats) (ds : σ) : IO Stats := do
  let raw ← h.getLine
  if raw.isEmpty then return st
  let line := raw.trimAscii.toString
  if line.isEmpty then loop handler h out cfg st ds
  else if line.startsWith "#cfg ovf=" then
    let v := (line.drop 9) == "1"
    loop handler h out { ovf := v } st ds
  else if line.startsWith "#" then loop handler h out cfg st ds
  else
    let n := st.lines + 1
    match parseLine line with
    | none =>
      out.putStrLn s!"U {n} {line}"
      loop handler h out cfg { st with lines := n, unknown := st.unknown + 1 } ds
    | some (op, args, impl) =>
      match handler cfg op args impl ds with
      | none =>
        out.putStrLn s!"U {n} {line}"
        loop handler h out cfg { st with lines := n, unknown := st.unknown + 1 } ds
      | some (v, ds) =>
        let modelStr := " ".intercalate v.model
        let cls := op ++ ":" ++ ((v.model.find? (fun t => t.toNat?.isNone)).getD "num")
        let hist := st.hist.insert cls (st.hist.getD cls 0 + 1)
        let seen := st.samples.getD cls 0
        if seen < 2 then out.putStrLn s!"E {line} :: {modelStr}"
        let samples := if seen < 2 then st.samples.insert cls (seen + 1) else st.samples
        let disagree := v.model != impl
        if !v.oracleOk then out.putStrLn s!"F {n} {line} :: {modelStr} :: {v.why}"
        else if disagree then out.putStrLn s!"D {n} {line} :: {modelStr}"
        loop handler h out cfg
          { st with lines := n,
                    dis := st.dis + (if disagree then 1 else 0),
                    fail := st.fail + (if v.oracleOk then 0 else 1),
                    src := st.src + (if v.srcChecked then 1 else 0),
                    hist := hist, samples := samples } ds

def run {σ : Type} (handler : SHandler σ) (init : σ) : IO UInt32 := do
  let stdin ← IO.getStdin
  let stdout ← IO.getStdout
  let st ← loop handler stdin stdout { ovf := true } {} init
  for (k, v) in st.hist.toList do
    stdout.putStrLn s!"H {k} {v}"
  stdout.putStrLn s!"S lines={st.lines} dis={st.dis} fail={st.fail} unknown={st.unknown} src={st.src}"
  return 0

end X86.Driver
