/-
Driver handler for C16 (system-register wrappers). Line format (harness/src/c16.rs):
  <op> <old> <args>* => <visible instructions> ; <returned value> ; post <target after> same <0|1>
`old` is the prior raw content of the wrapper's target register. Model output: the wrapper's
model (Model/Regs.lean, Model/RFlags.lean) run on a register file holding `old`, rendered the
same way. Oracle (Spec/Regs.lean): every observed instruction accesses the architectural
register the wrapper is named after, the returned value and the register's final content are
what the property prescribes, and nothing else changed. Where the property does not prescribe an
outcome (typed readers on architecturally impossible contents, arguments outside the documented
domain) the oracle only checks the register identity and `same`.
-/
import X86Model.Driver.Trap
import X86Model.Model.Regs
import X86Model.Model.RFlags
import X86Model.Spec.Regs

namespace X86.Driver
open X86 X86.Spec X86.Consts X86.Regs

structure Expect where
  reg : RegId
  res : Option (List String)
  post : Option Nat
  /-- no visible instruction may be executed at all (rejections happen before any write) -/
  quiet : Bool := false
  /-- the full 64-bit source operand of the last register write, where it is not simply `post`
  (MOV to CR3: bit 63 of the operand selects "no flush" and is not stored) -/
  operand : Option Nat := none

/-- A register file holding `old` in `reg` (everything else zero). -/
def cpuWith (reg : RegId) (old : Nat) : Cpu :=
  let z := Cpu.zero
  match reg with
  | .cr 0 => { z with cr0 := bv64T old }
  | .cr 2 => { z with cr2 := bv64T old }
  | .cr 3 => { z with cr3 := bv64T old }
  | .cr 4 => { z with cr4 := bv64T old }
  | .cr _ => z
  | .dr n => z.setDr n (bv64T old)
  | .msr i => z.setMsr i (bv64T old)
  | .xcr0 => { z with xcr0 := bv64T old }
  | .sreg s => z.setSreg s (bv16 old)
  | .tr => { z with tr := bv16 old }
  | .rflags => { z with rflags := bv64T old }
  | .mxcsr => { z with mxcsr := bv32 old }
  | .none => z

def archMsrs : List Nat :=
  [ARCH_APIC_BASE, ARCH_PAT, ARCH_U_CET, ARCH_S_CET, ARCH_EFER, ARCH_STAR, ARCH_LSTAR, ARCH_SFMASK,
   ARCH_FS_BASE, ARCH_GS_BASE, ARCH_KERNEL_GS_BASE]

/-- Nothing but `reg` differs between `a` and `b` (on the finitely many registers compared). -/
def sameExcept (reg : RegId) (a b : Cpu) : Bool :=
  let regs : List RegId :=
    [.cr 0, .cr 2, .cr 3, .cr 4, .cr 8, .xcr0, .tr, .rflags, .mxcsr] ++
    (List.range 8).map RegId.dr ++ archMsrs.map RegId.msr ++
    [Sreg.es, .cs, .ss, .ds, .fs, .gs].map RegId.sreg
  regs.all fun r => r == reg || a.reg r == b.reg r

def parseObsT (toks : List String) : List Obs :=
  (toks.foldl (fun (acc : List Obs) t =>
    match t.toNat? with
    | some n =>
      match acc with
      | o :: rest => { o with args := o.args ++ [n] } :: rest
      | [] => []
    | none => ⟨t, []⟩ :: acc) []).reverse

/-- The 64-bit value operand of a register-writing observation. -/
def Obs.written (o : Obs) : Option Nat :=
  match o.mnem, o.args with
  | "wrcr", [_, v] => some v
  | "wrdr", [_, v] => some v
  | "wrmsr", [_, lo, hi] => some (hi * 2^32 + lo)
  | "xsetbv", [_, lo, hi] => some (hi * 2^32 + lo)
  | _, _ => none

/-- Assemble model output and oracle verdict. `vis` selects the instructions the harness can
see (the privileged ones; for RFLAGS the recorded `popfq`). -/
def c16 {α} (c : Cpu) (ran : Ran α) (fmt : α → List String) (e : Expect) (impl : List String)
    (vis : Insn → Bool := Insn.privileged) : Verdict :=
  let evs := ((List.zip ran.trace (observe c ran.trace)).filter (fun p => vis p.1)).map (·.2)
  let res := match ran.res with
    | .ok v => fmt v
    | .panic => ["panic"]
  let model := evs.flatMap fmtObs ++ [";"] ++ res ++
    [";", "post", toString (ran.cpu.reg e.reg), "same", fmtFlag (sameExcept e.reg c ran.cpu)]
  let (evToks, rest) := splitAt ";" impl
  let (resToks, rest2) := splitAt ";" rest
  let ok := match rest2 with
    | ["post", v, "same", s] =>
      (parseObsT evToks).all (Obs.on e.reg) && (!e.quiet || evToks.isEmpty) &&
      (match e.operand with
       | some w => ((parseObsT evToks).filterMap Obs.written).getLast? == some w
       | none => true) &&
      (match e.res with | some r => resToks == r | none => true) &&
      (match e.post with | some p => v == toString p | none => true) &&
      s == "1"
    | _ => false
  withOracle model ok

def u (_ : Unit) : List String := ["unit"]
def n64 (v : BitVec 64) : List String := [toString v.toNat]
def pair64 (p : BitVec 64 × BitVec 64) : List String := [toString p.1.toNat, toString p.2.toNat]
def pair6416 (p : BitVec 64 × BitVec 16) : List String := [toString p.1.toNat, toString p.2.toNat]

/-- The flags-register family (`read_raw`, `read`, `write`, `write_raw`, `update`, round trip). -/
def flagFamily (name : String) (reg : RegId) (all : BitVec 64)
    (readRaw read : M (BitVec 64)) (write writeRaw : BitVec 64 → M Unit)
    (update : (BitVec 64 → BitVec 64) → M Unit)
    (op : String) (a : List Nat) (impl : List String) : Option Verdict :=
  if !op.startsWith (name ++ "_") then none else
  let sub := (op.drop (name.length + 1)).toString
  match sub, a with
  | "read_raw", [old] =>
    let c := cpuWith reg old
    some (c16 c (readRaw c) n64 { reg := reg, res := some [toString old], post := some old } impl)
  | "read", [old] =>
    let c := cpuWith reg old
    some (c16 c (read c) n64 { reg := reg, res := some (n64 (typedRead all (bv64T old))), post := some old } impl)
  | "write", [old, fl] =>
    let c := cpuWith reg old
    some (c16 c (write (bv64T fl) c) u { reg := reg, res := some ["unit"], post := some (typedWrite all (bv64T old) (bv64T fl)).toNat } impl)
  | "write_raw", [old, v] =>
    let c := cpuWith reg old
    some (c16 c (writeRaw (bv64T v) c) u { reg := reg, res := some ["unit"], post := some v } impl)
  | "update", [old, x] =>
    let c := cpuWith reg old
    let f : BitVec 64 → BitVec 64 := fun fl => fl ^^^ bv64T x
    some (c16 c (update f c) u { reg := reg, res := some ["unit"], post := some (typedUpdate all (bv64T old) f).toNat } impl)
  | "write_read", [old, fl] =>
    let c := cpuWith reg old
    let ran := (do write (bv64T fl); read : M (BitVec 64)) c
    some (c16 c ran n64 { reg := reg, res := some [toString fl], post := some (typedWrite all (bv64T old) (bv64T fl)).toNat } impl)
  | _, _ => none

/-- Address-valued MSR family. -/
def addrFamily (name : String) (idx : Nat) (read : M (BitVec 64)) (write : BitVec 64 → M Unit)
    (op : String) (a : List Nat) (impl : List String) : Option Verdict :=
  if !op.startsWith (name ++ "_") then none else
  let reg := RegId.msr idx
  let sub := (op.drop (name.length + 1)).toString
  match sub, a with
  | "read", [old] =>
    let c := cpuWith reg old
    -- specified on canonical contents only
    let res := if canonical (bv64T old) then some [toString old] else none
    some (c16 c (read c) n64 { reg := reg, res := res, post := some old } impl)
  | "write", [old, v] =>
    let c := cpuWith reg old
    some (c16 c (write (bv64T v) c) u { reg := reg, res := some ["unit"], post := some v } impl)
  | "write_read", [old, v] =>
    let c := cpuWith reg old
    let ran := (do write (bv64T v); read : M (BitVec 64)) c
    some (c16 c ran n64 { reg := reg, res := some [toString v], post := some v } impl)
  | _, _ => none

def fmtStarErr (e : StarError) : String := e.name

def fmtQuad (q : BitVec 16 × BitVec 16 × BitVec 16 × BitVec 16) : List String :=
  [toString q.1.toNat, toString q.2.1.toNat, toString q.2.2.1.toNat, toString q.2.2.2.toNat]

/-- CET family (`UCet`/`SCet`). -/
def cetFamily (name : String) (idx : Nat) (reg32 : BitVec 32)
    (op : String) (a : List Nat) (impl : List String) : Option Verdict :=
  if !op.startsWith (name ++ "_") then none else
  let reg := RegId.msr idx
  let sub := (op.drop (name.length + 1)).toString
  match sub, a with
  | "read", [old] =>
    let c := cpuWith reg old
    let o := bv64T old
    let res := if canonical (o &&& ~~~0xfff#64) then
      some [toString (typedRead CET_ALL o).toNat, toString (o &&& ~~~0xfff#64).toNat] else none
    some (c16 c (cetRead reg32 c) pair64 { reg := reg, res := res, post := some old } impl)
  | "write", [old, fl, pg] =>
    let c := cpuWith reg old
    some (c16 c (cetWrite reg32 (bv64T fl) (bv64T pg) c) u { reg := reg, res := some ["unit"], post := some (bv64T fl ||| bv64T pg).toNat } impl)
  | "update", [old, x, pg] =>
    let c := cpuWith reg old
    let o := bv64T old
    let f : BitVec 64 × BitVec 64 → BitVec 64 × BitVec 64 := fun p => (p.1 ^^^ bv64T x, bv64T pg)
    let exp := if canonical (o &&& ~~~0xfff#64) then
      some ((typedRead CET_ALL o ^^^ bv64T x) ||| bv64T pg).toNat else none
    some (c16 c (cetUpdate reg32 f c) u { reg := reg, res := exp.map (fun _ => ["unit"]), post := exp } impl)
  | "write_read", [old, fl, pg] =>
    let c := cpuWith reg old
    let ran := (do cetWrite reg32 (bv64T fl) (bv64T pg); cetRead reg32 : M (BitVec 64 × BitVec 64)) c
    some (c16 c ran pair64 { reg := reg, res := some [toString fl, toString pg], post := some (bv64T fl ||| bv64T pg).toNat } impl)
  | _, _ => none

def constValue (k : Nat) : Option Nat :=
  match k with
  | 0 => some RFLAGS_ALL.toNat
  | 1 => some RFLAGS_INTERRUPT_FLAG.toNat
  | 2 => some CR0_ALL.toNat
  | 3 => some CR3_ALL.toNat
  | 4 => some CR4_ALL.toNat
  | 5 => some XCR0_ALL.toNat
  | 6 => some DR6_ALL.toNat
  | 7 => some DR7_FLAGS_ALL.toNat
  | 8 => some DR7_VALID.toNat
  | 9 => some EFER_ALL.toNat
  | 10 => some CET_ALL.toNat
  | 11 => some APIC_BASE_ALL.toNat
  | 12 => some MXCSR_ALL.toNat
  | _ => none

def sregOfNat (n : Nat) : Sreg :=
  match n with
  | 0 => .es | 1 => .cs | 2 => .ss | 3 => .ds | 4 => .fs | _ => .gs

def handleC16Misc : Handler := fun cfg op a impl =>
  match op, a.toList with
  | "c16_const", [k] =>
    -- the model's GENERATED-CANDIDATE constants against the compiled crate
    (constValue k).map fun v => eqSpec [toString v] impl impl
  -- CR2
  | "cr2_read_raw", [old] =>
    let c := cpuWith (.cr 2) old
    some (c16 c (Cr2.readRaw c) n64 { reg := .cr 2, res := some [toString old], post := some old } impl)
  | "cr2_read", [old] =>
    let c := cpuWith (.cr 2) old
    let fmt : Option (BitVec 64) → List String := fun o => match o with | some v => ["ok", toString v.toNat] | none => ["err"]
    let exp := if canonical (bv64T old) then ["ok", toString old] else ["err"]
    some (c16 c (Cr2.read c) fmt { reg := .cr 2, res := some exp, post := some old } impl)
  -- CR3
  | "cr3_read_raw", [old] =>
    let c := cpuWith (.cr 3) old
    some (c16 c (Cr3.readRaw c) pair6416 { reg := .cr 3, res := some [toString (cr3Frame (bv64T old)).toNat, toString (cr3Low12 (bv64T old)).toNat], post := some old } impl)
  | "cr3_read", [old] =>
    let c := cpuWith (.cr 3) old
    some (c16 c (Cr3.read c) pair64 { reg := .cr 3, res := some [toString (cr3Frame (bv64T old)).toNat, toString (typedRead CR3_ALL (bv64T old)).toNat], post := some old } impl)
  | "cr3_read_pcid", [old] =>
    let c := cpuWith (.cr 3) old
    some (c16 c (Cr3.readPcid c) pair6416 { reg := .cr 3, res := some [toString (cr3Frame (bv64T old)).toNat, toString (cr3Low12 (bv64T old)).toNat], post := some old } impl)
  | "cr3_write", [old, fr, fl] =>
    let c := cpuWith (.cr 3) old
    some (c16 c (Cr3.write (bv64T fr) (bv64T fl) c) u { reg := .cr 3, res := some ["unit"], post := some (bv64T fr ||| (bv64T fl &&& 0xffff#64)).toNat, operand := some (bv64T fr ||| (bv64T fl &&& 0xffff#64)).toNat } impl)
  | "cr3_write_pcid", [old, fr, pc] =>
    let c := cpuWith (.cr 3) old
    some (c16 c (Cr3.writePcid (bv64T fr) (bv16 pc) c) u { reg := .cr 3, res := some ["unit"], post := some (bv64T fr ||| bv64T pc).toNat, operand := some (bv64T fr ||| bv64T pc).toNat } impl)
  | "cr3_write_pcid_no_flush", [old, fr, pc] =>
    let c := cpuWith (.cr 3) old
    -- the source operand has bit 63 set; CR3 itself never holds bit 63
    some (c16 c (Cr3.writePcidNoFlush (bv64T fr) (bv16 pc) c) u { reg := .cr 3, res := some ["unit"], post := some (bv64T fr ||| bv64T pc).toNat, operand := some ((bv64T fr ||| bv64T pc).toNat + 2^63) } impl)
  | "cr3_write_raw", [old, fr, v] =>
    let c := cpuWith (.cr 3) old
    some (c16 c (Cr3.writeRaw (bv64T fr) (bv16 v) c) u { reg := .cr 3, res := some ["unit"], post := some (bv64T fr ||| bv64T v).toNat } impl)
  | "cr3_update", [old, fr, x] =>
    let c := cpuWith (.cr 3) old
    let f : BitVec 64 × BitVec 64 → BitVec 64 × BitVec 64 := fun p => (bv64T fr, p.2 ^^^ bv64T x)
    let exp := (bv64T fr ||| ((typedRead CR3_ALL (bv64T old) ^^^ bv64T x) &&& 0xffff#64)).toNat
    some (c16 c (Cr3.update f c) u { reg := .cr 3, res := some ["unit"], post := some exp } impl)
  | "cr3_update_pcid", [old, fr, pc] =>
    let c := cpuWith (.cr 3) old
    let f : BitVec 64 × BitVec 16 → BitVec 64 × BitVec 16 := fun _ => (bv64T fr, bv16 pc)
    some (c16 c (Cr3.updatePcid f c) u { reg := .cr 3, res := some ["unit"], post := some (bv64T fr ||| bv64T pc).toNat, operand := some (bv64T fr ||| bv64T pc).toNat } impl)
  | "cr3_update_pcid_no_flush", [old, fr, pc] =>
    let c := cpuWith (.cr 3) old
    let f : BitVec 64 × BitVec 16 → BitVec 64 × BitVec 16 := fun _ => (bv64T fr, bv16 pc)
    some (c16 c (Cr3.updatePcidNoFlush f c) u { reg := .cr 3, res := some ["unit"], post := some (bv64T fr ||| bv64T pc).toNat, operand := some ((bv64T fr ||| bv64T pc).toNat + 2^63) } impl)
  | "cr3_write_read", [old, fr, fl] =>
    let c := cpuWith (.cr 3) old
    let ran := (do Cr3.write (bv64T fr) (bv64T fl); Cr3.read : M (BitVec 64 × BitVec 64)) c
    some (c16 c ran pair64 { reg := .cr 3, res := some [toString fr, toString fl], post := some (bv64T fr ||| bv64T fl).toNat } impl)
  | "cr3_write_pcid_read_pcid", [old, fr, pc, nf] =>
    let c := cpuWith (.cr 3) old
    let w := if nf = 1 then Cr3.writePcidNoFlush (bv64T fr) (bv16 pc) else Cr3.writePcid (bv64T fr) (bv16 pc)
    let ran := (do w; Cr3.readPcid : M (BitVec 64 × BitVec 16)) c
    some (c16 c ran pair6416 { reg := .cr 3, res := some [toString fr, toString pc], post := some (bv64T fr ||| bv64T pc).toNat, operand := some ((bv64T fr ||| bv64T pc).toNat + (if nf = 1 then 2^63 else 0)) } impl)
  -- raw MSR access
  | "msr_read", [old, idx] =>
    let c := cpuWith (.msr idx) old
    some (c16 c (Msr.read (bv32 idx) c) n64 { reg := .msr idx, res := some [toString old], post := some old } impl)
  | "msr_write", [old, idx, v] =>
    let c := cpuWith (.msr idx) old
    some (c16 c (Msr.write (bv32 idx) (bv64T v) c) u { reg := .msr idx, res := some ["unit"], post := some v } impl)
  -- STAR
  | "star_read_raw", [old] =>
    let c := cpuWith (.msr ARCH_STAR) old
    let fmt : BitVec 16 × BitVec 16 → List String := fun p => [toString p.1.toNat, toString p.2.toNat]
    some (c16 c (Star.readRaw c) fmt { reg := .msr ARCH_STAR, res := some [toString (starSysret (bv64T old)), toString (starSyscall (bv64T old))], post := some old } impl)
  | "star_read", [old] =>
    let c := cpuWith (.msr ARCH_STAR) old
    let (r, s) := (starSysret (bv64T old), starSyscall (bv64T old))
    -- specified when the derived selectors exist (no 16-bit overflow)
    let exp := if r + 16 < 65536 && s + 8 < 65536 then
      some [toString (r + 16), toString (r + 8), toString s, toString (s + 8)] else none
    some (c16 c (Star.read cfg c) fmtQuad { reg := .msr ARCH_STAR, res := exp, post := some old } impl)
  | "star_write_raw", [old, x, y] =>
    let c := cpuWith (.msr ARCH_STAR) old
    some (c16 c (Star.writeRaw (bv16 x) (bv16 y) c) u { reg := .msr ARCH_STAR, res := some ["unit"], post := some (x % 65536 * 2^48 + y % 65536 * 2^32) } impl)
  | "star_write", [old, csr, ssr, csc, ssc] =>
    let c := cpuWith (.msr ARCH_STAR) old
    let fmt : Except StarError Unit → List String := fun e => match e with | .ok _ => ["ok"] | .error e => ["err", fmtStarErr e]
    let ran := Star.write cfg (bv16 csr) (bv16 ssr) (bv16 csc) (bv16 ssc) c
    -- base selector of the SYSRET pair, modulo 2^16 (selectors are 16-bit quantities)
    let base := (ssr + 65536 - 8) % 65536
    match starRejection csr ssr csc ssc with
    | some e =>   -- rejected before any wrmsr
      some (c16 c ran fmt { reg := .msr ARCH_STAR, res := some ["err", e], post := some old, quiet := true } impl)
    | none =>
      let accepted := c16 c ran fmt { reg := .msr ARCH_STAR, res := some ["ok"], post := some (base * 2^48 + csc * 2^32) } impl
      if ssr ≥ 8 then some accepted
      else
        -- null SYSRET SS (not a documented rejection): either accepted with the base written
        -- modulo 2^16, or a panic that writes nothing
        let refused := c16 c ran fmt { reg := .msr ARCH_STAR, res := some ["panic"], post := some old, quiet := true } impl
        some { accepted with oracleOk := accepted.oracleOk || refused.oracleOk }
  | "star_write_read", [old, csr, ssr, csc, ssc] =>
    let c := cpuWith (.msr ARCH_STAR) old
    let ran := (do
      let w ← Star.write cfg (bv16 csr) (bv16 ssr) (bv16 csc) (bv16 ssc)
      match w with
      | .ok _ => do let r ← Star.read cfg; pure (Except.ok r)
      | .error e => pure (Except.error e) : M (Except StarError _)) c
    let fmt : Except StarError (BitVec 16 × BitVec 16 × BitVec 16 × BitVec 16) → List String := fun e =>
      match e with | .ok q => "ok" :: fmtQuad q | .error e => ["err", fmtStarErr e]
    let base := (ssr + 65536 - 8) % 65536
    match starRejection csr ssr csc ssc with
    | some e =>
      some (c16 c ran fmt { reg := .msr ARCH_STAR, res := some ["err", e], post := some old, quiet := true } impl)
    | none =>
      -- an accepted quadruple is what the next read returns
      let quad := ["ok", toString csr, toString ssr, toString csc, toString ssc]
      let accepted := c16 c ran fmt { reg := .msr ARCH_STAR, res := some quad, post := some (base * 2^48 + csc * 2^32) } impl
      if ssr ≥ 8 then some accepted
      else
        let refused := c16 c ran fmt { reg := .msr ARCH_STAR, res := some ["panic"], post := some old, quiet := true } impl
        some { accepted with oracleOk := accepted.oracleOk || refused.oracleOk }
  -- SFMASK
  | "sfmask_read", [old] =>
    let c := cpuWith (.msr ARCH_SFMASK) old
    let res := if bv64T old &&& ~~~RFLAGS_ALL == 0#64 then some [toString old] else none
    some (c16 c (SFMask.read c) n64 { reg := .msr ARCH_SFMASK, res := res, post := some old } impl)
  | "sfmask_write", [old, v] =>
    let c := cpuWith (.msr ARCH_SFMASK) old
    some (c16 c (SFMask.write (bv64T v) c) u { reg := .msr ARCH_SFMASK, res := some ["unit"], post := some v } impl)
  | "sfmask_update", [old, x] =>
    let c := cpuWith (.msr ARCH_SFMASK) old
    let f : BitVec 64 → BitVec 64 := fun fl => fl ^^^ bv64T x
    let exp := if bv64T old &&& ~~~RFLAGS_ALL == 0#64 then some (bv64T old ^^^ bv64T x).toNat else none
    some (c16 c (SFMask.update f c) u { reg := .msr ARCH_SFMASK, res := exp.map (fun _ => ["unit"]), post := exp } impl)
  | "sfmask_write_read", [old, v] =>
    let c := cpuWith (.msr ARCH_SFMASK) old
    let ran := (do SFMask.write (bv64T v); SFMask.read : M (BitVec 64)) c
    some (c16 c ran n64 { reg := .msr ARCH_SFMASK, res := some [toString v], post := some v } impl)
  -- PAT
  | "pat_read", [old] =>
    let c := cpuWith (.msr ARCH_PAT) old
    let res := if patTableValid (bv64T old) then some [toString old] else none
    some (c16 c (Pat.read c) n64 { reg := .msr ARCH_PAT, res := res, post := some old } impl)
  | "pat_write", [old, t] =>
    let c := cpuWith (.msr ARCH_PAT) old
    some (c16 c (Pat.write (bv64T t) c) u { reg := .msr ARCH_PAT, res := some ["unit"], post := some t } impl)
  | "pat_write_read", [old, t] =>
    let c := cpuWith (.msr ARCH_PAT) old
    let ran := (do Pat.write (bv64T t); Pat.read : M (BitVec 64)) c
    some (c16 c ran n64 { reg := .msr ARCH_PAT, res := some [toString t], post := some t } impl)
  -- APIC base
  | "apic_read_raw", [old] =>
    let c := cpuWith (.msr ARCH_APIC_BASE) old
    some (c16 c (ApicBase.readRaw c) pair64 { reg := .msr ARCH_APIC_BASE, res := some [toString (bv64T old &&& apicBaseField).toNat, toString old], post := some old } impl)
  | "apic_read", [old] =>
    let c := cpuWith (.msr ARCH_APIC_BASE) old
    some (c16 c (ApicBase.read c) pair64 { reg := .msr ARCH_APIC_BASE, res := some [toString (bv64T old &&& apicBaseField).toNat, toString (typedRead APIC_BASE_ALL (bv64T old)).toNat], post := some old } impl)
  | "apic_write", [old, fr, fl] =>
    let c := cpuWith (.msr ARCH_APIC_BASE) old
    -- the type models the base-address field and the three flags; everything else is preserved
    let exp := typedWrite (apicBaseField ||| APIC_BASE_ALL) (bv64T old) (bv64T fr ||| bv64T fl)
    some (c16 c (ApicBase.write (bv64T fr) (bv64T fl) c) u { reg := .msr ARCH_APIC_BASE, res := some ["unit"], post := some exp.toNat } impl)
  | "apic_write_raw", [old, fr, v] =>
    let c := cpuWith (.msr ARCH_APIC_BASE) old
    some (c16 c (ApicBase.writeRaw (bv64T fr) (bv64T v) c) u { reg := .msr ARCH_APIC_BASE, res := some ["unit"], post := some (bv64T v ||| bv64T fr).toNat } impl)
  | "apic_write_read", [old, fr, fl] =>
    let c := cpuWith (.msr ARCH_APIC_BASE) old
    let ran := (do ApicBase.write (bv64T fr) (bv64T fl); ApicBase.read : M (BitVec 64 × BitVec 64)) c
    let exp := typedWrite (apicBaseField ||| APIC_BASE_ALL) (bv64T old) (bv64T fr ||| bv64T fl)
    some (c16 c ran pair64 { reg := .msr ARCH_APIC_BASE, res := some [toString fr, toString fl], post := some exp.toNat } impl)
  -- debug registers
  | "dr_read", [old, k] =>
    let c := cpuWith (.dr k) old
    some (c16 c (Dr.read k c) n64 { reg := .dr k, res := some [toString old], post := some old } impl)
  | "dr_write", [old, k, v] =>
    let c := cpuWith (.dr k) old
    some (c16 c (Dr.write k (bv64T v) c) u { reg := .dr k, res := some ["unit"], post := some v } impl)
  | "dr_write_read", [old, k, v] =>
    let c := cpuWith (.dr k) old
    let ran := (do Dr.write k (bv64T v); Dr.read k : M (BitVec 64)) c
    some (c16 c ran n64 { reg := .dr k, res := some [toString v], post := some v } impl)
  | "dr6_read_raw", [old] =>
    let c := cpuWith (.dr 6) old
    some (c16 c (Dr6.readRaw c) n64 { reg := .dr 6, res := some [toString old], post := some old } impl)
  | "dr6_read", [old] =>
    let c := cpuWith (.dr 6) old
    some (c16 c (Dr6.read c) n64 { reg := .dr 6, res := some (n64 (typedRead DR6_ALL (bv64T old))), post := some old } impl)
  -- XCR0 (xgetbv runs on the real CPU: `old` is the host's XCR0)
  | "xcr0_read_raw", [old] =>
    let c := cpuWith .xcr0 old
    some (c16 c (XCr0.readRaw c) n64 { reg := .xcr0, res := some [toString old], post := some old } impl)
  | "xcr0_read", [old] =>
    let c := cpuWith .xcr0 old
    some (c16 c (XCr0.read c) n64 { reg := .xcr0, res := some (n64 (typedRead XCR0_ALL (bv64T old))), post := some old } impl)
  | "xcr0_write", [old, fl] =>
    let c := cpuWith .xcr0 old
    let ran := XCr0.write (bv64T fl) c
    -- the emulated XCR0 is only written by xsetbv; a rejected write leaves it alone
    let exp : Expect := if XCr0.valid (bv64T fl) then
        { reg := .xcr0, res := some ["unit"], post := some (typedWrite XCR0_ALL (bv64T old) (bv64T fl)).toNat, quiet := false }
      else { reg := .xcr0, res := some ["panic"], post := none, quiet := true }             -- rejected before any xsetbv
    some (c16 c ran u exp impl)
  | "xcr0_write_raw", [old, v] =>
    let c := cpuWith .xcr0 old
    some (c16 c (XCr0.writeRaw (bv64T v) c) u { reg := .xcr0, res := some ["unit"], post := some v } impl)
  | "xcr0_update", [old, x] =>
    let c := cpuWith .xcr0 old
    let f : BitVec 64 → BitVec 64 := fun fl => fl ^^^ bv64T x
    let nf := f (typedRead XCR0_ALL (bv64T old))
    let exp : Expect := if XCr0.valid nf then
        { reg := .xcr0, res := some ["unit"], post := some (typedUpdate XCR0_ALL (bv64T old) f).toNat, quiet := false }
      else { reg := .xcr0, res := some ["panic"], post := none, quiet := true }
    some (c16 c (XCr0.update f c) u exp impl)
  -- segments
  | "seg_set", [old, s, sel] =>
    let sr := sregOfNat s
    let c := cpuWith (.sreg sr) old
    some (c16 c (Segment.setReg sr (bv16 sel) c) u { reg := .sreg sr, res := some ["unit"], post := some sel } impl)
  | "cs_set", [old, sel] =>
    let c := cpuWith (.sreg .cs) old
    some (c16 c (Segment.setReg .cs (bv16 sel) c) u { reg := .sreg .cs, res := some ["unit"], post := some sel } impl)
  | "load_tss", [old, sel] =>
    let c := cpuWith .tr old
    some (c16 c (Segment.loadTss (bv16 sel) c) u { reg := .tr, res := some ["unit"], post := some sel } impl)
  | "gs_swap", [g, k] =>
    let c := (Cpu.zero.setMsr ARCH_GS_BASE (bv64T g)).setMsr ARCH_KERNEL_GS_BASE (bv64T k)
    let ran := Segment.swapGs c
    let same := (sameExcept (.msr ARCH_GS_BASE) c (ran.cpu.setMsr ARCH_KERNEL_GS_BASE (bv64T k)))
    let model := fmtTrapped c ran.trace ++ [";", "unit", ";", "post", toString (ran.cpu.msr ARCH_GS_BASE).toNat,
      "kgs", toString (ran.cpu.msr ARCH_KERNEL_GS_BASE).toNat, "same", fmtFlag same]
    some (withOracle model (impl == ["swapgs", ";", "unit", ";", "post", toString k, "kgs", toString g, "same", "1"]))
  -- real CPU state only
  | "seg_set_real", [s, sel] =>
    let sr := sregOfNat s
    let c := Cpu.zero
    let ran := (do Segment.setReg sr (bv16 sel); Segment.getReg sr : M (BitVec 16)) c
    let v : Verdict := c16 c ran (fun x => [toString x.toNat]) { reg := .sreg sr, res := some [toString sel], post := some sel } impl (fun _ => false)
    some v
  | "base_write_read", [s, a] =>
    let c := Cpu.zero
    let ran := (if s = 4 then (do Segment.writeBaseFs (bv64T a); Segment.readBaseFs : M (BitVec 64))
      else (do Segment.writeBaseGs (bv64T a); Segment.readBaseGs : M (BitVec 64))) c
    let reg := RegId.msr (if s = 4 then ARCH_FS_BASE else ARCH_GS_BASE)
    some (c16 c ran n64 { reg := reg, res := some [toString a], post := some a } impl (fun _ => false))
  | "mxcsr_write_read", [v] =>
    let c := Cpu.zero
    let ran := (do MxCsr.write (bv32 v); MxCsr.read : M (BitVec 32)) c
    some (c16 c ran (fun x => [toString x.toNat]) { reg := .mxcsr, res := some [toString v], post := some v } impl (fun _ => false))
  | "mxcsr_update", [old, x] =>
    let c := cpuWith .mxcsr old
    let f : BitVec 32 → BitVec 32 := fun m => m ^^^ bv32 x
    some (c16 c (MxCsr.update f c) u { reg := .mxcsr, res := some ["unit"], post := some ((bv32 old &&& MXCSR_ALL) ^^^ bv32 x).toNat } impl (fun _ => false))
  -- RFLAGS through the hooks: only the operand of popfq is visible
  | "rflags_read_raw", [old] =>
    let c := cpuWith .rflags old
    some (c16 c (RFlags.readRaw c) n64 { reg := .rflags, res := some [toString old], post := some old } impl (fun _ => false))
  | "rflags_read", [old] =>
    let c := cpuWith .rflags old
    some (c16 c (RFlags.read c) n64 { reg := .rflags, res := some (n64 (typedRead RFLAGS_ALL (bv64T old))), post := some old } impl (fun _ => false))
  | "rflags_write", [old, fl] =>
    let c := cpuWith .rflags old
    let ran := RFlags.write (bv64T fl) c
    let written := typedWrite RFLAGS_ALL (bv64T old) (bv64T fl)
    some (rflagsVerdict c ran written impl)
  | "rflags_write_raw", [old, v] =>
    let c := cpuWith .rflags old
    some (rflagsVerdict c (RFlags.writeRaw (bv64T v) c) (bv64T v) impl)
  | "rflags_update", [old, x] =>
    let c := cpuWith .rflags old
    let f : BitVec 64 → BitVec 64 := fun fl => fl ^^^ bv64T x
    some (rflagsVerdict c (RFlags.update f c) (typedUpdate RFLAGS_ALL (bv64T old) f) impl)
  | _, _ => none
where
  /-- For RFLAGS writes the harness reports the operand handed to `popfq` (recorder hook) as
  both the visible instruction and `post`; the architectural effect of POPFQ is not observable. -/
  rflagsVerdict (c : Cpu) (ran : Ran Unit) (written : BitVec 64) (impl : List String) : Verdict :=
    let ops := ran.trace.filterMap fun i => match i with | .popfq v => some v.toNat | _ => none
    let model := ops.flatMap (fun v => ["popfq", toString v]) ++
      [";", "unit", ";", "post", toString (ops.getLast?.getD 0), "same", fmtFlag (ops.length == 1)]
    let w := toString written.toNat
    withOracle model (impl == ["popfq", w, ";", "unit", ";", "post", w, "same", "1"])

def handleC16 : Handler := fun cfg op a impl =>
  let al := a.toList
  (flagFamily "cr0" (.cr 0) CR0_ALL Cr0.readRaw Cr0.read Cr0.write Cr0.writeRaw Cr0.update op al impl)
  <|> (flagFamily "cr4" (.cr 4) CR4_ALL Cr4.readRaw Cr4.read Cr4.write Cr4.writeRaw Cr4.update op al impl)
  <|> (flagFamily "efer" (.msr ARCH_EFER) EFER_ALL Efer.readRaw Efer.read Efer.write Efer.writeRaw Efer.update op al impl)
  <|> (flagFamily "dr7" (.dr 7) DR7_VALID Dr7.readRaw Dr7.read Dr7.write Dr7.writeRaw Dr7.update op al impl)
  <|> (addrFamily "fsbase" ARCH_FS_BASE FsBase.read FsBase.write op al impl)
  <|> (addrFamily "gsbase" ARCH_GS_BASE GsBase.read GsBase.write op al impl)
  <|> (addrFamily "kgsbase" ARCH_KERNEL_GS_BASE KernelGsBase.read KernelGsBase.write op al impl)
  <|> (addrFamily "lstar" ARCH_LSTAR LStar.read LStar.write op al impl)
  <|> (cetFamily "ucet" ARCH_U_CET MSR_U_CET op al impl)
  <|> (cetFamily "scet" ARCH_S_CET MSR_S_CET op al impl)
  <|> handleC16Misc cfg op a impl

end X86.Driver
