/-
Driver handler for C17. Line formats (harness/src/c17.rs):
  wi_prog <rflags0> <program code>* => <cli|sti|hlt>* res <v|panic> if <0|1> same <0|1> marks <m>*
  enable_and_hlt <rflags0>          => sti hlt adj <0|1> if <0|1>
Program code (preorder): 0 v = ret v, 1 = wi, 2 = seq, 3 = enable, 4 = disable, 5 = query, 6 = boom.
Model output: `Interrupts.run` on a register file with the given RFLAGS. Oracle: `Prog.spec`
(only for programs meeting the property's premise `bodiesPreserve`; none otherwise).
-/
import X86Model.Driver.Trap
import X86Model.Model.Interrupts

namespace X86.Driver
open X86 X86.Spec X86.Interrupts

/-- Decode a preorder program; fuel = number of tokens. -/
def decodeProg : Nat → List Nat → Option (Prog × List Nat)
  | 0, _ => none
  | fuel + 1, toks =>
    match toks with
    | 0 :: v :: rest => some (.ret v, rest)
    | 1 :: rest =>
      match decodeProg fuel rest with
      | some (b, rest') => some (.wi b, rest')
      | none => none
    | 2 :: rest =>
      match decodeProg fuel rest with
      | some (a, rest') =>
        match decodeProg fuel rest' with
        | some (b, rest'') => some (.seq a b, rest'')
        | none => none
      | none => none
    | 3 :: rest => some (.enable, rest)
    | 4 :: rest => some (.disable, rest)
    | 5 :: rest => some (.query, rest)
    | 6 :: rest => some (.boom, rest)
    | _ => none

def fmtIEv : IEv → String
  | .cli => "cli"
  | .sti => "sti"
  | .hlt => "hlt"

/-- Registers other than RFLAGS.IF that the harness can compare (finite part of the file). -/
def sameExceptIF (a b : Cpu) : Bool :=
  a.cr0 == b.cr0 && a.cr2 == b.cr2 && a.cr3 == b.cr3 && a.cr4 == b.cr4 && a.cr8 == b.cr8 &&
  a.xcr0 == b.xcr0 && a.tr == b.tr && a.mxcsr == b.mxcsr &&
  (a.rflags &&& ~~~IF_MASK) == (b.rflags &&& ~~~IF_MASK) &&
  (List.range 8).all (fun k => a.dr k == b.dr k) &&
  [Sreg.es, .cs, .ss, .ds, .fs, .gs].all (fun s => a.sreg s == b.sreg s)

def handleC17 : Handler := fun _cfg op a impl =>
  match op, a.toList with
  | "wi_prog", rf :: code =>
    match decodeProg (code.length + 1) code with
    | some (p, []) =>
      let c : Cpu := { Cpu.zero with rflags := bv64T rf }
      let ran := Interrupts.run p c
      let res := match ran.res with
        | .ok v => ["res", toString v]
        | .panic => ["res", "panic"]
      let model := fmtTrapped c ran.trace ++ res ++ ["if", fmtFlag ran.cpu.ifFlag,
        "same", fmtFlag (sameExceptIF c ran.cpu), "marks"] ++ ran.marks.map toString
      let ok :=
        if p.bodiesPreserve then
          match p.spec c.ifFlag with
          | some o =>
            impl == o.evs.map fmtIEv ++ ["res", toString o.res, "if", fmtFlag o.flag, "same", "1", "marks"]
              ++ o.marks.map toString
          | none => true
        else true
      some (withOracle model ok)
    | _ => none
  | "enable_and_hlt", [rf] =>
    let c : Cpu := { Cpu.zero with rflags := bv64T rf }
    let ran := enableAndHlt c
    -- one `asm!` block: the two instructions are adjacent in the model's trace
    let model := fmtTrapped c ran.trace ++ ["adj", "1", "if", fmtFlag ran.cpu.ifFlag]
    some (withOracle model (impl == ["sti", "hlt", "adj", "1", "if", "1"]))
  | _, _ => none

end X86.Driver
