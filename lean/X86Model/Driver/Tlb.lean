/-
Driver handler for C11 (flush half). Line formats (harness/src/c11.rs):
  tlb_flush <addr>                     => invlpg <addr> ; unit
  mapper_flush <size> <page>           => invlpg <addr> ; unit
  tlb_flush_all|mapper_flush_all <cr3> => rdcr 3 <v> wrcr 3 <w> ; unit ; post <cr3 after>
  flush_pcid <kind> <addr> <pcid>      => invpcid <reg> <desc lo> <desc hi> ; unit
  invlpgb_range <size> <start> <stop> <count_max> <has_pcid> <pcid> <has_asid> <asid> <global> <final> <nested>
                                       => (invlpgb <rax> <ecx> <edx>)* ; unit
  invlpgb_all <has_pcid> <pcid> <has_asid> <asid> <global> <final> <nested> => invlpgb <rax> <ecx> <edx> ; unit
  tlbsync                              => tlbsync ; unit
  invlpgb_nested_unsupported           => ; panic
-/
import X86Model.Driver.Trap
import X86Model.Driver.Regs
import X86Model.Model.Tlb
import X86Model.Spec.Tlb

namespace X86.Driver
open X86 X86.Spec X86.Tlb

def fmtRan (c : Cpu) (ran : Ran Unit) : List String :=
  fmtTrapped c ran.trace ++ [";", match ran.res with | .ok _ => "unit" | .panic => "panic"]

/-- Parse `(invlpgb rax ecx edx)* ; unit`. -/
def parseInvlpgb (impl : List String) : Option (List (Nat × Nat × Nat)) :=
  let (evToks, rest) := splitAt ";" impl
  if rest != ["unit"] then none else
  (parseObsT evToks).mapM fun o =>
    match o.mnem, o.args with
    | "invlpgb", [a, b, c] => some (a, b, c)
    | _, _ => none

def mkOpts (hp p ha a g f n : Nat) : InvlpgbOpts :=
  { pcid := if hp = 1 then some p else none, asid := if ha = 1 then some a else none,
    global := g = 1, finalOnly := f = 1, nested := n = 1 }

def mkBuilder (inv : Invlpgb) (o : InvlpgbOpts) : R FlushBuilder :=
  let b := inv.build
  let b := match o.pcid with | some p => b.setPcid p | none => b
  let b := match o.asid with
    | some a => (b.setAsid a).getD b
    | none => b
  let b := if o.global then b.setIncludeGlobal else b
  let b := if o.finalOnly then b.setFinalTranslationOnly else b
  if o.nested then b.setIncludeNestedTranslations else .ok b

def handleC11 : Handler := fun _cfg op a impl =>
  match op, a.toList with
  | "tlb_flush", [addr] =>
    let c := Cpu.zero
    some (withOracle (fmtRan c (Tlb.flush (bv64T addr) c)) (impl == ["invlpg", toString addr, ";", "unit"]))
  | "mapper_flush", [_sz, page] =>
    let c := Cpu.zero
    some (withOracle (fmtRan c (Tlb.mapperFlush (bv64T page) c)) (impl == ["invlpg", toString page, ";", "unit"]))
  | "tlb_flush_all", [cr3] => some (flushAllVerdict (Tlb.flushAll) cr3 impl)
  | "mapper_flush_all", [cr3] => some (flushAllVerdict (Tlb.mapperFlushAll) cr3 impl)
  | "flush_pcid", [kind, addr, pcid] =>
    let c := Cpu.zero
    let cmd : InvPcidCommand :=
      if kind = 0 then .address (bv64T addr) (bv16 pcid) else if kind = 1 then .single (bv16 pcid)
      else if kind = 2 then .all else .allExceptGlobal
    let ok := match impl with
      | ["invpcid", r, lo, hi, ";", "unit"] =>
        (match r.toNat?, lo.toNat?, hi.toNat? with
         | some r, some lo, some hi => invpcidOk kind addr pcid r lo hi
         | _, _, _ => false)
      | _ => false
    some (withOracle (fmtRan c (Tlb.flushPcid cmd c)) ok)
  | "tlbsync", [] =>
    let c := Cpu.zero
    some (withOracle (fmtRan c (Tlb.tlbsync c)) (impl == ["tlbsync", ";", "unit"]))
  | "invlpgb_nested_unsupported", [] =>
    let inv : Invlpgb := { countMax := 1, tlbFlushNested := false, nasid := 16 }
    let model := match inv.build.setIncludeNestedTranslations with
      | .ok b => fmtRan Cpu.zero (b.flush Cpu.zero)
      | .panic => [";", "panic"]
    some (withOracle model (impl == [";", "panic"]))
  | "invlpgb_range", [sz, start, stop, cm, hp, p, ha, av, g, f, n] =>
    let o := mkOpts hp p ha av g f n
    let inv : Invlpgb := { countMax := cm, tlbFlushNested := true, nasid := 65536 }
    let c := Cpu.zero
    let model := match mkBuilder inv o with
      | .ok b => fmtRan c ((b.pages sz (start, stop)).flush c)
      | .panic => [";", "panic"]
    let ok := match parseInvlpgb impl with
      | some reqs => invlpgbRangeOk sz start stop cm o reqs
      | none => false
    some (withOracle model ok)
  | "invlpgb_all", [hp, p, ha, av, g, f, n] =>
    let o := mkOpts hp p ha av g f n
    let inv : Invlpgb := { countMax := 0, tlbFlushNested := true, nasid := 65536 }
    let c := Cpu.zero
    let model := match mkBuilder inv o with
      | .ok b => fmtRan c (b.flush c)
      | .panic => [";", "panic"]
    let ok := match parseInvlpgb impl with
      | some reqs => invlpgbAllOk o reqs
      | none => false
    some (withOracle model ok)
  | _, _ => none
where
  flushAllVerdict (m : M Unit) (cr3 : Nat) (impl : List String) : Verdict :=
    let c : Cpu := { Cpu.zero with cr3 := bv64T cr3 }
    let ran := m c
    let model := fmtRan c ran ++ [";", "post", toString ran.cpu.cr3.toNat]
    -- the non-PCID interface: frame + PWT/PCD, everything else zero; there the reload must
    -- write back the current value. Always: one read and one write of CR3, nothing else.
    let plain := bv64T cr3 &&& ~~~(0x000ffffffffff000#64 ||| 0x18#64) == 0#64
    let ok := match impl with
      | ["rdcr", "3", v, "wrcr", "3", w, ";", "unit", ";", "post", pst] =>
        v == toString cr3 && (!plain || (w == v && pst == v))
      | _ => false
    withOracle model ok

end X86.Driver
