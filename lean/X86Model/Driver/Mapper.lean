/-
Driver for mapper operation histories (C01, C02, C09, C10, C11 token half).

  mh_begin <oracleMask> <kind> <rIdx> <p4> <seed> <n> (f i v)*  => -
      resets the driver state. Initial physical memory: the P4 frame is all zero, every other word
      is `garbage seed f i`; the `n` listed words override that (recursive slot etc.).
  mh_mmu <n> (vpage frame isTable info)*  => -
      software-MMU log of the preceding `mh_op` (recursive mapper only): which physical frame each
      recursive access really reached. Oracle: every reached frame is a page table of the hierarchy
      (C09), the address is the recursive address of a table of the page operated on (C20), and
      `Spec.walk` of the same memory reaches the same frame (cross-check of the software MMU).
  mh_op <opcode> <szcode> <page> <frame> <flags> <pflags> <nalloc> a* <nprobe> va*  =>  <observation>
      observation tokens (all numeric after the markers):
        R <ok|err|panic> …      result (see `fmtRes…`)
        A <k>                   allocator requests made
        D <n> f*                deallocated frames, in order
        W <n> (f i v)*          words of the simulated memory that changed, sorted by (f, i)
  mh_crash <opcode> <szcode> <page> <frame> <flags> <pflags>  =>  crash
      printed by the harness' fault handler instead of the observation when the call died with SIGSEGV
        P <n> (per probe: 5 translate numbers, 2 translate_addr numbers, 3×2 translate_page numbers)

The model replays the same operation on its own memory and must produce the same observation.
The oracle evaluates the *specs* (`Spec.walk`, `Spec.docOutcome`, frame conditions) on the
implementation's memory, reconstructed from the reported changes.
-/
import X86Model.Driver.Proto
import X86Model.Model.Mapper
import X86Model.Model.CleanUp
import X86Model.Spec.Walk
import X86Model.Spec.Canon
import X86Model.Spec.Recursive

namespace X86.Driver
open X86 X86.Spec

abbrev MemMap := Std.HashMap (Word × Nat) Word

/-- Deterministic non-zero filler for untouched physical memory (same function in the harness). -/
def garbage (seed : Nat) (f : Word) (i : Nat) : Word :=
  let x : UInt64 := (UInt64.ofNat seed) ^^^ (UInt64.ofNat (f.toNat + 8 * i)) * 0x9e3779b97f4a7c15
  let z := x + 0x9e3779b97f4a7c15
  let z := (z ^^^ (z >>> 30)) * 0xbf58476d1ce4e5b9
  let z := (z ^^^ (z >>> 27)) * 0x94d049bb133111eb
  let z := z ^^^ (z >>> 31)
  BitVec.ofNat 64 (if z == 0 then 1 else z).toNat

/-- One expected mapping, according to the history of successful calls. -/
structure AbsMap where
  start : Nat
  size : Nat
  frame : Nat
  flags : Word
  /-- lower bounds for the parent part of the effective rights: the parent flags requested when the page was
  mapped (later maps through shared parents only add flags), lowered by explicit `set_flags_pN_entry` calls
  on a parent entry of the page -/
  prw : Bool := false
  pus : Bool := false
  deriving Repr

structure MState where
  mask : Nat := 0
  kind : Kind := ⟨false⟩
  rIdx : Nat := 0
  p4 : Word := 0
  seed : Nat := 0
  mm : MemMap := {}          -- model memory (overrides of the initial contents)
  im : MemMap := {}          -- implementation memory, reconstructed from reported changes
  abs : List AbsMap := []
  /-- index prefixes (1 to 3 indices from level 4 down) of parent entries from which a successful
  `set_flags_pN_entry` call took `PRESENT` away: everything below is unreachable until a later call gives it back -/
  disabled : List (List Nat) := []
  -- the last `mh_op` (for `mh_mmu`): implementation memory before it, its page / opcode / probes
  imPrev : MemMap := {}
  lastOpcode : Nat := 0
  lastPage : Nat := 0
  lastFrame : Nat := 0
  lastProbes : List Nat := []
  lastPreTables : List Word := []

def MState.dflt (st : MState) (f : Word) (i : Nat) : Word :=
  if f == st.p4 then 0#64 else garbage st.seed f i

def MState.modelMem (st : MState) : PMem := fun f i => (st.mm.get? (f, i)).getD (st.dflt f i)
def MState.implMem (st : MState) : PMem := fun f i => (st.im.get? (f, i)).getD (st.dflt f i)

def w (n : Nat) : Word := BitVec.ofNat 64 n

def sizeOf (szcode : Nat) : Nat := if szcode == 0 then 4096 else if szcode == 1 then 2^21 else 2^30

/-- parent indices / leaf index of a page of the given size -/
def pathOf (szcode page : Nat) : List Nat × Nat :=
  let i4 := page / 2^39 % 512
  let i3 := page / 2^30 % 512
  let i2 := page / 2^21 % 512
  let i1 := page / 2^12 % 512
  if szcode == 0 then ([i4, i3, i2], i1) else if szcode == 1 then ([i4, i3], i2) else ([i4], i3)

/-- Net changes of a log relative to a pre-state memory, sorted by (f, i). -/
def netChanges (pre : PMem) (log : List Ev) : List (Word × Nat × Word) :=
  let final : MemMap := log.foldl (fun m ev => match ev with | .wr f i v => m.insert (f, i) v | _ => m) {}
  let l := final.toList.filterMap (fun ((f, i), v) => if pre f i == v then none else some (f, i, v))
  (l.toArray.qsort (fun a b => a.1.toNat < b.1.toNat || (a.1 == b.1 && a.2.1 < b.2.1))).toList

def applyWrites (m : MemMap) (log : List Ev) : MemMap :=
  log.foldl (fun m ev => match ev with | .wr f i v => m.insert (f, i) v | _ => m) m

def fmtChanges (l : List (Word × Nat × Word)) : List String :=
  ["W", toString l.length] ++ l.flatMap (fun (f, i, v) => [toString f.toNat, toString i, toString v.toNat])

def countAllocs (log : List Ev) : Nat := (log.filter (fun ev => match ev with | .alloc _ => true | _ => false)).length
def deallocsOf (log : List Ev) : List Word := log.filterMap (fun ev => match ev with | .dealloc f => some f | _ => none)

def mapErrCode : MapErr → Nat
  | .allocFailed => 1 | .parentHuge => 2 | .alreadyMapped => 3
def opErrToks : OpErr → List String
  | .notMapped => ["err", "4"] | .parentHuge => ["err", "2"] | .invalidFrame a => ["err", "5", toString a.toNat]

/-- translate / translate_addr / translate_page(3 sizes) of one probe, as 13 numbers -/
def probeToks (k : Kind) (s : St) (p4 : Word) (va : Nat) : List String :=
  let t := match (translate k s p4 va).1 with
    | .panic => [9, 0, 0, 0, 0]
    | .ok .notMapped => [0, 0, 0, 0, 0]
    | .ok (.invalid a) => [2, a.toNat, 0, 0, 0]
    | .ok (.mapped f sz off fl) => [1, f.toNat, sz, off, fl.toNat]
  let ta := match (translateAddr k s p4 va).1 with
    | .panic => [9, 0] | .ok none => [0, 0] | .ok (some pa) => [1, pa]
  let tp := [0, 1, 2].flatMap fun szc =>
    let page := va - va % sizeOf szc
    let (par, li) := pathOf szc page
    match (translatePage k s p4 par li (szc != 0) (sizeOf szc)).1 with
    | .ok f => [0, f.toNat]
    | .error .notMapped => [4, 0]
    | .error .parentHuge => [2, 0]
    | .error (.invalidFrame a) => [5, a.toNat]
  (t ++ ta ++ tp).map toString

/-! ### Oracles on the implementation's memory -/

/-- The mapping the history dictates for `va`. A page whose leaf flags do not contain `PRESENT` (a reserved /
swapped-out page) occupies its slot but maps nothing: translation and the hardware see "not mapped". -/
def absLookup (abs : List AbsMap) (va : Nat) : Option AbsMap :=
  (abs.find? (fun a => a.start ≤ va && va < a.start + a.size)).filter (fun a => a.flags &&& 1#64 != 0#64)

/-- **The oracle's abstract state after a successful call** (`opcode`: 0..2 the `map_to` variants, 3 `unmap`,
4 `update_flags`, 5..7 `set_flags_p4/p3/p2_entry`; `pageEff` the page a map acts on, `page` the page of the other
calls, `flagsEff` the leaf flags with `HUGE_PAGE` for huge pages, `pflagsEff` the effective parent flags of a map,
`flagsW` the flags argument of a parent-flag call, `path` the page's index path `parents ++ [leafIdx]`).
`Properties/OracleSpec.lean` proves that this update and `absLookup` agree with the specification the history
theorems are about (`C01HistoryDormant.absOk`, `expectedHw`). -/
def absAfterOk (abs : List AbsMap) (opcode pageEff page sz frame : Nat) (flagsEff pflagsEff flagsW : Word)
    (path : List Nat) : List AbsMap :=
  if opcode ≤ 2 then
    { start := pageEff, size := sz, frame := frame, flags := flagsEff,
      prw := bitRW pflagsEff, pus := bitUS pflagsEff } :: abs
  else if opcode == 3 then abs.filter (fun x => !(x.start == page && x.size == sz))
  else if opcode == 4 then
    abs.map (fun x => if x.start == page && x.size == sz then { x with flags := flagsEff } else x)
  else if opcode == 5 || opcode == 6 || opcode == 7 then
    -- the flags of a parent entry are *replaced*: the guaranteed rights of every page below it shrink
    let pre := path.take (opcode - 4)
    abs.map (fun x =>
      if pre == [vaIdx4 x.start, vaIdx3 x.start, vaIdx2 x.start].take pre.length then
        { x with prw := x.prw && bitRW flagsW, pus := x.pus && bitUS flagsW }
      else x)
  else abs

/-- Is `va` below a parent entry that was switched off (see `MState.disabled`)? -/
def underDisabled (disabled : List (List Nat)) (va : Nat) : Bool :=
  let idx := [vaIdx4 va, vaIdx3 va, vaIdx2 va]
  disabled.any (fun p => p == idx.take p.length)

/-- flag domain on which leaf flags are compared: bits 0..11, 52..63 (+ bit 12 for huge leaves) -/
def flagDom (size : Nat) : Word := if size == 4096 then 0xfff0000000000fff#64 else 0xfff0000000001fff#64

/-- C01: the hardware walk of the implementation's memory equals what the history dictates. -/
def walkMatchesAbs (m : PMem) (p4 : Word) (abs : List AbsMap) (disabled : List (List Nat)) (va : Nat) : Bool :=
  match walk m p4 va, (if underDisabled disabled va then none else absLookup abs va) with
  | none, none => true
  | some x, some a =>
    x.base == a.frame && x.size == a.size && x.off == va - a.start &&
      x.flags == (a.flags &&& flagDom a.size)
  | _, _ => false

/-- The software reading of the tables used by `translate*`: as the hardware walk, except that a *leaf* entry
need not be present - a non-zero level-1 entry, or a level-2/3 entry with the huge-page bit, is reported as
a mapping whose flags lack `PRESENT` (a reserved / swapped-out page; the caller sees it in the flags).
Parent entries must be present, as for the hardware. -/
def walkSoft (m : PMem) (cr3 : Word) (va : Nat) : Option Xlat :=
  let e4 := m cr3 (vaIdx4 va)
  if !bitP e4 || bitPS e4 then none else
  let e3 := m (tableAddr e4) (vaIdx3 va)
  if bitPS e3 then
    some { base := (addr1G e3).toNat, size := 2^30, off := va % 2^30, flags := leafFlagsHuge e3,
           rw := bitRW e4 && bitRW e3, us := bitUS e4 && bitUS e3 }
  else if !bitP e3 then none else
  let e2 := m (tableAddr e3) (vaIdx2 va)
  if bitPS e2 then
    some { base := (addr2M e2).toNat, size := 2^21, off := va % 2^21, flags := leafFlagsHuge e2,
           rw := bitRW e4 && bitRW e3 && bitRW e2, us := bitUS e4 && bitUS e3 && bitUS e2 }
  else if !bitP e2 then none else
  let e1 := m (tableAddr e2) (vaIdx1 va)
  if e1 == 0#64 then none else
    some { base := (tableAddr e1).toNat, size := 4096, off := va % 4096, flags := leafFlags4K e1,
           rw := bitRW e4 && bitRW e3 && bitRW e2 && bitRW e1,
           us := bitUS e4 && bitUS e3 && bitUS e2 && bitUS e1 }

/-- C01: what `translate*` must report equals what the history dictates - including the pages mapped without
`PRESENT`, which the API reports with their flags while the hardware (`walkMatchesAbs`) does not see them. -/
def softMatchesAbs (m : PMem) (p4 : Word) (abs : List AbsMap) (disabled : List (List Nat)) (va : Nat) : Bool :=
  match walkSoft m p4 va, (if underDisabled disabled va then none
                           else abs.find? (fun a => a.start ≤ va && va < a.start + a.size)) with
  | none, none => true
  | some x, some a =>
    x.base == a.frame && x.size == a.size && x.off == va - a.start &&
      x.flags == (a.flags &&& flagDom a.size)
  | _, _ => false

/-- C01: the observed `translate`/`translate_addr`/`translate_page` numbers agree with the (software) walk. -/
def probeMatchesWalk (m : PMem) (p4 : Word) (va : Nat) (obs : List Nat) : Bool :=
  match obs with
  | [tk, tf, tsz, toff, tfl, ak, apa, k4, f4, k2, f2, k1, f1] =>
    match walkSoft m p4 va with
    | none => tk == 0 && ak == 0 && k4 != 0 && k2 != 0 && k1 != 0
    | some x =>
      tk == 1 && tf == x.base && tsz == x.size && toff == x.off &&
      (w tfl &&& flagDom x.size) == x.flags && ak == 1 && apa == x.pa &&
      -- translate_page succeeds exactly for the size of the leaf the walk ends in
      (if x.size == 4096 then k4 == 0 && f4 == x.base else k4 != 0) &&
      (if x.size == 2^21 then k2 == 0 && f2 == x.base else k2 != 0) &&
      (if x.size == 2^30 then k1 == 0 && f1 == x.base else k1 != 0)
  | _ => false

/-- Same mapping (frame, size, offset, leaf flags); effective rights may differ. -/
def sameMapping (a b : Option Xlat) : Bool :=
  match a, b with
  | none, none => true
  | some x, some y => x.base == y.base && x.size == y.size && x.off == y.off && x.flags == y.flags
  | _, _ => false

/-- Frames that are page tables of the hierarchy rooted at `p4` (levels 4..1). Each level is capped
(a pool never has more than a few hundred frames): in a corrupted hierarchy — a table pointer into
a frame that was never zeroed, where every garbage word looks like a present entry — the
enumeration would otherwise grow to 512^3 frames and the driver would not terminate in useful time. -/
def tableFrames (m : PMem) (p4 : Word) : List Word :=
  let cap := 512
  let children (lvl : Nat) (ts : List Word) : List Word :=
    ts.foldl (fun acc t =>
      if acc.length ≥ cap then acc
      else acc ++ ((List.range 512).filterMap fun i =>
        match slotOf lvl (m t i) with | .table t' => some t' | _ => none)) []
  let l3 := (children 4 [p4]).take cap
  let l2 := (children 3 l3).take cap
  let l1 := (children 2 l2).take cap
  p4 :: (l3 ++ l2 ++ l1)

/-- A parent entry that was switched off (`set_flags_pN_entry` without `PRESENT`): non-zero, not present, not a
huge leaf. It still links its table - the table is a page table of the hierarchy although the hardware walk does
not reach it at the moment. -/
def softLink (e : Word) : Option Word :=
  if e != 0#64 && !bitP e && !bitPS e then some (tableAddr e) else none

/-- `tableFrames`, also following switched-off links (C09: "frames that are page tables of that hierarchy"). -/
def tableFramesSoft (m : PMem) (p4 : Word) : List Word :=
  let cap := 512
  let children (lvl : Nat) (ts : List Word) : List Word :=
    ts.foldl (fun acc t =>
      if acc.length ≥ cap then acc
      else acc ++ ((List.range 512).filterMap fun i =>
        match slotOf lvl (m t i) with | .table t' => some t' | _ => softLink (m t i))) []
  let l3 := (children 4 [p4]).take cap
  let l2 := (children 3 l3).take cap
  let l1 := (children 2 l2).take cap
  p4 :: (l3 ++ l2 ++ l1)

/-- The page tables of the hierarchy with their index paths (root = `[]`), breadth first, capped like
`tableFrames`. -/
def tablesWithPaths (m : PMem) (p4 : Word) : List (List Nat × Word) :=
  let cap := 512
  let children (lvl : Nat) (ts : List (List Nat × Word)) : List (List Nat × Word) :=
    ts.foldl (fun acc (q, t) =>
      if acc.length ≥ cap then acc
      else acc ++ ((List.range 512).filterMap fun i =>
        match slotOf lvl (m t i) with | .table t' => some (q ++ [i], t') | _ => none)) []
  let l3 := (children 4 [([], p4)]).take cap
  let l2 := (children 3 l3).take cap
  let l1 := (children 2 l2).take cap
  ([], p4) :: (l3 ++ l2 ++ l1)

/-- page number of a canonical address in rank space; table number and page span of an index path -/
def pnD (va : Nat) : Nat := va % 2^48 / 4096
def tnumD (q : List Nat) : Nat := q.foldl (fun a i => a * 512 + i) 0
def spanD (q : List Nat) : Nat × Nat :=
  let w := 512 ^ (4 - q.length)
  (tnumD q * w, tnumD q * w + w - 1)

def outcomeOfMapCode (c : Nat) : DocOutcome :=
  if c == 1 then .allocFailed else if c == 2 then .parentHuge else if c == 3 then .alreadyMapped else .someError
def outcomeOfOpCode (c : Nat) : DocOutcome :=
  if c == 4 then .notMapped else if c == 2 then .parentHuge else .someError

/-- does the observed outcome satisfy the documented one? -/
def outcomeOk (doc obs : DocOutcome) (obsIsErr : Bool) : Bool :=
  match doc with
  | .undefined => true
  | .someError => obsIsErr
  | d => d == obs

structure Obs where
  res : List String
  allocs : Nat
  deallocs : List Nat
  changes : List (Nat × Nat × Nat)
  probes : List (List Nat)

def takeTriples : Nat → List Nat → Option (List (Nat × Nat × Nat) × List Nat)
  | 0, l => some ([], l)
  | n + 1, f :: i :: v :: rest => (takeTriples n rest).map fun (ts, r) => ((f, i, v) :: ts, r)
  | _, _ => none

def takeQuads : Nat → List Nat → Option (List (Nat × Nat × Nat × Nat))
  | 0, _ => some []
  | n + 1, a :: b :: c :: d :: rest => (takeQuads n rest).map fun qs => (a, b, c, d) :: qs
  | _, _ => none

def chunk13 (l : List Nat) : List (List Nat) :=
  (List.range ((l.length + 12) / 13)).map (fun k => (l.drop (13 * k)).take 13)

/-- Parse the observation tokens. -/
def parseObs (toks : List String) : Option Obs := do
  let (resT, rest) := (toks.span (· != "A"))
  guard (resT.head? == some "R")
  let nums := rest.filterMap (·.toNat?)
  -- layout of `rest`: A k D n f* W n (f i v)* P n …
  match rest with
  | "A" :: k :: "D" :: _ =>
    let k ← k.toNat?
    let afterD := (rest.drop 3)
    let nD ← afterD.head? >>= (·.toNat?)
    let dl := ((afterD.drop 1).take nD).filterMap (·.toNat?)
    let afterDl := afterD.drop (1 + nD)
    guard (afterDl.head? == some "W")
    let nW ← (afterDl.drop 1).head? >>= (·.toNat?)
    let wNums := ((afterDl.drop 2).take (3 * nW)).filterMap (·.toNat?)
    let (trs, _) ← takeTriples nW wNums
    let afterW := afterDl.drop (2 + 3 * nW)
    guard (afterW.head? == some "P")
    let pn := ((afterW.drop 2)).filterMap (·.toNat?)
    let _ := nums
    pure { res := resT.drop 1, allocs := k, deallocs := dl, changes := trs, probes := chunk13 pn }
  | _ => none

/-- Is word (f,i) on the path of `page` as a *parent* entry, in memory `m`? Returns the level. -/
def parentSlots (m : PMem) (p4 : Word) (parents : List Nat) : List (Word × Nat) :=
  let rec go (tbl : Word) (lvl : Nat) : List Nat → List (Word × Nat)
    | [] => []
    | i :: rest =>
      (tbl, i) :: (match slotOf lvl (m tbl i) with
        | .table t => go t (lvl - 1) rest
        | _ => [])
  go p4 4 parents

/-- `parentSlots`, continuing through switched-off parent entries (`softLink`). -/
def parentSlotsSoft (m : PMem) (p4 : Word) (parents : List Nat) : List (Word × Nat) :=
  let rec go (tbl : Word) (lvl : Nat) : List Nat → List (Word × Nat)
    | [] => []
    | i :: rest =>
      (tbl, i) :: (match slotOf lvl (m tbl i) with
        | .table t => go t (lvl - 1) rest
        | _ => match softLink (m tbl i) with
          | some t => go t (lvl - 1) rest
          | none => [])
  go p4 4 parents

def handleMapper : SHandler MState := fun _cfg op a impl st =>
  match op with
  | "mh_begin" =>
    match a.toList with
    | mask :: kind :: rIdx :: p4 :: seed :: n :: rest =>
      match takeTriples n rest with
      | some (trs, _) =>
        let init : MemMap := trs.foldl (fun m (f, i, v) => m.insert (w f, i) (w v)) {}
        let st' : MState := { mask := mask, kind := ⟨kind == 2⟩, rIdx := rIdx, p4 := w p4, seed := seed,
                              mm := init, im := init, abs := [] }
        some ({ model := impl, oracleOk := true }, st')
      | none => none
    | _ => none
  | "mh_op" =>
    match a.toList with
    | opcode :: szc :: page :: frame :: flags :: pflags :: nalloc :: rest =>
      let allocNums := rest.take nalloc
      let rest := rest.drop nalloc
      let nprobe := rest.headD 0
      let probes := (rest.drop 1).take nprobe
      let allocs : List (Option Word) := allocNums.map (fun x => if x == 0 then none else some (w x))
      let pre := st.modelMem
      let s0 : St := { mem := pre, allocs := allocs, log := [] }
      let sz := sizeOf szc
      let huge := szc != 0
      let k := st.kind
      let p4 := st.p4
      -- derived arguments
      let pflagsEff := if opcode == 0 then w pflags else (w flags &&& 7#64)
      let pageEff := if opcode == 2 then frame else page
      let (parents, leafIdx) := pathOf szc pageEff
      -- run the model
      let (resToks, s1) : List String × St :=
        if opcode ≤ 2 then
          match mapTo k s0 p4 parents leafIdx huge (w frame) (w flags) pflagsEff with
          | (.panic, s) => (["panic"], s)
          | (.ok (.ok ()), s) => (["ok", toString pageEff], s)
          | (.ok (.error e), s) =>
            (["err", toString (mapErrCode e)] ++ (if e == .alreadyMapped then [toString frame] else []), s)
        else if opcode == 3 then
          match unmap s0 p4 parents leafIdx huge sz with
          | (.ok f, s) => (["ok", toString page, toString f.toNat], s)
          | (.error e, s) => (opErrToks e, s)
        else if opcode == 4 then
          match updateFlags k s0 p4 parents leafIdx huge (w flags) with
          | (.ok (), s) => (["ok", toString page], s)
          | (.error e, s) => (opErrToks e, s)
        else if opcode == 5 || opcode == 6 || opcode == 7 then
          -- set_flags_pN_entry: N = 4, 3, 2; not available below the page's own level
          let lvl := 9 - opcode          -- 4, 3, 2
          let depth := 4 - lvl           -- number of tables above the entry
          if depth ≥ parents.length then (["err", "2"], s0)
          else
            let par := parents.take depth
            let idx := (parents ++ [leafIdx]).getD depth 0
            match setParentFlags k s0 p4 par idx (w flags) with
            | (.ok (), s) => (["ok"], s)
            | (.error e, s) => (opErrToks e, s)
        else if opcode == 8 then
          match translatePage k s0 p4 parents leafIdx huge sz with
          | (.ok f, s) => (["ok", toString f.toNat], s)
          | (.error e, s) => (opErrToks e, s)
        else if opcode == 9 then
          match cleanUpAll k st.rIdx s0 p4 with
          | (.ok (), s) => (["ok"], s)
          | (.panic, s) => (["panic"], s)
        else
          match cleanUpRange k st.rIdx s0 p4 page frame with
          | (.ok (), s) => (["ok"], s)
          | (.panic, s) => (["panic"], s)
      let evs := s1.events
      let changes := netChanges pre evs
      let mm' := applyWrites st.mm evs
      let post : St := { mem := fun f i => (mm'.get? (f, i)).getD (st.dflt f i), allocs := [], log := [] }
      let dl := deallocsOf evs
      let model : List String :=
        ["R"] ++ resToks ++ ["A", toString (countAllocs evs)] ++
        ["D", toString dl.length] ++ dl.map (fun f => toString f.toNat) ++
        fmtChanges changes ++
        ["P", toString nprobe] ++ probes.flatMap (fun va => probeToks k post p4 va)
      -- the oracle, on the implementation's observation
      match parseObs impl with
      | none => none
      | some obs =>
        let imPre := st.implMem
        let im' := obs.changes.foldl (fun m (f, i, v) => m.insert (w f, i) (w v)) st.im
        let imPost : PMem := fun f i => (im'.get? (f, i)).getD (st.dflt f i)
        let isOk := obs.res.head? == some "ok"
        let isErr := obs.res.head? == some "err"
        let errCode := ((obs.res.drop 1).head? >>= (·.toNat?)).getD 0
        -- expected mappings after this call
        let flagsEff := if huge then w flags ||| 0x80#64 else w flags
        let abs' : List AbsMap :=
          if !isOk then st.abs
          else absAfterOk st.abs opcode pageEff page sz frame flagsEff pflagsEff (w flags) (parents ++ [leafIdx])
        let allocated : List Word := (allocs.take obs.allocs).filterMap id
        let preTables := tableFrames imPre p4
        -- recursive mapper: a parent entry created by this call (a link to a table allocated by it,
        -- on the page's path) carries PRESENT | WRITABLE whatever parent flags were requested
        -- ("because the design of the recursive page table requires it")
        let postSlots := parentSlots imPost p4 parents
        let recLinks := !k.recursive || obs.changes.all (fun (f, i, v) =>
          !(imPre (w f) i == 0#64 && allocated.contains (tableAddr (w v)) && postSlots.contains (w f, i)) ||
            (w v &&& 3#64) == 3#64)
        -- C01
        -- parent entries switched off / on again by this call
        let disabled' : List (List Nat) :=
          if isOk && (opcode == 5 || opcode == 6 || opcode == 7) then
            let depth := opcode - 4          -- 1, 2, 3 indices
            let pre := (parents ++ [leafIdx]).take depth
            if w flags &&& 1#64 == 0#64 then (if st.disabled.contains pre then st.disabled else pre :: st.disabled)
            else st.disabled.filter (· != pre)
          else if opcode ≤ 2 && (pflagsEff &&& 1#64) == 1#64 then
            -- a `map_to` whose parent flags contain PRESENT switches every switched-off entry on its path on again
            -- (whatever its result: the walk ORs the parent flags in before it looks at the leaf slot; the entries
            -- above a switched-off entry exist, so no allocation can fail before it is reached)
            st.disabled.filter (fun pre => !(pre.length ≤ parents.length && pre == parents.take pre.length))
          else st.disabled
        let c01a := probes.all (fun va => walkMatchesAbs imPost p4 abs' disabled' va && softMatchesAbs imPost p4 abs' disabled' va)
        let c01b := (probes.zip obs.probes).all (fun (va, o) => probeMatchesWalk imPost p4 va o)
        let c01 :=
          c01a && c01b &&
          -- a successful map/unmap reports the page (and unmap the frame) it acted on
          (if isOk && opcode ≤ 4 then (obs.res.drop 1).head? == some (toString pageEff) else true) &&
          (if isOk && opcode == 3 then
             match st.abs.find? (fun x => x.start == page && x.size == sz) with
             | some x => (obs.res.drop 2).head? == some (toString x.frame)
             | none => false
           else true) &&
          -- … and keep including them for every page mapped earlier: later calls through shared parent entries
          -- may only add flags (seed C01-7: the recursive mapper replaced the flags of an existing parent entry)
          probes.all (fun va =>
            match walk imPost p4 va, (if underDisabled disabled' va then none else absLookup abs' va) with
            | some x, some a => (!(a.prw && bitRW a.flags) || x.rw) && (!(a.pus && bitUS a.flags) || x.us)
            | _, _ => true) &&
          -- effective rights include the requested parent flags
          (if isOk && opcode ≤ 2 then
             match walk imPost p4 pageEff with
             | some x => (!(bitRW pflagsEff && bitRW (w flags)) || x.rw) && (!(bitUS pflagsEff && bitUS (w flags)) || x.us)
             | none => w flags &&& 1#64 == 0#64      -- a page mapped without PRESENT is not visible to the walk
           else true) &&
          recLinks
        -- C02
        let cls := if opcode ≤ 2 then OpClass.map else OpClass.other
        let doc :=
          if opcode ≤ 4 || opcode == 8 then
            docOutcome imPre cls 4 p4 parents leafIdx (allocs.map (·.isSome))
          else DocOutcome.undefined
        let obsOutcome :=
          if isOk then DocOutcome.success
          else if opcode ≤ 2 then outcomeOfMapCode errCode else outcomeOfOpCode errCode
        let pslots := parentSlots imPre p4 parents
        -- … continuing through switched-off parent entries while a window is open
        let pslotsS := if st.disabled.isEmpty then pslots else parentSlotsSoft imPre p4 parents
        let c02 :=
          (if obs.res.head? == some "panic" then false else true) &&
          outcomeOk doc obsOutcome isErr &&
          (if isErr then
             -- no translation changes on the probes …
             -- (an address below a parent entry that was switched off and gains PRESENT again through the requested
             -- parent flags becomes visible again: what it must translate to is decided by C01 above)
             probes.all (fun va => (underDisabled st.disabled va && !underDisabled disabled' va) ||
               sameMapping (walk imPost p4 va) (walk imPre p4 va)) &&
             -- … and every changed word is a new table's word, the link to a new table, or an
             -- existing parent entry that only gained the requested parent flags
             obs.changes.all (fun (f, i, v) =>
               allocated.contains (w f) ||
               (imPre (w f) i == 0#64 && allocated.contains (tableAddr (w v)) && pslotsS.contains (w f, i)) ||
               (pslotsS.contains (w f, i) &&
                  (match slotOf 4 (imPre (w f) i) with
                   | .table _ => true
                   | _ => !st.disabled.isEmpty && (softLink (imPre (w f) i)).isSome) &&
                  tableAddr (w v) == tableAddr (imPre (w f) i) &&
                  (w v) == ((imPre (w f) i) ||| pflagsEff)))
           else true)
        -- C09
        let maxAlloc := parents.length
        let preSoft := if st.disabled.isEmpty then preTables else tableFramesSoft imPre p4
        let c09a := obs.changes.all (fun (f, _, _) => preSoft.contains (w f) || allocated.contains (w f))
        -- a new table is all zero apart from the (at most one) entry put into it by this call
        let c09b := allocated.all (fun f => ((List.range 512).filter (fun i => imPost f i != 0#64)).length ≤ 1)
        let c09c := if opcode ≤ 2 then obs.allocs ≤ maxAlloc else obs.allocs == 0
        let c09d :=
          if opcode ≤ 2 && isOk then
            -- exactly the missing tables are allocated
            -- (a switched-off parent entry still links its table: mapping through it allocates nothing for that level)
            obs.allocs + (pslotsS.filter
              (fun (f, i) => match slotOf 4 (imPre f i) with
                | .table _ => true
                | _ => !st.disabled.isEmpty && (softLink (imPre f i)).isSome)).length == maxAlloc
          else true
        let c09e := if opcode < 9 then obs.deallocs.isEmpty else true
        let c09 := c09a && c09b && c09c && c09d && c09e
        let c09why := (if !c09a then "write-outside-tables " else "") ++ (if !c09b then "new-table-not-zero " else "") ++
          (if !c09c then "too-many-allocations " else "") ++ (if !c09d then "allocations!=missing-tables " else "") ++
          (if !c09e then "dealloc-outside-clean-up " else "")
        -- C10 (clean-up calls only)
        let c10 :=
          if opcode < 9 then true else
            obs.allocs == 0 &&
            probes.all (fun va => sameMapping (walk imPost p4 va) (walk imPre p4 va) &&
              sameMapping (walkSoft imPost p4 va) (walkSoft imPre p4 va)) &&
            -- a deallocated table is entirely empty (every entry zero - also entries without PRESENT count as
            -- "still holds an entry"); nothing writes into a freed table during the call
            obs.deallocs.all (fun f => (List.range 512).all (fun j => imPost (w f) j == 0#64)) &&
            -- each deallocated frame was a level-1..3 table before, exactly once, never the P4 frame
            obs.deallocs.all (fun f => preTables.contains (w f) && w f != p4) &&
            obs.deallocs.eraseDups.length == obs.deallocs.length &&
            -- a deallocated table is no longer linked afterwards
            (let postTables := tableFrames imPost p4
             obs.deallocs.all (fun f => !postTables.contains (w f))) &&
            -- every change is the unlinking (zeroing) of a parent entry
            obs.changes.all (fun (_, _, v) => v == 0) &&
            -- range clauses: freed tables overlap the range, tables that do not overlap it are untouched, no
            -- empty table wholly inside the range is left (recursive mapper: outside the recursive slot),
            -- and repeating the same clean-up frees and changes nothing
            (let rsN := if opcode == 9 then 0 else page
             let reN := if opcode == 9 then 0xfffffffffffff000 else frame
             let nonEmpty := rsN ≤ reN
             let lo := pnD rsN
             let hi := pnD reN
             let overlaps (q : List Nat) : Bool := nonEmpty && (spanD q).1 ≤ hi && lo ≤ (spanD q).2
             let inside (q : List Nat) : Bool := nonEmpty && lo ≤ (spanD q).1 && (spanD q).2 ≤ hi
             let pathsPre := tablesWithPaths imPre p4
             let pathOf (f : Word) : Option (List Nat) := (pathsPre.find? (fun x => x.2 == f)).map (·.1)
             obs.deallocs.all (fun f => match pathOf (w f) with | some q => overlaps q | none => false) &&
             obs.changes.all (fun (f, _, _) => match pathOf (w f) with | some q => q.isEmpty || overlaps q | none => false) &&
             (tablesWithPaths imPost p4).all (fun (q, g) =>
               q.isEmpty || !inside q || (k.recursive && q.head? == some st.rIdx) ||
                 (List.range 512).any (fun j => imPost g j != 0#64)) &&
             (if st.lastOpcode == opcode && st.lastPage == page && st.lastFrame == frame then
                obs.deallocs.isEmpty && obs.changes.isEmpty else true))
        -- C11 (token half): covered by the `ok <page>` comparison in c01
        let ok :=
          ((st.mask &&& 1 == 0) || c01) && ((st.mask &&& 2 == 0) || c02) &&
          ((st.mask &&& 4 == 0) || c09) && ((st.mask &&& 8 == 0) || c10) &&
          ((st.mask &&& 16 == 0) || (if isOk && opcode ≤ 4 then (obs.res.drop 1).head? == some (toString pageEff) else true))
        let why := (if (st.mask &&& 1 != 0) && !c01 then s!"C01(a={c01a},b={c01b},reclinks={recLinks},nprobe={obs.probes.length}/{probes.length}) " else "") ++ (if (st.mask &&& 2 != 0) && !c02 then "C02 " else "") ++
          (if (st.mask &&& 4 != 0) && !c09 then "C09(" ++ c09why.trimAscii.toString ++ ") " else "") ++ (if (st.mask &&& 8 != 0) && !c10 then "C10 " else "")
        some ({ model := model, oracleOk := ok, why := why },
              { st with mm := mm', im := im', abs := abs', disabled := disabled', imPrev := st.im, lastOpcode := opcode,
                        lastPage := pageEff, lastFrame := frame, lastProbes := probes, lastPreTables := preTables })
    | _ => none
  | "mh_crash" =>
    -- the harness process died with a memory fault inside this mapper call: the real code dereferenced an
    -- address outside the simulated physical memory (C09: "read and write only … page tables of that
    -- hierarchy"); nothing can be said about the state afterwards, the history ends here
    some ({ model := impl, oracleOk := false,
            why := "CRASH(the mapper dereferenced memory outside the simulated physical memory / its recursive window) " }, st)
  | "mh_mmu" =>
    -- software-MMU log of the last `mh_op` (recursive mapper): n × (vpage frame isTable info),
    -- info = walk kind (0 four table levels, 1 ended in a huge entry, 2 not present) + 4 × phase
    -- (0 the operation itself, 1 the probe translations after it)
    match a.toList with
    | n :: rest =>
      match takeQuads n rest with
      | none => none
      | some qs =>
        let p4 := st.p4
        let imPre : PMem := fun f i => (st.imPrev.get? (f, i)).getD (st.dflt f i)
        let imPost := st.implMem
        let preT := st.lastPreTables
        let postT := tableFrames imPost p4
        let R := st.rIdx
        let recPages (va : Nat) : List Nat := [recP4 R, recP3 R va, recP2 R va, recP1 R va]
        -- the independent walk of the same memory reaches the same frame
        let agrees (m : PMem) (vpage frame kind : Nat) : Bool :=
          match walk m p4 vpage with
          | none => kind == 2
          | some x => kind != 2 && x.pa == frame && (x.size == 4096) == (kind == 0)
        let verdicts := qs.map fun (vpage, frame, _isTable, info) =>
          let kind := info % 4
          let phase := info / 4
          -- C09: every recursive access lands in a page table of the hierarchy (before or after the call)
          let c09 := kind == 0 &&
            (if phase == 0 then preT.contains (w frame) || postT.contains (w frame) else postT.contains (w frame))
          -- cross-check of the software MMU against `Spec.walk`
          let xchk := if phase == 0 then agrees imPre vpage frame kind || agrees imPost vpage frame kind
                      else agrees imPost vpage frame kind
          -- C20: the address used is the recursive address of a table on the path of the page operated on
          let c20 :=
            if phase == 0 then
              (if st.lastOpcode ≥ 9 then vpage / 2^39 % 512 == R else (recPages st.lastPage).contains vpage)
            else st.lastProbes.any (fun va => (recPages va).contains vpage)
          (c09, xchk, c20)
        let c09 := verdicts.all (·.1)
        let xchk := verdicts.all (·.2.1)
        let c20 := verdicts.all (·.2.2)
        let ok := ((st.mask &&& 4 == 0) || c09) && xchk && c20
        let why := (if (st.mask &&& 4 != 0) && !c09 then "C09(recursive access reached a frame that is not a page table) " else "") ++
          (if !xchk then "MMU-XCHECK " else "") ++ (if !c20 then "C20(recursive address) " else "")
        some ({ model := impl, oracleOk := ok, why := why }, st)
    | _ => none
  | _ => none

end X86.Driver
