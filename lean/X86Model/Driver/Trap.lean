/-
Shared driver code for the trap-harness properties (C11, C16, C17): rendering of model traces in
the token format of `harness/src/trap.rs` (`Event::tokens`), and small parsing helpers.
-/
import X86Model.Driver.Proto
import X86Model.Model.Machine

namespace X86.Driver
open X86 X86.Spec

def fmtObs (o : Obs) : List String := o.mnem :: o.args.map toString

/-- The trapped (privileged) part of a model trace started in `c`, as tokens. -/
def fmtTrapped (c : Cpu) (t : List Insn) : List String :=
  (observeTrapped c t).flatMap fmtObs

/-- The whole model trace (including unprivileged instructions), as tokens. -/
def fmtObservedTrap (c : Cpu) (t : List Insn) : List String :=
  (observe c t).flatMap fmtObs

def fmtFlag (b : Bool) : String := if b then "1" else "0"

/-- Split a token list at the first occurrence of `sep`. -/
def splitAt (sep : String) : List String → List String × List String
  | [] => ([], [])
  | t :: ts => if t == sep then ([], ts) else
    let (a, b) := splitAt sep ts
    (t :: a, b)

def bv64T (n : Nat) : BitVec 64 := BitVec.ofNat 64 n
def bv32 (n : Nat) : BitVec 32 := BitVec.ofNat 32 n
def bv16 (n : Nat) : BitVec 16 := BitVec.ofNat 16 n

end X86.Driver
