/-
Driver handlers for C08 (page-table entries and tables).
Model: Model/Entry.lean. Oracle: Spec/PageEntry.lean evaluated on the implementation's output.
-/
import X86Model.Driver.Proto
import X86Model.Model.Entry
import X86Model.Spec.PageEntry

namespace X86.Driver
open X86 X86.Spec

def bv (n : Nat) : BitVec 64 := BitVec.ofNat 64 n

/-- Rendering of one observed entry state: `raw addr flags unused frame|n`. -/
def fmtObserved (o : Observed) : List String :=
  [toString o.raw.toNat, toString o.addr.toNat, toString o.flags.toNat,
   if o.unused then "1" else "0",
   match o.frame with | some f => toString f.toNat | none => "n"]

/-- What the model's getters report about entry `e`. -/
def modelObserve (e : BitVec 64) : Observed :=
  ⟨e, Entry.addr e, Entry.flags e, Entry.isUnused e, Entry.frame e⟩

/-- Decode `(kind, a, f)` triples: 0 set_addr, 1 set_frame, 2 set_flags, 3 set_unused. -/
def decodeOps : List Nat → Option (List (Entry.Op × SetOp))
  | [] => some []
  | k :: a :: f :: rest =>
    match decodeOps rest with
    | none => none
    | some tl =>
      match k with
      | 0 => some ((.setAddr (bv a) (bv f), .setAddr (bv a) (bv f)) :: tl)
      | 1 => some ((.setFrame (bv a) (bv f), .setFrame (bv a) (bv f)) :: tl)
      | 2 => some ((.setFlags (bv f), .setFlags (bv f)) :: tl)
      | 3 => some ((.setUnused, .setUnused) :: tl)
      | _ => none
  | _ => none

/-- Model: apply the setters one after the other; a panicking call prints `p` and leaves the entry
as it was (the assertion precedes the store). -/
def modelSeq (e : BitVec 64) : List Entry.Op → List String
  | [] => []
  | op :: rest =>
    match Entry.step e op with
    | .ok e' => fmtObserved (modelObserve e') ++ modelSeq e' rest
    | .panic => "p" :: modelSeq e rest

/-- Oracle: walk the implementation's per-step output with the spec's (last address, last flags)
pair. In-domain calls: all five observations must be the spec's `expected`. Out-of-domain calls
(flag bits in 12–51): only "the word is address | flags" is required and the pair is re-read from
the implementation's word (every word is the word of exactly one in-domain pair). A `set_addr`
the spec rejects (unaligned) must panic. -/
def oracleSeq (s : Stored) : List SetOp → List String → Bool
  | [], [] => true
  | [], _ :: _ => false
  | op :: rest, toks =>
    match specStep s op with
    | none =>
      match toks with
      | "p" :: toks' => oracleSeq s rest toks'
      | _ => false
    | some s' =>
      match toks with
      | r :: a :: f :: u :: fr :: toks' =>
        if op.inDomain then
          [r, a, f, u, fr] == fmtObserved s'.expected && oracleSeq s' rest toks'
        else
          match r.toNat? with
          | some rv => bv rv == s'.word && oracleSeq (Stored.ofWord (bv rv)) rest toks'
          | none => false
      | _ => false

/-- Fill pattern of the table tests: byte at offset `o` for `seed` (same formula in c08.rs). -/
def fillByte (seed o : Nat) : BitVec 8 :=
  BitVec.ofNat 8 ((((o + 1) * 0x9E3779B1 + seed * 0x85EBCA6B) % 2^64) / 2^16)

/-- The table whose memory image is the fill pattern. -/
def fillTable (seed : Nat) : PageTable := PageTable.ofFn (fun i => wordAt (fillByte seed) i)

/-- Access paths: 0 `Index<usize>`, 1 `Index<PageTableIndex>`, 2 `IndexMut<usize>`,
3 `IndexMut<PageTableIndex>`, 4 `iter().nth(i)`, 5 `iter_mut().nth(i)`.
`ok slot` / `panic` / `none` (iterator exhausted). -/
def pathRef (path i : Nat) : Option (List String × Option Nat) :=
  let ofR (r : R Nat) : List String × Option Nat :=
    match r with | .ok s => (["ok", toString (8 * s)], some s) | .panic => (["panic"], none)
  let ofO (o : Option Nat) : List String × Option Nat :=
    match o with | some s => (["ok", toString (8 * s)], some s) | none => (["none"], none)
  match path with
  | 0 | 2 => some (ofR (PageTable.refUsize i))
  | 1 | 3 => some (ofR (PageTable.refPti i))
  | 4 => some (ofO PageTable.iterRefs[i]?)
  | 5 => some (ofO PageTable.iterMutRefs[i]?)
  | _ => none

/-- Spec of the same: slot `i` lives at byte `8 i`; 512 slots. -/
def pathRefSpec (path i : Nat) : List String :=
  if i < ENTRIES then ["ok", toString (slotOffset i)]
  else if path == 4 || path == 5 then ["none"] else ["panic"]

def fmtDiff (d : List (Nat × BitVec 8)) : List String :=
  toString d.length :: d.flatMap (fun (o, b) => [toString o, toString b.toNat])

def countNonzero (t : PageTable) : Nat :=
  (List.range 4096).foldl (fun n o => if t.byteAt o == 0#8 then n else n + 1) 0

def handleC08 : Handler := fun _cfg op a impl =>
  match op, a.toList with
  | "pte_new", [] =>
    some (eqSpec [toString Entry.new.toNat, if Entry.isUnused Entry.new then "1" else "0"]
      ["0", "1"] impl)
  | "pte_seq", e0 :: n :: rest =>
    match decodeOps rest with
    | none => none
    | some ops =>
      if ops.length != n then none else
      some (withOracle (modelSeq (bv e0) (ops.map (·.1)))
        (oracleSeq (Stored.ofWord (bv e0)) (ops.map (·.2)) impl))
  | "pt_layout", [] =>
    some (eqSpec [toString PageTable.SIZE_OF, toString PageTable.ALIGN_OF,
        toString PageTable.ENTRY_SIZE_OF]
      [toString TABLE_BYTES, toString TABLE_ALIGN, toString ENTRY_BYTES] impl)
  | "pt_off", [path, i] =>
    match pathRef path i with
    | none => none
    | some (toks, _) => some (eqSpec toks (pathRefSpec path i) impl)
  | "pt_read", [path, seed, i] =>
    match pathRef path i with
    | some (_, some slot) =>
      let e := (fillTable seed).read slot
      let specW := wordAt (fillByte seed) i
      some (eqSpec [toString e.toNat, toString (Entry.addr e ||| Entry.flags e).toNat]
        [toString specW.toNat, toString specW.toNat] impl)
    | _ => none
  | "pt_write", [path, seed, i, v] =>
    match pathRef path i with
    | some (_, some slot) =>
      let t := fillTable seed
      let old := t.read slot
      -- the harness stores `v` with `set_addr(v & ADDR, from_bits_retain(v & !ADDR))`
      match Entry.setAddr old (bv v &&& Entry.ADDR_MASK) (bv v &&& ~~~Entry.ADDR_MASK) with
      | .panic => some (withOracle ["panic"] false)
      | .ok e' =>
        let t' := t.write slot e'
        let d := (List.range 4096).filterMap (fun o =>
          if t.byteAt o == t'.byteAt o then none else some (o, t'.byteAt o))
        some (eqSpec (fmtDiff d) (fmtDiff (changedBytes i (wordAt (fillByte seed) i) (bv v))) impl)
    | _ => none
  | "pt_new", [] =>
    some (eqSpec [toString (countNonzero PageTable.new), fmtBool PageTable.new.isEmpty |>.head!]
      ["0", "1"] impl)
  | "pt_zero", [seed] =>
    let t := (fillTable seed).zero
    some (eqSpec [toString (countNonzero t), (fmtBool t.isEmpty).head!] ["0", "1"] impl)
  | "pt_empty", [i, v] =>
    let t := PageTable.new.write i (bv v)
    some (eqSpec (fmtBool t.isEmpty) (fmtBool (v == 0)) impl)
  | _, _ => none

end X86.Driver
