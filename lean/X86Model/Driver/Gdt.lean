/-
Driver handlers for C15 (descriptor encodings, TSS / pointer layout) and C14 (GDT).
Model: Model/Gdt.lean, Model/Tss.lean. Oracle: Spec/Descriptor.lean (C15), Spec/GdtTable.lean (C14)
evaluated on the implementation's output.
-/
import X86Model.Driver.Proto
import X86Model.Model.Gdt
import X86Model.Spec.Descriptor
import X86Model.Spec.GdtTable

namespace X86.Driver
open X86 X86.Spec

def bv64 (n : Nat) : BitVec 64 := BitVec.ofNat 64 n

def fmtDesc (r : R Descriptor) : List String :=
  match r with
  | .ok (.user v) => ["user", toString v.toNat]
  | .ok (.system lo hi) => ["sys", toString lo.toNat, toString hi.toNat]
  | .panic => ["panic"]

/-- Model values of the six preset constants, in the order of `Spec.Preset.all`. -/
def modelPresets : List (BitVec 64) :=
  [DescriptorFlags.KERNEL_DATA, DescriptorFlags.KERNEL_CODE32, DescriptorFlags.KERNEL_CODE64,
   DescriptorFlags.USER_DATA, DescriptorFlags.USER_CODE32, DescriptorFlags.USER_CODE64]

/-- The four constructors (`kernel_code_segment`, `kernel_data_segment`, `user_data_segment`,
`user_code_segment`) and the preset each must carry. -/
def modelCtors : List (Descriptor × Preset) :=
  [(Descriptor.kernelCodeSegment, .kernelCode64), (Descriptor.kernelDataSegment, .kernelData),
   (Descriptor.userDataSegment, .userData), (Descriptor.userCodeSegment, .userCode64)]

def natToks (l : List Nat) : List String := l.map toString

def handleC15 : Handler := fun _cfg op a impl =>
  match op, a.toList with
  | "tss_desc", [ptr] | "tss_desc_ref", [ptr] =>
    let ok := match impl with
      | ["sys", lo, hi] =>
        match lo.toNat?, hi.toNat? with
        | some l, some h => decide (decodeSys (bv64 l) (bv64 h) = expectedTss (bv64 ptr))
        | _, _ => false
      | _ => false
    some (withOracle (fmtDesc (Descriptor.tssSegment (bv64 ptr))) ok)
  | "desc_preset", [k] =>
    match modelPresets[k]?, Preset.all[k]? with
    | some m, some p =>
      let ok := match impl with
        | [b] => match b.toNat? with
          | some v => decide (decodeSeg (bv64 v) = expectedPreset p)
          | none => false
        | _ => false
      some (withOracle [toString m.toNat] ok)
    | _, _ => none
  | "desc_ctor", [k] =>
    match modelCtors[k]? with
    | some (d, p) =>
      let ok := match impl with
        | ["user", b] => match b.toNat? with
          | some v => decide (decodeSeg (bv64 v) = expectedPreset p)
          | none => false
        | _ => false
      some (withOracle (fmtDesc (.ok d)) ok)
    | none => none
  | "desc_flag", [k] =>
    match DescriptorFlags.consts[k]?, flagFieldMasks[k]? with
    | some m, some s => some (eqSpec [toString m.toNat] [toString s.toNat] impl)
    | _, _ => none
  | "desc_dpl", [kind, lo, hi] =>
    let d : Descriptor := if kind == 0 then .user (bv64 lo) else .system (bv64 lo) (bv64 hi)
    let model := match d.dpl with
      | .ok v => ["ok", toString v.toNat]
      | .panic => ["panic"]
    some (eqSpec model ["ok", toString (decodeSeg (bv64 lo)).dpl.toNat] impl)
  | "tss_layout", [] =>
    let o (n : String) := toString ((offsetOf TaskStateSegment.layout n).getD 9999)
    some (eqSpec
      [o "privilege_stack_table", o "interrupt_stack_table", o "iomap_base",
       toString TaskStateSegment.SIZE_OF, toString TaskStateSegment.new.iomap_base]
      (natToks [TSS_OFF_RSP0, TSS_OFF_IST1, TSS_OFF_IOMAP_BASE, TSS_BYTES, TSS_BYTES]) impl)
  | "tss_bytes", [r0, r1, r2, i1, i2, i3, i4, i5, i6, i7, io] =>
    some (eqSpec
      (natToks (TaskStateSegment.bytes ⟨[r0, r1, r2], [i1, i2, i3, i4, i5, i6, i7], io⟩))
      (natToks (encodeTss [r0, r1, r2] [i1, i2, i3, i4, i5, i6, i7] io)) impl)
  | "dtp_layout", [] =>
    let o (n : String) := toString ((offsetOf DescriptorTablePointer.layout n).getD 9999)
    some (eqSpec [o "limit", o "base", toString DescriptorTablePointer.SIZE_OF]
      (natToks [DTP_OFF_LIMIT, DTP_OFF_BASE, DTP_BYTES]) impl)
  | "dtp_bytes", [limit, base] =>
    some (eqSpec (natToks (DescriptorTablePointer.bytes limit base))
      (natToks (encodeDtp limit base)) impl)
  | _, _ => none

/-! ### C14 -/

def fmtR16 (r : R (BitVec 16)) : String :=
  match r with | .ok v => toString v.toNat | .panic => "X"

def fmtEntries (r : R (List (BitVec 64))) : List String :=
  match r with
  | .ok l => toString l.length :: l.map (fun w => toString w.toNat)
  | .panic => ["X"]

/-- Length of the common prefix of two lists. -/
def commonPrefix : List (BitVec 64) → List (BitVec 64) → Nat
  | a :: as, b :: bs => if a == b then commonPrefix as bs + 1 else 0
  | _, _ => 0

/-- Decode `(kind, lo, hi)` triples: kind 0 = user segment (`hi` ignored), 1 = system segment. -/
def decodeDescs : List Nat → Option (List (Descriptor × Desc))
  | [] => some []
  | k :: lo :: hi :: rest =>
    match decodeDescs rest with
    | none => none
    | some tl =>
      if k == 0 then some ((.user (bv64 lo), .user (bv64 lo)) :: tl)
      else if k == 1 then some ((.system (bv64 lo) (bv64 hi), .system (bv64 lo) (bv64 hi)) :: tl)
      else none
  | _ => none

/-- Model side of `gdt_seq`: per append `s <sel>` or `p`, then `limit len prefix T tail…`
describing `entries()` after the call relative to `entries()` before it. -/
def modelGdtSteps (cfg : Cfg) (g : Gdt) : List Descriptor → List String
  | [] => []
  | d :: rest =>
    let prev := match g.entries with | .ok l => l | .panic => []
    let (g', r) := g.append d
    let cur := match g'.entries with | .ok l => l | .panic => []
    let pre := commonPrefix prev cur
    let tail := cur.drop pre
    let head := match r with | .ok sel => ["s", toString sel.toNat] | .panic => ["p"]
    head ++ [fmtR16 (g'.limit cfg), toString cur.length, toString pre, toString tail.length]
      ++ tail.map (fun w => toString w.toNat) ++ modelGdtSteps cfg g' rest

def takeNats : Nat → List String → Option (List Nat × List String)
  | 0, toks => some ([], toks)
  | n + 1, t :: toks =>
    match t.toNat?, takeNats n toks with
    | some v, some (vs, rest) => some (v :: vs, rest)
    | _, _ => none
  | _ + 1, [] => none

/-- Oracle side of `gdt_seq`: the implementation's per-step output against the spec's table
(`Spec.gdtAppend`): accepted ⇒ `s`, selector decodes to (first slot, TI = 0, RPL = DPL), entries =
old entries ++ descriptor words, limit = 8·len − 1; rejected ⇒ `p` and entries/limit unchanged. -/
def oracleGdtSteps (max : Nat) (s : List (BitVec 64)) : List Desc → List String → Bool
  | [], [] => true
  | [], _ :: _ => false
  | d :: ds, toks =>
    let parseObs (toks : List String) : Option (Nat × List (BitVec 64) × List String) :=
      match takeNats 4 toks with
      | some ([limit, len, pre, t], rest) =>
        match takeNats t rest with
        | some (tail, rest') =>
          let cur := s.take pre ++ tail.map bv64
          if cur.length == len then some (limit, cur, rest') else none
        | none => none
      | _ => none
    match gdtAppend max s d, toks with
    | some (s', sf), "s" :: sel :: toks' =>
      match sel.toNat?, parseObs toks' with
      | some sv, some (limit, cur, rest) =>
        sv < 65536 && decide (decodeSel (BitVec.ofNat 16 sv) = sf) && cur == s' &&
          limit == gdtLimit s'.length && oracleGdtSteps max s' ds rest
      | _, _ => false
    | none, "p" :: toks' =>
      match parseObs toks' with
      | some (limit, cur, rest) =>
        cur == s && limit == gdtLimit s.length && oracleGdtSteps max s ds rest
      | none => false
    | _, _ => false

/-- Initial table of a `gdt_seq`/`gdt_raw`/`gdt_empty` line: model and spec. -/
def gdtInit (max : Nat) (raw : Option (List (BitVec 64))) : R Gdt × Option (List (BitVec 64)) :=
  match raw with
  | none => (Gdt.empty max, if capacityOk max then some gdtEmpty else none)
  | some r => (Gdt.fromRawEntries max r, if rawOk max r then some r else none)

def fmtInit (cfg : Cfg) (g : R Gdt) : List String :=
  match g with
  | .panic => ["p"]
  | .ok g => "i" :: fmtR16 (g.limit cfg) :: fmtEntries g.entries

/-- Oracle for the initial observation `i <limit> <len> e…` / `p`; returns the remaining tokens. -/
def oracleInit (spec : Option (List (BitVec 64))) (toks : List String) : Option (List String) :=
  match spec, toks with
  | none, "p" :: rest => some rest
  | some s, "i" :: limit :: len :: rest =>
    match limit.toNat?, len.toNat? with
    | some l, some n =>
      match takeNats n rest with
      | some (es, rest') =>
        if n == s.length && es.map bv64 == s && l == gdtLimit s.length then some rest' else none
      | none => none
    | _, _ => none
  | _, _ => none

def handleC14 : Handler := fun cfg op a impl =>
  match op, a.toList with
  | "gdt_empty", [max] =>
    let (g, spec) := gdtInit max none
    some (withOracle (fmtInit cfg g) (oracleInit spec impl == some []))
  | "gdt_raw", max :: n :: raw =>
    if raw.length != n then none else
    let (g, spec) := gdtInit max (some (raw.map bv64))
    some (withOracle (fmtInit cfg g) (oracleInit spec impl == some []))
  | "gdt_seq", max :: nraw :: rest =>
    let raw := rest.take nraw
    match rest.drop nraw with
    | n :: steps =>
      match decodeDescs steps with
      | none => none
      | some ds =>
        if ds.length != n || raw.length != nraw then none else
        let (g, spec) := gdtInit max (if nraw == 0 then none else some (raw.map bv64))
        let model := fmtInit cfg g ++
          (match g with | .ok g => modelGdtSteps cfg g (ds.map (·.1)) | .panic => [])
        let ok := match oracleInit spec impl, spec with
          | some rest', some s => oracleGdtSteps max s (ds.map (·.2)) rest'
          | some rest', none => rest' == []
          | none, _ => false
        some (withOracle model ok)
    | [] => none
  | "gdt_load", [max, used, base, _kind] =>
    -- a table with `used` slots in use (contents do not matter to `load`), at address `base`
    let g : Gdt := { max := max, table := List.replicate max 0#64, len := used }
    let model := match Gdt.load cfg g base with
      | .ok [.lgdt l b] => ["1", "lgdt", toString l.toNat, toString b]
      | .ok _ => ["?"]
      | .panic => ["0", "panic"]
    -- spec: one `lgdt` whose operand is (8 x used slots - 1, the table's own address)
    some { model := model, oracleOk := impl == ["1", "lgdt", toString (8 * used - 1), toString base],
           why := "load must execute one lgdt with limit 8*len-1 and the table's own address" }
  | _, _ => none

end X86.Driver
