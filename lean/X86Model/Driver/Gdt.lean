/-
Driver handlers for C15 (descriptor encodings, TSS / pointer layout) and C14 (GDT).
Model: Model/Gdt.lean, Model/Tss.lean. Oracle: Spec/Descriptor.lean (C15), Spec/GdtTable.lean (C14)
evaluated on the implementation's output.
-/
import X86Model.Driver.Proto
import X86Model.Model.Gdt
import X86Model.Spec.Descriptor

namespace X86.Driver
open X86 X86.Spec

def bv64 (n : Nat) : BitVec 64 := BitVec.ofNat 64 n

def fmtDesc (r : R Descriptor) : List String :=
  match r with
  | .ok (.user v) => ["user", toString v.toNat]
  | .ok (.system lo hi) => ["sys", toString lo.toNat, toString hi.toNat]
  | .panic => ["panic"]

/-- Model values of the six preset constants, in the order of `Spec.Preset.all`. -/
def modelPresets : List (BitVec 64) :=
  [DescriptorFlags.KERNEL_DATA, DescriptorFlags.KERNEL_CODE32, DescriptorFlags.KERNEL_CODE64,
   DescriptorFlags.USER_DATA, DescriptorFlags.USER_CODE32, DescriptorFlags.USER_CODE64]

/-- The four constructors (`kernel_code_segment`, `kernel_data_segment`, `user_data_segment`,
`user_code_segment`) and the preset each must carry. -/
def modelCtors : List (Descriptor × Preset) :=
  [(Descriptor.kernelCodeSegment, .kernelCode64), (Descriptor.kernelDataSegment, .kernelData),
   (Descriptor.userDataSegment, .userData), (Descriptor.userCodeSegment, .userCode64)]

def natToks (l : List Nat) : List String := l.map toString

def handleC15 : Handler := fun _cfg op a impl =>
  match op, a.toList with
  | "tss_desc", [ptr] | "tss_desc_ref", [ptr] =>
    let ok := match impl with
      | ["sys", lo, hi] =>
        match lo.toNat?, hi.toNat? with
        | some l, some h => decide (decodeSys (bv64 l) (bv64 h) = expectedTss (bv64 ptr))
        | _, _ => false
      | _ => false
    some (withOracle (fmtDesc (Descriptor.tssSegment (bv64 ptr))) ok)
  | "desc_preset", [k] =>
    match modelPresets[k]?, Preset.all[k]? with
    | some m, some p =>
      let ok := match impl with
        | [b] => match b.toNat? with
          | some v => decide (decodeSeg (bv64 v) = expectedPreset p)
          | none => false
        | _ => false
      some (withOracle [toString m.toNat] ok)
    | _, _ => none
  | "desc_ctor", [k] =>
    match modelCtors[k]? with
    | some (d, p) =>
      let ok := match impl with
        | ["user", b] => match b.toNat? with
          | some v => decide (decodeSeg (bv64 v) = expectedPreset p)
          | none => false
        | _ => false
      some (withOracle (fmtDesc (.ok d)) ok)
    | none => none
  | "desc_flag", [k] =>
    match DescriptorFlags.consts[k]?, flagFieldMasks[k]? with
    | some m, some s => some (eqSpec [toString m.toNat] [toString s.toNat] impl)
    | _, _ => none
  | "desc_dpl", [kind, lo, hi] =>
    let d : Descriptor := if kind == 0 then .user (bv64 lo) else .system (bv64 lo) (bv64 hi)
    let model := match d.dpl with
      | .ok v => ["ok", toString v.toNat]
      | .panic => ["panic"]
    some (eqSpec model ["ok", toString (decodeSeg (bv64 lo)).dpl.toNat] impl)
  | "tss_layout", [] =>
    let o (n : String) := toString ((offsetOf TaskStateSegment.layout n).getD 9999)
    some (eqSpec
      [o "privilege_stack_table", o "interrupt_stack_table", o "iomap_base",
       toString TaskStateSegment.SIZE_OF, toString TaskStateSegment.new.iomap_base]
      (natToks [TSS_OFF_RSP0, TSS_OFF_IST1, TSS_OFF_IOMAP_BASE, TSS_BYTES, TSS_BYTES]) impl)
  | "tss_bytes", [r0, r1, r2, i1, i2, i3, i4, i5, i6, i7, io] =>
    some (eqSpec
      (natToks (TaskStateSegment.bytes ⟨[r0, r1, r2], [i1, i2, i3, i4, i5, i6, i7], io⟩))
      (natToks (encodeTss [r0, r1, r2] [i1, i2, i3, i4, i5, i6, i7] io)) impl)
  | "dtp_layout", [] =>
    let o (n : String) := toString ((offsetOf DescriptorTablePointer.layout n).getD 9999)
    some (eqSpec [o "limit", o "base", toString DescriptorTablePointer.SIZE_OF]
      (natToks [DTP_OFF_LIMIT, DTP_OFF_BASE, DTP_BYTES]) impl)
  | "dtp_bytes", [limit, base] =>
    some (eqSpec (natToks (DescriptorTablePointer.bytes limit base))
      (natToks (encodeDtp limit base)) impl)
  | _, _ => none

end X86.Driver
