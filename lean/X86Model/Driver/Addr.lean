/-
Driver handlers for the address/page arithmetic properties (C03–C07).
Each op evaluates the model (Model/Addr.lean, Model/Page.lean, Model/AddrProg.lean) and the
spec oracle (Spec/Canon.lean) the property theorems are stated against.
-/
import X86Model.Driver.Proto
import X86Model.Model.Page
import X86Model.Model.AddrProg
import X86Model.Spec.Canon

namespace X86.Driver
open X86 X86.Spec

/-! ### C03 -/

def unpack4 (a : Nat) : Nat × Nat × Nat × Nat := (a / 2^27 % 512, a / 2^18 % 512, a / 2^9 % 512, a % 512)

/-- Decode a chain `opcode a b  opcode a b …` into a `VProg` (each op applies to the previous value;
leaf opcodes restart the chain). Page ops go through `containing_address` first, as in the harness. -/
def decodeV : List Nat → VProg → Option VProg
  | [], p => some p
  | op :: a :: b :: rest, p =>
    let q : Option VProg :=
      match op with
      | 0 => some (.new a) | 1 => some (.tryNew a) | 2 => some (.newTruncate a) | 3 => some .zero
      | 4 => some (.fromPtr a) | 5 => some (.alignUp p a) | 6 => some (.alignDown p a)
      | 7 => some (.add p a) | 8 => some (.sub p a) | 9 => some (.stepFwd p a) | 10 => some (.stepBwd p a)
      | 11 => some (.pageContaining a p) | 12 => some (.pageFromStart a p)
      | 13 => some (.pageAdd a (.pageContaining a p) b) | 14 => some (.pageSub a (.pageContaining a p) b)
      | 15 => some (.pageFwd a (.pageContaining a p) b) | 16 => some (.pageBwd a (.pageContaining a p) b)
      | 17 => let (i4, i3, i2, i1) := unpack4 a; some (.fromIdx4K i4 i3 i2 i1)
      | 18 => let (i4, i3, i2, _) := unpack4 a; some (.fromIdx2M i4 i3 i2)
      | 19 => let (i4, i3, _, _) := unpack4 a; some (.fromIdx1G i4 i3)
      | 20 => some (.handlerAddr (a % 2^16) (a / 2^16 % 2^16) (a / 2^32))
      | _ => none
    match q with
    | some q => decodeV rest q
    | none => none
  | _, _ => none

def decodeP : List Nat → PProg → Option PProg
  | [], p => some p
  | op :: a :: b :: rest, p =>
    let q : Option PProg :=
      match op with
      | 0 => some (.new a) | 1 => some (.tryNew a) | 2 => some (.newTruncate a) | 3 => some .zero
      | 5 => some (.alignUp p a) | 6 => some (.alignDown p a)
      | 7 => some (.add p a) | 8 => some (.sub p a)
      | 11 => some (.frameContaining a p) | 12 => some (.frameFromStart a p)
      | 13 => some (.frameAdd a (.frameContaining a p) b) | 14 => some (.frameSub a (.frameContaining a p) b)
      | 20 => some (.entryAddr a)
      | _ => none
    match q with
    | some q => decodeP rest q
    | none => none
  | _, _ => none

/-- Oracle for address-valued outputs: no value, or a valid one. -/
def validOut (valid : Nat → Bool) (impl : List String) : Bool :=
  match impl with
  | ["none"] => true
  | ["some", v] => match v.toNat? with | some n => valid n | none => false
  | _ => false

def handleC03 : Handler := fun cfg op a impl =>
  match op, a.toList with
  | "va_try_new", [x] =>
    some (eqSpec (fmtOpt (VirtAddr.tryNew x)) (fmtOpt (if canon x then some x else none)) impl)
  | "va_new_truncate", [x] =>
    let m := VirtAddr.newTruncate x
    some (withOracle (fmtNat m) (match impl with
      | [v] => (match v.toNat? with
        | some n => decide (canon n) && n % 2^48 == x % 2^48 && (!decide (canon x) || n == x)
        | none => false)
      | _ => false))
  | "pa_try_new", [x] =>
    some (eqSpec (fmtOpt (PhysAddr.tryNew x)) (fmtOpt (if physValid x then some x else none)) impl)
  | "pa_new_truncate", [x] =>
    some (eqSpec (fmtNat (PhysAddr.newTruncate x)) (fmtNat (x % 2^52)) impl)
  | "vprog", args =>
    match decodeV args .zero with
    | some p => some (withOracle (fmtOpt (p.eval cfg)) (validOut (fun n => decide (canon n)) impl))
    | none => none
  | "pprog", args =>
    match decodeP args .zero with
    | some p => some (withOracle (fmtOpt (p.eval cfg)) (validOut (fun n => decide (physValid n)) impl))
    | none => none
  | _, _ => none

/-! ### C04 -/

def handleC04 : Handler := fun _cfg op a impl =>
  match op, a.toList with
  | "va_idx", [x] =>
    let m := [VirtAddr.p4Index x, VirtAddr.p3Index x, VirtAddr.p2Index x, VirtAddr.p1Index x,
              VirtAddr.pageOffset x, VirtAddr.pageTableIndex x 1, VirtAddr.pageTableIndex x 2,
              VirtAddr.pageTableIndex x 3, VirtAddr.pageTableIndex x 4]
    let s := [idxSpec 4 x, idxSpec 3 x, idxSpec 2 x, idxSpec 1 x, offSpec x,
              idxSpec 1 x, idxSpec 2 x, idxSpec 3 x, idxSpec 4 x]
    some (eqSpec (fmtNats m) (fmtNats s) impl)
  | "pg_idx", [_sz, p] =>
    let m := [Page.p4Index p, Page.p3Index p, Page.p2Index p, Page.p1Index p,
              Page.pageTableIndex p 1, Page.pageTableIndex p 2, Page.pageTableIndex p 3, Page.pageTableIndex p 4]
    let s := [idxSpec 4 p, idxSpec 3 p, idxSpec 2 p, idxSpec 1 p,
              idxSpec 1 p, idxSpec 2 p, idxSpec 3 p, idxSpec 4 p]
    some (eqSpec (fmtNats m) (fmtNats s) impl)
  | "from_idx4k", [i4, i3, i2, i1] =>
    some (eqSpec (fmtNat (Page.fromIndices4K i4 i3 i2 i1)) (fmtNat (unrank (ofIndices i4 i3 i2 i1))) impl)
  | "from_idx2m", [i4, i3, i2] =>
    some (eqSpec (fmtNat (Page.fromIndices2M i4 i3 i2)) (fmtNat (unrank (ofIndices i4 i3 i2 0))) impl)
  | "from_idx1g", [i4, i3] =>
    some (eqSpec (fmtNat (Page.fromIndices1G i4 i3)) (fmtNat (unrank (ofIndices i4 i3 0 0))) impl)
  | "idx_new", [i] =>
    some (eqSpec (fmtR (PageTableIndex.new i)) (if i < 512 then ["ok", toString i] else ["panic"]) impl)
  | "idx_trunc", [i] =>
    some (eqSpec (fmtNat (PageTableIndex.newTruncate i)) (fmtNat (i % 512)) impl)
  | "off_new", [i] =>
    some (eqSpec (fmtR (PageOffset.new i)) (if i < 4096 then ["ok", toString i] else ["panic"]) impl)
  | "off_trunc", [i] =>
    some (eqSpec (fmtNat (PageOffset.newTruncate i)) (fmtNat (i % 4096)) impl)
  | "level", [l] =>
    let m := fmtOpt (PageTableLevel.nextLower l) ++ fmtOpt (PageTableLevel.nextHigher l) ++
      [toString (PageTableLevel.tableAlign l), toString (PageTableLevel.entryAlign l)]
    let s := fmtOpt (if l = 1 then none else some (l - 1)) ++ fmtOpt (if l = 4 then none else some (l + 1)) ++
      [toString (512 * entrySpan l), toString (entrySpan l)]
    some (eqSpec m s impl)
  | _, _ => none

/-! ### C06 -/

def rOk (v : Nat) : List String := ["ok", toString v]

def handleC06 : Handler := fun _cfg op a impl =>
  match op, a.toList with
  | "align_down", [x, al] =>
    some (eqSpec (fmtR (alignDown x al)) (if isPow2Spec al then rOk (downMultiple x al) else ["panic"]) impl)
  | "align_up", [x, al] =>
    some (eqSpec (fmtR (alignUp x al))
      (if isPow2Spec al then (if upMultiple x al < 2^64 then rOk (upMultiple x al) else ["panic"]) else ["panic"]) impl)
  | "pa_align_down", [x, al] =>
    some (eqSpec (fmtR (PhysAddr.alignDown x al)) (if isPow2Spec al then rOk (downMultiple x al) else ["panic"]) impl)
  | "pa_align_up", [x, al] =>
    some (eqSpec (fmtR (PhysAddr.alignUp x al))
      (if isPow2Spec al then (if upMultiple x al < 2^52 then rOk (upMultiple x al) else ["panic"]) else ["panic"]) impl)
  | "va_align_down", [x, al] =>
    let m := fmtR (VirtAddr.alignDown x al)
    if !isPow2Spec al then some (eqSpec m ["panic"] impl)
    else if al ≤ 2^47 then some (eqSpec m (rOk (downMultiple x al)) impl)
    else some (withOracle m true)      -- alignments above 2^47: outside the property's statement
  | "va_align_up", [x, al] =>
    let m := fmtR (VirtAddr.alignUp x al)
    if !isPow2Spec al then some (eqSpec m ["panic"] impl)
    else if al ≤ 2^47 then
      let u := upMultiple x al
      some (eqSpec m (if u < 2^64 then rOk (if u = 2^47 then 2^64 - 2^47 else u) else ["panic"]) impl)
    else some (withOracle m true)
  | "va_is_aligned", [x, al] =>
    let m := fmtRBool (VirtAddr.isAligned x al)
    if !isPow2Spec al then some (eqSpec m ["panic"] impl)
    else if al ≤ 2^47 then some (eqSpec m ["ok", if x % al = 0 then "1" else "0"] impl)
    else some (withOracle m true)
  | "pa_is_aligned", [x, al] =>
    some (eqSpec (fmtRBool (PhysAddr.isAligned x al))
      (if isPow2Spec al then ["ok", if x % al = 0 then "1" else "0"] else ["panic"]) impl)
  | "pg_containing", [sz, x] =>
    some (eqSpec (fmtNat (Page.containingAddress sz x)) (fmtNat (x / sz * sz)) impl)
  | "pg_from_start", [sz, x] =>
    some (eqSpec (fmtOpt (Page.fromStartAddress sz x)) (fmtOpt (if x % sz = 0 then some x else none)) impl)
  | "fr_containing", [sz, x] =>
    some (eqSpec (fmtNat (PhysFrame.containingAddress sz x)) (fmtNat (x / sz * sz)) impl)
  | "fr_from_start", [sz, x] =>
    some (eqSpec (fmtOpt (PhysFrame.fromStartAddress sz x)) (fmtOpt (if x % sz = 0 then some x else none)) impl)
  | _, _ => none

/-! ### C07 -/

/-- exact-or-panic oracle -/
def exactOrPanic (exact : Option Nat) (impl : List String) : Bool :=
  match impl with
  | ["panic"] => true
  | ["ok", v] => (match v.toNat?, exact with | some n, some e => n == e | _, _ => false)
  | _ => false

def kindOf (k : Nat) : Option RangeKind :=
  match k with
  | 0 => some .page | 1 => some .pageIncl | 2 => some .frame | 3 => some .frameIncl | _ => none

def fmtRangeRun (cfg : Cfg) (k : RangeKind) (sz : Nat) (r : Range) (fuel : Nat) : List String :=
  let len := Range.len cfg k sz r
  let size := Range.size cfg k sz r
  let items := Range.collect k sz fuel r
  ["len"] ++ fmtR len ++ ["size"] ++ fmtR size ++
  (match items with
   | none => ["items", "toolong"]
   | some .panic => ["items", "panic"]
   | some (.ok l) => ["items", "ok", toString l.length, toString (listHash l)])

def handleC07 : Handler := fun cfg op a impl =>
  match op, a.toList with
  | "va_add", [x, n] => some (withOracle (fmtR (VirtAddr.add x n)) (exactOrPanic (some (x + n)) impl))
  | "va_sub", [x, n] => some (withOracle (fmtR (VirtAddr.sub x n)) (exactOrPanic (if n ≤ x then some (x - n) else none) impl))
  | "va_subaddr", [x, y] => some (withOracle (fmtR (VirtAddr.subAddr x y)) (exactOrPanic (if y ≤ x then some (x - y) else none) impl))
  | "pa_add", [x, n] => some (withOracle (fmtR (PhysAddr.add x n)) (exactOrPanic (some (x + n)) impl))
  | "pa_sub", [x, n] => some (withOracle (fmtR (PhysAddr.sub x n)) (exactOrPanic (if n ≤ x then some (x - n) else none) impl))
  | "pa_subaddr", [x, y] => some (withOracle (fmtR (PhysAddr.subAddr x y)) (exactOrPanic (if y ≤ x then some (x - y) else none) impl))
  | "pg_add", [sz, p, n] => some (withOracle (fmtR (Page.add sz p n)) (exactOrPanic (some (p + n * sz)) impl))
  | "pg_sub", [sz, p, n] => some (withOracle (fmtR (Page.sub sz p n)) (exactOrPanic (if n * sz ≤ p then some (p - n * sz) else none) impl))
  | "pg_subpg", [sz, p, q] => some (withOracle (fmtR (Page.subPage sz p q)) (exactOrPanic (if q ≤ p then some ((p - q) / sz) else none) impl))
  | "fr_add", [sz, p, n] => some (withOracle (fmtR (PhysFrame.add sz p n)) (exactOrPanic (some (p + n * sz)) impl))
  | "fr_sub", [sz, p, n] => some (withOracle (fmtR (PhysFrame.sub sz p n)) (exactOrPanic (if n * sz ≤ p then some (p - n * sz) else none) impl))
  | "fr_subfr", [sz, p, q] => some (withOracle (fmtR (PhysFrame.subFrame sz p q)) (exactOrPanic (if q ≤ p then some ((p - q) / sz) else none) impl))
  | "range", [k, sz, s, e, fuel] =>
    match kindOf k with
    | none => none
    | some kind =>
      let m := fmtRangeRun cfg kind sz { start := s, stop := e } fuel
      let incl := (k == 1 || k == 3)
      let virt := (k == 0 || k == 1)
      let inDomain := if virt then decide (sameHalf s e) else decide (s < 2^52 ∧ e < 2^52)
      let n := lenSpec incl sz s e
      if inDomain && n < fuel then
        let spec := ["len", "ok", toString n, "size", "ok", toString (n * sz),
                     "items", "ok", toString n, toString (listHash (itemsSpec sz s n))]
        some (eqSpec m spec impl)
      else some (withOracle m true)
  | "range4k", [s, e] =>
    let r := Range.as4KiB { start := s, stop := e }
    let m := [toString r.start, toString r.stop] ++ fmtR (Range.size cfg .page size2M { start := s, stop := e }) ++
             fmtR (Range.size cfg .page size4K r)
    let bytes := if s < e then e - s else 0
    let spec := [toString s, toString e, "ok", toString bytes, "ok", toString bytes]
    if decide (sameHalf s e) then some (eqSpec m spec impl) else some (withOracle m true)
  | _, _ => none

/-! ### C05 -/

/-- C05: stepping. Oracle = implementation output equals the contiguous-sequence spec. -/
def handleC05 : Handler := fun _cfg op a impl =>
  match op, a.toList with
  | "va_fwd", [s, n] =>
    some (eqSpec (fmtOpt (VirtAddr.forwardCheckedU64 s n)) (fmtOpt (forwardSpec s n)) impl)
  | "va_bwd", [s, n] =>
    some (eqSpec (fmtOpt (VirtAddr.backwardCheckedU64 s n)) (fmtOpt (backwardSpec s n)) impl)
  | "va_steps", [s, e] =>
    some (eqSpec (fmtPair (VirtAddr.stepsBetweenImpl s e)) (fmtPair (stepsPairSpec 1 s e)) impl)
  | "pg_fwd", [sz, p, n] =>
    some (eqSpec (fmtOpt (Page.forwardChecked sz p n)) (fmtOpt (pageForwardSpec sz p n)) impl)
  | "pg_bwd", [sz, p, n] =>
    some (eqSpec (fmtOpt (Page.backwardChecked sz p n)) (fmtOpt (pageBackwardSpec sz p n)) impl)
  | "pg_steps", [sz, s, e] =>
    some (eqSpec (fmtPair (Page.stepsBetweenImpl sz s e)) (fmtPair (stepsPairSpec sz s e)) impl)
  | "idx_fwd", [i, n] =>
    some (eqSpec (fmtOpt (PageTableIndex.forwardChecked i n)) (fmtOpt (indexForwardSpec i n)) impl)
  | "idx_bwd", [i, n] =>
    some (eqSpec (fmtOpt (PageTableIndex.backwardChecked i n)) (fmtOpt (indexBackwardSpec i n)) impl)
  | "idx_steps", [s, e] =>
    some (eqSpec (fmtPair (PageTableIndex.stepsBetween s e)) (fmtPair (indexStepsSpec s e)) impl)
  | _, _ => none

end X86.Driver
