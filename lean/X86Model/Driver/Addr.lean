/-
Driver handlers for the address/page arithmetic properties (C03–C07).
Each op evaluates the model (Model/Addr.lean, Model/Page.lean) and the spec oracle
(Spec/Canon.lean) the property theorems are stated against.
-/
import X86Model.Driver.Proto
import X86Model.Model.Page
import X86Model.Spec.Canon

namespace X86.Driver
open X86 X86.Spec

/-- C05: stepping. Oracle = implementation output equals the contiguous-sequence spec. -/
def handleC05 : Handler := fun _cfg op a impl =>
  match op, a.toList with
  | "va_fwd", [s, n] =>
    some (eqSpec (fmtOpt (VirtAddr.forwardCheckedU64 s n)) (fmtOpt (forwardSpec s n)) impl)
  | "va_bwd", [s, n] =>
    some (eqSpec (fmtOpt (VirtAddr.backwardCheckedU64 s n)) (fmtOpt (backwardSpec s n)) impl)
  | "va_steps", [s, e] =>
    some (eqSpec (fmtPair (VirtAddr.stepsBetweenImpl s e)) (fmtPair (stepsPairSpec 1 s e)) impl)
  | "pg_fwd", [sz, p, n] =>
    some (eqSpec (fmtOpt (Page.forwardChecked sz p n)) (fmtOpt (pageForwardSpec sz p n)) impl)
  | "pg_bwd", [sz, p, n] =>
    some (eqSpec (fmtOpt (Page.backwardChecked sz p n)) (fmtOpt (pageBackwardSpec sz p n)) impl)
  | "pg_steps", [sz, s, e] =>
    some (eqSpec (fmtPair (Page.stepsBetweenImpl sz s e)) (fmtPair (stepsPairSpec sz s e)) impl)
  | "idx_fwd", [i, n] =>
    some (eqSpec (fmtOpt (PageTableIndex.forwardChecked i n)) (fmtOpt (indexForwardSpec i n)) impl)
  | "idx_bwd", [i, n] =>
    some (eqSpec (fmtOpt (PageTableIndex.backwardChecked i n)) (fmtOpt (indexBackwardSpec i n)) impl)
  | "idx_steps", [s, e] =>
    some (eqSpec (fmtPair (PageTableIndex.stepsBetween s e)) (fmtPair (indexStepsSpec s e)) impl)
  | _, _ => none

end X86.Driver
