/-
Driver handler for C20 (`RecursivePageTable::new`, recursive table addresses).

  rpt_pages <R> <page>            => <p3> <p2> <p1> | panic
  rpt_new <addr> <cr3> <entry>    => ok <R> | err 1 | err 2 | panic
      `entry` is the raw content of slot `p4_index(addr)` of the table at `addr`.

Model: `Model/Recursive.lean`. Oracle: `Spec/Recursive.lean` (`recP3/recP2/recP1`, `newSpec`)
evaluated on the implementation's output.
-/
import X86Model.Driver.Proto
import X86Model.Model.Recursive
import X86Model.Spec.Recursive

namespace X86.Driver
open X86 X86.Spec

def fmtNew : R (Except Recursive.NewErr Nat) → List String
  | .panic => ["panic"]
  | .ok (.ok r) => ["ok", toString r]
  | .ok (.error .notRecursive) => ["err", "1"]
  | .ok (.error .notActive) => ["err", "2"]

def fmtNewSpec : NewOutcome → List String
  | .ok r => ["ok", toString r]
  | .notRecursive => ["err", "1"]
  | .notActive => ["err", "2"]

def handleC20 : Handler := fun _cfg op a impl =>
  match op, a.toList with
  | "rpt_pages", [r, page] =>
    let model := fmtNats [Recursive.p3Page page r, Recursive.p2Page page r, Recursive.p1Page page r]
    let spec := fmtNats [recP3 r page, recP2 r page, recP1 r page]
    -- the three addresses are the recursive index repeated 3/2/1 times followed by the page's
    -- upper indices, sign-extended (canonical) and 4 KiB aligned
    let ok := impl == spec &&
      (impl.all fun t => match t.toNat? with
        | some v => decide (canon v) && v % 4096 == 0
        | none => false)
    some (withOracle model ok)
  | "rpt_new", [addr, cr3, e] =>
    let cr3w := BitVec.ofNat 64 cr3
    let ew := BitVec.ofNat 64 e
    let model := fmtNew (Recursive.new addr cr3w (fun _ => ew))
    some (eqSpec model (fmtNewSpec (newSpec addr cr3w ew)) impl)
  | _, _ => none

end X86.Driver
