/-
Driver handler for C18 (port objects). Line formats (harness/src/c18.rs):
  port_rd <access> <width> <port> <device word> => <n> (x<opcode hex> <dx> <acc>)* ret <value>
  port_wr <access> <width> <port> <value>       => <n> (x<opcode hex> <dx> <acc>)*
  port_eq <width> <p> <q>                       => <0|1>
access: 0 `Port`, 1 `PortReadOnly`, 2 `PortWriteOnly`, 3 a clone of a `Port`, 4 two reads of one `Port` in one
call, 5 a read whose value is discarded. A trailing `stray <n>` = port accesses trapped outside the observed call.
Model output = the model's trace rendered the same way; oracle = `Spec/Port.lean`.
-/
import X86Model.Driver.Proto
import X86Model.Model.Port
import X86Model.Spec.Port

namespace X86.Driver
open X86 X86.Spec X86.Port

def widthOfBits (b : Nat) : Option Width :=
  if b = 8 then some .b8 else if b = 16 then some .b16 else if b = 32 then some .b32 else none

def accessOfNat (a : Nat) : Access :=
  if a = 1 then .readOnly else if a = 2 then .writeOnly else .readWrite

def fmtPortEvs (evs : List PortEv) : List String :=
  toString evs.length :: evs.flatMap fun e => ["x" ++ e.opcode, toString e.dx, toString e.acc]

/-- Parse `(x<hex> <dx> <acc>)*`. -/
def parsePortEvs : List String → Option (List PortEv)
  | [] => some []
  | op :: dx :: acc :: rest =>
    if op.startsWith "x" then
      match dx.toNat?, acc.toNat?, parsePortEvs rest with
      | some d, some a, some es => some (⟨(op.drop 1).toString, d, a⟩ :: es)
      | _, _, _ => none
    else none
  | _ => none

def handleC18 : Handler := fun _cfg op a impl =>
  match op, a.toList with
  | "port_rd", [acc, wb, port, dev] =>
    match widthOfBits wb with
    | none => none
    | some w =>
      let c : Cpu := { Cpu.zero with dev := fun _ _ => BitVec.ofNat 32 dev }
      let p0 := Port.new w (accessOfNat acc) (BitVec.ofNat 16 port)
      let p := if acc = 3 then Port.clone p0 else p0
      -- access 4: two reads of the same port in one call (the second value is returned);
      -- access 5: a read whose value is discarded (the call returns 0)
      let prog : M (BitVec 32) :=
        if acc = 4 then (do let _ ← Port.read p; Port.read p)
        else if acc = 5 then (do let _ ← Port.read p; pure 0#32)
        else Port.read p
      let ran := prog c
      let evs := ran.trace.filterMap (Insn.portEv c)
      let ret := match ran.res with
        | .ok v => ["ret", toString v.toNat]
        | .panic => ["panic"]
      let model := fmtPortEvs evs ++ ret
      -- oracle on the implementation's output
      let ok := match impl with
        | n :: rest =>
          let body := rest.take (rest.length - 2)
          match rest.drop (rest.length - 2), parsePortEvs body with
          | ["ret", v], some es =>
            (n.toNat? == some es.length) && (match v.toNat? with
              | some r =>
                if acc = 4 then
                  (match es with
                   | [e1, e2] => portReadOk w port dev [e1] (dev % 2^w.bits) && portReadOk w port dev [e2] r
                   | _ => false)
                else if acc = 5 then portReadOk w port dev es (dev % 2^w.bits) && r == 0
                else portReadOk w port dev es r
              | none => false)
          | _, _ => false
        | [] => false
      some (withOracle model ok)
  | "port_wr", [acc, wb, port, val] =>
    match widthOfBits wb with
    | none => none
    | some w =>
      let c : Cpu := Cpu.zero
      let p0 := Port.new w (accessOfNat acc) (BitVec.ofNat 16 port)
      let p := if acc = 3 then Port.clone p0 else p0
      let ran := Port.write p (BitVec.ofNat 32 val) c
      let evs := ran.trace.filterMap (Insn.portEv c)
      let model := fmtPortEvs evs ++ (match ran.res with | .ok _ => [] | .panic => ["panic"])
      let ok := match impl with
        | n :: rest =>
          match parsePortEvs rest with
          | some es => (n.toNat? == some es.length) && portWriteOk w port val es
          | none => false
        | [] => false
      some (withOracle model ok)
  | "port_eq", [wb, p, q] =>
    match widthOfBits wb with
    | none => none
    | some w =>
      let m := Port.eq (Port.new w .readWrite (BitVec.ofNat 16 p)) (Port.new w .readWrite (BitVec.ofNat 16 q))
      some (eqSpec (fmtBool m) (fmtBool (p % 65536 == q % 65536)) impl)
  | _, _ => none

end X86.Driver
