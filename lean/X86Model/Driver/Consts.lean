/-
Driver handler for C19: named constants (`const:<Type>:<NAME>`) and the small codecs.
For every op the *model* output is computed from Generated/Consts.lean + Model/Codecs.lean and the
*oracle* is the spec (Spec/ArchTable.lean, Spec/Codecs.lean) evaluated on the implementation's output.
-/
import X86Model.Driver.Proto
import X86Model.Model.Codecs
import X86Model.Spec.ArchTable
import X86Model.Spec.Codecs

namespace X86.Driver
open X86 X86.Spec

private def fmtRBV {w : Nat} (r : R (BitVec w)) : List String :=
  match r with
  | .ok v => ["ok", toString v.toNat]
  | .panic => ["panic"]

private def fmtOptBV {w : Nat} (o : Option (BitVec w)) : List String :=
  match o with
  | some v => ["some", toString v.toNat]
  | none => ["none"]

private def plOfNat? (n : Nat) : Option PrivilegeLevel :=
  match PrivilegeLevel.fromU16 n with
  | .ok p => some p
  | .panic => none

private def darn? (n : Nat) : Option DebugAddressRegisterNumber := DebugAddressRegisterNumber.new n

private def cond? (n : Nat) : Option BreakpointCondition :=
  BreakpointCondition.all.find? (fun c => c.toNat == n)

private def size? (n : Nat) : Option BreakpointSize :=
  BreakpointSize.all.find? (fun c => c.toNat == n)

private def tableCode : DescriptorTable → Nat
  | .gdt => 0
  | .idt => 1
  | .ldt => 2

/-- Field accessors of the model on `m` vs the SDM layout of `e`: `external table index is_null`. -/
private def secFields (m e : BitVec 64) (impl : List String) : Verdict :=
  let tbl := match SelectorErrorCode.descriptorTable m with
    | .ok t => toString (tableCode t)
    | .panic => "panic"
  eqSpec
    (fmtBool (SelectorErrorCode.external m) ++ [tbl] ++ fmtNat (SelectorErrorCode.index m).toNat
      ++ fmtBool (SelectorErrorCode.isNull m))
    (fmtBool (secExt e) ++ fmtNat (secTable e) ++ fmtNat (secIndex e) ++ fmtBool (e == 0)) impl

/-- Number of generated constants the harness can read through the public API. -/
def readableConstCount : Nat := Generated.consts.length - Generated.privateConsts.length

/-- `const:<Type>:<NAME> => v`: model = the value the translator extracted from the source text
(`missing` when it extracted no such constant); oracle = the architectural table has no row for
the constant, or its row has the implementation's value. -/
def handleConst (op : String) (impl : List String) : Option Verdict :=
  match op.splitOn ":" with
  | ["flagcount", ty] =>
    -- model: number of constants the translator found inside the `bitflags!` block of `ty`
    let model := match Generated.flagCounts.lookup ty with
      | some n => [toString n]
      | none => ["missing"]
    some (withOracle model true)
  | ["flag", ty, name] | ["const", ty, name] =>
    let model := match Generated.lookup ty name with
      | some v => [toString v]
      | none => ["missing"]
    let ok := match ArchTable.lookup ty name, impl with
      | none, _ => true
      | some t, [v] => v.toNat? == some t
      | some _, _ => false
    some (withOracle model ok)
  | _ => none

def handleC19 : Handler := fun _cfg op a impl =>
  if op.startsWith "const:" || op.startsWith "flag:" || op.startsWith "flagcount:" then handleConst op impl else
  match op, a.toList with
  | "const_count", [] =>
    some (eqSpec (fmtNat readableConstCount) impl impl)
  -- segment selectors
  | "sel_new", [i, r] =>
    (plOfNat? r).map fun p =>
      eqSpec (fmtNat (SegmentSelector.new (BitVec.ofNat 16 i) p).toNat)
        (fmtNat (selMake (i % 8192) 0 r)) impl
  | "sel_null", [] =>
    some (eqSpec (fmtNat SegmentSelector.null.toNat) (fmtNat (selMake 0 0 0)) impl)
  | "sel_index", [s] =>
    let sv := BitVec.ofNat 16 s
    some (eqSpec (fmtNat (SegmentSelector.index sv).toNat) (fmtNat (selIndex sv)) impl)
  | "sel_rpl", [s] =>
    let sv := BitVec.ofNat 16 s
    some (eqSpec (fmtR ((SegmentSelector.rpl sv).map PrivilegeLevel.toNat)) ["ok", toString (selRpl sv)] impl)
  | "sel_set_rpl", [s, r] =>
    (plOfNat? r).map fun p =>
      let sv := BitVec.ofNat 16 s
      eqSpec (fmtRBV (SegmentSelector.setRpl sv p))
        ["ok", toString (selMake (selIndex sv) (selTI sv) r)] impl
  | "pl_from_u16", [v] =>
    some (eqSpec (fmtR ((PrivilegeLevel.fromU16 v).map PrivilegeLevel.toNat))
      (if isPrivilegeLevel v then ["ok", toString v] else ["panic"]) impl)
  | "pcid_new", [v] =>
    some (eqSpec (fmtOpt (Pcid.new v)) (if isPcid v then ["some", toString v] else ["none"]) impl)
  -- exception vectors, PAT types
  | "ev_try_from", [n] =>
    some (eqSpec (fmtOpt ((ExceptionVector.tryFrom n).map ExceptionVector.toU8))
      (if isExceptionVector n then ["some", toString n] else ["none"]) impl)
  | "pat_from_bits", [n] =>
    some (eqSpec (fmtOpt ((PatMemoryType.fromBits n).map PatMemoryType.bits))
      (if isPatEncoding n then ["some", toString n] else ["none"]) impl)
  -- debug registers
  | "darn_new", [n] =>
    some (eqSpec (fmtOpt ((DebugAddressRegisterNumber.new n).map DebugAddressRegisterNumber.get))
      (if n < 4 then ["some", toString n] else ["none"]) impl)
  | "bc_from_bits", [n] =>
    some (eqSpec (fmtOpt ((BreakpointCondition.fromBits n).map BreakpointCondition.toNat))
      (if n < 4 then ["some", toString n] else ["none"]) impl)
  | "bs_from_bits", [n] =>
    some (eqSpec (fmtOpt ((BreakpointSize.fromBits n).map BreakpointSize.toNat))
      (if n < 4 then ["some", toString n] else ["none"]) impl)
  | "bs_new", [n] =>
    -- spec: the LEN encoding whose byte count is n
    let spec := ((List.range 4).find? (fun e => lenBytes e == some n))
    some (eqSpec (fmtOpt ((BreakpointSize.new n).map BreakpointSize.toNat)) (fmtOpt spec) impl)
  | "dr6_trap", [n] =>
    (darn? n).map fun r => eqSpec (fmtNat (Dr6Flags.trap r).toNat) (fmtNat (dr6B n)) impl
  | "dr7_lbe", [n] =>
    (darn? n).map fun r => eqSpec (fmtNat (Dr7Flags.localBreakpointEnable r).toNat) (fmtNat (dr7L n)) impl
  | "dr7_gbe", [n] =>
    (darn? n).map fun r => eqSpec (fmtNat (Dr7Flags.globalBreakpointEnable r).toNat) (fmtNat (dr7G n)) impl
  | "dr7_from_bits", [b] =>
    let bv := BitVec.ofNat 64 b
    some (eqSpec (fmtOptBV (Dr7Value.fromBits bv))
      (if bv &&& ~~~dr7DefinedMask == 0 then ["some", toString b] else ["none"]) impl)
  | "dr7_truncate", [b] =>
    let bv := BitVec.ofNat 64 b
    some (eqSpec (fmtNat (Dr7Value.fromBitsTruncate bv).toNat) (fmtNat (bv &&& dr7DefinedMask).toNat) impl)
  | "dr7_flags", [b] =>
    let bv := BitVec.ofNat 64 b
    some (eqSpec (fmtNat (Dr7Value.flags bv).toNat) (fmtNat (bv &&& dr7FlagMask).toNat) impl)
  | "dr7_cond", [b, n] =>
    (darn? n).map fun r =>
      let bv := BitVec.ofNat 64 b
      eqSpec (fmtR ((Dr7Value.condition bv r).map BreakpointCondition.toNat)) ["ok", toString (dr7RW bv n)] impl
  | "dr7_size", [b, n] =>
    (darn? n).map fun r =>
      let bv := BitVec.ofNat 64 b
      eqSpec (fmtR ((Dr7Value.size bv r).map BreakpointSize.toNat)) ["ok", toString (dr7LEN bv n)] impl
  | "dr7_set_cond", [b, n, c] =>
    match darn? n, cond? c with
    | some r, some cc =>
      let bv := BitVec.ofNat 64 b
      let ok := match impl with
        | [v] => match v.toNat? with
          | some x => isFieldUpdate bv (BitVec.ofNat 64 x) (dr7RWLsb n) 2 c
          | none => false
        | _ => false
      some (withOracle (match Dr7Value.setCondition bv r cc with
        | .ok v => fmtNat v.toNat
        | .panic => ["panic"]) ok)
    | _, _ => none
  | "dr7_set_size", [b, n, s] =>
    match darn? n, size? s with
    | some r, some ss =>
      let bv := BitVec.ofNat 64 b
      let ok := match impl with
        | [v] => match v.toNat? with
          | some x => isFieldUpdate bv (BitVec.ofNat 64 x) (dr7LENLsb n) 2 s
          | none => false
        | _ => false
      some (withOracle (match Dr7Value.setSize bv r ss with
        | .ok v => fmtNat v.toNat
        | .panic => ["panic"]) ok)
    | _, _ => none
  | "dr7_insert", [b, f] =>
    let bv := BitVec.ofNat 64 b
    let fv := BitVec.ofNat 64 f
    some (eqSpec (fmtNat (Dr7Value.insertFlags bv fv).toNat) (fmtNat (b ||| f)) impl)
  | "dr7_remove", [b, f] =>
    let bv := BitVec.ofNat 64 b
    let fv := BitVec.ofNat 64 f
    some (eqSpec (fmtNat (Dr7Value.removeFlags bv fv).toNat) (fmtNat (b - (b &&& f))) impl)
  | "dr7_toggle", [b, f] =>
    let bv := BitVec.ofNat 64 b
    let fv := BitVec.ofNat 64 f
    some (eqSpec (fmtNat (Dr7Value.toggleFlags bv fv).toNat) (fmtNat (b ^^^ f)) impl)
  -- selector error codes
  | "sec_new", [v] =>
    some (eqSpec (fmtOptBV (SelectorErrorCode.new (BitVec.ofNat 64 v)))
      (if v < 65536 then ["some", toString v] else ["none"]) impl)
  | "sec_trunc", [v] =>
    some (secFields (SelectorErrorCode.newTruncate (BitVec.ofNat 64 v)) (BitVec.ofNat 64 (v % 65536)) impl)
  | "sec_fields", [v] =>
    some (secFields (BitVec.ofNat 64 v) (BitVec.ofNat 64 v) impl)
  | _, _ => none

end X86.Driver
