/-
Driver handler for C13 (`set_general_handler!`). Line formats (harness/src/c13.rs):

  gh_frame:<field>                 => <byte offset> <size>            public fields of InterruptStackFrameValue
  gh_frame_size                    => <size of value> <size of wrapper>
  gh_field:<field>                 => <byte offset> <size> <kind>     public fields of InterruptDescriptorTable
                                      kind: 1 error code | 2 typed error code | 4 diverging (from the field's type)
  gh_field_count                   => <number of fields the translator found>
  gh_index <v>                     => ok <byte offset> | panic        `&mut idt[v]`
  gh_gate <lo> <hi>                => <present> <offset>              the harness' gate decoder on random words
  gh_ref <form> <lit>              => ok <intervals> | panic          present entries after the covering call
  gh_install <form> <lo> <hi> <pre> => ok <installed> <damaged> [<present>] | panic
                                      pre = 0: fresh `new()` table (present set printed), else random bytes
  gh_deliver <form> <v> <leave> <haserr> <err> <pad> <flags> <rsp> <gap> <cs> <ss>
                                   => resumed <pad> <rsp> <flags> <calls> <index> (none | some <e>) <rip> <cs> <flags> <rsp> <ss>
                                    | crash <code> <calls> ...
  gh_divret <v>                    => panicked | returned | died      diverging stub, general handler returns

<intervals> = <k> (<a> <b>)*k : maximal runs of vectors. form: see `Spec.Exc.formContains`.
Instruction pointers are relative to the landing-pad base (pad k = 8·k), stack pointers are
`anchor - value` (deliver.rs), so lines replay bit for bit.

Model output: Model/GeneralHandler.lean run on the generated tables. Oracle: Spec/ExceptionTable.lean
evaluated on the implementation's output.
-/
import X86Model.Driver.Proto
import X86Model.Model.GeneralHandler
import X86Model.Spec.ExceptionTable

namespace X86.Driver
open X86 X86.GH X86.Spec.Exc

/-- Maximal runs of `v < 256` satisfying `p`, as protocol tokens. -/
def ghIntervals (p : Nat → Bool) : List String :=
  let rec go (fuel v : Nat) (start : Option Nat) (acc : List (Nat × Nat)) : List (Nat × Nat) :=
    match fuel with
    | 0 => (match start with | some a => (a, v - 1) :: acc | none => acc)
    | fuel + 1 =>
      if p v then go fuel (v + 1) (some (start.getD v)) acc
      else go fuel (v + 1) none (match start with | some a => (a, v - 1) :: acc | none => acc)
  let runs := (go 256 0 none []).reverse
  toString runs.length :: runs.flatMap (fun r => [toString r.1, toString r.2])

def ghRange (form lo hi : Nat) : Option Form :=
  match form with
  | 0 => some .whole
  | 1 => some (.single lo)
  | 2 => some (.range (.excl lo hi))
  | 3 => some (.range (.incl lo hi))
  | 4 => some (.range (.from lo))
  | 5 => some (.range (.to hi))
  | 6 => some (.range (.toIncl hi))
  | 7 => some (.range .full)
  | _ => none

/-- Bounds of the covering call the harness uses to learn a site's stubs. -/
def ghCover (form lit : Nat) : Nat × Nat := if form == 1 then (lit, lit) else (0, 255)

def ghInstalled (t : Delta) (v : Nat) : Bool :=
  match t[v]? with
  | some (some _) => true
  | _ => false

/-- Spec: name of a public frame field ↦ (offset, size) of the hardware slot it must cover. -/
def ghFrameSlot (name : String) : Option (Nat × Nat) :=
  if name == "instruction_pointer" then some (offRIP, 8)
  else if name == "code_segment" then some (offCS, 2)
  else if name == "cpu_flags" then some (offRFLAGS, 8)
  else if name == "stack_pointer" then some (offRSP, 8)
  else if name == "stack_segment" then some (offSS, 2)
  else none

/-- Spec: a field of `size/16` entries at `off`, whose handler type has `kind`, is acceptable when
every entry it covers is a vector whose delivery matches the type. -/
def ghFieldOk (off size kind : Nat) : Bool :=
  off % 16 == 0 && size % 16 == 0 && size > 0 &&
  (List.range (size / 16)).all (fun k =>
    let v := off / 16 + k
    v < 256 &&
    ((kind % 2 == 1) == pushesErrorCode v) &&
    ((kind / 4 % 2 == 1) == isAbort v) &&
    (kind / 2 % 2 == 0 || v == 14))

def fmtErr (e : Option Nat) : List String :=
  match e with
  | some v => ["some", toString v]
  | none => ["none"]

/-- Tokens of a delivery that resumed. Instruction pointers are `8·pad`. -/
def fmtDelivery (rep : Report) (r : Resume) : List String :=
  ["resumed", (if r.rip % 8 == 0 then toString (r.rip / 8) else "off-pad"), toString r.rsp, toString r.rflags,
   "1", toString rep.index] ++ fmtErr rep.err ++
  [toString rep.frame.rip, toString rep.frame.cs, toString rep.frame.rflags, toString rep.frame.rsp,
   toString rep.frame.ss]

def handleGhNamed (op : String) (impl : List String) : Option Verdict :=
  match op.splitOn ":" with
  | ["gh_frame", name] =>
    let model := match fieldAt name with
      | some (off, size) => [toString off, toString size]
      | none => ["missing"]
    let ok := match ghFrameSlot name, impl with
      | none, _ => true
      | some (off, size), [o, s] => o.toNat? == some off && s.toNat? == some size
      | some _, _ => false
    some { model := model, oracleOk := ok, why := "frame field not on its hardware slot" }
  | ["gh_field", name] =>
    let model := match fieldSlot name, fieldInfo name with
      | some s, some (ty, len) =>
        [toString (16 * s), toString (16 * len),
         match handlerType ty with | some k => toString (kindNumber k) | none => "unknown-type"]
      | _, _ => ["missing"]
    let ok := match impl.map String.toNat? with
      | [some off, some size, some kind] => ghFieldOk off size kind
      | _ => false
    some { model := model, oracleOk := ok, why := "field's handler type does not fit the vector at its offset" }
  | _ => none

def handleC13 : Handler := fun _cfg op a impl =>
  if op.startsWith "gh_frame:" || op.startsWith "gh_field:" then handleGhNamed op impl else
  match op, a.toList with
  | "gh_frame_size", [] =>
    let tr := Generated.GH.frameWrapperTransparent
    some { model := [toString frameValueSize, if tr then toString frameValueSize else "unknown"],
           oracleOk := impl == [toString frameBytes, toString frameBytes],
           why := "frame value is not exactly the 40-byte hardware frame" }
  | "gh_field_count", [] =>
    some (withOracle [toString Generated.GH.idtFields.length] true)
  | "gh_index", [v] =>
    let model := match indexMut v with
      | .ok s => ["ok", toString (16 * s)]
      | .panic => ["panic"]
    let ok := match impl with
      | ["ok", off] => off.toNat? == some (16 * v) && !pushesErrorCode v && !isAbort v
      | ["panic"] => true
      | _ => false
    some { model := model, oracleOk := ok, why := "idt[v] is not the plain-handler entry at 16·v" }
  | "gh_gate", [lo, hi] =>
    let spec := [if gatePresent lo then "1" else "0", toString (gateOffset lo hi)]
    some (eqSpec spec spec impl)
  | "gh_ref", [form, lit] =>
    let (lo, hi) := ghCover form lit
    match ghRange form lo hi with
    | none => none
    | some f =>
      let model := match installForm f with
        | .ok t => "ok" :: ghIntervals (ghInstalled t)
        | .panic => ["panic"]
      let spec := "ok" :: ghIntervals (mustInstall (formContains form lo hi))
      some { model := model, oracleOk := impl == spec, why := "present set ≠ non-reserved vectors of the covering range" }
  | "gh_install", [form, lo, hi, pre] =>
    match ghRange form lo hi with
    | none => none
    | some f =>
      let model := match installForm f with
        | .ok t =>
          let inst := ghIntervals (ghInstalled t)
          "ok" :: inst ++ ["0"] ++ (if pre == 0 then inst else [])
        | .panic => ["panic"]
      let want := ghIntervals (mustInstall (formContains form lo hi))
      let spec := "ok" :: want ++ ["0"] ++ (if pre == 0 then want else [])
      some { model := model, oracleOk := impl == spec,
             why := "installed ≠ in-range non-reserved vectors, or an entry outside was changed" }
  | "gh_deliver", [form, v, leave, haserr, err, pad, flags, rsp, _gap, cs, ss] =>
    -- the stack image the simulated CPU pushed (top of stack first)
    let frame : Frame := ⟨8 * pad, cs, flags, rsp, ss⟩
    let stack := pushed frame (if haserr == 1 then some err else none)
    let (lo, hi) := ghCover form v
    let model := match (ghRange form lo hi).map installForm with
      | some (.ok t) =>
        match t[v]? with
        | some (some stub) =>
          match stub.deliver stack (leave == 1) with
          | some (rep, .resumed r) => fmtDelivery rep r
          | some (rep, .panicked) => ["crash", "1000", "1", toString rep.index]
          | some (_, .stuck) => ["crash", "stuck"]
          | none => ["crash", "short-stack"]
        | _ => ["not-installed"]
      | _ => ["panic"]
    -- oracle: the simulated CPU pushed what the architecture says, and the handler saw / the
    -- interrupted program continued as the architecture requires
    let rep := expectedReport v frame err
    let res := expectedResume frame
    let hwOk := (haserr == 1) == pushesErrorCode v
    let ok := match impl with
      | "resumed" :: lpad :: lrsp :: lflags :: rest =>
        hwOk && rest == (fmtDelivery rep res).drop 4 &&
        lpad.toNat? == some pad && lrsp.toNat? == some res.rsp &&
        (match lflags.toNat? with | some fl => flagsAgree fl res.rflags | none => false)
      | _ => false
    some { model := model, oracleOk := ok,
           why := if hwOk then "general handler's arguments or the resume state differ from the pushed frame"
                  else "harness pushed an error code against the architectural table" }
  | "gh_divret", [v] =>
    let model := match installForm .whole with
      | .ok t =>
        match t[v]? with
        | some (some stub) =>
          if stub.panicsAfter then ["panicked"] else if stub.diverging then ["died"] else ["returned"]
        | _ => ["not-installed"]
      | .panic => ["panic"]
    some { model := model, oracleOk := !isAbort v || impl != ["returned"],
           why := "an abort vector's stub returned to the interrupted program" }
  | _, _ => none

end X86.Driver
