/-
Shared body of the `driver` executables: reads harness lines on stdin, evaluates model + spec oracle (see
X86Model/Driver/Proto.lean). The handler chain tries each property family in turn.
-/
import X86Model.Driver.Proto
import X86Model.Driver.Addr
import X86Model.Driver.Consts
import X86Model.Driver.Mapper
import X86Model.Driver.Entry
import X86Model.Driver.Gdt
import X86Model.Driver.Port
import X86Model.Driver.Interrupts
import X86Model.Driver.Regs
import X86Model.Driver.Tlb
import X86Model.Driver.Recursive
import X86Model.Driver.Idt
import X86Model.Driver.GeneralHandler

open X86 X86.Driver

/-- Driver state carried from line to line. -/
structure DState where
  mapper : MState := {}

def statelessHandlers : List Handler := [handleC03, handleC04, handleC05, handleC06, handleC07, handleC19, handleC08, handleC15, handleC14, handleC18, handleC17, handleC16, handleC11, handleC20, handleC12, handleC13]

/-- The third voice: output of the definitions generated from the source for a protocol line, if any. -/
abbrev SrcVoice := Cfg → String → Array Nat → Option (List String)

def dispatch (src : SrcVoice) : SHandler DState := fun cfg op a impl st =>
  match statelessHandlers.firstM (fun h => h cfg op a impl) with
  | some v =>
    -- third voice: the definitions generated from the Rust source (translator/gen_fns.py) on the same line
    -- (switched off while some function is outside the translator's subset: its stub would only add noise;
    -- the broken tie is reported by run.py);
    -- a difference from the implementation is reported as a disagreement whose model output starts with `src`
    match src cfg op a with
    | some t =>
      if t != impl && v.model == impl then some ({ v with model := "src" :: t, srcChecked := true }, st)
      else some ({ v with srcChecked := true }, st)
    | none => some (v, st)
  | none =>
    match handleMapper cfg op a impl st.mapper with
    | some (v, m) => some (v, { st with mapper := m })
    | none => none

def mainWith (src : SrcVoice) : IO UInt32 := run (dispatch src) ({} : DState)
