/-
Driver handler for C12 (IDT). Model: Model/Idt.lean over Generated/IdtTables.lean.
Oracle: Spec/Gate.lean (gate decoder, vector table, range meaning, IDTR limit) evaluated on the
implementation's output (pointer offsets, raw chunks of the table, raw entry bytes, `lidt` operand).
Line formats: harness/src/c12.rs.
-/
import X86Model.Driver.Proto
import X86Model.Driver.Trap
import X86Model.Model.Idt
import X86Model.Spec.Gate

namespace X86.Driver
open X86 X86.Spec

namespace IdtD

def lo64 (w : BitVec 128) : Nat := (w.extractLsb' 0 64).toNat
def hi64 (w : BitVec 128) : Nat := (w.extractLsb' 64 64).toNat
def ofWords (lo hi : Nat) : BitVec 128 := gateOfWords (BitVec.ofNat 64 lo) (BitVec.ofNat 64 hi)

/-- (start kind, end kind) of a range form, as in `c12.rs::form_kinds`: 0 Included, 1 Excluded, 2 Unbounded. -/
def formKinds (form : Nat) : Nat × Nat :=
  if form < 18 then ((form % 9) / 3, (form % 9) % 3)
  else match form with
    | 18 | 19 => (0, 1)
    | 20 | 21 => (0, 2)
    | 22 | 23 => (0, 0)
    | 24 | 25 => (2, 1)
    | 26 | 27 => (2, 0)
    | _ => (2, 2)

def mkBound (kind v : Nat) : Bound :=
  match kind with
  | 0 => .included v
  | 1 => .excluded v
  | _ => .unbounded

def bounds (form lo hi : Nat) : Bound × Bound :=
  let k := formKinds form
  (mkBound k.1 lo, mkBound k.2 hi)

/-- The fill pattern of chunk `j` (`c12.rs::pattern`). -/
def pattern (seed j : Nat) : BitVec 128 :=
  ofWords ((seed * 0x9e3779b97f4a7c15 + j * 0x0123456789abcdef) % 2^64)
          ((seed * 0xbf58476d1ce4e5b9 + j * 0xfedcba9876543211) % 2^64)

def reasonTok : Option Refusal → String
  | some .reserved => "reserved"
  | some .errorCode => "errorcode"
  | some .diverging => "diverging"
  | none => "other"

/-- Where the model's access path arrives: an entry at a byte offset, an empty range starting at a byte
offset, or a panic (with the reason token printed for `idt[v]`). -/
inductive Reach where
  | at (off : Nat)
  | empty (off : Nat)
  | panic (tok : List String)

def modelReach (cfg : Cfg) (kind : Nat) (p : Array Nat) : Reach :=
  match kind with
  | 0 | 3 =>
    match Idt.fieldOffset p[0]! with
    | some off => .at off
    | none => .panic ["p", "other"]
  | 1 =>
    let arms := if p[1]! == 0 then Generated.Idt.indexArms else Generated.Idt.indexMutArms
    match Idt.indexWith arms p[0]! with
    | .ok off => .at off
    | .panic =>
      let why := match Idt.lookupArm arms p[0]! with
        | some (.panic _ why) => reasonTok (Idt.refusalOfReason why)
        | _ => "other"
      .panic ["p", why]
  | _ =>
    let b := bounds p[0]! p[2]! p[3]!
    let r := if p[1]! == 0 || p[1]! == 2 then Idt.slice cfg b.1 b.2 else Idt.sliceMut cfg b.1 b.2
    match r with
    | .ok (off, n) => if p[4]! < n then .at (off + p[4]! * Idt.entrySize) else .empty off
    | .panic => .panic ["p"]

/-- What the architecture + the meaning of the path require: `some (some v)` = the entry of vector `v`,
`some none` = an empty range / nothing to reach at byte `16·first` (carried separately), `none` = refusal. -/
inductive Want where
  | vector (v : Nat)
  | empty (first : Nat)
  | refuse
  | unknown

def specWant (kind : Nat) (p : Array Nat) : Want :=
  match kind with
  | 0 | 3 =>
    match Generated.Idt.fields[p[0]!]? with
    | some f => match vectorOfName f.name with | some v => .vector v | none => .unknown
    | none => .unknown
  | 1 => if indexRefused p[0]! then .refuse else .vector p[0]!
  | _ =>
    let b := bounds p[0]! p[2]! p[3]!
    match rangeSpec b.1 b.2 with
    | some (first, cnt) => if p[4]! < cnt then .vector (first + p[4]!) else .empty first
    | none => .refuse

def nat? (s : String) : Option Nat := s.toNat?

def fmtEntry (e : Idt.Entry) : List String := [toString (lo64 e.toBits), toString (hi64 e.toBits)]

def opOf (kind arg cs : Nat) : Option (Idt.Op × GateOp) :=
  match kind with
  | 0 => some (.setHandlerAddr (BitVec.ofNat 64 arg) (BitVec.ofNat 16 cs), .handler (BitVec.ofNat 64 arg) (BitVec.ofNat 16 cs))
  | 1 => some (.setPresent (arg != 0), .present (arg != 0))
  | 2 => some (.disableInterrupts (arg != 0), .disableInterrupts (arg != 0))
  | 3 => some (.setPrivilegeLevel (BitVec.ofNat 2 arg), .privilegeLevel (BitVec.ofNat 2 arg))
  | 4 => some (.setStackIndex (BitVec.ofNat 16 arg), .stackIndex arg)
  | 5 => some (.setCodeSelector (BitVec.ofNat 16 arg), .codeSelector (BitVec.ofNat 16 arg))
  | _ => none

def parseOps (cs : Nat) : List Nat → Option (List (Idt.Op × GateOp))
  | [] => some []
  | k :: a :: rest =>
    match opOf k a cs, parseOps cs rest with
    | some o, some os => some (o :: os)
    | _, _ => none
  | _ => none

def opText : GateOp → String
  | .handler a cs => s!"set_handler_addr({a.toNat}) with CS={cs.toNat}"
  | .present b => s!"set_present({b})"
  | .disableInterrupts b => s!"disable_interrupts({b})"
  | .privilegeLevel d => s!"set_privilege_level({d.toNat})"
  | .stackIndex i => s!"set_stack_index({i})"
  | .codeSelector c => s!"set_code_selector({c.toNat})"

/-- Oracle for an entry history: after every call the raw bytes decode to the gate the architecture-level
operation gives (or, for an inexpressible request, the call is refused and the bytes decode as before).
`none` = holds; `some text` = the first step at which it does not. -/
def oracleSteps (i : Nat) (g : GateFields) : List GateOp → List String → Option String
  | [], ["a", addr] =>
    if nat? addr == some (canon48 g.offset).toNat then none
    else some "handler_addr() at the end is not the gate's offset"
  | [], _ => some "unparsable"
  | op :: ops, st :: lo :: hi :: rest =>
    match nat? lo, nat? hi with
    | some l, some h =>
      let d := decodeGate (ofWords l h)
      match g.apply op with
      | some g' =>
        if st != "s" then some s!"step {i}: {opText op} panicked"
        else if !decide (d = g') then some s!"step {i}: after {opText op} the entry does not decode to the gate with exactly that field changed"
        else oracleSteps (i + 1) g' ops rest
      | none =>
        -- an inexpressible request (IST index above 6) is outside the property's quantifier: a refusal must
        -- leave the entry as it was; if the call was accepted (release builds wrap `65535 + 1` to 0) the
        -- history simply continues from the gate that is now encoded
        if st == "p" then
          if !decide (d = g) then some s!"step {i}: refused {opText op} changed the entry"
          else oracleSteps (i + 1) g ops rest
        else oracleSteps (i + 1) d ops rest
    | _, _ => some "unparsable"
  | _ :: _, _ => some "unparsable"

end IdtD

open IdtD in
def handleC12 : Handler := fun cfg op a impl =>
  match op with
  | "idt_layout" =>
    let optsSize := (Idt.optsLayout.map (·.size)).getD 0
    let tAlign := (Idt.tableLayout.map (·.align)).getD 0
    let selSize := ((Idt.primLayout "SegmentSelector").map (·.1)).getD 0
    let model := fmtNats [Idt.tableSize, tAlign, Idt.entrySize, Idt.entryAlign, optsSize, selSize]
    let ok := match impl with
      | ts :: _ :: es :: _ => ts == toString (IDT_LIMIT + 1) && es == toString IDT_GATE_BYTES
      | _ => false
    some { model := model, oracleOk := ok, why := "table must be 4096 bytes of 16-byte gates" }
  | "idt_field" =>
    if a.size != 1 then none else
    let k := a[0]!
    let model := match Idt.fieldOffset k with
      | some off => fmtNats [off, Idt.entrySize * Idt.fieldLen k]
      | none => ["none"]
    let ok := match Generated.Idt.fields[k]? with
      | some f =>
        match vectorOfName f.name with
        | some v => impl == fmtNats [gateByteOffset v, IDT_GATE_BYTES]
        | none => true
      | none => false
    some { model := model, oracleOk := ok, why := "named field must be the gate of its vector (16·v, 16 bytes)" }
  | "idt_missing" =>
    let e := Idt.Entry.missing
    let model := fmtEntry e ++ [toString e.handlerAddr.toNat, toString Idt.entrySize]
    let ok := match impl.map nat? with
      | [some l, some h, some ad, some sz] =>
        decide (decodeGate (ofWords l h) = missingGate) && ad == 0 && sz == IDT_GATE_BYTES
      | _ => false
    some { model := model, oracleOk := ok, why := "missing() must be a non-present interrupt gate, all else zero" }
  | "idt_new" =>
    let t := Idt.Table.new
    let img := t.image
    let first := img.headD 0#128
    let model := fmtNats [img.length, (img.eraseDups).length, lo64 first, hi64 first]
    let ok := match impl.map nat? with
      | [some n, some d, some l, some h] =>
        n == IDT_VECTORS && d == 1 && decide (decodeGate (ofWords l h) = missingGate)
      | _ => false
    some { model := model, oracleOk := ok, why := "new()/reset() must be 256 missing gates" }
  | "idt_wr" =>
    if a.size != 8 then none else
    let kind := a[0]!
    let p := a.extract 1 6
    let addr := a[6]!
    let cs := a[7]!
    let model := match modelReach cfg kind p with
      | .panic t => t
      | .empty off => ["e", toString off]
      | .at off =>
        match Idt.Entry.missing.setHandlerAddr cfg (BitVec.ofNat 64 addr) (BitVec.ofNat 16 cs) with
        | .ok e => ["w", toString off, "1", toString off] ++ fmtEntry e ++ [toString e.handlerAddr.toNat]
        | .panic => ["p"]
    let (ok, why) := match specWant kind p, impl with
      | .vector v, ["w", po, n, off, lo, hi, back] =>
        match nat? po, nat? n, nat? off, nat? lo, nat? hi, nat? back with
        | some po, some n, some off, some l, some h, some back =>
          if po != gateByteOffset v then (false, s!"reference points at byte {po}, the gate of vector {v} is at {gateByteOffset v}")
          else if n != 1 || off != gateByteOffset v then (false, s!"write changed {n} chunk(s), first at byte {off}; expected exactly the gate at {gateByteOffset v}")
          else if !decide (decodeGate (ofWords l h) = expectedGate (BitVec.ofNat 64 addr) (BitVec.ofNat 16 cs)) then
            (false, "gate does not decode to (handler address, CS, present, interrupt gate, ring 0, IST 0, reserved 0)")
          else if back != (canon48 (BitVec.ofNat 64 addr)).toNat then (false, "handler_addr() does not read back the address")
          else (true, "")
        | _, _, _, _, _, _ => (false, "unparsable")
      | .vector v, _ => (false, s!"vector {v} must be reachable")
      | .empty first, ["e", po] => (nat? po == some (gateByteOffset first), "empty range must start at its first vector")
      | .empty _, _ => (false, "empty range expected")
      | .refuse, "p" :: _ => (true, "")
      | .refuse, _ => (false, "this access must be refused")
      | .unknown, _ => (true, "")
    some { model := model, oracleOk := ok, why := why }
  | "idt_rd" =>
    if a.size != 7 then none else
    let kind := a[0]!
    let p := a.extract 1 6
    let seed := a[6]!
    let model := match modelReach cfg kind p with
      | .panic t => t
      | .empty off => ["e", toString off]
      | .at off =>
        let e := Idt.Entry.ofBits (pattern seed (off / 16))
        ["r", toString off, toString e.handlerAddr.toNat]
    let (ok, why) := match specWant kind p, impl with
      | .vector v, ["r", po, back] =>
        match nat? po, nat? back with
        | some po, some back =>
          if po != gateByteOffset v then (false, s!"reference points at byte {po}, the gate of vector {v} is at {gateByteOffset v}")
          else if back != (canon48 (decodeGate (pattern seed v)).offset).toNat then
            (false, s!"handler_addr() is not the offset field of the gate of vector {v}")
          else (true, "")
        | _, _ => (false, "unparsable")
      | .vector v, _ => (false, s!"vector {v} must be reachable")
      | .empty first, ["e", po] => (nat? po == some (gateByteOffset first), "empty range must start at its first vector")
      | .empty _, _ => (false, "empty range expected")
      | .refuse, "p" :: _ => (true, "")
      | .refuse, _ => (false, "this access must be refused")
      | .unknown, _ => (true, "")
    some { model := model, oracleOk := ok, why := why }
  | "idt_range" =>
    if a.size != 4 then none else
    let b := bounds a[0]! a[2]! a[3]!
    let r := if a[1]! == 0 || a[1]! == 2 then Idt.slice cfg b.1 b.2 else Idt.sliceMut cfg b.1 b.2
    let model := match r with
      | .ok (off, n) => ["s", toString off, toString n]
      | .panic => ["p"]
    let spec := match rangeSpec b.1 b.2 with
      | some (first, cnt) => ["s", toString (gateByteOffset first), toString cnt]
      | none => ["p"]
    some { model := model, oracleOk := impl == spec,
           why := "range must be refused below vector 32 / when inverted, else cover the gates first..end" }
  | "idt_entry" =>
    match a.toList with
    | cs :: n :: rest =>
      match parseOps cs rest with
      | some ops =>
        if ops.length != n then none else
        let steps := Idt.Entry.run cfg Idt.Entry.missing (ops.map (·.1))
        let fin := Idt.Entry.final cfg Idt.Entry.missing (ops.map (·.1))
        let model := steps.flatMap (fun s => (if s.1 then "s" else "p") :: fmtEntry s.2)
          ++ ["a", toString fin.handlerAddr.toNat]
        let verdict := oracleSteps 1 missingGate (ops.map (·.2)) impl
        some { model := model, oracleOk := verdict.isNone, why := verdict.getD "" }
      | none => none
    | _ => none
  | "idt_load" =>
    if a.size != 2 then none else
    let base := a[1]!
    let ran := Idt.load cfg base Cpu.zero
    let toks := fmtTrapped Cpu.zero ran.trace
    let model := toString (observeTrapped Cpu.zero ran.trace).length :: toks
      ++ (match ran.res with | .ok _ => [] | .panic => ["panic"])
    some { model := model, oracleOk := impl == ["1", "lidt", toString IDT_LIMIT, toString base],
           why := "load must execute one lidt with limit 4095 and the table's own address" }
  | _ => none

end X86.Driver
