/-
Third voice of the correspondence check for C03–C07: the definitions *generated from the Rust source*
(`Generated/SrcFns.lean`) are evaluated on the same protocol lines as the hand-written models, and their
output is compared with the implementation's. This validates the function translator (`translator/gen_fns.py`,
`Base/Rust.lean`) the same way the hand-written models are validated: a semantic mistake of the translator
shows up as a disagreement `src …` on some line.

`srcOut cfg op args` returns the generated definitions' output in the implementation's token format, or `none`
for ops without a direct generated counterpart (operation programs, IDT/entry helpers).
-/
import X86Model.Driver.Proto
import X86Model.Generated.SrcFns

namespace X86.Driver
open X86 X86.Generated

private def b64 (n : Nat) : BitVec 64 := BitVec.ofNat 64 n
private def b16 (n : Nat) : BitVec 16 := BitVec.ofNat 16 n
private def b8 (n : Nat) : BitVec 8 := BitVec.ofNat 8 n

/-- a value that cannot panic in the source: a panic of the generated definition is printed as such -/
private def sVal {w} (r : R (BitVec w)) : List String :=
  match r with
  | .ok v => [toString v.toNat]
  | .panic => ["panic"]

private def sR {w} (r : R (BitVec w)) : List String :=
  match r with
  | .ok v => ["ok", toString v.toNat]
  | .panic => ["panic"]

private def sRBool (r : R Bool) : List String :=
  match r with
  | .ok v => ["ok", if v then "1" else "0"]
  | .panic => ["panic"]

private def sOpt {w} (r : R (Option (BitVec w))) : List String :=
  match r with
  | .ok (some v) => ["some", toString v.toNat]
  | .ok none => ["none"]
  | .panic => ["panic"]

private def sRes {w} (r : R (Except Unit (BitVec w))) : List String :=
  match r with
  | .ok (.ok v) => ["some", toString v.toNat]
  | .ok (.error _) => ["none"]
  | .panic => ["panic"]

private def sPair (r : R (BitVec 64 × Option (BitVec 64))) : List String :=
  match r with
  | .ok (n, some v) => [toString n.toNat, "some", toString v.toNat]
  | .ok (n, none) => [toString n.toNat, "none"]
  | .panic => ["panic"]

/-- one step of `Spec.listHash` (order-sensitive checksum of the item list) -/
private def hashStep (h x : Nat) : Nat := (h * 1000003 + x + 1) % 2^64

/-- Drive a generated `next` to the end: (count, hash), `none` when `fuel` is exhausted, `panic` on a panic. -/
private def srcCollect (next : BitVec 64 × BitVec 64 → R (Option (BitVec 64) × (BitVec 64 × BitVec 64))) :
    Nat → BitVec 64 × BitVec 64 → Nat → Nat → Option (R (Nat × Nat))
  | 0, _, _, _ => none
  | fuel + 1, r, cnt, h =>
    match next r with
    | .panic => some .panic
    | .ok (none, _) => some (.ok (cnt, h))
    | .ok (some x, r') => srcCollect next fuel r' (cnt + 1) (hashStep h x.toNat)

/-- C08: what the generated getters report about entry `e`: `raw addr flags unused frame|n`
(a panicking getter is printed as `panic`). -/
private def srcObserve (cfg : Cfg) (e : BitVec 64) : List String :=
  [toString e.toNat] ++ sVal (Src.PageTableEntry_addr cfg e) ++ sVal (Src.PageTableEntry_flags cfg e)
    ++ (match Src.PageTableEntry_is_unused cfg e with | .ok b => [if b then "1" else "0"] | .panic => ["panic"])
    ++ (match Src.PageTableEntry_frame cfg e with
        | .ok (.ok f) => [toString f.toNat] | .ok (.error _) => ["n"] | .panic => ["panic"])

/-- C12: the erased `Entry<F>` of the translator: (pointer_low, (cs, bits), pointer_middle, pointer_high, reserved). -/
private abbrev SEntry := BitVec 16 × (BitVec 16 × BitVec 16) × BitVec 16 × BitVec 32 × BitVec 32

/-- the two little-endian words of the `repr(C)` image of an entry (field offsets 0, 2, 4, 6, 8, 12) -/
private def sEntryWords (e : SEntry) : List String :=
  let lo := e.1.toNat + e.2.1.1.toNat * 2^16 + e.2.1.2.toNat * 2^32 + e.2.2.1.toNat * 2^48
  let hi := e.2.2.2.1.toNat + e.2.2.2.2.toNat * 2^32
  [toString lo, toString hi]

/-- C12: an entry history `(kind, arg)*` on the generated definitions. `set_handler_addr` itself reads `CS` and is
not translated: its three pointer assignments are transcribed here, its option part is the generated
`minimal` / `set_code_selector` / `set_present`. A panicking call prints `p` and leaves the entry as it was. -/
private def srcIdtEntry (cfg : Cfg) (cs : Nat) (e : SEntry) : List Nat → Option (List String)
  | [] => some (["a"] ++ sVal (Src.Entry_handler_addr cfg e))
  | k :: a :: rest =>
    let opts (r : R ((BitVec 16 × BitVec 16) × (BitVec 16 × BitVec 16))) : R SEntry :=
      match r with
      | .ok (_, o) => .ok (e.1, o, e.2.2)
      | .panic => .panic
    let r : Option (R SEntry) :=
      match k with
      | 0 =>
        let addr := b64 a
        let o := R.bind (Src.EntryOptions_minimal cfg) fun o0 =>
          R.bind (Src.EntryOptions_set_code_selector cfg o0 (b16 cs)) fun o1 =>
          Src.EntryOptions_set_present cfg o1.2 true
        some (match o with
          | .ok (_, o) => .ok (addr.setWidth 16, o, (addr >>> 16).setWidth 16, (addr >>> 32).setWidth 32, e.2.2.2.2)
          | .panic => .panic)
      | 1 => some (opts (Src.EntryOptions_set_present cfg e.2.1 (a != 0)))
      | 2 => some (opts (Src.EntryOptions_disable_interrupts cfg e.2.1 (a != 0)))
      | 3 => some (opts (Src.EntryOptions_set_privilege_level cfg e.2.1 (b8 (a % 4))))
      | 4 => some (opts (Src.EntryOptions_set_stack_index cfg e.2.1 (b16 a)))
      | 5 => some (opts (Src.EntryOptions_set_code_selector cfg e.2.1 (b16 a)))
      | _ => none
    match r with
    | none => none
    | some (.ok e') => (srcIdtEntry cfg cs e' rest).map (fun t => ["s"] ++ sEntryWords e' ++ t)
    | some .panic => (srcIdtEntry cfg cs e rest).map (fun t => ["p"] ++ sEntryWords e ++ t)
  | _ => none

/-- C19: `external table index is_null` of a selector error code through the generated accessors
(`panic` if any of them panics, as the harness prints). -/
private def srcSecFields (cfg : Cfg) (f : BitVec 64) : List String :=
  match Src.SelectorErrorCode_external cfg f, Src.SelectorErrorCode_descriptor_table cfg f,
        Src.SelectorErrorCode_index cfg f, Src.SelectorErrorCode_is_null cfg f with
  | .ok e, .ok t, .ok i, .ok z =>
    [if e then "1" else "0", toString t.toNat, toString i.toNat, if z then "1" else "0"]
  | _, _, _, _ => ["panic"]

/-- C08: a history of setter calls `(kind, a, f)*` (0 set_addr, 1 set_frame, 2 set_flags, 3 set_unused) on the
generated definitions; a panicking call prints `p` and leaves the entry as it was. -/
private def srcEntrySeq (cfg : Cfg) (e : BitVec 64) : List Nat → Option (List String)
  | [] => some []
  | k :: a :: f :: rest =>
    let r : Option (R (Unit × BitVec 64)) :=
      match k with
      | 0 => some (Src.PageTableEntry_set_addr cfg e (b64 a) (b64 f))
      | 1 => some (Src.PageTableEntry_set_frame cfg e (b64 a) (b64 f))
      | 2 => some (Src.PageTableEntry_set_flags cfg e (b64 f))
      | 3 => some (Src.PageTableEntry_set_unused cfg e)
      | _ => none
    match r with
    | none => none
    | some (.ok (_, e')) => (srcEntrySeq cfg e' rest).map (srcObserve cfg e' ++ ·)
    | some .panic => (srcEntrySeq cfg e rest).map ("p" :: ·)
  | _ => none

def srcOut (cfg : Cfg) (op : String) (a : Array Nat) : Option (List String) :=
  match op, a.toList with
  | "va_try_new", [x] => some (sRes (Src.VirtAddr_try_new cfg (b64 x)))
  | "va_new_truncate", [x] => some (sVal (Src.VirtAddr_new_truncate cfg (b64 x)))
  | "pa_try_new", [x] => some (sRes (Src.PhysAddr_try_new cfg (b64 x)))
  | "pa_new_truncate", [x] => some (sVal (Src.PhysAddr_new_truncate cfg (b64 x)))
  | "va_idx", [x] =>
    let v := b64 x
    some (sVal (Src.VirtAddr_p4_index cfg v) ++ sVal (Src.VirtAddr_p3_index cfg v) ++ sVal (Src.VirtAddr_p2_index cfg v)
      ++ sVal (Src.VirtAddr_p1_index cfg v) ++ sVal (Src.VirtAddr_page_offset cfg v)
      ++ sVal (Src.VirtAddr_page_table_index cfg v 1) ++ sVal (Src.VirtAddr_page_table_index cfg v 2)
      ++ sVal (Src.VirtAddr_page_table_index cfg v 3) ++ sVal (Src.VirtAddr_page_table_index cfg v 4))
  | "pg_idx", [sz, p] =>
    let v := b64 p
    let s := b64 sz
    -- `p2_index`/`p1_index` exist only for the smaller page sizes: the harness reads them off the start address
    some (sVal (Src.Page_p4_index cfg s v) ++ sVal (Src.Page_p3_index cfg s v)
      ++ sVal (Src.VirtAddr_p2_index cfg v) ++ sVal (Src.VirtAddr_p1_index cfg v)
      ++ sVal (Src.Page_page_table_index cfg s v 1) ++ sVal (Src.Page_page_table_index cfg s v 2)
      ++ sVal (Src.Page_page_table_index cfg s v 3) ++ sVal (Src.Page_page_table_index cfg s v 4))
  | "from_idx4k", [i4, i3, i2, i1] =>
    some (sVal (Src.Page_from_page_table_indices cfg (b16 i4) (b16 i3) (b16 i2) (b16 i1)))
  | "from_idx2m", [i4, i3, i2] => some (sVal (Src.Page_from_page_table_indices_2mib cfg (b16 i4) (b16 i3) (b16 i2)))
  | "from_idx1g", [i4, i3] => some (sVal (Src.Page_from_page_table_indices_1gib cfg (b16 i4) (b16 i3)))
  | "idx_new", [i] => some (sR (Src.PageTableIndex_new cfg (b16 i)))
  | "idx_trunc", [i] => some (sVal (Src.PageTableIndex_new_truncate cfg (b16 i)))
  | "off_new", [i] => some (sR (Src.PageOffset_new cfg (b16 i)))
  | "off_trunc", [i] => some (sVal (Src.PageOffset_new_truncate cfg (b16 i)))
  | "level", [l] =>
    some (sOpt (Src.PageTableLevel_next_lower_level cfg (b8 l)) ++ sOpt (Src.PageTableLevel_next_higher_level cfg (b8 l))
      ++ sVal (Src.PageTableLevel_table_address_space_alignment cfg (b8 l))
      ++ sVal (Src.PageTableLevel_entry_address_space_alignment cfg (b8 l)))
  | "align_down", [x, al] => some (sR (Src.align_down cfg (b64 x) (b64 al)))
  | "align_up", [x, al] => some (sR (Src.align_up cfg (b64 x) (b64 al)))
  | "pa_align_down", [x, al] => some (sR (Src.PhysAddr_align_down cfg (b64 x) (b64 al)))
  | "pa_align_up", [x, al] => some (sR (Src.PhysAddr_align_up cfg (b64 x) (b64 al)))
  | "va_align_down", [x, al] => some (sR (Src.VirtAddr_align_down cfg (b64 x) (b64 al)))
  | "va_align_up", [x, al] => some (sR (Src.VirtAddr_align_up cfg (b64 x) (b64 al)))
  | "va_is_aligned", [x, al] => some (sRBool (Src.VirtAddr_is_aligned cfg (b64 x) (b64 al)))
  | "pa_is_aligned", [x, al] => some (sRBool (Src.PhysAddr_is_aligned cfg (b64 x) (b64 al)))
  | "pg_containing", [sz, x] => some (sVal (Src.Page_containing_address cfg (b64 sz) (b64 x)))
  | "pg_from_start", [sz, x] => some (sRes (Src.Page_from_start_address cfg (b64 sz) (b64 x)))
  | "fr_containing", [sz, x] => some (sVal (Src.PhysFrame_containing_address cfg (b64 sz) (b64 x)))
  | "fr_from_start", [sz, x] => some (sRes (Src.PhysFrame_from_start_address cfg (b64 sz) (b64 x)))
  | "va_add", [x, n] => some (sR (Src.VirtAddr_add_u64 cfg (b64 x) (b64 n)))
  | "va_sub", [x, n] => some (sR (Src.VirtAddr_sub_u64 cfg (b64 x) (b64 n)))
  | "va_subaddr", [x, y] => some (sR (Src.VirtAddr_sub_VirtAddr cfg (b64 x) (b64 y)))
  | "pa_add", [x, n] => some (sR (Src.PhysAddr_add_u64 cfg (b64 x) (b64 n)))
  | "pa_sub", [x, n] => some (sR (Src.PhysAddr_sub_u64 cfg (b64 x) (b64 n)))
  | "pa_subaddr", [x, y] => some (sR (Src.PhysAddr_sub_PhysAddr cfg (b64 x) (b64 y)))
  | "pg_add", [sz, p, n] => some (sR (Src.Page_add_u64 cfg (b64 sz) (b64 p) (b64 n)))
  | "pg_sub", [sz, p, n] => some (sR (Src.Page_sub_u64 cfg (b64 sz) (b64 p) (b64 n)))
  | "pg_subpg", [sz, p, q] => some (sR (Src.Page_sub_Page cfg (b64 sz) (b64 p) (b64 q)))
  | "fr_add", [sz, p, n] => some (sR (Src.PhysFrame_add_u64 cfg (b64 sz) (b64 p) (b64 n)))
  | "fr_sub", [sz, p, n] => some (sR (Src.PhysFrame_sub_u64 cfg (b64 sz) (b64 p) (b64 n)))
  | "fr_subfr", [sz, p, q] => some (sR (Src.PhysFrame_sub_PhysFrame cfg (b64 sz) (b64 p) (b64 q)))
  | "va_fwd", [s, n] => some (sOpt (Src.VirtAddr_Step_forward_checked cfg (b64 s) (b64 n)))
  | "va_bwd", [s, n] => some (sOpt (Src.VirtAddr_Step_backward_checked cfg (b64 s) (b64 n)))
  | "va_steps", [s, e] => some (sPair (Src.VirtAddr_Step_steps_between cfg (b64 s) (b64 e)))
  | "pg_fwd", [sz, p, n] => some (sOpt (Src.Page_Step_forward_checked cfg (b64 sz) (b64 p) (b64 n)))
  | "pg_bwd", [sz, p, n] => some (sOpt (Src.Page_Step_backward_checked cfg (b64 sz) (b64 p) (b64 n)))
  | "pg_steps", [sz, s, e] => some (sPair (Src.Page_Step_steps_between cfg (b64 sz) (b64 s) (b64 e)))
  | "idx_fwd", [i, n] => some (sOpt (Src.PageTableIndex_Step_forward_checked cfg (b16 i) (b64 n)))
  | "idx_bwd", [i, n] => some (sOpt (Src.PageTableIndex_Step_backward_checked cfg (b16 i) (b64 n)))
  | "idx_steps", [s, e] => some (sPair (Src.PageTableIndex_Step_steps_between cfg (b16 s) (b16 e)))
  | "range", [k, sz, s, e, fuel] =>
    let r := (b64 s, b64 e)
    let z := b64 sz
    let pick (α : Type) (a b c d : α) : Option α :=
      match k with | 0 => some a | 1 => some b | 2 => some c | 3 => some d | _ => none
    match pick _ (Src.PageRange_len cfg z r) (Src.PageRangeInclusive_len cfg z r) (Src.PhysFrameRange_len cfg z r)
            (Src.PhysFrameRangeInclusive_len cfg z r),
          pick _ (Src.PageRange_size cfg z r) (Src.PageRangeInclusive_size cfg z r) (Src.PhysFrameRange_size cfg z r)
            (Src.PhysFrameRangeInclusive_size cfg z r),
          pick _ (Src.PageRange_next cfg z) (Src.PageRangeInclusive_next cfg z) (Src.PhysFrameRange_next cfg z)
            (Src.PhysFrameRangeInclusive_next cfg z) with
    | some len, some size, some next =>
      some (["len"] ++ sR len ++ ["size"] ++ sR size ++
        (match srcCollect next fuel r 0 0 with
         | none => ["items", "toolong"]
         | some .panic => ["items", "panic"]
         | some (.ok (n, h)) => ["items", "ok", toString n, toString h]))
    | _, _, _ => none
  | "pte_seq", e0 :: _n :: rest => srcEntrySeq cfg (b64 e0) rest
  -- C19 / C14 / C15: selectors, privilege levels, descriptors
  | "sel_new", [i, r] => if r < 4 then some (sVal (Src.SegmentSelector_new cfg (b16 i) (b8 r))) else none
  | "sel_index", [s] => some (sVal (Src.SegmentSelector_index cfg (b16 s)))
  | "sel_rpl", [s] => some (sR (Src.SegmentSelector_rpl cfg (b16 s)))
  | "sel_set_rpl", [s, r] =>
    if r < 4 then
      some (match Src.SegmentSelector_set_rpl cfg (b16 s) (b8 r) with
        | .ok (_, v) => ["ok", toString v.toNat]
        | .panic => ["panic"])
    else none
  | "pl_from_u16", [v] => some (sR (Src.PrivilegeLevel_from_u16 cfg (b16 v)))
  | "tss_desc", [ptr] =>
    some (match Src.Descriptor_tss_segment_unchecked cfg (b64 ptr) with
      | .ok (_, lo, hi) => ["sys", toString lo.toNat, toString hi.toNat]
      | .panic => ["panic"])
  | "desc_dpl", [kind, lo, hi] =>
    some (sR (Src.Descriptor_dpl cfg (if kind == 0 then (0#8, b64 lo, 0#64) else (1#8, b64 lo, b64 hi))))
  | "rpt_pages", [r, page] =>
    -- C20: the hook `verif_table_pages(page: Page<Size4KiB>, R)` prints p3_page, p2_page, p1_page
    some (sVal (Src.rec_p3_page cfg (b64 size4K) (b64 page) (b16 r)) ++ sVal (Src.rec_p2_page cfg (b64 size4K) (b64 page) (b16 r))
      ++ sVal (Src.rec_p1_page cfg (b64 page) (b16 r)))
  | "range4k", [s, e] =>
    let r := (b64 s, b64 e)
    match Src.PageRange_as_4kib_page_range cfg r with
    | .panic => some ["panic"]
    | .ok r4 =>
      some ([toString r4.1.toNat, toString r4.2.toNat] ++ sR (Src.PageRange_size cfg (b64 size2M) r)
        ++ sR (Src.PageRange_size cfg (b64 size4K) r4))
  -- C12: entry histories through the generated option setters
  | "idt_entry", cs :: _n :: rest =>
    match Src.Entry_missing cfg with
    | .ok e => srcIdtEntry cfg cs e rest
    | .panic => some ["panic"]
  -- C19: PCIDs, selector error codes, DR7 values
  | "pcid_new", [v] => if v < 65536 then some (sRes (Src.Pcid_new cfg (b16 v))) else none
  | "sec_new", [v] => some (sOpt (Src.SelectorErrorCode_new cfg (b64 v)))
  | "dr7_from_bits", [b] => some (sOpt (Src.Dr7Value_from_bits cfg (b64 b)))
  | "dr7_truncate", [b] => some (sVal (Src.Dr7Value_from_bits_truncate cfg (b64 b)))
  | "dr7_flags", [b] => some (sVal (Src.Dr7Value_flags cfg (b64 b)))
  | "dr7_insert", [b, f] => some (sVal ((Src.Dr7Value_insert_flags cfg (b64 b) (b64 f)).map (·.2)))
  | "dr7_remove", [b, f] => some (sVal ((Src.Dr7Value_remove_flags cfg (b64 b) (b64 f)).map (·.2)))
  | "dr7_toggle", [b, f] => some (sVal ((Src.Dr7Value_toggle_flags cfg (b64 b) (b64 f)).map (·.2)))
  | "ev_try_from", [n] => if n < 256 then some (sRes (Src.ExceptionVector_try_from_u8 cfg (b8 n))) else none
  | "pat_from_bits", [n] => if n < 256 then some (sOpt (Src.PatMemoryType_from_bits cfg (b8 n))) else none
  | "darn_new", [n] => if n < 256 then some (sOpt (Src.DebugAddressRegisterNumber_new cfg (b8 n))) else none
  | "bc_from_bits", [n] => some (sOpt (Src.BreakpointCondition_from_bits cfg (b64 n)))
  | "bs_from_bits", [n] => some (sOpt (Src.BreakpointSize_from_bits cfg (b64 n)))
  | "bs_new", [n] => some (sOpt (Src.BreakpointSize_new cfg (b64 n)))
  | "dr6_trap", [n] => if n < 4 then some (sVal (Src.Dr6Flags_trap cfg (b8 n))) else none
  | "dr7_lbe", [n] => if n < 4 then some (sVal (Src.Dr7Flags_local_breakpoint_enable cfg (b8 n))) else none
  | "dr7_gbe", [n] => if n < 4 then some (sVal (Src.Dr7Flags_global_breakpoint_enable cfg (b8 n))) else none
  | "dr7_cond", [b, n] => if n < 4 then some (sR (Src.Dr7Value_condition cfg (b64 b) (b8 n))) else none
  | "dr7_size", [b, n] => if n < 4 then some (sR (Src.Dr7Value_size cfg (b64 b) (b8 n))) else none
  | "dr7_set_cond", [b, n, c] =>
    if n < 4 && c < 4 then some (sVal ((Src.Dr7Value_set_condition cfg (b64 b) (b8 n) (b8 c)).map (·.2))) else none
  | "dr7_set_size", [b, n, c] =>
    if n < 4 && c < 4 then some (sVal ((Src.Dr7Value_set_size cfg (b64 b) (b8 n) (b8 c)).map (·.2))) else none
  | "sec_fields", [v] => some (srcSecFields cfg (b64 v))
  | "sec_trunc", [v] =>
    some (match Src.SelectorErrorCode_new_truncate cfg (b64 v) with
      | .ok t => srcSecFields cfg t
      | .panic => ["panic"])
  | _, _ => none

end X86.Driver
