/-
Evaluation script for C13 (run by run.py with `lake env lean --run X86Model/Eval/C13.lean`):
evaluates the architectural table (Spec/ExceptionTable.lean) on what the macros re-extracted from the
current source do for each of the 256 vectors (Model/GeneralHandler.lean interpreting
Generated/GeneralHandler.lean) and prints
  MISMATCH vector=<v> <what the macro does> :: <what the architecture requires>
  MISMATCH <other table fact> ...
  COUNTS vectors=<n> arms=<n> special_arms=<n> installed=<n> mismatches=<m>
Each MISMATCH line is a concrete failing input of `C13.effects_conform` / `frame_layout_conforms` /
`iretq_frame_value` / the form theorems (the replay). It depends only on the generated tables, the
interpreter and the spec, so it still runs when the theorem file no longer compiles.
-/
import X86Model.Model.GeneralHandler
import X86Model.Spec.ExceptionTable

open X86 X86.GH X86.Spec.Exc

def describeVector (v : Nat) : String :=
  let cls := if isReserved v then "reserved" else if isAbort v then "abort" else "returning"
  s!"{cls}, {if pushesErrorCode v then "error code" else "no error code"}"

def checkVector (v : Nat) (eff : R (Option (Nat × Stub))) : List String :=
  let req := describeVector v
  match eff with
  | .panic => [s!"vector={v} installing it panics (`idt[{v}]` refuses the index) :: {req}"]
  | .ok none =>
    if isReserved v then [] else [s!"vector={v} nothing is installed :: {req}"]
  | .ok (some (slot, s)) =>
    if isReserved v then [s!"vector={v} entry {slot} is written :: reserved, must stay untouched"]
    else
      (if slot != v then [s!"vector={v} stub stored in entry {slot} (byte offset {16 * slot}) :: the CPU reads entry {v} (byte offset {16 * v})"] else []) ++
      (if s.index != v then [s!"vector={v} stub reports index {s.index} :: must report {v}"] else []) ++
      (if s.takesErr != pushesErrorCode v then [s!"vector={v} stub {if s.takesErr then "takes" else "does not take"} an error code from the stack :: {req}"] else []) ++
      (if s.passesErr != pushesErrorCode v then [s!"vector={v} stub passes {if s.passesErr then "Some(error_code)" else "None"} :: {req}"] else []) ++
      (if s.diverging != isAbort v then [s!"vector={v} stub is {if s.diverging then "diverging" else "returning"} :: {req}"] else []) ++
      (if s.panicsAfter != isAbort v then [s!"vector={v} stub {if s.panicsAfter then "panics" else "does not panic"} after the general handler returns :: {req}"] else [])

def main : IO Unit := do
  let mut mism : List String := []
  let order := visited.map idxOf
  if order != List.range 256 then
    mism := mism ++ [s!"bit-recursion visits {order.length} patterns, IDX sequence starts {order.take 12} :: every vector 0..255 exactly once"]
  for e in effects do
    mism := mism ++ checkVector e.1 e.2
  -- vectors the recursion never reaches
  for v in List.range 256 do
    if !(order.contains v) && !isReserved v then
      mism := mism ++ [s!"vector={v} is never visited by the bit recursion :: must be installable"]
  if !(visited.all armTypeChecks) then
    mism := mism ++ ["a stub's signature is not the handler type of the field it is stored in"]
  -- frame layout
  for (name, off, size) in [("instruction_pointer", offRIP, 8), ("code_segment", offCS, 2), ("cpu_flags", offRFLAGS, 8),
      ("stack_pointer", offRSP, 8), ("stack_segment", offSS, 2)] do
    if fieldAt name != some (off, size) then
      mism := mism ++ [s!"frame field {name} at {repr (fieldAt name)} (offset, size) :: hardware slot at offset {off}, {size} bytes"]
  if frameValueSize != frameBytes then
    mism := mism ++ [s!"InterruptStackFrameValue is {frameValueSize} bytes :: hardware frame is {frameBytes} bytes"]
  -- iretq on a frame value with five distinct fields
  let f : Frame := ⟨0x1111, 0x33, 0x246, 0x7fff0000, 0x2b⟩
  if frameValueIretq f != some (expectedResume f) then
    mism := mism ++ [s!"InterruptStackFrameValue::iretq on {repr f} resumes {repr (frameValueIretq f)} :: {repr (expectedResume f)}"]
  -- macro forms, by the meaning of the forwarded range
  let denotes (f : Form) (p : Nat → Bool) : Option Nat :=
    match f.toRange with
    | some r => (List.range 256).find? (fun v => r.contains v != p v)
    | none => some 256
  match denotes .whole (fun _ => true) with
  | some v => mism := mism ++ [s!"set_general_handler!(idt, h) forwards {repr Form.whole.toRange}, which does not contain vector {v} :: every vector 0..=255"]
  | none => pure ()
  for i in List.range 256 do
    match denotes (.single i) (fun v => v == i) with
    | some v => mism := mism ++ [s!"set_general_handler!(idt, h, {i}) forwards {repr (Form.single i).toRange}, wrong about vector {v} :: exactly vector {i}"]
    | none => pure ()
  if (Form.range (.excl 3 9)).toRange != some (.excl 3 9) then
    mism := mism ++ ["set_general_handler!(idt, h, range) does not forward the range unchanged"]
  for m in mism do
    IO.println s!"MISMATCH {m}"
  let installed := (effects.filter (fun e => match e.2 with | .ok (some _) => true | _ => false)).length
  let special := (Generated.GH.arms.filter (fun a => !a.catchAll)).length
  IO.println s!"COUNTS vectors={effects.length} arms={Generated.GH.arms.length} special_arms={special} installed={installed} mismatches={mism.length}"
