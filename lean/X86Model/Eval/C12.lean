/-
Evaluation script for C12 (run by run.py with `lake env lean --run X86Model/Eval/C12.lean`): evaluates the
architectural side (`Spec/Gate.lean`) directly on the tables re-extracted from `src/structures/idt.rs`
(`Generated/IdtTables.lean`) and prints one row per disagreement:

  MISMATCH index v=<v> ...          `idt[v]` (Index / IndexMut) reaches another slot than v, or is refused /
                                    accepted against the architectural refusal set
  MISMATCH field <name> ...         a named field is not the slot of its vector / its handler type does not
                                    have the signature the vector needs
  MISMATCH setter <fn> ...          an option setter touches other bits than the gate format's field
  MISMATCH const <what> ...         `minimal()` / the slice constants differ from the format's
  UNCOVERED <name>                  a public field the spec has no vector for
  COUNTS ...

Each MISMATCH row is a concrete input on which a C12 theorem fails (the replay). Only Generated + Spec are
imported, so this still runs when the theorem file no longer compiles. Slots are counted in entries
(a field of length n occupies n consecutive slots); that every entry is 16 bytes is `C12.entry_layout`.
-/
import X86Model.Generated.IdtTables
import X86Model.Spec.Gate

open X86 X86.Spec X86.Generated.Idt

def firstSlot (idx : Nat) : Nat := ((fields.take idx).map (·.len)).foldl (· + ·) 0

def armOf (arms : List Arm) (v : Nat) : Option Target :=
  (arms.find? (fun a => a.pats.any (fun p => p.1 ≤ v && v ≤ p.2))).map (·.target)

def slotField (k : Nat) : Option Field :=
  let rec go (fs : List Field) (start : Nat) : Option Field :=
    match fs with
    | [] => none
    | f :: rest => if k < start + f.len then some f else go rest (start + f.len)
  go fields 0

def kindOf (h : String) : Option (Bool × Bool) :=
  (handlerTypes.find? (fun t => t.1 == h)).map (fun t => (t.2.1 == 2, t.2.2))

def checkIndex (which : String) (arms : List Arm) : IO Nat := do
  let mut bad := 0
  for v in List.range 256 do
    let want := indexRefused v
    match armOf arms v with
    | some (.panic msg _) =>
      if !want then
        bad := bad + 1
        IO.println s!"MISMATCH index v={v} {which} refuses (\"{msg}\") but vector {v} is a plain-handler vector"
    | some (.field name idx) =>
      if want then
        bad := bad + 1
        IO.println s!"MISMATCH index v={v} {which} hands out field {name} but vector {v} must be refused (reserved={isReserved v} errorCode={pushesErrorCode v} abort={isAbort v})"
      else if firstSlot idx != v then
        bad := bad + 1
        IO.println s!"MISMATCH index v={v} {which} reaches field {name} = slot {firstSlot idx} (byte {16 * firstSlot idx}), the CPU reads byte {gateByteOffset v}"
    | some (.elem name idx sub) =>
      if want then
        bad := bad + 1
        IO.println s!"MISMATCH index v={v} {which} hands out {name}[{v - sub}] but vector {v} must be refused"
      else if sub > v || firstSlot idx + (v - sub) != v then
        bad := bad + 1
        IO.println s!"MISMATCH index v={v} {which} reaches {name}[{v - sub}] = slot {firstSlot idx + (v - sub)} (byte {16 * (firstSlot idx + (v - sub))}), the CPU reads byte {gateByteOffset v}"
    | none =>
      bad := bad + 1
      IO.println s!"MISMATCH index v={v} {which} has no arm"
  return bad

def main : IO Unit := do
  let mut bad := 0
  bad := bad + (← checkIndex "Index" indexArms)
  bad := bad + (← checkIndex "IndexMut" indexMutArms)
  -- named fields and handler signatures
  let mut uncovered := 0
  let mut idx := 0
  for f in fields do
    if f.pub then
      match vectorOfName f.name with
      | none =>
        uncovered := uncovered + 1
        IO.println s!"UNCOVERED {f.name}"
      | some v =>
        if firstSlot idx != v || f.len != 1 then
          bad := bad + 1
          IO.println s!"MISMATCH field {f.name} is slot {firstSlot idx} (byte {16 * firstSlot idx}, {f.len} entries) but its exception is vector {v} (byte {gateByteOffset v})"
    idx := idx + 1
  for p in namedVectors do
    if !(fields.any (fun f => f.name == p.1 && f.pub)) then
      bad := bad + 1
      IO.println s!"MISMATCH field {p.1} (vector {p.2}) is not a public field of the table"
  for v in List.range 256 do
    if !isReserved v then
      match slotField v with
      | none =>
        bad := bad + 1
        IO.println s!"MISMATCH field vector {v} has no slot (the table has {firstSlot fields.length} entries)"
      | some f =>
        if kindOf f.handler != some (pushesErrorCode v, isAbort v) then
          bad := bad + 1
          IO.println s!"MISMATCH field {f.name} vector {v} has handler type {f.handler} {kindOf f.handler}, the vector needs (errorCode, diverging) = ({pushesErrorCode v}, {isAbort v})"
  if firstSlot fields.length != IDT_VECTORS then
    bad := bad + 1
    IO.println s!"MISMATCH const table has {firstSlot fields.length} entries, the IDT has {IDT_VECTORS} vectors"
  -- option setters: positions inside the 16-bit word at byte 4 of the gate (Figure 6-8):
  -- IST bits 0-2, type bit 8 distinguishes interrupt (0) / trap (1) gate, DPL bits 13-14, P bit 15
  let expect : List (BitSetter × Nat × Nat × String × Nat) :=
    [(set_present, 15, 16, "arg", 0), (disable_interrupts, 8, 9, "not", 0),
     (set_privilege_level, 13, 15, "arg", 0), (set_stack_index, 0, 3, "add", 1)]
  for (s, lo, hi, form, add) in expect do
    if s.lo != lo || s.hi != hi || s.form != form || s.addend != add || s.field != "bits" then
      bad := bad + 1
      IO.println s!"MISMATCH setter {s.fn} writes {s.field}[{s.lo}..{s.hi}] := {s.form}+{s.addend}, the gate format needs bits[{lo}..{hi}] := {form}+{add}"
  if minimal != [("cs", 0), ("bits", 0xe00)] then
    bad := bad + 1
    IO.println s!"MISMATCH const minimal() = {minimal}, an empty 64-bit interrupt gate is cs=0 bits=0xe00"
  if sliceStart != (0, 1, 0) || sliceEnd != (1, 0, 256) || sliceMinLower != 32 then
    bad := bad + 1
    IO.println s!"MISMATCH const condition_slice_bounds start={sliceStart} end={sliceEnd} min={sliceMinLower}, RangeBounds<u8> over vectors 32..256 needs (0, 1, 0) (1, 0, 256) 32"
  for (nm, b) in [("slice", sliceBody), ("slice_mut", sliceMutBody)] do
    if firstSlot b.2.1 + 32 != 32 + b.2.2.1 || b.2.2.1 != b.2.2.2 then
      bad := bad + 1
      IO.println s!"MISMATCH const {nm} indexes {b.1}[(lower - {b.2.2.1})..(upper - {b.2.2.2})], field {b.1} starts at slot {firstSlot b.2.1}"
  IO.println s!"COUNTS vectors={IDT_VECTORS} fields={fields.length} public_fields={(fields.filter (·.pub)).length} index_arms={indexArms.length} index_mut_arms={indexMutArms.length} uncovered={uncovered} mismatches={bad}"
