/-
Evaluation script for C19 (run by run.py with `lake env lean --run X86Model/Eval/C19.lean`):
compares the generated constants with the architectural table row by row and prints
  MISMATCH <Type> <NAME> generated=<v> table=<t>     the source's value differs from the manual's
  UNCOVERED <Type> <NAME> <v>                         the table has no row for this constant
  COUNTS total=<n> covered=<k> uncovered=<u> mismatches=<m> table_rows=<r>
Each MISMATCH line is a concrete failing input of `C19.consts_conform` (the replay).
It depends only on Generated/Consts.lean and Spec/ArchTable.lean, so it still runs when the
theorem file no longer compiles.
-/
import X86Model.Generated.Consts
import X86Model.Spec.ArchTable

open X86 X86.Spec

/-- `0x…` plus, for single-bit values, the bit position (readable replays). -/
def showVal (v : Nat) : String :=
  let hex := "0x" ++ String.ofList (Nat.toDigits 16 v)
  if v != 0 && 2 ^ v.log2 == v then s!"{hex}(=1<<{v.log2})" else hex

def main : IO Unit := do
  let mut covered := 0
  let mut uncovered := 0
  let mut mismatches := 0
  for c in Generated.consts do
    match ArchTable.lookup c.1 c.2.1 with
    | none =>
      uncovered := uncovered + 1
      IO.println s!"UNCOVERED {c.1} {c.2.1} {showVal c.2.2}"
    | some t =>
      covered := covered + 1
      if t != c.2.2 then
        mismatches := mismatches + 1
        IO.println s!"MISMATCH {c.1} {c.2.1} generated={showVal c.2.2} table={showVal t}"
  IO.println s!"COUNTS total={Generated.consts.length} covered={covered} uncovered={uncovered} mismatches={mismatches} table_rows={ArchTable.rowCount}"
