/-
`driver_nosrc`: the model driver without the third voice. Used by run.py when `driver` no longer builds because a
translated function changed its signature (Driver/Src.lean refers to the generated definitions): the correspondence
between implementation and hand-written model must still run; the broken source voice is reported as a broken tie.
-/
import X86Model.Driver.Main

open X86 X86.Driver

def main (_args : List String) : IO UInt32 := mainWith (fun _ _ _ => none)
