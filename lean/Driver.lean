/-
`driver`: reads harness lines on stdin, evaluates model + spec oracle (see
X86Model/Driver/Proto.lean). The handler chain tries each property family in turn.
-/
import X86Model.Driver.Proto
import X86Model.Driver.Addr
import X86Model.Driver.Port
import X86Model.Driver.Interrupts
import X86Model.Driver.Regs
import X86Model.Driver.Tlb

open X86 X86.Driver

def allHandlers : List Handler := [handleC05, handleC18, handleC17, handleC16, handleC11]

def dispatch : Handler := fun cfg op a impl =>
  allHandlers.firstM (fun h => h cfg op a impl)

def main (_args : List String) : IO UInt32 := run dispatch
