/-
`driver`: the model driver with the third voice (definitions generated from the Rust source, Driver/Src.lean).
-/
import X86Model.Driver.Main
import X86Model.Driver.Src

open X86 X86.Driver

/-- Switched off while some function is outside the translator's subset: its stub would only add noise; the broken
tie is reported by run.py. -/
def srcVoice : SrcVoice := fun cfg op a =>
  if Generated.Src.untranslated.isEmpty then srcOut cfg op a else none

def main (_args : List String) : IO UInt32 := mainWith srcVoice
