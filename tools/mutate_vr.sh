#!/bin/bash
# usage: tools/mutate_vr.sh <Cxx> <file in repo> <old text> <new text> [<old2> <new2> ...]      (VERIF_TIER=quick|thorough)
# Runs `run.py check <Cxx>` against a scratch git worktree of /repo (VERIF_REPO) carrying one textual mutation
# (first occurrence of each <old text>, applied in order), prints the verdict lines and the replay, and restores
# the scratch tree.
# /repo itself and harness/Cargo.toml are never touched. Remove the scratch tree afterwards with
#   git -C /repo worktree remove --force /tmp/mut-<Cxx>
set -e
PROP=$1; FILE=$2; shift 2; TIER=${VERIF_TIER:-quick}
HERE=$(cd "$(dirname "$0")/.." && pwd)
MUT=/tmp/mut-$PROP
if [ ! -d "$MUT" ]; then git -C /repo worktree add --detach "$MUT" >/dev/null 2>&1; fi
git -C "$MUT" checkout -q -- . ; git -C "$MUT" checkout -q --detach "$(git -C /repo rev-parse HEAD)"
python3 - "$MUT/$FILE" "$@" <<'PY'
import sys
p = sys.argv[1]; s = open(p).read()
pairs = sys.argv[2:]
assert pairs and len(pairs) % 2 == 0, "old/new pairs expected"
for i in range(0, len(pairs), 2):
    old, new = pairs[i], pairs[i + 1]
    assert s.count(old) >= 1, "pattern not found: " + old
    s = s.replace(old, new, 1)
open(p, "w").write(s)
PY
git -C "$MUT" diff --stat | tail -1
cd "$HERE"
before=$(ls replays 2>/dev/null | wc -l)
set +e
VERIF_REPO=$MUT python3 run.py check "$PROP" --tier "$TIER" 2>&1 | tail -6
echo "rc=${PIPESTATUS[0]}"
set -e
latest=$(ls -t replays/"$PROP"-*.json 2>/dev/null | head -1)
if [ -n "$latest" ] && [ "$(ls replays | wc -l)" -gt "$before" ]; then
  python3 - "$latest" <<'PY'
import json, sys
d = json.load(open(sys.argv[1]))
print("replay", sys.argv[1], "kind =", d.get("kind"))
for c in d.get("cases", [])[:6]:
    print("  case:", c[:300])
for b in d.get("broken", [])[:4]:
    print("  broken:", b.get("what"), "|", (b.get("detail") or "")[:300].replace("\n", " / "))
PY
fi
git -C "$MUT" checkout -q -- .
# put the generated tables back to /repo's state
python3 translator/extract.py /repo lean/X86Model/Generated >/dev/null
