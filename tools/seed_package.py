#!/usr/bin/env python3
"""Package confirmed seeded changes: /tmp/seed/<P>/out/<n>/ + /tmp/seed/confirm/<P>-<n>.json -> /verif/seeded/<P>-<n>/
(patch.diff, demo.rs, notes.md, meta.json)."""
import glob, json, os, re, shutil, sys
ROOT = os.path.dirname(os.path.dirname(os.path.abspath(__file__)))
for cj in sorted(glob.glob("/tmp/seed/confirm/C*-*.json")):
    sid = os.path.basename(cj)[:-5]
    r = json.load(open(cj))
    if not r.get("confirmed"):
        print("skip (not confirmed)", sid); continue
    src = r["seed_dir"]
    dst = os.path.join(ROOT, "seeded", sid)
    os.makedirs(dst, exist_ok=True)
    for f in ("patch.diff", "demo.rs", "notes.md", "run.sh"):
        if os.path.exists(os.path.join(src, f)):
            shutil.copy(os.path.join(src, f), os.path.join(dst, f))
    if os.path.isdir(os.path.join(src, "demo")):   # demonstration that is a separate small crate
        shutil.copytree(os.path.join(src, "demo"), os.path.join(dst, "demo"), dirs_exist_ok=True,
                        ignore=shutil.ignore_patterns("target", "*.log"))
    notes = open(os.path.join(src, "notes.md")).read() if os.path.exists(os.path.join(src, "notes.md")) else ""
    meta_path = os.path.join(dst, "meta.json")
    old = json.load(open(meta_path)) if os.path.exists(meta_path) else {}
    files = sorted(set(re.findall(r"^\+\+\+ b/(\S+)", open(os.path.join(src, "patch.diff")).read(), re.M)))
    meta = {
        "id": sid,
        "property": sid.split("-")[0],
        "files_changed": files,
        "needs_to_manifest": old.get("needs_to_manifest", "see notes.md"),
        "origin": "independent sub-agent given only the property text and a scratch worktree of /repo",
        "confirmed_in_scratch_worktree": {
            "patch_applies_to_HEAD": r["applies"], "builds": r["builds"],
            "pinned_suite_with_patch_unit_passed_failed": r["suite_with_patch"]["unit_passed_failed"],
            "demo_config": r["demo"]["config"],
            "demo_with_patch_rc": r["demo"]["with_patch_rc"], "demo_without_patch_rc": r["demo"]["without_patch_rc"],
            "demo_with_patch_tail": r["demo"]["with_patch_tail"][-600:],
            "commands": r["ran"],
        },
        "checks": old.get("checks", {}),
    }
    json.dump(meta, open(meta_path, "w"), indent=1)
    print("packaged", sid)
