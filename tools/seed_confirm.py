#!/usr/bin/env python3
"""Confirm a seeded change produced by a sub-agent (see DESIGN.md, "Seeded changes"):

  seed_confirm.py <worktree of /repo> <dir with patch.diff + demo.rs> <out.json>

In the scratch worktree (never /repo itself): the patch applies to clean HEAD, the crate builds in both profiles,
the pinned suite still passes (36 tests), the demonstration FAILS with the patch and PASSES without it
(tried in the configurations debug / release / +verif_hooks until one discriminates). Writes what was run.
"""
import json
import os
import re
import shutil
import subprocess
import sys

ENV = dict(os.environ, CARGO_NET_OFFLINE="true", CARGO_TERM_COLOR="never")


def sh(cmd, cwd, timeout=1800):
    p = subprocess.run(cmd, cwd=cwd, shell=True, stdout=subprocess.PIPE, stderr=subprocess.STDOUT, text=True,
                       timeout=timeout, env=ENV)
    return p.returncode, p.stdout


def clean(wt):
    sh("git checkout -q -- . && git clean -fdq -e out -e target", wt)


def suite(wt):
    rc, out = sh("cargo test --workspace --no-fail-fast --offline 2>&1", wt)
    passed = sum(int(m.group(1)) for m in re.finditer(r"test result: \w+\. (\d+) passed", out))
    m = re.search(r"running (\d+) tests?\n(?:.*\n)*?test result: (\w+)\. (\d+) passed; (\d+) failed", out)
    unit = None
    for mm in re.finditer(r"Running unittests src/lib.rs.*?\n\nrunning (\d+) tests?\n(.*?)test result: (\w+)\. (\d+) passed; (\d+) failed", out, re.S):
        unit = (int(mm.group(4)), int(mm.group(5)))
        break
    return rc, unit, passed, out[-1500:]


CONFIGS = [("debug", ""), ("release", "--release"), ("debug+verif_hooks", "--features verif_hooks"),
           ("release+verif_hooks", "--release --features verif_hooks")]


def demo(wt, flags):
    rc, out = sh(f"cargo test --offline {flags} --test demo 2>&1", wt)
    compiled = "error: could not compile" not in out and "error[E" not in out
    return rc, compiled, out[-1200:]


def main():
    wt, sdir, outp = sys.argv[1], sys.argv[2], sys.argv[3]
    res = {"worktree": wt, "seed_dir": sdir, "ran": []}
    clean(wt)
    patch = os.path.join(sdir, "patch.diff")
    rc, out = sh(f"git apply --check {patch}", wt)
    res["applies"] = rc == 0
    if rc != 0:
        res["error"] = out
        json.dump(res, open(outp, "w"), indent=1)
        return
    sh(f"git apply {patch}", wt)
    rc1, o1 = sh("cargo build --offline 2>&1", wt)
    rc2, o2 = sh("cargo build --release --offline 2>&1", wt)
    res["builds"] = {"debug": rc1 == 0, "release": rc2 == 0}
    res["ran"] += ["cargo build --offline", "cargo build --release --offline"]
    rc, unit, passed, tail = suite(wt)
    res["suite_with_patch"] = {"rc": rc, "unit_passed_failed": unit, "total_passed": passed}
    res["ran"].append("cargo test --workspace --no-fail-fast --offline")
    os.makedirs(os.path.join(wt, "tests"), exist_ok=True)
    dsrc = os.path.join(sdir, "demo.rs")
    res["demo"] = None
    if os.path.exists(dsrc):
        shutil.copy(dsrc, os.path.join(wt, "tests", "demo.rs"))
        for name, flags in CONFIGS:
            rc, compiled, tail = demo(wt, flags)
            entry = {"config": name, "with_patch_rc": rc, "with_patch_compiled": compiled, "with_patch_tail": tail}
            if rc != 0:
                # does it pass without the patch in the same configuration?
                sh(f"git apply -R {patch}", wt)
                rc0, compiled0, tail0 = demo(wt, flags)
                sh(f"git apply {patch}", wt)
                entry.update({"without_patch_rc": rc0, "without_patch_tail": tail0})
                if rc0 == 0:
                    entry["discriminates"] = True
                    res["demo"] = entry
                    res["ran"].append(f"cargo test --offline {flags} --test demo   (tests/demo.rs = the demonstration): fails with the patch, passes without")
                    break
            res.setdefault("demo_attempts", []).append(entry)
    runsh = os.path.join(sdir, "demo", "run.sh")
    if res["demo"] is None and os.path.exists(runsh):
        # demonstration is a separate small crate/program: `demo/run.sh <crate dir>` exits non-zero when it fails
        rc, out = sh(f"bash {runsh} {wt} 2>&1", os.path.join(sdir, "demo"))
        entry = {"config": "demo/run.sh", "with_patch_rc": rc, "with_patch_compiled": True, "with_patch_tail": out[-1200:]}
        if rc != 0:
            sh(f"git apply -R {patch}", wt)
            rc0, out0 = sh(f"bash {runsh} {wt} 2>&1", os.path.join(sdir, "demo"))
            sh(f"git apply {patch}", wt)
            entry.update({"without_patch_rc": rc0, "without_patch_tail": out0[-1200:]})
            if rc0 == 0:
                entry["discriminates"] = True
                res["demo"] = entry
                res["ran"].append("bash demo/run.sh <worktree>   (separate demonstration crate): fails with the patch, passes without")
        if res["demo"] is None:
            res.setdefault("demo_attempts", []).append(entry)
    clean(wt)
    res["confirmed"] = bool(res["applies"] and res["builds"]["debug"] and res["builds"]["release"]
                            and res["suite_with_patch"]["rc"] == 0 and (res["suite_with_patch"]["unit_passed_failed"] or (0, 1))[1] == 0
                            and res["demo"] and res["demo"].get("discriminates"))
    json.dump(res, open(outp, "w"), indent=1)
    print(outp, "confirmed" if res["confirmed"] else "NOT CONFIRMED")


if __name__ == "__main__":
    main()
