#!/usr/bin/env python3
"""Merge evaluation results (tools/seed_eval.py output dir) into seeded/<id>/meta.json and print the markdown table
used in DESIGN.md ("Seeded changes")."""
import glob, json, os, re, sys
ROOT = os.path.dirname(os.path.dirname(os.path.abspath(__file__)))
evdir = sys.argv[1] if len(sys.argv) > 1 else "/tmp/seed/eval"
rows = []
for d in sorted(glob.glob(os.path.join(ROOT, "seeded", "C*-*"))):
    sid = os.path.basename(d)
    mp = os.path.join(d, "meta.json")
    meta = json.load(open(mp))
    ep = os.path.join(evdir, sid + ".json")
    if os.path.exists(ep):
        ev = json.load(open(ep))
        for p, c in ev.get("checks", {}).items():
            line = (c["lines"] or [""])[0]
            verdict = "missed" if c["rc"] == 0 else ("framework-error" if c["rc"] == 2 else
                      ("caught (no-failing-input-found)" if "no-failing-input-found" in line else "caught (failing input)"))
            rp = c.get("replay") or {}
            meta.setdefault("checks", {})[p] = {
                "command": f"git -C <scratch worktree> apply seeded/{sid}/patch.diff; VERIF_REPO=<scratch worktree> python3 run.py check {p} --tier {c['tier']}",
                "verdict": verdict, "exit": c["rc"], "line": line, "summary": c["summary"],
                "first_case": (rp.get("cases") or [None])[0], "broken": rp.get("broken")}
        json.dump(meta, open(mp, "w"), indent=1)
    notes = open(os.path.join(d, "notes.md")).read() if os.path.exists(os.path.join(d, "notes.md")) else ""
    title = ""
    m = re.search(r"^#+\s*(.+)$", notes, re.M)
    if m:
        title = m.group(1).strip()
    res = "; ".join(f"{p}: {c['verdict']}" for p, c in sorted(meta.get("checks", {}).items())) or "not run"
    rows.append((sid, ", ".join(os.path.basename(f) for f in meta["files_changed"]), title[:90], res))
print("| seed | file(s) | change | checks |")
print("|------|---------|--------|--------|")
for r in rows:
    print("| " + " | ".join(r) + " |")
