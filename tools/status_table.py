#!/usr/bin/env python3
"""Print the per-property status table of DESIGN.md section 14.1 from evidence/*.json (numbers of the last run)."""
import json, os
ROOT = os.path.dirname(os.path.dirname(os.path.abspath(__file__)))
TIE = {"C03": "theorem", "C04": "theorem", "C05": "theorem", "C06": "theorem", "C07": "theorem", "C08": "theorem (entry functions)",
       "C12": "theorem (options, `missing`, `handler_addr`) + generated tables", "C14": "theorem (selectors, descriptors)",
       "C15": "theorem (TSS descriptor, presets) + generated consts", "C19": "theorem (codecs) + generated constants",
       "C20": "theorem (recursive addresses)"}
def short(n):
    return f"{n/1e6:.2f} M" if n >= 1e6 else (f"{n/1e3:.1f} k" if n >= 1e3 else str(n))
print("| id | tier of the numbers | theorems audited | protocol lines | of them replayed on the generated definitions | tie to the source |")
print("|----|------|------|------|------|------|")
for i in range(1, 21):
    pid = f"C{i:02d}"
    d = json.load(open(os.path.join(ROOT, "evidence", pid + ".json")))
    c = d["coverage"]
    st = c.get("source_tie") or {}
    tie = TIE.get(pid, "correspondence" + (" + generated tables" if pid in ("C11", "C13", "C16", "C17", "C18") else ""))
    if st:
        tie += f" ({st.get('tie_theorems', 0)} tie theorems) + correspondence"
    print(f"| {pid} | {d['tier']} | {c['discharged']}/{c['obligations']} | {short(c['evaluations'])} | "
          f"{short(st.get('third_voice_lines', 0)) if st else '—'} | {tie} |")
