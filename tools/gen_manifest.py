#!/usr/bin/env python3
"""Regenerate MANIFEST.json from checks.py (claimed properties) and properties.jsonl."""
import json, os, sys
ROOT = os.path.dirname(os.path.dirname(os.path.abspath(__file__)))
sys.path.insert(0, ROOT)
from checks import PROPS, NOT_APPLICABLE, HOOK_COMMITS

props = [json.loads(l) for l in open(os.path.join(ROOT, "properties.jsonl"))]
checks = []
for p in props:
    pid = p["id"]
    if pid not in PROPS:
        continue
    c = PROPS[pid]
    checks.append({
        "property_id": pid,
        "quick_cmd": f"python3 run.py check {pid} --tier quick",
        "thorough_cmd": f"python3 run.py check {pid} --tier thorough",
        "evidence_file": f"/verif/evidence/{pid}.json",
        "replay_cmd_template": "python3 run.py replay {path}",
        "engine": "lean4-proof+correspondence",
        "level_claimed": {"category": "proof", "text": c["level_text"], "design_ref": c.get("design_ref", "DESIGN.md section 8, " + pid)},
        "level_note": c["level_note"],
        "technique": c.get("technique", "Lean 4 theorems over a hand-written executable model + differential correspondence check against the real crate"),
    })
na = []
for p in props:
    if p["id"] not in PROPS:
        na.append({"property_id": p["id"], "reason": NOT_APPLICABLE.get(p["id"], "check not built yet (work in progress; see DESIGN.md section 13)")})
m = {
    "version": 1,
    "setup_cmd": "python3 run.py setup",
    "hooks": {
        "guard": "verif_hooks",
        "enable": "cargo feature `verif_hooks` of the x86_64 crate, switched on by the harness' path dependency (harness/Cargo.toml)",
        "baseline_off_cmd": "cd /repo && cargo test --workspace --no-fail-fast --offline",
        "source_commits": HOOK_COMMITS,
        "add_only": True,
    },
    "engines": [{
        "name": "lean4-proof+correspondence", "path": "/verif/run.py",
        "serves_properties": [c["property_id"] for c in checks],
        "kind_free_text": "Lean 4 kernel-checked theorems about an executable model (lean/X86Model), tied to /repo on every run by source translators (translator/extract.py -> lean/X86Model/Generated: constant/IDT/asm! tables and, for the pure integer layer, a function translator whose output is proved equal to the models) and a Rust correspondence harness (harness/) that drives the real crate, the compiled Lean model and the generated definitions on the same cases",
    }],
    "checks": checks,
    "not_applicable": na,
    "notes": "All checks: exit 0 = property held on everything explored; exit 1 + VIOLATION line otherwise; exit 2 + FRAMEWORK-ERROR = the machinery itself failed (not a verdict). See DESIGN.md.",
}
json.dump(m, open(os.path.join(ROOT, "MANIFEST.json"), "w"), indent=1)
print("claimed:", [c["property_id"] for c in checks])
