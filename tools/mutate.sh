#!/bin/bash
# usage: mut.sh <prop> <file> <python-replace-expr old> <new>   (runs check against a mutated copy)
set -e
PROP=$1; FILE=$2; OLD=$3; NEW=$4
if [ ! -d /tmp/repo-trap ]; then git -C /repo worktree add --detach /tmp/repo-trap >/dev/null 2>&1; fi
git -C /tmp/repo-trap checkout -q -- . ; git -C /tmp/repo-trap checkout -q --detach $(git -C /repo rev-parse HEAD)
python3 - "$FILE" "$OLD" "$NEW" <<'PY'
import sys
p='/tmp/repo-trap/'+sys.argv[1]; s=open(p).read()
old,new=sys.argv[2],sys.argv[3]
assert s.count(old)>=1, "pattern not found"
s=s.replace(old,new,1); open(p,'w').write(s)
PY
sed -i 's#path = "/repo"#path = "/tmp/repo-trap"#' /wt/trap/harness/Cargo.toml
cd /wt/trap && sed -i 's#^REPO = "/repo"#REPO = "/tmp/repo-trap"#' run.py
python3 run.py check $PROP 2>&1 | tail -4; echo "rc=$?"
sed -i 's#path = "/tmp/repo-trap"#path = "/repo"#' /wt/trap/harness/Cargo.toml
sed -i 's#^REPO = "/tmp/repo-trap"#REPO = "/repo"#' run.py
git -C /tmp/repo-trap checkout -q -- . ; git -C /tmp/repo-trap checkout -q --detach $(git -C /repo rev-parse HEAD)
