#!/usr/bin/env python3
"""Cross-check the hand-written architectural table (lean/X86Model/Spec/ArchTable.lean) against a
second, independent source that exists on this machine: the Linux UAPI headers

    /usr/include/x86_64-linux-gnu/asm/processor-flags.h   X86_EFLAGS_*, X86_CR0_*, X86_CR3_*, X86_CR4_*
    /usr/include/x86_64-linux-gnu/asm/debugreg.h          DR_TRAP*, DR_STEP, DR_SWITCH, DR_*_ENABLE*, DR_RW_*, DR_LEN_*

Only the groups RFlags, Cr0Flags, Cr3Flags, Cr4Flags, Dr6Flags, Dr7Flags, BreakpointCondition and
BreakpointSize have such a second source; everything else in the table rests on the manual reading alone.

Both files are parsed textually (no C compiler, no Lean). A disagreement between the table and the headers
means the *specification* is doubtful: that is a framework error (exit 2), never a property violation.
Exit 0: every mapped row agrees. Rows of the cross-checked groups that have no counterpart in the headers
are listed (informational).
"""
import os
import re
import sys

ROOT = os.path.dirname(os.path.dirname(os.path.abspath(__file__)))
TABLE = os.path.join(ROOT, "lean", "X86Model", "Spec", "ArchTable.lean")
HDR_DIR = "/usr/include/x86_64-linux-gnu/asm"
HEADERS = [os.path.join(HDR_DIR, "processor-flags.h"), os.path.join(HDR_DIR, "debugreg.h")]

# table row (type, name)  ->  C expression over the header's macros.
# The correspondence is by the *meaning* documented on both sides (SDM mnemonic in the table's row
# comment, comment in the header), not by value.
MAP = {
    ("RFlags", "CARRY_FLAG"): "X86_EFLAGS_CF",
    ("RFlags", "PARITY_FLAG"): "X86_EFLAGS_PF",
    ("RFlags", "AUXILIARY_CARRY_FLAG"): "X86_EFLAGS_AF",
    ("RFlags", "ZERO_FLAG"): "X86_EFLAGS_ZF",
    ("RFlags", "SIGN_FLAG"): "X86_EFLAGS_SF",
    ("RFlags", "TRAP_FLAG"): "X86_EFLAGS_TF",
    ("RFlags", "INTERRUPT_FLAG"): "X86_EFLAGS_IF",
    ("RFlags", "DIRECTION_FLAG"): "X86_EFLAGS_DF",
    ("RFlags", "OVERFLOW_FLAG"): "X86_EFLAGS_OF",
    ("RFlags", "IOPL_LOW"): "1 << X86_EFLAGS_IOPL_BIT",
    ("RFlags", "IOPL_HIGH"): "X86_EFLAGS_IOPL & ~(1 << X86_EFLAGS_IOPL_BIT)",
    ("RFlags", "NESTED_TASK"): "X86_EFLAGS_NT",
    ("RFlags", "RESUME_FLAG"): "X86_EFLAGS_RF",
    ("RFlags", "VIRTUAL_8086_MODE"): "X86_EFLAGS_VM",
    ("RFlags", "ALIGNMENT_CHECK"): "X86_EFLAGS_AC",
    ("RFlags", "VIRTUAL_INTERRUPT"): "X86_EFLAGS_VIF",
    ("RFlags", "VIRTUAL_INTERRUPT_PENDING"): "X86_EFLAGS_VIP",
    ("RFlags", "ID"): "X86_EFLAGS_ID",
    ("Cr0Flags", "PROTECTED_MODE_ENABLE"): "X86_CR0_PE",
    ("Cr0Flags", "MONITOR_COPROCESSOR"): "X86_CR0_MP",
    ("Cr0Flags", "EMULATE_COPROCESSOR"): "X86_CR0_EM",
    ("Cr0Flags", "TASK_SWITCHED"): "X86_CR0_TS",
    ("Cr0Flags", "EXTENSION_TYPE"): "X86_CR0_ET",
    ("Cr0Flags", "NUMERIC_ERROR"): "X86_CR0_NE",
    ("Cr0Flags", "WRITE_PROTECT"): "X86_CR0_WP",
    ("Cr0Flags", "ALIGNMENT_MASK"): "X86_CR0_AM",
    ("Cr0Flags", "NOT_WRITE_THROUGH"): "X86_CR0_NW",
    ("Cr0Flags", "CACHE_DISABLE"): "X86_CR0_CD",
    ("Cr0Flags", "PAGING"): "X86_CR0_PG",
    ("Cr3Flags", "PAGE_LEVEL_WRITETHROUGH"): "X86_CR3_PWT",
    ("Cr3Flags", "PAGE_LEVEL_CACHE_DISABLE"): "X86_CR3_PCD",
    ("Cr4Flags", "VIRTUAL_8086_MODE_EXTENSIONS"): "X86_CR4_VME",
    ("Cr4Flags", "PROTECTED_MODE_VIRTUAL_INTERRUPTS"): "X86_CR4_PVI",
    ("Cr4Flags", "TIMESTAMP_DISABLE"): "X86_CR4_TSD",
    ("Cr4Flags", "DEBUGGING_EXTENSIONS"): "X86_CR4_DE",
    ("Cr4Flags", "PAGE_SIZE_EXTENSION"): "X86_CR4_PSE",
    ("Cr4Flags", "PHYSICAL_ADDRESS_EXTENSION"): "X86_CR4_PAE",
    ("Cr4Flags", "MACHINE_CHECK_EXCEPTION"): "X86_CR4_MCE",
    ("Cr4Flags", "PAGE_GLOBAL"): "X86_CR4_PGE",
    ("Cr4Flags", "PERFORMANCE_MONITOR_COUNTER"): "X86_CR4_PCE",
    ("Cr4Flags", "OSFXSR"): "X86_CR4_OSFXSR",
    ("Cr4Flags", "OSXMMEXCPT_ENABLE"): "X86_CR4_OSXMMEXCPT",
    ("Cr4Flags", "USER_MODE_INSTRUCTION_PREVENTION"): "X86_CR4_UMIP",
    ("Cr4Flags", "L5_PAGING"): "X86_CR4_LA57",
    ("Cr4Flags", "VIRTUAL_MACHINE_EXTENSIONS"): "X86_CR4_VMXE",
    ("Cr4Flags", "SAFER_MODE_EXTENSIONS"): "X86_CR4_SMXE",
    ("Cr4Flags", "FSGSBASE"): "X86_CR4_FSGSBASE",
    ("Cr4Flags", "PCID"): "X86_CR4_PCIDE",
    ("Cr4Flags", "OSXSAVE"): "X86_CR4_OSXSAVE",
    ("Cr4Flags", "SUPERVISOR_MODE_EXECUTION_PROTECTION"): "X86_CR4_SMEP",
    ("Cr4Flags", "SUPERVISOR_MODE_ACCESS_PREVENTION"): "X86_CR4_SMAP",
    ("Cr4Flags", "PROTECTION_KEY_USER"): "X86_CR4_PKE",
    ("Cr4Flags", "CONTROL_FLOW_ENFORCEMENT"): "X86_CR4_CET",
    ("Dr6Flags", "TRAP0"): "DR_TRAP0",
    ("Dr6Flags", "TRAP1"): "DR_TRAP1",
    ("Dr6Flags", "TRAP2"): "DR_TRAP2",
    ("Dr6Flags", "TRAP3"): "DR_TRAP3",
    ("Dr6Flags", "TRAP"): "DR_TRAP_BITS",
    ("Dr6Flags", "STEP"): "DR_STEP",
    ("Dr6Flags", "SWITCH"): "DR_SWITCH",
    # DR7: enable bit of register n = DR_{LOCAL,GLOBAL}_ENABLE << (n * DR_ENABLE_SIZE)
    ("Dr7Flags", "LOCAL_BREAKPOINT_0_ENABLE"): "DR_LOCAL_ENABLE << (0 * DR_ENABLE_SIZE)",
    ("Dr7Flags", "LOCAL_BREAKPOINT_1_ENABLE"): "DR_LOCAL_ENABLE << (1 * DR_ENABLE_SIZE)",
    ("Dr7Flags", "LOCAL_BREAKPOINT_2_ENABLE"): "DR_LOCAL_ENABLE << (2 * DR_ENABLE_SIZE)",
    ("Dr7Flags", "LOCAL_BREAKPOINT_3_ENABLE"): "DR_LOCAL_ENABLE << (3 * DR_ENABLE_SIZE)",
    ("Dr7Flags", "GLOBAL_BREAKPOINT_0_ENABLE"): "DR_GLOBAL_ENABLE << (0 * DR_ENABLE_SIZE)",
    ("Dr7Flags", "GLOBAL_BREAKPOINT_1_ENABLE"): "DR_GLOBAL_ENABLE << (1 * DR_ENABLE_SIZE)",
    ("Dr7Flags", "GLOBAL_BREAKPOINT_2_ENABLE"): "DR_GLOBAL_ENABLE << (2 * DR_ENABLE_SIZE)",
    ("Dr7Flags", "GLOBAL_BREAKPOINT_3_ENABLE"): "DR_GLOBAL_ENABLE << (3 * DR_ENABLE_SIZE)",
    ("Dr7Flags", "LOCAL_EXACT_BREAKPOINT_ENABLE"): "DR_LOCAL_SLOWDOWN",
    ("Dr7Flags", "GLOBAL_EXACT_BREAKPOINT_ENABLE"): "DR_GLOBAL_SLOWDOWN",
    # R/W and LEN encodings; the header gives LEN pre-shifted by 2 inside the 4-bit control nibble
    ("BreakpointCondition", "InstructionExecution"): "DR_RW_EXECUTE",
    ("BreakpointCondition", "DataWrites"): "DR_RW_WRITE",
    ("BreakpointCondition", "DataReadsWrites"): "DR_RW_READ",
    ("BreakpointSize", "Length1B"): "DR_LEN_1 >> 2",
    ("BreakpointSize", "Length2B"): "DR_LEN_2 >> 2",
    ("BreakpointSize", "Length4B"): "DR_LEN_4 >> 2",
    ("BreakpointSize", "Length8B"): "DR_LEN_8 >> 2",
}

# Consistency conditions between the headers and the layout constants of Spec/Codecs.lean.
LAYOUT = [
    ("DR_CONTROL_SHIFT", 16, "dr7RWLsb 0"),
    ("DR_CONTROL_SIZE", 4, "field stride of dr7RWLsb/dr7LENLsb"),
    ("DR_ENABLE_SIZE", 2, "dr7L/dr7G stride"),
    ("X86_CR3_PCID_BITS", 12, "isPcid"),
    ("~DR_CONTROL_RESERVED & 0xFFFFFFFFFFFFFFFF & ~(1 << 11) & ~(1 << 13)", 0xFFFF03FF,
     "dr7DefinedMask without RTM (bit 11) and GD (bit 13), which this header version still counts as reserved"),
]

CROSSCHECKED_GROUPS = ["RFlags", "Cr0Flags", "Cr3Flags", "Cr4Flags", "Dr6Flags", "Dr7Flags",
                       "BreakpointCondition", "BreakpointSize"]


class CrossError(Exception):
    pass


def parse_headers():
    macros = {}
    for h in HEADERS:
        if not os.path.exists(h):
            raise CrossError(f"header not found: {h}")
        text = open(h).read()
        text = re.sub(r"/\*.*?\*/", " ", text, flags=re.S)
        text = text.replace("\\\n", " ")
        # take the x86_64 branch of `#ifdef __i386__ ... #else ... #endif`
        text = re.sub(r"#ifdef __i386__.*?#else(.*?)#endif", r"\1", text, flags=re.S)
        for m in re.finditer(r"^[ \t]*#[ \t]*define[ \t]+(\w+)[ \t]+(.+?)[ \t]*$", text, re.M):
            macros[m.group(1)] = m.group(2)
    return macros


def c_eval(expr, macros, depth=0):
    if depth > 20:
        raise CrossError(f"macro recursion in {expr}")
    e = expr
    e = re.sub(r"_BITULL?\(([^()]*)\)", r"(1 << (\1))", e)
    e = re.sub(r"_AC\(\s*([^(),]+(?:\([^()]*\))?[^(),]*)\s*,\s*\w+\s*\)", r"(\1)", e)
    e = re.sub(r"\b(0[xX][0-9a-fA-F]+|\d+)[uUlL]+\b", r"\1", e)

    def sub(m):
        name = m.group(0)
        if name in macros:
            return "(" + str(c_eval(macros[name], macros, depth + 1)) + ")"
        raise CrossError(f"unknown macro {name} in `{expr}`")

    e = re.sub(r"\b[A-Za-z_]\w*\b", sub, e)
    if not re.fullmatch(r"[0-9a-fA-FxX\s()<>|&~+\-*]+", e):
        raise CrossError(f"cannot evaluate `{expr}` -> `{e}`")
    return eval(e, {"__builtins__": {}}, {}) & 0xFFFFFFFFFFFFFFFF  # noqa: S307 (digits and operators only)


ROW_RE = re.compile(r'\(\s*"(\w+)"\s*,\s*([^()]*?)\s*\)')


def lean_value(expr):
    expr = expr.strip()
    m = re.fullmatch(r"bit\s+(\d+)", expr)
    if m:
        return 1 << int(m.group(1))
    m = re.fullmatch(r"(0[xX][0-9a-fA-F]+|\d+)\s*<<<\s*(\d+)", expr)
    if m:
        return int(m.group(1), 0) << int(m.group(2))
    if re.fullmatch(r"0[xX][0-9a-fA-F]+|\d+", expr):
        return int(expr, 0)
    raise CrossError(f"table row value `{expr}` is not in the agreed textual form (bit k | literal | a <<< k)")


def parse_table():
    """{(type, name): value} by a textual parse of `def table`."""
    src = open(TABLE).read()
    start = src.index("def table")
    end = src.index("/-- The architectural value", start)
    body = src[start:end]
    body = re.sub(r"--[^\n]*", "", body)
    rows = {}
    # groups:  ("Type", [ rows ])
    for g in re.finditer(r'\(\s*"(\w+)"\s*,\s*\[(.*?)\]\s*\)', body, re.S):
        ty, inner = g.group(1), g.group(2)
        for r in ROW_RE.finditer(inner):
            key = (ty, r.group(1))
            if key in rows:
                raise CrossError(f"duplicate table row {key}")
            rows[key] = lean_value(r.group(2))
    if len(rows) < 100:
        raise CrossError(f"only {len(rows)} rows parsed from {TABLE}: the textual form changed?")
    return rows


def main():
    try:
        macros = parse_headers()
        rows = parse_table()
        bad, checked = [], 0
        for key, cexpr in sorted(MAP.items()):
            if key not in rows:
                bad.append(f"{key[0]}::{key[1]}: no such row in the table (mapped to `{cexpr}`)")
                continue
            hv = c_eval(cexpr, macros)
            checked += 1
            if hv != rows[key]:
                bad.append(f"{key[0]}::{key[1]}: table says {rows[key]:#x}, Linux headers say {hv:#x} (`{cexpr}`)")
        for cexpr, want, what in LAYOUT:
            hv = c_eval(cexpr, macros)
            checked += 1
            if hv != want:
                bad.append(f"layout {what}: spec uses {want:#x}, Linux headers give {hv:#x} (`{cexpr}`)")
        unmapped = [f"{t}::{n}" for (t, n) in sorted(rows) if t in CROSSCHECKED_GROUPS and (t, n) not in MAP]
    except CrossError as ex:
        print(f"crosscheck_archtable: FRAMEWORK-ERROR: {ex}")
        return 2
    if bad:
        print("crosscheck_archtable: FRAMEWORK-ERROR: the architectural table disagrees with the Linux UAPI headers:")
        for b in bad:
            print("  " + b)
        return 2
    print(f"crosscheck_archtable: ok: {checked} rows/layout facts agree with the Linux UAPI headers "
          f"({len(rows)} table rows in total); rows of cross-checked groups without a header counterpart: "
          f"{', '.join(unmapped) if unmapped else 'none'}")
    return 0


if __name__ == "__main__":
    sys.exit(main())
