#!/usr/bin/env python3
"""Run registered checks against seeded changes (seeded/<id>/patch.diff), one at a time, in a scratch worktree of /repo.

  seed_eval.py <verif dir to run from> <scratch repo worktree> <outdir> <seed id>[:<prop>[,<prop>…]] …

For each seed: reset the scratch worktree to /repo's HEAD, apply the patch, run `run.py check <prop> --tier quick`
with VERIF_REPO pointing at the scratch worktree (default prop: the seed's own property), record VIOLATION lines.
/repo itself is never modified. (The final confirmation of a seed against /repo proper is `git -C /repo apply`, run,
`git -C /repo checkout -- .` — same pipeline, VERIF_REPO unset.)"""
import json, os, re, subprocess, sys, time

def sh(cmd, cwd=None, env=None, timeout=7200):
    p = subprocess.run(cmd, cwd=cwd, shell=True, stdout=subprocess.PIPE, stderr=subprocess.STDOUT, text=True, env=env, timeout=timeout)
    return p.returncode, p.stdout

def main():
    vdir, mut, outdir = sys.argv[1:4]
    os.makedirs(outdir, exist_ok=True)
    if not os.path.isdir(mut):
        sh(f"git -C /repo worktree add --detach {mut}")
    head = sh("git -C /repo rev-parse HEAD")[1].strip()
    for spec in sys.argv[4:]:
        sid, _, props = spec.partition(":")
        props = props.split(",") if props else [sid.split("-")[0]]
        tier = os.environ.get("SEED_TIER", "quick")
        patch = os.path.join("/verif/seeded", sid, "patch.diff")
        sh(f"git checkout -q --detach {head} && git checkout -q -- . && git clean -fdq -e target", cwd=mut)
        rc, out = sh(f"git apply {patch}", cwd=mut)
        res = {"seed": sid, "applied": rc == 0, "checks": {}}
        if rc == 0:
            for p in props:
                t0 = time.time()
                env = dict(os.environ, VERIF_REPO=mut)
                rc, out = sh(f"python3 run.py check {p} --tier {tier}", cwd=vdir, env=env)
                viol = [l for l in out.split("\n") if l.startswith("VIOLATION") or l.startswith("FRAMEWORK-ERROR") or l.startswith("KNOWN-FINDING")]
                replay = None
                m = re.search(r"replay=(\S+)", "\n".join(viol))
                detail = None
                if m and os.path.exists(os.path.join(vdir, m.group(1))):
                    rp = json.load(open(os.path.join(vdir, m.group(1))))
                    detail = {"kind": rp.get("kind"), "cases": rp.get("cases", [])[:3],
                              "broken": [b.get("what") for b in rp.get("broken", [])]}
                res["checks"][p] = {"rc": rc, "tier": tier, "lines": viol, "summary": out.strip().split("\n")[-1][:400],
                                    "replay": detail, "wall_s": round(time.time() - t0, 1)}
        sh(f"git checkout -q -- . && git clean -fdq -e target", cwd=mut)
        json.dump(res, open(os.path.join(outdir, sid + ("" if tier == "quick" else "." + tier) + ".json"), "w"), indent=1)
        print(sid, {p: (c["rc"], c["lines"][:1]) for p, c in res["checks"].items()}, flush=True)

if __name__ == "__main__":
    main()
