//! C12 — IDT entries sit where the CPU looks and encode the architectural gate format.
//!
//! The real `InterruptDescriptorTable` is driven through every access path; what is compared is
//! always *memory*: pointer offsets of the references handed out, the raw 4096 bytes of the table
//! read through a pointer cast before/after a write (which 16-byte chunk changed, and to what),
//! the raw 16 bytes of an `Entry` after every call of a setter history, and the 10-byte operand of
//! the trapped `lidt`. Field names come from `c12_fields.rs`, which the translator regenerates
//! from the source on every run (so the extractor is validated against the compiled crate).
//!
//! Lines (see lean/X86Model/Driver/Idt.lean):
//!   idt_layout                      => size/align of table, entry, options, selector
//!   idt_field k                     => measured offset and size of public field k
//!   idt_missing f                   => raw bytes + handler_addr of Entry::<F_f>::missing()
//!   idt_new kind                    => chunks / distinct chunk values / first chunk of new(), default(), reset()
//!   idt_wr kind p1..p5 a cs         => write handler address a through an access path, diff the raw table
//!   idt_rd kind p1..p5 seed         => pre-fill the raw table with a pattern, read handler_addr through a path
//!   idt_range form path lo hi       => geometry of a range access (or panic)
//!   idt_entry cs n (kind arg)*      => raw entry after every call of a history
//!   idt_load kind base              => trapped lidt
//! Access path `kind`: 0 named field p1; 1 `idt[p1]` (p2: 0 Index, 1 IndexMut); 2 range form p1 via
//! path p2 (0 slice, 1 slice_mut, 2 Index<R>, 3 IndexMut<R>), bounds p3/p4, element p5; 3 named field
//! p1 through `set_handler_fn`.

use crate::c12_fields as gen;
use crate::gen::Rng;
use crate::out::Out;
use crate::trap;
use crate::Tier;
use core::arch::asm;
use core::mem::{align_of, size_of};
use core::ops::Bound::{self, Excluded, Included, Unbounded};
use core::ops::{Index, IndexMut, RangeBounds};
use std::panic::{catch_unwind, AssertUnwindSafe};
use x86_64::structures::gdt::SegmentSelector;
use x86_64::structures::idt::{
    DivergingHandlerFunc, DivergingHandlerFuncWithErrCode, Entry, EntryOptions, HandlerFunc,
    HandlerFuncWithErrCode, InterruptDescriptorTable, InterruptStackFrame, PageFaultErrorCode,
    PageFaultHandlerFunc,
};
use x86_64::{PrivilegeLevel, VirtAddr};

type Idt = InterruptDescriptorTable;
type Ent = Entry<HandlerFunc>;

// Handlers of the five types (never invoked; only their addresses are stored).
pub extern "x86-interrupt" fn h_plain(_f: InterruptStackFrame) {}
pub extern "x86-interrupt" fn h_err(_f: InterruptStackFrame, _e: u64) {}
pub extern "x86-interrupt" fn h_pf(_f: InterruptStackFrame, _e: PageFaultErrorCode) {}
pub extern "x86-interrupt" fn h_div(_f: InterruptStackFrame) -> ! {
    loop {
        core::hint::spin_loop();
    }
}
pub extern "x86-interrupt" fn h_div_err(_f: InterruptStackFrame, _e: u64) -> ! {
    loop {
        core::hint::spin_loop();
    }
}

/// The code-segment selector, read by the harness itself (`mov r16, cs` is not privileged).
fn read_cs() -> u16 {
    let cs: u16;
    unsafe {
        asm!("mov {0:x}, cs", out(reg) cs, options(nomem, nostack, preserves_flags));
    }
    cs
}

/// Run `f`; a panic becomes its message.
fn guard_msg<T>(f: impl FnOnce() -> T) -> Result<T, String> {
    match catch_unwind(AssertUnwindSafe(f)) {
        Ok(v) => Ok(v),
        Err(e) => Err(if let Some(s) = e.downcast_ref::<String>() {
            s.clone()
        } else if let Some(s) = e.downcast_ref::<&str>() {
            s.to_string()
        } else {
            "?".to_string()
        }),
    }
}

/// Same classification as `Idt.refusalOfMsg` in the Lean model.
fn reason(msg: &str) -> &'static str {
    if msg.contains("reserved") {
        "reserved"
    } else if msg.contains("error code") {
        "errorcode"
    } else if msg.contains("diverging") {
        "diverging"
    } else {
        "other"
    }
}

fn words(idt: &Idt) -> Vec<u64> {
    let n = size_of::<Idt>() / 8;
    let p = idt as *const Idt as *const u64;
    (0..n).map(|i| unsafe { core::ptr::read_volatile(p.add(i)) }).collect()
}

fn entry_words<F>(e: *const Entry<F>) -> (u64, u64) {
    assert_eq!(size_of::<Entry<F>>(), 16);
    let p = e as *const u64;
    unsafe { (core::ptr::read_volatile(p), core::ptr::read_volatile(p.add(1))) }
}

/// Fill pattern of chunk `j` for the read tests (the driver computes the same).
fn pattern(seed: u64, j: u64) -> (u64, u64) {
    let lo = seed.wrapping_mul(0x9e37_79b9_7f4a_7c15).wrapping_add(j.wrapping_mul(0x0123_4567_89ab_cdef));
    let hi = seed.wrapping_mul(0xbf58_476d_1ce4_e5b9).wrapping_add(j.wrapping_mul(0xfedc_ba98_7654_3211));
    (lo, hi)
}

fn fill(idt: &mut Idt, seed: u64) {
    let n = size_of::<Idt>() / 16;
    let p = idt as *mut Idt as *mut u64;
    for j in 0..n {
        let (lo, hi) = pattern(seed, j as u64);
        unsafe {
            core::ptr::write_volatile(p.add(2 * j), lo);
            core::ptr::write_volatile(p.add(2 * j + 1), hi);
        }
    }
}

// ---------------------------------------------------------------------------------- range forms

/// (start kind, end kind) of a form: 0 Included, 1 Excluded, 2 Unbounded.
pub fn form_kinds(form: u64) -> (u64, u64) {
    match form {
        0..=17 => ((form % 9) / 3, (form % 9) % 3),
        18 | 19 => (0, 1), // Range
        20 | 21 => (0, 2), // RangeFrom
        22 | 23 => (0, 0), // RangeInclusive
        24 | 25 => (2, 1), // RangeTo
        26 | 27 => (2, 0), // RangeToInclusive
        _ => (2, 2),       // RangeFull
    }
}
pub const N_FORMS: u64 = 29;

fn mk(kind: u64, v: u8) -> Bound<u8> {
    match kind {
        0 => Included(v),
        1 => Excluded(v),
        _ => Unbounded,
    }
}
fn mk_ref(kind: u64, v: &u8) -> Bound<&u8> {
    match kind {
        0 => Included(v),
        1 => Excluded(v),
        _ => Unbounded,
    }
}

/// Reach a range through one of the four paths; returns (address of the first element, length).
fn get<R>(r: R, idt: &mut Idt, path: u64) -> (usize, usize)
where
    R: RangeBounds<u8>,
    Idt: IndexMut<R, Output = [Ent]>,
{
    match path {
        0 => {
            let s = idt.slice(r);
            (s.as_ptr() as usize, s.len())
        }
        1 => {
            let s = idt.slice_mut(r);
            (s.as_mut_ptr() as usize, s.len())
        }
        2 => {
            let s = Index::index(&*idt, r);
            (s.as_ptr() as usize, s.len())
        }
        _ => {
            let s = IndexMut::index_mut(idt, r);
            (s.as_mut_ptr() as usize, s.len())
        }
    }
}

/// Build the range value of `form` from (lo, hi) and reach it.
fn reach(form: u64, lo: u8, hi: u8, idt: &mut Idt, path: u64) -> (usize, usize) {
    let (sk, ek) = form_kinds(form);
    match form {
        0..=8 => get((mk(sk, lo), mk(ek, hi)), idt, path),
        9..=17 => get((mk_ref(sk, &lo), mk_ref(ek, &hi)), idt, path),
        18 => get(lo..hi, idt, path),
        19 => get(&lo..&hi, idt, path),
        20 => get(lo.., idt, path),
        21 => get(&lo.., idt, path),
        22 => get(lo..=hi, idt, path),
        23 => get(&lo..=&hi, idt, path),
        24 => get(..hi, idt, path),
        25 => get(..&hi, idt, path),
        26 => get(..=hi, idt, path),
        27 => get(..=&hi, idt, path),
        _ => get(.., idt, path),
    }
}

// ---------------------------------------------------------------------------------- access paths

/// Outcome of reaching one entry: its address, or "empty range", or a panic message.
enum Reached {
    At(usize),
    Empty(usize),
    Panic(String),
}

fn reach_entry(idt: &mut Idt, kind: u64, p: [u64; 5]) -> Reached {
    let base = idt as *const Idt as usize;
    let _ = base;
    match kind {
        1 => {
            let v = p[0] as u8;
            let r = if p[1] == 0 {
                guard_msg(|| &idt[v] as *const Ent as usize)
            } else {
                guard_msg(|| &mut idt[v] as *mut Ent as usize)
            };
            match r {
                Ok(a) => Reached::At(a),
                Err(m) => Reached::Panic(m),
            }
        }
        2 => match guard_msg(|| reach(p[0], p[2] as u8, p[3] as u8, idt, p[1])) {
            Ok((ptr, len)) => {
                if (p[4] as usize) < len {
                    Reached::At(ptr + 16 * p[4] as usize)
                } else {
                    Reached::Empty(ptr)
                }
            }
            Err(m) => Reached::Panic(m),
        },
        _ => unreachable!(),
    }
}

fn diff(before: &[u64], after: &[u64]) -> (usize, usize, u64, u64) {
    let mut n = 0;
    let mut first = usize::MAX;
    for j in 0..before.len() / 2 {
        if before[2 * j] != after[2 * j] || before[2 * j + 1] != after[2 * j + 1] {
            n += 1;
            if first == usize::MAX {
                first = j;
            }
        }
    }
    if n == 0 {
        (0, 0, 0, 0)
    } else {
        (n, 16 * first, after[2 * first], after[2 * first + 1])
    }
}

/// One write case on a fresh table.
fn emit_wr(out: &mut Out, kind: u64, p: [u64; 5], a: u64, cs: u16) {
    let mut idt = Idt::new();
    let base = &idt as *const Idt as usize;
    let before = words(&idt);
    let mut a = a;
    let res: String = match kind {
        0 => {
            if gen::set_addr(&mut idt, p[0] as usize, VirtAddr::new(a)) {
                let (off, _) = gen::offset_size(&idt, p[0] as usize).unwrap();
                let addr = gen::get_addr(&idt, p[0] as usize).unwrap();
                let (n, o, lo, hi) = diff(&before, &words(&idt));
                format!("w {} {} {} {} {} {}", off, n, o, lo, hi, addr)
            } else {
                "p other".into()
            }
        }
        3 => match gen::set_fn(&mut idt, p[0] as usize) {
            Some(fa) => {
                a = fa;
                let (off, _) = gen::offset_size(&idt, p[0] as usize).unwrap();
                let addr = gen::get_addr(&idt, p[0] as usize).unwrap();
                let (n, o, lo, hi) = diff(&before, &words(&idt));
                format!("w {} {} {} {} {} {}", off, n, o, lo, hi, addr)
            }
            None => "p other".into(),
        },
        _ => match reach_entry(&mut idt, kind, p) {
            Reached::At(addr) => {
                let e = addr as *mut Ent;
                let back = unsafe {
                    (*e).set_handler_addr(VirtAddr::new(a));
                    (*e).handler_addr().as_u64()
                };
                let (n, o, lo, hi) = diff(&before, &words(&idt));
                format!("w {} {} {} {} {} {}", addr - base, n, o, lo, hi, back)
            }
            Reached::Empty(ptr) => format!("e {}", ptr - base),
            Reached::Panic(m) => {
                if kind == 1 {
                    format!("p {}", reason(&m))
                } else {
                    "p".into()
                }
            }
        },
    };
    out.emit("idt_wr", &[kind, p[0], p[1], p[2], p[3], p[4], a, cs as u64], &res, true);
}

/// One read case on a table pre-filled with the pattern of `seed`.
fn emit_rd(out: &mut Out, kind: u64, p: [u64; 5], seed: u64) {
    let mut idt = Idt::new();
    fill(&mut idt, seed);
    let base = &idt as *const Idt as usize;
    let res: String = match kind {
        0 => match (gen::offset_size(&idt, p[0] as usize), gen::get_addr(&idt, p[0] as usize)) {
            (Some((off, _)), Some(addr)) => format!("r {} {}", off, addr),
            _ => "p other".into(),
        },
        _ => match reach_entry(&mut idt, kind, p) {
            Reached::At(addr) => {
                let e = addr as *const Ent;
                let back = unsafe { (*e).handler_addr().as_u64() };
                format!("r {} {}", addr - base, back)
            }
            Reached::Empty(ptr) => format!("e {}", ptr - base),
            Reached::Panic(m) => {
                if kind == 1 {
                    format!("p {}", reason(&m))
                } else {
                    "p".into()
                }
            }
        },
    };
    out.emit("idt_rd", &[kind, p[0], p[1], p[2], p[3], p[4], seed], &res, true);
}

fn emit_range(out: &mut Out, idt: &mut Idt, form: u64, path: u64, lo: u8, hi: u8) {
    let base = idt as *const Idt as usize;
    let res = match guard_msg(|| reach(form, lo, hi, idt, path)) {
        Ok((ptr, len)) => format!("s {} {}", ptr - base, len),
        Err(_) => "p".into(),
    };
    out.emit("idt_range", &[form, path, lo as u64, hi as u64], &res, lo >= 30);
}

// ---------------------------------------------------------------------------------- entry histories

const RINGS: [PrivilegeLevel; 4] =
    [PrivilegeLevel::Ring0, PrivilegeLevel::Ring1, PrivilegeLevel::Ring2, PrivilegeLevel::Ring3];

/// ops: (kind, arg) with 0 set_handler_addr(arg), 1 set_present, 2 disable_interrupts,
/// 3 set_privilege_level, 4 set_stack_index, 5 set_code_selector. Option setters need the
/// `&mut EntryOptions` that only `set_handler_addr` hands out: before the first kind-0 op they are
/// not callable and the harness never generates them there.
fn run_entry(ops: &[(u64, u64)]) -> String {
    let mut e: Ent = Entry::missing();
    let ep = &mut e as *mut Ent;
    let mut opts: *mut EntryOptions = core::ptr::null_mut();
    let mut s = String::new();
    for &(k, arg) in ops {
        let r = guard_msg(|| unsafe {
            match k {
                0 => {
                    opts = (*ep).set_handler_addr(VirtAddr::new(arg)) as *mut EntryOptions;
                }
                1 => {
                    (*opts).set_present(arg != 0);
                }
                2 => {
                    (*opts).disable_interrupts(arg != 0);
                }
                3 => {
                    (*opts).set_privilege_level(RINGS[(arg & 3) as usize]);
                }
                4 => {
                    (*opts).set_stack_index(arg as u16);
                }
                _ => {
                    (*opts).set_code_selector(SegmentSelector(arg as u16));
                }
            }
        });
        let (lo, hi) = entry_words(ep);
        s.push_str(&format!("{} {} {} ", if r.is_ok() { "s" } else { "p" }, lo, hi));
    }
    let addr = unsafe { (*ep).handler_addr().as_u64() };
    s.push_str(&format!("a {}", addr));
    s
}

fn emit_entry(out: &mut Out, cs: u16, ops: &[(u64, u64)]) {
    let mut args = vec![cs as u64, ops.len() as u64];
    for &(k, a) in ops {
        args.push(k);
        args.push(a);
    }
    let res = run_entry(ops);
    out.emit("idt_entry", &args, &res, ops.len() > 1);
}

fn canon_boundary(rng: &mut Rng) -> u64 {
    match rng.below(8) {
        0 => {
            // a single bit (sign-extended when it is bit 47)
            let b = rng.below(48);
            if b == 47 {
                0xffff_8000_0000_0000
            } else {
                1u64 << b
            }
        }
        1 => {
            // all ones except one bit, in the upper half
            let b = rng.below(47);
            !(1u64 << b)
        }
        2 => rng.pick(&[
            0u64,
            0xffff,
            0x1_0000,
            0xffff_ffff,
            0x1_0000_0000,
            0x0000_7fff_ffff_ffff,
            0xffff_8000_0000_0000,
            0xffff_ffff_ffff_ffff,
            0xffff_ffff_0000_0000,
            0x0000_0000_ffff_0000,
            0x0000_7fff_0000_ffff,
            0xffff_8000_ffff_0000,
        ]),
        _ => rng.canon(),
    }
}

fn stack_index_arg(rng: &mut Rng, out: &mut Out) -> u64 {
    match rng.below(10) {
        0..=5 => {
            out.input_class("stack_index:0..=6");
            rng.below(7)
        }
        6 => {
            out.input_class("stack_index:7");
            7
        }
        7 => {
            out.input_class("stack_index:8..16");
            8 + rng.below(8)
        }
        8 => {
            // 65535 (`index + 1` overflows) is exercised in a dedicated batch at the very end of the run
            out.input_class("stack_index:65534");
            65534
        }
        _ => {
            out.input_class("stack_index:random-u16");
            (rng.next() & 0xffff).min(65534)
        }
    }
}

fn selector_arg(rng: &mut Rng) -> u64 {
    match rng.below(4) {
        0 => rng.pick(&[0u64, 8, 0x10, 0x1b, 0x23, 0x33, 0xffff, 0xfff8, 0x8000, 1, 3]),
        1 => 1u64 << rng.below(16),
        _ => rng.next() & 0xffff,
    }
}

fn gen_history(rng: &mut Rng, out: &mut Out) -> Vec<(u64, u64)> {
    let mut ops = Vec::new();
    let groups = 1 + rng.below(3);
    for _ in 0..groups {
        let a = canon_boundary(rng);
        out.input_class(&format!("addr:{}", crate::gen::classify(a)));
        ops.push((0, a));
        let n = match rng.below(4) {
            0 => 0,
            1 => rng.below(3),
            _ => rng.below(9),
        };
        for _ in 0..n {
            let k = 1 + rng.below(5);
            let arg = match k {
                1 | 2 => rng.below(2),
                3 => rng.below(4),
                4 => stack_index_arg(rng, out),
                _ => selector_arg(rng),
            };
            out.input_class(match k {
                1 => "op:set_present",
                2 => "op:disable_interrupts",
                3 => "op:set_privilege_level",
                4 => "op:set_stack_index",
                _ => "op:set_code_selector",
            });
            ops.push((k, arg));
        }
    }
    ops
}

// ---------------------------------------------------------------------------------- run

static mut STATIC_IDT: Idt = Idt::new();

pub fn run(out: &mut Out, rng: &mut Rng, tier: Tier) {
    if let Err(e) = trap::selftest() {
        eprintln!("trap selftest FAILED: {}", e);
        std::process::exit(2);
    }
    let cs = read_cs();
    out.notes.insert("cs".into(), format!("{:#x}", cs));

    // ---- layout, measured on the compiled crate
    out.emit(
        "idt_layout",
        &[],
        &format!(
            "{} {} {} {} {} {}",
            size_of::<Idt>(),
            align_of::<Idt>(),
            size_of::<Ent>(),
            align_of::<Ent>(),
            size_of::<EntryOptions>(),
            size_of::<SegmentSelector>()
        ),
        true,
    );
    {
        let idt = Idt::new();
        for &k in gen::PUBLIC {
            let (off, size) = gen::offset_size(&idt, k).unwrap();
            out.emit("idt_field", &[k as u64], &format!("{} {}", off, size), true);
        }
    }

    // ---- missing(), for every handler type
    fn missing_line<F>() -> String {
        let e: Entry<F> = Entry::missing();
        let (lo, hi) = entry_words(&e as *const Entry<F>);
        format!("{} {} {} {}", lo, hi, e.handler_addr().as_u64(), size_of::<Entry<F>>())
    }
    out.emit("idt_missing", &[0], &missing_line::<HandlerFunc>(), true);
    out.emit("idt_missing", &[1], &missing_line::<HandlerFuncWithErrCode>(), true);
    out.emit("idt_missing", &[2], &missing_line::<PageFaultHandlerFunc>(), true);
    out.emit("idt_missing", &[3], &missing_line::<DivergingHandlerFunc>(), true);
    out.emit("idt_missing", &[4], &missing_line::<DivergingHandlerFuncWithErrCode>(), true);

    // ---- new(), default(), reset() after dirtying every byte
    let summarize = |idt: &Idt| -> String {
        let w = words(idt);
        let n = w.len() / 2;
        let mut distinct = std::collections::BTreeSet::new();
        for j in 0..n {
            distinct.insert((w[2 * j], w[2 * j + 1]));
        }
        format!("{} {} {} {}", n, distinct.len(), w[0], w[1])
    };
    out.emit("idt_new", &[0], &summarize(&Idt::new()), true);
    out.emit("idt_new", &[1], &summarize(&Idt::default()), true);
    for i in 0..tier.n(8, 64) {
        let mut idt = Idt::new();
        fill(&mut idt, rng.next());
        idt.reset();
        out.emit("idt_new", &[2 + i], &summarize(&idt), true);
    }

    // ---- writes through every access path (fresh table each, raw diff)
    let addr_for = |rng: &mut Rng| canon_boundary(rng) | 1; // never equal to the untouched pattern
    for &k in gen::PUBLIC {
        let a = addr_for(rng);
        emit_wr(out, 0, [k as u64, 0, 0, 0, 0], a, cs);
        emit_wr(out, 3, [k as u64, 0, 0, 0, 0], 0, cs);
        out.input_class("wr:named-field");
    }
    for v in 0..=255u64 {
        let a = addr_for(rng);
        emit_wr(out, 1, [v, 1, 0, 0, 0], a, cs);
        out.input_class("wr:index_mut");
    }
    // ranges: every form with a bounded start, both mutable paths, every vector as first and as last element
    let reps = tier.n(1, 4);
    for form in 0..N_FORMS {
        let (sk, ek) = form_kinds(form);
        for path in [1u64, 3] {
            for v in 30..=255u64 {
                for _ in 0..reps {
                    // (a) v is the first element
                    if sk != 2 && !(sk == 1 && v == 0) {
                        let lo = if sk == 0 { v } else { v - 1 };
                        let hi = match ek {
                            0 => v + rng.below(256 - v),
                            1 => (v + 1 + rng.below(256 - v)).min(255),
                            _ => 0,
                        };
                        emit_wr(out, 2, [form, path, lo, hi, 0], addr_for(rng), cs);
                        out.input_class("wr:range-first");
                    }
                    // (b) v is the last element
                    if sk != 2 && v >= 32 {
                        let first = 32 + rng.below(v - 31);
                        let lo = if sk == 0 { first } else { first - 1 };
                        let (hi, last) = match ek {
                            0 => (v, v),
                            1 => {
                                if v < 255 {
                                    (v + 1, v)
                                } else {
                                    (255, 254)
                                }
                            }
                            _ => (0, 255),
                        };
                        if last >= first {
                            emit_wr(out, 2, [form, path, lo, hi, last - first], addr_for(rng), cs);
                            out.input_class("wr:range-last");
                        }
                    }
                }
            }
        }
    }

    // ---- reads through every access path (raw pattern fill)
    for &k in gen::PUBLIC {
        emit_rd(out, 0, [k as u64, 0, 0, 0, 0], rng.next());
    }
    for v in 0..=255u64 {
        emit_rd(out, 1, [v, 0, 0, 0, 0], rng.next());
        emit_rd(out, 1, [v, 1, 0, 0, 0], rng.next());
    }
    for form in 0..N_FORMS {
        let (sk, ek) = form_kinds(form);
        if sk == 2 {
            continue;
        }
        for path in 0..4u64 {
            for v in 32..=255u64 {
                let lo = if sk == 0 { v } else { v - 1 };
                let hi = match ek {
                    0 => v + rng.below(256 - v),
                    1 => (v + 1 + rng.below(256 - v)).min(255),
                    _ => 0,
                };
                let len = match ek {
                    0 => hi + 1 - v,
                    1 => hi - v,
                    _ => 256 - v,
                };
                let k = if len == 0 { 0 } else { rng.below(len) };
                emit_rd(out, 2, [form, path, lo, hi, k], rng.next());
            }
        }
    }

    // ---- range geometry: every (lo, hi) of every form through every path
    {
        let mut idt = Idt::new();
        for form in 0..N_FORMS {
            let (sk, ek) = form_kinds(form);
            for path in 0..4u64 {
                // quick tier: the by-value forms exhaustively through all four paths; the by-reference
                // forms (`Bound<&u8>`, `Range<&u8>`, ...) on a stride that always includes the boundaries
                let by_ref = (9..=17).contains(&form) || (form >= 19 && form <= 27 && form % 2 == 1);
                let full = tier == Tier::Thorough || !by_ref;
                let los: Vec<u64> = if sk == 2 { vec![0] } else { (0..256).collect() };
                let his: Vec<u64> = if ek == 2 { vec![0] } else { (0..256).collect() };
                for &lo in &los {
                    for &hi in &his {
                        if !full {
                            let near = |x: u64| x <= 1 || (30..=34).contains(&x) || x >= 254;
                            let keep = (near(lo) || lo % 16 == (form + path) % 16)
                                && (near(hi) || hi % 16 == (form + 3 * path) % 16 || hi + 1 == lo || hi == lo || hi == lo + 1);
                            if !keep {
                                continue;
                            }
                        }
                        emit_range(out, &mut idt, form, path, lo as u8, hi as u8);
                    }
                }
            }
        }
    }

    // ---- entry histories
    // every single address bit, then random histories
    for b in 0..48u64 {
        let a = if b == 47 { 0xffff_8000_0000_0000 } else { 1u64 << b };
        emit_entry(out, cs, &[(0, a)]);
        emit_entry(out, cs, &[(0, (!(1u64 << b)) | 0xffff_8000_0000_0000)]);
    }
    for d in 0..4u64 {
        for i in 0..9u64 {
            for p in 0..2u64 {
                for dis in 0..2u64 {
                    emit_entry(out, cs, &[(0, 0x1000), (3, d), (4, i), (1, p), (2, dis)]);
                }
            }
        }
    }
    for _ in 0..tier.n(10_000, 1_000_000) {
        let ops = gen_history(rng, out);
        emit_entry(out, cs, &ops);
    }

    // ---- lidt
    let emit_load = |out: &mut Out, kind: u64, base: u64, r: trap::Run<()>| {
        let mut s = trap::trace_tokens(&r.events);
        if r.value.is_none() {
            s.push_str(" panic");
        }
        out.emit("idt_load", &[kind, base], &s, true);
    };
    for _ in 0..tier.n(16, 200) {
        // heap tables at varying addresses
        let pad: Vec<u8> = vec![0; (rng.below(64) * 16) as usize];
        let idt: &'static Idt = Box::leak(Box::new(Idt::new()));
        drop(pad);
        let base = idt as *const Idt as u64;
        let r = trap::run(|| idt.load());
        emit_load(out, 1, base, r);
        let r = trap::run(|| unsafe { idt.load_unsafe() });
        emit_load(out, 0, base, r);
    }
    {
        let idt = Idt::new();
        let base = &idt as *const Idt as u64;
        let r = trap::run(|| unsafe { idt.load_unsafe() });
        emit_load(out, 0, base, r);
        #[allow(static_mut_refs)]
        let st: &'static Idt = unsafe { &*core::ptr::addr_of!(STATIC_IDT) };
        let base = st as *const Idt as u64;
        let r = trap::run(|| st.load());
        emit_load(out, 1, base, r);
    }
    // ---- last: histories containing set_stack_index(65535), whose `index + 1` overflows u16 (panic with
    // overflow checks, wrap to 0 without). Kept at the end of the stream so that the cases of this one
    // profile-dependent call never crowd out anything else in the list of failing lines.
    for _ in 0..64 {
        let mut ops = gen_history(rng, out);
        let pos = 1 + rng.below(ops.len() as u64) as usize;
        ops.insert(pos, (4, 65535));
        out.input_class("stack_index:65535");
        emit_entry(out, cs, &ops);
    }
    emit_entry(out, cs, &[(0, 4096), (4, 65535)]);
    out.notes.insert("traps".into(), format!("{}", trap::total_traps()));
}
