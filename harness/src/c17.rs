//! C17 — `without_interrupts` / `enable` / `disable` / `are_enabled` / `enable_and_hlt` under the
//! trap harness. The interrupt flag lives in the emulated register file; the RFLAGS overlay hook
//! makes `rflags::read_raw()` (hence `are_enabled()`) see it, so the "interrupts were already
//! disabled" branch is reachable. Random nested programs are built from real closures; leaves
//! report the emulated flag they ran under.

use crate::gen::Rng;
use crate::out::Out;
use crate::trap::{self, Kind};
use crate::Tier;
use core::sync::atomic::Ordering;
use std::cell::RefCell;
use x86_64::instructions::interrupts;
use x86_64::verif_hooks::{RFLAGS_OVERLAY_MASK, RFLAGS_OVERLAY_VALUE};

enum Prog {
    Ret(u64),
    Wi(Box<Prog>),
    Seq(Box<Prog>, Box<Prog>),
    Enable,
    Disable,
    Query,
    Boom,
}

fn encode(p: &Prog, out: &mut Vec<u64>) {
    match p {
        Prog::Ret(v) => {
            out.push(0);
            out.push(*v)
        }
        Prog::Wi(b) => {
            out.push(1);
            encode(b, out)
        }
        Prog::Seq(a, b) => {
            out.push(2);
            encode(a, out);
            encode(b, out)
        }
        Prog::Enable => out.push(3),
        Prog::Disable => out.push(4),
        Prog::Query => out.push(5),
        Prog::Boom => out.push(6),
    }
}

fn depth(p: &Prog) -> u64 {
    match p {
        Prog::Wi(b) => depth(b) + 1,
        Prog::Seq(a, b) => depth(a).max(depth(b)),
        _ => 0,
    }
}

/// Run the program: every `Wi` is a real `without_interrupts` call around a real closure.
fn exec(p: &Prog, marks: &RefCell<Vec<u64>>) -> u64 {
    match p {
        Prog::Ret(v) => {
            marks.borrow_mut().push(2 * *v + trap::get_if() as u64);
            *v
        }
        Prog::Wi(b) => interrupts::without_interrupts(|| exec(b, marks)),
        Prog::Seq(a, b) => {
            let x = exec(a, marks);
            let y = exec(b, marks);
            x.wrapping_mul(31).wrapping_add(y)
        }
        Prog::Enable => {
            interrupts::enable();
            0
        }
        Prog::Disable => {
            interrupts::disable();
            0
        }
        Prog::Query => interrupts::are_enabled() as u64,
        Prog::Boom => panic!("boom"),
    }
}

struct Gen {
    max_depth: u64,
    raw: bool,
    budget: i64,
}

fn gen(rng: &mut Rng, g: &mut Gen, d: u64) -> Prog {
    g.budget -= 1;
    let leaf = |rng: &mut Rng, g: &Gen| -> Prog {
        match rng.below(20) {
            0..=11 => Prog::Ret(rng.below(1 << 32)),
            12..=16 => Prog::Query,
            17 if g.raw => Prog::Enable,
            18 if g.raw => Prog::Disable,
            19 if g.raw && rng.chance(1, 4) => Prog::Boom,
            _ => Prog::Ret(rng.below(4)),
        }
    };
    if d >= g.max_depth || g.budget <= 0 {
        return leaf(rng, g);
    }
    match rng.below(10) {
        0..=4 => Prog::Wi(Box::new(gen(rng, g, d + 1))),
        5..=7 => {
            let a = gen(rng, g, d);
            let b = gen(rng, g, d);
            Prog::Seq(Box::new(a), Box::new(b))
        }
        _ => leaf(rng, g),
    }
}

fn one(out: &mut Out, rng: &mut Rng, p: &Prog, if0: bool) {
    // arbitrary other RFLAGS bits through the overlay: `are_enabled` must look at bit 9 only
    let mask = if rng.chance(1, 2) { rng.next() | 0x200 } else { 0x200 };
    let val = rng.next();
    RFLAGS_OVERLAY_MASK.store(mask, Ordering::Relaxed);
    RFLAGS_OVERLAY_VALUE.store(val, Ordering::Relaxed);
    trap::set_if(if0);
    let rflags0 = x86_64::registers::rflags::read_raw();
    let before = *trap::regs();
    let marks = RefCell::new(Vec::new());
    let r = trap::run(|| exec(p, &marks));
    let after = *trap::regs();
    let mut b2 = before;
    b2.if_flag = after.if_flag;
    let same = b2 == after;
    let mut s = String::new();
    for e in &r.events {
        s.push_str(&e.tokens());
        s.push(' ');
    }
    match r.value {
        Some(v) => s.push_str(&format!("res {}", v)),
        None => s.push_str("res panic"),
    }
    s.push_str(&format!(" if {} same {} marks", after.if_flag as u8, same as u8));
    for m in marks.borrow().iter() {
        s.push_str(&format!(" {}", m));
    }
    let mut args = vec![rflags0];
    encode(p, &mut args);
    let nontrivial = r.events.iter().any(|e| e.kind == Kind::Cli) || !if0;
    out.input_class(&format!("if0={} depth={}", if0 as u8, depth(p).min(8)));
    out.emit("wi_prog", &args, &s, nontrivial);
    RFLAGS_OVERLAY_MASK.store(0x200, Ordering::Relaxed);
}

pub fn run(out: &mut Out, rng: &mut Rng, tier: Tier) {
    if let Err(e) = trap::selftest() {
        eprintln!("trap selftest FAILED: {}", e);
        std::process::exit(2);
    }
    let max_depth = tier.n(6, 40);
    // straight nests of every depth, both flags
    for n in 0..=max_depth {
        let mut p = Prog::Ret(n + 100);
        for _ in 0..n {
            p = Prog::Wi(Box::new(p));
        }
        one(out, rng, &p, true);
        one(out, rng, &p, false);
    }
    // the bare functions
    for p in [Prog::Enable, Prog::Disable, Prog::Query, Prog::Wi(Box::new(Prog::Query)), Prog::Wi(Box::new(Prog::Boom))] {
        one(out, rng, &p, true);
        one(out, rng, &p, false);
    }
    // random programs; 3 of 4 meet the property's premise (no raw enable/disable/panic leaves)
    for k in 0..tier.n(100_000, 2_000_000) {
        let md = 1 + rng.below(max_depth);
        let mut g = Gen { max_depth: md, raw: k % 4 == 3, budget: 4 + rng.below(40) as i64 };
        let p = gen(rng, &mut g, 0);
        let if0 = rng.chance(1, 2);
        one(out, rng, &p, if0);
    }
    // enable_and_hlt: the two traps must be at consecutive addresses
    for k in 0..tier.n(2_000, 20_000) {
        let if0 = k % 2 == 0;
        trap::set_if(if0);
        let rflags0 = x86_64::registers::rflags::read_raw();
        let r = trap::run(|| interrupts::enable_and_hlt());
        let mut s = String::new();
        for e in &r.events {
            s.push_str(&e.tokens());
            s.push(' ');
        }
        let adj = r.events.len() == 2 && r.events[1].rip == r.events[0].rip + 1;
        s.push_str(&format!("adj {} if {}", adj as u8, trap::get_if() as u8));
        out.emit("enable_and_hlt", &[rflags0], &s, true);
    }
    trap::set_if(true);
    out.notes.insert("traps".into(), format!("{}", trap::total_traps()));
    out.notes.insert("unexpected_instructions".into(), format!("{}", trap::unexpected_count() - 1));
    out.notes.insert("max_depth".into(), format!("{}", max_depth));
}
