//! C07 — address arithmetic is exact-or-panic; ranges iterate exactly what they count.

use crate::gen::{classify, Rng};
use crate::out::{fmt_r, guard, Out};
use crate::Tier;
use x86_64::structures::paging::frame::{PhysFrameRange, PhysFrameRangeInclusive};
use x86_64::structures::paging::page::{PageRange, PageRangeInclusive};
use x86_64::structures::paging::{Page, PageSize, PhysFrame, Size1GiB, Size2MiB, Size4KiB};
use x86_64::{PhysAddr, VirtAddr};

/// offsets that land sums/differences on boundaries
fn offset_for(rng: &mut Rng, a: u64) -> u64 {
    match rng.below(8) {
        0 => 0u64.wrapping_sub(a).wrapping_add(rng.below(5)).wrapping_sub(2), // a + n ~ 2^64
        1 => (1u64 << 47).wrapping_sub(a).wrapping_add(rng.below(5)).wrapping_sub(2),
        2 => (1u64 << 52).wrapping_sub(a).wrapping_add(rng.below(5)).wrapping_sub(2),
        3 => a.wrapping_add(rng.below(5)).wrapping_sub(2), // a - n ~ 0
        4 => 0xffff_8000_0000_0000u64.wrapping_sub(a).wrapping_add(rng.below(5)).wrapping_sub(2),
        5 => u64::MAX - rng.below(4),
        _ => rng.count(),
    }
}

fn page_arith<S: PageSize>(out: &mut Out, rng: &mut Rng) {
    let sz = S::SIZE;
    let p = Page::<S>::containing_address(VirtAddr::new(rng.canon()));
    let pa = p.start_address().as_u64();
    let n = match rng.below(4) {
        0 => offset_for(rng, pa) / sz,
        1 => (1u64 << 52) / (sz / 4096) * rng.below(4) + rng.below(3), // n * SIZE wraps to small values
        2 => (u64::MAX / sz).wrapping_add(rng.below(5)).wrapping_sub(2),
        _ => rng.count(),
    };
    out.emit("pg_add", &[sz, pa, n], &fmt_r(guard(|| (p + n).start_address().as_u64())), n != 0);
    out.emit("pg_sub", &[sz, pa, n], &fmt_r(guard(|| (p - n).start_address().as_u64())), n != 0);
    let q = Page::<S>::containing_address(VirtAddr::new(rng.canon()));
    let qa = q.start_address().as_u64();
    out.emit("pg_subpg", &[sz, pa, qa], &fmt_r(guard(|| p - q)), pa != qa);
    out.emit("pg_subpg", &[sz, qa, pa], &fmt_r(guard(|| q - p)), pa != qa);

    let f = PhysFrame::<S>::containing_address(PhysAddr::new(rng.phys()));
    let fa = f.start_address().as_u64();
    out.emit("fr_add", &[sz, fa, n], &fmt_r(guard(|| (f + n).start_address().as_u64())), n != 0);
    out.emit("fr_sub", &[sz, fa, n], &fmt_r(guard(|| (f - n).start_address().as_u64())), n != 0);
    let g = PhysFrame::<S>::containing_address(PhysAddr::new(rng.phys()));
    let ga = g.start_address().as_u64();
    out.emit("fr_subfr", &[sz, fa, ga], &fmt_r(guard(|| f - g)), fa != ga);
    out.emit("fr_subfr", &[sz, ga, fa], &fmt_r(guard(|| g - f)), fa != ga);
}

fn list_hash(items: &[u64]) -> u64 {
    let mut h: u64 = 0;
    for &x in items {
        // (h * 1000003 + x + 1) mod 2^64 computed without overflow traps
        h = h.wrapping_mul(1_000_003).wrapping_add(x).wrapping_add(1);
    }
    h
}

/// Drive an iterator for at most `fuel` calls of `next`.
fn run_iter<I: Iterator<Item = u64>>(mut it: I, fuel: u64) -> String {
    let mut items: Vec<u64> = Vec::new();
    let mut done = false;
    let r = guard(|| {
        for _ in 0..fuel {
            match it.next() {
                Some(x) => items.push(x),
                None => {
                    done = true;
                    break;
                }
            }
        }
    });
    match r {
        None => "items panic".to_string(),
        Some(()) if !done => "items toolong".to_string(),
        Some(()) => format!("items ok {} {}", items.len(), list_hash(&items)),
    }
}

fn ranges<S: PageSize>(out: &mut Out, rng: &mut Rng, fuel: u64) {
    let sz = S::SIZE;
    let maxlen = fuel - 1;
    // virtual: choose an anchor at a boundary or anywhere, then a length
    let last_lower = 0x0000_7fff_ffff_ffffu64 & !(sz - 1);
    let first_upper = 0xffff_8000_0000_0000u64;
    let last_upper = u64::MAX & !(sz - 1);
    let len = match rng.below(4) {
        0 => rng.below(4),
        1 => rng.below(maxlen),
        _ => rng.below(60),
    };
    let (s, e) = match rng.below(8) {
        0 => (last_lower.wrapping_sub(len * sz), last_lower),                  // ends at last lower page
        1 => (last_upper.wrapping_sub(len * sz), last_upper),                  // ends at last upper page
        2 => (0, len * sz),                                                    // starts at 0
        3 => (first_upper, first_upper + len * sz),                            // starts at first upper page
        4 => {
            // arbitrary placement inside one half
            let a = Page::<S>::containing_address(VirtAddr::new(rng.canon())).start_address().as_u64();
            let room = if a <= last_lower { (last_lower - a) / sz } else { (last_upper - a) / sz };
            (a, a + len.min(room) * sz)
        }
        5 => {
            // empty / reversed
            let a = Page::<S>::containing_address(VirtAddr::new(rng.canon())).start_address().as_u64();
            let b = Page::<S>::containing_address(VirtAddr::new(rng.canon())).start_address().as_u64();
            (a.max(b), a.min(b))
        }
        6 => (last_lower.wrapping_sub(len * sz), first_upper + rng.below(3) * sz), // spans the gap (outside the domain)
        _ => (last_lower.wrapping_sub(rng.below(3) * sz), last_lower.wrapping_sub(rng.below(3) * sz)),
    };
    let (s, e) = ((((s << 16) as i64) >> 16) as u64 & !(sz - 1), (((e << 16) as i64) >> 16) as u64 & !(sz - 1));
    out.input_class(classify(e));
    let ps = Page::<S>::containing_address(VirtAddr::new(s));
    let pe = Page::<S>::containing_address(VirtAddr::new(e));
    {
        let r = PageRange { start: ps, end: pe };
        let o = format!("len {} size {} {}", fmt_r(guard(|| r.len())), fmt_r(guard(|| r.size())),
            run_iter(r.map(|p| p.start_address().as_u64()), fuel));
        out.emit("range", &[0, sz, s, e, fuel], &o, s < e);
        let r = PageRangeInclusive { start: ps, end: pe };
        let o = format!("len {} size {} {}", fmt_r(guard(|| r.len())), fmt_r(guard(|| r.size())),
            run_iter(r.map(|p| p.start_address().as_u64()), fuel));
        out.emit("range", &[1, sz, s, e, fuel], &o, s <= e);
    }
    // physical
    let last_frame = 0x000f_ffff_ffff_ffffu64 & !(sz - 1);
    let (fs, fe) = match rng.below(5) {
        0 => (last_frame.wrapping_sub(len * sz) & 0x000f_ffff_ffff_ffff & !(sz - 1), last_frame),
        1 => (0, len * sz),
        2 => {
            let a = rng.phys() & !(sz - 1);
            let b = rng.phys() & !(sz - 1);
            (a.max(b), a.min(b))
        }
        _ => {
            let a = rng.phys() & !(sz - 1);
            (a, a + len.min((last_frame - a) / sz) * sz)
        }
    };
    let f1 = PhysFrame::<S>::containing_address(PhysAddr::new(fs));
    let f2 = PhysFrame::<S>::containing_address(PhysAddr::new(fe));
    let r = PhysFrameRange { start: f1, end: f2 };
    let o = format!("len {} size {} {}", fmt_r(guard(|| r.len())), fmt_r(guard(|| r.size())),
        run_iter(r.map(|p| p.start_address().as_u64()), fuel));
    out.emit("range", &[2, sz, fs, fe, fuel], &o, fs < fe);
    let r = PhysFrameRangeInclusive { start: f1, end: f2 };
    let o = format!("len {} size {} {}", fmt_r(guard(|| r.len())), fmt_r(guard(|| r.size())),
        run_iter(r.map(|p| p.start_address().as_u64()), fuel));
    out.emit("range", &[3, sz, fs, fe, fuel], &o, fs <= fe);
}

pub fn run(out: &mut Out, rng: &mut Rng, tier: Tier) {
    for _ in 0..tier.n(60_000, 2_000_000) {
        let a = rng.canon();
        out.input_class(classify(a));
        let n = offset_for(rng, a);
        let va = VirtAddr::new(a);
        out.emit("va_add", &[a, n], &fmt_r(guard(|| (va + n).as_u64())), n != 0);
        out.emit("va_sub", &[a, n], &fmt_r(guard(|| (va - n).as_u64())), n != 0);
        let mut w = va;
        let r = guard(|| {
            w += n;
            w.as_u64()
        });
        out.emit("va_add", &[a, n], &fmt_r(r), false);
        let mut w = va;
        let r = guard(|| {
            w -= n;
            w.as_u64()
        });
        out.emit("va_sub", &[a, n], &fmt_r(r), false);
        let b = rng.canon();
        out.emit("va_subaddr", &[a, b], &fmt_r(guard(|| va - VirtAddr::new(b))), a != b);
        out.emit("va_subaddr", &[b, a], &fmt_r(guard(|| VirtAddr::new(b) - va)), a != b);

        let p = rng.phys();
        let n = offset_for(rng, p);
        let pa = PhysAddr::new(p);
        out.emit("pa_add", &[p, n], &fmt_r(guard(|| (pa + n).as_u64())), n != 0);
        out.emit("pa_sub", &[p, n], &fmt_r(guard(|| (pa - n).as_u64())), n != 0);
        let mut w = pa;
        let r = guard(|| {
            w += n;
            w.as_u64()
        });
        out.emit("pa_add", &[p, n], &fmt_r(r), false);
        let q = rng.phys();
        out.emit("pa_subaddr", &[p, q], &fmt_r(guard(|| pa - PhysAddr::new(q))), p != q);
    }
    for _ in 0..tier.n(20_000, 1_000_000) {
        page_arith::<Size4KiB>(out, rng);
        page_arith::<Size2MiB>(out, rng);
        page_arith::<Size1GiB>(out, rng);
    }
    let fuel = tier.n(300, 2001);
    for _ in 0..tier.n(3_000, 30_000) {
        ranges::<Size4KiB>(out, rng, fuel);
        ranges::<Size2MiB>(out, rng, fuel);
        ranges::<Size1GiB>(out, rng, fuel);
    }
    // 2 MiB range -> 4 KiB range
    for _ in 0..tier.n(5_000, 200_000) {
        let s = Page::<Size2MiB>::containing_address(VirtAddr::new(rng.canon()));
        let e = if rng.chance(1, 2) {
            let d = rng.below(1000);
            guard(|| s + d).unwrap_or(s)
        } else {
            Page::<Size2MiB>::containing_address(VirtAddr::new(rng.canon()))
        };
        let r = PageRange { start: s, end: e };
        let r4 = r.as_4kib_page_range();
        let o = format!("{} {} {} {}", r4.start.start_address().as_u64(), r4.end.start_address().as_u64(),
            fmt_r(guard(|| r.size())), fmt_r(guard(|| r4.size())));
        out.emit("range4k", &[s.start_address().as_u64(), e.start_address().as_u64()], &o, true);
    }
}
