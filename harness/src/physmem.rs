//! Simulated physical memory for the mapper harness: a pool of 4 KiB frames with chosen physical
//! addresses, backed by a memfd (so the software MMU can map single frames elsewhere),
//! pre-filled with deterministic non-zero garbage, and diffed word by word after every call.

use std::collections::HashMap;
use x86_64::structures::paging::mapper::PageTableFrameMapping;
use x86_64::structures::paging::{PageTable, PhysFrame};

/// Same function as `X86.Driver.garbage` in the Lean driver.
pub fn garbage(seed: u64, f: u64, i: u64) -> u64 {
    let x = seed ^ (f.wrapping_add(8 * i)).wrapping_mul(0x9e37_79b9_7f4a_7c15);
    let mut z = x.wrapping_add(0x9e37_79b9_7f4a_7c15);
    z = (z ^ (z >> 30)).wrapping_mul(0xbf58_476d_1ce4_e5b9);
    z = (z ^ (z >> 27)).wrapping_mul(0x94d0_49bb_1331_11eb);
    z ^= z >> 31;
    // non-zero, but with an arbitrary PRESENT bit: a stale word of a recycled frame need not look present
    if z == 0 { 1 } else { z }
}

pub struct Pool {
    pub fd: i32,
    pub base: *mut u8,
    pub nframes: usize,
    /// physical address of every slot
    pub phys: Vec<u64>,
    pub slot_of: HashMap<u64, usize>,
    shadow: Vec<u64>,
    pub seed: u64,
}

impl Pool {
    /// `phys[k]` are the physical addresses of the slots; the last slot is the "foreign" page that
    /// stands in for every physical frame outside the pool (so stray accesses are seen, not fatal).
    pub fn new(phys: Vec<u64>, seed: u64) -> Pool {
        let nframes = phys.len();
        let len = nframes * 4096;
        unsafe {
            let fd = libc::memfd_create(b"verif-physmem\0".as_ptr() as *const libc::c_char, 0);
            assert!(fd >= 0, "memfd_create failed");
            assert_eq!(libc::ftruncate(fd, len as libc::off_t), 0);
            let base = libc::mmap(
                core::ptr::null_mut(),
                len,
                libc::PROT_READ | libc::PROT_WRITE,
                libc::MAP_SHARED,
                fd,
                0,
            );
            assert!(base != libc::MAP_FAILED, "mmap failed");
            let mut slot_of = HashMap::new();
            for (k, &p) in phys.iter().enumerate() {
                assert!(p % 4096 == 0);
                assert!(slot_of.insert(p, k).is_none(), "duplicate physical address");
            }
            let mut pool = Pool { fd, base: base as *mut u8, nframes, phys, slot_of, shadow: vec![0; nframes * 512], seed };
            pool.fill();
            pool
        }
    }

    fn fill(&mut self) {
        for k in 0..self.nframes {
            for i in 0..512 {
                let v = garbage(self.seed, self.phys[k], i as u64);
                unsafe { (self.base as *mut u64).add(k * 512 + i).write_volatile(v) };
                self.shadow[k * 512 + i] = v;
            }
        }
    }

    pub fn zero_frame(&mut self, slot: usize) {
        for i in 0..512 {
            unsafe { (self.base as *mut u64).add(slot * 512 + i).write_volatile(0) };
            self.shadow[slot * 512 + i] = 0;
        }
    }

    /// Set a word directly (initial state set-up); not reported as a change.
    pub fn poke(&mut self, slot: usize, i: usize, v: u64) {
        unsafe { (self.base as *mut u64).add(slot * 512 + i).write_volatile(v) };
        self.shadow[slot * 512 + i] = v;
    }

    pub fn peek(&self, slot: usize, i: usize) -> u64 {
        unsafe { (self.base as *const u64).add(slot * 512 + i).read_volatile() }
    }

    pub fn frame_ptr(&self, slot: usize) -> *mut PageTable {
        unsafe { self.base.add(slot * 4096) as *mut PageTable }
    }

    /// Words that changed since the last call, as (phys frame, index, new value), sorted; updates
    /// the shadow copy.
    pub fn diff(&mut self) -> Vec<(u64, u64, u64)> {
        let mut out = Vec::new();
        for k in 0..self.nframes {
            for i in 0..512 {
                let v = self.peek(k, i);
                if v != self.shadow[k * 512 + i] {
                    out.push((self.phys[k], i as u64, v));
                    self.shadow[k * 512 + i] = v;
                }
            }
        }
        out.sort();
        out
    }
}

impl Drop for Pool {
    fn drop(&mut self) {
        unsafe {
            libc::munmap(self.base as *mut libc::c_void, self.nframes * 4096);
            libc::close(self.fd);
        }
    }
}

/// `PageTableFrameMapping` through the pool's lookup table (an arbitrary injective mapping).
/// Frames outside the pool go to the foreign page (last slot).
pub struct PoolMapping {
    pub base: *mut u8,
    pub slot_of: HashMap<u64, usize>,
    pub foreign_slot: usize,
}

unsafe impl PageTableFrameMapping for PoolMapping {
    fn frame_to_pointer(&self, frame: PhysFrame) -> *mut PageTable {
        let slot = *self.slot_of.get(&frame.start_address().as_u64()).unwrap_or(&self.foreign_slot);
        unsafe { self.base.add(slot * 4096) as *mut PageTable }
    }
}
